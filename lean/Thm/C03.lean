import RbModel.Ctx
/-!
C03 — calls: the context's bookkeeping (fresh locals, STATIC and SHARED state).

Everything is stated over `RbModel.Ctx` (the port of `interpreter/context.rs` AFTER the F5 repair;
the pinned `do_pop` is kept as `doPopOld`/`runOld` for the witness).

Where each clause of the English property is stated:
* "the callee's other variables are fresh for each activation, including recursive ones"
    — `locals_fresh_per_activation` (from every reachable context, hence at every recursion depth);
* "variables of a STATIC subprogram keep their values from one call to the next no matter where it
  is called from" — `static_persists` (= `static_exit` + `static_reentry`, over arbitrary
  well-bracketed histories in between), `aStep_other`/`aRun_other` (nobody else touches the frame);
* "DIM SHARED variables … are the same objects in every subprogram" — `shared_is_global`
  (CONSTs are folded at compile time and never reach the context);
* the bookkeeping never panics and stays consistent — `ctx_inv`; it implements the abstract
  "stack of frames + STATIC frames + global frame" — `ctx_refines_abs`, `ctx_refines_abs_run`;
* the operation sequences emitted for calls, array allocation and handler episodes are
  well-bracketed — `balanced_call`, `balanced_arg`, `balanced_dim`, `wb_handler`;
* F5 on the pinned tree — `ctx_inv_old_false`, `f5_old_panics`, `f5_old_forgets` (negation of the
  full statement `CtxInvOld` on a concrete witness, by evaluation), `f5_new_remembers` for the repaired code.
NOT stated here (checked by the differential run only, see checks.d/C03.json → unproved): by-reference
write-back order, conversion of by-value arguments, FUNCTION result.
-/
namespace RbThm.C03
open RbModel.Ctx

/-! ### The invariant -/

/-- Number of states that reference block `i`. -/
def refs (ss : List St) (i : Nat) : Nat := ss.countP (fun s => s.blk == i)

/-- Stack discipline of block indices: a state whose block is an ordinary subprogram's block
(not the global block, not owned by a STATIC subprogram) lies above states with smaller-or-equal
indices only — strictly smaller if the state is a normal (non-collecting) one.
This is why `Vec::remove` never shifts a block that a remaining state refers to. -/
def Ordered (m : List (Nat × Nat)) : List St → Prop
  | [] => True
  | s :: rest =>
    (s.blk ≠ 0 → ownerOf m s.blk = none →
      ∀ t ∈ rest, t.blk ≤ s.blk ∧ (s.args = none → t.blk < s.blk)) ∧ Ordered m rest

/-- An argument-collecting state shares the block of the state below it. -/
def Shares : List St → Prop
  | s :: t :: r => (s.args ≠ none → s.blk = t.blk) ∧ Shares (t :: r)
  | _ => True

structure Inv (c : Ctx) : Prop where
  /-- the bottom state is the main module's: block 0, not collecting -/
  root : c.states.getLast? = some ⟨0, none⟩
  /-- block 0 exists and is not a STATIC block -/
  glob : ∃ b, c.blocks[0]? = some b ∧ b.isStatic = false
  /-- every state's block index is in range -/
  range : ∀ s ∈ c.states, s.blk < c.blocks.length
  /-- `ref_count` = number of referencing states (≥ 1); a STATIC block that has been left once
  keeps one extra count (`decrease_ref_count` does not go below 1) -/
  rc : ∀ i b, c.blocks[i]? = some b →
    (b.rc = refs c.states i ∧ 1 ≤ b.rc) ∨ (b.isStatic = true ∧ b.rc = refs c.states i + 1)
  /-- every static-map index is in range and points at a STATIC block -/
  statics : ∀ e ∈ c.statics, ∃ b, c.blocks[e.2]? = some b ∧ b.isStatic = true
  /-- the map has one entry per scope name … -/
  keys : (c.statics.map (·.1)).Nodup
  /-- … and different subprograms own different blocks -/
  idxs : (c.statics.map (·.2)).Nodup
  ordered : Ordered c.statics c.states
  shares : Shares c.states

/-! ### Small facts -/

theorem refs_cons (s : St) (ss : List St) (i : Nat) :
    refs (s :: ss) i = refs ss i + (if s.blk = i then 1 else 0) := by
  simp [refs, List.countP_cons]

theorem refs_zero_of_lt {ss : List St} {i : Nat} (h : ∀ t ∈ ss, t.blk < i) : refs ss i = 0 := by
  induction ss with
  | nil => simp [refs]
  | cons s ss ih =>
    rw [refs_cons, ih (fun t ht => h t (List.mem_cons_of_mem _ ht))]
    have := h s (List.mem_cons_self ..)
    simp; omega

theorem refs_pos_of_mem {ss : List St} {s : St} (h : s ∈ ss) : 1 ≤ refs ss s.blk := by
  induction ss with
  | nil => cases h
  | cons a ss ih =>
    rw [refs_cons]
    rcases List.mem_cons.mp h with rfl | h'
    · simp
    · have := ih h'; omega

theorem ownerOf_none_iff (m : List (Nat × Nat)) (i : Nat) :
    ownerOf m i = none ↔ ∀ e ∈ m, e.2 ≠ i := by
  induction m with
  | nil => simp [ownerOf]
  | cons e m ih =>
    obtain ⟨n, j⟩ := e
    by_cases h : j = i <;> simp [ownerOf, h, ih]

theorem ownerOf_some_mem {m : List (Nat × Nat)} {i n : Nat} (h : ownerOf m i = some n) : (n, i) ∈ m := by
  induction m with
  | nil => simp [ownerOf] at h
  | cons e m ih =>
    obtain ⟨n', j⟩ := e
    by_cases hj : j = i
    · simp [ownerOf, hj] at h; subst h; subst hj; simp
    · simp [ownerOf, hj] at h; exact List.mem_cons_of_mem _ (ih h)

theorem ownerOf_shift_of_lt (m : List (Nat × Nat)) {i k : Nat} (h : k < i) :
    ownerOf (shiftStatics i m) k = ownerOf m k := by
  induction m with
  | nil => rfl
  | cons e m ih =>
    obtain ⟨n, j⟩ := e
    simp only [shiftStatics, List.map_cons, ownerOf] at ih ⊢
    by_cases hj : i < j
    · have h1 : j - 1 ≠ k := by omega
      have h2 : j ≠ k := by omega
      simp [hj, h1, h2, ih]
    · simp [hj, ih]

theorem ordered_shift {m : List (Nat × Nat)} {i : Nat} {ss : List St}
    (hlt : ∀ t ∈ ss, t.blk < i) (h : Ordered m ss) : Ordered (shiftStatics i m) ss := by
  induction ss with
  | nil => trivial
  | cons s ss ih =>
    refine ⟨?_, ih (fun t ht => hlt t (List.mem_cons_of_mem _ ht)) h.2⟩
    rw [ownerOf_shift_of_lt m (hlt s (List.mem_cons_self ..))]
    exact h.1

theorem shares_tail {s : St} {ss : List St} (h : Shares (s :: ss)) : Shares ss := by
  cases ss with
  | nil => trivial
  | cons t r => exact h.2

theorem getLast?_tail {s : St} {ss : List St} {x : St} (hne : ss ≠ [])
    (h : (s :: ss).getLast? = some x) : ss.getLast? = some x := by
  cases ss with
  | nil => exact absurd rfl hne
  | cons t r => simpa [List.getLast?_cons_cons] using h

theorem mem_of_getLast? {ss : List St} {x : St} (h : ss.getLast? = some x) : x ∈ ss :=
  List.mem_of_getLast? h

/-! ### What the abstraction reads is preserved -/

/-- `c'` shows the states `ss`, the static frames and the global frame exactly as `c` does. -/
structure View (c c' : Ctx) (ss : List St) : Prop where
  frames : ∀ t ∈ ss, absFrame c' t = absFrame c t
  stat : (abs c').statics = (abs c).statics
  glob : varsAt c' 0 = varsAt c 0

theorem absFrame_congr {c c' : Ctx} (hs : c'.statics = c.statics) (hv : ∀ j, varsAt c' j = varsAt c j)
    (t : St) : absFrame c' t = absFrame c t := by
  simp [absFrame, hs, hv]

theorem view_of_same {c c' : Ctx} (hs : c'.statics = c.statics) (hv : ∀ j, varsAt c' j = varsAt c j)
    (ss : List St) : View c c' ss :=
  ⟨fun t _ => absFrame_congr hs hv t, by simp [abs, hs, hv], hv 0⟩

theorem varsAt_set_same {states statics} {blocks : List Blk} {i : Nat} {b b' : Blk}
    (hb : blocks[i]? = some b) (hv : b'.vars = b.vars) (st' : List St) (j : Nat) :
    varsAt ⟨st', blocks.set i b', statics⟩ j = varsAt ⟨states, blocks, statics⟩ j := by
  simp only [varsAt, List.getElem?_set]
  by_cases hij : i = j
  · subst hij
    rcases List.getElem?_eq_some_iff.mp hb with ⟨h, hbi⟩
    simp [h, hv, ← hbi]
  · simp [hij]

/-! ### `do_pop` -/

/-- `do_pop` when the block stays (its count drops, or it is STATIC). -/
theorem doPop_keep {c : Ctx} {s : St} {rest : List St} {b : Blk} (h : Inv c)
    (hs : c.states = s :: rest) (hne : rest ≠ []) (hb : c.blocks[s.blk]? = some b)
    (hk : (Blk.decRc b).2 = false) :
    Inv ⟨rest, c.blocks.set s.blk (Blk.decRc b).1, c.statics⟩ ∧
    View c ⟨rest, c.blocks.set s.blk (Blk.decRc b).1, c.statics⟩ rest := by
  obtain ⟨states, blocks, statics⟩ := c
  simp only at hs hb; subst hs
  have hvars : (Blk.decRc b).1.vars = b.vars := by unfold Blk.decRc; split <;> rfl
  have hstat : (Blk.decRc b).1.isStatic = b.isStatic := by unfold Blk.decRc; split <;> rfl
  have hlen : s.blk < blocks.length := h.range s (List.mem_cons_self ..)
  refine ⟨?_, ?_⟩
  rotate_left
  · apply view_of_same
    · rfl
    · intro j; exact varsAt_set_same hb hvars rest j
  refine ⟨getLast?_tail hne h.root, ?_, ?_, ?_, ?_, h.keys, h.idxs, h.ordered.2, shares_tail h.shares⟩
  · obtain ⟨g, hg, hgs⟩ := h.glob
    simp only at hg
    by_cases h0 : s.blk = 0
    · refine ⟨(Blk.decRc b).1, ?_, ?_⟩
      · rw [h0] at hlen; simp [List.getElem?_set, h0, hlen]
      · rw [hstat]; rw [h0] at hb; simp_all
    · exact ⟨g, by simp [h0, hg], hgs⟩
  · intro t ht
    simpa using h.range t (List.mem_cons_of_mem _ ht)
  · intro i bi hbi
    simp only [List.getElem?_set] at hbi
    have hrefs := refs_cons s rest i
    by_cases hi : s.blk = i
    · subst hi
      simp [hlen] at hbi; subst hbi
      have := h.rc s.blk b hb
      simp only [if_true] at hrefs
      unfold Blk.decRc at hk ⊢
      dsimp only at this
      split
      · rcases this with ⟨h1, h2⟩ | ⟨h1, h2⟩
        · left; dsimp only; omega
        · right; exact ⟨h1, by dsimp only; omega⟩
      · rename_i h1
        simp only [h1, if_false, Bool.not_eq_false'] at hk
        rcases this with ⟨h2, h3⟩ | ⟨h2, h3⟩
        · right; exact ⟨hk, by dsimp only; omega⟩
        · omega
    · simp [hi] at hbi
      have := h.rc i bi hbi
      simp only [if_neg hi] at hrefs
      simp_all
  · intro e he
    obtain ⟨be, hbe, hst⟩ := h.statics e he
    simp only at hbe
    by_cases hi : s.blk = e.2
    · refine ⟨(Blk.decRc b).1, ?_, ?_⟩
      · rw [hi] at hlen; simp [List.getElem?_set, hi, hlen]
      · rw [hstat]; rw [hi] at hb; simp_all
    · exact ⟨be, by simp [hi, hbe], hst⟩

theorem not_mem_of_refs_zero {ss : List St} {i : Nat} (h : refs ss i = 0) : ∀ t ∈ ss, t.blk ≠ i := by
  intro t ht hti
  have := refs_pos_of_mem ht
  rw [hti] at this; omega

theorem nodup_map_shift {i : Nat} {l : List Nat} (hl : l.Nodup) (hi : i ∉ l) :
    (l.map (fun j => if i < j then j - 1 else j)).Nodup := by
  induction l with
  | nil => simp
  | cons a l ih =>
    rw [List.nodup_cons] at hl
    simp only [List.mem_cons, not_or] at hi
    rw [List.map_cons, List.nodup_cons]
    refine ⟨?_, ih hl.2 hi.2⟩
    intro hmem
    rcases List.mem_map.mp hmem with ⟨b, hb, hbe⟩
    have hbi : b ≠ i := fun e => hi.2 (e ▸ hb)
    have hai : i ≠ a := hi.1
    have : a = b := by
      split at hbe <;> split at hbe <;> omega
    exact hl.1 (this ▸ hb)

theorem shiftStatics_map_fst (i : Nat) (m : List (Nat × Nat)) :
    (shiftStatics i m).map (·.1) = m.map (·.1) := by
  simp [shiftStatics, List.map_map, Function.comp_def]

theorem shiftStatics_map_snd (i : Nat) (m : List (Nat × Nat)) :
    (shiftStatics i m).map (·.2) = (m.map (·.2)).map (fun j => if i < j then j - 1 else j) := by
  simp [shiftStatics, List.map_map, Function.comp_def]

/-- `do_pop` when the block is removed (`Vec::remove`, indices above it shift). -/
theorem doPop_remove {c : Ctx} {s : St} {rest : List St} {b : Blk} (h : Inv c)
    (hs : c.states = s :: rest) (hne : rest ≠ []) (hb : c.blocks[s.blk]? = some b)
    (hk : (Blk.decRc b).2 = true) :
    Inv ⟨rest, c.blocks.eraseIdx s.blk, shiftStatics s.blk c.statics⟩ ∧
    View c ⟨rest, c.blocks.eraseIdx s.blk, shiftStatics s.blk c.statics⟩ rest := by
  obtain ⟨states, blocks, statics⟩ := c
  simp only at hs hb; subst hs
  have hlen : s.blk < blocks.length := h.range s (List.mem_cons_self ..)
  -- the block is an ordinary one, referenced by the popped state only
  have hrc1 : ¬ 1 < b.rc ∧ b.isStatic = false := by
    unfold Blk.decRc at hk; split at hk <;> simp_all
  have hroot : (⟨0, none⟩ : St) ∈ rest := mem_of_getLast? (getLast?_tail hne h.root)
  have hr0 : refs rest s.blk = 0 := by
    have := h.rc s.blk b hb
    have h2 := refs_cons s rest s.blk
    dsimp only at this
    simp only [if_true] at h2
    rcases this with ⟨h3, h4⟩ | ⟨h3, _⟩
    · omega
    · simp [hrc1.2] at h3
  have hne0 : s.blk ≠ 0 := by
    intro h0
    have := refs_pos_of_mem hroot
    rw [h0] at hr0; simp at this; omega
  have hown : ownerOf statics s.blk = none := by
    rw [ownerOf_none_iff]
    intro e he hei
    obtain ⟨be, hbe, hst⟩ := h.statics e he
    simp only at hbe
    rw [hei, hb] at hbe
    cases hbe; simp [hrc1.2] at hst
  have hnotidx : ∀ e ∈ statics, e.2 ≠ s.blk := (ownerOf_none_iff _ _).mp hown
  have hlt : ∀ t ∈ rest, t.blk < s.blk := by
    intro t ht
    have h1 := (h.ordered.1 hne0 hown t ht).1
    have h2 := not_mem_of_refs_zero hr0 t ht
    omega
  have hvars : ∀ (m : List (Nat × Nat)) j, j < s.blk →
      varsAt ⟨rest, blocks.eraseIdx s.blk, m⟩ j
        = varsAt ⟨s :: rest, blocks, statics⟩ j := by
    intro m j hj; simp [varsAt, List.getElem?_eraseIdx, hj]
  have hvars2 : ∀ (m : List (Nat × Nat)) j, s.blk < j →
      varsAt ⟨rest, blocks.eraseIdx s.blk, m⟩ (j - 1)
        = varsAt ⟨s :: rest, blocks, statics⟩ j := by
    intro m j hj
    have h1 : ¬ (j - 1 < s.blk) := by omega
    have h2 : j - 1 + 1 = j := by omega
    simp [varsAt, List.getElem?_eraseIdx, h1, h2]
  refine ⟨?_, ?_⟩
  rotate_left
  · refine ⟨?_, ?_, hvars _ 0 (by omega)⟩
    · intro t ht
      have := hlt t ht
      simp only [absFrame, ownerOf_shift_of_lt statics this, hvars _ t.blk this]
    · simp only [abs, shiftStatics, List.map_map]
      apply List.map_congr_left
      intro e he
      have := hnotidx e he
      simp only [Function.comp_def]
      by_cases hlt' : s.blk < e.2
      · simp only [if_pos hlt', hvars2 _ e.2 hlt']
      · simp only [if_neg hlt']; rw [hvars _ e.2 (by omega)]
  refine ⟨getLast?_tail hne h.root, ?_, ?_, ?_, ?_, ?_, ?_, ordered_shift hlt h.ordered.2,
    shares_tail h.shares⟩
  · obtain ⟨g, hg, hgs⟩ := h.glob
    refine ⟨g, ?_, hgs⟩
    have : 0 < s.blk := by omega
    simpa [List.getElem?_eraseIdx, this] using hg
  · intro t ht
    have := hlt t ht
    simp [List.length_eraseIdx, hlen]; omega
  · intro j bj hbj
    simp only [List.getElem?_eraseIdx] at hbj
    by_cases hj : j < s.blk
    · simp only [if_pos hj] at hbj
      have := h.rc j bj hbj
      have h2 := refs_cons s rest j
      have : ¬ s.blk = j := by omega
      simp only [if_neg this] at h2
      dsimp only at *
      simp_all
    · simp only [if_neg hj] at hbj
      have := h.rc (j + 1) bj hbj
      have h2 := refs_cons s rest (j + 1)
      have h3 : ¬ s.blk = j + 1 := by omega
      simp only [if_neg h3] at h2
      have h4 : refs rest (j + 1) = 0 := refs_zero_of_lt (fun t ht => by have := hlt t ht; omega)
      have h5 : refs rest j = 0 := refs_zero_of_lt (fun t ht => by have := hlt t ht; omega)
      dsimp only at *
      rw [h2, h4] at this
      rw [h5]; exact this
  · intro e' he'
    simp only [shiftStatics, List.mem_map] at he'
    obtain ⟨e, he, rfl⟩ := he'
    obtain ⟨be, hbe, hst⟩ := h.statics e he
    have := hnotidx e he
    refine ⟨be, ?_, hst⟩
    simp only at hbe ⊢
    by_cases hlt' : s.blk < e.2
    · have h1 : ¬ (e.2 - 1 < s.blk) := by omega
      have h2 : e.2 - 1 + 1 = e.2 := by omega
      simp [List.getElem?_eraseIdx, hlt', h1, h2, hbe]
    · have h1 : e.2 < s.blk := by omega
      simp [List.getElem?_eraseIdx, hlt', h1, hbe]
  · simpa [shiftStatics_map_fst] using h.keys
  · have := h.idxs
    simp only [shiftStatics_map_snd]
    apply nodup_map_shift this
    intro hmem
    rcases List.mem_map.mp hmem with ⟨e, he, hei⟩
    exact hnotidx e he hei

theorem doPop_spec {c : Ctx} {s : St} {rest : List St} (h : Inv c)
    (hs : c.states = s :: rest) (hne : rest ≠ []) :
    ∃ c', doPop c = .ok (s, c') ∧ c'.states = rest ∧ Inv c' ∧ View c c' rest := by
  have hlen : s.blk < c.blocks.length := h.range s (hs ▸ List.mem_cons_self ..)
  obtain ⟨b, hb⟩ : ∃ b, c.blocks[s.blk]? = some b :=
    ⟨c.blocks[s.blk], List.getElem?_eq_some_iff.mpr ⟨hlen, rfl⟩⟩
  unfold doPop
  rw [hs]; simp only [hb]
  by_cases hk : (Blk.decRc b).2 = true
  · have := doPop_remove h hs hne hb hk
    simp only [hk, if_true]
    exact ⟨_, rfl, rfl, this.1, this.2⟩
  · have hk' : (Blk.decRc b).2 = false := by simpa using hk
    have := doPop_keep h hs hne hb hk'
    simp only [hk', Bool.false_eq_true, if_false]
    exact ⟨_, rfl, rfl, this.1, this.2⟩

/-! ### pushes -/

theorem getLast?_cons_of_some {s x : St} {ss : List St} (h : ss.getLast? = some x) :
    (s :: ss).getLast? = some x := by
  cases ss with
  | nil => simp at h
  | cons t r => simpa [List.getLast?_cons_cons] using h

/-- `do_push_existing`. -/
theorem doPushExisting_spec {c : Ctx} {i : Nat} {b : Blk} (coll : Bool) (h : Inv c)
    (hb : c.blocks[i]? = some b)
    (hO : i ≠ 0 → ownerOf c.statics i = none →
      ∀ t ∈ c.states, t.blk ≤ i ∧ (coll = false → t.blk < i))
    (hS : coll = true → ∃ s rest, c.states = s :: rest ∧ s.blk = i) :
    doPushExisting c i coll
      = .ok ⟨⟨i, if coll then some [] else none⟩ :: c.states, c.blocks.set i (Blk.incRc b), c.statics⟩ ∧
    Inv ⟨⟨i, if coll then some [] else none⟩ :: c.states, c.blocks.set i (Blk.incRc b), c.statics⟩ ∧
    View c ⟨⟨i, if coll then some [] else none⟩ :: c.states, c.blocks.set i (Blk.incRc b), c.statics⟩
      c.states := by
  obtain ⟨states, blocks, statics⟩ := c
  simp only at hb hO hS
  have hlen : i < blocks.length := (List.getElem?_eq_some_iff.mp hb).1
  refine ⟨by simp [doPushExisting, hb], ?_, ?_⟩
  rotate_left
  · apply view_of_same
    · rfl
    · intro j; exact varsAt_set_same (states := states) (b' := Blk.incRc b) hb rfl _ j
  refine ⟨getLast?_cons_of_some h.root, ?_, ?_, ?_, ?_, h.keys, h.idxs, ?_, ?_⟩
  · obtain ⟨g, hg, hgs⟩ := h.glob
    simp only at hg
    by_cases h0 : i = 0
    · subst h0
      refine ⟨Blk.incRc b, by simp [List.getElem?_set, hlen], ?_⟩
      rw [hb] at hg; cases hg; exact hgs
    · exact ⟨g, by simp [List.getElem?_set, h0, hg], hgs⟩
  · intro t ht
    rcases List.mem_cons.mp ht with rfl | ht
    · simpa using hlen
    · simpa using h.range t ht
  · intro j bj hbj
    simp only [List.getElem?_set] at hbj
    have hrefs := refs_cons ⟨i, if coll then some [] else none⟩ states j
    by_cases hi : i = j
    · subst hi
      simp [hlen] at hbj; subst hbj
      have := h.rc i b hb
      dsimp only at this hrefs ⊢
      simp only [if_true] at hrefs
      rcases this with ⟨h1, h2⟩ | ⟨h1, h2⟩
      · left; simp only [Blk.incRc]; omega
      · right; exact ⟨h1, by simp only [Blk.incRc]; omega⟩
    · simp [hi] at hbj
      have := h.rc j bj hbj
      dsimp only at this hrefs ⊢
      simp only [if_neg hi] at hrefs
      rw [hrefs]; simpa using this
  · intro e he
    obtain ⟨be, hbe, hst⟩ := h.statics e he
    simp only at hbe
    by_cases hi : i = e.2
    · refine ⟨Blk.incRc b, by simp [List.getElem?_set, hi.symm ▸ hlen, hi], ?_⟩
      rw [← hi, hb] at hbe; cases hbe; exact hst
    · exact ⟨be, by simp [List.getElem?_set, hi, hbe], hst⟩
  · exact ⟨fun h0 hown t ht => by
      have := hO h0 hown t ht
      refine ⟨this.1, fun hn => this.2 ?_⟩
      cases coll <;> simp_all, h.ordered⟩
  · cases hst : states with
    | nil => trivial
    | cons t r =>
      refine ⟨fun hc => ?_, hst ▸ h.shares⟩
      have hcoll : coll = true := by cases coll <;> simp_all
      obtain ⟨s', rest', hs', hsi⟩ := hS hcoll
      rw [hst] at hs'; cases hs'; exact hsi.symm

theorem varsAt_append_lt {st st' : List St} {m m' : List (Nat × Nat)} {blocks : List Blk} {b : Blk}
    {j : Nat} (hj : j < blocks.length) :
    varsAt ⟨st', blocks ++ [b], m'⟩ j = varsAt ⟨st, blocks, m⟩ j := by
  simp [varsAt, List.getElem?_append, hj]

theorem ownerOf_append_of_ne (m : List (Nat × Nat)) {n i k : Nat} (h : k ≠ i) :
    ownerOf (m ++ [(n, i)]) k = ownerOf m k := by
  induction m with
  | nil => simp [ownerOf, Ne.symm h]
  | cons e m ih =>
    obtain ⟨n', j⟩ := e
    simp only [List.cons_append, ownerOf, ih]

theorem ordered_append {m : List (Nat × Nat)} {n i : Nat} {ss : List St}
    (hlt : ∀ t ∈ ss, t.blk < i) (h : Ordered m ss) : Ordered (m ++ [(n, i)]) ss := by
  induction ss with
  | nil => trivial
  | cons s ss ih =>
    refine ⟨?_, ih (fun t ht => hlt t (List.mem_cons_of_mem _ ht)) h.2⟩
    have := hlt s (List.mem_cons_self ..)
    rw [ownerOf_append_of_ne m (by omega)]
    exact h.1

theorem lookupStatic_none_iff (m : List (Nat × Nat)) (n : Nat) :
    lookupStatic m n = none ↔ ∀ e ∈ m, e.1 ≠ n := by
  induction m with
  | nil => simp [lookupStatic]
  | cons e m ih =>
    obtain ⟨n', j⟩ := e
    by_cases h : n' = n <;> simp [lookupStatic, h, ih]

theorem lookupStatic_some_mem {m : List (Nat × Nat)} {n i : Nat} (h : lookupStatic m n = some i) :
    (n, i) ∈ m := by
  induction m with
  | nil => simp [lookupStatic] at h
  | cons e m ih =>
    obtain ⟨n', j⟩ := e
    by_cases hj : n' = n
    · simp [lookupStatic, hj] at h; subst h; subst hj; simp
    · simp [lookupStatic, hj] at h; exact List.mem_cons_of_mem _ (ih h)

/-- `do_push_new`, optionally registering the new block as the STATIC block of a fresh name. -/
theorem doPushNew_spec {states : List St} {blocks : List Blk} {statics : List (Nat × Nat)}
    (vars : Vars) (st : Bool) (m' : List (Nat × Nat)) (h : Inv ⟨states, blocks, statics⟩)
    (hm : m' = statics ∨
      ∃ n, m' = statics ++ [(n, blocks.length)] ∧ lookupStatic statics n = none ∧ st = true) :
    Inv ⟨⟨blocks.length, none⟩ :: states, blocks ++ [⟨1, st, vars⟩], m'⟩ ∧
    (∀ t ∈ states, absFrame ⟨⟨blocks.length, none⟩ :: states, blocks ++ [⟨1, st, vars⟩], m'⟩ t
      = absFrame ⟨states, blocks, statics⟩ t) ∧
    (∀ (ss : List St) (m : List (Nat × Nat)) j, j < blocks.length →
      varsAt ⟨ss, blocks ++ [⟨1, st, vars⟩], m⟩ j = varsAt ⟨states, blocks, statics⟩ j) ∧
    0 < blocks.length ∧ (∀ e ∈ statics, e.2 < blocks.length) := by
  have hlt : ∀ t ∈ states, t.blk < blocks.length := h.range
  have hidx : ∀ e ∈ statics, e.2 < blocks.length := by
    intro e he
    obtain ⟨be, hbe, _⟩ := h.statics e he
    exact (List.getElem?_eq_some_iff.mp hbe).1
  have hpos : 0 < blocks.length := by
    obtain ⟨g, hg, _⟩ := h.glob
    exact (List.getElem?_eq_some_iff.mp hg).1
  have hown : ∀ k, k < blocks.length → ownerOf m' k = ownerOf statics k := by
    intro k hk
    rcases hm with rfl | ⟨n, rfl, _, _⟩
    · rfl
    · exact ownerOf_append_of_ne _ (by omega)
  have hv : ∀ (ss : List St) (m : List (Nat × Nat)) j, j < blocks.length →
      varsAt ⟨ss, blocks ++ [⟨1, st, vars⟩], m⟩ j = varsAt ⟨states, blocks, statics⟩ j :=
    fun ss m j hj => varsAt_append_lt hj
  have hget : ∀ (j : Nat) (bj : Blk), blocks[j]? = some bj → (blocks ++ [⟨1, st, vars⟩])[j]? = some bj := by
    intro j bj hbj
    have := (List.getElem?_eq_some_iff.mp hbj).1
    rw [List.getElem?_append, if_pos this]; exact hbj
  refine ⟨?_, ?_, hv, hpos, hidx⟩
  rotate_left
  · intro t ht
    have := hlt t ht
    simp only [absFrame, hown t.blk this, hv _ _ t.blk this]
  refine ⟨getLast?_cons_of_some h.root, ?_, ?_, ?_, ?_, ?_, ?_, ?_, ?_⟩
  · obtain ⟨g, hg, hgs⟩ := h.glob
    exact ⟨g, hget 0 g hg, hgs⟩
  · intro t ht
    rcases List.mem_cons.mp ht with rfl | ht
    · simp
    · have := hlt t ht; simp only [List.length_append, List.length_singleton]; omega
  · intro j bj hbj
    dsimp only at hbj ⊢
    rw [List.getElem?_append] at hbj
    have hrefs := refs_cons ⟨blocks.length, none⟩ states j
    by_cases hj : j < blocks.length
    · simp only [if_pos hj] at hbj
      have := h.rc j bj hbj
      have hne : ¬ blocks.length = j := by omega
      dsimp only at this hrefs
      simp only [if_neg hne] at hrefs
      rw [hrefs]; simpa using this
    · simp only [if_neg hj] at hbj
      have hj' : j = blocks.length := by
        by_cases hjj : j - blocks.length = 0
        · omega
        · have : j - blocks.length = (j - blocks.length - 1) + 1 := by omega
          rw [this] at hbj; simp at hbj
      subst hj'
      simp at hbj; subst hbj
      have : refs states blocks.length = 0 := refs_zero_of_lt hlt
      dsimp only at hrefs
      simp only [if_true] at hrefs
      left; dsimp only; omega
  · intro e he
    have hold : ∀ e ∈ statics, ∃ b, (blocks ++ [⟨1, st, vars⟩])[e.2]? = some b ∧ b.isStatic = true := by
      intro e he
      obtain ⟨be, hbe, hst⟩ := h.statics e he
      exact ⟨be, hget _ _ hbe, hst⟩
    rcases hm with rfl | ⟨n, rfl, _, hst⟩
    · exact hold e he
    · simp only [List.mem_append, List.mem_singleton] at he
      rcases he with he | rfl
      · exact hold e he
      · exact ⟨⟨1, st, vars⟩, by simp, hst⟩
  · rcases hm with rfl | ⟨n, rfl, hfresh, _⟩
    · exact h.keys
    · simp only [List.map_append, List.map_cons, List.map_nil]
      rw [List.nodup_append]
      refine ⟨h.keys, by simp, ?_⟩
      intro a ha b hb
      simp only [List.mem_singleton] at hb; subst hb
      rcases List.mem_map.mp ha with ⟨e, he, rfl⟩
      exact (lookupStatic_none_iff _ _).mp hfresh e he
  · rcases hm with rfl | ⟨n, rfl, _, _⟩
    · exact h.idxs
    · simp only [List.map_append, List.map_cons, List.map_nil]
      rw [List.nodup_append]
      refine ⟨h.idxs, by simp, ?_⟩
      intro a ha b hb
      simp only [List.mem_singleton] at hb; subst hb
      rcases List.mem_map.mp ha with ⟨e, he, rfl⟩
      have := hidx e he; omega
  · refine ⟨fun _ _ t ht => ⟨by have := hlt t ht; dsimp only; omega, fun _ => hlt t ht⟩, ?_⟩
    rcases hm with rfl | ⟨n, rfl, _, _⟩
    · exact h.ordered
    · exact ordered_append hlt h.ordered
  · cases hst : states with
    | nil => trivial
    | cons t r => exact ⟨fun hc => absurd rfl hc, hst ▸ h.shares⟩

/-! ### writes into a block -/

theorem modVars_inv {states : List St} {blocks : List Blk} {statics : List (Nat × Nat)} {i : Nat}
    {b : Blk} (v : Vars) (h : Inv ⟨states, blocks, statics⟩) (hb : blocks[i]? = some b) :
    Inv ⟨states, blocks.set i { b with vars := v }, statics⟩ ∧
    (∀ (ss : List St) (m : List (Nat × Nat)) j,
      varsAt ⟨ss, blocks.set i { b with vars := v }, m⟩ j
        = if j = i then v else varsAt ⟨states, blocks, statics⟩ j) := by
  have hlen : i < blocks.length := (List.getElem?_eq_some_iff.mp hb).1
  refine ⟨⟨h.root, ?_, ?_, ?_, ?_, h.keys, h.idxs, h.ordered, h.shares⟩, ?_⟩
  · obtain ⟨g, hg, hgs⟩ := h.glob
    dsimp only at hg ⊢
    by_cases h0 : i = 0
    · subst h0
      refine ⟨{ b with vars := v }, by simp [List.getElem?_set, hlen], ?_⟩
      rw [hb] at hg; cases hg; exact hgs
    · exact ⟨g, by simp [List.getElem?_set, h0, hg], hgs⟩
  · intro t ht; simpa using h.range t ht
  · intro j bj hbj
    dsimp only at hbj ⊢
    rw [List.getElem?_set] at hbj
    by_cases hi : i = j
    · subst hi
      simp [hlen] at hbj; subst hbj
      exact h.rc i b hb
    · simp [hi] at hbj
      exact h.rc j bj hbj
  · intro e he
    obtain ⟨be, hbe, hst⟩ := h.statics e he
    dsimp only at hbe ⊢
    by_cases hi : i = e.2
    · refine ⟨{ b with vars := v }, by simp [List.getElem?_set, hi.symm ▸ hlen, hi], ?_⟩
      rw [← hi, hb] at hbe; cases hbe; exact hst
    · exact ⟨be, by simp [List.getElem?_set, hi, hbe], hst⟩
  · intro ss m j
    simp only [varsAt, List.getElem?_set]
    by_cases hi : i = j
    · subst hi; simp [hlen]
    · have : ¬ j = i := fun e => hi e.symm
      simp [hi, this]

/-! ### the kinds of the states (what well-bracketedness talks about) -/

def kinds (c : Ctx) : List Bool := c.states.map fun s => s.args.isSome

theorem isCollect_absFrame (c : Ctx) (s : St) : isCollect (absFrame c s) = s.args.isSome := by
  unfold absFrame
  cases s.args with
  | some a => rfl
  | none =>
    simp only [Option.isSome_none]
    split
    · rfl
    · split <;> rfl

theorem abs_of_view {c c' : Ctx} (hv : View c c' c'.states) :
    abs c' = ⟨c'.states.map (absFrame c), (abs c).statics, (abs c).global⟩ := by
  have h1 : (abs c').stack = c'.states.map (absFrame c) :=
    List.map_congr_left (fun t ht => hv.frames t ht)
  have h2 := hv.stat
  have h3 : (abs c').global = (abs c).global := hv.glob
  cases hc : abs c' with
  | mk st ss g => rw [hc] at h1 h2 h3; simp only at h1 h2 h3; rw [h1, h2, h3]

theorem view_mono {c c' : Ctx} {ss ss' : List St} (hv : View c c' ss) (hsub : ∀ t ∈ ss', t ∈ ss) :
    View c c' ss' := ⟨fun t ht => hv.frames t (hsub t ht), hv.stat, hv.glob⟩

theorem view_trans {c c1 c2 : Ctx} {ss : List St} (h1 : View c c1 ss) (h2 : View c1 c2 ss) :
    View c c2 ss :=
  ⟨fun t ht => (h2.frames t ht).trans (h1.frames t ht), h2.stat.trans h1.stat, h2.glob.trans h1.glob⟩

theorem view_refl (c : Ctx) (ss : List St) : View c c ss := ⟨fun _ _ => rfl, rfl, rfl⟩

/-- the root state is not a collecting one, so a collecting top state has a state below it -/
theorem rest_ne_nil_of_collecting {c : Ctx} {s : St} {rest : List St} (h : Inv c)
    (hs : c.states = s :: rest) (hc : s.args ≠ none) : rest ≠ [] := by
  intro hr
  have := h.root
  rw [hs, hr] at this
  simp at this
  rw [this] at hc; exact hc rfl

/-! ### every operation: no failure, invariant, refinement -/

/-- What is shown for every operation `op` allowed in a context `c` of kinds `k`: it does not fail,
the invariant holds afterwards, the kinds follow `wbStep`, and the abstraction commutes. -/
def Good (op : Op) (c : Ctx) (k' : List Bool) : Prop :=
  ∃ c', step op c = .ok c' ∧ Inv c' ∧ kinds c' = k' ∧ aStep op (abs c) = some (abs c')

theorem states_ne_nil {c : Ctx} (h : Inv c) : ∃ s rest, c.states = s :: rest := by
  cases hs : c.states with
  | nil => have := h.root; rw [hs] at this; simp at this
  | cons s rest => exact ⟨s, rest, rfl⟩

theorem block_of_state {c : Ctx} {s : St} (h : Inv c) (hs : s ∈ c.states) :
    ∃ b, c.blocks[s.blk]? = some b :=
  ⟨c.blocks[s.blk]'(h.range s hs), List.getElem?_eq_some_iff.mpr ⟨h.range s hs, rfl⟩⟩

theorem beginCollect_good {c : Ctx} (h : Inv c) : Good .beginCollect c (true :: kinds c) := by
  obtain ⟨s, rest, hs⟩ := states_ne_nil h
  obtain ⟨b, hb⟩ := block_of_state h (hs ▸ List.mem_cons_self ..)
  have hspec := doPushExisting_spec (c := c) (i := s.blk) true h hb
    (by
      intro h0 hown t ht
      rw [hs] at ht
      refine ⟨?_, fun hc => by cases hc⟩
      rcases List.mem_cons.mp ht with rfl | ht
      · exact Nat.le_refl _
      · have := h.ordered; rw [hs] at this
        exact (this.1 h0 hown t ht).1)
    (fun _ => ⟨s, rest, hs, rfl⟩)
  obtain ⟨h1, h2, h3⟩ := hspec
  refine ⟨_, ?_, h2, ?_, ?_⟩
  · simp only [step, beginCollect, hs]; rw [← hs]; exact h1
  · simp [kinds]
  · have := abs_of_view (c := c) (c' := _) ⟨fun t ht => by
        rcases List.mem_cons.mp ht with rfl | ht
        · simp [absFrame]
        · exact h3.frames t ht, h3.stat, h3.glob⟩
    rw [this]
    simp [aStep, abs, absFrame]

theorem inv_of_states_eq {c : Ctx} {s s' : St} {rest : List St} (h : Inv c)
    (hs : c.states = s :: rest) (hblk : s'.blk = s.blk) (ha : s.args ≠ none) (ha' : s'.args ≠ none) :
    Inv { c with states := s' :: rest } := by
  have hne := rest_ne_nil_of_collecting h hs ha
  refine ⟨?_, h.glob, ?_, ?_, h.statics, h.keys, h.idxs, ?_, ?_⟩
  · have := h.root; rw [hs] at this
    exact getLast?_cons_of_some (getLast?_tail hne this)
  · intro t ht
    rcases List.mem_cons.mp ht with rfl | ht
    · rw [hblk]; exact h.range s (hs ▸ List.mem_cons_self ..)
    · exact h.range t (hs ▸ List.mem_cons_of_mem _ ht)
  · intro i b hb
    have := h.rc i b hb
    rw [hs] at this
    dsimp only
    rw [refs_cons, hblk, ← refs_cons]; exact this
  · have := h.ordered; rw [hs] at this
    refine ⟨fun h0 hown t ht => ?_, this.2⟩
    rw [hblk] at h0 hown ⊢
    exact ⟨(this.1 h0 hown t ht).1, fun hn => absurd hn ha'⟩
  · have := h.shares; rw [hs] at this
    cases rest with
    | nil => trivial
    | cons t r => exact ⟨fun _ => hblk ▸ this.1 ha, this.2⟩

theorem pushArg_good {c : Ctx} {k0 : List Bool} (p : Nat) (v : Int) (h : Inv c)
    (hk : kinds c = true :: k0) : Good (.pushArg p v) c (true :: k0) := by
  obtain ⟨s, rest, hs⟩ := states_ne_nil h
  have hsome : s.args.isSome = true := by simp [kinds, hs] at hk; exact hk.1
  obtain ⟨a, ha⟩ := Option.isSome_iff_exists.mp hsome
  have hinv := inv_of_states_eq (s' := { s with args := some (a ++ [(p, v)]) }) h hs rfl
    (by simp [ha]) (by simp)
  refine ⟨_, ?_, hinv, ?_, ?_⟩
  · simp only [step, pushArg, hs, ha]
  · simp [kinds, hs] at hk ⊢; exact hk.2
  · simp [aStep, abs, hs, absFrame, ha, varsAt]

theorem kinds_tail {c : Ctx} {s : St} {rest : List St} {b : Bool} {k0 : List Bool}
    (hs : c.states = s :: rest) (hk : kinds c = b :: k0) :
    s.args.isSome = b ∧ rest.map (fun s => s.args.isSome) = k0 := by
  simp [kinds, hs] at hk; exact hk

theorem abs_after_pop {c c' : Ctx} {s : St} {rest : List St} (_hs : c.states = s :: rest)
    (hst : c'.states = rest) (hv : View c c' rest) :
    abs c' = { abs c with stack := rest.map (absFrame c) } := by
  rw [abs_of_view (hst ▸ hv), hst]

theorem pop_good {c : Ctx} {k0 : List Bool} (h : Inv c) (hk : kinds c = false :: k0)
    (hk0 : k0 ≠ []) : Good .pop c k0 := by
  obtain ⟨s, rest, hs⟩ := states_ne_nil h
  obtain ⟨hsa, hrest⟩ := kinds_tail hs hk
  have hne : rest ≠ [] := by intro hr; rw [hr] at hrest; exact hk0 hrest.symm
  have hnone : s.args = none := by cases hx : s.args <;> simp_all
  obtain ⟨c', hpop, hst, hinv, hv⟩ := doPop_spec h hs hne
  refine ⟨c', ?_, hinv, ?_, ?_⟩
  · simp [step, pop, hpop, hnone]
  · simp [kinds, hst, hrest]
  · rw [abs_after_pop hs hst hv]
    have hnc : isCollect (absFrame c s) = false := by rw [isCollect_absFrame, hnone]; rfl
    simp only [aStep, abs, hs, List.map_cons]
    cases hf : absFrame c s <;> simp_all [isCollect]

theorem dropArgs_good {c : Ctx} {k0 : List Bool} (h : Inv c) (hk : kinds c = true :: k0) :
    Good .dropArgumentsForArray c k0 := by
  obtain ⟨s, rest, hs⟩ := states_ne_nil h
  obtain ⟨hsa, hrest⟩ := kinds_tail hs hk
  obtain ⟨a, ha⟩ := Option.isSome_iff_exists.mp hsa
  have hne : rest ≠ [] := rest_ne_nil_of_collecting h hs (by simp [ha])
  obtain ⟨c', hpop, hst, hinv, hv⟩ := doPop_spec h hs hne
  refine ⟨c', ?_, hinv, ?_, ?_⟩
  · simp [step, dropArgumentsForArray, hpop, ha]
  · simp [kinds, hst, hrest]
  · rw [abs_after_pop hs hst hv]
    simp [aStep, abs, hs, absFrame, ha]

theorem ownerOf_none_of_lt {m : List (Nat × Nat)} {i : Nat} (h : ∀ e ∈ m, e.2 < i) :
    ownerOf m i = none := by
  rw [ownerOf_none_iff]; intro e he; have := h e he; omega

theorem stopCollect_good {c : Ctx} {k0 : List Bool} (h : Inv c) (hk : kinds c = true :: k0) :
    Good .stopCollect c (false :: k0) := by
  obtain ⟨s, rest, hs⟩ := states_ne_nil h
  obtain ⟨hsa, hrest⟩ := kinds_tail hs hk
  obtain ⟨a, ha⟩ := Option.isSome_iff_exists.mp hsa
  have hne : rest ≠ [] := rest_ne_nil_of_collecting h hs (by simp [ha])
  obtain ⟨c1, hpop, hst, hinv, hv⟩ := doPop_spec h hs hne
  obtain ⟨st1, bl1, m1⟩ := c1
  simp only at hst; subst hst
  obtain ⟨hinv', hfr, hva, hpos, hidx⟩ :=
    doPushNew_spec (Vars.ofArgs a) false m1 hinv (Or.inl rfl)
  refine ⟨_, ?_, hinv', ?_, ?_⟩
  · simp [step, stopCollect, hpop, ha, doPushNew]
  · simp [kinds, hrest]
  · have hown : ownerOf m1 bl1.length = none := ownerOf_none_of_lt hidx
    have hvn : varsAt ⟨⟨bl1.length, none⟩ :: st1, bl1 ++ [⟨1, false, Vars.ofArgs a⟩], m1⟩ bl1.length
        = Vars.ofArgs a := by simp [varsAt]
    have hstack : (abs ⟨⟨bl1.length, none⟩ :: st1, bl1 ++ [⟨1, false, Vars.ofArgs a⟩], m1⟩).stack
        = .local (Vars.ofArgs a) :: st1.map (absFrame c) := by
      simp only [abs, List.map_cons]
      congr 1
      · have : bl1.length ≠ 0 := by omega
        simp [absFrame, this, hown, hvn]
      · exact List.map_congr_left (fun t ht => (hfr t ht).trans (hv.frames t ht))
    have hstat : (abs ⟨⟨bl1.length, none⟩ :: st1, bl1 ++ [⟨1, false, Vars.ofArgs a⟩], m1⟩).statics
        = (abs c).statics := by
      rw [← hv.stat]
      simp only [abs]
      exact List.map_congr_left (fun e he => by rw [hva _ _ e.2 (hidx e he)])
    have hglob : (abs ⟨⟨bl1.length, none⟩ :: st1, bl1 ++ [⟨1, false, Vars.ofArgs a⟩], m1⟩).global
        = (abs c).global := by
      simp only [abs]; rw [hva _ _ 0 hpos]; exact hv.glob
    have habs : abs ⟨⟨bl1.length, none⟩ :: st1, bl1 ++ [⟨1, false, Vars.ofArgs a⟩], m1⟩
        = ⟨.local (Vars.ofArgs a) :: st1.map (absFrame c), (abs c).statics, (abs c).global⟩ := by
      rw [← hstack, ← hstat, ← hglob]
    rw [habs]
    simp [aStep, abs, hs, absFrame, ha]

/-! ### association-list facts for the static map -/

theorem ownerOf_of_mem {m : List (Nat × Nat)} {n i : Nat} (hnd : (m.map (·.2)).Nodup)
    (hmem : (n, i) ∈ m) : ownerOf m i = some n := by
  induction m with
  | nil => cases hmem
  | cons e m ih =>
    obtain ⟨n', j⟩ := e
    simp only [List.map_cons, List.nodup_cons] at hnd
    rcases List.mem_cons.mp hmem with heq | hmem
    · cases heq; simp [ownerOf]
    · have : j ≠ i := by
        intro hji; subst hji
        exact hnd.1 (List.mem_map.mpr ⟨(n, j), hmem, rfl⟩)
      simp [ownerOf, this, ih hnd.2 hmem]

theorem lookupStatic_of_mem {m : List (Nat × Nat)} {n i : Nat} (hnd : (m.map (·.1)).Nodup)
    (hmem : (n, i) ∈ m) : lookupStatic m n = some i := by
  induction m with
  | nil => cases hmem
  | cons e m ih =>
    obtain ⟨n', j⟩ := e
    simp only [List.map_cons, List.nodup_cons] at hnd
    rcases List.mem_cons.mp hmem with heq | hmem
    · cases heq; simp [lookupStatic]
    · have : n' ≠ n := by
        intro hji; subst hji
        exact hnd.1 (List.mem_map.mpr ⟨(n', i), hmem, rfl⟩)
      simp [lookupStatic, this, ih hnd.2 hmem]

theorem alookup_map (m : List (Nat × Nat)) (f : Nat → Vars) (n : Nat) :
    alookup (m.map fun e => (e.1, f e.2)) n = (lookupStatic m n).map f := by
  induction m with
  | nil => rfl
  | cons e m ih =>
    obtain ⟨n', j⟩ := e
    by_cases h : n' = n <;> simp [alookup, lookupStatic, h, ih]

theorem map_update {m : List (Nat × Nat)} {n i : Nat} (f : Nat → Vars) (v' : Vars)
    (hk : (m.map (·.1)).Nodup) (hi : (m.map (·.2)).Nodup) (hmem : (n, i) ∈ m) :
    (m.map fun e => (e.1, if e.2 = i then v' else f e.2))
      = aupdate (m.map fun e => (e.1, f e.2)) n v' := by
  induction m with
  | nil => cases hmem
  | cons e m ih =>
    obtain ⟨n', j⟩ := e
    simp only [List.map_cons, List.nodup_cons] at hk hi
    rcases List.mem_cons.mp hmem with heq | hmem
    · cases heq
      simp only [List.map_cons, aupdate, if_true]
      congr 1
      apply List.map_congr_left
      intro e he
      have : e.2 ≠ i := fun h => hi.1 (List.mem_map.mpr ⟨e, he, h⟩)
      simp [this]
    · have h1 : n' ≠ n := fun h => hk.1 (List.mem_map.mpr ⟨(n, i), hmem, h.symm⟩)
      have h2 : j ≠ i := fun h => hi.1 (List.mem_map.mpr ⟨(n, i), hmem, h.symm⟩)
      simp only [List.map_cons, aupdate, if_neg h1, if_neg h2, ih hk.2 hi.2 hmem]

theorem ownerOf_append_self {m : List (Nat × Nat)} {n i : Nat} (h : ∀ e ∈ m, e.2 ≠ i) :
    ownerOf (m ++ [(n, i)]) i = some n := by
  induction m with
  | nil => simp [ownerOf]
  | cons e m ih =>
    obtain ⟨n', j⟩ := e
    have h1 : j ≠ i := h (n', j) (List.mem_cons_self ..)
    simp only [List.cons_append, ownerOf, if_neg h1]
    exact ih (fun e he => h e (List.mem_cons_of_mem _ he))

/-- Writing the variables of block `i`: what the abstraction sees, when `i` is the block of STATIC
subprogram `n`. -/
theorem abs_modify_static {states : List St} {blocks : List Blk} {statics : List (Nat × Nat)}
    {i n : Nat} {b : Blk} (v : Vars) (h : Inv ⟨states, blocks, statics⟩) (hb : blocks[i]? = some b)
    (hmem : (n, i) ∈ statics) :
    abs ⟨states, blocks.set i { b with vars := v }, statics⟩
      = { abs ⟨states, blocks, statics⟩ with
          statics := aupdate (abs ⟨states, blocks, statics⟩).statics n v } ∧
    alookup (abs ⟨states, blocks, statics⟩).statics n = some b.vars ∧ i ≠ 0 := by
  obtain ⟨_, hva⟩ := modVars_inv v h hb
  have hown : ownerOf statics i = some n := ownerOf_of_mem h.idxs hmem
  have hi0 : i ≠ 0 := by
    intro h0; subst h0
    obtain ⟨g, hg, hgs⟩ := h.glob
    obtain ⟨be, hbe, hst⟩ := h.statics _ hmem
    simp only at hg hbe
    rw [hg] at hbe; cases hbe; simp [hgs] at hst
  refine ⟨?_, ?_, hi0⟩
  · simp only [abs]
    congr 1
    · apply List.map_congr_left
      intro t _
      simp only [absFrame]
      by_cases hti : t.blk = i
      · rw [hti]; simp [hown]
      · rw [hva _ _ t.blk, if_neg hti]
    · rw [← map_update _ v h.keys h.idxs hmem]
      apply List.map_congr_left
      intro e _
      rw [hva _ _ e.2]
    · rw [hva _ _ 0, if_neg (Ne.symm hi0)]
  · simp only [abs]
    rw [alookup_map]
    have : lookupStatic statics n = some i := lookupStatic_of_mem h.keys hmem
    simp [this, varsAt, hb]

theorem stopCollectStatic_good {c : Ctx} {k0 : List Bool} (n : Nat) (h : Inv c)
    (hk : kinds c = true :: k0) : Good (.stopCollectStatic n) c (false :: k0) := by
  obtain ⟨s, rest, hs⟩ := states_ne_nil h
  obtain ⟨hsa, hrest⟩ := kinds_tail hs hk
  obtain ⟨a, ha⟩ := Option.isSome_iff_exists.mp hsa
  have hne : rest ≠ [] := rest_ne_nil_of_collecting h hs (by simp [ha])
  obtain ⟨c1, hpop, hst, hinv, hv⟩ := doPop_spec h hs hne
  obtain ⟨st1, bl1, m1⟩ := c1
  simp only at hst; subst hst
  have habsc : (abs c).stack = .collect a :: st1.map (absFrame c) := by
    simp [abs, hs, absFrame, ha]
  have hstack1 : st1.map (absFrame ⟨st1, bl1, m1⟩) = st1.map (absFrame c) :=
    List.map_congr_left (fun t ht => hv.frames t ht)
  cases hl : lookupStatic m1 n with
  | some i =>
    have hmem := lookupStatic_some_mem hl
    obtain ⟨bi, hbi, hbs⟩ := hinv.statics _ hmem
    simp only at hbi
    obtain ⟨hinv2, hva2⟩ := modVars_inv (Vars.applyArgs bi.vars a) hinv hbi
    obtain ⟨habs2, hlook, hi0⟩ := abs_modify_static (Vars.applyArgs bi.vars a) hinv hbi hmem
    have hown : ownerOf m1 i = some n := ownerOf_of_mem hinv.idxs hmem
    have hlen : i < bl1.length := (List.getElem?_eq_some_iff.mp hbi).1
    have hb2 : (bl1.set i { bi with vars := Vars.applyArgs bi.vars a })[i]?
        = some { bi with vars := Vars.applyArgs bi.vars a } := by simp [hlen]
    obtain ⟨hpush, hinv3, hv3⟩ := doPushExisting_spec
      (c := ⟨st1, bl1.set i { bi with vars := Vars.applyArgs bi.vars a }, m1⟩) (i := i) false hinv2 hb2
      (by intro _ hno; simp only at hno; rw [hown] at hno; cases hno)
      (by intro hc; cases hc)
    refine ⟨_, ?_, hinv3, ?_, ?_⟩
    · simp only [step, stopCollectStatic, hpop, ha, hl, hbi]
      exact hpush
    · simp [kinds, hrest]
    · have habs3 := abs_of_view (c := ⟨st1, bl1.set i { bi with vars := Vars.applyArgs bi.vars a }, m1⟩)
        (c' := _) ⟨fun t ht => by
          rcases List.mem_cons.mp ht with rfl | ht
          · simp [absFrame, hi0, hown]
          · exact hv3.frames t ht, hv3.stat, hv3.glob⟩
      rw [habs3]
      have hst2 : st1.map (absFrame ⟨st1, bl1.set i { bi with vars := Vars.applyArgs bi.vars a }, m1⟩)
          = st1.map (absFrame c) := by
        have : (abs ⟨st1, bl1.set i { bi with vars := Vars.applyArgs bi.vars a }, m1⟩).stack
            = (abs ⟨st1, bl1, m1⟩).stack := by rw [habs2]
        simp only [abs] at this
        rw [this, hstack1]
      simp only [aStep, habsc, ← hv.stat, hlook, List.map_cons]
      rw [hst2, habs2]
      simp [absFrame, hi0, hown, hv.glob, abs]
  | none =>
    obtain ⟨hinv', hfr, hva, hpos, hidx⟩ :=
      doPushNew_spec (Vars.ofArgs a) true (m1 ++ [(n, bl1.length)]) hinv
        (Or.inr ⟨n, rfl, hl, rfl⟩)
    refine ⟨_, ?_, hinv', ?_, ?_⟩
    · simp [step, stopCollectStatic, hpop, ha, hl, doPushNew]
    · simp [kinds, hrest]
    · have hown : ownerOf (m1 ++ [(n, bl1.length)]) bl1.length = some n :=
        ownerOf_append_self (fun e he => by have := hidx e he; omega)
      have hlookn : alookup (abs c).statics n = none := by
        rw [← hv.stat]; simp only [abs]; rw [alookup_map, hl]; rfl
      have hne0 : bl1.length ≠ 0 := by omega
      have hvn : varsAt ⟨⟨bl1.length, none⟩ :: st1, bl1 ++ [⟨1, true, Vars.ofArgs a⟩],
          m1 ++ [(n, bl1.length)]⟩ bl1.length = Vars.ofArgs a := by simp [varsAt]
      have habs : abs ⟨⟨bl1.length, none⟩ :: st1, bl1 ++ [⟨1, true, Vars.ofArgs a⟩],
          m1 ++ [(n, bl1.length)]⟩
          = ⟨.static n :: st1.map (absFrame c), (abs c).statics ++ [(n, Vars.ofArgs a)],
              (abs c).global⟩ := by
        simp only [abs, List.map_cons, List.map_append, List.map_nil]
        congr 1
        · congr 1
          · simp [absFrame, hne0, hown]
          · exact List.map_congr_left (fun t ht => (hfr t ht).trans (hv.frames t ht))
        · have := hv.stat
          simp only [abs] at this
          rw [← this, hvn]
          congr 1
          exact List.map_congr_left (fun e he => by rw [hva _ _ e.2 (hidx e he)])
        · rw [hva _ _ 0 hpos]; exact hv.glob
      rw [habs]
      simp only [aStep, habsc, hlookn]

theorem dropCollecting_spec : ∀ (fuel : Nat) (c : Ctx), Inv c → c.states.length ≤ fuel + 1 →
    ∃ c1, dropCollecting fuel c = .ok c1 ∧ Inv c1 ∧
      c1.states = c.states.dropWhile (fun s => s.args.isSome) ∧ View c c1 c1.states := by
  intro fuel
  induction fuel with
  | zero =>
    intro c h hlen
    obtain ⟨s, rest, hs⟩ := states_ne_nil h
    have hr : rest = [] := by
      rw [hs] at hlen; simp at hlen; exact hlen
    have hnone : s.args = none := by
      have := h.root; rw [hs, hr] at this; simp at this; rw [this]
    refine ⟨c, ?_, h, ?_, view_refl _ _⟩
    · unfold dropCollecting; simp [hs, hnone]
    · simp [hs, hnone]
  | succ f ih =>
    intro c h hlen
    obtain ⟨s, rest, hs⟩ := states_ne_nil h
    cases ha : s.args with
    | none =>
      refine ⟨c, ?_, h, ?_, view_refl _ _⟩
      · unfold dropCollecting; simp [hs, ha]
      · simp [hs, ha]
    | some a =>
      have hne : rest ≠ [] := rest_ne_nil_of_collecting h hs (by simp [ha])
      obtain ⟨c1, hpop, hst, hinv, hv⟩ := doPop_spec h hs hne
      have hlen1 : c1.states.length ≤ f + 1 := by
        rw [hst]; rw [hs] at hlen; simp at hlen; omega
      obtain ⟨c2, hd, hinv2, hst2, hv2⟩ := ih c1 hinv hlen1
      refine ⟨c2, ?_, hinv2, ?_, ?_⟩
      · unfold dropCollecting; simp [hs, ha, hpop, hd]
      · rw [hst2, hst, hs]; simp [ha]
      · have hsub : ∀ t ∈ c2.states, t ∈ rest := by
          intro t ht; rw [hst2, hst] at ht
          exact List.Sublist.mem ht (List.dropWhile_sublist _)
        exact view_trans (view_mono hv hsub) hv2

theorem pushErrorHandler_good {c : Ctx} (h : Inv c) :
    Good .pushErrorHandler c (false :: (kinds c).dropWhile id) := by
  obtain ⟨c1, hd, hinv1, hst1, hv1⟩ := dropCollecting_spec c.states.length c h (Nat.le_succ _)
  obtain ⟨g, hg, _⟩ := hinv1.glob
  obtain ⟨hpush, hinv2, hv2⟩ := doPushExisting_spec (c := c1) (i := 0) false hinv1 hg
    (fun h0 => absurd rfl h0) (by intro hc; cases hc)
  refine ⟨_, ?_, hinv2, ?_, ?_⟩
  · simp only [step, pushErrorHandler, hd]; exact hpush
  · simp only [kinds, List.map_cons, hst1, List.dropWhile_map]
    simp [Function.comp_def]
  · have habs := abs_of_view (c := c1) (c' := _) ⟨fun t ht => by
        rcases List.mem_cons.mp ht with rfl | ht
        · simp [absFrame]
        · exact hv2.frames t ht, hv2.stat, hv2.glob⟩
    rw [habs]
    have h1 : c1.states.map (absFrame c1) = c1.states.map (absFrame c) :=
      List.map_congr_left (fun t ht => hv1.frames t ht)
    have h2 : (abs c).stack.dropWhile isCollect = c1.states.map (absFrame c) := by
      have hf : (isCollect ∘ absFrame c) = fun s => s.args.isSome :=
        funext (fun t => isCollect_absFrame c t)
      simp only [abs, List.dropWhile_map, hst1, hf]
    simp only [aStep, h2, List.map_cons, h1, hv1.stat]
    simp [absFrame, abs, hv1.glob]

theorem dropCollecting_good {c : Ctx} (h : Inv c) :
    Good .dropCollecting c ((kinds c).dropWhile id) := by
  obtain ⟨c1, hd, hinv1, hst1, hv1⟩ := dropCollecting_spec c.states.length c h (Nat.le_succ _)
  refine ⟨c1, ?_, hinv1, ?_, ?_⟩
  · simp only [step, dropCollectingArguments]; exact hd
  · simp only [kinds, hst1, List.dropWhile_map]
    simp [Function.comp_def]
  · rw [abs_of_view hv1]
    have hf : (isCollect ∘ absFrame c) = fun s => s.args.isSome :=
      funext (fun t => isCollect_absFrame c t)
    simp only [aStep, abs, List.dropWhile_map, hst1, hf]

/-! ### reads and writes through a root path -/

/-- The collecting states on top all share the block of the first normal state below them. -/
theorem first_normal_state : ∀ (ss : List St) (s : St) (rest : List St), Shares ss →
    (∃ x, ss.getLast? = some x ∧ x.args = none) → ss = s :: rest →
    ∃ pre u post, ss = pre ++ u :: post ∧ (∀ x ∈ pre, x.args ≠ none) ∧ u.args = none ∧
      u.blk = s.blk := by
  intro ss
  induction ss with
  | nil => intro s rest _ _ h; cases h
  | cons a ss ih =>
    intro s rest hsh hlast heq
    have e1 : a = s := (List.cons.inj heq).1
    have e2 : ss = rest := (List.cons.inj heq).2
    subst e1 e2
    cases ha : a.args with
    | none => exact ⟨[], a, ss, rfl, by simp, ha, rfl⟩
    | some args =>
      cases ss with
      | nil =>
        obtain ⟨x, hx, hxn⟩ := hlast
        simp at hx; subst hx; rw [ha] at hxn; cases hxn
      | cons t r =>
        have hlast' : ∃ x, (t :: r).getLast? = some x ∧ x.args = none := by
          obtain ⟨x, hx, hxn⟩ := hlast
          exact ⟨x, by simpa [List.getLast?_cons_cons] using hx, hxn⟩
        obtain ⟨pre, u, post, h1, h2, h3, h4⟩ := ih t r hsh.2 hlast' rfl
        refine ⟨a :: pre, u, post, by rw [h1]; rfl, ?_, h3, ?_⟩
        · intro x hx
          rcases List.mem_cons.mp hx with rfl | hx
          · simp [ha]
          · exact h2 x hx
        · rw [h4]; exact (hsh.1 (by simp [ha])).symm

theorem ordered_suffix {m : List (Nat × Nat)} : ∀ (pre : List St) {ss : List St},
    Ordered m (pre ++ ss) → Ordered m ss
  | [], _, h => h
  | _ :: pre, _, h => ordered_suffix pre h.2

theorem firstNormal_append {c : Ctx} {pre : List St} (u : St) (post : List St)
    (hpre : ∀ x ∈ pre, x.args ≠ none) (hu : u.args = none) :
    firstNormal ((pre ++ u :: post).map (absFrame c)) = some (absFrame c u) := by
  induction pre with
  | nil =>
    have : isCollect (absFrame c u) = false := by rw [isCollect_absFrame, hu]; rfl
    simp only [List.nil_append, List.map_cons]
    cases hf : absFrame c u <;> simp_all [firstNormal, isCollect]
  | cons x pre ih =>
    have hx := hpre x (List.mem_cons_self ..)
    obtain ⟨a, ha⟩ : ∃ a, x.args = some a := by
      cases hxa : x.args with
      | none => exact absurd hxa hx
      | some a => exact ⟨a, rfl⟩
    simp only [List.cons_append, List.map_cons]
    have : absFrame c x = .collect a := by simp [absFrame, ha]
    rw [this]
    simp only [firstNormal]
    exact ih (fun y hy => hpre y (List.mem_cons_of_mem _ hy))

theorem modifyFirstLocal_append {c : Ctx} {pre : List St} (u : St) (post : List St) (f : Vars → Vars)
    (v : Vars) (hpre : ∀ x ∈ pre, x.args ≠ none) (hu : absFrame c u = .local v) :
    modifyFirstLocal f ((pre ++ u :: post).map (absFrame c))
      = pre.map (absFrame c) ++ .local (f v) :: post.map (absFrame c) := by
  induction pre with
  | nil => simp [modifyFirstLocal, hu]
  | cons x pre ih =>
    have hx := hpre x (List.mem_cons_self ..)
    obtain ⟨a, ha⟩ : ∃ a, x.args = some a := by
      cases hxa : x.args with
      | none => exact absurd hxa hx
      | some a => exact ⟨a, rfl⟩
    have : absFrame c x = .collect a := by simp [absFrame, ha]
    simp only [List.cons_append, List.map_cons, this, modifyFirstLocal]
    rw [ih (fun y hy => hpre y (List.mem_cons_of_mem _ hy))]

theorem abs_modify_global {states : List St} {blocks : List Blk} {statics : List (Nat × Nat)}
    {b : Blk} (v : Vars) (h : Inv ⟨states, blocks, statics⟩) (hb : blocks[0]? = some b) :
    abs ⟨states, blocks.set 0 { b with vars := v }, statics⟩
      = { abs ⟨states, blocks, statics⟩ with global := v } := by
  obtain ⟨_, hva⟩ := modVars_inv v h hb
  have hidx0 : ∀ e ∈ statics, e.2 ≠ 0 := by
    intro e he h0
    obtain ⟨g, hg, hgs⟩ := h.glob
    obtain ⟨be, hbe, hst⟩ := h.statics e he
    simp only at hg hbe
    rw [h0, hg] at hbe; cases hbe; simp [hgs] at hst
  simp only [abs]
  congr 1
  · apply List.map_congr_left
    intro t _
    simp only [absFrame]
    by_cases ht0 : t.blk = 0
    · simp [ht0]
    · rw [hva _ _ t.blk]; simp [ht0]
  · apply List.map_congr_left
    intro e he
    rw [hva _ _ e.2, if_neg (hidx0 e he)]
  · rw [hva _ _ 0]; simp

theorem abs_modify_local {pre post : List St} {u : St} {blocks : List Blk}
    {statics : List (Nat × Nat)} {b : Blk} (v : Vars)
    (h : Inv ⟨pre ++ u :: post, blocks, statics⟩) (hb : blocks[u.blk]? = some b)
    (hu : u.args = none) (h0 : u.blk ≠ 0) (hown : ownerOf statics u.blk = none)
    (hpre : ∀ x ∈ pre, x.args ≠ none) :
    abs ⟨pre ++ u :: post, blocks.set u.blk { b with vars := v }, statics⟩
      = { abs ⟨pre ++ u :: post, blocks, statics⟩ with
          stack := pre.map (absFrame ⟨pre ++ u :: post, blocks, statics⟩) ++ .local v ::
            post.map (absFrame ⟨pre ++ u :: post, blocks, statics⟩) } := by
  obtain ⟨_, hva⟩ := modVars_inv v h hb
  have hord := (ordered_suffix pre h.ordered).1 h0 hown
  simp only [abs]
  congr 1
  · simp only [List.map_append, List.map_cons]
    congr 1
    · apply List.map_congr_left
      intro x hx
      obtain ⟨a, ha⟩ : ∃ a, x.args = some a := by
        cases hxa : x.args with
        | none => exact absurd hxa (hpre x hx)
        | some a => exact ⟨a, rfl⟩
      simp [absFrame, ha]
    · congr 1
      · simp [absFrame, hu, h0, hown, hva]
      · apply List.map_congr_left
        intro t ht
        have := (hord t ht).2 hu
        have hne : t.blk ≠ u.blk := by omega
        simp only [absFrame]
        rw [hva _ _ t.blk, if_neg hne]
  · apply List.map_congr_left
    intro e he
    have := (ownerOf_none_iff _ _).mp hown e he
    rw [hva _ _ e.2, if_neg this]
  · rw [hva _ _ 0, if_neg (Ne.symm h0)]

theorem modify_good (sh : Bool) (f : Vars → Vars) {c : Ctx} (h : Inv c) :
    ∃ c', modifyVars sh f c = .ok c' ∧ Inv c' ∧ kinds c' = kinds c ∧
      aModify sh f (abs c) = some (abs c') := by
  obtain ⟨states, blocks, statics⟩ := c
  obtain ⟨s, rest, hs⟩ := states_ne_nil h
  simp only at hs
  cases sh with
  | true =>
    obtain ⟨g, hg, _⟩ := h.glob
    simp only at hg
    refine ⟨⟨states, blocks.set 0 { g with vars := f g.vars }, statics⟩,
      by simp [modifyVars, targetBlock, hg], (modVars_inv _ h hg).1, rfl, ?_⟩
    rw [abs_modify_global _ h hg]
    simp [aModify, abs, varsAt, hg]
  | false =>
    obtain ⟨b, hb⟩ := block_of_state h (s := s) (by simp [hs])
    simp only at hb
    refine ⟨⟨states, blocks.set s.blk { b with vars := f b.vars }, statics⟩,
      by simp [modifyVars, targetBlock, hs, hb], (modVars_inv _ h hb).1, rfl, ?_⟩
    obtain ⟨pre, u, post, hsplit, hpre, hu, hblk⟩ :=
      first_normal_state states s rest h.shares ⟨_, h.root, rfl⟩ hs
    have hfn : firstNormal (abs ⟨states, blocks, statics⟩).stack
        = some (absFrame ⟨states, blocks, statics⟩ u) := by
      simp only [abs]; rw [hsplit]; exact firstNormal_append u post hpre hu
    have hvb : varsAt ⟨states, blocks, statics⟩ s.blk = b.vars := by simp [varsAt, hb]
    by_cases h0 : s.blk = 0
    · rw [h0] at hb ⊢
      rw [abs_modify_global _ h hb]
      have : absFrame ⟨states, blocks, statics⟩ u = .global := by
        simp [absFrame, hu, hblk, h0]
      simp only [aModify, hfn, this]
      rw [h0] at hvb
      simp [abs, hvb]
    · cases hown : ownerOf statics s.blk with
      | some n =>
        have hmem := ownerOf_some_mem hown
        obtain ⟨habs, hlook, _⟩ := abs_modify_static (f b.vars) h hb hmem
        rw [habs]
        have : absFrame ⟨states, blocks, statics⟩ u = .static n := by
          simp [absFrame, hu, hblk, h0, hown]
        simp only [aModify, hfn, this, hlook]
        rfl
      | none =>
        subst hsplit
        rw [← hblk] at hb h0 hown hvb ⊢
        rw [abs_modify_local _ h hb hu h0 hown hpre]
        have hloc : absFrame ⟨pre ++ u :: post, blocks, statics⟩ u = .local b.vars := by
          simp [absFrame, hu, h0, hown, hvb]
        simp only [aModify, hfn, hloc]
        simp only [abs]
        rw [modifyFirstLocal_append u post f b.vars hpre hloc]
        rfl

/-! ### Main theorems -/

theorem inv_init : Inv init := by
  refine ⟨rfl, ⟨⟨1, false, []⟩, rfl, rfl⟩, ?_, ?_, ?_, ?_, ?_, ?_, ?_⟩
  · intro s hs; simp [init] at hs; subst hs; simp [init]
  · intro i b hb
    simp only [init] at hb ⊢
    cases i with
    | zero => simp at hb; subst hb; left; simp [refs]
    | succ j => simp at hb
  · intro e he; simp [init] at he
  · simp [init]
  · simp [init]
  · exact ⟨fun h0 => absurd rfl h0, trivial⟩
  · trivial

/-- One step: an operation allowed by the bracketing discipline does not fail, keeps the
invariant, and commutes with the abstraction. -/
theorem step_good (op : Op) (c : Ctx) (k' : List Bool) (h : Inv c)
    (hw : wbStep op (kinds c) = some k') : Good op c k' := by
  cases op with
  | beginCollect =>
    simp only [wbStep, Option.some.injEq] at hw; subst hw; exact beginCollect_good h
  | pushArg p v =>
    cases hk : kinds c with
    | nil => rw [hk] at hw; simp [wbStep] at hw
    | cons b k0 =>
      rw [hk] at hw
      cases b <;> simp [wbStep] at hw
      subst hw; exact pushArg_good p v h hk
  | stopCollect =>
    cases hk : kinds c with
    | nil => rw [hk] at hw; simp [wbStep] at hw
    | cons b k0 =>
      rw [hk] at hw
      cases b <;> simp [wbStep] at hw
      subst hw; exact stopCollect_good h hk
  | stopCollectStatic n =>
    cases hk : kinds c with
    | nil => rw [hk] at hw; simp [wbStep] at hw
    | cons b k0 =>
      rw [hk] at hw
      cases b <;> simp [wbStep] at hw
      subst hw; exact stopCollectStatic_good n h hk
  | pop =>
    cases hk : kinds c with
    | nil => rw [hk] at hw; simp [wbStep] at hw
    | cons b k0 =>
      rw [hk] at hw
      cases b <;> simp [wbStep] at hw
      obtain ⟨hne, rfl⟩ := hw
      exact pop_good h hk hne
  | pushErrorHandler =>
    simp only [wbStep, Option.some.injEq] at hw; subst hw; exact pushErrorHandler_good h
  | dropArgumentsForArray =>
    cases hk : kinds c with
    | nil => rw [hk] at hw; simp [wbStep] at hw
    | cons b k0 =>
      rw [hk] at hw
      cases b <;> simp [wbStep] at hw
      subst hw; exact dropArgs_good h hk
  | dropCollecting =>
    simp only [wbStep, Option.some.injEq] at hw; subst hw; exact dropCollecting_good h
  | setVar sh k v =>
    simp only [wbStep, Option.some.injEq] at hw; subst hw
    obtain ⟨c', h1, h2, h3, h4⟩ := modify_good sh (fun vs => Vars.insert vs k v) h
    exact ⟨c', h1, h2, h3, h4⟩
  | touch sh k =>
    simp only [wbStep, Option.some.injEq] at hw; subst hw
    obtain ⟨c', h1, h2, h3, h4⟩ := modify_good sh (fun vs => Vars.touch vs k) h
    exact ⟨c', h1, h2, h3, h4⟩

/-- A history on the abstract context. -/
def aRun : List Op → AbsCtx → Option AbsCtx
  | [], a => some a
  | op :: ops, a =>
    match aStep op a with
    | none => none
    | some a' => aRun ops a'

theorem run_good : ∀ (ops : List Op) (c : Ctx), Inv c → (wbRun ops (kinds c)).isSome = true →
    ∃ c', run ops c = .ok c' ∧ Inv c' ∧ wbRun ops (kinds c) = some (kinds c') ∧
      aRun ops (abs c) = some (abs c') := by
  intro ops
  induction ops with
  | nil => intro c h _; exact ⟨c, rfl, h, rfl, rfl⟩
  | cons op ops ih =>
    intro c h hw
    cases hk : wbStep op (kinds c) with
    | none => simp [wbRun, hk] at hw
    | some k' =>
      obtain ⟨c1, hs, hinv, hkinds, habs⟩ := step_good op c k' h hk
      simp only [wbRun, hk] at hw ⊢
      rw [← hkinds] at hw ⊢
      obtain ⟨c', hr, hinv', hk', ha'⟩ := ih c1 hinv hw
      exact ⟨c', by simp [run, hs, hr], hinv', hk', by simp [aRun, habs, ha']⟩

/-- **ctx_inv.** For EVERY well-bracketed history of context operations, started from
`Context::new()`: no operation fails (no index out of bounds, no "Expected … state", no underflow)
and the resulting context satisfies the invariant: every state's block index is in range, each
block's `ref_count` counts the states referencing it (plus the keep-alive count of a STATIC block
that has been left), every static-map index is in range and points at a STATIC block, distinct
subprograms own distinct blocks. -/
theorem ctx_inv (ops : List Op) (hwb : WB ops) : ∃ c, run ops init = .ok c ∧ Inv c := by
  obtain ⟨c, h1, h2, _, _⟩ := run_good ops init inv_init hwb
  exact ⟨c, h1, h2⟩

/-- **ctx_refines_abs**, one operation: on a context satisfying the invariant, every operation the
bracketing discipline allows commutes with `abs`. -/
theorem ctx_refines_abs (op : Op) (c c' : Ctx) (h : Inv c)
    (hw : (wbStep op (kinds c)).isSome = true) (hs : step op c = .ok c') :
    aStep op (abs c) = some (abs c') := by
  obtain ⟨k', hk'⟩ := Option.isSome_iff_exists.mp hw
  obtain ⟨c1, h1, _, _, h4⟩ := step_good op c k' h hk'
  rw [hs] at h1; cases h1; exact h4

/-- **ctx_refines_abs**, whole histories: the concrete run of a well-bracketed history is the
abstract run, seen through `abs`. -/
theorem ctx_refines_abs_run (ops : List Op) (hwb : WB ops) :
    ∃ c, run ops init = .ok c ∧ aRun ops (abs init) = some (abs c) := by
  obtain ⟨c, h1, _, _, h4⟩ := run_good ops init inv_init hwb
  exact ⟨c, h1, h4⟩

/-- Reachable contexts. -/
def Reachable (c : Ctx) : Prop := ∃ ops, WB ops ∧ run ops init = .ok c

theorem reachable_inv {c : Ctx} (h : Reachable c) : Inv c := by
  obtain ⟨ops, hwb, hr⟩ := h
  obtain ⟨c', h1, h2⟩ := ctx_inv ops hwb
  rw [hr] at h1; cases h1; exact h2

/-- The hypotheses are satisfiable on a non-trivial history: `Outer` (ordinary) calls `Counter`
(STATIC, scope 7) which stores a variable; back in main; then the same again and `Counter` from
main — the F5 history. -/
def f5History : List Op :=
  [.beginCollect, .stopCollect, .beginCollect, .stopCollectStatic 7, .setVar false 3 1, .pop, .pop,
   .beginCollect, .stopCollectStatic 7, .touch false 3, .pop]

example : WB f5History := by decide
example : ∃ c, run f5History init = .ok c ∧ Inv c := ctx_inv _ (by decide)

/-! ### F5 on the pinned tree (before the repair): the invariant is false and the call panics -/

/-- The full-strength statement for the pinned `do_pop`. -/
def CtxInvOld : Prop := ∀ ops, WB ops → ∃ c, runOld ops init = .ok c

/-- On the pinned tree the F5 history ends in `memory_blocks[i]` out of bounds. -/
theorem f5_old_panics : runOld f5History init = .error .indexOOB := rfl

theorem ctx_inv_old_false : ¬ CtxInvOld := by
  intro h
  obtain ⟨c, hc⟩ := h f5History (by decide)
  rw [f5_old_panics] at hc; cases hc

/-- … and before panicking it had already forgotten the variable: one call from inside `Outer`
later, the STATIC subprogram's entry points at a block that is not STATIC. -/
theorem f5_old_forgets :
    ∃ c, runOld (f5History.take 7) init = .ok c ∧ c.statics = [(7, 2)] ∧ c.blocks.length = 2 := by
  refine ⟨_, rfl, ?_, ?_⟩ <;> decide

/-- The repaired code on the same history: the entry follows the shift and the variable is there. -/
theorem f5_new_remembers :
    ∃ c, run f5History init = .ok c ∧ c.statics = [(7, 1)] ∧ varsAt c 1 = [(3, 1)] := by
  refine ⟨_, rfl, ?_, ?_⟩ <;> decide

/-! ### Corollaries in the language's terms -/

/-- What the running code sees as its variables is what the abstract context says. -/
theorem curVars_eq {c : Ctx} (h : Inv c) : curVars c = aCurVars (abs c) := by
  obtain ⟨s, rest, hs⟩ := states_ne_nil h
  obtain ⟨pre, u, post, hsplit, hpre, hu, hblk⟩ :=
    first_normal_state c.states s rest h.shares ⟨_, h.root, rfl⟩ hs
  have hfn : firstNormal (abs c).stack = some (absFrame c u) := by
    simp only [abs]; rw [hsplit]; exact firstNormal_append u post hpre hu
  have hcur : curVars c = varsAt c u.blk := by simp [curVars, hs, hblk]
  rw [hcur]
  simp only [aCurVars, hfn]
  by_cases h0 : u.blk = 0
  · simp [absFrame, hu, h0, abs]
  · cases hown : ownerOf c.statics u.blk with
    | some n =>
      have hmem := ownerOf_some_mem hown
      have hl := lookupStatic_of_mem h.keys hmem
      simp [absFrame, hu, h0, hown, abs, alookup_map, hl]
    | none => simp [absFrame, hu, h0, hown]

/-- **shared_is_global.** In every reachable context: the main module's state is the bottom one and
runs on block 0; block 0 exists and is not a STATIC block; no STATIC subprogram owns it; and a store
through a `shared` root path changes the global frame and nothing else (no local frame, no STATIC
frame), whatever activation executes it. -/
theorem shared_is_global {c : Ctx} (hr : Reachable c) :
    c.states.getLast? = some ⟨0, none⟩ ∧
    (∃ b, c.blocks[0]? = some b ∧ b.isStatic = false) ∧
    (∀ e ∈ c.statics, e.2 ≠ 0) ∧
    targetBlock true c = .ok 0 ∧
    (abs c).global = varsAt c 0 ∧
    ∀ k v, ∃ c', step (.setVar true k v) c = .ok c' ∧
      abs c' = { abs c with global := Vars.insert (abs c).global k v } := by
  have h := reachable_inv hr
  refine ⟨h.root, h.glob, ?_, rfl, rfl, ?_⟩
  · intro e he h0
    obtain ⟨g, hg, hgs⟩ := h.glob
    obtain ⟨be, hbe, hst⟩ := h.statics e he
    rw [h0, hg] at hbe; cases hbe; simp [hgs] at hst
  · intro k v
    obtain ⟨c', h1, _, _, h4⟩ := modify_good true (fun vs => Vars.insert vs k v) h
    refine ⟨c', h1, ?_⟩
    simp only [aModify, if_true, Option.some.injEq] at h4
    exact h4.symm

/-- **locals_fresh_per_activation.** Entering an ordinary (non-STATIC) subprogram from ANY
reachable context whose top state is collecting arguments `a` — main module, another subprogram,
the same subprogram (recursion), an error handler — succeeds, and the new activation's variables
are exactly its arguments; the frames below it, the STATIC frames and the global frame are
untouched. -/
theorem locals_fresh_per_activation {c : Ctx} {s : St} {rest : List St} {a : List (Nat × Int)}
    (hr : Reachable c) (hs : c.states = s :: rest) (ha : s.args = some a) :
    ∃ c', step .stopCollect c = .ok c' ∧ curVars c' = Vars.ofArgs a ∧
      abs c' = { abs c with stack := .local (Vars.ofArgs a) :: (abs c).stack.tail } := by
  have h := reachable_inv hr
  have hk : kinds c = true :: rest.map (fun s => s.args.isSome) := by simp [kinds, hs, ha]
  obtain ⟨c', h1, h2, _, h4⟩ := stopCollect_good h hk
  have hstack : (abs c).stack = .collect a :: rest.map (absFrame c) := by
    simp [abs, hs, absFrame, ha]
  simp only [aStep, hstack, Option.some.injEq] at h4
  refine ⟨c', h1, ?_, ?_⟩
  · rw [curVars_eq h2, ← h4]; simp [aCurVars, firstNormal]
  · rw [← h4, hstack]; rfl

/-- The same under recursion, spelled out: two nested activations entered with arguments `a1`,
`a2` from any reachable collecting context own two different frames. -/
example : ∃ c, run [.beginCollect, .pushArg 1 5, .stopCollect, .setVar false 2 9,
      .beginCollect, .pushArg 1 4, .stopCollect] init = .ok c ∧
    (abs c).stack = [.local [(1, 4)], .local [(1, 5), (2, 9)], .global] := by
  refine ⟨_, rfl, ?_⟩; decide

/-! ### STATIC frames persist -/

theorem alookup_aupdate_ne {m : List (Nat × Vars)} {n n' : Nat} (v : Vars) (h : n' ≠ n) :
    alookup (aupdate m n' v) n = alookup m n := by
  induction m with
  | nil => rfl
  | cons e m ih =>
    obtain ⟨k, w⟩ := e
    by_cases hk : k = n'
    · subst hk; simp [aupdate, alookup, h]
    · by_cases hkn : k = n
      · subst hkn; simp [aupdate, alookup, hk]
      · simp [aupdate, alookup, hk, hkn, ih]

theorem alookup_aupdate_self {m : List (Nat × Vars)} {n : Nat} {w : Vars} (v : Vars)
    (h : alookup m n = some w) : alookup (aupdate m n v) n = some v := by
  induction m with
  | nil => simp [alookup] at h
  | cons e m ih =>
    obtain ⟨k, w'⟩ := e
    by_cases hk : k = n
    · simp [aupdate, alookup, hk]
    · simp only [alookup, if_neg hk] at h
      simp [aupdate, alookup, hk, ih h]

theorem alookup_append_ne {m : List (Nat × Vars)} {n n' : Nat} (v : Vars) (h : n' ≠ n) :
    alookup (m ++ [(n', v)]) n = alookup m n := by
  induction m with
  | nil => simp [alookup, h]
  | cons e m ih =>
    obtain ⟨k, w⟩ := e
    by_cases hkn : k = n <;> simp [alookup, hkn, ih]

theorem alookup_append_self {m : List (Nat × Vars)} {n : Nat} (v : Vars)
    (h : alookup m n = none) : alookup (m ++ [(n, v)]) n = some v := by
  induction m with
  | nil => simp [alookup]
  | cons e m ih =>
    obtain ⟨k, w⟩ := e
    by_cases hkn : k = n
    · simp [alookup, hkn] at h
    · simp only [alookup, if_neg hkn] at h
      simp [alookup, hkn, ih h]

theorem firstNormal_mem {st : List AFrame} {f : AFrame} (h : firstNormal st = some f) : f ∈ st := by
  induction st with
  | nil => simp [firstNormal] at h
  | cons x st ih =>
    cases x with
    | collect a => simp only [firstNormal] at h; exact List.mem_cons_of_mem _ (ih h)
    | global => simp [firstNormal] at h; subst h; simp
    | «local» v => simp [firstNormal] at h; subst h; simp
    | static n => simp [firstNormal] at h; subst h; simp

theorem static_not_mem_modifyFirstLocal {n : Nat} (f : Vars → Vars) :
    ∀ (st : List AFrame), .static n ∉ st → .static n ∉ modifyFirstLocal f st
  | [], h => h
  | .collect a :: r, h => by
    simp only [modifyFirstLocal, List.mem_cons, not_or] at h ⊢
    exact ⟨by simp, static_not_mem_modifyFirstLocal f r h.2⟩
  | .local v :: r, h => by
    simp only [modifyFirstLocal, List.mem_cons, not_or] at h ⊢
    exact ⟨by simp, h.2⟩
  | .global :: r, h => by simpa [modifyFirstLocal] using h
  | .static m :: r, h => by simpa [modifyFirstLocal] using h

theorem aModify_other {n : Nat} {sh : Bool} {f : Vars → Vars} {a a' : AbsCtx}
    (h : aModify sh f a = some a') (hout : .static n ∉ a.stack) :
    .static n ∉ a'.stack ∧ alookup a'.statics n = alookup a.statics n := by
  unfold aModify at h
  cases sh with
  | true => simp at h; subst h; exact ⟨hout, rfl⟩
  | false =>
    simp only [Bool.false_eq_true, if_false] at h
    cases hfn : firstNormal a.stack with
    | none => simp [hfn] at h
    | some fr =>
      have hmem := firstNormal_mem hfn
      rw [hfn] at h
      cases fr with
      | global => simp at h; subst h; exact ⟨hout, rfl⟩
      | collect x => simp at h
      | «local» v =>
        simp at h; subst h
        exact ⟨static_not_mem_modifyFirstLocal f _ hout, rfl⟩
      | static m =>
        have hmn : m ≠ n := by intro e; subst e; exact hout hmem
        cases hl : alookup a.statics m with
        | none => simp [hl] at h
        | some w =>
          simp [hl] at h; subst h
          exact ⟨hout, alookup_aupdate_ne _ hmn⟩

/-- While STATIC subprogram `n` is not active and is not entered, no operation — of the main
module, of any other subprogram (STATIC or not), of an error handler — touches its frame. -/
theorem aStep_other {n : Nat} {op : Op} {a a' : AbsCtx} (h : aStep op a = some a')
    (hop : op ≠ .stopCollectStatic n) (hout : .static n ∉ a.stack) :
    .static n ∉ a'.stack ∧ alookup a'.statics n = alookup a.statics n := by
  cases op with
  | beginCollect => simp [aStep] at h; subst h; simpa using hout
  | pushArg p v =>
    cases hst : a.stack with
    | nil => simp [aStep, hst] at h
    | cons fr r =>
      cases fr <;> simp [aStep, hst] at h
      subst h; rw [hst] at hout; simpa using hout
  | stopCollect =>
    cases hst : a.stack with
    | nil => simp [aStep, hst] at h
    | cons fr r =>
      cases fr <;> simp [aStep, hst] at h
      subst h; rw [hst] at hout; simpa using hout
  | stopCollectStatic m =>
    have hmn : m ≠ n := fun e => hop (e ▸ rfl)
    cases hst : a.stack with
    | nil => simp [aStep, hst] at h
    | cons fr r =>
      cases fr <;> simp [aStep, hst] at h
      rw [hst] at hout
      cases hl : alookup a.statics m with
      | none =>
        simp [hl] at h; subst h
        exact ⟨by simpa [Ne.symm hmn] using hout, alookup_append_ne _ hmn⟩
      | some w =>
        simp [hl] at h; subst h
        exact ⟨by simpa [Ne.symm hmn] using hout, alookup_aupdate_ne _ hmn⟩
  | pop =>
    cases hst : a.stack with
    | nil => simp [aStep, hst] at h
    | cons fr r =>
      rw [hst] at hout
      cases fr <;> simp [aStep, hst] at h <;> (subst h; exact ⟨fun hm => hout (List.mem_cons_of_mem _ hm), rfl⟩)
  | pushErrorHandler =>
    simp [aStep] at h; subst h
    refine ⟨?_, rfl⟩
    simp only [List.mem_cons, not_or]
    exact ⟨by simp, fun hm => hout (List.Sublist.mem hm (List.dropWhile_sublist _))⟩
  | dropArgumentsForArray =>
    cases hst : a.stack with
    | nil => simp [aStep, hst] at h
    | cons fr r =>
      rw [hst] at hout
      cases fr <;> simp [aStep, hst] at h
      subst h; exact ⟨fun hm => hout (List.mem_cons_of_mem _ hm), rfl⟩
  | dropCollecting =>
    simp [aStep] at h; subst h
    exact ⟨fun hm => hout (List.Sublist.mem hm (List.dropWhile_sublist _)), rfl⟩
  | setVar sh k v => simp only [aStep] at h; exact aModify_other h hout
  | touch sh k => simp only [aStep] at h; exact aModify_other h hout

theorem aRun_other {n : Nat} : ∀ (ops : List Op) (a a' : AbsCtx), aRun ops a = some a' →
    (∀ op ∈ ops, op ≠ .stopCollectStatic n) → .static n ∉ a.stack →
    .static n ∉ a'.stack ∧ alookup a'.statics n = alookup a.statics n := by
  intro ops
  induction ops with
  | nil => intro a a' h _ hout; simp [aRun] at h; subst h; exact ⟨hout, rfl⟩
  | cons op ops ih =>
    intro a a' h hops hout
    cases hs : aStep op a with
    | none => simp [aRun, hs] at h
    | some a1 =>
      simp only [aRun, hs] at h
      obtain ⟨h1, h2⟩ := aStep_other hs (hops op (List.mem_cons_self ..)) hout
      obtain ⟨h3, h4⟩ := ih a1 a' h (fun o ho => hops o (List.mem_cons_of_mem _ ho)) h1
      exact ⟨h3, h4.trans h2⟩

/-- Re-entry: from a reachable context `c1` in which STATIC subprogram `n` is not active, after ANY
well-bracketed history `h2` that does not enter `n` — calls of other subprograms at any depth,
STATIC or not, frames freed (`Vec::remove`) below or above its block, error handlers —, entering `n`
succeeds and the activation sees the frame stored for `n` in `c1` with the new arguments applied
(just the arguments if `n` was never entered before). -/
theorem static_reentry {c1 c2 : Ctx} {h2 : List Op} {n : Nat} {s : St} {rest : List St}
    {a : List (Nat × Int)} (hr1 : Reachable c1) (hout : .static n ∉ (abs c1).stack)
    (hwb2 : (wbRun h2 (kinds c1)).isSome = true) (hno : ∀ op ∈ h2, op ≠ .stopCollectStatic n)
    (hr2 : run h2 c1 = .ok c2) (hs : c2.states = s :: rest) (ha : s.args = some a) :
    ∃ c3, step (.stopCollectStatic n) c2 = .ok c3 ∧
      curVars c3 = Vars.applyArgs ((alookup (abs c1).statics n).getD []) a := by
  have h1 := reachable_inv hr1
  obtain ⟨c2', hr2', hinv2, _, habs2⟩ := run_good h2 c1 h1 hwb2
  rw [hr2] at hr2'; cases hr2'
  obtain ⟨_, hsame⟩ := aRun_other h2 _ _ habs2 hno hout
  have hk : kinds c2 = true :: rest.map (fun s => s.args.isSome) := by simp [kinds, hs, ha]
  obtain ⟨c3, hstep, hinv3, _, habs3⟩ := stopCollectStatic_good n hinv2 hk
  refine ⟨c3, hstep, ?_⟩
  have hstack : (abs c2).stack = .collect a :: rest.map (absFrame c2) := by
    simp [abs, hs, absFrame, ha]
  rw [curVars_eq hinv3]
  simp only [aStep, hstack] at habs3
  rw [← hsame]
  cases hl : alookup (abs c2).statics n with
  | none =>
    simp only [hl, Option.some.injEq] at habs3
    rw [← habs3]
    simp [aCurVars, firstNormal, alookup_append_self _ hl, Vars.ofArgs]
  | some w =>
    simp only [hl, Option.some.injEq] at habs3
    rw [← habs3]
    simp [aCurVars, firstNormal, alookup_aupdate_self _ hl]

/-- Exit: leaving an activation of STATIC subprogram `n` (its state is the top one) stores exactly
the variables it had as the frame of `n`. -/
theorem static_exit {c : Ctx} {s : St} {rest : List St} {n : Nat} (hr : Reachable c)
    (hs : c.states = s :: rest) (hn : absFrame c s = .static n) :
    ∃ c', step .pop c = .ok c' ∧ alookup (abs c').statics n = some (curVars c) ∧
      (abs c').stack = (abs c).stack.tail := by
  have h := reachable_inv hr
  have hnone : s.args = none := by
    cases hx : s.args with
    | none => rfl
    | some x => simp [absFrame, hx] at hn
  have hne : rest ≠ [] := by
    intro hr0
    have := h.root; rw [hs, hr0] at this; simp at this
    rw [this] at hn; simp [absFrame] at hn
  have hk : kinds c = false :: rest.map (fun s => s.args.isSome) := by simp [kinds, hs, hnone]
  obtain ⟨c', hstep, _, _, habs⟩ := pop_good h hk (by simpa using hne)
  have hstack : (abs c).stack = .static n :: rest.map (absFrame c) := by
    simp [abs, hs, hn]
  simp only [aStep, hstack, Option.some.injEq] at habs
  refine ⟨c', hstep, ?_, by rw [← habs, hstack]; rfl⟩
  rw [← habs, curVars_eq h]
  simp only [aCurVars, hstack, firstNormal]
  -- the frame of `n` exists: the top state's block is owned by `n`
  have h0 : s.blk ≠ 0 := by intro h0; simp [absFrame, hnone, h0] at hn
  have hown : ownerOf c.statics s.blk = some n := by
    cases ho : ownerOf c.statics s.blk with
    | none => simp [absFrame, hnone, h0, ho] at hn
    | some m => simp [absFrame, hnone, h0, ho] at hn; rw [hn]
  have hl := lookupStatic_of_mem h.keys (ownerOf_some_mem hown)
  simp [abs, alookup_map, hl]

/-- **static_persists.** For every call history: when the outermost activation of STATIC
subprogram `n` returns from a reachable context `c` (wherever it was called from — main module or
inside other subprograms), and then any well-bracketed history `h2` runs that does not enter `n`,
the next activation of `n` — again from anywhere — starts with exactly the variables the previous
one left, with the new arguments applied. -/
theorem static_persists {c c2 : Ctx} {h2 : List Op} {n : Nat} {s s2 : St} {rest rest2 : List St}
    {a : List (Nat × Int)} (hr : Reachable c) (hs : c.states = s :: rest)
    (hn : absFrame c s = .static n) (houter : .static n ∉ rest.map (absFrame c))
    (hwb2 : (wbRun (.pop :: h2) (kinds c)).isSome = true)
    (hno : ∀ op ∈ h2, op ≠ .stopCollectStatic n)
    (hr2 : run (.pop :: h2) c = .ok c2) (hs2 : c2.states = s2 :: rest2) (ha : s2.args = some a) :
    ∃ c3, step (.stopCollectStatic n) c2 = .ok c3 ∧ curVars c3 = Vars.applyArgs (curVars c) a := by
  obtain ⟨c1, hstep, hlook, hstack⟩ := static_exit hr hs hn
  have hr2' : run h2 c1 = .ok c2 := by simpa [run, hstep] using hr2
  obtain ⟨ops, hwb, hrun⟩ := hr
  have hinv := reachable_inv ⟨ops, hwb, hrun⟩
  -- `c1` is reachable and the continuation is well-bracketed from it
  cases hk : wbStep .pop (kinds c) with
  | none => simp [wbRun, hk] at hwb2
  | some k1 =>
    obtain ⟨c1', hs1, hinv1, hk1, _⟩ := step_good .pop c k1 hinv hk
    rw [hstep] at hs1; cases hs1
    have hwb2' : (wbRun h2 (kinds c1)).isSome = true := by
      simpa [wbRun, hk, hk1] using hwb2
    have hreach1 : Reachable c1 := by
      refine ⟨ops ++ [.pop], ?_, ?_⟩
      · obtain ⟨cc, hcc, _, hkk, _⟩ := run_good ops init inv_init hwb
        rw [hrun] at hcc; cases hcc
        have : wbRun (ops ++ [.pop]) (kinds init) = some (kinds c1) := by
          have happ : ∀ (l1 l2 : List Op) (k : List Bool),
              wbRun (l1 ++ l2) k = (wbRun l1 k).bind (wbRun l2) := by
            intro l1
            induction l1 with
            | nil => intro l2 k; rfl
            | cons o l1 ih =>
              intro l2 k
              simp only [List.cons_append, wbRun]
              cases wbStep o k with
              | none => rfl
              | some k' => exact ih l2 k'
          rw [happ, hkk]; simp [wbRun, hk, hk1]
        unfold WB; rw [show ([false] : List Bool) = kinds init from rfl, this]; rfl
      · have happ : ∀ (l1 l2 : List Op) (x : Ctx),
            run (l1 ++ l2) x = (match run l1 x with | .error e => .error e | .ok y => run l2 y) := by
          intro l1
          induction l1 with
          | nil => intro l2 x; rfl
          | cons o l1 ih =>
            intro l2 x
            simp only [List.cons_append, run]
            cases step o x with
            | error e => rfl
            | ok y => exact ih l2 y
        rw [happ, hrun]; simp [run, hstep]
    have hout : .static n ∉ (abs c1).stack := by
      rw [hstack]; simp only [abs, hs, List.map_cons, List.tail_cons]; exact houter
    obtain ⟨c3, h3, hcur⟩ := static_reentry hreach1 hout hwb2' hno hr2' hs2 ha
    exact ⟨c3, h3, by rw [hcur, hlook]; rfl⟩

/-- The F5 shape as an instance of `static_persists`: `Counter` (STATIC, scope 7) first entered
from inside `Outer`, `Outer`'s block freed, `Counter` entered again from the main module: it sees
the variable it stored. -/
example : ∃ c, run [.beginCollect, .stopCollect, .beginCollect, .stopCollectStatic 7,
      .setVar false 3 41, .pop, .pop, .beginCollect, .pushArg 9 1, .stopCollectStatic 7] init = .ok c ∧
    curVars c = [(3, 41), (9, 1)] := by
  refine ⟨_, rfl, ?_⟩; decide

/-! ### The call protocol is well-bracketed

`WB` is a hypothesis of the theorems above.  The lemmas below show that the operation sequences of
the shapes emitted by `instruction_generator/calls.rs` (`generate_sub_call_instructions`,
`generate_function_call_instructions`, `generate_push_named_args_instructions`), `dim.rs`
(array allocation) and of an error-handler episode (`push_error_handler_context` … `RESUME*`)
are balanced, and balanced pieces compose — so every history built by nesting calls inside
bodies and inside argument lists, at any depth, is well-bracketed. -/

/-- `ops` is balanced over the kinds `k`: allowed from `k` and back at `k` afterwards. -/
def Balanced (ops : List Op) (k : List Bool) : Prop := wbRun ops k = some k

theorem wbRun_append (l1 l2 : List Op) (k : List Bool) :
    wbRun (l1 ++ l2) k = (wbRun l1 k).bind (wbRun l2) := by
  induction l1 generalizing k with
  | nil => rfl
  | cons o l1 ih =>
    simp only [List.cons_append, wbRun]
    cases wbStep o k with
    | none => rfl
    | some k' => exact ih k'

theorem balanced_nil (k : List Bool) : Balanced [] k := rfl

theorem balanced_append {l1 l2 : List Op} {k : List Bool} (h1 : Balanced l1 k) (h2 : Balanced l2 k) :
    Balanced (l1 ++ l2) k := by
  unfold Balanced at *; rw [wbRun_append, h1]; exact h2

theorem balanced_setVar (sh : Bool) (x : Nat) (v : Int) (k : List Bool) :
    Balanced [.setVar sh x v] k := rfl

theorem balanced_touch (sh : Bool) (x : Nat) (k : List Bool) : Balanced [.touch sh x] k := rfl

/-- One argument: evaluate it (possibly calling functions: `ev` balanced over the collecting
state), then `PushNamed`/`PushUnnamed*`. -/
theorem balanced_arg {ev : List Op} {k : List Bool} (p : Nat) (v : Int)
    (h : Balanced ev (true :: k)) : Balanced (ev ++ [.pushArg p v]) (true :: k) := by
  unfold Balanced at *; rw [wbRun_append, h]; rfl

/-- `enter` = `PushStack` or `PushStaticStack(n)`. -/
def enter : Option Nat → Op
  | none => .stopCollect
  | some n => .stopCollectStatic n

/-- A user subprogram call (`generate_sub_call_instructions` / `generate_function_call_…`):
`BeginCollectArguments`, the arguments, `PushStack`/`PushStaticStack`, the body, `PopStack`. -/
theorem balanced_call {args body : List Op} {k : List Bool} (st : Option Nat) (hk : k ≠ [])
    (hargs : Balanced args (true :: k)) (hbody : Balanced body (false :: k)) :
    Balanced ([.beginCollect] ++ args ++ [enter st] ++ body ++ [.pop]) k := by
  unfold Balanced at *
  have henter : wbStep (enter st) (true :: k) = some (false :: k) := by cases st <;> rfl
  have e : [.beginCollect] ++ args ++ [enter st] ++ body ++ [.pop]
      = .beginCollect :: (args ++ (enter st :: (body ++ [.pop]))) := by simp
  rw [e, wbRun]; simp only [wbStep]
  rw [wbRun_append, hargs]; simp only [Option.bind_some]
  rw [wbRun]; simp only [henter]
  rw [wbRun_append, hbody]
  simp [wbRun, wbStep, hk]

/-- Array allocation (`dim.rs`): `BeginCollectArguments`, the bounds, `AllocateArrayIntoA`. -/
theorem balanced_dim {args : List Op} {k : List Bool} (hargs : Balanced args (true :: k)) :
    Balanced ([.beginCollect] ++ args ++ [.dropArgumentsForArray]) k := by
  unfold Balanced at *
  have e : [.beginCollect] ++ args ++ [.dropArgumentsForArray]
      = .beginCollect :: (args ++ [.dropArgumentsForArray]) := by simp
  rw [e, wbRun]; simp only [wbStep]
  rw [wbRun_append, hargs]
  rfl

/-- An error-handler episode started anywhere (also in the middle of an argument list: the
collecting states are dropped), running a balanced handler body and ending in `RESUME*`:
afterwards the kinds are those of the nearest normal state. -/
theorem wb_handler {body : List Op} {k : List Bool} (hk : k.dropWhile id ≠ [])
    (hbody : Balanced body (false :: k.dropWhile id)) :
    wbRun ([.pushErrorHandler] ++ body ++ [.pop]) k = some (k.dropWhile id) := by
  unfold Balanced at *
  have e : [.pushErrorHandler] ++ body ++ [.pop] = .pushErrorHandler :: (body ++ [.pop]) := by simp
  rw [e, wbRun]; simp only [wbStep]
  rw [wbRun_append, hbody]
  simp [wbRun, wbStep, hk]

/-- A handled error under `ON ERROR RESUME NEXT` (or the first half of a handler episode):
`abandon_failed_call` pops the frame of a failed built-in and drops the collecting states; always
allowed, and the kinds afterwards are those of the nearest normal state. -/
theorem wb_abandon (k : List Bool) :
    wbRun [.dropCollecting] k = some (k.dropWhile id) := rfl

theorem wb_abandon_builtin {k : List Bool} (hk : k ≠ []) :
    wbRun [.pop, .dropCollecting] (false :: k) = some (k.dropWhile id) := by
  simp [wbRun, wbStep, hk]

/-- A main module made of balanced statements is a well-bracketed history. -/
theorem wb_of_balanced {ops : List Op} (h : Balanced ops [false]) : WB ops := by
  unfold WB; unfold Balanced at h; rw [h]; rfl

/-- Example: `Outer (F(1))` where STATIC function 5 is called in the argument list of an ordinary
sub whose body calls STATIC sub 7 — assembled from the lemmas, hence covered by `ctx_inv`. -/
example : WB ([.beginCollect] ++
    (([.beginCollect] ++ ([] ++ [.pushArg 0 1]) ++ [enter (some 5)] ++ [.setVar false 2 3] ++ [.pop])
      ++ [.pushArg 1 0]) ++
    [enter none] ++
    ([.beginCollect] ++ [] ++ [enter (some 7)] ++ [.touch false 4] ++ [.pop]) ++ [.pop]) := by
  apply wb_of_balanced
  apply balanced_call none (by simp)
  · apply balanced_arg
    apply balanced_call (some 5) (by simp)
    · exact balanced_arg 0 1 (balanced_nil _)
    · exact balanced_setVar ..
  · apply balanced_call (some 7) (by simp)
    · exact balanced_nil _
    · exact balanced_touch ..

end RbThm.C03
