import Thm.C02
import Thm.C01SimRead
/-!
C02, FOR ≡ WHILE (`for_eq_while`): the frame lemma (a statement leaves the variables it does not
mention unchanged), the simulation of the rounds of a FOR loop by the WHILE spelling and back, and
the theorem for the rewrite `RbModel.Rewrite.forToWhile` in its three shapes (no STEP, whole-number
literal STEP, any other STEP).
-/
set_option linter.unusedVariables false
set_option linter.unusedSimpArgs false

namespace RbThm.C02
open RbModel RbModel.Num RbModel.Ast RbModel.Ref RbModel.Rewrite RbThm.C01
open RbThm.C01Sim RbThm.C01Sim.SimRead

/-! ### frame lemma -/

/-- the variables `zs` hold in `s'` what they hold in `s` -/
def Same (zs : List Nat) (s s' : St) : Prop := ∀ z, z ∈ zs → s'.env[z]? = s.env[z]?

theorem Same.refl (zs : List Nat) (s : St) : Same zs s s := fun _ _ => rfl

theorem Same.trans {zs : List Nat} {s s' s'' : St} (h : Same zs s s') (h' : Same zs s' s'') : Same zs s s'' :=
  fun z hz => (h' z hz).trans (h z hz)

theorem Same.set {zs : List Nat} (s : St) {x : Nat} (hx : x ∉ zs) (v : Val) : Same zs s (s.set x v) := by
  intro z hz
  have : x ≠ z := fun e => hx (e ▸ hz)
  simp only [St.set, List.getElem?_set_ne this]

theorem same_andThen {zs : List Nat} {s s' : St} {o : Outcome} {r : St × Outcome} {k : St → St × Outcome}
    (h : andThen r k = (s', o)) (hr : Same zs s r.1) (hk : ∀ sa, r = (sa, .normal) → Same zs sa s') :
    Same zs s s' := by
  rcases andThen_inv h with ⟨sa, hra, _⟩ | ⟨_, hr'⟩
  · have := hk sa hra; rw [hra] at hr; exact hr.trans this
  · rw [hr'] at hr; exact hr

/-- the frame property at a given amount of fuel, for the three mutually recursive functions -/
def Frame (zs : List Nat) (fuel : Nat) : Prop :=
  (∀ st s s' o, usesS zs st = false → exec fuel st s = (s', o) → Same zs s s') ∧
  (∀ p subj cs s s' o, usesC zs cs = false → execCases fuel p subj cs s = (s', o) → Same zs s s') ∧
  (∀ x t h sv up body p s s' o, x ∉ zs → usesS zs body = false →
      forIter fuel x t h sv up body p s = (s', o) → Same zs s s')

theorem frame_zero (zs : List Nat) : Frame zs 0 := by
  refine ⟨?_, ?_, ?_⟩
  · intro st s s' o _ h; simp only [exec] at h; cases h; exact Same.refl _ _
  · intro p subj cs s s' o _ h; simp only [execCases] at h; cases h; exact Same.refl _ _
  · intro x t hv sv up body p s s' o _ _ h; simp only [forIter] at h; cases h; exact Same.refl _ _

theorem frame_succ (zs : List Nat) (n : Nat) (ih : Frame zs n) : Frame zs (n + 1) := by
  obtain ⟨ihE, ihC, ihF⟩ := ih
  refine ⟨?_, ?_, ?_⟩
  · intro st s s' o hu h
    cases st with
    | skip => simp only [exec] at h; cases h; exact Same.refl _ _
    | end_ p => simp only [exec] at h; cases h; exact Same.refl _ _
    | seq a b =>
      have hu' : usesS zs a = false ∧ usesS zs b = false := by simpa [usesS] using hu
      rw [exec_seq] at h
      exact same_andThen h (ihE a s _ _ hu'.1 rfl) (fun sa _ => ihE b sa s' o hu'.2 (by
        rcases andThen_inv h with ⟨sa', hra, hk⟩ | ⟨hne, hr⟩
        · rename_i hsa; rw [hsa] at hra; cases hra; exact hk
        · rename_i hsa; rw [hsa] at hne; exact absurd rfl hne))
    | assign x t e p =>
      have hu' : zs.contains x = false ∧ usesE zs e = false := by simpa [usesS] using hu
      simp only [exec] at h
      cases hev : evalTo s.env e t with
      | ok v => rw [hev] at h; cases h; exact Same.set s (not_mem_of_contains hu'.1) v
      | err c q => rw [hev] at h; cases h; exact Same.refl _ _
      | inexact => rw [hev] at h; cases h; exact Same.refl _ _
    | print items p =>
      simp only [exec] at h
      generalize hr : printItems s items = r at h
      obtain ⟨sa, oa⟩ := r
      have henv := printItems_env items s sa oa hr
      have : s'.env = s.env := by
        cases oa <;> simp only at h
        · split at h <;> cases h <;> exact henv
        all_goals (cases h; exact henv)
      intro z _; rw [this]
    | read x t p =>
      have hx : x ∉ zs := not_mem_of_contains (by simpa [usesS] using hu)
      simp only [exec] at h
      cases hd : s.data[s.dataIdx]? with
      | none => rw [hd] at h; cases h; exact Same.refl _ _
      | some v =>
        rw [hd] at h; simp only at h
        cases hc : Num.cast v t with
        | ok w => rw [hc] at h; cases h; exact Same.set s hx w
        | err e => rw [hc] at h; cases h; exact Same.refl _ _
        | inexact => rw [hc] at h; cases h; exact Same.refl _ _
    | ifs c a b p =>
      have hu' : (usesE zs c = false ∧ usesS zs a = false) ∧ usesS zs b = false := by simpa [usesS] using hu
      rw [exec_ifs] at h
      cases hc : evalCond s.env c with
      | error oe => rw [hc] at h; cases h; exact Same.refl _ _
      | ok bb =>
        rw [hc] at h
        cases bb with
        | true => exact ihE a s s' o hu'.1.2 h
        | false => exact ihE b s s' o hu'.2 h
    | select e cs p =>
      have hu' : usesE zs e = false ∧ usesC zs cs = false := by simpa [usesS] using hu
      simp only [exec] at h
      cases he : evalE s.env e with
      | error oe => rw [he] at h; cases h; exact Same.refl _ _
      | ok subj => rw [he] at h; exact ihC p subj cs s s' o hu'.2 h
    | forLoop x t lo hi step body p =>
      have hu' : (((zs.contains x = false ∧ usesE zs lo = false) ∧ usesE zs hi = false) ∧ usesStep zs step = false)
          ∧ usesS zs body = false := by simpa [usesS] using hu
      have hx := not_mem_of_contains hu'.1.1.1.1
      simp only [exec] at h
      cases hl : evalTo s.env lo t with
      | err c q => rw [hl] at h; cases h; exact Same.refl _ _
      | inexact => rw [hl] at h; cases h; exact Same.refl _ _
      | ok l =>
        rw [hl] at h; simp only at h
        have h0 : Same zs s (s.set x l) := Same.set s hx l
        cases hh : evalTo (s.set x l).env hi t with
        | err c q => rw [hh] at h; cases h; exact h0
        | inexact => rw [hh] at h; cases h; exact h0
        | ok hv =>
          rw [hh] at h; simp only at h
          cases step with
          | none => exact h0.trans (ihF x t hv _ true body p _ s' o hx hu'.2 h)
          | some se =>
            simp only at h
            cases hs : evalE (s.set x l).env se with
            | error oe => rw [hs] at h; cases h; exact h0
            | ok sv =>
              rw [hs] at h; simp only at h
              cases hsg : stepSign p sv with
              | error oe => rw [hsg] at h; cases h; exact h0
              | ok sg =>
                rw [hsg] at h
                cases sg with
                | neg => exact h0.trans (ihF x t hv sv false body p _ s' o hx hu'.2 h)
                | pos => exact h0.trans (ihF x t hv sv true body p _ s' o hx hu'.2 h)
                | zero => cases h; exact h0
    | «while» c body p =>
      have hu' : usesE zs c = false ∧ usesS zs body = false := by simpa [usesS] using hu
      rw [exec_while] at h
      cases hc : evalCond s.env c with
      | error oe => rw [hc] at h; cases h; exact Same.refl _ _
      | ok bb =>
        rw [hc] at h
        cases bb with
        | false => cases h; exact Same.refl _ _
        | true =>
          simp only at h
          rcases andThen_inv h with ⟨sa, hra, hk⟩ | ⟨_, hr⟩
          · exact (ihE body s sa _ hu'.2 hra).trans (ihE _ sa s' o hu hk)
          · exact ihE body s s' o hu'.2 hr
    | doLoop c top u body p =>
      have hu' : usesE zs c = false ∧ usesS zs body = false := by simpa [usesS] using hu
      cases top with
      | true =>
        rw [exec_doTop] at h
        cases hc : evalCond s.env c with
        | error oe => rw [hc] at h; cases h; exact Same.refl _ _
        | ok bb =>
          rw [hc] at h; simp only at h
          by_cases hbu : (bb != u) = true
          · rw [if_pos hbu] at h
            rcases andThen_inv h with ⟨sa, hra, hk⟩ | ⟨_, hr⟩
            · exact (ihE body s sa _ hu'.2 hra).trans (ihE _ sa s' o hu hk)
            · exact ihE body s s' o hu'.2 hr
          · rw [if_neg hbu] at h; cases h; exact Same.refl _ _
      | false =>
        rw [exec_doBottom] at h
        rcases andThen_inv h with ⟨sa, hra, hk⟩ | ⟨_, hr⟩
        · have h1 := ihE body s sa _ hu'.2 hra
          cases hc : evalCond sa.env c with
          | error oe => rw [hc] at hk; cases hk; exact h1
          | ok bb =>
            rw [hc] at hk; simp only at hk
            by_cases hbu : (bb != u) = true
            · rw [if_pos hbu] at hk; exact h1.trans (ihE _ sa s' o hu hk)
            · rw [if_neg hbu] at hk; cases hk; exact h1
        · exact ihE body s s' o hu'.2 hr
  · intro p subj cs s s' o hu h
    cases cs with
    | nil => simp only [execCases] at h; cases h; exact Same.refl _ _
    | else_ body => simp only [execCases] at h; exact ihE body s s' o (by simpa [usesC] using hu) h
    | case conds body rest =>
      have hu' : (conds.any (usesCase zs) = false ∧ usesS zs body = false) ∧ usesC zs rest = false := by
        simpa [usesC] using hu
      simp only [execCases] at h
      cases hm : anyMatches s.env p subj conds with
      | error oe => rw [hm] at h; cases h; exact Same.refl _ _
      | ok bb =>
        rw [hm] at h
        cases bb with
        | true => exact ihE body s s' o hu'.1.2 h
        | false => exact ihC p subj rest s s' o hu'.2 h
  · intro x t hv sv up body p s s' o hx hu h
    rw [forIter_succ] at h
    cases hrt : relTest p (if up then .lessOrEqual else .greaterOrEqual) (s.env.getD x (zeroOf t)) hv with
    | error oe => rw [hrt] at h; cases h; exact Same.refl _ _
    | ok bb =>
      rw [hrt] at h
      cases bb with
      | false => cases h; exact Same.refl _ _
      | true =>
        simp only at h
        rcases andThen_inv h with ⟨sa, hra, hk⟩ | ⟨_, hr⟩
        · have h1 := ihE body s sa _ hu hra
          cases hpl : (plus (sa.env.getD x (zeroOf t)) sv).bind (fun v => Num.cast v t) with
          | ok v =>
            rw [hpl] at hk; simp only at hk
            exact (h1.trans (Same.set sa hx v)).trans (ihF x t hv sv up body p _ s' o hx hu hk)
          | err e => rw [hpl] at hk; cases hk; exact h1
          | inexact => rw [hpl] at hk; cases hk; exact h1
        · exact ihE body s s' o hu hr

theorem frame_all (zs : List Nat) : ∀ n, Frame zs n
  | 0 => frame_zero zs
  | n + 1 => frame_succ zs n (frame_all zs n)

/-- **Frame lemma.** A statement leaves every variable it does not mention unchanged — however it
ends (normally, with an error, by END, or by running out of fuel). -/
theorem exec_frame {zs : List Nat} {st : Stmt} (hu : usesS zs st = false) {fuel : Nat} {s s' : St} {o : Outcome}
    (h : exec fuel st s = (s', o)) : ∀ z, z ∈ zs → s'.env[z]? = s.env[z]? :=
  (frame_all zs fuel).1 st s s' o hu h

/-! ### one round of FOR and one round of the WHILE spelling -/

theorem cast_same_tag (v : Val) (t : Ty) (h : v.tag = t) : Num.cast v t = .ok v := by
  subst h; cases v <;> rfl

/-- the increment `x = x + s` of the WHILE spelling computes what FOR's own increment computes: the
sum converted to the counter's type (the assignment converts only when the static type of the sum
differs from the counter's, and then the sum already has the counter's type) -/
theorem evalTo_incr {env : List Val} {x : Nat} {t ts tres : Ty} {sE : Ast.Expr} {svv : Val} (q : Pos)
    (hsE : eval env sE = .ok svv) (hcur : (env.getD x (zeroOf t)).tag = t) (hsv : svv.tag = ts)
    (htres : Gen.NumTables.binType .plus t ts = some tres) :
    evalTo env (.bin .plus (.var x t q) sE tres q) t =
      lift q ((plus (env.getD x (zeroOf t)) svv).bind fun v => Num.cast v t) := by
  simp only [evalTo, eval, hsE, ERes.bind, Ast.Expr.ty, Ast.Expr.pos]
  have hb : binStep .plus tres (env.getD x (zeroOf t)) svv = plus (env.getD x (zeroOf t)) svv := rfl
  rw [hb]
  cases hp : plus (env.getD x (zeroOf t)) svv with
  | err e => rfl
  | inexact => rfl
  | ok v0 =>
    have ht := (RbThm.C06.arith_typed .add _ _ v0 hp).1
    rw [hcur, hsv] at ht
    have htag : v0.tag = tres := by
      have : Gen.NumTables.binType Op.plus t ts = some v0.tag := ht
      rw [htres] at this; exact (Option.some.inj this).symm
    have hsc : storeCast tres t v0 = Num.cast v0 t := by
      unfold storeCast
      by_cases hte : tres = t
      · rw [if_pos hte, cast_same_tag v0 t (by rw [htag, hte])]
      · rw [if_neg hte]
    simp only [lift, ERes.bind, Res.bind, hsc]

theorem exec_incr {s : St} {x : Nat} {t ts tres : Ty} {sE : Ast.Expr} {svv : Val} (q : Pos) (f : Nat)
    (hsE : eval s.env sE = .ok svv) (hcur : (s.env.getD x (zeroOf t)).tag = t) (hsv : svv.tag = ts)
    (htres : Gen.NumTables.binType .plus t ts = some tres) :
    exec (f + 1) (incr x t sE tres q) s =
      match (plus (s.env.getD x (zeroOf t)) svv).bind fun v => Num.cast v t with
      | .ok v => (s.set x v, .normal)
      | .err e => (s, .error (codeOf e) q)
      | .inexact => (s, .inexact) := by
  simp only [incr, exec, evalTo_incr q hsE hcur hsv htres]
  cases (plus (s.env.getD x (zeroOf t)) svv).bind fun v => Num.cast v t <;> rfl

/-- one round of the WHILE spelling -/
theorem exec_countLoop (f : Nat) (up : Bool) (x : Nat) (t : Ty) (zl : Nat) (sE : Ast.Expr) (tres : Ty)
    (body : Stmt) (q : Pos) (s : St) {h : Val} (hz : s.env[zl]? = some h) :
    exec (f + 2) (countLoop up x t zl sE tres body q) s =
      match relTest q (if up then .lessOrEqual else .greaterOrEqual) (s.env.getD x (zeroOf t)) h with
      | .error o => (s, o)
      | .ok false => (s, .normal)
      | .ok true =>
        andThen (andThen (exec f body s) (exec f (incr x t sE tres q)))
          (exec (f + 1) (countLoop up x t zl sE tres body q)) := by
  simp only [countLoop]
  rw [exec_while, evalCond_countTest hz up q, exec_seq]
  cases relTest q (if up then .lessOrEqual else .greaterOrEqual) (s.env.getD x (zeroOf t)) h with
  | error o => rfl
  | ok b => cases b <;> rfl

/-- the facts about a FOR loop and its WHILE spelling the two simulations share -/
structure LoopHyp (sl : List Ty) (x : Nat) (t : Ty) (zl zs : Nat) (ts tres : Ty) (sE : Ast.Expr) (svv : Val)
    (ez : Option Val) (body : Stmt) : Prop where
  hx : x ∉ [zl, zs]
  hub : usesS [zl, zs] body = false
  hwb : WfA sl body
  hxt : sl[x]? = some t
  hsv : svv.tag = ts
  htres : Gen.NumTables.binType .plus t ts = some tres
  hsE : ∀ env : List Val, env[zs]? = ez → eval env sE = .ok svv

theorem bind_cast_tag {a b : Val} {t : Ty} {v : Val} (h : ((plus a b).bind fun v => Num.cast v t) = .ok v) :
    v.tag = t := by
  obtain ⟨w, _, hc⟩ := res_bind_ok h
  exact cast_tag w t v hc

/-- the rounds of a FOR loop are simulated by the WHILE spelling -/
theorem loop_fwd {sl : List Ty} {x : Nat} {t : Ty} {zl zs : Nat} {ts tres : Ty} {sE : Ast.Expr} {svv : Val}
    {ez : Option Val} {body : Stmt} (H : LoopHyp sl x t zl zs ts tres sE svv ez body) (h : Val) (up : Bool) (p : Pos) :
    ∀ fuel s1 s2 s1' o, StEq [zl, zs] s1 s2 → Typed sl s1.env → s2.env[zl]? = some h → s2.env[zs]? = ez →
      forIter fuel x t h svv up body p s1 = (s1', o) → Outcome.isFuel o = false →
      ∃ fuel' s2' o', exec fuel' (countLoop up x t zl sE tres body p) s2 = (s2', o') ∧
        StEq [zl, zs] s1' s2' ∧ OEq o o' := by
  intro fuel
  induction fuel with
  | zero => intro s1 s2 s1' o _ _ _ _ hf ho; rw [forIter_zero_isFuel hf] at ho; cases ho
  | succ n ih =>
    intro s1 s2 s1' o hs hty hzl hzs hf ho
    rw [forIter_succ] at hf
    have hcur := getD_agree hs H.hx (zeroOf t)
    cases hrt : relTest p (if up then .lessOrEqual else .greaterOrEqual) (s1.env.getD x (zeroOf t)) h with
    | error oe =>
      rw [hrt] at hf; cases hf
      exact ⟨2, s2, _, by rw [exec_countLoop 0 up x t zl sE tres body p s2 hzl, ← hcur, hrt], hs, OEq.refl _⟩
    | ok bb =>
      rw [hrt] at hf
      cases bb with
      | false =>
        cases hf
        exact ⟨2, s2, _, by rw [exec_countLoop 0 up x t zl sE tres body p s2 hzl, ← hcur, hrt], hs, OEq.refl _⟩
      | true =>
        simp only at hf
        rcases andThen_inv hf with ⟨sa, hra, hk⟩ | ⟨hne, hr⟩
        · obtain ⟨fa, sa2, oa', hea, hsa, hoa⟩ := sim_self [zl, zs] body H.hub n s1 s2 sa .normal hs hra rfl
          cases hoa.normal_left
          have htya : Typed sl sa.env := (pres_all sl n).1 body s1 sa H.hwb hty hra
          have hfr := exec_frame H.hub hea
          have hzl' : sa2.env[zl]? = some h := by rw [hfr zl (by simp)]; exact hzl
          have hzs' : sa2.env[zs]? = ez := by rw [hfr zs (by simp)]; exact hzs
          have hcur' := getD_agree hsa H.hx (zeroOf t)
          have htag : (sa2.env.getD x (zeroOf t)).tag = t := by
            rw [← hcur']; exact typed_getD_tag htya H.hxt _
          have hinc := fun f => exec_incr (s := sa2) (x := x) (t := t) p f (H.hsE sa2.env hzs') htag H.hsv H.htres
          cases hpl : (plus (sa.env.getD x (zeroOf t)) svv).bind (fun v => Num.cast v t) with
          | ok v =>
            rw [hpl] at hk; simp only at hk
            have hzl'' : (sa2.set x v).env[zl]? = some h := by
              rw [Same.set sa2 H.hx v zl (by simp)]; exact hzl'
            have hzs'' : (sa2.set x v).env[zs]? = ez := by
              rw [Same.set sa2 H.hx v zs (by simp)]; exact hzs'
            obtain ⟨fb, s2', o', heb, hsb, hob⟩ := ih (sa.set x v) (sa2.set x v) s1' o (hsa.set x v)
              (typed_set htya H.hxt (bind_cast_tag hpl)) hzl'' hzs'' hk ho
            refine ⟨fa + fb + 1 + 2, s2', o', ?_, hsb, hob⟩
            rw [exec_countLoop (fa + fb + 1) up x t zl sE tres body p s2 hzl, ← hcur, hrt]
            simp only
            rw [exec_le (f' := fa + fb + 1) (by omega) hea rfl, andThen_normal, hinc (fa + fb), ← hcur', hpl]
            simp only [andThen_normal]
            exact exec_le (by omega) heb (by rw [hob.isFuel]; exact ho)
          | err e =>
            rw [hpl] at hk; cases hk
            refine ⟨fa + 1 + 2, sa2, .error (codeOf e) p, ?_, hsa, rfl⟩
            rw [exec_countLoop (fa + 1) up x t zl sE tres body p s2 hzl, ← hcur, hrt]
            simp only
            rw [exec_le (f' := fa + 1) (by omega) hea rfl, andThen_normal, hinc fa, ← hcur', hpl]
            rfl
          | inexact =>
            rw [hpl] at hk; cases hk
            refine ⟨fa + 1 + 2, sa2, .inexact, ?_, hsa, trivial⟩
            rw [exec_countLoop (fa + 1) up x t zl sE tres body p s2 hzl, ← hcur, hrt]
            simp only
            rw [exec_le (f' := fa + 1) (by omega) hea rfl, andThen_normal, hinc fa, ← hcur', hpl]
            rfl
        · rw [hr] at hne
          obtain ⟨fa, sa2, oa', hea, hsa, hoa⟩ := sim_self [zl, zs] body H.hub n s1 s2 s1' o hs hr ho
          have hne' := hoa.ne_normal hne
          refine ⟨fa + 2, sa2, oa', ?_, hsa, hoa⟩
          rw [exec_countLoop fa up x t zl sE tres body p s2 hzl, ← hcur, hrt]
          simp only
          rw [hea, andThen_abort _ hne', andThen_abort _ hne']

/-- and the WHILE spelling is simulated by the rounds of the FOR loop -/
theorem loop_bwd {sl : List Ty} {x : Nat} {t : Ty} {zl zs : Nat} {ts tres : Ty} {sE : Ast.Expr} {svv : Val}
    {ez : Option Val} {body : Stmt} (H : LoopHyp sl x t zl zs ts tres sE svv ez body) (h : Val) (up : Bool) (p : Pos) :
    ∀ fuel s1 s2 s1' o, StEq [zl, zs] s1 s2 → Typed sl s1.env → s1.env[zl]? = some h → s1.env[zs]? = ez →
      exec fuel (countLoop up x t zl sE tres body p) s1 = (s1', o) → Outcome.isFuel o = false →
      ∃ fuel' s2' o', forIter fuel' x t h svv up body p s2 = (s2', o') ∧ StEq [zl, zs] s1' s2' ∧ OEq o o' := by
  intro fuel
  induction fuel with
  | zero => intro s1 s2 s1' o _ _ _ _ hf ho; rw [exec_zero_isFuel hf] at ho; cases ho
  | succ n ih =>
    intro s1 s2 s1' o hs hty hzl hzs hf ho
    have hcur := getD_agree hs H.hx (zeroOf t)
    -- one fuel for the WHILE, one for the sequence body; x = x + s
    cases n with
    | zero =>
      -- fuel 1: only the test can be evaluated
      simp only [countLoop] at hf
      rw [exec_while, evalCond_countTest hzl up p] at hf
      cases hrt : relTest p (if up then .lessOrEqual else .greaterOrEqual) (s1.env.getD x (zeroOf t)) h with
      | error oe => rw [hrt] at hf; cases hf; exact ⟨1, s2, _, by rw [forIter_succ, ← hcur, hrt], hs, OEq.refl _⟩
      | ok bb =>
        rw [hrt] at hf
        cases bb with
        | false => cases hf; exact ⟨1, s2, _, by rw [forIter_succ, ← hcur, hrt], hs, OEq.refl _⟩
        | true =>
          simp only [exec, andThen] at hf; cases hf; cases ho
    | succ m =>
      rw [exec_countLoop m up x t zl sE tres body p s1 hzl] at hf
      cases hrt : relTest p (if up then .lessOrEqual else .greaterOrEqual) (s1.env.getD x (zeroOf t)) h with
      | error oe => rw [hrt] at hf; cases hf; exact ⟨1, s2, _, by rw [forIter_succ, ← hcur, hrt], hs, OEq.refl _⟩
      | ok bb =>
        rw [hrt] at hf
        cases bb with
        | false => cases hf; exact ⟨1, s2, _, by rw [forIter_succ, ← hcur, hrt], hs, OEq.refl _⟩
        | true =>
          simp only at hf
          -- the body
          have bodyAbort : ∀ sa oa, exec m body s1 = (sa, oa) → oa ≠ .normal → Outcome.isFuel oa = false →
              ∃ fuel' s2' o', forIter fuel' x t h svv up body p s2 = (s2', o') ∧ StEq [zl, zs] sa s2' ∧ OEq oa o' := by
            intro sa oa hb hne hnf
            obtain ⟨fa, sa2, oa', hea, hsa, hoa⟩ := sim_self [zl, zs] body H.hub m s1 s2 sa oa hs hb hnf
            refine ⟨fa + 1, sa2, oa', ?_, hsa, hoa⟩
            rw [forIter_succ, ← hcur, hrt]; simp only
            rw [hea, andThen_abort _ (hoa.ne_normal hne)]
          generalize hbr : exec m body s1 = br at hf
          obtain ⟨sa, oa⟩ := br
          by_cases hn : oa = .normal
          · subst hn
            rw [andThen_normal] at hf
            have htya : Typed sl sa.env := (pres_all sl m).1 body s1 sa H.hwb hty hbr
            have hfr := exec_frame H.hub hbr
            have hzl' : sa.env[zl]? = some h := by rw [hfr zl (by simp)]; exact hzl
            have hzs' : sa.env[zs]? = ez := by rw [hfr zs (by simp)]; exact hzs
            have htag : (sa.env.getD x (zeroOf t)).tag = t := typed_getD_tag htya H.hxt _
            obtain ⟨fa, sa2, oa', hea, hsa, hoa⟩ := sim_self [zl, zs] body H.hub m s1 s2 sa .normal hs hbr rfl
            cases hoa.normal_left
            have hcur' := getD_agree hsa H.hx (zeroOf t)
            -- the increment needs one unit of fuel
            cases m with
            | zero => simp only [exec, andThen] at hf; cases hf; cases ho
            | succ k =>
              rw [exec_incr (s := sa) (x := x) (t := t) p k (H.hsE sa.env hzs') htag H.hsv H.htres] at hf
              cases hpl : (plus (sa.env.getD x (zeroOf t)) svv).bind (fun v => Num.cast v t) with
              | ok v =>
                rw [hpl] at hf; simp only [andThen_normal] at hf
                have hzl'' : (sa.set x v).env[zl]? = some h := by
                  rw [Same.set sa H.hx v zl (by simp)]; exact hzl'
                have hzs'' : (sa.set x v).env[zs]? = ez := by
                  rw [Same.set sa H.hx v zs (by simp)]; exact hzs'
                obtain ⟨fb, s2', o', heb, hsb, hob⟩ := ih (sa.set x v) (sa2.set x v) s1' o (hsa.set x v)
                  (typed_set htya H.hxt (bind_cast_tag hpl)) hzl'' hzs'' hf ho
                refine ⟨fa + fb + 1, s2', o', ?_, hsb, hob⟩
                rw [forIter_succ, ← hcur, hrt]; simp only
                rw [exec_le (f' := fa + fb) (by omega) hea rfl, andThen_normal, ← hcur', hpl]
                exact forIter_le (by omega) heb (by rw [hob.isFuel]; exact ho)
              | err e =>
                rw [hpl] at hf; simp only at hf
                rw [andThen_abort _ (by simp)] at hf; cases hf
                refine ⟨fa + 1, sa2, .error (codeOf e) p, ?_, hsa, rfl⟩
                rw [forIter_succ, ← hcur, hrt]; simp only
                rw [hea, andThen_normal, ← hcur', hpl]
              | inexact =>
                rw [hpl] at hf; simp only at hf
                rw [andThen_abort _ (by simp)] at hf; cases hf
                refine ⟨fa + 1, sa2, .inexact, ?_, hsa, trivial⟩
                rw [forIter_succ, ← hcur, hrt]; simp only
                rw [hea, andThen_normal, ← hcur', hpl]
          · rw [andThen_abort _ hn, andThen_abort _ hn] at hf; cases hf
            exact bodyAbort s1' o hbr hn ho

/-! ### the whole FOR statement and its WHILE spelling -/

/-- the step of the loop is not zero when the loop is entered from `s` (a zero step is error 258 in
FOR; the WHILE spelling has no such error) -/
def StepNonZero (x : Nat) (t : Ty) (lo se : Ast.Expr) (p : Pos) (s : St) : Prop :=
  ∀ l svv, evalTo s.env lo t = .ok l → evalE (s.set x l).env se = .ok svv → stepSign p svv ≠ .ok .zero

/-- simulation between well-typed states that satisfy `P` -/
def SimT (sl : List Ty) (P : St → Prop) (zs : List Nat) (a b : Stmt) : Prop :=
  ∀ fuel s1 s2 s1' o, Typed sl s1.env → Typed sl s2.env → P s1 → StEq zs s1 s2 →
    exec fuel a s1 = (s1', o) → Outcome.isFuel o = false →
    ∃ fuel' s2' o', exec fuel' b s2 = (s2', o') ∧ StEq zs s1' s2' ∧ OEq o o'

/-- **equivalence of statements of a well-typed program** (both directions of `SimT`) -/
def EquivT (sl : List Ty) (P : St → Prop) (zs : List Nat) (a b : Stmt) : Prop :=
  SimT sl P zs a b ∧ SimT sl P zs b a

theorem exec_assign (f x : Nat) (t : Ty) (e : Ast.Expr) (p : Pos) (s : St) :
    exec (f + 1) (.assign x t e p) s =
      match evalTo s.env e t with
      | .ok v => (s.set x v, .normal)
      | .err c q => (s, .error c q)
      | .inexact => (s, .inexact) := by
  simp only [exec]
  cases evalTo s.env e t <;> rfl

/-- `x = lo : zl = hi : R` -/
def pre (x : Nat) (t : Ty) (lo hi : Ast.Expr) (zl : Nat) (p : Pos) (R : Stmt) : Stmt :=
  .seq (.assign x t lo p) (.seq (.assign zl t hi p) R)

theorem exec_pre {x : Nat} {t : Ty} {lo hi : Ast.Expr} {zl : Nat} {p : Pos} (R : Stmt) {s : St} {l hv : Val}
    (hl : evalTo s.env lo t = .ok l) (hh : evalTo (s.set x l).env hi t = .ok hv) (g : Nat) :
    exec (g + 5) (pre x t lo hi zl p R) s = exec (g + 3) R ((s.set x l).set zl hv) := by
  simp only [pre]
  rw [exec_seq, exec_assign, hl]; simp only [andThen_normal]
  rw [exec_seq, exec_assign, hh]; simp only [andThen_normal]

/-- what is left of the WHILE spelling after the two assignments: how it picks the direction -/
structure Shape (sl : List Ty) (x : Nat) (t : Ty) (se : Ast.Expr) (body : Stmt) (p : Pos) (zl zs : Nat) (tres : Ty) where
  R : Stmt
  sE : Ast.Expr
  upd : St → Val → St
  k1 : Nat
  k2 : Nat
  exec_R : ∀ (s : St) (F : Nat), zs < s.env.length → exec (F + 3) R s =
    match evalE s.env se with
    | .error oe => (s, oe)
    | .ok svv =>
      match stepSign p svv with
      | .error oe => (upd s svv, oe)
      | .ok .neg => exec (F + k1) (countLoop false x t zl sE tres body p) (upd s svv)
      | .ok .pos => exec (F + k2) (countLoop true x t zl sE tres body p) (upd s svv)
      | .ok .zero => exec F .skip (upd s svv)
  upd_eq : ∀ s1 s svv, StEq [zl, zs] s1 s → StEq [zl, zs] s1 (upd s svv)
  upd_zl : ∀ s svv, (upd s svv).env[zl]? = s.env[zl]?
  upd_typed : ∀ s svv, Typed sl s.env → svv.tag = se.ty → Typed sl (upd s svv).env
  sE_val : ∀ s svv, zs < s.env.length → evalE s.env se = .ok svv →
    ∀ env : List Val, env[zs]? = (upd s svv).env[zs]? → eval env sE = .ok svv

theorem evalE_ok {env : List Val} {e : Ast.Expr} {v : Val} (h : evalE env e = .ok v) : eval env e = .ok v := by
  simp only [evalE] at h
  cases he : eval env e with
  | ok w => rw [he] at h; cases h; rfl
  | err c q => rw [he] at h; cases h
  | inexact => rw [he] at h; cases h

/-- the side conditions of the rewrite -/
structure ForHyp (sl : List Ty) (x : Nat) (t : Ty) (lo hi se : Ast.Expr) (body : Stmt) (zl zs : Nat) (tres : Ty) : Prop where
  hxz : x ∉ [zl, zs]
  hlo : usesE [zl, zs] lo = false
  hhi : usesE [zl, zs] hi = false
  hse : usesE [zl, zs] se = false
  hub : usesS [zl, zs] body = false
  hxt : sl[x]? = some t
  hwlo : ExprWt sl lo
  hwhi : ExprWt sl hi
  hwse : ExprWt sl se
  hwb : WfA sl body
  hzlt : sl[zl]? = some t
  htres : Gen.NumTables.binType .plus t se.ty = some tres

theorem set_get_len {s : St} {z : Nat} (hz : z < s.env.length) (v : Val) : (s.set z v).env[z]? = some v := by
  simp [St.set, hz]

/-- FOR is simulated by its WHILE spelling -/
theorem for_sim_while {sl : List Ty} {x : Nat} {t : Ty} {lo hi se : Ast.Expr} {body : Stmt} {p : Pos} {zl zs : Nat}
    {tres : Ty} (S : Shape sl x t se body p zl zs tres) (H : ForHyp sl x t lo hi se body zl zs tres) :
    SimT sl (StepNonZero x t lo se p) [zl, zs] (.forLoop x t lo hi (some se) body p) (pre x t lo hi zl p S.R) := by
  intro fuel s1 s2 s1' o hty1 hty2 hnz hs h ho
  obtain ⟨n, rfl⟩ := fuel_pos h ho
  simp only [exec] at h
  have e1 := evalTo_agree hs H.hlo t
  cases hl : evalTo s1.env lo t with
  | err c q =>
    rw [hl] at h; cases h
    exact ⟨2, s2, _, by simp only [pre]; rw [exec_seq, exec_assign, ← e1, hl]; rfl, hs, OEq.refl _⟩
  | inexact =>
    rw [hl] at h; cases h
    exact ⟨2, s2, _, by simp only [pre]; rw [exec_seq, exec_assign, ← e1, hl]; rfl, hs, OEq.refl _⟩
  | ok l =>
    rw [hl] at h; simp only at h
    have hs1 := hs.set x l
    have htyl : Typed sl (s1.set x l).env := typed_set hty1 H.hxt (evalTo_tag sl s1.env hty1 lo t l H.hwlo hl)
    have e2 := evalTo_agree hs1 H.hhi t
    rw [e1] at hl
    cases hh : evalTo (s1.set x l).env hi t with
    | err c q =>
      rw [hh] at h; cases h
      refine ⟨3, s2.set x l, _, ?_, hs1, OEq.refl _⟩
      simp only [pre]; rw [exec_seq, exec_assign, hl]; simp only [andThen_normal]
      rw [exec_seq, exec_assign, ← e2, hh]; rfl
    | inexact =>
      rw [hh] at h; cases h
      refine ⟨3, s2.set x l, _, ?_, hs1, OEq.refl _⟩
      simp only [pre]; rw [exec_seq, exec_assign, hl]; simp only [andThen_normal]
      rw [exec_seq, exec_assign, ← e2, hh]; rfl
    | ok hv =>
      rw [hh] at h; simp only at h
      rw [e2] at hh
      have hzlb : zl < (s2.set x l).env.length := hs1.len ▸ hs1.inb zl (by simp)
      have hzsb : zs < ((s2.set x l).set zl hv).env.length := by
        have := hs1.inb zs (by simp); simp only [St.set, List.length_set] at this ⊢; rw [← hs.len]; exact this
      have hs2 : StEq [zl, zs] (s1.set x l) ((s2.set x l).set zl hv) := hs1.set_right (by simp) hv
      have hzl2 : ((s2.set x l).set zl hv).env[zl]? = some hv := set_get_len hzlb hv
      have e3 := evalE_agree hs2 H.hse
      have hR := fun F => S.exec_R ((s2.set x l).set zl hv) F hzsb
      have hpre := fun F => exec_pre (zl := zl) (p := p) S.R hl hh F
      cases hse : evalE (s1.set x l).env se with
      | error oe =>
        rw [hse] at h; cases h
        refine ⟨5, _, _, ?_, hs2, OEq.refl _⟩
        rw [hpre 0, hR 0, ← e3, hse]
      | ok svv =>
        rw [hse] at h; simp only at h
        have hsvt : svv.tag = se.ty := eval_tag sl _ htyl se svv H.hwse (evalE_ok hse)
        have hse2 : evalE ((s2.set x l).set zl hv).env se = .ok svv := by rw [← e3]; exact hse
        have hs3 := S.upd_eq _ _ svv hs2
        have LH : LoopHyp sl x t zl zs se.ty tres S.sE svv (S.upd ((s2.set x l).set zl hv) svv).env[zs]? body :=
          ⟨H.hxz, H.hub, H.hwb, H.hxt, hsvt, H.htres, S.sE_val _ svv hzsb hse2⟩
        have hzl3 : (S.upd ((s2.set x l).set zl hv) svv).env[zl]? = some hv := by rw [S.upd_zl]; exact hzl2
        cases hsg : stepSign p svv with
        | error oe =>
          rw [hsg] at h; cases h
          refine ⟨5, _, _, ?_, hs3, OEq.refl _⟩
          rw [hpre 0, hR 0, hse2]; simp only [hsg]
        | ok sg =>
          rw [hsg] at h
          cases sg with
          | zero => exact absurd hsg (hnz l svv (by rw [e1]; exact hl) hse)
          | neg =>
            simp only at h
            obtain ⟨fb, s2', o', heb, hsb, hob⟩ := loop_fwd LH hv false p n _ _ s1' o hs3 htyl hzl3 rfl h ho
            refine ⟨fb + 5, s2', o', ?_, hsb, hob⟩
            rw [hpre fb, hR fb, hse2]; simp only [hsg]
            exact exec_le (by omega) heb (by rw [hob.isFuel]; exact ho)
          | pos =>
            simp only at h
            obtain ⟨fb, s2', o', heb, hsb, hob⟩ := loop_fwd LH hv true p n _ _ s1' o hs3 htyl hzl3 rfl h ho
            refine ⟨fb + 5, s2', o', ?_, hsb, hob⟩
            rw [hpre fb, hR fb, hse2]; simp only [hsg]
            exact exec_le (by omega) heb (by rw [hob.isFuel]; exact ho)

/-- the WHILE spelling is simulated by the FOR -/
theorem while_sim_for {sl : List Ty} {x : Nat} {t : Ty} {lo hi se : Ast.Expr} {body : Stmt} {p : Pos} {zl zs : Nat}
    {tres : Ty} (S : Shape sl x t se body p zl zs tres) (H : ForHyp sl x t lo hi se body zl zs tres) :
    SimT sl (StepNonZero x t lo se p) [zl, zs] (pre x t lo hi zl p S.R) (.forLoop x t lo hi (some se) body p) := by
  intro fuel s1 s2 s1' o hty1 hty2 hnz hs h ho
  obtain ⟨n, rfl⟩ := fuel_pos h ho
  have e1 := evalTo_agree hs H.hlo t
  simp only [pre] at h
  rw [exec_seq] at h
  rcases andThen_inv h with ⟨sa, hra, hk⟩ | ⟨hne, hr⟩
  · obtain ⟨m, rfl⟩ := fuel_pos hra rfl
    rw [exec_assign] at hra
    cases hl : evalTo s1.env lo t with
    | err c q => rw [hl] at hra; cases hra
    | inexact => rw [hl] at hra; cases hra
    | ok l =>
      rw [hl] at hra; cases hra
      have hs1 := hs.set x l
      have htyl : Typed sl (s1.set x l).env := typed_set hty1 H.hxt (evalTo_tag sl s1.env hty1 lo t l H.hwlo hl)
      have e2 := evalTo_agree hs1 H.hhi t
      have hl2 : evalTo s2.env lo t = .ok l := by rw [← e1]; exact hl
      rw [exec_seq] at hk
      rcases andThen_inv hk with ⟨sb, hrb, hk2⟩ | ⟨hne2, hr2⟩
      · obtain ⟨k, rfl⟩ := fuel_pos hrb rfl
        rw [exec_assign] at hrb
        cases hh : evalTo (s1.set x l).env hi t with
        | err c q => rw [hh] at hrb; cases hrb
        | inexact => rw [hh] at hrb; cases hrb
        | ok hv =>
          rw [hh] at hrb; cases hrb
          have hh2 : evalTo (s2.set x l).env hi t = .ok hv := by rw [← e2]; exact hh
          have hzlb : zl < (s1.set x l).env.length := hs1.inb zl (by simp)
          have hzsb : zs < ((s1.set x l).set zl hv).env.length := by
            have := hs1.inb zs (by simp); simp only [St.set, List.length_set] at this ⊢; exact this
          have hs2 : StEq [zl, zs] ((s1.set x l).set zl hv) (s2.set x l) := hs1.set_left (by simp) hv
          have hsself : StEq [zl, zs] (s1.set x l) ((s1.set x l).set zl hv) :=
            (StEq.refl hs1.inb).set_right (by simp) hv
          have htyb : Typed sl ((s1.set x l).set zl hv).env :=
            typed_set htyl H.hzlt (evalTo_tag sl _ htyl hi t hv H.hwhi hh)
          have hzl2 : ((s1.set x l).set zl hv).env[zl]? = some hv := set_get_len hzlb hv
          have e3 := evalE_agree hs2 H.hse
          have e3' := evalE_agree hsself H.hse
          have hR := S.exec_R ((s1.set x l).set zl hv) k hzsb
          rw [exec_le (f' := k + 3) (by omega) hk2 ho] at hR
          -- the FOR statement on the other side, once its header is evaluated
          have hfor : ∀ F, exec (F + 1) (.forLoop x t lo hi (some se) body p) s2 =
              match evalE (s2.set x l).env se with
              | .error o => (s2.set x l, o)
              | .ok sv =>
                match stepSign p sv with
                | .error o => (s2.set x l, o)
                | .ok .neg => forIter F x t hv sv false body p (s2.set x l)
                | .ok .pos => forIter F x t hv sv true body p (s2.set x l)
                | .ok .zero => (s2.set x l, .error codeZeroStep se.pos) := by
            intro F
            simp only [exec, hl2, hh2]
            cases evalE (s2.set x l).env se with
            | error oe => rfl
            | ok sv =>
              simp only
              cases stepSign p sv with
              | error oe => rfl
              | ok sg => cases sg <;> rfl
          cases hse : evalE ((s1.set x l).set zl hv).env se with
          | error oe =>
            rw [hse] at hR; cases hR
            exact ⟨1, _, _, by rw [hfor 0, ← e3, hse], hs2, OEq.refl _⟩
          | ok svv =>
            rw [hse] at hR; simp only at hR
            have hse2 : evalE (s2.set x l).env se = .ok svv := by rw [← e3]; exact hse
            have hsvt : svv.tag = se.ty := eval_tag sl _ htyb se svv H.hwse (evalE_ok hse)
            have hs3 : StEq [zl, zs] (S.upd ((s1.set x l).set zl hv) svv) (s2.set x l) :=
              (S.upd_eq _ _ svv hs2.symm).symm
            have LH : LoopHyp sl x t zl zs se.ty tres S.sE svv (S.upd ((s1.set x l).set zl hv) svv).env[zs]? body :=
              ⟨H.hxz, H.hub, H.hwb, H.hxt, hsvt, H.htres, S.sE_val _ svv hzsb hse⟩
            have hzl3 : (S.upd ((s1.set x l).set zl hv) svv).env[zl]? = some hv := by rw [S.upd_zl]; exact hzl2
            have htyu := S.upd_typed _ svv htyb hsvt
            cases hsg : stepSign p svv with
            | error oe =>
              rw [hsg] at hR; cases hR
              exact ⟨1, _, _, by rw [hfor 0, hse2]; simp only [hsg], hs3, OEq.refl _⟩
            | ok sg =>
              rw [hsg] at hR
              cases sg with
              | zero => exact absurd hsg (hnz l svv hl (by rw [e3']; exact hse))
              | neg =>
                simp only at hR
                obtain ⟨fb, s2', o', heb, hsb, hob⟩ := loop_bwd LH hv false p _ _ _ s1' o hs3 htyu hzl3 rfl hR.symm ho
                exact ⟨fb + 1, s2', o', by rw [hfor fb, hse2]; simp only [hsg]; exact heb, hsb, hob⟩
              | pos =>
                simp only at hR
                obtain ⟨fb, s2', o', heb, hsb, hob⟩ := loop_bwd LH hv true p _ _ _ s1' o hs3 htyu hzl3 rfl hR.symm ho
                exact ⟨fb + 1, s2', o', by rw [hfor fb, hse2]; simp only [hsg]; exact heb, hsb, hob⟩
      · rw [hr2] at hne2
        obtain ⟨k, rfl⟩ := fuel_pos hr2 ho
        rw [exec_assign] at hr2
        cases hh : evalTo (s1.set x l).env hi t with
        | ok hv => rw [hh] at hr2; cases hr2; exact absurd rfl hne2
        | err c q =>
          rw [hh] at hr2; cases hr2
          exact ⟨1, s2.set x l, _, by simp only [exec, hl2, ← e2, hh], hs1, OEq.refl _⟩
        | inexact =>
          rw [hh] at hr2; cases hr2
          exact ⟨1, s2.set x l, _, by simp only [exec, hl2, ← e2, hh], hs1, OEq.refl _⟩
  · rw [hr] at hne
    obtain ⟨m, rfl⟩ := fuel_pos hr ho
    rw [exec_assign] at hr
    cases hl : evalTo s1.env lo t with
    | ok l => rw [hl] at hr; cases hr; exact absurd rfl hne
    | err c q =>
      rw [hl] at hr; cases hr
      exact ⟨1, s2, _, by simp only [exec, ← e1, hl], hs, OEq.refl _⟩
    | inexact =>
      rw [hl] at hr; cases hr
      exact ⟨1, s2, _, by simp only [exec, ← e1, hl], hs, OEq.refl _⟩

/-! ### the two shapes of the rewrite -/

/-- a whole-number literal step: its sign is known, the loop is entered directly -/
def shapeLit (sl : List Ty) (x : Nat) (t : Ty) (v : Val) (q' : Pos) (up : Bool) (body : Stmt) (p : Pos)
    (zl zs : Nat) (tres : Ty) (hc : constSign v = some up) : Shape sl x t (.lit v q') body p zl zs tres where
  R := countLoop up x t zl (.lit v q') tres body p
  sE := .lit v q'
  upd := fun s _ => s
  k1 := 3
  k2 := 3
  exec_R := by
    intro s F _
    simp only [evalE, eval, constSign_stepSign p hc]
    cases up <;> rfl
  upd_eq := fun _ _ _ h => h
  upd_zl := fun _ _ => rfl
  upd_typed := fun _ _ h _ => h
  sE_val := by
    intro s svv _ h env _
    simp only [evalE, eval] at h; cases h; rfl

theorem stepSign_eq (p : Pos) (sv : Val) :
    stepSign p sv =
      match relTest p .less sv (.int 0) with
      | .error o => .error o
      | .ok true => .ok .neg
      | .ok false =>
        match relTest p .greater sv (.int 0) with
        | .error o => .error o
        | .ok true => .ok .pos
        | .ok false => .ok .zero := by
  simp only [stepSign, bind, Except.bind, pure, Except.pure]
  cases relTest p .less sv (.int 0) with
  | error o => rfl
  | ok b =>
    cases b with
    | true => rfl
    | false =>
      simp only [Bool.false_eq_true, if_false]
      cases relTest p .greater sv (.int 0) with
      | error o => rfl
      | ok b2 => cases b2 <;> rfl

/-- any other step: stored in `zs` (its own type), the sign decided once by an IF -/
def shapeDyn (sl : List Ty) (x : Nat) (t : Ty) (se : Ast.Expr) (body : Stmt) (p : Pos) (zl zs : Nat) (tres : Ty)
    (hne : zl ≠ zs) (hzs : sl[zs]? = some se.ty) : Shape sl x t se body p zl zs tres where
  R := .seq (.assign zs se.ty se p)
        (.ifs (.bin .less (.var zs se.ty p) (.lit (.int 0) p) .int p)
          (countLoop false x t zl (.var zs se.ty p) tres body p)
          (.ifs (.bin .greater (.var zs se.ty p) (.lit (.int 0) p) .int p)
            (countLoop true x t zl (.var zs se.ty p) tres body p) .skip p) p)
  sE := .var zs se.ty p
  upd := fun s v => s.set zs v
  k1 := 1
  k2 := 0
  exec_R := by
    intro s F hz
    rw [exec_seq, exec_assign_self]
    simp only [evalE]
    cases he : eval s.env se with
    | err c q => rfl
    | inexact => rfl
    | ok svv =>
      simp only [andThen_normal]
      have hz' : (s.set zs svv).env[zs]? = some svv := set_get_len hz svv
      have c1 := evalCond_relE (tz := se.ty) hz' (op := .less) rfl (.lit (.int 0) p) p
      have c2 := evalCond_relE (tz := se.ty) hz' (op := .greater) rfl (.lit (.int 0) p) p
      simp only [relE, evalE, eval] at c1 c2
      rw [stepSign_eq, exec_ifs, c1]
      cases relTest p .less svv (.int 0) with
      | error o => rfl
      | ok b =>
        cases b with
        | true => rfl
        | false =>
          simp only
          rw [exec_ifs, c2]
          cases relTest p .greater svv (.int 0) with
          | error o => rfl
          | ok b2 => cases b2 <;> rfl
  upd_eq := fun _ _ svv h => h.set_right (by simp) svv
  upd_zl := by
    intro s svv
    simp only [St.set, List.getElem?_set_ne (Ne.symm hne)]
  upd_typed := fun _ _ h hv => typed_set h hzs hv
  sE_val := by
    intro s svv hz _ env henv
    rw [set_get_len hz svv] at henv
    simp only [eval, List.getD_eq_getElem?_getD, henv, Option.getD_some]

/-! ### the theorem -/

/-- the step expression of a FOR (the literal 1 when there is no STEP) -/
def stepE (step : Option Ast.Expr) (p : Pos) : Ast.Expr :=
  match step with
  | none => .lit (.int 1) p
  | some se => se

theorem forHyp_of {sl : List Ty} {x : Nat} {t : Ty} {lo hi : Ast.Expr} {step : Option Ast.Expr} {body : Stmt} {p : Pos}
    {zl zs : Nat} {tres : Ty}
    (hfresh : usesS [zl, zs] (.forLoop x t lo hi step body p) = false)
    (hw : WfA sl (.forLoop x t lo hi step body p)) (hwhi : ExprWt sl hi)
    (hwst : ∀ se, step = some se → ExprWt sl se)
    (hzl : sl[zl]? = some t) (htres : Gen.NumTables.binType .plus t (stepTy step) = some tres) :
    ForHyp sl x t lo hi (stepE step p) body zl zs tres := by
  have hu : (((([zl, zs].contains x = false ∧ usesE [zl, zs] lo = false) ∧ usesE [zl, zs] hi = false) ∧
      usesStep [zl, zs] step = false)) ∧ usesS [zl, zs] body = false := by simpa [usesS] using hfresh
  simp only [WfA] at hw
  refine ⟨not_mem_of_contains hu.1.1.1.1, hu.1.1.1.2, hu.1.1.2, ?_, hu.2, hw.1, hw.2.1, hwhi, ?_, hw.2.2, hzl, ?_⟩
  · cases step with
    | none => rfl
    | some se => exact hu.1.2
  · cases step with
    | none => trivial
    | some se => exact hwst se rfl
  · cases step with
    | none => exact htres
    | some se => exact htres

theorem equivT_of_shape {sl : List Ty} {x : Nat} {t : Ty} {lo hi se : Ast.Expr} {body : Stmt} {p : Pos} {zl zs : Nat}
    {tres : Ty} (S : Shape sl x t se body p zl zs tres) (H : ForHyp sl x t lo hi se body zl zs tres) :
    EquivT sl (StepNonZero x t lo se p) [zl, zs] (.forLoop x t lo hi (some se) body p) (pre x t lo hi zl p S.R) :=
  ⟨for_sim_while S H, while_sim_for S H⟩

/-- **FOR ≡ WHILE.** For every FOR statement of a well-typed program, the rewrite
`RbModel.Rewrite.forToWhile` (the one the harness performs in text: `x = lo : zl = hi`, then
`WHILE x <= zl : body : x = x + step : WEND` — `>=` for a negative literal step; any other step is
stored in `zs` first and an IF decides the direction once) yields an equivalent statement: each side
simulates the other between states whose variables hold values of their declared types, modulo the
temporaries `zl`, `zs`, with outcomes equal up to the position of an error.

Side conditions: the temporaries are distinct, do not occur in the FOR statement and are declared
with the counter's type (`zl`) and the step's type (`zs`); `tres` is the linter's type of
`counter + step`; the FOR statement is well typed (`WfA`, bounds and step `ExprWt`); and the step is
not zero when the loop is entered (`StepNonZero`: a zero step is error 258 in FOR and has no WHILE
spelling — the real implementation raises "FOR loop with zero step" there). -/
theorem for_eq_while {sl : List Ty} {x : Nat} {t : Ty} {lo hi : Ast.Expr} {step : Option Ast.Expr} {body : Stmt}
    {p : Pos} {zl zs : Nat} {tres : Ty} {st' : Stmt}
    (hft : forToWhile zl zs tres (.forLoop x t lo hi step body p) = some st')
    (hne : zl ≠ zs)
    (hfresh : usesS [zl, zs] (.forLoop x t lo hi step body p) = false)
    (hw : WfA sl (.forLoop x t lo hi step body p)) (hwhi : ExprWt sl hi)
    (hwst : ∀ se, step = some se → ExprWt sl se)
    (hzl : sl[zl]? = some t) (hzs : sl[zs]? = some (stepTy step))
    (htres : Gen.NumTables.binType .plus t (stepTy step) = some tres) :
    EquivT sl (StepNonZero x t lo (stepE step p) p) [zl, zs] (.forLoop x t lo hi step body p) st' := by
  have H := forHyp_of (p := p) hfresh hw hwhi hwst hzl htres
  cases step with
  | none =>
    simp only [forToWhile] at hft
    cases hft
    let S := shapeLit sl x t (.int 1) p true body p zl zs tres rfl
    constructor
    · intro fuel s1 s2 s1' o h1 h2 hp hs h ho
      rw [for_noStep_step1_exec x t lo hi body p p] at h
      exact for_sim_while S H fuel s1 s2 s1' o h1 h2 hp hs h ho
    · intro fuel s1 s2 s1' o h1 h2 hp hs h ho
      obtain ⟨f, s2', o', he, r1, r2⟩ := while_sim_for S H fuel s1 s2 s1' o h1 h2 hp hs h ho
      exact ⟨f, s2', o', by rw [for_noStep_step1_exec x t lo hi body p p]; exact he, r1, r2⟩
  | some se =>
    cases se with
    | lit v q' =>
      simp only [forToWhile] at hft
      cases hc : constSign v with
      | none => rw [hc] at hft; cases hft
      | some up =>
        rw [hc] at hft; cases hft
        exact equivT_of_shape (shapeLit sl x t v q' up body p zl zs tres hc) H
    | var y ty q' =>
      simp only [forToWhile] at hft; cases hft
      exact equivT_of_shape (shapeDyn sl x t (.var y ty q') body p zl zs tres hne hzs) H
    | un op e q' =>
      simp only [forToWhile] at hft; cases hft
      exact equivT_of_shape (shapeDyn sl x t (.un op e q') body p zl zs tres hne hzs) H
    | bin op l r ty q' =>
      simp only [forToWhile] at hft; cases hft
      exact equivT_of_shape (shapeDyn sl x t (.bin op l r ty q') body p zl zs tres hne hzs) H
    | paren e q' =>
      simp only [forToWhile] at hft; cases hft
      exact equivT_of_shape (shapeDyn sl x t (.paren e q') body p zl zs tres hne hzs) H

/-- the hypotheses of `for_eq_while` are satisfiable by a non-trivial instance, for each shape of the
rewrite: `FOR x% = 1 TO 3 STEP s% : y% = x% : NEXT` (slots x=0, y=1, s=2, temporaries 3 and 4), and
the same loop with STEP -2 -/
example :
    let sl : List Ty := [.int, .int, .int, .int, .int]
    let q : Pos := ⟨1, 1⟩
    let body : Stmt := .seq (.assign 1 .int (.var 0 .int q) q) .skip
    let f1 : Stmt := .forLoop 0 .int (.lit (.int 1) q) (.lit (.int 3) q) (some (.var 2 .int q)) body q
    let f2 : Stmt := .forLoop 0 .int (.lit (.int 3) q) (.lit (.int 1) q) (some (.lit (.int (-2)) q)) body q
    (forToWhile 3 4 .int f1).isSome = true ∧ (forToWhile 3 4 .int f2).isSome = true ∧
      usesS [3, 4] f1 = false ∧ usesS [3, 4] f2 = false ∧ WfA sl f1 ∧ WfA sl f2 ∧
      Gen.NumTables.binType .plus .int .int = some .int := by
  refine ⟨rfl, rfl, rfl, rfl, ?_, ?_, rfl⟩ <;> simp [WfA, ExprWt]

end RbThm.C02
