import RbModel.ConstProc
import Thm.C14Prog
import Thm.ProcSim
/-!
C14, statement level, procedures layer — replacing every use of a constant by its defining expression
leaves the run of a program with SUBs and FUNCTIONs unchanged, wherever the use stands: main module,
procedure body, argument list.

Over the reference semantics `RbModel.Proc.Ref` (calls inside expressions, by-value / by-reference
arguments, STATIC and SHARED state; tied to the generator and the VM by `Proc.compile_correct`): if the
linted tree of the inlined program matches the linted tree of the named program (`ConstProc.matchP δ`),
the two runs are the same run — final state (output, main-module variables, SHARED and STATIC variables,
DATA cursor) and outcome.  `Proc.Ref` spends one unit of fuel per expression node, so the inlined program
needs up to `δ` more fuel; the statement is therefore in two halves (`const_inline_run_proc`): the named
run with fuel `n`, unless it runs out of fuel, is the inlined run with fuel `δ + n`; the inlined run with
fuel `n`, unless it runs out of fuel, is the named run with fuel `n`.  `const_inline_ends` is the fuel-free
reading, `const_inline_vm` carries it through `Proc.compile_correct` to the VM model on the code the
generator model emits for the inlined program.
-/
namespace RbThm.C14Proc
set_option linter.unusedVariables false
set_option linter.unusedSimpArgs false
open RbModel RbModel.Num RbModel.Proc RbModel.Proc.Ref RbModel.ConstProc
open RbModel.Ast (Pos)

/-! ### closed expressions -/

theorem okVal_some {r : Res Val} {v : Val} (h : okVal r = some v) : r = .ok v := by
  cases r <;> simp [okVal] at h
  rw [h]

/-- `pureVal` is `Proc.Ref.eval` on expressions without variables and calls: in every program and state,
with enough fuel the value is `v` and the state is untouched; with any fuel the answer is `v` or "out of
fuel", never anything else -/
theorem pureVal_spec (P : Program) : ∀ (k : Proc.Expr) (v : Val), pureVal k = some v → ∀ (n : Nat) (s : St),
    (depthC k ≤ n → eval P n k s = (s, .ok v)) ∧
      (eval P n k s = (s, .ok v) ∨ eval P n k s = (s, .error .outOfFuel))
  | .lit w p, v, h, n, s => by
    simp only [pureVal, Option.some.injEq] at h; subst h
    cases n with
    | zero => exact ⟨fun hd => by simp [depthC] at hd, .inr (by simp only [eval])⟩
    | succ m => exact ⟨fun _ => by simp only [eval], .inl (by simp only [eval])⟩
  | .var x t p, v, h, n, s => by simp [pureVal] at h
  | .callFn f a t p, v, h, n, s => by simp [pureVal] at h
  | .paren e p, v, h, n, s => by
    simp only [pureVal] at h
    cases n with
    | zero => exact ⟨fun hd => by simp [depthC] at hd, .inr (by simp only [eval])⟩
    | succ m =>
      obtain ⟨h1, h2⟩ := pureVal_spec P e v h m s
      simp only [eval, depthC]
      exact ⟨fun hd => h1 (by omega), h2⟩
  | .un op e p, v, h, n, s => by
    simp only [pureVal] at h
    cases ha : pureVal e with
    | none => rw [ha] at h; cases h
    | some a =>
      rw [ha] at h; simp only at h
      cases n with
      | zero => exact ⟨fun hd => by simp [depthC] at hd, .inr (by simp only [eval])⟩
      | succ m =>
        obtain ⟨h1, h2⟩ := pureVal_spec P e a ha m s
        cases op
        all_goals
          simp only at h
          have hv := okVal_some h
          simp only [eval, depthC]
          refine ⟨fun hd => ?_, ?_⟩
          · rw [h1 (by omega)]; simp only [liftR]; rw [hv]
          · rcases h2 with h2 | h2
            · rw [h2]; simp only [liftR]; rw [hv]; exact .inl rfl
            · rw [h2]; exact .inr rfl
  | .bin op l r t p, v, h, n, s => by
    simp only [pureVal] at h
    cases ha : pureVal l with
    | none => rw [ha] at h; cases h
    | some a =>
      cases hb : pureVal r with
      | none => rw [ha, hb] at h; cases h
      | some b =>
        rw [ha, hb] at h; simp only at h
        have hv : Proc.Ref.binStep op t a b = .ok v := okVal_some h
        cases n with
        | zero => exact ⟨fun hd => by simp [depthC] at hd, .inr (by simp only [eval])⟩
        | succ m =>
          obtain ⟨l1, l2⟩ := pureVal_spec P l a ha m s
          obtain ⟨r1, r2⟩ := pureVal_spec P r b hb m s
          simp only [eval, depthC]
          refine ⟨fun hd => ?_, ?_⟩
          · rw [l1 (by omega)]; simp only; rw [r1 (by omega)]; simp only [liftR]; rw [hv]
          · rcases l2 with l2 | l2
            · rw [l2]; simp only
              rcases r2 with r2 | r2
              · rw [r2]; simp only [liftR]; rw [hv]; exact .inl rfl
              · rw [r2]; exact .inr rfl
            · rw [l2]; exact .inr rfl

theorem good_spec {v : Val} {k : Proc.Expr} (h : good v k = true) : pureVal k = some v ∧ k.ty = v.tag := by
  simpa [good] using h

/-! ### the relation read from the inlined side -/

mutual
theorem matchE_symm (δ : Nat) : ∀ (a b : Proc.Expr), matchE false δ a b = true → matchE true 0 b a = true := by
  intro a b h
  cases a <;> cases b <;>
    simp only [matchE, Bool.and_eq_true, beq_iff_eq, Bool.false_eq_true, Bool.not_eq_true', Bool.not_false,
      Bool.true_and, decide_eq_true_eq, false_and, and_false] at h ⊢
  case lit.lit => exact ⟨h.1.symm, h.2.symm⟩
  case lit.paren => exact ⟨h.1.1.symm, h.1.2⟩
  case var.var => exact ⟨⟨h.1.1.symm, h.1.2.symm⟩, h.2.symm⟩
  case un.un op e p op' e' p' => exact ⟨⟨h.1.1.symm, matchE_symm δ e e' h.1.2⟩, h.2.symm⟩
  case bin.bin op l r t p op' l' r' t' p' =>
    exact ⟨⟨⟨⟨h.1.1.1.1.symm, matchE_symm δ l l' h.1.1.1.2⟩, matchE_symm δ r r' h.1.1.2⟩, h.1.2.symm⟩, h.2.symm⟩
  case paren.paren e p e' p' => exact ⟨matchE_symm δ e e' h.1, h.2.symm⟩
  case callFn.callFn f a t p f' a' t' p' =>
    exact ⟨⟨⟨h.1.1.1.symm, matchArgs_symm δ a a' h.1.1.2⟩, h.1.2.symm⟩, h.2.symm⟩
theorem matchArgs_symm (δ : Nat) : ∀ (a b : Args), matchArgs false δ a b = true → matchArgs true 0 b a = true := by
  intro a b h
  cases a <;> cases b <;> simp only [matchArgs, Bool.and_eq_true, beq_iff_eq, Bool.false_eq_true] at h ⊢
  case cons.cons e n t rest e' n' t' rest' =>
    exact ⟨⟨⟨matchE_symm δ e e' h.1.1.1, h.1.1.2.symm⟩, h.1.2.symm⟩, matchArgs_symm δ rest rest' h.2⟩
end

theorem matchItems_symm (δ : Nat) : ∀ (a b : List PrintItem), matchItems false δ a b = true → matchItems true 0 b a = true
  | [], [], _ => rfl
  | [], _ :: _, h => by simp [matchItems] at h
  | _ :: _, [], h => by simp [matchItems] at h
  | x :: r, x' :: r', h => by
    simp only [matchItems, Bool.and_eq_true] at h ⊢
    refine ⟨?_, matchItems_symm δ r r' h.2⟩
    have h1 := h.1
    cases x <;> cases x' <;> simp only [matchItem, Bool.false_eq_true] at h1 ⊢
    exact matchE_symm δ _ _ h1

theorem matchCase_symm (δ : Nat) (a b : CaseExpr) (h : matchCase false δ a b = true) : matchCase true 0 b a = true := by
  cases a <;> cases b <;> simp only [matchCase, Bool.and_eq_true, beq_iff_eq, Bool.false_eq_true] at h ⊢
  · exact matchE_symm δ _ _ h
  · exact ⟨h.1.symm, matchE_symm δ _ _ h.2⟩
  · exact ⟨matchE_symm δ _ _ h.1, matchE_symm δ _ _ h.2⟩

theorem matchCaseList_symm (δ : Nat) : ∀ (a b : List CaseExpr), matchCaseList false δ a b = true →
    matchCaseList true 0 b a = true
  | [], [], _ => rfl
  | [], _ :: _, h => by simp [matchCaseList] at h
  | _ :: _, [], h => by simp [matchCaseList] at h
  | x :: r, x' :: r', h => by
    simp only [matchCaseList, Bool.and_eq_true] at h ⊢
    exact ⟨matchCase_symm δ x x' h.1, matchCaseList_symm δ r r' h.2⟩

theorem matchStep_symm (δ : Nat) (a b : Option Proc.Expr) (h : matchStep false δ a b = true) :
    matchStep true 0 b a = true := by
  cases a <;> cases b <;> simp only [matchStep, Bool.false_eq_true] at h ⊢
  exact matchE_symm δ _ _ h

mutual
theorem matchS_symm (δ : Nat) : ∀ (a b : Stmt), matchS false δ a b = true → matchS true 0 b a = true := by
  intro a b h
  cases a <;> cases b <;>
    simp only [matchS, Bool.and_eq_true, beq_iff_eq, Bool.false_eq_true] at h ⊢
  case seq.seq a1 a2 b1 b2 => exact ⟨matchS_symm δ a1 b1 h.1, matchS_symm δ a2 b2 h.2⟩
  case assign.assign => exact ⟨⟨⟨h.1.1.1.symm, h.1.1.2.symm⟩, matchE_symm δ _ _ h.1.2⟩, h.2.symm⟩
  case print.print => exact ⟨matchItems_symm δ _ _ h.1, h.2.symm⟩
  case read.read => exact ⟨⟨h.1.1.symm, h.1.2.symm⟩, h.2.symm⟩
  case ifs.ifs c a1 a2 p c' b1 b2 p' =>
    exact ⟨⟨⟨matchE_symm δ _ _ h.1.1.1, matchS_symm δ a1 b1 h.1.1.2⟩, matchS_symm δ a2 b2 h.1.2⟩, h.2.symm⟩
  case select.select e cs p e' cs' p' => exact ⟨⟨matchE_symm δ _ _ h.1.1, matchC_symm δ cs cs' h.1.2⟩, h.2.symm⟩
  case forLoop.forLoop x t lo hi st body p x' t' lo' hi' st' body' p' =>
    exact ⟨⟨⟨⟨⟨⟨h.1.1.1.1.1.1.symm, h.1.1.1.1.1.2.symm⟩, matchE_symm δ _ _ h.1.1.1.1.2⟩, matchE_symm δ _ _ h.1.1.1.2⟩,
      matchStep_symm δ _ _ h.1.1.2⟩, matchS_symm δ body body' h.1.2⟩, h.2.symm⟩
  case while.while c body p c' body' p' => exact ⟨⟨matchE_symm δ _ _ h.1.1, matchS_symm δ body body' h.1.2⟩, h.2.symm⟩
  case doLoop.doLoop c top u body p c' top' u' body' p' =>
    exact ⟨⟨⟨⟨matchE_symm δ _ _ h.1.1.1.1, h.1.1.1.2.symm⟩, h.1.1.2.symm⟩, matchS_symm δ body body' h.1.2⟩, h.2.symm⟩
  case end_.end_ => exact h.symm
  case callSub.callSub => exact ⟨⟨h.1.1.symm, matchArgs_symm δ _ _ h.1.2⟩, h.2.symm⟩
  case exitProc.exitProc => exact h.symm
theorem matchC_symm (δ : Nat) : ∀ (a b : Cases), matchC false δ a b = true → matchC true 0 b a = true := by
  intro a b h
  cases a <;> cases b <;> simp only [matchC, Bool.and_eq_true, Bool.false_eq_true] at h ⊢
  case else_.else_ b1 b2 => exact matchS_symm δ b1 b2 h
  case case.case conds b1 rest conds' b2 rest' =>
    exact ⟨⟨matchCaseList_symm δ _ _ h.1.1, matchS_symm δ b1 b2 h.1.2⟩, matchC_symm δ rest rest' h.2⟩
end

theorem matchProcs_symm (δ : Nat) : ∀ (a b : List (ProcDecl Stmt)), matchProcs false δ a b = true →
    matchProcs true 0 b a = true
  | [], [], _ => rfl
  | [], _ :: _, h => by simp [matchProcs] at h
  | _ :: _, [], h => by simp [matchProcs] at h
  | d :: r, d' :: r', h => by
    simp only [matchProcs, matchProc, Bool.and_eq_true, beq_iff_eq] at h ⊢
    obtain ⟨⟨⟨⟨⟨⟨⟨h1, h2⟩, h3⟩, h4⟩, h5⟩, h6⟩, h7⟩, h8⟩ := h
    exact ⟨⟨⟨⟨⟨⟨⟨h1.symm, h2.symm⟩, h3.symm⟩, h4.symm⟩, h5.symm⟩, h6.symm⟩, matchS_symm δ _ _ h7⟩,
      matchProcs_symm δ r r' h8⟩

/-- the relation of the named to the inlined program, read from the inlined side -/
theorem matchP_symm (δ : Nat) (N I : Program) (h : matchP δ N I = true) : matchP' true 0 I N = true := by
  simp only [matchP, matchP', Bool.and_eq_true, beq_iff_eq] at h ⊢
  obtain ⟨⟨⟨⟨h1, h2⟩, h3⟩, h4⟩, h5⟩ := h
  exact ⟨⟨⟨⟨h1.symm, h2.symm⟩, h3.symm⟩, matchS_symm δ _ _ h4⟩, matchProcs_symm δ _ _ h5⟩

/-! ### static facts about matching nodes -/

/-- matching expressions have the same static type and the same position -/
theorem matchE_static {rev : Bool} {δ : Nat} {e e' : Proc.Expr} (h : matchE rev δ e e' = true) :
    e'.ty = e.ty ∧ e'.pos = e.pos := by
  cases e <;> cases e' <;>
    simp only [matchE, Bool.and_eq_true, beq_iff_eq, Bool.false_eq_true, Bool.not_eq_true', decide_eq_true_eq,
      false_and, and_false] at h
  case lit.lit => obtain ⟨rfl, rfl⟩ := h; exact ⟨rfl, rfl⟩
  case lit.paren => exact ⟨by simp only [Proc.Expr.ty, (good_spec h.1.2).2], h.1.1.2.symm⟩
  case paren.lit => exact ⟨by simp only [Proc.Expr.ty, (good_spec h.2).2], h.1.2.symm⟩
  case var.var => obtain ⟨⟨rfl, rfl⟩, rfl⟩ := h; exact ⟨rfl, rfl⟩
  case un.un op e p op' e' p' =>
    obtain ⟨⟨rfl, he⟩, rfl⟩ := h; exact ⟨by simp only [Proc.Expr.ty, (matchE_static he).1], rfl⟩
  case bin.bin => obtain ⟨⟨⟨⟨rfl, _⟩, _⟩, rfl⟩, rfl⟩ := h; exact ⟨rfl, rfl⟩
  case paren.paren e p e' p' =>
    obtain ⟨he, rfl⟩ := h; exact ⟨by simp only [Proc.Expr.ty, (matchE_static he).1], rfl⟩
  case callFn.callFn => obtain ⟨⟨⟨rfl, _⟩, rfl⟩, rfl⟩ := h; exact ⟨rfl, rfl⟩

/-- the same actuals are by-reference actuals, bound to the same variables: the write-back is the same -/
theorem writeBack_match {rev : Bool} {δ : Nat} : ∀ (a a' : Args) (i : Nat) (callee : List Val) (s : St),
    matchArgs rev δ a a' = true → writeBack a' i callee s = writeBack a i callee s
  | .nil, .nil, _, _, _, _ => rfl
  | .nil, .cons _ _ _ _, _, _, _, h => by simp [matchArgs] at h
  | .cons _ _ _ _, .nil, _, _, _, h => by simp [matchArgs] at h
  | .cons e n t rest, .cons e' n' t' rest', i, callee, s, h => by
    simp only [matchArgs, Bool.and_eq_true, beq_iff_eq] at h
    obtain ⟨⟨⟨he, _⟩, _⟩, hr⟩ := h
    cases e <;> cases e' <;>
      simp only [matchE, Bool.and_eq_true, beq_iff_eq, Bool.false_eq_true, Bool.not_eq_true', decide_eq_true_eq,
        false_and, and_false] at he <;>
      simp only [writeBack] <;> try exact writeBack_match rest rest' _ callee _ hr
    obtain ⟨⟨rfl, rfl⟩, _⟩ := he
    exact writeBack_match rest rest' _ callee _ hr

theorem procs_get {rev : Bool} {δ : Nat} : ∀ (l l' : List (ProcDecl Stmt)), matchProcs rev δ l l' = true → ∀ f : Nat,
    (l[f]? = none ∧ l'[f]? = none) ∨ ∃ d d', l[f]? = some d ∧ l'[f]? = some d' ∧ matchProc rev δ d d' = true
  | [], [], _, f => .inl ⟨by simp, by simp⟩
  | [], _ :: _, h, _ => by simp [matchProcs] at h
  | _ :: _, [], h, _ => by simp [matchProcs] at h
  | d :: r, d' :: r', h, f => by
    simp only [matchProcs, Bool.and_eq_true] at h
    cases f with
    | zero => exact .inr ⟨d, d', by simp, by simp, h.1⟩
    | succ g => simpa using procs_get r r' h.2 g

theorem matchProc_spec {rev : Bool} {δ : Nat} {d d' : ProcDecl Stmt} (h : matchProc rev δ d d' = true) :
    d'.result = d.result ∧ d'.params = d.params ∧ d'.slots = d.slots ∧ d'.static = d.static ∧
      matchS rev δ d.body d'.body = true := by
  simp only [matchProc, Bool.and_eq_true, beq_iff_eq] at h
  obtain ⟨⟨⟨⟨⟨⟨h1, _⟩, h3⟩, h4⟩, _⟩, h6⟩, h7⟩ := h
  exact ⟨h1.symm, h3.symm, h4.symm, h6.symm, h7⟩

theorem enter_match {rev : Bool} {δ : Nat} {d d' : ProcDecl Stmt} (h : matchProc rev δ d d' = true) (f : Nat)
    (vals : List Val) (s : St) : enter d' f vals s = enter d f vals s := by
  obtain ⟨h1, h2, h3, h4, _⟩ := matchProc_spec h
  simp only [enter, enterCore, ProcDecl.resultSlot, h1, h2, h3, h4]

/-! ### the simulation: one run against the other, with a fuel surplus -/

/-- `rX` is `rY`, unless `rX` ran out of fuel -/
def SubE {α : Type} (rX rY : St × Except Outcome α) : Prop := rX = rY ∨ ∃ s, rX = (s, .error .outOfFuel)
def SubO (rX rY : St × Outcome) : Prop := rX = rY ∨ ∃ s, rX = (s, .outOfFuel)

/-- all runners of `Proc.Ref` at fuel `n` (program `PX`) against fuel `σ + n` (program `PY`) -/
structure IH (rev : Bool) (δ σ : Nat) (PX PY : Program) (n : Nat) : Prop where
  eval : ∀ e e' s, matchE rev δ e e' = true → SubE (eval PX n e s) (eval PY (σ + n) e' s)
  evalTo : ∀ e e' t s, matchE rev δ e e' = true → SubE (evalTo PX n e t s) (evalTo PY (σ + n) e' t s)
  evalArgs : ∀ a a' s, matchArgs rev δ a a' = true → SubE (evalArgs PX n a s) (evalArgs PY (σ + n) a' s)
  call : ∀ f a a' s, matchArgs rev δ a a' = true → SubE (call PX n f a s) (call PY (σ + n) f a' s)
  printItems : ∀ items items' s, matchItems rev δ items items' = true →
    SubO (printItems PX n items s) (printItems PY (σ + n) items' s)
  evalCond : ∀ c c' s, matchE rev δ c c' = true → SubE (evalCond PX n c s) (evalCond PY (σ + n) c' s)
  caseMatches : ∀ p subj c c' s, matchCase rev δ c c' = true →
    SubE (caseMatches PX n p subj c s) (caseMatches PY (σ + n) p subj c' s)
  anyMatches : ∀ p subj cs cs' s, matchCaseList rev δ cs cs' = true →
    SubE (anyMatches PX n p subj cs s) (anyMatches PY (σ + n) p subj cs' s)
  exec : ∀ S S' s, matchS rev δ S S' = true → SubO (exec PX n S s) (exec PY (σ + n) S' s)
  execCases : ∀ p subj cs cs' s, matchC rev δ cs cs' = true →
    SubO (execCases PX n p subj cs s) (execCases PY (σ + n) p subj cs' s)
  forIter : ∀ x t h sv up body body' p s, matchS rev δ body body' = true →
    SubO (forIter PX n x t h sv up body p s) (forIter PY (σ + n) x t h sv up body' p s)

section sim
variable {rev : Bool} {δ σ : Nat} {PX PY : Program} (hσ : rev = false → δ ≤ σ)
  (hp : matchProcs rev δ PX.procs PY.procs = true) {n : Nat} (ih : IH rev δ σ PX PY n)
include hσ hp ih

theorem eval_succ : ∀ e e' s, matchE rev δ e e' = true → SubE (eval PX (n + 1) e s) (eval PY (σ + n + 1) e' s) := by
  intro e e' s h
  cases e <;> cases e' <;>
    simp only [matchE, Bool.and_eq_true, beq_iff_eq, Bool.false_eq_true, Bool.not_eq_true', decide_eq_true_eq,
      false_and, and_false] at h
  case lit.lit => obtain ⟨rfl, rfl⟩ := h; simp only [eval]; exact .inl rfl
  case lit.paren v p k p' =>
    obtain ⟨⟨⟨hr, _⟩, hg⟩, hd⟩ := h
    have hk := (pureVal_spec PY k v (good_spec hg).1 (σ + n) s).1 (by have := hσ hr; omega)
    simp only [eval, hk]; exact .inl rfl
  case paren.lit k p v p' =>
    simp only [eval]
    rcases (pureVal_spec PX k v (good_spec h.2).1 n s).2 with h1 | h1
    · rw [h1]; exact .inl rfl
    · rw [h1]; exact .inr ⟨_, rfl⟩
  case var.var => obtain ⟨⟨rfl, rfl⟩, rfl⟩ := h; simp only [eval]; exact .inl rfl
  case un.un op e p op' e' p' =>
    obtain ⟨⟨rfl, he⟩, rfl⟩ := h
    simp only [eval]
    rcases ih.eval e e' s he with h1 | ⟨s1, h1⟩
    · rw [h1]; exact .inl rfl
    · rw [h1]; exact .inr ⟨_, rfl⟩
  case bin.bin op l r t p op' l' r' t' p' =>
    obtain ⟨⟨⟨⟨rfl, hl⟩, hr⟩, rfl⟩, rfl⟩ := h
    simp only [eval]
    rcases ih.eval l l' s hl with h1 | ⟨s1, h1⟩
    · rw [h1]
      generalize Proc.Ref.eval PY (σ + n) l' s = res
      obtain ⟨s1, r1⟩ := res
      cases r1 with
      | error o => exact .inl rfl
      | ok a =>
        simp only
        rcases ih.eval r r' s1 hr with h2 | ⟨s2, h2⟩
        · rw [h2]; exact .inl rfl
        · rw [h2]; exact .inr ⟨_, rfl⟩
    · rw [h1]; exact .inr ⟨_, rfl⟩
  case paren.paren e p e' p' => simp only [eval]; exact ih.eval e e' s h.1
  case callFn.callFn f a t p f' a' t' p' =>
    obtain ⟨⟨⟨rfl, ha⟩, _⟩, _⟩ := h
    simp only [eval]; exact ih.call f a a' s ha

theorem evalTo_succ : ∀ e e' t s, matchE rev δ e e' = true →
    SubE (evalTo PX (n + 1) e t s) (evalTo PY (σ + n + 1) e' t s) := by
  intro e e' t s h
  obtain ⟨hty, hpos⟩ := matchE_static h
  simp only [evalTo, hty, hpos]
  rcases ih.eval e e' s h with h1 | ⟨s1, h1⟩
  · rw [h1]; exact .inl rfl
  · rw [h1]; exact .inr ⟨_, rfl⟩

theorem evalArgs_succ : ∀ a a' s, matchArgs rev δ a a' = true →
    SubE (evalArgs PX (n + 1) a s) (evalArgs PY (σ + n + 1) a' s) := by
  intro a a' s h
  cases a <;> cases a' <;> simp only [matchArgs, Bool.and_eq_true, beq_iff_eq, Bool.false_eq_true] at h
  case nil.nil => simp only [evalArgs]; exact .inl rfl
  case cons.cons e nm t rest e' nm' t' rest' =>
    obtain ⟨⟨⟨he, _⟩, rfl⟩, hr⟩ := h
    simp only [evalArgs]
    rcases ih.evalTo e e' t s he with h1 | ⟨s1, h1⟩
    · rw [h1]
      generalize Proc.Ref.evalTo PY (σ + n) e' t s = res
      obtain ⟨s1, r1⟩ := res
      cases r1 with
      | error o => exact .inl rfl
      | ok v =>
        simp only
        rcases ih.evalArgs rest rest' s1 hr with h2 | ⟨s2, h2⟩
        · rw [h2]; exact .inl rfl
        · rw [h2]; exact .inr ⟨_, rfl⟩
    · rw [h1]; exact .inr ⟨_, rfl⟩

theorem call_succ : ∀ f a a' s, matchArgs rev δ a a' = true →
    SubE (call PX (n + 1) f a s) (call PY (σ + n + 1) f a' s) := by
  intro f a a' s h
  simp only [call]
  rcases procs_get _ _ hp f with ⟨hx, hy⟩ | ⟨d, d', hx, hy, hd⟩
  · rw [hx, hy]; exact .inl rfl
  · rw [hx, hy]
    simp only
    obtain ⟨hres, hpar, _, _, hbody⟩ := matchProc_spec hd
    rcases ih.evalArgs a a' s h with h1 | ⟨s1, h1⟩
    · rw [h1]
      generalize Proc.Ref.evalArgs PY (σ + n) a' s = res
      obtain ⟨s1, r1⟩ := res
      cases r1 with
      | error o => exact .inl rfl
      | ok vals =>
        simp only
        rw [enter_match hd]
        rcases ih.exec d.body d'.body (enter d f vals s1) hbody with h2 | ⟨s2, h2⟩
        · rw [h2]
          generalize Proc.Ref.exec PY (σ + n) d'.body (enter d f vals s1) = res2
          obtain ⟨s2, o⟩ := res2
          simp only [ProcDecl.resultSlot, hres, hpar, writeBack_match a a' _ _ _ h]
          exact .inl rfl
        · rw [h2]; simp only [returns]; exact .inr ⟨_, rfl⟩
    · rw [h1]; exact .inr ⟨_, rfl⟩

theorem printItems_succ : ∀ items items' s, matchItems rev δ items items' = true →
    SubO (printItems PX (n + 1) items s) (printItems PY (σ + n + 1) items' s) := by
  intro items items' s h
  cases items <;> cases items' <;> simp only [matchItems, Bool.and_eq_true, Bool.false_eq_true] at h
  case nil.nil => simp only [printItems]; exact .inl rfl
  case cons.cons x r x' r' =>
    obtain ⟨hx, hr⟩ := h
    cases x <;> cases x' <;> simp only [matchItem, Bool.false_eq_true] at hx
    · next e e' =>
      simp only [printItems]
      rcases ih.eval e e' s hx with h1 | ⟨s1, h1⟩
      · rw [h1]
        generalize Proc.Ref.eval PY (σ + n) e' s = res
        obtain ⟨s1, r1⟩ := res
        cases r1 with
        | error o => exact .inl rfl
        | ok v =>
          simp only
          cases printValue v with
          | none => exact .inl rfl
          | some pv => exact ih.printItems r r' _ hr
      · rw [h1]; exact .inr ⟨_, rfl⟩
    · simp only [printItems]; exact ih.printItems r r' _ hr
    · simp only [printItems]; exact ih.printItems r r' _ hr

theorem evalCond_succ : ∀ c c' s, matchE rev δ c c' = true →
    SubE (evalCond PX (n + 1) c s) (evalCond PY (σ + n + 1) c' s) := by
  intro c c' s h
  obtain ⟨_, hpos⟩ := matchE_static h
  simp only [evalCond, hpos]
  rcases ih.eval c c' s h with h1 | ⟨s1, h1⟩
  · rw [h1]; exact .inl rfl
  · rw [h1]; exact .inr ⟨_, rfl⟩

theorem caseMatches_succ : ∀ p subj c c' s, matchCase rev δ c c' = true →
    SubE (caseMatches PX (n + 1) p subj c s) (caseMatches PY (σ + n + 1) p subj c' s) := by
  intro p subj c c' s h
  cases c <;> cases c' <;> simp only [matchCase, Bool.and_eq_true, beq_iff_eq, Bool.false_eq_true] at h
  · next e e' =>
    simp only [caseMatches]
    rcases ih.eval e e' s h with h1 | ⟨s1, h1⟩
    · rw [h1]; exact .inl rfl
    · rw [h1]; exact .inr ⟨_, rfl⟩
  · next op e op' e' =>
    obtain ⟨rfl, he⟩ := h
    simp only [caseMatches]
    rcases ih.eval e e' s he with h1 | ⟨s1, h1⟩
    · rw [h1]; exact .inl rfl
    · rw [h1]; exact .inr ⟨_, rfl⟩
  · next lo hi lo' hi' =>
    obtain ⟨hlo, hhi⟩ := h
    simp only [caseMatches]
    rcases ih.eval lo lo' s hlo with h1 | ⟨s1, h1⟩
    · rw [h1]
      generalize Proc.Ref.eval PY (σ + n) lo' s = res
      obtain ⟨s1, r1⟩ := res
      cases r1 with
      | error o => exact .inl rfl
      | ok l =>
        simp only
        cases relTest p .greaterOrEqual subj l with
        | error o => exact .inl rfl
        | ok b =>
          cases b with
          | false => exact .inl rfl
          | true =>
            simp only
            rcases ih.eval hi hi' s1 hhi with h2 | ⟨s2, h2⟩
            · rw [h2]; exact .inl rfl
            · rw [h2]; exact .inr ⟨_, rfl⟩
    · rw [h1]; exact .inr ⟨_, rfl⟩

theorem anyMatches_succ : ∀ p subj cs cs' s, matchCaseList rev δ cs cs' = true →
    SubE (anyMatches PX (n + 1) p subj cs s) (anyMatches PY (σ + n + 1) p subj cs' s) := by
  intro p subj cs cs' s h
  cases cs <;> cases cs' <;> simp only [matchCaseList, Bool.and_eq_true, Bool.false_eq_true] at h
  case nil.nil => simp only [anyMatches]; exact .inl rfl
  case cons.cons c r c' r' =>
    obtain ⟨hc, hr⟩ := h
    simp only [anyMatches]
    rcases ih.caseMatches p subj c c' s hc with h1 | ⟨s1, h1⟩
    · rw [h1]
      generalize Proc.Ref.caseMatches PY (σ + n) p subj c' s = res
      obtain ⟨s1, r1⟩ := res
      cases r1 with
      | error o => exact .inl rfl
      | ok b =>
        cases b with
        | true => exact .inl rfl
        | false => exact ih.anyMatches p subj r r' s1 hr
    · rw [h1]; exact .inr ⟨_, rfl⟩

theorem exec_succ : ∀ S S' s, matchS rev δ S S' = true → SubO (exec PX (n + 1) S s) (exec PY (σ + n + 1) S' s) := by
  intro S S' s h
  cases S <;> cases S' <;> simp only [matchS, Bool.and_eq_true, beq_iff_eq, Bool.false_eq_true] at h
  case skip.skip => simp only [exec]; exact .inl rfl
  case seq.seq a b a' b' =>
    simp only [exec]
    rcases ih.exec a a' s h.1 with h1 | ⟨s1, h1⟩
    · rw [h1]
      generalize Proc.Ref.exec PY (σ + n) a' s = res
      obtain ⟨s1, o⟩ := res
      cases o <;> first | exact ih.exec b b' s1 h.2 | exact .inl rfl
    · rw [h1]; exact .inr ⟨_, rfl⟩
  case assign.assign x t e p x' t' e' p' =>
    obtain ⟨⟨⟨rfl, rfl⟩, he⟩, rfl⟩ := h
    simp only [exec]
    rcases ih.evalTo e e' t s he with h1 | ⟨s1, h1⟩
    · rw [h1]; exact .inl rfl
    · rw [h1]; exact .inr ⟨_, rfl⟩
  case print.print items p items' p' =>
    obtain ⟨hi, rfl⟩ := h
    have hsep : endsInSeparator items' = endsInSeparator items := by
      clear ih
      induction items generalizing items' with
      | nil => cases items' <;> simp [matchItems] at hi; rfl
      | cons a r ihr =>
        cases items' with
        | nil => simp [matchItems] at hi
        | cons a' r' =>
          simp only [matchItems, Bool.and_eq_true] at hi
          have h2 := ihr r' hi.2
          have ha := hi.1
          cases a <;> cases a' <;> simp only [matchItem, Bool.false_eq_true] at ha <;>
            cases r <;> cases r' <;> simp_all [matchItems, endsInSeparator]
    simp only [exec, hsep]
    rcases ih.printItems items items' s hi with h1 | ⟨s1, h1⟩
    · rw [h1]; exact .inl rfl
    · rw [h1]; exact .inr ⟨_, rfl⟩
  case read.read x t p x' t' p' => obtain ⟨⟨rfl, rfl⟩, rfl⟩ := h; simp only [exec]; exact .inl rfl
  case ifs.ifs c a b p c' a' b' p' =>
    obtain ⟨⟨⟨hc, ha⟩, hb⟩, _⟩ := h
    simp only [exec]
    rcases ih.evalCond c c' s hc with h1 | ⟨s1, h1⟩
    · rw [h1]
      generalize Proc.Ref.evalCond PY (σ + n) c' s = res
      obtain ⟨s1, r1⟩ := res
      cases r1 with
      | error o => exact .inl rfl
      | ok bb => cases bb <;> first | exact ih.exec a a' s1 ha | exact ih.exec b b' s1 hb
    · rw [h1]; exact .inr ⟨_, rfl⟩
  case select.select e cs p e' cs' p' =>
    obtain ⟨⟨he, hc⟩, rfl⟩ := h
    simp only [exec]
    rcases ih.eval e e' s he with h1 | ⟨s1, h1⟩
    · rw [h1]
      generalize Proc.Ref.eval PY (σ + n) e' s = res
      obtain ⟨s1, r1⟩ := res
      cases r1 with
      | error o => exact .inl rfl
      | ok subj => exact ih.execCases p subj cs cs' s1 hc
    · rw [h1]; exact .inr ⟨_, rfl⟩
  case forLoop.forLoop x t lo hi st body p x' t' lo' hi' st' body' p' =>
    obtain ⟨⟨⟨⟨⟨⟨rfl, rfl⟩, hlo⟩, hhi⟩, hst⟩, hb⟩, rfl⟩ := h
    simp only [exec]
    rcases ih.evalTo lo lo' t s hlo with h1 | ⟨s1, h1⟩
    · rw [h1]
      generalize Proc.Ref.evalTo PY (σ + n) lo' t s = res
      obtain ⟨s1, r1⟩ := res
      cases r1 with
      | error o => exact .inl rfl
      | ok l =>
        simp only
        rcases ih.evalTo hi hi' t (s1.set x l) hhi with h2 | ⟨s2, h2⟩
        · rw [h2]
          generalize Proc.Ref.evalTo PY (σ + n) hi' t (s1.set x l) = res2
          obtain ⟨s2, r2⟩ := res2
          cases r2 with
          | error o => exact .inl rfl
          | ok hv =>
            simp only
            cases st <;> cases st' <;> simp only [matchStep, Bool.false_eq_true] at hst
            · exact ih.forIter x t hv (.int 1) true body body' p s2 hb
            · next se se' =>
              simp only [(matchE_static hst).2]
              rcases ih.eval se se' s2 hst with h3 | ⟨s3, h3⟩
              · rw [h3]
                generalize Proc.Ref.eval PY (σ + n) se' s2 = res3
                obtain ⟨s3, r3⟩ := res3
                cases r3 with
                | error o => exact .inl rfl
                | ok sv =>
                  simp only
                  cases stepSign p sv with
                  | error o => exact .inl rfl
                  | ok sg => cases sg <;> first | exact ih.forIter x t hv sv _ body body' p s3 hb | exact .inl rfl
              · rw [h3]; exact .inr ⟨_, rfl⟩
        · rw [h2]; exact .inr ⟨_, rfl⟩
    · rw [h1]; exact .inr ⟨_, rfl⟩
  case while.while c body p c' body' p' =>
    obtain ⟨⟨hc, hb⟩, rfl⟩ := h
    have hw : matchS rev δ (.while c body p) (.while c' body' p) = true := by simp [matchS, hc, hb]
    simp only [exec]
    rcases ih.evalCond c c' s hc with h1 | ⟨s1, h1⟩
    · rw [h1]
      generalize Proc.Ref.evalCond PY (σ + n) c' s = res
      obtain ⟨s1, r1⟩ := res
      cases r1 with
      | error o => exact .inl rfl
      | ok bb =>
        cases bb with
        | false => exact .inl rfl
        | true =>
          simp only
          rcases ih.exec body body' s1 hb with h2 | ⟨s2, h2⟩
          · rw [h2]
            generalize Proc.Ref.exec PY (σ + n) body' s1 = res2
            obtain ⟨s2, o⟩ := res2
            cases o <;> first | exact ih.exec _ _ s2 hw | exact .inl rfl
          · rw [h2]; exact .inr ⟨_, rfl⟩
    · rw [h1]; exact .inr ⟨_, rfl⟩
  case doLoop.doLoop c top u body p c' top' u' body' p' =>
    obtain ⟨⟨⟨⟨hc, rfl⟩, rfl⟩, hb⟩, rfl⟩ := h
    have hw : matchS rev δ (.doLoop c top u body p) (.doLoop c' top u body' p) = true := by simp [matchS, hc, hb]
    simp only [exec]
    cases top with
    | true =>
      simp only [if_true]
      rcases ih.evalCond c c' s hc with h1 | ⟨s1, h1⟩
      · rw [h1]
        generalize Proc.Ref.evalCond PY (σ + n) c' s = res
        obtain ⟨s1, r1⟩ := res
        cases r1 with
        | error o => exact .inl rfl
        | ok bb =>
          simp only
          by_cases hbu : (bb != u) = true
          · rw [if_pos hbu, if_pos hbu]
            rcases ih.exec body body' s1 hb with h2 | ⟨s2, h2⟩
            · rw [h2]
              generalize Proc.Ref.exec PY (σ + n) body' s1 = res2
              obtain ⟨s2, o⟩ := res2
              cases o <;> first | exact ih.exec _ _ s2 hw | exact .inl rfl
            · rw [h2]; exact .inr ⟨_, rfl⟩
          · rw [if_neg hbu, if_neg hbu]; exact .inl rfl
      · rw [h1]; exact .inr ⟨_, rfl⟩
    | false =>
      simp only [Bool.false_eq_true, if_false]
      rcases ih.exec body body' s hb with h2 | ⟨s2, h2⟩
      · rw [h2]
        generalize Proc.Ref.exec PY (σ + n) body' s = res2
        obtain ⟨s2, o⟩ := res2
        cases o <;> try exact .inl rfl
        simp only
        rcases ih.evalCond c c' s2 hc with h1 | ⟨s1, h1⟩
        · rw [h1]
          generalize Proc.Ref.evalCond PY (σ + n) c' s2 = res
          obtain ⟨s1, r1⟩ := res
          cases r1 with
          | error o => exact .inl rfl
          | ok bb =>
            simp only
            by_cases hbu : (bb != u) = true
            · rw [if_pos hbu, if_pos hbu]; exact ih.exec _ _ s1 hw
            · rw [if_neg hbu, if_neg hbu]; exact .inl rfl
        · rw [h1]; exact .inr ⟨_, rfl⟩
      · rw [h2]; exact .inr ⟨_, rfl⟩
  case end_.end_ p p' => subst h; simp only [exec]; exact .inl rfl
  case callSub.callSub f a p f' a' p' =>
    obtain ⟨⟨rfl, ha⟩, _⟩ := h
    simp only [exec]
    rcases ih.call f a a' s ha with h1 | ⟨s1, h1⟩
    · rw [h1]; exact .inl rfl
    · rw [h1]; exact .inr ⟨_, rfl⟩
  case exitProc.exitProc p p' => simp only [exec]; exact .inl rfl

theorem execCases_succ : ∀ p subj cs cs' s, matchC rev δ cs cs' = true →
    SubO (execCases PX (n + 1) p subj cs s) (execCases PY (σ + n + 1) p subj cs' s) := by
  intro p subj cs cs' s h
  cases cs <;> cases cs' <;> simp only [matchC, Bool.and_eq_true, Bool.false_eq_true] at h
  case nil.nil => simp only [execCases]; exact .inl rfl
  case else_.else_ b b' => simp only [execCases]; exact ih.exec b b' s h
  case case.case conds b rest conds' b' rest' =>
    obtain ⟨⟨hcs, hb⟩, hr⟩ := h
    simp only [execCases]
    rcases ih.anyMatches p subj conds conds' s hcs with h1 | ⟨s1, h1⟩
    · rw [h1]
      generalize Proc.Ref.anyMatches PY (σ + n) p subj conds' s = res
      obtain ⟨s1, r1⟩ := res
      cases r1 with
      | error o => exact .inl rfl
      | ok bb => cases bb <;> first | exact ih.exec b b' s1 hb | exact ih.execCases p subj rest rest' s1 hr
    · rw [h1]; exact .inr ⟨_, rfl⟩

theorem forIter_succ : ∀ x t h sv up body body' p s, matchS rev δ body body' = true →
    SubO (forIter PX (n + 1) x t h sv up body p s) (forIter PY (σ + n + 1) x t h sv up body' p s) := by
  intro x t h sv up body body' p s hb
  simp only [forIter]
  cases relTest p (if up = true then Op.lessOrEqual else Op.greaterOrEqual) (s.get x t) h with
  | error o => exact .inl rfl
  | ok bb =>
    cases bb with
    | false => exact .inl rfl
    | true =>
      simp only
      rcases ih.exec body body' s hb with h2 | ⟨s2, h2⟩
      · rw [h2]
        generalize Proc.Ref.exec PY (σ + n) body' s = res2
        obtain ⟨s2, o⟩ := res2
        cases o <;> try exact .inl rfl
        simp only
        cases (plus (s2.get x t) sv).bind (fun v => cast v t) with
        | ok v => exact ih.forIter x t h sv up body body' p _ hb
        | err e => exact .inl rfl
        | inexact => exact .inl rfl
      · rw [h2]; exact .inr ⟨_, rfl⟩

end sim

theorem ih_all {rev : Bool} {δ σ : Nat} {PX PY : Program} (hσ : rev = false → δ ≤ σ)
    (hp : matchProcs rev δ PX.procs PY.procs = true) : ∀ n, IH rev δ σ PX PY n := by
  intro n
  induction n with
  | zero =>
    exact
      { eval := fun e e' s _ => .inr ⟨s, by simp only [eval]⟩
        evalTo := fun e e' t s _ => .inr ⟨s, by simp only [evalTo]⟩
        evalArgs := fun a a' s _ => .inr ⟨s, by simp only [evalArgs]⟩
        call := fun f a a' s _ => .inr ⟨s, by simp only [call]⟩
        printItems := fun i i' s _ => .inr ⟨s, by simp only [printItems]⟩
        evalCond := fun c c' s _ => .inr ⟨s, by simp only [evalCond]⟩
        caseMatches := fun p subj c c' s _ => .inr ⟨s, by simp only [caseMatches]⟩
        anyMatches := fun p subj c c' s _ => .inr ⟨s, by simp only [anyMatches]⟩
        exec := fun S S' s _ => .inr ⟨s, by simp only [exec]⟩
        execCases := fun p subj c c' s _ => .inr ⟨s, by simp only [execCases]⟩
        forIter := fun x t h sv up b b' p s _ => .inr ⟨s, by simp only [forIter]⟩ }
  | succ n ih =>
    exact
      { eval := eval_succ hσ hp ih
        evalTo := evalTo_succ hσ hp ih
        evalArgs := evalArgs_succ hσ hp ih
        call := call_succ hσ hp ih
        printItems := printItems_succ hσ hp ih
        evalCond := evalCond_succ hσ hp ih
        caseMatches := caseMatches_succ hσ hp ih
        anyMatches := anyMatches_succ hσ hp ih
        exec := exec_succ hσ hp ih
        execCases := execCases_succ hσ hp ih
        forIter := forIter_succ hσ hp ih }

/-! ### the property, statement level, with procedures -/

/-- **`const_inline_exec_proc`.** Statements of two matching programs (main module or procedure body; the procedures
of the two programs match): from any state the named statement with fuel `n`, unless it runs out of fuel, does what
the inlined statement does with fuel `δ + n`; and the inlined statement with fuel `n`, unless it runs out of fuel, does
what the named statement does with fuel `n`.  "Does" = the whole resulting state (output, variables of the current
activation, SHARED and STATIC variables, DATA cursor) and the outcome (normal, EXIT, END, error code and position). -/
theorem const_inline_exec_proc (δ n : Nat) (N I : Program) (hp : matchProcs false δ N.procs I.procs = true)
    (S S' : Stmt) (h : matchS false δ S S' = true) (s : St) :
    ((exec N n S s).2 ≠ .outOfFuel → exec I (δ + n) S' s = exec N n S s) ∧
    ((exec I n S' s).2 ≠ .outOfFuel → exec N n S s = exec I n S' s) := by
  constructor
  · intro hne
    rcases (ih_all (σ := δ) (fun _ => Nat.le_refl δ) hp n).exec S S' s h with h1 | ⟨s1, h1⟩
    · exact h1.symm
    · rw [h1] at hne; exact absurd rfl hne
  · intro hne
    have h' := (ih_all (σ := 0) (rev := true) (δ := 0) (fun hr => by cases hr) (matchProcs_symm δ _ _ hp) n).exec S' S s
      (matchS_symm δ _ _ h)
    rw [Nat.zero_add] at h'
    rcases h' with h1 | ⟨s1, h1⟩
    · exact h1.symm
    · rw [h1] at hne; exact absurd rfl hne

/-- **`const_inline_run_proc`.** If the linted tree `I` of the inlined program matches the linted tree `N` of the named
program (`matchP δ N I`: the same slot tables, DATA and procedure declarations; main module and every procedure body node
by node the same, argument lists and their parameter annotations included, except that where `N` has the literal a use of
a constant became, `I` has a parenthesised expression of at most `δ` nodes' depth over literals and operators that
evaluates to exactly that value and has its type) then the two programs have the same run:

* the named run with fuel `n`, unless it runs out of fuel, IS the inlined run with fuel `δ + n` — the same final state
  (output, main-module variables `env`, SHARED variables, STATIC environments, DATA cursor) and the same outcome (normal
  end, END, the same error code at the same position);
* the inlined run with fuel `n`, unless it runs out of fuel, IS the named run with fuel `n`.

The surplus `δ` is needed: `Proc.Ref` spends a unit of fuel per expression node, and the inlined program has more nodes
(`same_fuel_differs` below). -/
theorem const_inline_run_proc (δ n : Nat) (N I : Program) (h : matchP δ N I = true) :
    ((run n N).2 ≠ .outOfFuel → run (δ + n) I = run n N) ∧
    ((run n I).2 ≠ .outOfFuel → run n N = run n I) := by
  simp only [matchP, matchP', Bool.and_eq_true, beq_iff_eq] at h
  obtain ⟨⟨⟨⟨h1, h2⟩, h3⟩, hb⟩, hp⟩ := h
  have hinit : St.init I = St.init N := by
    simp only [St.init, ← h1, ← h2, ← h3]
    congr 1
    funext f
    rcases procs_get _ _ hp f with ⟨hx, hy⟩ | ⟨d, d', hx, hy, hd⟩
    · rw [hx, hy]
    · rw [hx, hy]; simp only [(matchProc_spec hd).2.2.1]
  simp only [run, hinit]
  exact const_inline_exec_proc δ n N I hp N.body I.body hb (St.init N)

/-- a run that ends: some amount of fuel gives the answer `r`, which is not "out of fuel" -/
def Ends (P : Program) (r : St × Outcome) : Prop := ∃ n, run n P = r ∧ r.2 ≠ .outOfFuel

/-- **`const_inline_ends`** — the fuel-free reading: the named program ends with state and outcome `r` iff the inlined
program ends with `r`. -/
theorem const_inline_ends (δ : Nat) (N I : Program) (h : matchP δ N I = true) (r : St × Outcome) :
    Ends N r ↔ Ends I r := by
  constructor
  · rintro ⟨n, rfl, hne⟩
    exact ⟨δ + n, (const_inline_run_proc δ n N I h).1 hne, hne⟩
  · rintro ⟨n, rfl, hne⟩
    exact ⟨n, (const_inline_run_proc δ n N I h).2 hne, hne⟩

/-! ### through `Proc.compile_correct` to the VM model -/

open RbModel.Proc.Compile RbModel.Proc.Vm RbThm.ProcSim in
/-- **`const_inline_vm`.** Named and inlined program as the generator sees them (`SProgram`), trees matching after
desugaring, the inlined one satisfying the premise `ProgWf` of the simulation theorem (evaluated by the driver on the
real tree, `proc.wf`): whatever the reference semantics says about the NAMED program — normal end or END with output
`out`; BASIC error `c` at position `p` with output `out` — the VM model does on the code the generator model emits for
the INLINED program. -/
theorem const_inline_vm (δ n : Nat) (N I : SProgram) (h : matchP δ N.toAst I.toAst = true) (hw : ProgWf I) :
    match Proc.Ref.run n N.toAst with
    | (s', .normal) => HaltsWith (compile I) Vm.init s'.out
    | (s', .halted) => HaltsWith (compile I) Vm.init s'.out
    | (s', .error c p) => ErrsWith (compile I) Vm.init c p s'.out
    | _ => True := by
  have h1 := (const_inline_run_proc δ n N.toAst I.toAst h).1
  have h2 := compile_correct I (δ + n) hw
  generalize Proc.Ref.run n N.toAst = r at h1 ⊢
  obtain ⟨s', o⟩ := r
  cases o with
  | normal => rw [h1 (by simp)] at h2; exact h2
  | halted => rw [h1 (by simp)] at h2; exact h2
  | error c p => rw [h1 (by simp)] at h2; exact h2
  | exited => trivial
  | inexact => trivial
  | outOfFuel => trivial
  | illFormed => trivial

open RbModel.Proc.Compile RbModel.Proc.Vm RbThm.ProcSim in
/-- both programs well-formed: the two generated codes halt with the same output / stop with the same error at the same
position with the same output -/
theorem const_inline_vm_both (δ n : Nat) (N I : SProgram) (h : matchP δ N.toAst I.toAst = true) (hwN : ProgWf N)
    (hwI : ProgWf I) :
    match Proc.Ref.run n N.toAst with
    | (s', .normal) => HaltsWith (compile N) Vm.init s'.out ∧ HaltsWith (compile I) Vm.init s'.out
    | (s', .halted) => HaltsWith (compile N) Vm.init s'.out ∧ HaltsWith (compile I) Vm.init s'.out
    | (s', .error c p) => ErrsWith (compile N) Vm.init c p s'.out ∧ ErrsWith (compile I) Vm.init c p s'.out
    | _ => True := by
  have h1 := const_inline_vm δ n N I h hwI
  have h2 := compile_correct N n hwN
  generalize Proc.Ref.run n N.toAst = r at h1 h2 ⊢
  obtain ⟨s', o⟩ := r
  cases o <;> first | exact ⟨h2, h1⟩ | trivial

/-! ### the bridge from the constant folder's model -/

theorem lift_ok {p : Pos} {r : Res Val} {v : Val} (h : RbModel.Ref.lift p r = .ok v) : okVal r = some v := by
  cases r <;> simp [RbModel.Ref.lift] at h
  rw [h]; rfl

theorem embed_ty (k : Ast.Expr) : (embed k).ty = k.ty := by
  induction k with
  | lit v p => rfl
  | var x t p => rfl
  | un op e p ih => simpa [embed, Proc.Expr.ty, Ast.Expr.ty] using ih
  | bin op l r t p _ _ => rfl
  | paren e p ih => simpa [embed, Proc.Expr.ty, Ast.Expr.ty] using ih

/-- a closed core-language expression that the core reference semantics evaluates to `v` has the state-free value `v`
as an expression of the procedures layer -/
theorem embed_pureVal : ∀ (k : Ast.Expr) (v : Val), RbModel.Ref.eval [] k = .ok v → ConstProg.closedE k = true →
    pureVal (embed k) = some v := by
  intro k
  induction k with
  | lit w p => intro v h _; simp only [RbModel.Ref.eval, RbModel.Ref.ERes.ok.injEq] at h; subst h; rfl
  | var x t p => intro v _ hc; simp [ConstProg.closedE] at hc
  | paren e p ih => intro v h hc; simp only [RbModel.Ref.eval] at h; exact ih v h (by simpa [ConstProg.closedE] using hc)
  | un op e p ih =>
    intro v h hc
    have hc' : ConstProg.closedE e = true := by simpa [ConstProg.closedE] using hc
    cases he : RbModel.Ref.eval [] e with
    | err c q => cases op <;> simp [RbModel.Ref.eval, he, RbModel.Ref.ERes.bind] at h
    | inexact => cases op <;> simp [RbModel.Ref.eval, he, RbModel.Ref.ERes.bind] at h
    | ok a =>
      have ha := ih a he hc'
      cases op <;> simp only [RbModel.Ref.eval, he, RbModel.Ref.ERes.bind] at h <;>
        simp only [embed, pureVal, ha] <;> exact lift_ok h
  | bin op l r t p ihl ihr =>
    intro v h hc
    have hc' : ConstProg.closedE l = true ∧ ConstProg.closedE r = true := by simpa [ConstProg.closedE] using hc
    cases hl : RbModel.Ref.eval [] l with
    | err c q => simp [RbModel.Ref.eval, hl, RbModel.Ref.ERes.bind] at h
    | inexact => simp [RbModel.Ref.eval, hl, RbModel.Ref.ERes.bind] at h
    | ok a =>
      cases hr : RbModel.Ref.eval [] r with
      | err c q => simp [RbModel.Ref.eval, hl, hr, RbModel.Ref.ERes.bind] at h
      | inexact => simp [RbModel.Ref.eval, hl, hr, RbModel.Ref.ERes.bind] at h
      | ok b =>
        simp only [RbModel.Ref.eval, hl, hr, RbModel.Ref.ERes.bind] at h
        simp only [embed, pureVal, ihl a hl hc'.1, ihr b hr hc'.2]
        exact lift_ok h

/-- what `ConstProg.good` accepts in the core language, `ConstProc.good` accepts in the procedures layer -/
theorem good_embed {v : Val} {k : Ast.Expr} (h : ConstProg.good v k = true) : good v (embed k) = true := by
  obtain ⟨hc, he, ht⟩ := RbThm.C14.good_spec h
  simp [good, embed_pureVal k v he hc, embed_ty, ht]

open RbModel.ConstEval in
/-- **`const_use_good_proc`.** For an accepted `CONST c = e` with folded value `v`: the syntax tree of the converted
defining expression (any positions, any extra parentheses, the linter's static types at the binary nodes) is an
expression the literal `v` may be replaced by, in the procedures layer too — so at every use of `c`, in the main module,
in a procedure body or in an argument list, the two linted trees match and `const_inline_run_proc` applies. -/
theorem const_use_good_proc (env : Env) (hr : EnvInRange env) (e : CExpr) (hl : e.LitsInRange) (v : Val)
    (hf : fold env e = .ok v) (e' : Num.Expr) (he : toExpr env e = some e') (k : Ast.Expr) (hk : ConstProg.AstOf e' k) :
    good v (embed k) = true :=
  good_embed (RbThm.C14.const_use_good env hr e hl v hf e' he k hk)

open RbModel.ConstEval in
theorem const_use_match_proc (env : Env) (hr : EnvInRange env) (e : CExpr) (hl : e.LitsInRange) (v : Val)
    (hf : fold env e = .ok v) (e' : Num.Expr) (he : toExpr env e = some e') (k : Ast.Expr) (hk : ConstProg.AstOf e' k)
    (p : Pos) : matchE false (depthC (embed k)) (.lit v p) (.paren (embed k) p) = true := by
  simp [matchE, const_use_good_proc env hr e hl v hf e' he k hk]

/-! ### instances -/

/-- `A% = F%(c5) : S A%, c2 : PRINT A%` with `FUNCTION F%(x%): F% = x% * c3` and `SUB S(a%, b%): a% = a% + b% + c10`:
uses of constants as a by-value argument of a FUNCTION call inside an expression, as a by-value argument of a SUB call
next to a by-reference one, inside a FUNCTION body and inside a SUB body -/
private def exProg (c5 c3 c2 c10 : Proc.Expr) : Program :=
  { slots := [.int], gslots := [], data := [],
    body :=
      .seq (.assign ⟨false, 0⟩ .int (.callFn 0 (.cons c5 "x" .int .nil) .int ⟨1, 6⟩) ⟨1, 1⟩)
      (.seq (.callSub 1 (.cons (.var ⟨false, 0⟩ .int ⟨2, 3⟩) "a" .int (.cons c2 "b" .int .nil)) ⟨2, 1⟩)
      (.seq (.print [.expr (.var ⟨false, 0⟩ .int ⟨3, 7⟩)] ⟨3, 1⟩) .skip)),
    procs :=
      [ { result := some .int, name := "F%", params := [("x", .int)], slots := [.int, .int], pos := ⟨5, 1⟩,
          body := .seq (.assign ⟨false, 1⟩ .int
            (.bin .multiply (.var ⟨false, 0⟩ .int ⟨6, 6⟩) c3 .int ⟨6, 6⟩) ⟨6, 1⟩) .skip },
        { result := none, name := "S", params := [("a", .int), ("b", .int)], slots := [.int, .int], pos := ⟨8, 1⟩,
          body := .seq (.assign ⟨false, 0⟩ .int
            (.bin .plus (.bin .plus (.var ⟨false, 0⟩ .int ⟨9, 6⟩) (.var ⟨false, 1⟩ .int ⟨9, 11⟩) .int ⟨9, 6⟩)
              c10 .int ⟨9, 6⟩) ⟨9, 1⟩) .skip } ] }

private def li (n : Int) (r c : Nat) : Proc.Expr := .lit (.int n) ⟨r, c⟩

/-- the named program: the literals the uses of `CONST C5 = 2 + 3, C3 = 4 - 1, C2 = -(-2), C10 = 2 * 5` became -/
private def exN : Program := exProg (li 5 1 9) (li 3 6 12) (li 2 2 7) (li 10 9 17)

/-- the inlined program: `(2 + 3)`, `(4 - 1)`, `(-(-2))`, `(2 * 5)` at the same places -/
private def exI : Program :=
  exProg (.paren (.bin .plus (li 2 1 10) (li 3 1 14) .int ⟨1, 10⟩) ⟨1, 9⟩)
    (.paren (.bin .minus (li 4 6 13) (li 1 6 17) .int ⟨6, 13⟩) ⟨6, 12⟩)
    (.paren (.un .neg (.paren (li (-2) 2 10) ⟨2, 9⟩) ⟨2, 8⟩) ⟨2, 7⟩)
    (.paren (.bin .multiply (li 2 9 18) (li 5 9 22) .int ⟨9, 18⟩) ⟨9, 17⟩)

private def isNormal : Outcome → Bool | .normal => true | _ => false
private def isOutOfFuel : Outcome → Bool | .outOfFuel => true | _ => false

/-- the hypothesis of `const_inline_run_proc` holds of the pair (surplus 3: `(-(-2))` is three nodes deep below its
parenthesis), fails with too small a surplus, and fails for a wrong replacement (`(4 - 2)` for the literal 3) -/
example : matchP 3 exN exI = true ∧ matchP 2 exN exI = false ∧
    matchP 3 exN (exProg (li 5 1 9) (.paren (.bin .minus (li 4 6 13) (li 2 6 17) .int ⟨6, 13⟩) ⟨6, 12⟩)
      (li 2 2 7) (li 10 9 17)) = false := by
  decide +kernel

/-- … and the runs are not trivial: the named program ends normally with `A% = 5 * 3 + 2 + 10` -/
example : isNormal (run 10 exN).2 = true ∧ (run 10 exN).1.env = [.int 27] := by decide +kernel

/-- **`same_fuel_differs`** — why the statement carries a fuel surplus: with fuel 10 the named program ends normally, the
inlined program is out of fuel (its expressions have more nodes); with fuel 3 + 10 it gives the named run's answer, as
`const_inline_run_proc` says -/
theorem same_fuel_differs :
    isNormal (run 10 exN).2 = true ∧ isOutOfFuel (run 10 exI).2 = true ∧
      isNormal (run 13 exI).2 = true ∧ (run 13 exI).1.env = [.int 27] := by
  decide +kernel

end RbThm.C14Proc
