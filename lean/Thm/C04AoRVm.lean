import Thm.AoRSim
/-!
# C04 at the level of the VM model, for the layer AoR: a store changes that location and nothing else — as observed

`Thm/AoRProps.lean` proves C04's clause "storing into one array element or record field changes that element or field and
nothing else" over the reference semantics `AoR.Ref` alone (`store_changes_only_that_location`).  The simulation theorem
`RbThm.AoRSim.compile_correct_checked` relates the VM model's run of the generated code to the reference run through the
OUTPUT (and the outcome).  This file puts the two together, as far as the simulation theorem allows:

* `vm_output_is_ref_output` — for a program the premise checker accepts whose reference run ends normally or with END, the
  bounded VM run of the generated code halts, for every sufficient budget, with exactly the reference's output;
* `run_store_observe` — a program of the shape `s₁ : … : sₖ : a(i…).f.g = e : observation` whose reference run ends
  normally: the run is the prefix, then the store, then the observation (with the fuel each part gets);
* **`store_then_observe_vm`** — for such a program the VM model halts with exactly the output of the observation made in
  the state `s2` that differs from the state `s1` before the store in that one location and nothing else: the location
  reads the converted value; every other field of that element (at any depth), every other element of the array (inside
  or outside the box, every field path), every other array, every variable, the shape of the array and the output so far
  are those of `s1`.  Whatever the observation prints — every location, if it prints every location — the VM prints
  exactly that.
* `print_elem_shows`, `printItems_elem_cons` — what a PRINT of a location shows is the value `readElem` finds there; with
  `print_stored_location_after_store` / `print_other_location_after_store`: after the store the stored location prints
  the converted value and every other location prints what it would have printed before the store.

What does NOT transfer: the theorem speaks about VM *output*, not about the VM's store (`Variant` trees); for the store at
the final `Halt` of a normally ending run see `RbThm.C06AoR.ToVm.compile_correct_rel`.  Runs that end in `inexact`,
`outOfFuel`, `illFormed`, `tooBig` are outside `compile_correct`.
-/
namespace RbThm.C04AoRVm
set_option linter.unusedVariables false
set_option linter.unusedSimpArgs false
open RbModel RbModel.Num RbModel.AoR RbModel.AoR.Compile RbModel.AoR.Vm
open RbModel.Ast (Pos)
open RbModel.RecL (ETy FTy FFields expand)
open RbModel.RecL.Spec (Apart)
open RbThm.AoRProps (readElem shapeOf)

abbrev St := RbModel.AoR.Ref.St
abbrev RArr := RbModel.AoR.Ref.RArr
abbrev RRV := RbModel.RecL.Ref.RV

/-! ### the output clause at VM level -/

/-- **`vm_output_is_ref_output`** — a program the layer's premise checker accepts whose reference run ends normally or with
END: for every sufficient step budget the VM model running the generated code has halted, with exactly the reference's
output -/
theorem vm_output_is_ref_output (prog : SProgram) (fuel : Nat) (hw : AoR.progWfB prog = true) (s' : St)
    (o : AoR.Ref.Outcome) (hrun : AoR.Ref.run fuel prog.toAst = (s', o)) (ho : o = .normal ∨ o = .halted) :
    ∃ n υ, (∀ m, n ≤ m → Vm.run (compile prog) m (Vm.init prog.types prog.slots prog.arrs) = .halted υ) ∧
      υ.out = s'.out := by
  have h := RbThm.AoRSim.run_correct_checked prog fuel hw
  rw [hrun] at h
  rcases ho with rfl | rfl <;> exact h

/-! ### programs of the shape `s₁ : … : sₖ : store : observation` -/

/-- `s₁ : … : sₖ : r` as the front end delivers it (a right-nested sequence) -/
def prefixed : List SStmt → SStmt → SStmt
  | [], r => r
  | x :: l, r => .seq x (prefixed l r)

/-- the reference run of the leading statements `s₁ … sₖ`, each ending normally (`none` otherwise), with the fuel the
sequence nodes hand down -/
def runPrefix : List SStmt → Nat → St → Option St
  | [], _, s => some s
  | _ :: _, 0, _ => none
  | x :: l, n + 1, s =>
    match AoR.Ref.exec n (desugar x) s with
    | (s', .normal) => runPrefix l n s'
    | _ => none

/-- a normally ending run of `s₁ : … : sₖ : r` is the run of the prefix followed by the run of `r` -/
theorem exec_prefixed : ∀ (pres : List SStmt) (r : SStmt) (fuel : Nat) (s s3 : St),
    AoR.Ref.exec fuel (desugar (prefixed pres r)) s = (s3, .normal) →
    ∃ s1, runPrefix pres fuel s = some s1 ∧ pres.length ≤ fuel ∧
      AoR.Ref.exec (fuel - pres.length) (desugar r) s1 = (s3, .normal)
  | [], r, fuel, s, s3, h => ⟨s, rfl, Nat.zero_le _, by simpa [prefixed] using h⟩
  | x :: l, r, 0, s, s3, h => by simp [AoR.Ref.exec] at h
  | x :: l, r, n + 1, s, s3, h => by
    simp only [prefixed, desugar, AoR.Ref.exec] at h
    split at h
    · next s' heq =>
      obtain ⟨s1, h1, h2, h3⟩ := exec_prefixed l r n s' s3 h
      refine ⟨s1, by simp only [runPrefix, heq]; exact h1, by simp only [List.length_cons]; omega, ?_⟩
      have : n + 1 - (x :: l).length = n - l.length := by simp only [List.length_cons]; omega
      rw [this]; exact h3
    · next hne => exact absurd h (hne s3)

/-- **`run_store_observe`** — the reference run of `s₁ : … : sₖ : a(i…).f.g = e : obs` that ends normally: the prefix runs
to `s1`, the store takes `s1` to `s2`, the observation takes `s2` to the final state -/
theorem run_store_observe (prog : SProgram) (pres : List SStmt) (obs : SStmt) (a : Nat) (idx : Exprs)
    (path : List String) (t : ETy) (e : AoR.Expr) (p : Pos)
    (hbody : prog.body = prefixed pres (.seq (.assignElem a idx path t e p) obs)) (fuel : Nat) (s3 : St)
    (hrun : AoR.Ref.run fuel prog.toAst = (s3, .normal)) :
    ∃ (f : Nat) (s1 s2 : St), fuel = f + 1 + pres.length ∧
      runPrefix pres fuel (AoR.Ref.St.init prog.toAst) = some s1 ∧
      AoR.Ref.exec f (.assignElem a idx path t e p) s1 = (s2, .normal) ∧
      AoR.Ref.exec f (desugar obs) s2 = (s3, .normal) := by
  have hrun' : AoR.Ref.exec fuel (desugar (prefixed pres (.seq (.assignElem a idx path t e p) obs)))
      (AoR.Ref.St.init prog.toAst) = (s3, .normal) := by
    rw [← hbody]; exact hrun
  obtain ⟨s1, h1, hlen, h3⟩ := exec_prefixed pres _ fuel _ s3 hrun'
  cases hk : fuel - pres.length with
  | zero => rw [hk] at h3; simp [AoR.Ref.exec] at h3
  | succ f =>
    rw [hk] at h3
    simp only [desugar, AoR.Ref.exec] at h3
    split at h3
    · next s2 heq => exact ⟨f, s1, s2, by omega, h1, heq, h3⟩
    · next hne => exact absurd h3 (hne s3)

/-- **`store_then_observe_vm`** — C04's clause at the level of the VM model.  A program `s₁ : … : sₖ : a(i…).f.g = e : obs`
the premise checker accepts whose reference run ends normally: with `s1` the state the prefix leaves and `s2` the state
after the store,
* `s2` is `s1` with that ONE location replaced by the converted value `v`: the location reads `v`; every other field of
  that element, every other element of `a` (any index tuple, any field path), every other array, every variable, the
  shape of `a` and the output so far are untouched (`AoRProps.store_changes_only_that_location`);
* for every sufficient budget the VM model running the generated code has halted, and its output is exactly the output of
  the observation `obs` made in `s2` — so an observation that prints every location prints, on the VM, the new value at
  the stored location and the values of `s1` everywhere else. -/
theorem store_then_observe_vm (prog : SProgram) (pres : List SStmt) (obs : SStmt) (a : Nat) (idx : Exprs)
    (path : List String) (t : ETy) (e : AoR.Expr) (p : Pos)
    (hbody : prog.body = prefixed pres (.seq (.assignElem a idx path t e p) obs))
    (hw : AoR.progWfB prog = true) (fuel : Nat) (s3 : St) (hrun : AoR.Ref.run fuel prog.toAst = (s3, .normal)) :
    ∃ (f : Nat) (s1 s2 : St) (v : RRV) (is : List Int) (A : RArr),
      -- the reference run: prefix, store, observation
      runPrefix pres fuel (AoR.Ref.St.init prog.toAst) = some s1 ∧
      AoR.Ref.exec f (.assignElem a idx path t e p) s1 = (s2, .normal) ∧
      AoR.Ref.exec f (desugar obs) s2 = (s3, .normal) ∧
      -- what the store did: that location and nothing else
      AoR.Ref.evalTo s1.env s1.arrs e t = .ok v ∧ AoR.Ref.evalIdx s1.env s1.arrs idx = .ok is ∧
      s1.arrs[a]? = some (some A) ∧ A.inBounds is = true ∧
      readElem s2 a is path = some v ∧
      (∀ q, Apart q path → readElem s2 a is q = readElem s1 a is q) ∧
      (∀ (js : List Int) (q : List String), js ≠ is → readElem s2 a js q = readElem s1 a js q) ∧
      (∀ b : Nat, b ≠ a → s2.arrs[b]? = s1.arrs[b]?) ∧
      s2.env = s1.env ∧ shapeOf s2 a = shapeOf s1 a ∧ s2.out = s1.out ∧
      -- the VM model: halts with exactly the output of the observation made in `s2`
      ∃ n υ, (∀ m, n ≤ m → Vm.run (compile prog) m (Vm.init prog.types prog.slots prog.arrs) = .halted υ) ∧
        υ.out = (AoR.Ref.exec f (desugar obs) s2).1.out := by
  obtain ⟨f, s1, s2, _, h1, h2, h3⟩ := run_store_observe prog pres obs a idx path t e p hbody fuel s3 hrun
  obtain ⟨v, is, A, hv, hi, hA, hb, c1, c2, _, c4, c5, c6, c7, c8, _⟩ :=
    RbThm.AoRProps.store_changes_only_that_location f a idx path t e p s1 s2 h2
  obtain ⟨n, υ, hn, ho⟩ := vm_output_is_ref_output prog fuel hw s3 .normal hrun (.inl rfl)
  exact ⟨f, s1, s2, v, is, A, h1, h2, h3, hv, hi, hA, hb, c1, c2, c4, c5, c6, c7, c8, n, υ, hn, by rw [h3]; exact ho⟩

/-! ### what a PRINT of a location shows -/

/-- the value of an element / element-field expression is what `readElem` finds at the evaluated subscripts -/
theorem evalS_elem_eq_readElem {s : St} {a : Nat} {idx : Exprs} {q : List String} {t : ETy} {pe : Pos}
    {js : List Int} {A : RArr} {w : Val} (hi : AoR.Ref.evalIdx s.env s.arrs idx = .ok js)
    (hA : s.arrs[a]? = some (some A)) (hb : A.inBounds js = true) (hr : readElem s a js q = some (.sc w)) :
    AoR.Ref.evalS s.env s.arrs (.elem a idx q t pe) = .ok w := by
  simp only [readElem, hA] at hr
  simp [AoR.Ref.evalS, AoR.Ref.eval, hi, AoR.Ref.getArr, hA, RecL.Ref.ERes.bind, hb, hr, RecL.Ref.asScalar]

/-- one more item of a PRINT list that is an element / element-field: its text is appended, the rest of the list goes on
in a state that differs in the output only -/
theorem printItems_elem_cons {s : St} {a : Nat} {idx : Exprs} {q : List String} {t : ETy} {pe : Pos}
    {js : List Int} {A : RArr} {w : Val} {pv : Print.Value} (rest : List PrintItem)
    (hi : AoR.Ref.evalIdx s.env s.arrs idx = .ok js) (hA : s.arrs[a]? = some (some A)) (hb : A.inBounds js = true)
    (hr : readElem s a js q = some (.sc w)) (hpv : AoR.Ref.printValue w = some pv) :
    AoR.Ref.printItems s (.expr (.elem a idx q t pe) :: rest) =
      AoR.Ref.printItems { s with out := s.out.print (Print.valueText pv) } rest := by
  simp only [AoR.Ref.printItems, evalS_elem_eq_readElem hi hA hb hr, hpv]

/-- **`print_elem_shows`** — `PRINT a(i…).f.g` shows the value found at that location (`readElem`), then a newline -/
theorem print_elem_shows (fuel : Nat) {s : St} {a : Nat} {idx : Exprs} {q : List String} {t : ETy} {pe pp : Pos}
    {js : List Int} {A : RArr} {w : Val} {pv : Print.Value}
    (hi : AoR.Ref.evalIdx s.env s.arrs idx = .ok js) (hA : s.arrs[a]? = some (some A)) (hb : A.inBounds js = true)
    (hr : readElem s a js q = some (.sc w)) (hpv : AoR.Ref.printValue w = some pv) :
    AoR.Ref.exec (fuel + 1) (.print [.expr (.elem a idx q t pe)] pp) s =
      ({ s with out := (s.out.print (Print.valueText pv)).println }, .normal) := by
  simp only [AoR.Ref.exec]
  rw [printItems_elem_cons [] hi hA hb hr hpv]
  simp only [AoR.Ref.printItems, AoR.Ref.endsInSeparator, Bool.false_eq_true, if_false]

/-- the array `a` after an element store that ended normally: same bounds test, dimensioned -/
theorem arr_after_store {f : Nat} {a : Nat} {idx : Exprs} {path : List String} {t : ETy} {e : AoR.Expr} {p : Pos}
    {s1 s2 : St} (h2 : AoR.Ref.exec f (.assignElem a idx path t e p) s1 = (s2, .normal)) {A1 : RArr}
    (hA1 : s1.arrs[a]? = some (some A1)) :
    ∃ A2, s2.arrs[a]? = some (some A2) ∧ ∀ js, A2.inBounds js = A1.inBounds js := by
  obtain ⟨v, is, A, new, _, _, hA, _, _, rfl⟩ := RbThm.AoRProps.assignElem_normal h2
  rw [hA1] at hA; injection hA with hA; injection hA with hA; subst hA
  exact ⟨A1.set is new, by simp only [AoR.Ref.St.setArr]; exact RbThm.RecLProps.getElem?_set_self' hA1,
    fun js => rfl⟩

/-- **`print_stored_location_after_store`** — after `a(i…).f.g = e` (ended normally, subscripts `is`, converted value the
scalar `w`), `PRINT a(j…).f.g` with subscripts that evaluate to the same tuple shows `w` -/
theorem print_stored_location_after_store {f : Nat} {a : Nat} {idx : Exprs} {path : List String} {t : ETy}
    {e : AoR.Expr} {p : Pos} {s1 s2 : St} (h2 : AoR.Ref.exec f (.assignElem a idx path t e p) s1 = (s2, .normal))
    (fuel : Nat) (idx' : Exprs) (t' : ETy) (pe pp : Pos) (is : List Int) (w : Val) (pv : Print.Value)
    (hi1 : AoR.Ref.evalIdx s1.env s1.arrs idx = .ok is) (hv : AoR.Ref.evalTo s1.env s1.arrs e t = .ok (.sc w))
    (hi2 : AoR.Ref.evalIdx s2.env s2.arrs idx' = .ok is) (hpv : AoR.Ref.printValue w = some pv) :
    AoR.Ref.exec (fuel + 1) (.print [.expr (.elem a idx' path t' pe)] pp) s2 =
      ({ s2 with out := (s2.out.print (Print.valueText pv)).println }, .normal) := by
  obtain ⟨v, is0, A, hv0, hi0, hA, hb, c1, _⟩ :=
    RbThm.AoRProps.store_changes_only_that_location f a idx path t e p s1 s2 h2
  rw [hi1] at hi0; injection hi0 with hi0; subst hi0
  rw [hv] at hv0; injection hv0 with hv0; subst hv0
  obtain ⟨A2, hA2, hb2⟩ := arr_after_store h2 hA
  exact print_elem_shows fuel hi2 hA2 (by rw [hb2]; exact hb) c1 hpv

/-- **`print_other_location_after_store`** — after `a(i…).f.g = e` (ended normally, subscripts `is`), `PRINT a(j…).q` of ANY
OTHER location of the same array — another element (`js ≠ is`, any field path) or another field of the same element
(`Apart q path`) — shows the value that location held BEFORE the store -/
theorem print_other_location_after_store {f : Nat} {a : Nat} {idx : Exprs} {path : List String} {t : ETy}
    {e : AoR.Expr} {p : Pos} {s1 s2 : St} (h2 : AoR.Ref.exec f (.assignElem a idx path t e p) s1 = (s2, .normal))
    (fuel : Nat) (idx' : Exprs) (q : List String) (t' : ETy) (pe pp : Pos) (is js : List Int) (A1 : RArr) (w : Val)
    (pv : Print.Value) (hi1 : AoR.Ref.evalIdx s1.env s1.arrs idx = .ok is)
    (hi2 : AoR.Ref.evalIdx s2.env s2.arrs idx' = .ok js) (hA1 : s1.arrs[a]? = some (some A1))
    (hbj : A1.inBounds js = true) (hother : js ≠ is ∨ Apart q path)
    (hr : readElem s1 a js q = some (.sc w)) (hpv : AoR.Ref.printValue w = some pv) :
    AoR.Ref.exec (fuel + 1) (.print [.expr (.elem a idx' q t' pe)] pp) s2 =
      ({ s2 with out := (s2.out.print (Print.valueText pv)).println }, .normal) := by
  obtain ⟨v, is0, A, _, hi0, _, _, _, c2, _, c4, _⟩ :=
    RbThm.AoRProps.store_changes_only_that_location f a idx path t e p s1 s2 h2
  rw [hi1] at hi0; injection hi0 with hi0; subst hi0
  obtain ⟨A2, hA2, hb2⟩ := arr_after_store h2 hA1
  have hr2 : readElem s2 a js q = some (.sc w) := by
    by_cases hj : js = is
    · subst hj
      rcases hother with h | h
      · exact absurd rfl h
      · rw [c2 q h]; exact hr
    · rw [c4 js q hj]; exact hr
  exact print_elem_shows fuel hi2 hA2 (by rw [hb2]; exact hbj) hr2 hpv

/-! ### non-vacuity

    TYPE T : N AS INTEGER : S AS STRING * 3 : END TYPE
    DIM A(1 TO 2) AS T
    A(1).N = 7
    A(2).S = "xyzzy"
    A(2).N = 2.5                              ' the store: 3 (ties away from zero) into field N of element 2
    PRINT A(1).N; A(2).N; A(2).S; A(1).S      ' the observation: every location
-/

def demoT : FFields := .cons "N" (.sc .int) (.cons "S" (.fix 3) .nil)

def el (i : Int) (f : String) (t : ETy) (c : Nat) : AoR.Expr :=
  .elem 0 (.cons (.lit (.int i) ⟨6, c + 2⟩) .nil) [f] t ⟨6, c⟩

def demoPres : List SStmt :=
  [.dimArr 0 (.udt 0) (.cons (some (.lit (.int 1) ⟨2, 7⟩)) (.lit (.int 2) ⟨2, 12⟩) .nil) ⟨2, 5⟩,
   .assignElem 0 (.cons (.lit (.int 1) ⟨3, 3⟩) .nil) ["N"] (.sc .int) (.lit (.int 7) ⟨3, 10⟩) ⟨3, 1⟩,
   .assignElem 0 (.cons (.lit (.int 2) ⟨4, 3⟩) .nil) ["S"] (.fix 3) (.lit (.str ['x', 'y', 'z', 'z', 'y']) ⟨4, 10⟩) ⟨4, 1⟩]

def demoObs : SStmt :=
  .seq (.print [.expr (el 1 "N" (.sc .int) 7), .semicolon, .expr (el 2 "N" (.sc .int) 15), .semicolon,
                .expr (el 2 "S" (.fix 3) 23), .semicolon, .expr (el 1 "S" (.fix 3) 31)] ⟨6, 1⟩) .skip

def demo : SProgram :=
  { types := [demoT], slots := [], arrs := [.udt 0],
    body := prefixed demoPres
      (.seq (.assignElem 0 (.cons (.lit (.int 2) ⟨5, 3⟩) .nil) ["N"] (.sc .int) (.lit (.sgl (5 / 2)) ⟨5, 10⟩) ⟨5, 1⟩)
        demoObs) }

/-- the hypotheses of `store_then_observe_vm` hold for the demo program: it is accepted and its reference run ends
normally, printing ` 7  3 xyz   ` and CR LF (7, then the stored 3, then the untouched `xyz` of element 2 and the three
spaces of the never-stored `A(1).S`) -/
example : AoR.progWfB demo = true ∧
    (match AoR.Ref.run 20 demo.toAst with
     | (s', .normal) => s'.out.out == [' ', '7', ' ', ' ', '3', ' ', 'x', 'y', 'z', ' ', ' ', ' ', '\r', '\n']
     | _ => false) = true := by
  constructor <;> decide +kernel

/-- hence, by `store_then_observe_vm`: the VM model running the generated code of the demo program halts, for every
sufficient budget, having printed exactly that -/
example : ∃ n υ, (∀ m, n ≤ m → Vm.run (compile demo) m (Vm.init demo.types demo.slots demo.arrs) = .halted υ) ∧
    υ.out.out = [' ', '7', ' ', ' ', '3', ' ', 'x', 'y', 'z', ' ', ' ', ' ', '\r', '\n'] := by
  have hk : (match AoR.Ref.run 20 demo.toAst with
     | (s', .normal) => s'.out.out == [' ', '7', ' ', ' ', '3', ' ', 'x', 'y', 'z', ' ', ' ', ' ', '\r', '\n']
     | _ => false) = true := by decide +kernel
  generalize hr : AoR.Ref.run 20 demo.toAst = r at hk
  obtain ⟨s3, o⟩ := r
  cases o <;> simp only [Bool.false_eq_true] at hk
  obtain ⟨f, s1, s2, v, is, A, _, _, h3, _, _, _, _, _, _, _, _, _, _, _, n, υ, hn, ho⟩ :=
    store_then_observe_vm demo demoPres demoObs 0 _ _ _ _ _ rfl (by decide +kernel) 20 s3 hr
  refine ⟨n, υ, hn, ?_⟩
  rw [ho, h3]
  simpa using hk

end RbThm.C04AoRVm
