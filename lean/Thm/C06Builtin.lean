import RbModel.BuiltinRes
import Thm.C06
/-!
C06, the route "result of a built-in function → variable".

A call of a built-in function is an expression of the function's static type, so no `Cast` precedes the
store when the target has that type: the value `set_built_in_function_result` receives is the value
stored. On the pinned tree `A$ = SPACE$(32767) + SPACE$(10) : L% = LEN(A$)` stored 32777 in an INTEGER.
After the repairs (3b0d7d8 LEN, c1cad33 INSTR, 2162ea0 VARPTR, 00f80df VARSEG, 181b08f CVD, 1b55932 VAL)
every numeric built-in hands over a value of its static type within range, or the call raises Overflow:
`builtin_result_typed`, for every argument value (strings of any length, records of any size, any offset,
any 64-bit word). `C06_builtin_store_invariant` is `C06_store_invariant` for expressions that may call
built-in functions; `bstore_ofExpr` says it is the same store step on the expressions without calls.
-/
namespace RbThm.C06Builtin
open RbModel RbModel.Num RbModel.BuiltinRes Gen.NumTables RbThm.C06

/-! ### The range-checked hand-over -/

/-- A count is handed over unchanged as an INTEGER, or the call raises Overflow: nothing else. -/
theorem countResult_cases (n : Nat) :
    (n ≤ 32767 ∧ countResult n = .ok (.int (n : Int))) ∨ (32767 < n ∧ countResult n = .err .overflow) := by
  unfold countResult
  by_cases h : n ≤ 32767
  · left
    refine ⟨h, ?_⟩
    have : inIntRange (n : Int) = true := by simp [inIntRange]; omega
    simp [Num.cast, this]
  · right
    refine ⟨by omega, ?_⟩
    have : inIntRange (n : Int) = false := by simp [inIntRange]; omega
    simp [Num.cast, this]

/-- What the hand-over lets through is the count itself, tagged INTEGER and within −32768..32767. -/
theorem countResult_sound (n : Nat) (v : Val) (h : countResult n = .ok v) :
    v = .int (n : Int) ∧ v.tag = .int ∧ v.InRange ∧ n ≤ 32767 := by
  rcases countResult_cases n with ⟨hn, hr⟩ | ⟨_, hr⟩
  · rw [hr] at h; cases h
    refine ⟨rfl, rfl, ?_, hn⟩
    show inIntRange (n : Int) = true
    simp [inIntRange]; omega
  · rw [hr] at h; cases h

/-- Overflow exactly when the count does not fit an INTEGER. -/
theorem countResult_overflow_iff (n : Nat) : countResult n = .err .overflow ↔ 32767 < n := by
  rcases countResult_cases n with ⟨hn, hr⟩ | ⟨hn, hr⟩
  · rw [hr]; constructor
    · intro h; cases h
    · intro h; omega
  · rw [hr]; exact ⟨fun _ => hn, fun _ => rfl⟩

/-- The hand-over of a count never answers `inexact` and raises no other error. -/
theorem countResult_total (n : Nat) :
    countResult n = .ok (.int (n : Int)) ∨ countResult n = .err .overflow := by
  rcases countResult_cases n with ⟨_, hr⟩ | ⟨_, hr⟩
  · exact Or.inl hr
  · exact Or.inr hr

/-- A DOUBLE built-in hands over a DOUBLE of the (finite) domain, never an infinity or a NaN. -/
theorem finiteResult_sound (x : Option Rat) (v : Val) (h : finiteResult x = .ok v) :
    v.tag = .dbl ∧ v.InRange ∧ ∃ q, x = some q ∧ v = .dbl q := by
  cases x with
  | none => cases h
  | some q =>
    simp only [finiteResult, mkDbl] at h
    split at h
    · next hq => cases h; exact ⟨rfl, hq, q, rfl, rfl⟩
    · cases h

/-- An infinity or a NaN is Overflow. -/
theorem finiteResult_nonfinite : finiteResult none = .err .overflow := rfl

/-! ### `ERR`, `PEEK`, `EOF` -/

theorem errCodes_small : ∀ c ∈ errCodes, c ≤ 260 := by decide

theorem errCode_le (k : Nat) : errCode k ≤ 260 := by
  unfold errCode
  rw [List.getD_eq_getElem?_getD]
  cases hk : errCodes[k]? with
  | none => simp
  | some c =>
    have : c ∈ errCodes := List.mem_of_getElem? hk
    simpa using errCodes_small c this

/-! ### Every numeric built-in -/

/-- **builtin_result_typed.** The value a numeric built-in function hands to the store has the
function's static type and is a value that type can hold — for all argument values: strings of any
length, records of any size, any offset `calculate_varptr` may return, any number of arrays, any 64-bit
word, any `f64` the digit loop of `VAL` may produce. (`ArgsWf`: the bounds of an array are INTEGERs.) -/
theorem builtin_result_typed (c : Call) (hc : c.ArgsWf) (v : Val) (h : c.run = .ok v) :
    v.tag = c.ty ∧ v.InRange := by
  cases c with
  | lenVal a => obtain ⟨_, h1, h2, _⟩ := countResult_sound _ v h; exact ⟨h1, h2⟩
  | lenRecord l => obtain ⟨_, h1, h2, _⟩ := countResult_sound _ v h; exact ⟨h1, h2⟩
  | instr start hay needle =>
    simp only [Call.run, BuiltinRes.instr] at h
    split at h
    · cases h; exact ⟨rfl, by decide⟩
    · split at h
      · cases h; exact ⟨rfl, by decide⟩
      · split at h
        · obtain ⟨_, h1, h2, _⟩ := countResult_sound _ v h; exact ⟨h1, h2⟩
        · cases h; exact ⟨rfl, by decide⟩
  | varptr o => obtain ⟨_, h1, h2, _⟩ := countResult_sound _ v h; exact ⟨h1, h2⟩
  | varseg e n => obtain ⟨_, h1, h2, _⟩ := countResult_sound _ v h; exact ⟨h1, h2⟩
  | lbound lo hi => simp only [Call.run] at h; cases h; exact ⟨rfl, hc.1⟩
  | ubound lo hi => simp only [Call.run] at h; cases h; exact ⟨rfl, hc.2⟩
  | eof b => simp only [Call.run] at h; cases h; cases b <;> exact ⟨rfl, by decide⟩
  | err k =>
    simp only [Call.run] at h; cases h
    refine ⟨rfl, ?_⟩
    have := errCode_le k
    show inIntRange (errCode k : Int) = true
    simp [inIntRange]; omega
  | peek b =>
    simp only [Call.run] at h; cases h
    refine ⟨rfl, ?_⟩
    have := b.isLt
    show inIntRange (b.val : Int) = true
    simp [inIntRange]; omega
  | cvd w => obtain ⟨h1, h2, _⟩ := finiteResult_sound _ v h; exact ⟨h1, h2⟩
  | val x => obtain ⟨h1, h2, _⟩ := finiteResult_sound _ v h; exact ⟨h1, h2⟩

/-- **builtin_result_or_overflow.** A call hands over a value, or raises Overflow — no other error comes
out of the hand-over, nothing is wrapped; `inexact` (no claim: a finite `f64` outside the exact domain of
the float model) only for `CVD` and `VAL`. -/
theorem builtin_result_or_overflow (c : Call) :
    (∃ v, c.run = .ok v) ∨ c.run = .err .overflow ∨ (c.run = .inexact ∧ c.ty = .dbl) := by
  have cnt : ∀ n, (∃ v, countResult n = .ok v) ∨ countResult n = .err .overflow ∨
      (countResult n = .inexact ∧ c.ty = .dbl) := fun n => by
    rcases countResult_total n with h | h
    · exact Or.inl ⟨_, h⟩
    · exact Or.inr (Or.inl h)
  have fin : ∀ x, c.ty = .dbl → ((∃ v, finiteResult x = .ok v) ∨ finiteResult x = .err .overflow ∨
      (finiteResult x = .inexact ∧ c.ty = .dbl)) := fun x hty => by
    cases x with
    | none => exact Or.inr (Or.inl rfl)
    | some q =>
      simp only [finiteResult, mkDbl]
      split
      · exact Or.inl ⟨_, rfl⟩
      · exact Or.inr (Or.inr ⟨rfl, hty⟩)
  cases c with
  | lenVal a => exact cnt _
  | lenRecord l => exact cnt _
  | instr start hay needle =>
    simp only [Call.run, BuiltinRes.instr]
    split
    · exact Or.inl ⟨_, rfl⟩
    · split
      · exact Or.inl ⟨_, rfl⟩
      · split
        · exact cnt _
        · exact Or.inl ⟨_, rfl⟩
  | varptr o => exact cnt _
  | varseg e n => exact cnt _
  | lbound lo hi => exact Or.inl ⟨_, rfl⟩
  | ubound lo hi => exact Or.inl ⟨_, rfl⟩
  | eof b => exact Or.inl ⟨_, rfl⟩
  | err k => exact Or.inl ⟨_, rfl⟩
  | peek b => exact Or.inl ⟨_, rfl⟩
  | cvd w => exact fin _ rfl
  | val x => exact fin _ rfl

/-! ### `LEN`, `INSTR`, `VARPTR`, `VARSEG`, `CVD` in particular -/

/-- `LEN(s$)` is the number of characters when that fits an INTEGER … -/
theorem len_string_ok (s : List Char) (h : s.length ≤ 32767) :
    (Call.lenVal (.str s)).run = .ok (.int (s.length : Int)) := by
  rcases countResult_cases s.length with ⟨_, hr⟩ | ⟨hn, _⟩
  · exact hr
  · omega

/-- … and Overflow exactly when the string is longer than 32767 characters (the defect: 32777 was stored). -/
theorem len_string_overflow_iff (s : List Char) :
    (Call.lenVal (.str s)).run = .err .overflow ↔ 32767 < s.length :=
  countResult_overflow_iff _

/-- `LEN` of a record: Overflow exactly when the sizes of the leaves add up to more than 32767. -/
theorem len_record_overflow_iff (l : List Val) :
    (Call.lenRecord l).run = .err .overflow ↔ 32767 < recordSize l :=
  countResult_overflow_iff _

/-- `LEN` of a numeric scalar is its size in bytes (2, 4, 4, 8). -/
theorem len_scalar (v : Val) (hv : v.tag ≠ .str) :
    (Call.lenVal v).run = .ok (.int (byteSize v : Int)) ∧ byteSize v ≤ 8 := by
  cases v with
  | str s => exact absurd rfl hv
  | int i => exact ⟨rfl, by simp [byteSize]⟩
  | long i => exact ⟨rfl, by simp [byteSize]⟩
  | sgl q => exact ⟨rfl, by simp [byteSize]⟩
  | dbl q => exact ⟨rfl, by simp [byteSize]⟩

/-- The loop of `do_instr` answers a position at or after the one it started from. -/
theorem scan_ge (needle : List Char) (rest : List Char) (i j : Nat) (h : scan needle rest i = some j) :
    i ≤ j ∧ j < i + rest.length := by
  induction rest generalizing i with
  | nil => cases h
  | cons c rest ih =>
    simp only [scan] at h
    split at h
    · cases h; simp
    · have := ih (i + 1) h
      simp only [List.length_cons]; omega

/-- The position the loop answers is one where the needle starts. -/
theorem scan_sound (needle : List Char) (rest : List Char) (i j : Nat) (h : scan needle rest i = some j) :
    needle.isPrefixOf (rest.drop (j - i)) = true := by
  induction rest generalizing i with
  | nil => cases h
  | cons c rest ih =>
    simp only [scan] at h
    split at h
    · next hp => cases h; simpa using hp
    · have h1 := ih (i + 1) h
      have h2 := scan_ge needle rest (i + 1) j h
      have : j - i = (j - (i + 1)) + 1 := by omega
      rw [this, List.drop_succ_cons]; exact h1

/-- `INSTR` hands over `do_instr`'s position through the range check. -/
theorem instr_eq_count (start : Nat) (hay needle : List Char) :
    (Call.instr start hay needle).run = countResult (instrRaw start hay needle) := by
  simp only [Call.run, BuiltinRes.instr, instrRaw]
  split
  · exact (countResult_cases 0).elim (fun h => h.2.symm) (fun h => by omega)
  · split
    · exact (countResult_cases 1).elim (fun h => h.2.symm) (fun h => by omega)
    · split
      · rfl
      · exact (countResult_cases 0).elim (fun h => h.2.symm) (fun h => by omega)

/-- `INSTR` raises Overflow exactly when the position is beyond 32767 (the defect: 32778 was stored). -/
theorem instr_overflow_iff (start : Nat) (hay needle : List Char) :
    (Call.instr start hay needle).run = .err .overflow ↔ 32767 < instrRaw start hay needle := by
  rw [instr_eq_count]; exact countResult_overflow_iff _

/-- `VARPTR` raises Overflow exactly when the offset is beyond 32767. -/
theorem varptr_overflow_iff (o : Nat) : (Call.varptr o).run = .err .overflow ↔ 32767 < o :=
  countResult_overflow_iff _

/-- `VARSEG` of an element raises Overflow exactly from the 28671st array on (4096 + 28671 + 1 = 32768). -/
theorem varseg_overflow_iff (n : Nat) : (Call.varseg true n).run = .err .overflow ↔ 28671 ≤ n := by
  show countResult (if true = true then n + 1 + varSegBase else varSegBase) = _ ↔ _
  rw [countResult_overflow_iff]; simp [varSegBase]; omega

/-- `CVD` of eight bytes that encode an infinity or a NaN (exponent field all ones) is Overflow
(the defect: `CVD(STRING$(8, 255))` stored a NaN). -/
theorem cvd_nonfinite_overflow (w : Nat) (h : Bits.f64Exponent w = 2047) :
    (Call.cvd w).run = .err .overflow := by
  simp [Call.run, f64Decode, Bits.f64IsFinite, h, finiteResult]

/-- `CVD` of a finite word hands over exactly the number the word encodes. -/
theorem cvd_finite (w : Nat) (h : Bits.f64Exponent w ≠ 2047) (v : Val) (hv : (Call.cvd w).run = .ok v) :
    v = .dbl (f64ToRat w) := by
  have hf : Bits.f64IsFinite w = true := by simp [Bits.f64IsFinite, h]
  simp only [Call.run, f64Decode, hf, if_true] at hv
  obtain ⟨_, _, q, hq, rfl⟩ := finiteResult_sound _ v hv
  cases hq; rfl

/-! ### The store invariant with built-in calls -/

/-- `eval_typed` for expressions that may call built-in functions. -/
theorem beval_typed (decl : Nat → Ty) (env : Nat → Val) (hwt : WellTyped decl env) (e : BExpr)
    (hl : e.LitsInRange) (hc : e.CallsWf) (v : Val) (h : e.eval binType env = .ok v) :
    e.ty binType decl = some v.tag ∧ v.InRange := by
  induction e generalizing v with
  | lit w => simp only [BExpr.eval] at h; cases h; exact ⟨rfl, hl⟩
  | var x => simp only [BExpr.eval] at h; cases h; exact ⟨by simp [BExpr.ty, (hwt x).1], (hwt x).2⟩
  | call c =>
    simp only [BExpr.eval] at h
    obtain ⟨h1, h2⟩ := builtin_result_typed c hc v h
    exact ⟨by simp only [BExpr.ty]; rw [h1], h2⟩
  | un op e ih =>
    cases op with
    | neg =>
      simp only [BExpr.eval] at h
      obtain ⟨a, ha, hn⟩ := bind_ok h
      obtain ⟨h1, h2⟩ := ih hl hc a ha
      obtain ⟨h3, h4⟩ := negate_typed a v h2 hn
      exact ⟨by simp only [BExpr.ty]; rw [h1, h3], h4⟩
    | not =>
      simp only [BExpr.eval] at h
      obtain ⟨a, ha, hn⟩ := bind_ok h
      obtain ⟨h1, h2⟩ := ih hl hc a ha
      obtain ⟨h3, h4⟩ := unaryNot_typed a v h2 hn
      exact ⟨by simp only [BExpr.ty]; rw [h1, h3], h4⟩
  | bin op l r ihl ihr =>
    simp only [BExpr.eval] at h
    obtain ⟨a, ha, h'⟩ := bind_ok h
    obtain ⟨b, hb, hv⟩ := bind_ok h'
    obtain ⟨la, lr⟩ := ihl hl.1 hc.1 a ha
    obtain ⟨ra, rr⟩ := ihr hl.2 hc.2 b hb
    obtain ⟨h1, h2⟩ := op_result_typed op a b v lr rr hv
    exact ⟨by simp only [BExpr.ty, la, ra]; exact h1, h2⟩

/-- **C06_builtin_store_invariant.** `C06_store_invariant` for expressions that may call built-in
functions: the store keeps "every variable holds a value of its declared type, in range", also when the
value comes straight from a built-in function and no `Cast` is emitted (`L% = LEN(A$)`), or the statement
ends in a BASIC error and nothing is stored. -/
theorem C06_builtin_store_invariant (decl : Nat → Ty) (env env' : Nat → Val) (x : Nat) (e : BExpr)
    (hwt : WellTyped decl env) (hl : e.LitsInRange) (hc : e.CallsWf)
    (h : bstore binType decl env x e = .ok env') : WellTyped decl env' := by
  unfold bstore at h
  split at h
  · cases h
  · next s hs =>
    obtain ⟨v, hv, h'⟩ := bind_ok h
    obtain ⟨w, hw, h''⟩ := bind_ok h'
    cases h''
    obtain ⟨h1, h2⟩ := beval_typed decl env hwt e hl hc v hv
    have hsv : v.tag = s := by rw [hs] at h1; exact (Option.some.inj h1).symm
    obtain ⟨h3, h4⟩ := storeCast_typed s (decl x) v w hsv h2 hw
    intro y
    by_cases hy : y = x
    · subst hy; simp only [if_true]; exact ⟨h3, h4⟩
    · simp only [hy, if_false]; exact hwt y

/-- A call stored in a variable of the call's static type: no conversion happens, the variable holds
exactly what the built-in handed over (this is why the hand-over itself has to be range-checked). -/
theorem call_stored_as_is (decl : Nat → Ty) (env env' : Nat → Val) (x : Nat) (c : Call)
    (hx : decl x = c.ty) (h : bstore binType decl env x (.call c) = .ok env') :
    c.run = .ok (env' x) := by
  simp only [bstore, BExpr.ty, BExpr.eval] at h
  obtain ⟨v, hv, h'⟩ := bind_ok h
  obtain ⟨w, hw, h''⟩ := bind_ok h'
  cases h''
  simp only [storeCast, hx, if_true] at hw
  cases hw
  simpa using hv

/-- A call that raises Overflow stores nothing: the statement ends with the error. -/
theorem call_overflow_stores_nothing (decl : Nat → Ty) (env : Nat → Val) (x : Nat) (c : Call)
    (h : c.run = .err .overflow) : bstore binType decl env x (.call c) = .err .overflow := by
  simp only [bstore, BExpr.ty, BExpr.eval, h, Res.bind]

theorem ofExpr_ty (decl : Nat → Ty) (e : Expr) : (BExpr.ofExpr e).ty binType decl = e.ty binType decl := by
  induction e with
  | lit v => rfl
  | var x => rfl
  | un op e ih => simp only [BExpr.ofExpr, BExpr.ty, Expr.ty, ih]
  | bin op l r ihl ihr => simp only [BExpr.ofExpr, BExpr.ty, Expr.ty, ihl, ihr]; rfl

theorem ofExpr_eval (env : Nat → Val) (e : Expr) : (BExpr.ofExpr e).eval binType env = e.eval binType env := by
  induction e with
  | lit v => rfl
  | var x => rfl
  | un op e ih => cases op <;> simp only [BExpr.ofExpr, BExpr.eval, Expr.eval, ih]
  | bin op l r ihl ihr => simp only [BExpr.ofExpr, BExpr.eval, Expr.eval, ihl, ihr]

/-- On the expressions without calls `bstore` is the store step of `C06_store_invariant`. -/
theorem bstore_ofExpr (decl : Nat → Ty) (env : Nat → Val) (x : Nat) (e : Expr) :
    bstore binType decl env x (.ofExpr e) = store binType decl env x e := by
  simp only [bstore, store, ofExpr_ty, ofExpr_eval]; rfl

/-- `C06_store_invariant` is the call-free case of `C06_builtin_store_invariant`. -/
theorem store_invariant_of_builtin (decl : Nat → Ty) (env env' : Nat → Val) (x : Nat) (e : Expr)
    (hwt : WellTyped decl env) (hl : e.LitsInRange)
    (h : store binType decl env x e = .ok env') : WellTyped decl env' := by
  rw [← bstore_ofExpr] at h
  refine C06_builtin_store_invariant decl env env' x (.ofExpr e) hwt ?_ ?_ h
  · clear h; induction e with
    | lit v => exact hl
    | var x => trivial
    | un op e ih => exact ih hl
    | bin op l r ihl ihr => exact ⟨ihl hl.1, ihr hl.2⟩
  · clear h hl; induction e with
    | lit v => trivial
    | var x => trivial
    | un op e ih => exact ih
    | bin op l r ihl ihr => exact ⟨ihl, ihr⟩

/-! ### The hypotheses are satisfiable; the witnesses of the defects (kernel-evaluated) -/

/-- A string of 32777 characters: `LEN` raises Overflow; of 32767: 32767. -/
example : (Call.lenVal (.str (List.replicate 32777 ' '))).run = .err .overflow ∧
    (Call.lenVal (.str (List.replicate 32767 ' '))).run = .ok (.int 32767) := by
  constructor
  · rw [len_string_overflow_iff, List.length_replicate]; omega
  · have := len_string_ok (List.replicate 32767 ' ') (by rw [List.length_replicate]; omega)
    rw [List.length_replicate] at this; exact this

/-- `L% = LEN(A$) + 1` with a three-character string stores 4 and keeps the invariant
(non-vacuity of `C06_builtin_store_invariant`). -/
example : ∃ env', bstore binType (fun _ => .int) (fun _ => .int 0) 0
      (.bin .plus (.call (.lenVal (.str ['a', 'b', 'c']))) (.lit (.int 1))) = .ok env' ∧
    env' 0 = .int 4 ∧ WellTyped (fun _ => .int) env' := by
  have hty : (BExpr.bin .plus (.call (.lenVal (.str ['a', 'b', 'c']))) (.lit (.int 1))).ty binType
      (fun _ => .int) = some .int := by decide +kernel
  have hev : (BExpr.bin .plus (.call (.lenVal (.str ['a', 'b', 'c']))) (.lit (.int 1))).eval binType
      (fun _ => .int 0) = .ok (.int 4) := by decide +kernel
  refine ⟨fun y => if y = 0 then .int 4 else .int 0, ?_, rfl, ?_⟩
  · simp [bstore, hty, hev, Res.bind, storeCast]
  · intro y; by_cases hy : y = 0 <;> simp [hy] <;> exact ⟨rfl, by decide⟩

/-- The bytes FF…FF are a NaN, 00 00 00 00 00 00 F0 7F is +infinity: Overflow; 00…00 40 is 2. -/
example : (Call.cvd (Bits.bytesToF64 [255, 255, 255, 255, 255, 255, 255, 255])).run = .err .overflow ∧
    (Call.cvd (Bits.bytesToF64 [0, 0, 0, 0, 0, 0, 240, 127])).run = .err .overflow ∧
    (Call.cvd (Bits.bytesToF64 [0, 0, 0, 0, 0, 0, 0, 64])).run = .ok (.dbl 2) := by
  refine ⟨cvd_nonfinite_overflow _ (by decide +kernel), cvd_nonfinite_overflow _ (by decide +kernel), ?_⟩
  decide +kernel

/-- `VARSEG` of an element of the 28700th array: Overflow; `ERR` after Overflow is 6; `EOF` is −1 or 0. -/
example : (Call.varseg true 28699).run = .err .overflow ∧ (Call.err 3).run = .ok (.int 6) ∧
    (Call.eof true).run = .ok (.int (-1)) := by
  refine ⟨(varseg_overflow_iff _).2 (by omega), by decide, by decide⟩

end RbThm.C06Builtin
