import Thm.C18Map
/-!
C18, part 6 — an abstract machine with ANY NUMBER OF HANDLES OPEN AT THE SAME TIME, and the refinement of the
`Files` model to it.

Abstract state = (finite map file name → bytes) × (finite map handle → (file name, mode with position /
look-ahead buffer, FIELD lists, current list)) × variables.  There are no inodes, no directory, no
`BufReader`: a handle names its file.  Operations: OPEN (INPUT / OUTPUT / APPEND / RANDOM), CLOSE of some
or of all handles, PRINT #, LINE INPUT #, INPUT #, EOF, FIELD, LSET, PUT, GET, and the printing of a variable.

* `refines_step` / `refines_run`   every step of the concrete model shows the abstract machine's observation
                                   and commutes with the abstraction relation `Abs` (forward simulation; `Abs`
                                   holds of the empty state and of every state reached from it by these operations)
* `frame_step`, `frame_interleaved`  what goes through a handle never changes what ANOTHER FILE holds, for every
                                   interleaving of operations on different handles
* `read_scans_pending`, `append_extends_pending`, `reader_sees_appended_line`
                                   reader and writer on the same file: a read returns the scan of
                                   (look-ahead buffer ++ the bytes on disk beyond the reader's offset AT THE TIME OF THE READ)
* `handles_follow_protocol`, `protocol_any_history`, `usable_iff_open`
                                   the open/close protocol for arbitrary histories (on the concrete model, all operations)

KILL and NAME are outside the abstract machine (an unlinked file lives on for the handles that have it open:
there a handle no longer has a name); so are directories in the way and names below a missing directory.
-/
namespace RbThm.C18Multi
open RbModel.Files RbThm.C18

/-! ## The abstract machine -/

inductive AMode where
  | input (pos : Nat) (buf : List Nat)
  | output (pos : Nat) (append : Bool)
  | random (recLen : Nat)
  deriving Repr, DecidableEq

/-- An open handle: the NAME of its file, the mode (with the file offset and, for readers, the look-ahead
buffer), the FIELD lists and the current one. -/
structure AHandle where
  name : Nat
  mode : AMode
  fieldLists : List (List (Nat × Nat))
  current : Option Nat
  deriving Repr, DecidableEq

structure AState where
  files : List (Nat × List Nat)
  handles : List (Nat × AHandle)
  vars : List (Nat × List Nat)
  deriving Repr, DecidableEq

def AState.empty : AState := { files := [], handles := [], vars := [] }

/-- The bytes of file `k` (nothing for a missing file). -/
def AState.content (A : AState) (k : Nat) : List Nat := (alGet A.files k).getD []

inductive MOp where
  | open (h k : Nat) (mode : Mode) (recLen : Nat)
  | close (hs : List Nat)
  | print (h : Nat) (items : List (List Nat)) (newline : Bool)
  | lineInput (h v : Nat)
  | input (h v : Nat)
  | eof (h : Nat)
  | field (h : Nat) (fields : List (Nat × Nat))
  | lset (v : Nat) (val : List Nat)
  | put (h n : Nat)
  | get (h n : Nat)
  | show (v : Nat)
  deriving Repr

/-- The operation of the `Files` model an abstract operation stands for. -/
def MOp.toOp : MOp → Op
  | .open h k m l => .open h (.plain k) m l
  | .close hs => .close hs
  | .print h items nl => .print h items nl
  | .lineInput h v => .lineInput h v
  | .input h v => .input h v
  | .eof h => .eof h
  | .field h fl => .field h fl
  | .lset v val => .lset v val
  | .put h n => .put h n
  | .get h n => .get h n
  | .show v => .show v

def newHandle (k : Nat) (m : AMode) : AHandle := { name := k, mode := m, fieldLists := [], current := none }

def mopen (A : AState) (h k : Nat) (m : Mode) (recLen : Nat) : AState × Out :=
  if !validHandle h then (A, .err .badFileNameOrNumber)
  else if (alGet A.handles h).isSome then (A, .err .fileAlreadyOpen)
  else
    match m with
    | .input =>
      match alGet A.files k with
      | none => (A, .err .fileNotFound)
      | some _ => ({ A with handles := alSet A.handles h (newHandle k (.input 0 [])) }, .ok)
    | .output =>
      ({ A with files := alSet A.files k [], handles := alSet A.handles h (newHandle k (.output 0 false)) }, .ok)
    | .append =>
      ({ A with files := alSet A.files k (A.content k), handles := alSet A.handles h (newHandle k (.output 0 true)) }, .ok)
    | .random =>
      ({ A with files := alSet A.files k [], handles := alSet A.handles h (newHandle k (.random recLen)) }, .ok)

def mclose (A : AState) (hs : List Nat) : AState × Out :=
  if !(hs.all validHandle) then (A, .err .badFileNameOrNumber)
  else if hs.isEmpty then ({ A with handles := [] }, .ok)
  else ({ A with handles := hs.foldl alDel A.handles }, .ok)

def mprint (A : AState) (h : Nat) (items : List (List Nat)) (nl : Bool) : AState × Out :=
  if !validHandle h then (A, .err .badFileNameOrNumber)
  else
    match alGet A.handles h with
    | none => (A, .err .fileNotFound)
    | some a =>
      match a.mode with
      | .output pos app =>
        let bs := printBytes items nl
        let c := A.content a.name
        ({ A with files := alSet A.files a.name (if app then c ++ bs else writeAt c pos bs),
                  handles := alSet A.handles h { a with mode := .output (if app then pos else pos + bs.length) app } }, .ok)
      | _ => (A, .err .badFileMode)

/-- One buffered read: the scan runs on the look-ahead buffer; when it asks for more, the bytes of the file
from offset `pos` to its end — as the file is NOW — are brought in first.  Result, new offset, new buffer. -/
def refill (sc : List Nat → Scan) (pos : Nat) (buf file : List Nat) : Except IoErr (List Nat) × Nat × List Nat :=
  if (sc buf).looked ≤ buf.length then ((sc buf).val, pos, (sc buf).rest)
  else ((sc (buf ++ file.drop pos)).val, pos + (file.drop pos).length, (sc (buf ++ file.drop pos)).rest)

def mscan (A : AState) (h : Nat) (sc : List Nat → Scan) : AState × Except Err (List Nat) :=
  match alGet A.handles h with
  | none => (A, .error .fileNotFound)
  | some a =>
    match a.mode with
    | .input pos buf =>
      let x := refill sc pos buf (A.content a.name)
      ({ A with handles := alSet A.handles h { a with mode := .input x.2.1 x.2.2 } },
        match x.1 with
        | .ok v => .ok v
        | .error e => .error (Err.ofIo e))
    | _ => (A, .error .badFileMode)

def mread (A : AState) (h : Nat) (sc : List Nat → Scan) (v : Nat) : AState × Out :=
  if !validHandle h then (A, .err .badFileNameOrNumber)
  else
    match mscan A h sc with
    | (A', .ok b) => ({ A' with vars := alSet A'.vars v b }, .val b)
    | (A', .error e) => (A', .err e)

def meof (A : AState) (h : Nat) : AState × Out :=
  if !validHandle h then (A, .err .badFileNameOrNumber)
  else
    match mscan A h scanEof with
    | (A', .ok b) => (A', .flag (!b.isEmpty))
    | (A', .error e) => (A', .err e)

def AHandle.recLen (a : AHandle) : Nat :=
  match a.mode with
  | .random l => l
  | _ => 0

def mfield (A : AState) (h : Nat) (fields : List (Nat × Nat)) : AState × Out :=
  if !validHandle h then (A, .err .badFileNameOrNumber)
  else if fields.any (·.1 == 0) then (A, .err .fieldOverflow)
  else
    match alGet A.handles h with
    | none => (A, .err .fileNotFound)
    | some a =>
      if 0 < a.recLen && a.recLen < sumWidths fields then (A, .err .fieldOverflow)
      else
        let a' : AHandle := { a with fieldLists := a.fieldLists ++ [fields], current := some a.fieldLists.length }
        ({ A with handles := alSet A.handles h a' }, .ok)

/-- LSET makes the first FIELD list that holds the variable, of the first handle that has one, current. -/
def amark (v : Nat) : List (Nat × AHandle) → Option (List (Nat × AHandle))
  | [] => none
  | (h, a) :: rest =>
    match findList v a.fieldLists 0 with
    | some i => some ((h, { a with current := some i }) :: rest)
    | none =>
      match amark v rest with
      | some rest' => some ((h, a) :: rest')
      | none => none

def mlset (A : AState) (v : Nat) (val : List Nat) : AState × Out :=
  match amark v A.handles with
  | none => (A, .err .other)
  | some hs => ({ A with handles := hs, vars := alSet A.vars v val }, .ok)

def arecordOf (vars : List (Nat × List Nat)) (fields : List (Nat × Nat)) : List Nat :=
  (fields.map fun f => fixLength ((alGet vars f.2).getD []) f.1).flatten

def AHandle.ensureRandom (a : AHandle) : Except Err Nat :=
  match a.mode with
  | .random l => if 0 < l then .ok l else .error .badRecordLength
  | _ => .error .badFileMode

def mput (A : AState) (h n : Nat) : AState × Out :=
  if !validHandle h then (A, .err .badFileNameOrNumber)
  else if n = 0 then (A, .err .badRecordNumber)
  else
    match alGet A.handles h with
    | none => (A, .err .fileNotFound)
    | some a =>
      match a.current.bind (fun i => a.fieldLists[i]?) with
      | none => (A, .err .badFileMode)
      | some fields =>
        match a.ensureRandom with
        | .error e => (A, .err e)
        | .ok l => ({ A with files := alSet A.files a.name (putRecord (A.content a.name) l n (arecordOf A.vars fields)) }, .ok)

def mget (A : AState) (h n : Nat) : AState × Out :=
  if !validHandle h then (A, .err .badFileNameOrNumber)
  else if n = 0 then (A, .err .badRecordNumber)
  else
    match alGet A.handles h with
    | none => (A, .err .fileNotFound)
    | some a =>
      match a.ensureRandom with
      | .error e => (A, .err e)
      | .ok l =>
        let bytes := getRecord (A.content a.name) l n
        ({ A with vars := a.fieldLists.foldl (fun vars fl => assignFields bytes fl 0 vars) A.vars }, .ok)

def mstep (A : AState) : MOp → AState × Out
  | .open h k m l => mopen A h k m l
  | .close hs => mclose A hs
  | .print h items nl => mprint A h items nl
  | .lineInput h v => mread A h scanLine v
  | .input h v => mread A h scanField v
  | .eof h => meof A h
  | .field h fl => mfield A h fl
  | .lset v val => mlset A v val
  | .put h n => mput A h n
  | .get h n => mget A h n
  | .show v => (A, .val ((alGet A.vars v).getD []))

def mrun (A : AState) : List MOp → AState × List Out
  | [] => (A, [])
  | op :: ops => ((mrun (mstep A op).1 ops).1, (mstep A op).2 :: (mrun (mstep A op).1 ops).2)

/-! ## The abstraction relation -/

/-- The inode a handle refers to (`none` = a directory opened FOR INPUT). -/
def kindIno : Kind → Option Nat
  | .input r => r.src
  | .output w => some w.ino
  | .random i _ => some i

def absMode : Kind → AMode
  | .input r => .input r.pos r.buf
  | .output w => .output w.pos w.append
  | .random _ l => .random l

def absInfo (k : Nat) (fi : FileInfo) : AHandle :=
  { name := k, mode := absMode fi.kind, fieldLists := fi.fieldLists, current := fi.current }

/-- The abstract handle `a` is the concrete `fi` with the inode replaced by a name that points to it. -/
def IRel (dir : List (Nat × Node)) (fi : FileInfo) (a : AHandle) : Prop :=
  ∃ k i, a = absInfo k fi ∧ kindIno fi.kind = some i ∧ alGet dir k = some (.file i)

/-- The handle tables correspond entry by entry, in the same order (LSET walks the table in order). -/
def HRel (dir : List (Nat × Node)) : List (Nat × FileInfo) → List (Nat × AHandle) → Prop
  | [], [] => True
  | (h, fi) :: r, (h', a) :: r' => h = h' ∧ IRel dir fi a ∧ HRel dir r r'
  | _, _ => False

def nodeData (fs : Fs) : Node → Option (List Nat)
  | .file i => some (fs.data i)
  | .dir => none

/-- What the file named `k` holds in a state of the `Files` model. -/
def fileBytes (s : State) (k : Nat) : Option (List Nat) := (alGet s.fs.dir k).bind (nodeData s.fs)

/-- **The abstraction relation.**  The store is well formed (names point to existing, pairwise different
inodes) and has no directories; the abstract files are what the names hold; the handle tables correspond;
the variables are the same. -/
structure Abs (s : State) (A : AState) : Prop where
  wf : StoreWf s.fs
  nodir : ∀ k, alGet s.fs.dir k ≠ some .dir
  files : ∀ k, alGet A.files k = fileBytes s k
  handles : HRel s.fs.dir s.handles A.handles
  vars : A.vars = s.vars

/-! ### Handle tables -/

theorem HRel.get {dir : List (Nat × Node)} {hs : List (Nat × FileInfo)} {as : List (Nat × AHandle)}
    (hr : HRel dir hs as) (h : Nat) :
    (alGet hs h = none ∧ alGet as h = none) ∨
      ∃ fi a, alGet hs h = some fi ∧ alGet as h = some a ∧ IRel dir fi a := by
  induction hs generalizing as with
  | nil =>
    cases as with
    | nil => exact Or.inl ⟨rfl, rfl⟩
    | cons _ _ => exact absurd hr (by simp [HRel])
  | cons p r ih =>
    obtain ⟨h1, fi⟩ := p
    cases as with
    | nil => exact absurd hr (by simp [HRel])
    | cons q r' =>
      obtain ⟨h2, a⟩ := q
      obtain ⟨he, hi, hr'⟩ := hr
      subst he
      by_cases hh : h1 = h
      · exact Or.inr ⟨fi, a, by simp [alGet, hh], by simp [alGet, hh], hi⟩
      · simpa [alGet, hh] using ih hr'

theorem HRel.set {dir : List (Nat × Node)} {hs : List (Nat × FileInfo)} {as : List (Nat × AHandle)}
    (hr : HRel dir hs as) (h : Nat) (fi : FileInfo) (a : AHandle) (hi : IRel dir fi a) :
    HRel dir (alSet hs h fi) (alSet as h a) := by
  induction hs generalizing as with
  | nil =>
    cases as with
    | nil => exact ⟨rfl, hi, trivial⟩
    | cons _ _ => exact absurd hr (by simp [HRel])
  | cons p r ih =>
    obtain ⟨h1, fi1⟩ := p
    cases as with
    | nil => exact absurd hr (by simp [HRel])
    | cons q r' =>
      obtain ⟨h2, a1⟩ := q
      obtain ⟨he, hi1, hr'⟩ := hr
      subst he
      by_cases hh : h1 = h
      · simp only [alSet, hh, ↓reduceIte]
        exact ⟨rfl, hi, hr'⟩
      · simp only [alSet, hh, ↓reduceIte]
        exact ⟨rfl, hi1, ih hr'⟩

theorem HRel.del {dir : List (Nat × Node)} {hs : List (Nat × FileInfo)} {as : List (Nat × AHandle)}
    (hr : HRel dir hs as) (h : Nat) : HRel dir (alDel hs h) (alDel as h) := by
  induction hs generalizing as with
  | nil =>
    cases as with
    | nil => exact trivial
    | cons _ _ => exact absurd hr (by simp [HRel])
  | cons p r ih =>
    obtain ⟨h1, fi1⟩ := p
    cases as with
    | nil => exact absurd hr (by simp [HRel])
    | cons q r' =>
      obtain ⟨h2, a1⟩ := q
      obtain ⟨he, hi1, hr'⟩ := hr
      subst he
      by_cases hh : h1 = h
      · simp only [alDel, hh, ↓reduceIte]
        exact ih hr'
      · simp only [alDel, hh, ↓reduceIte]
        exact ⟨rfl, hi1, ih hr'⟩

theorem HRel.delAll {dir : List (Nat × Node)} (hl : List Nat) {hs : List (Nat × FileInfo)} {as : List (Nat × AHandle)}
    (hr : HRel dir hs as) : HRel dir (hl.foldl alDel hs) (hl.foldl alDel as) := by
  induction hl generalizing hs as with
  | nil => exact hr
  | cons h rest ih => exact ih (hr.del h)

theorem IRel.mono {dir dir' : List (Nat × Node)} {fi : FileInfo} {a : AHandle}
    (hm : ∀ k i, alGet dir k = some (.file i) → alGet dir' k = some (.file i)) (hi : IRel dir fi a) :
    IRel dir' fi a := by
  obtain ⟨k, i, h1, h2, h3⟩ := hi
  exact ⟨k, i, h1, h2, hm _ _ h3⟩

theorem HRel.mono {dir dir' : List (Nat × Node)} {hs : List (Nat × FileInfo)} {as : List (Nat × AHandle)}
    (hm : ∀ k i, alGet dir k = some (.file i) → alGet dir' k = some (.file i)) (hr : HRel dir hs as) :
    HRel dir' hs as := by
  induction hs generalizing as with
  | nil =>
    cases as with
    | nil => exact trivial
    | cons _ _ => exact absurd hr (by simp [HRel])
  | cons p r ih =>
    obtain ⟨h1, fi1⟩ := p
    cases as with
    | nil => exact absurd hr (by simp [HRel])
    | cons q r' =>
      obtain ⟨h2, a1⟩ := q
      obtain ⟨he, hi1, hr'⟩ := hr
      exact ⟨he, hi1.mono hm, ih hr'⟩

/-- LSET's walk over the handle table commutes with the abstraction. -/
theorem HRel.mark {dir : List (Nat × Node)} {hs : List (Nat × FileInfo)} {as : List (Nat × AHandle)}
    (hr : HRel dir hs as) (v : Nat) :
    (markCurrent v hs = none ∧ amark v as = none) ∨
      ∃ hs' as', markCurrent v hs = some hs' ∧ amark v as = some as' ∧ HRel dir hs' as' := by
  induction hs generalizing as with
  | nil =>
    cases as with
    | nil => exact Or.inl ⟨rfl, rfl⟩
    | cons _ _ => exact absurd hr (by simp [HRel])
  | cons p r ih =>
    obtain ⟨h1, fi1⟩ := p
    cases as with
    | nil => exact absurd hr (by simp [HRel])
    | cons q r' =>
      obtain ⟨h2, a1⟩ := q
      obtain ⟨he, hi1, hr'⟩ := hr
      subst he
      have hi1' := hi1
      obtain ⟨k, i, e1, e2, e3⟩ := hi1'
      have hfl : a1.fieldLists = fi1.fieldLists := by rw [e1]; rfl
      simp only [markCurrent, amark, hfl]
      cases hf : findList v fi1.fieldLists 0 with
      | some idx =>
        refine Or.inr ⟨_, _, rfl, rfl, rfl, ⟨k, i, ?_, e2, e3⟩, hr'⟩
        rw [e1]
        rfl
      | none =>
        rcases ih hr' with ⟨e1, e2⟩ | ⟨hs', as', e1, e2, e3⟩
        · exact Or.inl (by simp [e1, e2])
        · exact Or.inr ⟨(h1, fi1) :: hs', (h1, a1) :: as', by simp [e1], by simp [e2], rfl, hi1, e3⟩

/-! ### Building `Abs` for the changed state -/

theorem Abs.setHandle {s : State} {A : AState} (hR : Abs s A) (h : Nat) (fi : FileInfo) (a : AHandle)
    (hi : IRel s.fs.dir fi a) : Abs (setInfo s h fi) { A with handles := alSet A.handles h a } :=
  ⟨hR.wf, hR.nodir, hR.files, hR.handles.set h fi a hi, hR.vars⟩

theorem Abs.setHandles {s : State} {A : AState} (hR : Abs s A) (hs : List (Nat × FileInfo))
    (as : List (Nat × AHandle)) (hh : HRel s.fs.dir hs as) :
    Abs { s with handles := hs } { A with handles := as } :=
  ⟨hR.wf, hR.nodir, hR.files, hh, hR.vars⟩

theorem Abs.setVars {s : State} {A : AState} (hR : Abs s A) (vs : List (Nat × List Nat)) :
    Abs { s with vars := vs } { A with vars := vs } :=
  ⟨hR.wf, hR.nodir, hR.files, hR.handles, rfl⟩

/-- Only the lookups of the abstract file map matter. -/
theorem Abs.sameFiles {s : State} {A : AState} (hR : Abs s A) (F : List (Nat × List Nat))
    (hF : ∀ k, alGet F k = alGet A.files k) : Abs s { A with files := F } :=
  ⟨hR.wf, hR.nodir, fun k => by rw [← hR.files k]; exact hF k, hR.handles, hR.vars⟩

theorem Abs.content {s : State} {A : AState} (hR : Abs s A) (k i : Nat) (hk : alGet s.fs.dir k = some (.file i)) :
    A.content k = s.fs.data i := by
  simp [AState.content, hR.files k, fileBytes, hk, nodeData]

/-- Replacing the bytes of the inode that `k` names = updating the abstract file `k`. -/
theorem Abs.write {s : State} {A : AState} (hR : Abs s A) (k i : Nat) (hk : alGet s.fs.dir k = some (.file i))
    (b : List Nat) : Abs { s with fs := s.fs.setData i b } { A with files := alSet A.files k b } := by
  have hi : i < s.fs.inodes.length := hR.wf.1 k i hk
  refine ⟨⟨?_, ?_⟩, hR.nodir, ?_, hR.handles, hR.vars⟩
  · intro k' j hk'
    have := hR.wf.1 k' j hk'
    simpa [Fs.setData] using this
  · exact hR.wf.2
  · intro k'
    by_cases hkk : k' = k
    · subst hkk
      simp only [alGet_alSet_same, fileBytes]
      have : alGet (s.fs.setData i b).dir k' = some (.file i) := hk
      rw [this]
      simp [nodeData, data_setData _ _ _ hi]
    · simp only [alGet_alSet_ne _ _ _ _ hkk, fileBytes]
      rw [hR.files k']
      simp only [fileBytes]
      have hd : (s.fs.setData i b).dir = s.fs.dir := rfl
      rw [hd]
      cases hd' : alGet s.fs.dir k' with
      | none => rfl
      | some node =>
        cases node with
        | dir => rfl
        | file j =>
          have hne : j ≠ i := fun hji => hkk (hR.wf.2 k' k j hd' (hji ▸ hk))
          simp [nodeData, data_setData_ne _ _ _ _ hne]

/-- A new, empty inode under a name that was not bound = a new empty abstract file. -/
theorem Abs.create {s : State} {A : AState} (hR : Abs s A) (k : Nat) (hk : alGet s.fs.dir k = none) :
    Abs { s with fs := { inodes := s.fs.inodes ++ [[]], dir := alSet s.fs.dir k (.file s.fs.inodes.length) } }
      { A with files := alSet A.files k [] } := by
  obtain ⟨hW1, hW2⟩ := hR.wf
  refine ⟨⟨?_, ?_⟩, ?_, ?_, ?_, hR.vars⟩
  · intro k' j hk'
    simp only [List.length_append, List.length_cons, List.length_nil]
    by_cases hkk : k' = k
    · subst hkk
      simp only [alGet_alSet_same, Option.some.injEq, Node.file.injEq] at hk'
      omega
    · simp only [alGet_alSet_ne _ _ _ _ hkk] at hk'
      have := hW1 k' j hk'
      omega
  · intro k1 k2 j h1 h2
    by_cases hk1 : k1 = k <;> by_cases hk2 : k2 = k
    · rw [hk1, hk2]
    · exfalso
      subst hk1
      simp only [alGet_alSet_same, Option.some.injEq, Node.file.injEq] at h1
      simp only [alGet_alSet_ne _ _ _ _ hk2] at h2
      have := hW1 k2 j h2
      omega
    · exfalso
      subst hk2
      simp only [alGet_alSet_same, Option.some.injEq, Node.file.injEq] at h2
      simp only [alGet_alSet_ne _ _ _ _ hk1] at h1
      have := hW1 k1 j h1
      omega
    · simp only [alGet_alSet_ne _ _ _ _ hk1] at h1
      simp only [alGet_alSet_ne _ _ _ _ hk2] at h2
      exact hW2 k1 k2 j h1 h2
  · intro k'
    by_cases hkk : k' = k
    · subst hkk
      simp [alGet_alSet_same]
    · simp only [alGet_alSet_ne _ _ _ _ hkk]
      exact hR.nodir k'
  · intro k'
    by_cases hkk : k' = k
    · subst hkk
      simp [alGet_alSet_same, fileBytes, nodeData, Fs.data]
    · simp only [alGet_alSet_ne _ _ _ _ hkk, fileBytes]
      rw [hR.files k']
      simp only [fileBytes]
      cases hd' : alGet s.fs.dir k' with
      | none => rfl
      | some node =>
        cases node with
        | dir => rfl
        | file j =>
          have := hW1 k' j hd'
          simp [nodeData, Fs.data, List.getD_eq_getElem?_getD, List.getElem?_append_left this]
  · refine hR.handles.mono ?_
    intro k' i hk'
    have hkk : k' ≠ k := fun e => by rw [e, hk] at hk'; exact absurd hk' (by simp)
    simp only [alGet_alSet_ne _ _ _ _ hkk]
    exact hk'

/-! ### The buffered read -/

theorem scan_eq_refill (sc : List Nat → Scan) (r : Reader) (file : List Nat) :
    r.scan sc file = ((refill sc r.pos r.buf file).1,
      { r with pos := (refill sc r.pos r.buf file).2.1, buf := (refill sc r.pos r.buf file).2.2 }) := by
  unfold Reader.scan refill
  simp only
  split <;> rfl

/-! ## Refinement, operation by operation -/

theorem refines_open (s : State) (A : AState) (hR : Abs s A) (h k : Nat) (m : Mode) (l : Nat) :
    (doOpen s h (.plain k) m l).2 = (mopen A h k m l).2 ∧ Abs (doOpen s h (.plain k) m l).1 (mopen A h k m l).1 := by
  unfold doOpen mopen
  cases hv : validHandle h
  · simp only [Bool.not_false, ↓reduceIte]; exact ⟨(by first | rfl | trivial), hR⟩
  simp only [Bool.not_true, Bool.false_eq_true, ↓reduceIte]
  rcases hR.handles.get h with ⟨e1, e2⟩ | ⟨fi, a, e1, e2, _⟩
  rotate_left
  · simp only [e1, e2, Option.isSome_some, ↓reduceIte]; exact ⟨(by first | rfl | trivial), hR⟩
  simp only [e1, e2, Option.isSome_none, Bool.false_eq_true, ↓reduceIte]
  have hfk := hR.files k
  cases hd : alGet s.fs.dir k with
  | none =>
    have hfn : alGet A.files k = none := by rw [hfk]; simp [fileBytes, hd]
    have hcn : A.content k = [] := by simp [AState.content, hfn]
    cases m with
    | input => simp only [Fs.openRead, Fs.resolve, hd, hfn, Err.ofIo]; exact ⟨(by first | rfl | trivial), hR⟩
    | output =>
      simp only [Fs.openCreate, Fs.resolve, hd]
      exact ⟨(by first | rfl | trivial), (hR.create k hd).setHandle h _ _ ⟨k, s.fs.inodes.length, rfl, rfl, alGet_alSet_same _ _ _⟩⟩
    | append =>
      simp only [Fs.openCreate, Fs.resolve, hd, hcn]
      exact ⟨(by first | rfl | trivial), (hR.create k hd).setHandle h _ _ ⟨k, s.fs.inodes.length, rfl, rfl, alGet_alSet_same _ _ _⟩⟩
    | random =>
      simp only [Fs.openCreate, Fs.resolve, hd]
      exact ⟨(by first | rfl | trivial), (hR.create k hd).setHandle h _ _ ⟨k, s.fs.inodes.length, rfl, rfl, alGet_alSet_same _ _ _⟩⟩
  | some node =>
    cases node with
    | dir => exact absurd hd (hR.nodir k)
    | file i =>
      have hfs : alGet A.files k = some (s.fs.data i) := by rw [hfk]; simp [fileBytes, hd, nodeData]
      cases m with
      | input =>
        simp only [Fs.openRead, Fs.resolve, hd, hfs]
        exact ⟨(by first | rfl | trivial), hR.setHandle h _ _ ⟨k, i, rfl, rfl, hd⟩⟩
      | output =>
        simp only [Fs.openCreate, Fs.resolve, hd, ↓reduceIte]
        exact ⟨(by first | rfl | trivial), (hR.write k i hd []).setHandle h _ _ ⟨k, i, rfl, rfl, hd⟩⟩
      | append =>
        simp only [Fs.openCreate, Fs.resolve, hd, Bool.false_eq_true, ↓reduceIte]
        refine ⟨(by first | rfl | trivial), (hR.sameFiles (alSet A.files k (A.content k)) ?_).setHandle h _ _ ⟨k, i, rfl, rfl, hd⟩⟩
        intro k'
        by_cases hkk : k' = k
        · subst hkk
          simp [alGet_alSet_same, AState.content, hfs]
        · exact alGet_alSet_ne _ _ _ _ hkk
      | random =>
        simp only [Fs.openCreate, Fs.resolve, hd, ↓reduceIte]
        exact ⟨(by first | rfl | trivial), (hR.write k i hd []).setHandle h _ _ ⟨k, i, rfl, rfl, hd⟩⟩

theorem refines_close (s : State) (A : AState) (hR : Abs s A) (hs : List Nat) :
    (doClose s hs).2 = (mclose A hs).2 ∧ Abs (doClose s hs).1 (mclose A hs).1 := by
  unfold doClose mclose
  split
  · exact ⟨(by first | rfl | trivial), hR⟩
  · split
    · exact ⟨(by first | rfl | trivial), hR.setHandles [] [] trivial⟩
    · exact ⟨(by first | rfl | trivial), hR.setHandles _ _ (hR.handles.delAll hs)⟩

theorem refines_print (s : State) (A : AState) (hR : Abs s A) (h : Nat) (items : List (List Nat)) (nl : Bool) :
    (step s (.print h items nl)).2 = (mprint A h items nl).2 ∧
      Abs (step s (.print h items nl)).1 (mprint A h items nl).1 := by
  unfold mprint
  simp only [step]
  cases hv : validHandle h
  · simp only [Bool.not_false, ↓reduceIte]; exact ⟨(by first | rfl | trivial), hR⟩
  simp only [Bool.not_true, Bool.false_eq_true, ↓reduceIte, doPrint, getWriter, getInfo]
  rcases hR.handles.get h with ⟨e1, e2⟩ | ⟨fi, a, e1, e2, k, i, rfl, hi, hk⟩
  · simp only [e1, e2]; exact ⟨(by first | rfl | trivial), hR⟩
  simp only [e1, e2]
  cases hkind : fi.kind with
  | input r => simp only [absInfo, hkind, absMode]; exact ⟨(by first | rfl | trivial), hR⟩
  | random j l => simp only [absInfo, hkind, absMode]; exact ⟨(by first | rfl | trivial), hR⟩
  | output w =>
    simp only [hkind, kindIno, Option.some.injEq] at hi
    simp only [absInfo, hkind, absMode, hR.content k i hk, hi, Writer.write]
    cases happ : w.append
    · simp only [Bool.false_eq_true, ↓reduceIte]
      exact ⟨(by first | rfl | trivial), (hR.write k i hk _).setHandle h _ _ ⟨k, i, rfl, by simp [kindIno], hk⟩⟩
    · simp only [↓reduceIte]
      refine ⟨(by first | rfl | trivial), ?_⟩
      have := (hR.write k i hk (s.fs.data i ++ printBytes items nl)).setHandle h { fi with kind := .output w }
        (absInfo k { fi with kind := .output w }) ⟨k, i, rfl, by simp [kindIno, hi], hk⟩
      simpa [absInfo, absMode, happ] using this

theorem refines_scan (s : State) (A : AState) (hR : Abs s A) (h : Nat) (sc : List Nat → Scan) :
    (doScan s h sc).2 = (mscan A h sc).2 ∧ Abs (doScan s h sc).1 (mscan A h sc).1 := by
  unfold doScan mscan getReader getInfo
  rcases hR.handles.get h with ⟨e1, e2⟩ | ⟨fi, a, e1, e2, k, i, rfl, hi, hk⟩
  · simp only [e1, e2]; exact ⟨(by first | rfl | trivial), hR⟩
  simp only [e1, e2]
  cases hkind : fi.kind with
  | output w => simp only [absInfo, hkind, absMode]; exact ⟨(by first | rfl | trivial), hR⟩
  | random j l => simp only [absInfo, hkind, absMode]; exact ⟨(by first | rfl | trivial), hR⟩
  | input r =>
    simp only [hkind, kindIno] at hi
    simp only [absInfo, hkind, absMode, hi, hR.content k i hk, scan_eq_refill]
    exact ⟨(by first | rfl | trivial), hR.setHandle h _ _ ⟨k, i, rfl, by simp [kindIno], hk⟩⟩

theorem refines_read (s : State) (A : AState) (hR : Abs s A) (h v : Nat) (sc : List Nat → Scan) :
    (doRead s h sc v).2 = (mread A h sc v).2 ∧ Abs (doRead s h sc v).1 (mread A h sc v).1 := by
  unfold doRead mread
  split
  · exact ⟨(by first | rfl | trivial), hR⟩
  · have hs := refines_scan s A hR h sc
    generalize doScan s h sc = x at hs
    generalize mscan A h sc = y at hs
    obtain ⟨s', r1⟩ := x
    obtain ⟨A', r2⟩ := y
    simp only at hs
    obtain ⟨h1, h2⟩ := hs
    subst h1
    cases r1 with
    | ok b =>
      refine ⟨(by first | rfl | trivial), ?_⟩
      have := h2.setVars (alSet s'.vars v b)
      simpa [State.setVar, h2.vars] using this
    | error e => exact ⟨(by first | rfl | trivial), h2⟩

theorem refines_eof (s : State) (A : AState) (hR : Abs s A) (h : Nat) :
    (doEof s h).2 = (meof A h).2 ∧ Abs (doEof s h).1 (meof A h).1 := by
  unfold doEof meof
  split
  · exact ⟨(by first | rfl | trivial), hR⟩
  · have hs := refines_scan s A hR h scanEof
    generalize doScan s h scanEof = x at hs
    generalize mscan A h scanEof = y at hs
    obtain ⟨s', r1⟩ := x
    obtain ⟨A', r2⟩ := y
    simp only at hs
    obtain ⟨h1, h2⟩ := hs
    subst h1
    cases r1 with
    | ok b => exact ⟨(by first | rfl | trivial), h2⟩
    | error e => exact ⟨(by first | rfl | trivial), h2⟩

theorem absInfo_recLen (k : Nat) (fi : FileInfo) : (absInfo k fi).recLen = fi.recLen := by
  unfold AHandle.recLen FileInfo.recLen absInfo
  cases fi.kind <;> rfl

theorem refines_field (s : State) (A : AState) (hR : Abs s A) (h : Nat) (fields : List (Nat × Nat)) :
    (doField s h fields).2 = (mfield A h fields).2 ∧ Abs (doField s h fields).1 (mfield A h fields).1 := by
  unfold doField mfield getInfo
  split
  · exact ⟨(by first | rfl | trivial), hR⟩
  split
  · exact ⟨(by first | rfl | trivial), hR⟩
  rcases hR.handles.get h with ⟨e1, e2⟩ | ⟨fi, a, e1, e2, k, i, rfl, hi, hk⟩
  · simp only [e1, e2]; exact ⟨(by first | rfl | trivial), hR⟩
  simp only [e1, e2, absInfo_recLen]
  split
  · exact ⟨(by first | rfl | trivial), hR⟩
  · exact ⟨(by first | rfl | trivial), hR.setHandle h _ _ ⟨k, i, rfl, hi, hk⟩⟩

theorem refines_lset (s : State) (A : AState) (hR : Abs s A) (v : Nat) (val : List Nat) :
    (doLset s v val).2 = (mlset A v val).2 ∧ Abs (doLset s v val).1 (mlset A v val).1 := by
  unfold doLset mlset
  rcases hR.handles.mark v with ⟨e1, e2⟩ | ⟨hs', as', e1, e2, e3⟩
  · simp only [e1, e2]; exact ⟨(by first | rfl | trivial), hR⟩
  · simp only [e1, e2]
    refine ⟨(by first | rfl | trivial), ?_⟩
    have := (hR.setHandles hs' as' e3).setVars (alSet s.vars v val)
    simpa [State.setVar, hR.vars] using this

theorem arecordOf_eq (s : State) (fields : List (Nat × Nat)) : arecordOf s.vars fields = recordOf s fields := rfl

theorem absInfo_ensureRandom (k : Nat) (fi : FileInfo) :
    (absInfo k fi).ensureRandom = match ensureRandom fi with
      | .ok (_, l) => .ok l
      | .error e => .error e := by
  unfold AHandle.ensureRandom ensureRandom absInfo
  cases fi.kind with
  | input r => rfl
  | output w => rfl
  | random j l => simp only [absMode]; split <;> rfl

theorem ensureRandom_ino (fi : FileInfo) (i j l : Nat) (hi : kindIno fi.kind = some i)
    (he : ensureRandom fi = .ok (j, l)) : j = i := by
  unfold ensureRandom at he
  cases hk : fi.kind with
  | input r => simp [hk] at he
  | output w => simp [hk] at he
  | random j' l' =>
    simp only [hk] at he hi
    split at he
    · simp only [Except.ok.injEq, Prod.mk.injEq] at he
      simp only [kindIno, Option.some.injEq] at hi
      omega
    · simp at he

theorem refines_put (s : State) (A : AState) (hR : Abs s A) (h n : Nat) :
    (doPut s h n).2 = (mput A h n).2 ∧ Abs (doPut s h n).1 (mput A h n).1 := by
  unfold doPut mput getInfo
  split
  · exact ⟨(by first | rfl | trivial), hR⟩
  split
  · exact ⟨(by first | rfl | trivial), hR⟩
  rcases hR.handles.get h with ⟨e1, e2⟩ | ⟨fi, a, e1, e2, k, i, rfl, hi, hk⟩
  · simp only [e1, e2]; exact ⟨(by first | rfl | trivial), hR⟩
  simp only [e1, e2]
  have hb : (absInfo k fi).current.bind (fun i => (absInfo k fi).fieldLists[i]?)
      = fi.current.bind (fun i => fi.fieldLists[i]?) := rfl
  rw [hb]
  cases fi.current.bind (fun i => fi.fieldLists[i]?) with
  | none => exact ⟨(by first | rfl | trivial), hR⟩
  | some fields =>
    simp only [absInfo_ensureRandom]
    cases he : ensureRandom fi with
    | error e => exact ⟨(by first | rfl | trivial), hR⟩
    | ok p =>
      obtain ⟨j, l⟩ := p
      have hj := ensureRandom_ino fi i j l hi he
      subst hj
      have hrec : arecordOf A.vars fields = recordOf s fields := by rw [hR.vars]; rfl
      simp only [hrec, show (absInfo k fi).name = k from rfl, hR.content k j hk]
      exact ⟨(by first | rfl | trivial), hR.write k j hk _⟩

theorem refines_get (s : State) (A : AState) (hR : Abs s A) (h n : Nat) :
    (doGet s h n).2 = (mget A h n).2 ∧ Abs (doGet s h n).1 (mget A h n).1 := by
  unfold doGet mget getInfo
  split
  · exact ⟨(by first | rfl | trivial), hR⟩
  split
  · exact ⟨(by first | rfl | trivial), hR⟩
  rcases hR.handles.get h with ⟨e1, e2⟩ | ⟨fi, a, e1, e2, k, i, rfl, hi, hk⟩
  · simp only [e1, e2]; exact ⟨(by first | rfl | trivial), hR⟩
  simp only [e1, e2, absInfo_ensureRandom]
  cases he : ensureRandom fi with
  | error e => exact ⟨(by first | rfl | trivial), hR⟩
  | ok p =>
    obtain ⟨j, l⟩ := p
    have hj := ensureRandom_ino fi i j l hi he
    subst hj
    simp only [hR.vars, show (absInfo k fi).name = k from rfl, show (absInfo k fi).fieldLists = fi.fieldLists from rfl,
      hR.content k j hk]
    exact ⟨(by first | rfl | trivial), hR.setVars _⟩

/-- **Every step of the `Files` model shows the abstract machine's observation and commutes with the
abstraction.** -/
theorem refines_step (s : State) (A : AState) (op : MOp) (hR : Abs s A) :
    (step s op.toOp).2 = (mstep A op).2 ∧ Abs (step s op.toOp).1 (mstep A op).1 := by
  cases op with
  | «open» h k m l => exact refines_open s A hR h k m l
  | close hs => exact refines_close s A hR hs
  | print h items nl => exact refines_print s A hR h items nl
  | lineInput h v => exact refines_read s A hR h v scanLine
  | input h v => exact refines_read s A hR h v scanField
  | eof h => exact refines_eof s A hR h
  | field h fl => exact refines_field s A hR h fl
  | lset v val => exact refines_lset s A hR v val
  | put h n => exact refines_put s A hR h n
  | get h n => exact refines_get s A hR h n
  | «show» v => exact ⟨by simp [MOp.toOp, step, mstep, State.var, hR.vars], hR⟩

/-- **Refinement for histories with any number of handles open at the same time.** -/
theorem refines_run (ops : List MOp) (s : State) (A : AState) (hR : Abs s A) :
    (run s (ops.map MOp.toOp)).2 = (mrun A ops).2 ∧ Abs (run s (ops.map MOp.toOp)).1 (mrun A ops).1 := by
  induction ops generalizing s A with
  | nil => exact ⟨rfl, hR⟩
  | cons op rest ih =>
    obtain ⟨h1, h2⟩ := refines_step s A op hR
    obtain ⟨g1, g2⟩ := ih _ _ h2
    simp only [List.map_cons, run, mrun]
    exact ⟨by rw [h1, g1], g2⟩

/-- The empty state implements the empty abstract state. -/
theorem abs_empty : Abs emptyState AState.empty :=
  ⟨⟨fun _ _ h => by simp [emptyState, alGet] at h, fun _ _ _ h => by simp [emptyState, alGet] at h⟩,
    fun _ h => by simp [emptyState, alGet] at h, fun _ => rfl, trivial, rfl⟩

theorem mrun_append (A : AState) (a b : List MOp) :
    mrun A (a ++ b) = ((mrun (mrun A a).1 b).1, (mrun A a).2 ++ (mrun (mrun A a).1 b).2) := by
  induction a generalizing A with
  | nil => simp [mrun]
  | cons op ops ih => simp [mrun, ih]

/-! ## Frame: what goes through one handle never changes what another FILE holds -/

def AHandle.isReader (a : AHandle) : Bool :=
  match a.mode with
  | .input _ _ => true
  | _ => false

/-- Every handle that is open for writing (OUTPUT / APPEND / RANDOM) on file `k` belongs to `P`. -/
def Sep (A : AState) (P : Nat → Prop) (k : Nat) : Prop :=
  ∀ h a, alGet A.handles h = some a → a.name = k → a.isReader = false → P h

/-- The operation does not write file `k` on behalf of `P`: it is not a PRINT # / PUT through a handle of `P`,
and not an OPEN of `k` for writing.  (Everything that only reads — through whatever handle — qualifies.) -/
def Foreign (P : Nat → Prop) (k : Nat) : MOp → Prop
  | .open h k' m _ => ¬ P h ∧ (k' ≠ k ∨ m = .input)
  | .print h _ _ => ¬ P h
  | .put h _ => ¬ P h
  | _ => True

/-- File `k` is opened for writing only through handles of `P`. -/
def Respects (P : Nat → Prop) (k : Nat) : MOp → Prop
  | .open h k' m _ => k' = k → m ≠ .input → P h
  | _ => True

theorem Foreign.respects {P : Nat → Prop} {k : Nat} {op : MOp} (hf : Foreign P k op) : Respects P k op := by
  cases op <;> try trivial
  rename_i h k' m l
  intro hk hm
  rcases hf.2 with h1 | h1
  · exact absurd hk h1
  · exact absurd h1 hm

/-- Name and reader / writer role of a handle. -/
def sig (a : AHandle) : Nat × Bool := (a.name, a.isReader)

theorem amark_sig (v : Nat) (hs hs' : List (Nat × AHandle)) (hm : amark v hs = some hs') (h : Nat) :
    (alGet hs' h).map sig = (alGet hs h).map sig := by
  induction hs generalizing hs' with
  | nil => simp [amark] at hm
  | cons p rest ih =>
    obtain ⟨k, a⟩ := p
    simp only [amark] at hm
    split at hm
    · simp only [Option.some.injEq] at hm
      subst hm
      simp only [alGet]
      split <;> rfl
    · split at hm
      · rename_i rest' hrest
        simp only [Option.some.injEq] at hm
        subst hm
        simp only [alGet]
        split
        · rfl
        · exact ih rest' hrest
      · simp at hm

theorem mscan_files (A : AState) (h : Nat) (sc : List Nat → Scan) : (mscan A h sc).1.files = A.files := by
  unfold mscan
  split
  · rfl
  · split <;> rfl

theorem mscan_vars (A : AState) (h : Nat) (sc : List Nat → Scan) : (mscan A h sc).1.vars = A.vars := by
  unfold mscan
  split
  · rfl
  · split <;> rfl

theorem mscan_sig (A : AState) (h : Nat) (sc : List Nat → Scan) (h' : Nat) :
    (alGet (mscan A h sc).1.handles h').map sig = (alGet A.handles h').map sig := by
  unfold mscan
  split
  · rfl
  · rename_i a ha
    split
    · rename_i pos buf hm
      by_cases hh : h' = h
      · subst hh
        simp [alGet_alSet_same, ha, sig, AHandle.isReader, hm]
      · simp only [alGet_alSet_ne _ _ _ _ hh]
    · rfl

theorem mread_files (A : AState) (h v : Nat) (sc : List Nat → Scan) : (mread A h sc v).1.files = A.files := by
  unfold mread
  split
  · rfl
  · have := mscan_files A h sc
    split <;> rename_i heq <;> rw [heq] at this <;> exact this

theorem meof_files (A : AState) (h : Nat) : (meof A h).1.files = A.files := by
  unfold meof
  split
  · rfl
  · have := mscan_files A h scanEof
    split <;> rename_i heq <;> rw [heq] at this <;> exact this

theorem mread_sig (A : AState) (h v : Nat) (sc : List Nat → Scan) (h' : Nat) :
    (alGet (mread A h sc v).1.handles h').map sig = (alGet A.handles h').map sig := by
  unfold mread
  split
  · rfl
  · have := mscan_sig A h sc h'
    split <;> rename_i heq <;> rw [heq] at this <;> exact this

theorem meof_sig (A : AState) (h : Nat) (h' : Nat) :
    (alGet (meof A h).1.handles h').map sig = (alGet A.handles h').map sig := by
  unfold meof
  split
  · rfl
  · have := mscan_sig A h scanEof h'
    split <;> rename_i heq <;> rw [heq] at this <;> exact this

theorem alGet_foldl_alDel {β : Type} (hs : List Nat) (l : List (Nat × β)) (h : Nat) :
    alGet (hs.foldl alDel l) h = if h ∈ hs then none else alGet l h := by
  induction hs generalizing l with
  | nil => simp
  | cons x rest ih =>
    simp only [List.foldl_cons, ih, List.mem_cons]
    by_cases hr : h ∈ rest
    · simp [hr]
    · by_cases hx : h = x
      · subst hx
        simp [hr, alGet_alDel_same]
      · simp [hr, hx, alGet_alDel_ne _ _ _ hx]

/-- After a step a handle is closed, or has the name and role it had, or is the handle just opened. -/
theorem mstep_sig (A : AState) (op : MOp) (h : Nat) :
    alGet (mstep A op).1.handles h = none ∨
      (alGet (mstep A op).1.handles h).map sig = (alGet A.handles h).map sig ∨
      ∃ k m l, op = .open h k m l ∧ (alGet (mstep A op).1.handles h).map sig = some (k, decide (m = .input)) := by
  cases op with
  | «open» h' k m l =>
    simp only [mstep, mopen]
    split
    · exact Or.inr (Or.inl rfl)
    split
    · exact Or.inr (Or.inl rfl)
    by_cases hh : h = h'
    · subst hh
      cases m with
      | input =>
        simp only
        split
        · exact Or.inr (Or.inl rfl)
        · exact Or.inr (Or.inr ⟨k, .input, l, rfl, by simp [alGet_alSet_same, sig, newHandle, AHandle.isReader]⟩)
      | output => exact Or.inr (Or.inr ⟨k, .output, l, rfl, by simp [alGet_alSet_same, sig, newHandle, AHandle.isReader]⟩)
      | append => exact Or.inr (Or.inr ⟨k, .append, l, rfl, by simp [alGet_alSet_same, sig, newHandle, AHandle.isReader]⟩)
      | random => exact Or.inr (Or.inr ⟨k, .random, l, rfl, by simp [alGet_alSet_same, sig, newHandle, AHandle.isReader]⟩)
    · refine Or.inr (Or.inl ?_)
      cases m with
      | input =>
        simp only
        split
        · rfl
        · simp only [alGet_alSet_ne _ _ _ _ hh]
      | output => simp only [alGet_alSet_ne _ _ _ _ hh]
      | append => simp only [alGet_alSet_ne _ _ _ _ hh]
      | random => simp only [alGet_alSet_ne _ _ _ _ hh]
  | close hs =>
    simp only [mstep, mclose]
    split
    · exact Or.inr (Or.inl rfl)
    split
    · exact Or.inl rfl
    · rw [alGet_foldl_alDel]
      split
      · exact Or.inl rfl
      · exact Or.inr (Or.inl rfl)
  | print h' items nl =>
    refine Or.inr (Or.inl ?_)
    simp only [mstep, mprint]
    split
    · rfl
    split
    · rfl
    · rename_i a ha
      split
      · rename_i pos app hm
        by_cases hh : h = h'
        · subst hh
          simp [alGet_alSet_same, ha, sig, AHandle.isReader, hm]
        · simp only [alGet_alSet_ne _ _ _ _ hh]
      · rfl
  | lineInput h' v => exact Or.inr (Or.inl (mread_sig A h' v scanLine h))
  | input h' v => exact Or.inr (Or.inl (mread_sig A h' v scanField h))
  | eof h' => exact Or.inr (Or.inl (meof_sig A h' h))
  | field h' fl =>
    refine Or.inr (Or.inl ?_)
    simp only [mstep, mfield]
    split
    · rfl
    split
    · rfl
    split
    · rfl
    · rename_i a ha
      split
      · rfl
      · by_cases hh : h = h'
        · subst hh
          simp [alGet_alSet_same, ha, sig, AHandle.isReader]
        · simp only [alGet_alSet_ne _ _ _ _ hh]
  | lset v val =>
    refine Or.inr (Or.inl ?_)
    simp only [mstep, mlset]
    split
    · rfl
    · rename_i hs' hm
      exact amark_sig v _ _ hm h
  | put h' n =>
    refine Or.inr (Or.inl ?_)
    simp only [mstep, mput]
    repeat (first | rfl | split)
  | get h' n =>
    refine Or.inr (Or.inl ?_)
    simp only [mstep, mget]
    repeat (first | rfl | split)
  | «show» v => exact Or.inr (Or.inl rfl)

/-- `Sep` is an invariant of every history that opens `k` for writing only through handles of `P`. -/
theorem sep_step (A : AState) (P : Nat → Prop) (k : Nat) (op : MOp) (hS : Sep A P k) (hr : Respects P k op) :
    Sep (mstep A op).1 P k := by
  intro h a' ha' hn hw
  rcases mstep_sig A op h with e | e | ⟨k', m, l, rfl, e⟩
  · rw [e] at ha'; exact absurd ha' (by simp)
  · rw [ha'] at e
    cases hold : alGet A.handles h with
    | none => rw [hold] at e; simp at e
    | some a =>
      rw [hold] at e
      simp only [Option.map_some, Option.some.injEq, sig, Prod.mk.injEq] at e
      exact hS h a hold (by rw [← e.1]; exact hn) (by rw [← e.2]; exact hw)
  · rw [ha'] at e
    simp only [Option.map_some, Option.some.injEq, sig, Prod.mk.injEq] at e
    refine hr (by rw [← e.1]; exact hn) ?_
    intro hm
    rw [hw] at e
    simp [hm] at e

theorem sep_run (P : Nat → Prop) (k : Nat) (ops : List MOp) (A : AState) (hS : Sep A P k)
    (hr : ∀ op ∈ ops, Respects P k op) : Sep (mrun A ops).1 P k := by
  induction ops generalizing A with
  | nil => exact hS
  | cons op rest ih =>
    simp only [mrun]
    exact ih _ (sep_step A P k op hS (hr op (by simp))) (fun o ho => hr o (by simp [ho]))

/-- **Frame, one step.**  An operation that is not a write through a handle of `P` (and not an OPEN of `k` for
writing) leaves file `k` exactly as it is — whatever else is open, in whatever mode, on whatever files. -/
theorem frame_step (A : AState) (P : Nat → Prop) (k : Nat) (op : MOp) (hS : Sep A P k) (hf : Foreign P k op) :
    alGet (mstep A op).1.files k = alGet A.files k := by
  cases op with
  | «open» h' k' m l =>
    obtain ⟨_, hk⟩ := hf
    simp only [mstep, mopen]
    split
    · rfl
    split
    · rfl
    cases m with
    | input => simp only; split <;> rfl
    | output => rcases hk with hk | hk; exact alGet_alSet_ne _ _ _ _ (Ne.symm hk); exact absurd hk (by simp)
    | append => rcases hk with hk | hk; exact alGet_alSet_ne _ _ _ _ (Ne.symm hk); exact absurd hk (by simp)
    | random => rcases hk with hk | hk; exact alGet_alSet_ne _ _ _ _ (Ne.symm hk); exact absurd hk (by simp)
  | close hs => simp only [mstep, mclose]; repeat (first | rfl | split)
  | print h' items nl =>
    simp only [mstep, mprint]
    split
    · rfl
    split
    · rfl
    · rename_i a ha
      split
      · rename_i pos app hm
        have hne : a.name ≠ k := fun e => hf (hS h' a ha e (by simp [AHandle.isReader, hm]))
        exact alGet_alSet_ne _ _ _ _ (Ne.symm hne)
      · rfl
  | lineInput h' v => simp only [mstep, mread_files]
  | input h' v => simp only [mstep, mread_files]
  | eof h' => simp only [mstep, meof_files]
  | field h' fl => simp only [mstep, mfield]; repeat (first | rfl | split)
  | lset v val => simp only [mstep, mlset]; split <;> rfl
  | put h' n =>
    simp only [mstep, mput]
    split
    · rfl
    split
    · rfl
    split
    · rfl
    · rename_i a ha
      split
      · rfl
      · split
        · rfl
        · rename_i l he
          have hw : a.isReader = false := by
            unfold AHandle.ensureRandom at he
            unfold AHandle.isReader
            split at he <;> simp_all
          have hne : a.name ≠ k := fun e => hf (hS h' a ha e hw)
          exact alGet_alSet_ne _ _ _ _ (Ne.symm hne)
  | get h' n => simp only [mstep, mget]; repeat (first | rfl | split)
  | «show» v => rfl

/-- **Frame for every interleaving.**  In ANY history in which file `k` is opened for writing only through
handles of `P`, every single step that is not a write through a handle of `P` leaves file `k` untouched —
however the operations of the other handles are interleaved with those of `P`. -/
theorem frame_interleaved (P : Nat → Prop) (k : Nat) (A : AState) (hS : Sep A P k) (pre post : List MOp) (op : MOp)
    (hr : ∀ o ∈ pre, Respects P k o) (hf : Foreign P k op) :
    alGet (mrun A (pre ++ op :: post)).1.files k = alGet (mrun (mstep (mrun A pre).1 op).1 post).1.files k ∧
      alGet (mstep (mrun A pre).1 op).1.files k = alGet (mrun A pre).1.files k := by
  refine ⟨?_, frame_step _ P k op (sep_run P k pre A hS hr) hf⟩
  rw [mrun_append]
  rfl

/-- A history made only of such operations leaves file `k` untouched. -/
theorem frame_run (P : Nat → Prop) (k : Nat) (ops : List MOp) (A : AState) (hS : Sep A P k)
    (hf : ∀ op ∈ ops, Foreign P k op) :
    alGet (mrun A ops).1.files k = alGet A.files k ∧ Sep (mrun A ops).1 P k := by
  induction ops generalizing A with
  | nil => exact ⟨rfl, hS⟩
  | cons op rest ih =>
    simp only [mrun]
    have h1 := frame_step A P k op hS (hf op (by simp))
    have h2 := ih _ (sep_step A P k op hS (hf op (by simp)).respects) (fun o ho => hf o (by simp [ho]))
    exact ⟨by rw [h2.1, h1], h2.2⟩

/-- The frame on the `Files` model itself: the bytes the name `k` holds are untouched. -/
theorem frame_step_files (s : State) (A : AState) (hR : Abs s A) (P : Nat → Prop) (k : Nat) (op : MOp)
    (hS : Sep A P k) (hf : Foreign P k op) : fileBytes (step s op.toOp).1 k = fileBytes s k := by
  rw [← (refines_step s A op hR).2.files k, ← hR.files k]
  exact frame_step A P k op hS hf

theorem frame_run_files (s : State) (A : AState) (hR : Abs s A) (P : Nat → Prop) (k : Nat) (ops : List MOp)
    (hS : Sep A P k) (hf : ∀ op ∈ ops, Foreign P k op) :
    fileBytes (run s (ops.map MOp.toOp)).1 k = fileBytes s k := by
  rw [← (refines_run ops s A hR).2.files k, ← hR.files k]
  exact (frame_run P k ops A hS hf).1

/-! ## Reader and writer on the same file

What a handle open FOR INPUT still has to deliver is its look-ahead buffer followed by the bytes of the file
beyond its offset — as the file is AT THE TIME OF THE READ (`pending`).  Every EOF / LINE INPUT # / INPUT #
through the handle is the pure scanner applied to that stream, whatever other handles did to the file in
the meantime: bytes appended by another handle after the reader was opened — even after it reported EOF —
are delivered; a file truncated by another OPEN FOR OUTPUT delivers nothing until it has grown beyond the
reader's offset again. -/

/-- The stream a reader at offset `pos` with look-ahead `buf` has before it on a file with bytes `file`. -/
def pending (pos : Nat) (buf file : List Nat) : List Nat := buf ++ file.drop pos

/-- A scanner that did not ask beyond the bytes it was given answers the same when given more. -/
def Local (sc : List Nat → Scan) : Prop :=
  ∀ buf more, (sc buf).looked ≤ buf.length →
    (sc (buf ++ more)).val = (sc buf).val ∧ (sc (buf ++ more)).rest = (sc buf).rest ++ more

theorem scanEof_local : Local scanEof := by
  intro buf more hl
  cases buf with
  | nil => simp [scanEof] at hl
  | cons c cs => simp [scanEof]

theorem readUntil_local (stop : Nat → Bool) (a more : List Nat) (hl : (readUntil stop a).2.2 ≤ a.length) :
    readUntil stop (a ++ more) = ((readUntil stop a).1, (readUntil stop a).2.1 ++ more, (readUntil stop a).2.2) := by
  induction a with
  | nil => simp [readUntil] at hl
  | cons c cs ih =>
    by_cases hs : stop c = true
    · by_cases hc : c = 13
      · subst hc
        cases cs with
        | nil => simp [readUntil, hs] at hl
        | cons d ds =>
          by_cases hd : d = 10
          · subst hd; simp [readUntil, hs]
          · simp only [readUntil, hs, ↓reduceIte, List.cons_append]
            split
            · rename_i heq; simp at heq; exact absurd heq.1 hd
            · split
              · rename_i heq; simp at heq; exact absurd heq.1 hd
              · rfl
      · simp [readUntil, hs, hc]
    · simp only [readUntil, hs, Bool.false_eq_true, ↓reduceIte, List.length_cons] at hl
      simp only [List.cons_append, readUntil, hs, Bool.false_eq_true, ↓reduceIte]
      rw [ih (by omega)]

theorem scanLine_local : Local scanLine := by
  intro buf more hl
  cases buf with
  | nil => simp [scanLine] at hl
  | cons c cs =>
    simp only [scanLine, List.cons_append, List.isEmpty_cons, Bool.false_eq_true, ↓reduceIte] at hl ⊢
    have := readUntil_local isCrLf (c :: cs) more hl
    simp only [List.cons_append] at this
    rw [this]
    exact ⟨rfl, rfl⟩

theorem skipWhile_count (p : Nat → Bool) (s : List Nat) :
    (skipWhile p s).2 + (skipWhile p s).1.length = s.length + 1 := by
  induction s with
  | nil => simp [skipWhile]
  | cons c cs ih =>
    simp only [skipWhile]
    split
    · simp only [List.length_cons]; omega
    · simp only [List.length_cons]; omega

theorem skipWhile_local (p : Nat → Bool) (s more : List Nat) (hne : (skipWhile p s).1 ≠ []) :
    skipWhile p (s ++ more) = ((skipWhile p s).1 ++ more, (skipWhile p s).2) := by
  induction s with
  | nil => simp [skipWhile] at hne
  | cons c cs ih =>
    simp only [List.cons_append, skipWhile] at hne ⊢
    split
    · rename_i hp
      simp only [hp, ↓reduceIte] at hne
      rw [ih hne]
    · rfl

theorem scanField_local : Local scanField := by
  intro buf more hl
  cases buf with
  | nil => simp [scanField] at hl
  | cons c cs =>
    simp only [scanField, List.cons_append, List.isEmpty_cons, Bool.false_eq_true, ↓reduceIte] at hl ⊢
    have hc := skipWhile_count (· == 32) (c :: cs)
    have h1 : 1 ≤ (readUntil isFieldEnd (skipWhile (· == 32) (c :: cs)).1).2.2 := by
      cases (skipWhile (· == 32) (c :: cs)).1 with
      | nil => simp [readUntil]
      | cons d ds =>
        simp only [readUntil]
        split
        · split
          · split <;> exact Nat.le_of_ble_eq_true rfl
          · exact Nat.le_refl 1
        · exact Nat.le_add_left 1 _
    have hb : (readUntil isFieldEnd (skipWhile (· == 32) (c :: cs)).1).2.2 ≤ (skipWhile (· == 32) (c :: cs)).1.length := by
      omega
    have hne : (skipWhile (· == 32) (c :: cs)).1 ≠ [] := by
      intro e
      rw [e] at hb
      simp [readUntil] at hb
    have hs := skipWhile_local (· == 32) (c :: cs) more hne
    simp only [List.cons_append] at hs
    rw [hs]
    simp only
    rw [readUntil_local isFieldEnd _ more hb]
    exact ⟨rfl, rfl⟩

/-- **One buffered read = the scanner on the pending stream.**  Whether or not the read refills its buffer,
the value is the scanner's on `pending`, and what is pending afterwards is what the scanner left. -/
theorem refill_pending (sc : List Nat → Scan) (hl : Local sc) (pos : Nat) (buf file : List Nat) :
    (refill sc pos buf file).1 = (sc (pending pos buf file)).val ∧
      pending (refill sc pos buf file).2.1 (refill sc pos buf file).2.2 file = (sc (pending pos buf file)).rest ∧
      pos ≤ (refill sc pos buf file).2.1 ∧ ((refill sc pos buf file).2.1 = pos ∨ file.length ≤ (refill sc pos buf file).2.1) := by
  unfold refill pending
  split
  · rename_i h
    obtain ⟨h1, h2⟩ := hl buf (file.drop pos) h
    exact ⟨h1.symm, h2.symm, Nat.le_refl _, Or.inl rfl⟩
  · simp only [List.length_drop]
    have : file.drop (pos + (file.length - pos)) = [] := List.drop_eq_nil_of_le (by omega)
    rw [this]
    refine ⟨by first | rfl | trivial, by simp, by omega, Or.inr (by omega)⟩

/-- Handle `h` is open FOR INPUT on file `k` at offset `pos` with look-ahead `buf`. -/
def ReaderOn (A : AState) (h k pos : Nat) (buf : List Nat) : Prop :=
  ∃ a, alGet A.handles h = some a ∧ a.name = k ∧ a.mode = .input pos buf

/-- **Reads see the file as it is now.**  A scan (EOF / LINE INPUT # / INPUT #) through a reader returns the
scanner's value on `pending pos buf (the bytes file k holds NOW)`; afterwards the reader is at an offset
`pos' ≥ pos` with a buffer such that what is pending is what the scanner left.  Files are untouched. -/
theorem read_scans_pending (A : AState) (h k pos : Nat) (buf : List Nat) (sc : List Nat → Scan) (hl : Local sc)
    (hr : ReaderOn A h k pos buf) :
    (mscan A h sc).2 = (match (sc (pending pos buf (A.content k))).val with
        | .ok v => .ok v
        | .error e => .error (Err.ofIo e)) ∧
      (mscan A h sc).1.files = A.files ∧
      ∃ pos' buf', ReaderOn (mscan A h sc).1 h k pos' buf' ∧ pos ≤ pos' ∧
        pending pos' buf' (A.content k) = (sc (pending pos buf (A.content k))).rest := by
  obtain ⟨a, ha, hn, hm⟩ := hr
  have hp := refill_pending sc hl pos buf (A.content k)
  refine ⟨?_, mscan_files A h sc, ?_⟩
  · simp only [mscan, ha, hm, hn, hp.1]
  · refine ⟨(refill sc pos buf (A.content k)).2.1, (refill sc pos buf (A.content k)).2.2, ?_, hp.2.2.1, hp.2.1⟩
    simp only [mscan, ha, hm, hn]
    exact ⟨_, alGet_alSet_same _ _ _, rfl, rfl⟩

/-- EOF(h) is true exactly when nothing is pending — on the file as it is at that moment. -/
theorem eof_iff_nothing_pending (A : AState) (h k pos : Nat) (buf : List Nat) (hv : validHandle h = true)
    (hr : ReaderOn A h k pos buf) :
    (meof A h).2 = .flag (pending pos buf (A.content k)).isEmpty := by
  have := (read_scans_pending A h k pos buf scanEof scanEof_local hr).1
  unfold meof
  simp only [hv, Bool.not_true, Bool.false_eq_true, ↓reduceIte]
  generalize mscan A h scanEof = x at this
  obtain ⟨A', r⟩ := x
  simp only [scanEof] at this
  subst this
  cases (pending pos buf (A.content k)) <;> rfl

/-- LINE INPUT # / INPUT # return the scanner's value on what is pending at that moment. -/
theorem read_value_of_pending (A : AState) (h k pos v : Nat) (buf : List Nat) (sc : List Nat → Scan) (hl : Local sc)
    (hv : validHandle h = true) (hr : ReaderOn A h k pos buf) :
    (mread A h sc v).2 = readOut (sc (pending pos buf (A.content k))).val := by
  have := (read_scans_pending A h k pos buf sc hl hr).1
  unfold mread
  simp only [hv, Bool.not_true, Bool.false_eq_true, ↓reduceIte]
  generalize mscan A h sc = x at this
  obtain ⟨A', r⟩ := x
  simp only at this
  subst this
  cases (sc (pending pos buf (A.content k))).val <;> rfl

/-- **A writer that appends to the reader's file extends what the reader will see.**  Handle `h` reads file
`k`, handle `hw ≠ h` is open on the same file FOR APPEND (or FOR OUTPUT and positioned at the end), and the
reader's offset is within the file.  After `PRINT #hw, ...` the reader is as it was and its pending stream is
the old one followed by the printed bytes. -/
theorem append_extends_pending (A : AState) (h hw k pos wpos : Nat) (buf : List Nat) (app : Bool)
    (items : List (List Nat)) (nl : Bool) (hvw : validHandle hw = true) (hne : h ≠ hw)
    (hr : ReaderOn A h k pos buf) (aw : AHandle) (haw : alGet A.handles hw = some aw) (hnw : aw.name = k)
    (hmw : aw.mode = .output wpos app) (hend : app = true ∨ wpos = (A.content k).length)
    (hpos : pos ≤ (A.content k).length) :
    (mprint A hw items nl).2 = .ok ∧ ReaderOn (mprint A hw items nl).1 h k pos buf ∧
      pending pos buf ((mprint A hw items nl).1.content k) = pending pos buf (A.content k) ++ printBytes items nl := by
  obtain ⟨a, ha, hn, hm⟩ := hr
  have hc : (if app = true then A.content k ++ printBytes items nl else writeAt (A.content k) wpos (printBytes items nl))
      = A.content k ++ printBytes items nl := by
    rcases hend with e | e
    · simp [e]
    · cases app
      · simp only [Bool.false_eq_true, ↓reduceIte, e]; exact writeAt_end _ _
      · simp
  simp only [mprint, hvw, Bool.not_true, Bool.false_eq_true, ↓reduceIte, haw, hmw, hnw, hc]
  refine ⟨trivial, ⟨a, ?_, hn, hm⟩, ?_⟩
  · simp only [alGet_alSet_ne _ _ _ _ hne]; exact ha
  · simp only [AState.content, alGet_alSet_same, Option.getD_some, pending]
    rw [List.drop_append_of_le_length (by simpa [AState.content] using hpos)]
    simp

/-- Anything done by others to OTHER files leaves what is pending for a reader of `k` unchanged
(`frame_step`: the bytes of `k` are the same). -/
theorem other_files_keep_pending (A : AState) (P : Nat → Prop) (k pos : Nat) (buf : List Nat) (op : MOp)
    (hS : Sep A P k) (hf : Foreign P k op) :
    pending pos buf ((mstep A op).1.content k) = pending pos buf (A.content k) := by
  simp only [AState.content, frame_step A P k op hS hf]

/-- Non-vacuity and the behaviour in one picture: `A.TXT` holds "a"; #1 reads it to the end (EOF is true);
#2 appends "b"; EOF(1) is false again and LINE INPUT #1 delivers "b"; #3 then reopens the file FOR OUTPUT
(truncating it) and prints "xyz": reader #1, at offset 6, sees nothing of it. -/
example :
    (mrun { files := [(0, [97, 13, 10])], handles := [], vars := [] }
      [.open 1 0 .input 0, .open 2 0 .append 0, .lineInput 1 7, .eof 1, .print 2 [[98]] true, .eof 1,
        .lineInput 1 7, .eof 1, .open 3 0 .output 0, .print 3 [[120, 121, 122]] true, .eof 1]).2
      = [.ok, .ok, .val [97], .flag true, .ok, .flag false, .val [98], .flag true, .ok, .ok, .flag true] := by decide

example : ReaderOn (mrun { files := [(0, [97, 13, 10])], handles := [], vars := [] }
    [.open 1 0 .input 0, .open 2 0 .append 0, .lineInput 1 7]).1 1 0 3 [] := ⟨_, rfl, rfl, rfl⟩

/-! ## The open/close protocol, for arbitrary histories (on the `Files` model, ALL its operations) -/

def isOpen (s : State) (h : Nat) : Bool := (alGet s.handles h).isSome

/-- The protocol automaton: a successful OPEN makes its handle open, a successful CLOSE makes the listed
handles (all, for an empty list) closed, nothing else changes which handles are open. -/
def protoStep (o : Nat → Bool) (op : Op) (out : Out) (h : Nat) : Bool :=
  match op, out with
  | .open h' _ _ _, .ok => h == h' || o h
  | .close hs, .ok => if hs.isEmpty then false else o h && !hs.contains h
  | _, _ => o h

def protoRun (o : Nat → Bool) : List Op → List Out → Nat → Bool
  | op :: ops, out :: outs => protoRun (protoStep o op out) ops outs
  | _, _ => o

theorem isSome_alSet {β : Type} (l : List (Nat × β)) (k h : Nat) (v : β) :
    (alGet (alSet l k v) h).isSome = (h == k || (alGet l h).isSome) := by
  by_cases hh : h = k
  · subst hh; simp [alGet_alSet_same]
  · simp [alGet_alSet_ne _ _ _ _ hh, hh]

theorem isOpen_setInfo_bound (s : State) (h h' : Nat) (fi fi' : FileInfo) (hb : alGet s.handles h = some fi) :
    isOpen (setInfo s h fi') h' = isOpen s h' := by
  unfold isOpen setInfo
  simp only [isSome_alSet]
  by_cases hh : h' = h
  · subst hh; simp [hb]
  · simp [hh]

theorem markCurrent_isSome (v : Nat) (hs hs' : List (Nat × FileInfo)) (hm : markCurrent v hs = some hs') (h : Nat) :
    (alGet hs' h).isSome = (alGet hs h).isSome := by
  induction hs generalizing hs' with
  | nil => simp [markCurrent] at hm
  | cons p rest ih =>
    obtain ⟨k, a⟩ := p
    simp only [markCurrent] at hm
    split at hm
    · simp only [Option.some.injEq] at hm
      subst hm
      simp only [alGet]
      split <;> rfl
    · split at hm
      · rename_i rest' hrest
        simp only [Option.some.injEq] at hm
        subst hm
        simp only [alGet]
        split
        · rfl
        · exact ih rest' hrest
      · simp at hm

theorem doScan_isOpen (s : State) (h : Nat) (sc : List Nat → Scan) (h' : Nat) :
    isOpen (doScan s h sc).1 h' = isOpen s h' := by
  unfold doScan getReader getInfo
  cases hb : alGet s.handles h with
  | none => rfl
  | some fi =>
    simp only
    split
    · rfl
    · split
      · rfl
      · exact isOpen_setInfo_bound s h h' fi _ hb

/-- **Handles follow the open/close protocol**: after any step of the model — any operation, whether it
succeeds or fails — the set of open handles is what the protocol automaton says. -/
theorem handles_follow_protocol (s : State) (op : Op) (h : Nat) :
    isOpen (step s op).1 h = protoStep (isOpen s) op (step s op).2 h := by
  cases op with
  | «open» h' n m l =>
    simp only [step, doOpen]
    split
    · rfl
    split
    · rfl
    cases m <;> simp only <;> split <;> first | rfl | (simp only [protoStep, isOpen, setInfo, isSome_alSet])
  | print h' items nl =>
    simp only [step]
    split
    · rfl
    · unfold doPrint getWriter getInfo
      cases hb : alGet s.handles h' with
      | none => rfl
      | some fi =>
        simp only
        split
        · rfl
        · simp only [protoStep]
          exact isOpen_setInfo_bound _ h' h fi _ hb
  | input h' v =>
    simp only [step, doRead]
    split
    · rfl
    · have := doScan_isOpen s h' scanField h
      split <;> rename_i heq <;> rw [heq] at this <;> exact this
  | lineInput h' v =>
    simp only [step, doRead]
    split
    · rfl
    · have := doScan_isOpen s h' scanLine h
      split <;> rename_i heq <;> rw [heq] at this <;> exact this
  | eof h' =>
    simp only [step, doEof]
    split
    · rfl
    · have := doScan_isOpen s h' scanEof h
      split <;> rename_i heq <;> rw [heq] at this <;> exact this
  | close hs =>
    simp only [step, doClose]
    split
    · rfl
    · split
      · rename_i he
        simp [protoStep, he, isOpen, alGet]
      · rename_i he
        simp only [protoStep, he, isOpen, closeAll, alGet_foldl_alDel]
        by_cases hm : h ∈ hs <;> simp [hm]
  | kill n => simp only [step, doKill]; split <;> rfl
  | name o n => simp only [step, doName]; split <;> rfl
  | field h' fl =>
    simp only [step, doField, getInfo]
    split
    · rfl
    split
    · rfl
    cases hb : alGet s.handles h' with
    | none => rfl
    | some fi =>
      simp only
      split
      · rfl
      · exact isOpen_setInfo_bound s h' h fi _ hb
  | lset v val =>
    simp only [step, doLset]
    split
    · rfl
    · rename_i hs' hm
      exact markCurrent_isSome v _ _ hm h
  | put h' n => simp only [step, doPut]; repeat (first | rfl | split)
  | get h' n => simp only [step, doGet]; repeat (first | rfl | split)
  | «show» v => rfl
  | conInput v => simp only [step, doConRead]; split <;> rfl
  | conLineInput v => simp only [step, doConRead]; split <;> rfl

/-- ... and so after ANY history, from any state. -/
theorem run_follows_protocol (ops : List Op) (s : State) (h : Nat) :
    isOpen (run s ops).1 h = protoRun (isOpen s) ops (run s ops).2 h := by
  induction ops generalizing s with
  | nil => rfl
  | cons op rest ih =>
    simp only [run, protoRun]
    rw [ih (step s op).1]
    congr 1
    funext h'
    exact handles_follow_protocol s op h'

/-- The operations that go through handle `h` (with arguments that are not rejected before the handle is
looked at: record numbers ≥ 1, field widths ≥ 1). -/
inductive HandleOp (h : Nat) : Op → Prop where
  | print (items nl) : HandleOp h (.print h items nl)
  | input (v) : HandleOp h (.input h v)
  | lineInput (v) : HandleOp h (.lineInput h v)
  | eof : HandleOp h (.eof h)
  | put (n) (hn : 1 ≤ n) : HandleOp h (.put h n)
  | get (n) (hn : 1 ≤ n) : HandleOp h (.get h n)
  | field (fl) (hf : fl.any (·.1 == 0) = false) : HandleOp h (.field h fl)

theorem scan_err_not_53 (s : State) (h : Nat) (sc : List Nat → Scan) (fi : FileInfo)
    (ho : alGet s.handles h = some fi) (hsc : ∀ b e, (sc b).val = .error e → e = .unexpectedEof) :
    (doScan s h sc).2 ≠ .error .fileNotFound := by
  unfold doScan getReader getInfo
  simp only [ho]
  cases hk : fi.kind with
  | output w => simp
  | random i l => simp
  | input r =>
    simp only
    cases hsrc : r.src with
    | none => simp [Err.ofIo]
    | some i =>
      simp only
      cases hval : (r.scan sc (s.fs.data i)).1 with
      | ok v => simp
      | error e =>
        simp only
        have : e = .unexpectedEof := by
          unfold Reader.scan at hval
          simp only at hval
          split at hval
          · exact hsc _ _ hval
          · exact hsc _ _ hval
        rw [this]; simp [Err.ofIo]

theorem scanLine_err (b : List Nat) (e : IoErr) (h : (scanLine b).val = .error e) : e = .unexpectedEof := by
  unfold scanLine at h
  split at h <;> simp at h
  exact h.symm

theorem scanField_err (b : List Nat) (e : IoErr) (h : (scanField b).val = .error e) : e = .unexpectedEof := by
  unfold scanField at h
  split at h <;> simp at h
  exact h.symm

theorem scanEof_err (b : List Nat) (e : IoErr) (h : (scanEof b).val = .error e) : e = .unexpectedEof := by
  simp [scanEof] at h

/-- An operation through an OPEN handle never reports "closed handle" (53). -/
theorem open_handle_never_53 (s : State) (h : Nat) (fi : FileInfo) (hv : validHandle h = true)
    (ho : alGet s.handles h = some fi) (op : Op) (hop : HandleOp h op) : (step s op).2 ≠ .err .fileNotFound := by
  cases hop with
  | print items nl =>
    simp only [step, hv, Bool.not_true, Bool.false_eq_true, ↓reduceIte, doPrint, getWriter, getInfo, ho]
    cases fi.kind <;> simp
  | input v =>
    have := scan_err_not_53 s h scanField fi ho scanField_err
    simp only [step, doRead, hv, Bool.not_true, Bool.false_eq_true, ↓reduceIte]
    split <;> rename_i heq <;> rw [heq] at this <;> simp_all
  | lineInput v =>
    have := scan_err_not_53 s h scanLine fi ho scanLine_err
    simp only [step, doRead, hv, Bool.not_true, Bool.false_eq_true, ↓reduceIte]
    split <;> rename_i heq <;> rw [heq] at this <;> simp_all
  | eof =>
    have := scan_err_not_53 s h scanEof fi ho scanEof_err
    simp only [step, doEof, hv, Bool.not_true, Bool.false_eq_true, ↓reduceIte]
    split <;> rename_i heq <;> rw [heq] at this <;> simp_all
  | put n hn =>
    have hn0 : ¬ n = 0 := by omega
    simp only [step, doPut, hv, Bool.not_true, Bool.false_eq_true, ↓reduceIte, hn0, getInfo, ho]
    split
    · simp
    · unfold ensureRandom
      cases fi.kind with
      | input r => simp
      | output w => simp
      | random i l =>
        simp only
        split
        · rename_i e he
          split at he <;> simp at he
          subst he; simp
        · simp
  | get n hn =>
    have hn0 : ¬ n = 0 := by omega
    simp only [step, doGet, hv, Bool.not_true, Bool.false_eq_true, ↓reduceIte, hn0, getInfo, ho]
    unfold ensureRandom
    cases fi.kind with
    | input r => simp
    | output w => simp
    | random i l =>
      simp only
      split
      · rename_i e he
        split at he <;> simp at he
        subst he; simp
      · simp
  | field fl hf =>
    simp only [step, doField, hv, Bool.not_true, Bool.false_eq_true, ↓reduceIte, hf, getInfo, ho]
    split <;> simp

/-- **A handle is usable iff it is open**: for a valid handle number, the handle is open exactly when no
operation through it is answered with "closed handle" (53); when it is closed EVERY operation through it is
answered with 53 and changes nothing. -/
theorem usable_iff_open (s : State) (h : Nat) (hv : validHandle h = true) :
    (isOpen s h = true ↔ ∀ op, HandleOp h op → (step s op).2 ≠ .err .fileNotFound) ∧
      (isOpen s h = false ↔ ∀ op, HandleOp h op → step s op = (s, .err .fileNotFound)) := by
  have hclosed : isOpen s h = false → ∀ op, HandleOp h op → step s op = (s, .err .fileNotFound) := by
    intro hc op hop
    have hc' : alGet s.handles h = none := by simpa [isOpen] using hc
    obtain ⟨c1, c2, c3, c4, c5, c6, c7⟩ := closed_handle_errors s h hv hc'
    cases hop with
    | print items nl => exact c1 items nl
    | input v => exact c2 v
    | lineInput v => exact c3 v
    | eof => exact c4
    | put n hn => exact c5 n hn
    | get n hn => exact c6 n hn
    | field fl hf => exact c7 fl hf
  have hopen : isOpen s h = true → ∀ op, HandleOp h op → (step s op).2 ≠ .err .fileNotFound := by
    intro ho op hop
    cases hb : alGet s.handles h with
    | none => simp [isOpen, hb] at ho
    | some fi => exact open_handle_never_53 s h fi hv hb op hop
  refine ⟨⟨hopen, ?_⟩, ⟨hclosed, ?_⟩⟩
  · intro hall
    cases ho : isOpen s h with
    | true => rfl
    | false => exact absurd (by rw [hclosed ho _ HandleOp.eof]) (hall _ HandleOp.eof)
  · intro hall
    cases ho : isOpen s h with
    | false => rfl
    | true => exact absurd (by rw [hall _ HandleOp.eof]) (hopen ho _ HandleOp.eof)

/-- **The protocol clauses after an arbitrary history.**  Let `s` be the state after ANY history `ops` (any
operations of the model, any interleaving over any handles, failed steps included) from ANY state `s0`.
Which handles are open in `s` is what the protocol automaton computes from the history and its outputs;
and for a valid handle number `h`:
* open   → OPEN #h (any name, any mode) fails with 55 and changes nothing;
* closed → every operation through `h` fails with 53 and changes nothing;
* CLOSE #h and CLOSE (all) succeed, leave `h` closed and the store as it is, and an OPEN #h after them is
  never answered with 55. -/
theorem protocol_any_history (s0 : State) (ops : List Op) (h : Nat) (hv : validHandle h = true) :
    let s := (run s0 ops).1
    isOpen s h = protoRun (isOpen s0) ops (run s0 ops).2 h ∧
      (isOpen s h = true → ∀ n m l, step s (.open h n m l) = (s, .err .fileAlreadyOpen)) ∧
      (isOpen s h = false → ∀ op, HandleOp h op → step s op = (s, .err .fileNotFound)) ∧
      ((step s (.close [h])).2 = .ok ∧ isOpen (step s (.close [h])).1 h = false ∧ (step s (.close [h])).1.fs = s.fs ∧
        ∀ n m l, (step (step s (.close [h])).1 (.open h n m l)).2 ≠ .err .fileAlreadyOpen) ∧
      ((step s (.close [])).2 = .ok ∧ (∀ h', isOpen (step s (.close [])).1 h' = false) ∧
        (step s (.close [])).1.fs = s.fs ∧
        ∀ n m l, (step (step s (.close [])).1 (.open h n m l)).2 ≠ .err .fileAlreadyOpen) := by
  intro s
  refine ⟨run_follows_protocol ops s0 h, ?_, (usable_iff_open s h hv).2.1, ?_, ?_⟩
  · intro ho n m l
    cases hb : alGet s.handles h with
    | none => simp [isOpen, hb] at ho
    | some fi => exact (open_on_open_handle s h l n m fi hv hb).1
  · obtain ⟨c1, c2, c3, _⟩ := close_one_closes s h hv
    exact ⟨c1, by simp [isOpen, c2], c3, fun n m l => (close_makes_reusable s h l n m hv).1⟩
  · obtain ⟨c1, c2, c3⟩ := close_all_closes s
    exact ⟨c1, fun h' => by simp [isOpen, c2, alGet], c3, fun n m l => (close_makes_reusable s h l n m hv).2⟩

/-- Non-vacuity: three handles on two files, interleaved, with protocol violations in between. -/
def demoHistory : List Op :=
  [.open 1 (.plain 0) .output 0, .open 2 (.plain 1) .append 0, .open 1 (.plain 1) .input 0, .print 1 [[97]] true,
    .print 2 [[98]] true, .open 3 (.plain 0) .input 0, .lineInput 3 7, .close [2], .print 2 [[99]] true,
    .eof 3, .close [], .eof 3]

example : (run emptyState demoHistory).2
    = [.ok, .ok, .err .fileAlreadyOpen, .ok, .ok, .ok, .val [97], .ok, .err .fileNotFound, .flag true, .ok,
        .err .fileNotFound] := by decide

example : (List.range 5).map (protoRun (isOpen emptyState) (demoHistory.take 9) ((run emptyState demoHistory).2.take 9))
    = [false, true, false, true, false] := by decide

/-! ## Non-vacuity of the refinement and of the frame: three handles on two files, interleaved -/

/-- `OPEN "A" FOR OUTPUT AS #1 : OPEN "B" FOR APPEND AS #2 : PRINT #1, "a" : OPEN "A" FOR INPUT AS #3 :
PRINT #2, "b" : LINE INPUT #3, V7$ : PRINT #1, "c" : x = EOF(3) : LINE INPUT #3, V7$ : CLOSE #1 :
OPEN "B" FOR RANDOM AS #1 LEN = 2 : FIELD #1, 2 AS V0$ : LSET V0$ = "zz" : PUT #1, 2 : x = EOF(3) : CLOSE`. -/
def demoMulti : List MOp :=
  [.open 1 0 .output 0, .open 2 1 .append 0, .print 1 [[97]] true, .open 3 0 .input 0, .print 2 [[98]] true,
    .lineInput 3 7, .print 1 [[99]] true, .eof 3, .lineInput 3 7, .close [1], .open 1 1 .random 2,
    .field 1 [(2, 0)], .lset 0 [122, 122], .put 1 2, .eof 3, .close []]

/-- `refines_run` applies to it from the empty state ... -/
example := refines_run demoMulti emptyState AState.empty abs_empty

/-- ... the abstract machine's observations and final files, computed (the reader #3 sees the line "c" that
#1 printed after #3 had been opened; OPEN FOR RANDOM truncates B, PUT #1, 2 zero-fills record 1) ... -/
example : (mrun AState.empty demoMulti).2 =
    [.ok, .ok, .ok, .ok, .ok, .val [97], .ok, .flag false, .val [99], .ok, .ok, .ok, .ok, .ok, .flag true, .ok] ∧
    (mrun AState.empty demoMulti).1.files = [(0, [97, 13, 10, 99, 13, 10]), (1, [0, 0, 122, 122])] ∧
    (mrun AState.empty demoMulti).1.handles = [] := by decide

/-- ... and the model's, computed as well: the same. -/
example : (run emptyState (demoMulti.map MOp.toOp)).2 = (mrun AState.empty demoMulti).2 := by decide

/-- Frame: with `P` = {1, 3} (the handles on file 0), what handle 2 does leaves file 0 alone. -/
example : Sep AState.empty (fun h => h = 1 ∨ h = 3) 0 := fun _ _ h => by simp [AState.empty, alGet] at h

example : ∀ op ∈ [MOp.open 2 1 .append 0, .print 2 [[98]] true, .eof 3, .open 4 0 .input 0, .close [2]],
    Foreign (fun h => h = 1 ∨ h = 3) 0 op := by
  intro op hop
  simp only [List.mem_cons, List.mem_nil_iff, or_false] at hop
  rcases hop with rfl | rfl | rfl | rfl | rfl <;> simp [Foreign]

/-- The hypotheses of `append_extends_pending` hold after `OPEN "A" FOR INPUT AS #1 : OPEN "A" FOR APPEND AS #2 :
LINE INPUT #1, V7$` on a file holding one line (reader at offset 3 = the end, nothing buffered). -/
example :=
  append_extends_pending
    (mrun { files := [(0, [97, 13, 10])], handles := [], vars := [] }
      [.open 1 0 .input 0, .open 2 0 .append 0, .lineInput 1 7]).1
    1 2 0 3 0 [] true [[98]] true (by decide) (by decide) ⟨_, rfl, rfl, rfl⟩ _ rfl rfl rfl (Or.inl rfl) (by decide)

end RbThm.C18Multi
