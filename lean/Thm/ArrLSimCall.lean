import Thm.ArrLSimIdx
/-!
Arrays layer, simulation part — the by-reference argument protocol of the built-ins (`READ`, `LBOUND` / `UBOUND`) at
the level of VM states: pushing a variable or an array element as a by-reference argument, and the write-back after the
call (`DequeueFromReturnStack · VarPathName · CopyAToVarPath` for a variable,
`DequeueFromReturnStackWithPath · CopyAToVarPath` for an element: the path resolved before the call is restored).
Each lemma gives the exact state after the instructions.
-/
namespace RbThm.ArrLSim
set_option linter.unusedVariables false
set_option linter.unusedSimpArgs false
open RbModel RbModel.Num RbModel.ArrL RbModel.ArrL.Compile RbModel.ArrL.Vm
open RbModel.Ast (Pos)
open RbThm.ArrLLen RbThm.ArrLNum

/-- `VarPathName x · CopyVarPathToA · PushUnnamedByRef`: the variable's value and its path join the argument list -/
theorem push_var_steps (code : Code) (x : Nat) (q : Pos) (τ : Vm) (c : Call) (ctx0 : List Call) (cur : Val)
    (hc : CodeAt code τ.pc [(CInstr.varPath x, q), (CInstr.copyVarPathToA, q), (CInstr.pushByRef, q)])
    (hctx : τ.ctx = c :: ctx0) (hv : τ.env[x]? = some cur) :
    Steps code τ { τ with pc := τ.pc + 3, regs := { τ.regs with a := .sc cur },
                          ctx := { c with args := c.args ++ [(.sc cur, some ⟨.var x, []⟩)] } :: ctx0 } := by
  have h0 : code[τ.pc]? = some (CInstr.varPath x, q) := hc.head
  have h1 : code[τ.pc + 1]? = some (CInstr.copyVarPathToA, q) := hc.tail.head
  have h2 : code[τ.pc + 1 + 1]? = some (CInstr.pushByRef, q) := hc.tail.tail.head
  let τ1 : Vm := Vm.advance { τ with paths := ⟨.var x, []⟩ :: τ.paths }
  let τ2 : Vm := Vm.advance (Vm.setRA τ1 (.sc cur))
  have s1 : Vm.step code τ = .next τ1 := by simp only [Vm.step, h0]; rfl
  have s2 : Vm.step code τ1 = .next τ2 := by simp only [Vm.step, τ1, Vm.advance, h1, readPath, hv]; rfl
  refine Steps.cons s1 (Steps.cons s2 (Steps.one ?_))
  simp only [Vm.step, τ2, τ1, Vm.advance, Vm.setRA, h2, hctx]

/-- `CopyVarPathToA · PushUnnamedByRef` with the path of a readable element on top of the path stack -/
theorem push_elem_steps (code : Code) (a : Nat) (is : List Int) (q : Pos) (τ : Vm) (c : Call) (ctx0 : List Call)
    (rest : List Path) (V : VArr) (cur : Val)
    (hc : CodeAt code τ.pc [(CInstr.copyVarPathToA, q), (CInstr.pushByRef, q)])
    (hctx : τ.ctx = c :: ctx0) (hp : τ.paths = ⟨.arr a, is⟩ :: rest) (hV : τ.arrs[a]? = some (some V))
    (hne : is ≠ []) (hg : Arr.getElem V is = some cur) :
    Steps code τ { τ with pc := τ.pc + 2, regs := { τ.regs with a := .sc cur }, paths := rest,
                          ctx := { c with args := c.args ++ [(.sc cur, some ⟨.arr a, is⟩)] } :: ctx0 } := by
  have h0 : code[τ.pc]? = some (CInstr.copyVarPathToA, q) := hc.head
  have h1 : code[τ.pc + 1]? = some (CInstr.pushByRef, q) := hc.tail.head
  let τ1 : Vm := Vm.advance (Vm.setRA τ (.sc cur))
  have s1 : Vm.step code τ = .next τ1 := by
    simp only [Vm.step, h0, hp, readPath_elem_some hV hne hg]; rfl
  refine Steps.cons s1 (Steps.one ?_)
  simp only [Vm.step, τ1, Vm.advance, Vm.setRA, h1, hctx, hp]

/-- `DequeueFromReturnStack · VarPathName x · CopyAToVarPath`: the head of the queue is stored into variable `x` -/
theorem deq_var_steps (code : Code) (x : Nat) (q : Pos) (τ : Vm) (w : Val) (o : Option Path)
    (qr : List (RV × Option Path))
    (hc : CodeAt code τ.pc [(CInstr.dequeue, q), (CInstr.varPath x, q), (CInstr.copyAToVarPath, q)])
    (hq : τ.queue = (.sc w, o) :: qr) (hx : x < τ.env.length) :
    Steps code τ { τ with pc := τ.pc + 3, regs := { τ.regs with a := .sc w }, queue := qr,
                          env := τ.env.set x w } := by
  have h0 : code[τ.pc]? = some (CInstr.dequeue, q) := hc.head
  have h1 : code[τ.pc + 1]? = some (CInstr.varPath x, q) := hc.tail.head
  have h2 : code[τ.pc + 1 + 1]? = some (CInstr.copyAToVarPath, q) := hc.tail.tail.head
  let τ1 : Vm := Vm.advance { Vm.setRA τ (.sc w) with queue := qr }
  let τ2 : Vm := Vm.advance { τ1 with paths := ⟨.var x, []⟩ :: τ.paths }
  have s1 : Vm.step code τ = .next τ1 := by simp only [Vm.step, h0, hq]; rfl
  have s2 : Vm.step code τ1 = .next τ2 := by simp only [Vm.step, τ1, Vm.advance, Vm.setRA, h1]; rfl
  refine Steps.cons s1 (Steps.cons s2 (Steps.one ?_))
  simp only [Vm.step, τ2, τ1, Vm.advance, Vm.setRA, h2, writePath, hx, if_true]

/-- `DequeueFromReturnStackWithPath · CopyAToVarPath`: the head of the queue is stored into the element whose path was
queued with it -/
theorem deq_elem_steps (code : Code) (a : Nat) (is : List Int) (q : Pos) (τ : Vm) (w : Val)
    (qr : List (RV × Option Path)) (V V' : VArr)
    (hc : CodeAt code τ.pc [(CInstr.dequeuePath, q), (CInstr.copyAToVarPath, q)])
    (hq : τ.queue = (.sc w, some ⟨.arr a, is⟩) :: qr) (hV : τ.arrs[a]? = some (some V)) (hne : is ≠ [])
    (hs : Arr.setElem V is w = some V') :
    Steps code τ { τ with pc := τ.pc + 2, regs := { τ.regs with a := .sc w }, queue := qr,
                          arrs := τ.arrs.set a (some V') } := by
  have h0 : code[τ.pc]? = some (CInstr.dequeuePath, q) := hc.head
  have h1 : code[τ.pc + 1]? = some (CInstr.copyAToVarPath, q) := hc.tail.head
  let τ1 : Vm := Vm.advance { Vm.setRA τ (.sc w) with queue := qr, paths := ⟨.arr a, is⟩ :: τ.paths }
  have s1 : Vm.step code τ = .next τ1 := by simp only [Vm.step, h0, hq]; rfl
  have hV1 : τ1.arrs[a]? = some (some V) := hV
  refine Steps.cons s1 (Steps.one ?_)
  have := writePath_elem_some (τ := τ1) w hV1 hne hs
  simp only [Vm.step, τ1, Vm.advance, Vm.setRA, h1] at this ⊢
  simp only [this]

/-! ### the call of LBOUND / UBOUND -/

/-- the bound the reference semantics reports is the one the VM's built-in computes from the dimensions -/
theorem boundOf_eq' (up : Bool) (A : RArr) (V : VArr) (hd : V.dims = A.bounds) (k : Int) (p : Pos) (hk : k > 0) :
    ArrL.Ref.boundOf up A k p =
      match (if up then Arr.ubound V k else Arr.lbound V k) with
      | some b => .ok (.int b)
      | none => .err ArrL.Ref.codeSubscript p := by
  have hk' : ¬ (k ≤ 0) := by omega
  simp only [ArrL.Ref.boundOf, hk', if_false, Arr.ubound, Arr.lbound, Arr.dimBounds, hk, if_true, hd]
  cases hb : A.bounds[k.toNat - 1]? with
  | none => cases up <;> simp
  | some b => obtain ⟨lo, hi⟩ := b; cases up <;> simp

/-- `PushStack · BuiltInFunction(L/UBound) · EnqueueToReturnStack 0`: the result is recorded in the callee's state, the
first argument (the array) is queued for the write-back -/
theorem bound_call_steps (code : Code) (up : Bool) (p ap : Pos) (τ : Vm) (args : List (RV × Option Path))
    (ctx0 : List Call) (x : RV × Option Path) (v : Val)
    (hc : CodeAt code τ.pc [(CInstr.pushStack, p), (CInstr.builtInBound up, p), (CInstr.enqueue 0, ap)])
    (hctx : τ.ctx = ⟨args, none⟩ :: ctx0) (hq : τ.queue = []) (hx : args[0]? = some x)
    (hrun : boundRun up args = .inl (.ok v)) :
    Steps code τ { τ with pc := τ.pc + 3, trace := p :: τ.trace, ctx := ⟨args, some v⟩ :: ctx0, queue := [x] } := by
  have h0 : code[τ.pc]? = some (CInstr.pushStack, p) := hc.head
  have h1 : code[τ.pc + 1]? = some (CInstr.builtInBound up, p) := hc.tail.head
  have h2 : code[τ.pc + 1 + 1]? = some (CInstr.enqueue 0, ap) := hc.tail.tail.head
  let τ1 : Vm := Vm.advance { τ with trace := p :: τ.trace }
  let τ2 : Vm := Vm.advance { τ1 with ctx := ⟨args, some v⟩ :: ctx0 }
  have s1 : Vm.step code τ = .next τ1 := by simp only [Vm.step, h0]; rfl
  have s2 : Vm.step code τ1 = .next τ2 := by simp only [Vm.step, τ1, Vm.advance, h1, hctx, hrun]; rfl
  refine Steps.cons s1 (Steps.cons s2 (Steps.one ?_))
  simp only [Vm.step, τ2, τ1, Vm.advance, h2, hx, hq, List.nil_append]

/-- the built-in fails: the error is reported at the position of the `PushStack` -/
theorem bound_call_error (code : Code) (up : Bool) (p : Pos) (τ : Vm) (args : List (RV × Option Path))
    (ctx0 : List Call) (c : Nat)
    (hc : CodeAt code τ.pc [(CInstr.pushStack, p), (CInstr.builtInBound up, p)])
    (hctx : τ.ctx = ⟨args, none⟩ :: ctx0) (hrun : boundRun up args = .inl (.error c)) :
    ErrsWith code τ c p τ.out := by
  have h0 : code[τ.pc]? = some (CInstr.pushStack, p) := hc.head
  have h1 : code[τ.pc + 1]? = some (CInstr.builtInBound up, p) := hc.tail.head
  let τ1 : Vm := Vm.advance { τ with trace := p :: τ.trace }
  have s1 : Vm.step code τ = .next τ1 := by simp only [Vm.step, h0]; rfl
  refine ⟨τ1, τ1, Steps.one s1, ?_, rfl⟩
  simp only [Vm.step, τ1, Vm.advance, h1, hctx, hrun]; rfl

/-- `StashFunctionReturnValue · PopStack · DequeueFromReturnStack · VarPathName a · CopyAToVarPath`: the result is
stashed, the callee's state is dropped, the array is stored back -/
theorem bound_ret_steps (code : Code) (up : Bool) (a : Nat) (p ap q : Pos) (τ : Vm) (args : List (RV × Option Path))
    (ctx0 : List Call) (v : Val) (tr : List Pos) (V : VArr) (o : Option Path) (qr : List (RV × Option Path))
    (hc : CodeAt code τ.pc [(CInstr.stashBound up, p), (CInstr.popStack, p), (CInstr.dequeue, ap),
      (CInstr.arrPath a, ap), (CInstr.copyAToVarPath, ap)])
    (hctx : τ.ctx = ⟨args, some v⟩ :: ctx0) (htr : τ.trace = q :: tr) (hq : τ.queue = (.arr V, o) :: qr)
    (ha : a < τ.arrs.length) :
    Steps code τ { τ with pc := τ.pc + 5, regs := { τ.regs with a := .arr V }, funRes := some v, ctx := ctx0,
                          trace := tr, queue := qr, arrs := τ.arrs.set a (some V) } := by
  have h0 : code[τ.pc]? = some (CInstr.stashBound up, p) := hc.head
  have h1 : code[τ.pc + 1]? = some (CInstr.popStack, p) := hc.tail.head
  have h2 : code[τ.pc + 1 + 1]? = some (CInstr.dequeue, ap) := hc.tail.tail.head
  have h3 : code[τ.pc + 1 + 1 + 1]? = some (CInstr.arrPath a, ap) := hc.tail.tail.tail.head
  have h4 : code[τ.pc + 1 + 1 + 1 + 1]? = some (CInstr.copyAToVarPath, ap) := hc.tail.tail.tail.tail.head
  let τ1 : Vm := Vm.advance { τ with funRes := some v, ctx := ⟨args, some v⟩ :: ctx0, trace := q :: tr }
  let τ2 : Vm := Vm.advance { τ1 with ctx := ctx0, trace := tr }
  let τ3 : Vm := Vm.advance { Vm.setRA τ2 (.arr V) with queue := qr }
  let τ4 : Vm := Vm.advance { τ3 with paths := ⟨.arr a, []⟩ :: τ.paths }
  have s1 : Vm.step code τ = .next τ1 := by simp only [Vm.step, h0, hctx, htr]; rfl
  have s2 : Vm.step code τ1 = .next τ2 := by simp only [Vm.step, τ1, Vm.advance, h1]; rfl
  have s3 : Vm.step code τ2 = .next τ3 := by simp only [Vm.step, τ2, τ1, Vm.advance, h2, hq]; rfl
  have s4 : Vm.step code τ3 = .next τ4 := by simp only [Vm.step, τ3, τ2, τ1, Vm.advance, Vm.setRA, h3]; rfl
  refine Steps.cons s1 (Steps.cons s2 (Steps.cons s3 (Steps.cons s4 (Steps.one ?_))))
  simp only [Vm.step, τ4, τ3, τ2, τ1, Vm.advance, Vm.setRA, h4, writePath, ha, if_true]

theorem unstash_step (code : Code) (p : Pos) (τ : Vm) (v : Val) (hc : code[τ.pc]? = some (CInstr.unStash, p))
    (hf : τ.funRes = some v) :
    Steps code τ { τ with pc := τ.pc + 1, regs := { τ.regs with a := .sc v }, funRes := none } := by
  refine Steps.one ?_
  simp only [Vm.step, hc, hf]; rfl

/-- what the built-in computes on (array, dimension) is what the reference semantics prescribes -/
theorem boundRun_two (up : Bool) (V : VArr) (o1 o2 : Option Path) (dv : Val) (A : RArr) (p : Pos)
    (hd : V.dims = A.bounds) :
    match (ArrL.Ref.toIndex p (cast dv .int)).bind (fun k => ArrL.Ref.boundOf up A k p) with
    | .ok v => boundRun up [(.arr V, o1), (.sc dv, o2)] = .inl (.ok v)
    | .err c q => q = p ∧ boundRun up [(.arr V, o1), (.sc dv, o2)] = .inl (.error c)
    | .inexact => True
    | .illFormed => True := by
  cases hcst : cast dv .int with
  | inexact => simp only [ArrL.Ref.toIndex, ArrL.Ref.ERes.bind]
  | err e =>
    simp only [ArrL.Ref.toIndex, ArrL.Ref.ERes.bind]
    refine ⟨by first | rfl | trivial, ?_⟩
    simp only [boundRun, List.getElem?_cons_succ, List.getElem?_cons_zero, hcst]
  | ok w =>
    cases w with
    | long _ => simp only [ArrL.Ref.toIndex, ArrL.Ref.ERes.bind]
    | sgl _ => simp only [ArrL.Ref.toIndex, ArrL.Ref.ERes.bind]
    | dbl _ => simp only [ArrL.Ref.toIndex, ArrL.Ref.ERes.bind]
    | str _ => simp only [ArrL.Ref.toIndex, ArrL.Ref.ERes.bind]
    | int k =>
      simp only [ArrL.Ref.toIndex, ArrL.Ref.ERes.bind]
      by_cases hk : k > 0
      · rw [boundOf_eq' up A V hd k p hk]
        cases hb : (if up then Arr.ubound V k else Arr.lbound V k) with
        | none =>
          refine ⟨by first | rfl | trivial, ?_⟩
          simp only [boundRun, List.getElem?_cons_succ, List.getElem?_cons_zero, hcst, hk, if_true, hb]
        | some b =>
          simp only [boundRun, List.getElem?_cons_succ, List.getElem?_cons_zero, hcst, hk, if_true, hb]
      · have hk' : k ≤ 0 := by omega
        simp only [ArrL.Ref.boundOf, hk', if_true]
        refine ⟨by first | rfl | trivial, ?_⟩
        simp only [boundRun, List.getElem?_cons_succ, List.getElem?_cons_zero, hcst, hk, if_false]

/-- `BeginCollectArguments · VarPathName a · CopyVarPathToA · PushUnnamedByRef`: the whole array is the first argument -/
theorem bound_head_steps (code : Code) (a : Nat) (p ap : Pos) (σ : Vm) (V : VArr)
    (hc : CodeAt code σ.pc [(CInstr.beginArgs, p), (CInstr.arrPath a, ap), (CInstr.copyVarPathToA, ap),
      (CInstr.pushByRef, ap)])
    (hV : σ.arrs[a]? = some (some V)) :
    Steps code σ { σ with pc := σ.pc + 4, regs := { σ.regs with a := .arr V },
                          ctx := ⟨[(.arr V, some ⟨.arr a, []⟩)], none⟩ :: σ.ctx } := by
  have h0 : code[σ.pc]? = some (CInstr.beginArgs, p) := hc.head
  have h1 : code[σ.pc + 1]? = some (CInstr.arrPath a, ap) := hc.tail.head
  have h2 : code[σ.pc + 1 + 1]? = some (CInstr.copyVarPathToA, ap) := hc.tail.tail.head
  have h3 : code[σ.pc + 1 + 1 + 1]? = some (CInstr.pushByRef, ap) := hc.tail.tail.tail.head
  let σ1 : Vm := Vm.advance { σ with ctx := ⟨[], none⟩ :: σ.ctx }
  let σ2 : Vm := Vm.advance { σ1 with paths := ⟨.arr a, []⟩ :: σ.paths }
  let σ3 : Vm := Vm.advance (Vm.setRA σ2 (.arr V))
  have s1 : Vm.step code σ = .next σ1 := by simp only [Vm.step, h0]; rfl
  have s2 : Vm.step code σ1 = .next σ2 := by simp only [Vm.step, σ1, Vm.advance, h1]; rfl
  have s3 : Vm.step code σ2 = .next σ3 := by
    simp only [Vm.step, σ2, σ1, Vm.advance, h2, readPath, hV]; rfl
  refine Steps.cons s1 (Steps.cons s2 (Steps.cons s3 (Steps.one ?_)))
  simp only [Vm.step, σ3, σ2, σ1, Vm.advance, Vm.setRA, h3]; rfl

/-- the call and the write-back of the array, no other by-reference argument -/
theorem bound_mid_val (code : Code) (up : Bool) (a : Nat) (p ap : Pos) (τ : Vm) (args : List (RV × Option Path))
    (ctx0 : List Call) (V : VArr) (o : Option Path) (v : Val)
    (hc : CodeAt code τ.pc [(CInstr.pushStack, p), (CInstr.builtInBound up, p), (CInstr.enqueue 0, ap),
      (CInstr.stashBound up, p), (CInstr.popStack, p), (CInstr.dequeue, ap), (CInstr.arrPath a, ap),
      (CInstr.copyAToVarPath, ap)])
    (hctx : τ.ctx = ⟨args, none⟩ :: ctx0) (hq : τ.queue = []) (hx : args[0]? = some (.arr V, o))
    (hrun : boundRun up args = .inl (.ok v)) (ha : a < τ.arrs.length) :
    Steps code τ { τ with pc := τ.pc + 8, regs := { τ.regs with a := .arr V }, funRes := some v, ctx := ctx0,
                          arrs := τ.arrs.set a (some V) } := by
  have hcA : CodeAt code τ.pc [(CInstr.pushStack, p), (CInstr.builtInBound up, p), (CInstr.enqueue 0, ap)] :=
    CodeAt.append_left (b := [(CInstr.stashBound up, p), (CInstr.popStack, p), (CInstr.dequeue, ap),
      (CInstr.arrPath a, ap), (CInstr.copyAToVarPath, ap)]) hc
  have hcC := CodeAt.append_right (a := [(CInstr.pushStack, p), (CInstr.builtInBound up, p), (CInstr.enqueue 0, ap)])
    (b := [(CInstr.stashBound up, p), (CInstr.popStack, p), (CInstr.dequeue, ap),
      (CInstr.arrPath a, ap), (CInstr.copyAToVarPath, ap)]) hc
  have stA := bound_call_steps code up p ap τ args ctx0 _ v hcA hctx hq hx hrun
  refine stA.trans ?_
  have stC := bound_ret_steps code up a p ap p
    { τ with pc := τ.pc + 3, trace := p :: τ.trace, ctx := ⟨args, some v⟩ :: ctx0, queue := [(.arr V, o)] }
    args ctx0 v τ.trace V o [] hcC rfl rfl rfl ha
  refine stC.cast ?_
  simp only [hq]

/-- the call and the write-back of the array when the dimension argument is by reference too: it stays in the queue -/
theorem bound_mid_ref (code : Code) (up : Bool) (a : Nat) (p ap dq : Pos) (τ : Vm) (args : List (RV × Option Path))
    (ctx0 : List Call) (V : VArr) (o : Option Path) (y : RV × Option Path) (v : Val)
    (hc : CodeAt code τ.pc [(CInstr.pushStack, p), (CInstr.builtInBound up, p), (CInstr.enqueue 0, ap),
      (CInstr.enqueue 1, dq),
      (CInstr.stashBound up, p), (CInstr.popStack, p), (CInstr.dequeue, ap), (CInstr.arrPath a, ap),
      (CInstr.copyAToVarPath, ap)])
    (hctx : τ.ctx = ⟨args, none⟩ :: ctx0) (hq : τ.queue = []) (hx : args[0]? = some (.arr V, o))
    (hy : args[1]? = some y)
    (hrun : boundRun up args = .inl (.ok v)) (ha : a < τ.arrs.length) :
    Steps code τ { τ with pc := τ.pc + 9, regs := { τ.regs with a := .arr V }, funRes := some v, ctx := ctx0,
                          queue := [y], arrs := τ.arrs.set a (some V) } := by
  have hcA : CodeAt code τ.pc [(CInstr.pushStack, p), (CInstr.builtInBound up, p), (CInstr.enqueue 0, ap)] :=
    CodeAt.append_left (b := [(CInstr.enqueue 1, dq), (CInstr.stashBound up, p), (CInstr.popStack, p),
      (CInstr.dequeue, ap), (CInstr.arrPath a, ap), (CInstr.copyAToVarPath, ap)]) hc
  have hcB := CodeAt.append_right (a := [(CInstr.pushStack, p), (CInstr.builtInBound up, p), (CInstr.enqueue 0, ap)])
    (b := [(CInstr.enqueue 1, dq), (CInstr.stashBound up, p), (CInstr.popStack, p), (CInstr.dequeue, ap),
      (CInstr.arrPath a, ap), (CInstr.copyAToVarPath, ap)]) hc
  have stA := bound_call_steps code up p ap τ args ctx0 _ v hcA hctx hq hx hrun
  refine stA.trans ?_
  let υ : Vm := { τ with pc := τ.pc + 3, trace := p :: τ.trace, ctx := ⟨args, some v⟩ :: ctx0,
                         queue := [(.arr V, o)] }
  let υ1 : Vm := Vm.advance { υ with queue := [(.arr V, o), y] }
  have he : code[υ.pc]? = some (CInstr.enqueue 1, dq) := hcB.head
  have sB : Vm.step code υ = .next υ1 := by
    simp only [Vm.step, he, υ, hy]; rfl
  have hcC : CodeAt code υ1.pc [(CInstr.stashBound up, p), (CInstr.popStack, p), (CInstr.dequeue, ap),
      (CInstr.arrPath a, ap), (CInstr.copyAToVarPath, ap)] := hcB.tail
  have stC := bound_ret_steps code up a p ap p υ1 args ctx0 v τ.trace V o [y] hcC rfl rfl rfl ha
  exact (Steps.one sB).trans stC

end RbThm.ArrLSim
