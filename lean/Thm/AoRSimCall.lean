import Thm.AoRSimBase
/-!
Layer AoR (arrays of records / of fixed-length strings), simulation part — the call of the built-in functions
`LBOUND` / `UBOUND`: the whole array (dimensions + flat vector of `Variant` trees) is copied into A, joins the argument
list as a by-reference argument, is queued after the call and stored back into the array variable; the result is stashed
over `PopStack` and ends up in A.  The array written back is the one read BEFORE the dimension argument was evaluated; it
still represents the reference array (`ArrsRel.set_same`), so the reference state is unchanged.

`case_bound` (`LBOUND(a)` / `UBOUND(a)`), `case_boundD` (`LBOUND(a, d)` / `UBOUND(a, d)`, `d` by value).
Port of `Thm/ArrLSimCall.lean` + the LBOUND / UBOUND part of `Thm/ArrLSimExpr.lean`.
-/
namespace RbThm.AoRSim
set_option linter.unusedVariables false
set_option linter.unusedSimpArgs false
open RbModel RbModel.Num RbModel.AoR RbModel.AoR.Compile RbModel.AoR.Vm
open RbModel.Ast (Pos)
open RbModel.RecL (ETy FTy FFields expand zeroOf)
open RbModel.RecL.Vm (allocTy defaultVar)
open RbThm.AoRLen RbThm.ArrLNum RbThm.RecLTy RbThm.AoRTy

/-! ### the built-in on the collected arguments -/

/-- the bound the reference semantics reports is the one the VM's built-in computes from the dimensions -/
theorem call_boundOf_eq (up : Bool) (A : RArr) (V : VArr) (hd : V.dims = A.bounds) (k : Int) (p : Pos) (hk : k > 0) :
    AoR.Ref.boundOf up A k p =
      match (if up then Arr.ubound V k else Arr.lbound V k) with
      | some b => .ok (.sc (.int b))
      | none => .err AoR.Ref.codeSubscript p := by
  have hk' : ¬ (k ≤ 0) := by omega
  simp only [AoR.Ref.boundOf, hk', if_false, Arr.ubound, Arr.lbound, Arr.dimBounds, hk, if_true, hd]
  cases hb : A.bounds[k.toNat - 1]? with
  | none => cases up <;> simp
  | some b => obtain ⟨lo, hi⟩ := b; cases up <;> simp

/-- what the built-in computes on the array alone (dimension 1) -/
theorem call_boundRun_one (up : Bool) (V : VArr) (o1 : Option Path) (A : RArr) (p : Pos) (hd : V.dims = A.bounds) :
    match AoR.Ref.boundOf up A 1 p with
    | .ok v => ∃ w, v = .sc w ∧ boundRun up [(V.toRV, o1)] = .inl (.ok w)
    | .err c q => q = p ∧ boundRun up [(V.toRV, o1)] = .inl (.error c)
    | .inexact => True
    | .illFormed => True := by
  obtain ⟨d, es⟩ := V
  rw [call_boundOf_eq up A ⟨d, es⟩ hd 1 p (by omega)]
  cases hb : (if up then Arr.ubound (⟨d, es⟩ : VArr) 1 else Arr.lbound (⟨d, es⟩ : VArr) 1) with
  | none =>
    refine ⟨rfl, ?_⟩
    simp only [boundRun, VArr.toRV, List.getElem?_cons_succ, List.getElem?_cons_zero, List.getElem?_nil, hb]
  | some b =>
    refine ⟨.int b, rfl, ?_⟩
    simp only [boundRun, VArr.toRV, List.getElem?_cons_succ, List.getElem?_cons_zero, List.getElem?_nil, hb]

/-- what the built-in computes on (array, dimension) is what the reference semantics prescribes -/
theorem call_boundRun_two (up : Bool) (V : VArr) (o1 o2 : Option Path) (dv : Val) (A : RArr) (p : Pos)
    (hd : V.dims = A.bounds) :
    match (AoR.Ref.toIndex p (cast dv .int)).bind (fun k => AoR.Ref.boundOf up A k p) with
    | .ok v => ∃ w, v = .sc w ∧ boundRun up [(V.toRV, o1), (.leaf dv, o2)] = .inl (.ok w)
    | .err c q => q = p ∧ boundRun up [(V.toRV, o1), (.leaf dv, o2)] = .inl (.error c)
    | .inexact => True
    | .illFormed => True := by
  obtain ⟨d, es⟩ := V
  cases hcst : cast dv .int with
  | inexact => simp only [AoR.Ref.toIndex, RecL.Ref.ERes.bind]
  | err e =>
    simp only [AoR.Ref.toIndex, RecL.Ref.ERes.bind]
    refine ⟨by first | rfl | trivial, ?_⟩
    simp only [boundRun, VArr.toRV, List.getElem?_cons_succ, List.getElem?_cons_zero, hcst]
  | ok w =>
    cases w with
    | long _ => simp only [AoR.Ref.toIndex, RecL.Ref.ERes.bind]
    | sgl _ => simp only [AoR.Ref.toIndex, RecL.Ref.ERes.bind]
    | dbl _ => simp only [AoR.Ref.toIndex, RecL.Ref.ERes.bind]
    | str _ => simp only [AoR.Ref.toIndex, RecL.Ref.ERes.bind]
    | int k =>
      simp only [AoR.Ref.toIndex, RecL.Ref.ERes.bind]
      by_cases hk : k > 0
      · rw [call_boundOf_eq up A ⟨d, es⟩ hd k p hk]
        cases hb : (if up then Arr.ubound (⟨d, es⟩ : VArr) k else Arr.lbound (⟨d, es⟩ : VArr) k) with
        | none =>
          refine ⟨by first | rfl | trivial, ?_⟩
          simp only [boundRun, VArr.toRV, List.getElem?_cons_succ, List.getElem?_cons_zero, hcst, hk, if_true, hb]
        | some b =>
          refine ⟨.int b, rfl, ?_⟩
          simp only [boundRun, VArr.toRV, List.getElem?_cons_succ, List.getElem?_cons_zero, hcst, hk, if_true, hb]
      · have hk' : k ≤ 0 := by omega
        simp only [AoR.Ref.boundOf, hk', if_true]
        refine ⟨by first | rfl | trivial, ?_⟩
        simp only [boundRun, VArr.toRV, List.getElem?_cons_succ, List.getElem?_cons_zero, hcst, hk, if_false]

/-! ### the instructions of the call, at the level of VM states -/

/-- `BeginCollectArguments · VarPathName a · CopyVarPathToA · PushUnnamedByRef`: the whole array is the first argument -/
theorem call_head_steps (code : Code) (a : Nat) (p ap : Pos) (σ : Vm) (V : VArr)
    (hc : CodeAt code σ.pc [(CInstr.beginArgs, p), (CInstr.arrPath a, ap), (CInstr.copyVarPathToA, ap),
      (CInstr.pushByRef, ap)])
    (hV : σ.arrs[a]? = some (some V)) :
    Steps code σ { σ with pc := σ.pc + 4, regs := { σ.regs with a := V.toRV },
                          ctx := ⟨[(V.toRV, some ⟨.arr a, [], []⟩)], none⟩ :: σ.ctx } := by
  have h0 : code[σ.pc]? = some (CInstr.beginArgs, p) := hc.head
  have h1 : code[σ.pc + 1]? = some (CInstr.arrPath a, ap) := hc.tail.head
  have h2 : code[σ.pc + 1 + 1]? = some (CInstr.copyVarPathToA, ap) := hc.tail.tail.head
  have h3 : code[σ.pc + 1 + 1 + 1]? = some (CInstr.pushByRef, ap) := hc.tail.tail.tail.head
  let σ1 : Vm := Vm.advance { σ with ctx := ⟨[], none⟩ :: σ.ctx }
  let σ2 : Vm := Vm.advance { σ1 with paths := ⟨.arr a, [], []⟩ :: σ.paths }
  let σ3 : Vm := Vm.advance (Vm.setRA σ2 V.toRV)
  have s1 : Vm.step code σ = .next σ1 := by simp only [Vm.step, h0]; rfl
  have s2 : Vm.step code σ1 = .next σ2 := by simp only [Vm.step, σ1, Vm.advance, h1]; rfl
  have s3 : Vm.step code σ2 = .next σ3 := by
    simp only [Vm.step, σ2, σ1, Vm.advance, h2, readPath, hV, List.isEmpty_nil, if_true]; rfl
  refine Steps.cons s1 (Steps.cons s2 (Steps.cons s3 (Steps.one ?_)))
  simp only [Vm.step, σ3, σ2, σ1, Vm.advance, Vm.setRA, h3]; rfl

/-- `PushStack · BuiltInFunction(L/UBound) · EnqueueToReturnStack 0`: the result is recorded in the callee's state, the
first argument (the array) is queued for the write-back -/
theorem call_run_steps (code : Code) (up : Bool) (p ap : Pos) (τ : Vm) (args : List (RV × Option Path))
    (ctx0 : List Call) (x : RV × Option Path) (v : Val)
    (hc : CodeAt code τ.pc [(CInstr.pushStack, p), (CInstr.builtInBound up, p), (CInstr.enqueue 0, ap)])
    (hctx : τ.ctx = ⟨args, none⟩ :: ctx0) (hq : τ.queue = []) (hx : args[0]? = some x)
    (hrun : boundRun up args = .inl (.ok v)) :
    Steps code τ { τ with pc := τ.pc + 3, trace := p :: τ.trace, ctx := ⟨args, some v⟩ :: ctx0, queue := [x] } := by
  have h0 : code[τ.pc]? = some (CInstr.pushStack, p) := hc.head
  have h1 : code[τ.pc + 1]? = some (CInstr.builtInBound up, p) := hc.tail.head
  have h2 : code[τ.pc + 1 + 1]? = some (CInstr.enqueue 0, ap) := hc.tail.tail.head
  let τ1 : Vm := Vm.advance { τ with trace := p :: τ.trace }
  let τ2 : Vm := Vm.advance { τ1 with ctx := ⟨args, some v⟩ :: ctx0 }
  have s1 : Vm.step code τ = .next τ1 := by simp only [Vm.step, h0]; rfl
  have s2 : Vm.step code τ1 = .next τ2 := by simp only [Vm.step, τ1, Vm.advance, h1, hctx, hrun]; rfl
  refine Steps.cons s1 (Steps.cons s2 (Steps.one ?_))
  simp only [Vm.step, τ2, τ1, Vm.advance, h2, hx, hq, List.nil_append]

/-- the built-in fails: the error is reported at the position of the `PushStack` -/
theorem call_run_error (code : Code) (up : Bool) (p : Pos) (τ : Vm) (args : List (RV × Option Path))
    (ctx0 : List Call) (c : Nat)
    (hc : CodeAt code τ.pc [(CInstr.pushStack, p), (CInstr.builtInBound up, p)])
    (hctx : τ.ctx = ⟨args, none⟩ :: ctx0) (hrun : boundRun up args = .inl (.error c)) :
    ErrsWith code τ c p τ.out := by
  have h0 : code[τ.pc]? = some (CInstr.pushStack, p) := hc.head
  have h1 : code[τ.pc + 1]? = some (CInstr.builtInBound up, p) := hc.tail.head
  let τ1 : Vm := Vm.advance { τ with trace := p :: τ.trace }
  have s1 : Vm.step code τ = .next τ1 := by simp only [Vm.step, h0]; rfl
  refine ⟨τ1, τ1, Steps.one s1, ?_, rfl⟩
  simp only [Vm.step, τ1, Vm.advance, h1, hctx, hrun]; rfl

/-- `StashFunctionReturnValue · PopStack · DequeueFromReturnStack · VarPathName a · CopyAToVarPath`: the result is
stashed, the callee's state is dropped, the array is stored back -/
theorem call_ret_steps (code : Code) (up : Bool) (a : Nat) (p ap q : Pos) (τ : Vm) (args : List (RV × Option Path))
    (ctx0 : List Call) (v : Val) (tr : List Pos) (V : VArr) (o : Option Path) (qr : List (RV × Option Path))
    (hc : CodeAt code τ.pc [(CInstr.stashBound up, p), (CInstr.popStack, p), (CInstr.dequeue, ap),
      (CInstr.arrPath a, ap), (CInstr.copyAToVarPath, ap)])
    (hctx : τ.ctx = ⟨args, some v⟩ :: ctx0) (htr : τ.trace = q :: tr) (hq : τ.queue = (V.toRV, o) :: qr)
    (ha : a < τ.arrs.length) :
    Steps code τ { τ with pc := τ.pc + 5, regs := { τ.regs with a := V.toRV }, funRes := some v, ctx := ctx0,
                          trace := tr, queue := qr, arrs := τ.arrs.set a (some V) } := by
  obtain ⟨d, es⟩ := V
  have h0 : code[τ.pc]? = some (CInstr.stashBound up, p) := hc.head
  have h1 : code[τ.pc + 1]? = some (CInstr.popStack, p) := hc.tail.head
  have h2 : code[τ.pc + 1 + 1]? = some (CInstr.dequeue, ap) := hc.tail.tail.head
  have h3 : code[τ.pc + 1 + 1 + 1]? = some (CInstr.arrPath a, ap) := hc.tail.tail.tail.head
  have h4 : code[τ.pc + 1 + 1 + 1 + 1]? = some (CInstr.copyAToVarPath, ap) := hc.tail.tail.tail.tail.head
  let τ1 : Vm := Vm.advance { τ with funRes := some v, ctx := ⟨args, some v⟩ :: ctx0, trace := q :: tr }
  let τ2 : Vm := Vm.advance { τ1 with ctx := ctx0, trace := tr }
  let τ3 : Vm := Vm.advance { Vm.setRA τ2 (.arr d es) with queue := qr }
  let τ4 : Vm := Vm.advance { τ3 with paths := ⟨.arr a, [], []⟩ :: τ.paths }
  have s1 : Vm.step code τ = .next τ1 := by simp only [Vm.step, h0, hctx, htr]; rfl
  have s2 : Vm.step code τ1 = .next τ2 := by simp only [Vm.step, τ1, Vm.advance, h1]; rfl
  have s3 : Vm.step code τ2 = .next τ3 := by simp only [Vm.step, τ2, τ1, Vm.advance, h2, hq, VArr.toRV]; rfl
  have s4 : Vm.step code τ3 = .next τ4 := by simp only [Vm.step, τ3, τ2, τ1, Vm.advance, Vm.setRA, h3]; rfl
  refine Steps.cons s1 (Steps.cons s2 (Steps.cons s3 (Steps.cons s4 (Steps.one ?_))))
  simp only [Vm.step, τ4, τ3, τ2, τ1, Vm.advance, Vm.setRA, h4, writePath, ha, decide_true, List.isEmpty_nil,
    Bool.and_self, if_true, VArr.toRV]

theorem call_unstash_step (code : Code) (p : Pos) (τ : Vm) (v : Val) (hc : code[τ.pc]? = some (CInstr.unStash, p))
    (hf : τ.funRes = some v) :
    Steps code τ { τ with pc := τ.pc + 1, regs := { τ.regs with a := .leaf v }, funRes := none } := by
  refine Steps.one ?_
  simp only [Vm.step, hc, hf]; rfl

/-- the call, the write-back of the array and `UnStashFunctionReturnValue` -/
theorem call_mid_steps (code : Code) (up : Bool) (a : Nat) (p ap : Pos) (τ : Vm) (args : List (RV × Option Path))
    (ctx0 : List Call) (V : VArr) (o : Option Path) (v : Val)
    (hc : CodeAt code τ.pc [(CInstr.pushStack, p), (CInstr.builtInBound up, p), (CInstr.enqueue 0, ap),
      (CInstr.stashBound up, p), (CInstr.popStack, p), (CInstr.dequeue, ap), (CInstr.arrPath a, ap),
      (CInstr.copyAToVarPath, ap), (CInstr.unStash, p)])
    (hctx : τ.ctx = ⟨args, none⟩ :: ctx0) (hq : τ.queue = []) (hx : args[0]? = some (V.toRV, o))
    (hrun : boundRun up args = .inl (.ok v)) (ha : a < τ.arrs.length) :
    Steps code τ { τ with pc := τ.pc + 9, regs := { τ.regs with a := .leaf v }, funRes := none, ctx := ctx0,
                          arrs := τ.arrs.set a (some V) } := by
  have hcA : CodeAt code τ.pc [(CInstr.pushStack, p), (CInstr.builtInBound up, p), (CInstr.enqueue 0, ap)] :=
    CodeAt.append_left (b := [(CInstr.stashBound up, p), (CInstr.popStack, p), (CInstr.dequeue, ap),
      (CInstr.arrPath a, ap), (CInstr.copyAToVarPath, ap), (CInstr.unStash, p)]) hc
  have hcC' := CodeAt.append_right (a := [(CInstr.pushStack, p), (CInstr.builtInBound up, p), (CInstr.enqueue 0, ap)])
    (b := [(CInstr.stashBound up, p), (CInstr.popStack, p), (CInstr.dequeue, ap),
      (CInstr.arrPath a, ap), (CInstr.copyAToVarPath, ap), (CInstr.unStash, p)]) hc
  have hcC : CodeAt code (τ.pc + 3) [(CInstr.stashBound up, p), (CInstr.popStack, p), (CInstr.dequeue, ap),
      (CInstr.arrPath a, ap), (CInstr.copyAToVarPath, ap)] :=
    CodeAt.append_left (b := [(CInstr.unStash, p)]) hcC'
  have hun : code[τ.pc + 3 + 5]? = some (CInstr.unStash, p) :=
    (CodeAt.append_right (a := [(CInstr.stashBound up, p), (CInstr.popStack, p), (CInstr.dequeue, ap),
      (CInstr.arrPath a, ap), (CInstr.copyAToVarPath, ap)]) (b := [(CInstr.unStash, p)]) hcC').head
  have stA := call_run_steps code up p ap τ args ctx0 _ v hcA hctx hq hx hrun
  refine stA.trans ?_
  have stC := call_ret_steps code up a p ap p
    { τ with pc := τ.pc + 3, trace := p :: τ.trace, ctx := ⟨args, some v⟩ :: ctx0, queue := [(V.toRV, o)] }
    args ctx0 v τ.trace V o [] hcC rfl rfl rfl ha
  refine stC.trans ?_
  have stU := call_unstash_step code p
    { τ with pc := τ.pc + 3 + 5, regs := { τ.regs with a := V.toRV }, funRes := some v, ctx := ctx0,
             trace := τ.trace, queue := [], arrs := τ.arrs.set a (some V) } v hun rfl
  refine stU.cast ?_
  simp only [hq]

/-- the state relation after the write-back of an array that represents the reference array -/
theorem call_rel_setSame {sc : Scope} {s : St} {σ τ : Vm} (h : Rel sc s σ)
    {a : Nat} {et : ETy} {ft : FTy} {A : RArr} {V : VArr} (ha : sc.arrs[a]? = some et)
    (hA : s.arrs[a]? = some (some A)) (he : expand sc.types et = some ft) (hr : ArrRel ft A V)
    (hc : τ.arrs = σ.arrs.set a (some V)) (hcv : τ.vars = σ.vars) (ht : τ.types = σ.types) (ho : τ.out = σ.out)
    (hd : τ.data = σ.data) (hi : τ.dataIdx = σ.dataIdx) (hq : τ.queue = []) (hf : τ.funRes = none) :
    Rel sc s τ :=
  ⟨h.twf, h.types, by rw [ht]; exact h.vtypes, by rw [hcv]; exact h.vars,
    by rw [hc]; exact h.arrs.set_same ha hA he hr, h.typed, h.nonul, by rw [ho, h.out], by rw [hd, h.data],
    by rw [hi, h.dataIdx], hq, hf, h.dnonul⟩

/-- from the state in which the arguments are collected (the array first) to the end of the expression: the built-in
computes `v`, the array is stored back, the result is in A -/
theorem call_finish (code : Code) (sc : Scope) (up : Bool) (a : Nat) (p ap : Pos) (s : St) (σ τ : Vm)
    (args : List (RV × Option Path)) (et : ETy) (ft : FTy) (A : RArr) (V : VArr) (o : Option Path) (v : Val)
    (hc : CodeAt code τ.pc [(CInstr.pushStack, p), (CInstr.builtInBound up, p), (CInstr.enqueue 0, ap),
      (CInstr.stashBound up, p), (CInstr.popStack, p), (CInstr.dequeue, ap), (CInstr.arrPath a, ap),
      (CInstr.copyAToVarPath, ap), (CInstr.unStash, p)])
    (hctx : τ.ctx = ⟨args, none⟩ :: σ.ctx) (hx : args[0]? = some (V.toRV, o))
    (hrun : boundRun up args = .inl (.ok v)) (hrel : Rel sc s τ) (hwa : sc.arrs[a]? = some et)
    (hA : s.arrs[a]? = some (some A)) (he : expand sc.types et = some ft) (hAV : ArrRel ft A V)
    (hvals : τ.vals = σ.vals) (hpaths : τ.paths = σ.paths) (hregs : τ.regStack = σ.regStack)
    (htr : τ.trace = σ.trace) (hsk : σ.skipNewline = false → τ.skipNewline = false) :
    ∃ υ, Steps code τ υ ∧ υ.pc = τ.pc + 9 ∧ ValRel (.sc v) υ.regs.a ∧ Rel sc s υ ∧ SameStacks σ υ := by
  have halt : a < τ.arrs.length := by
    rw [hrel.arrs.lenV]; exact (List.getElem?_eq_some_iff.mp hwa).1
  have st := call_mid_steps code up a p ap τ args σ.ctx V o v hc hctx hrel.queue hx hrun halt
  refine ⟨_, st, rfl, by simp only [ValRel, RecL.Spec.ValRel], ?_, ⟨hvals, hpaths, hregs, rfl, htr, hsk⟩⟩
  exact call_rel_setSame hrel hwa hA he hAV rfl rfl rfl rfl rfl rfl hrel.queue rfl

/-! ### the two case lemmas -/

/-- `LBOUND(a)` / `UBOUND(a)`: the array goes into A, into the argument list, into the by-reference queue and back
into the variable; the result is stashed over `PopStack` and ends up in A -/
theorem case_bound (code : Code) (sc : Scope) (up : Bool) (a : Nat) (ap p : Pos) : RvSpec code sc (.bound up a ap p) := by
  intro off s σ hc hpc hr hw
  simp only [EWf, AoRTy.ExprTyped] at hw
  simp only [compileExpr] at hc
  simp only [AoR.Ref.eval, AoR.Ref.getArr, compileExpr, List.length_cons, List.length_nil]
  cases hA : s.arrs[a]? with
  | none => trivial
  | some oA =>
    cases oA with
    | none => trivial
    | some A =>
      simp only [RecL.Ref.ERes.bind]
      have hwa : sc.arrs[a]? = some sc.arrs[a] := List.getElem?_eq_getElem hw
      obtain ⟨V, ft, hV, he, hAV⟩ := hr.arrs.lookup hwa hA
      subst hpc
      have hcH : CodeAt code σ.pc [(CInstr.beginArgs, p), (CInstr.arrPath a, ap), (CInstr.copyVarPathToA, ap),
          (CInstr.pushByRef, ap)] :=
        CodeAt.append_left (b := [(CInstr.pushStack, p), (CInstr.builtInBound up, p), (CInstr.enqueue 0, ap),
          (CInstr.stashBound up, p), (CInstr.popStack, p), (CInstr.dequeue, ap), (CInstr.arrPath a, ap),
          (CInstr.copyAToVarPath, ap), (CInstr.unStash, p)]) hc
      have hcM : CodeAt code (σ.pc + 4) [(CInstr.pushStack, p), (CInstr.builtInBound up, p), (CInstr.enqueue 0, ap),
          (CInstr.stashBound up, p), (CInstr.popStack, p), (CInstr.dequeue, ap), (CInstr.arrPath a, ap),
          (CInstr.copyAToVarPath, ap), (CInstr.unStash, p)] :=
        CodeAt.append_right (a := [(CInstr.beginArgs, p), (CInstr.arrPath a, ap), (CInstr.copyVarPathToA, ap),
          (CInstr.pushByRef, ap)]) hc
      have st0 := call_head_steps code a p ap σ V hcH hV
      let σ4 : Vm := { σ with pc := σ.pc + 4, regs := { σ.regs with a := V.toRV },
                              ctx := ⟨[(V.toRV, some ⟨.arr a, [], []⟩)], none⟩ :: σ.ctx }
      have hr4 : Rel sc s σ4 := hr.same rfl rfl rfl rfl rfl rfl rfl rfl
      have hrun := call_boundRun_one up V (some ⟨.arr a, [], []⟩) A p hAV.dims
      generalize AoR.Ref.boundOf up A 1 p = r at hrun ⊢
      cases r with
      | inexact => trivial
      | illFormed => trivial
      | err c q =>
        obtain ⟨hq, hrun⟩ := hrun
        subst hq
        simp only [RvPost]
        rw [← hr.out]
        exact ErrsWith.of_steps st0 (call_run_error code up q σ4 _ σ.ctx c
          (CodeAt.append_left (b := [(CInstr.enqueue 0, ap), (CInstr.stashBound up, q), (CInstr.popStack, q),
            (CInstr.dequeue, ap), (CInstr.arrPath a, ap), (CInstr.copyAToVarPath, ap), (CInstr.unStash, q)]) hcM)
          rfl hrun)
      | ok v =>
        obtain ⟨w, hv, hrun⟩ := hrun
        subst hv
        obtain ⟨υ, st, hp, hav, hrel, hss⟩ := call_finish code sc up a p ap s σ σ4 _ _ ft A V _ w hcM rfl rfl hrun hr4
          hwa hA he hAV rfl rfl rfl rfl id
        exact ⟨υ, st0.trans st, by rw [hp], hav, hrel, hss⟩

/-- `LBOUND(a, d)` / `UBOUND(a, d)` with a by-value dimension argument: the array is read (and pushed) BEFORE `d` is
evaluated, and that copy is stored back after the call -/
theorem case_boundD (code : Code) (sc : Scope) (up : Bool) (a : Nat) (ap : Pos) (d : AoR.Expr) (p : Pos)
    (hD : RvSpec code sc d) : RvSpec code sc (.boundD up a ap d p) := by
  intro off s σ hc hpc hr hw
  simp only [EWf, AoRTy.ExprTyped] at hw
  obtain ⟨hw, hwd, hnum, hnr⟩ := hw
  simp only [compileExpr] at hc
  simp only [AoR.Ref.eval, AoR.Ref.getArr, compileExpr]
  cases hA : s.arrs[a]? with
  | none => trivial
  | some oA =>
    cases oA with
    | none => trivial
    | some A =>
      simp only [RecL.Ref.ERes.bind]
      have hwa : sc.arrs[a]? = some sc.arrs[a] := List.getElem?_eq_getElem hw
      obtain ⟨V, ft, hV, he, hAV⟩ := hr.arrs.lookup hwa hA
      subst hpc
      have st0 := call_head_steps code a p ap σ V hc.append_left.append_left.append_left hV
      let σ4 : Vm := { σ with pc := σ.pc + 4, regs := { σ.regs with a := V.toRV },
                              ctx := ⟨[(V.toRV, some ⟨.arr a, [], []⟩)], none⟩ :: σ.ctx }
      have hr4 : Rel sc s σ4 := hr.same rfl rfl rfl rfl rfl rfl rfl rfl
      have hcd : CodeAt code (σ.pc + 4) (compileExpr d) := hc.append_left.append_left.append_right
      have hd := hD (σ.pc + 4) s σ4 hcd rfl hr4 hwd
      generalize AoR.Ref.eval s.env s.arrs d = rd at hd ⊢
      cases rd with
      | err c q => exact ErrsWith.of_steps st0 hd
      | inexact => trivial
      | illFormed => trivial
      | ok dv =>
        obtain ⟨τ, st, hp, ha, hrel, hss⟩ := hd
        cases dv with
        | udt fs => trivial
        | sc dw =>
          show RvPost code sc _ σ.pc s σ
            ((AoR.Ref.toIndex p (cast dw .int)).bind fun k => AoR.Ref.boundOf up A k p)
          simp only [ValRel, RecL.Spec.ValRel] at ha
          have hctxτ : τ.ctx = ⟨[(V.toRV, some ⟨.arr a, [], []⟩)], none⟩ :: σ.ctx := hss.ctx
          have hpv : code[τ.pc]? = some (CInstr.pushByVal, d.pos) := by
            have := hc.append_left.append_right.head
            rw [hp, ← this]; congr 1
            simp only [List.length_append, List.length_cons, List.length_nil]; omega
          let τ1 : Vm := Vm.advance
            { τ with ctx := ⟨[(V.toRV, some ⟨.arr a, [], []⟩), (.leaf dw, none)], none⟩ :: σ.ctx }
          have s1 : Vm.step code τ = .next τ1 := by
            simp only [Vm.step, hpv, hctxτ, ha]; rfl
          have hmid : CodeAt code τ1.pc [(CInstr.pushStack, p), (CInstr.builtInBound up, p), (CInstr.enqueue 0, ap),
              (CInstr.stashBound up, p), (CInstr.popStack, p), (CInstr.dequeue, ap), (CInstr.arrPath a, ap),
              (CInstr.copyAToVarPath, ap), (CInstr.unStash, p)] := by
            have := hc.append_right
            refine this.cast ?_ rfl
            simp only [τ1, Vm.advance, hp, List.length_append, List.length_cons, List.length_nil]; omega
          have pre : Steps code σ τ1 := st0.trans (st.trans (Steps.one s1))
          have hrel1 : Rel sc s τ1 := hrel.same rfl rfl rfl rfl rfl rfl rfl rfl
          have hrun := call_boundRun_two up V (some ⟨.arr a, [], []⟩) none dw A p hAV.dims
          generalize ((AoR.Ref.toIndex p (cast dw .int)).bind fun k => AoR.Ref.boundOf up A k p) = r at hrun ⊢
          cases r with
          | inexact => trivial
          | illFormed => trivial
          | err c q =>
            obtain ⟨hq, hrun⟩ := hrun
            subst hq
            simp only [RvPost]
            rw [← hrel1.out]
            exact ErrsWith.of_steps pre (call_run_error code up q τ1 _ σ.ctx c
              (CodeAt.append_left (b := [(CInstr.enqueue 0, ap), (CInstr.stashBound up, q), (CInstr.popStack, q),
                (CInstr.dequeue, ap), (CInstr.arrPath a, ap), (CInstr.copyAToVarPath, ap), (CInstr.unStash, q)]) hmid)
              rfl hrun)
          | ok v =>
            obtain ⟨w, hv, hrun⟩ := hrun
            subst hv
            obtain ⟨υ, st2, hp2, hav, hrel2, hss2⟩ := call_finish code sc up a p ap s σ τ1 _ _ ft A V _ w hmid rfl rfl
              hrun hrel1 hwa hA he hAV hss.vals hss.paths hss.regStack hss.trace hss.skip
            refine ⟨υ, pre.trans st2, ?_, hav, hrel2, hss2⟩
            rw [hp2]
            simp only [τ1, Vm.advance, hp, List.length_append, List.length_cons, List.length_nil]; omega

end RbThm.AoRSim
