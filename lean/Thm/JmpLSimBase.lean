import RbModel.JmpL.Vm
import RbModel.JmpL.Ref
import Thm.JmpLLen
import Thm.C01SimRead
import Thm.JmpLShape
/-!
Jump layer (property C05), simulation part, infrastructure: the code the generator model `JmpL.Compile.compileStmt` emits,
run on the VM model `JmpL.Vm.step`, computes what the reference semantics `JmpL.Ref.exec` prescribes.

Ported from `Thm/C01SimBase.lean` (expressions are those of the core language: the first half of this file is that port;
the static predicates on expressions `SlotsBelow`, `ExprWt`, `NumericCond`, `ItemsSlots`, … and the typing lemmas are *reused*
from `RbThm.C01Sim`, they only mention `Ast.Expr` and `RbModel.Ref.eval`).  New here: the program context `Ctx`, the label
consistency `LabAt`, the entry condition `Entry` (from the first instruction, or from a label inside), and the statement
specification `StmtSpec`, which is *relative* in the register stack, the value stack and the GOSUB stack.
-/
namespace RbThm.JmpLSim
set_option linter.unusedVariables false
set_option linter.unusedSimpArgs false
open RbModel RbModel.Num RbModel.JmpL RbModel.JmpL.Compile RbModel.JmpL.Vm
open RbModel.Ast (Pos PrintItem CaseExpr)
open RbModel.Ref (St ERes eval evalTo codeOf codeOutOfData codeZeroStep zeroOf truthy printValue endsInSeparator StepSign
  binStep lift)
open RbModel.JmpL.Ref
open RbThm.JmpLLen
open RbThm.C01Sim (Typed SlotsBelow ExprWt NumericAt NumericCond ItemsSlots CaseSlots CondsSlots getD_of_lt zeroOf_eq
  isSep flagAfter flagAfter_eq)

/-! ### code placement -/

/-- the fragment `frag` sits in `code` at address `off` -/
def CodeAt (code : Code) (off : Nat) (frag : Code) : Prop :=
  ∀ i, i < frag.length → code[off + i]? = frag[i]?

theorem CodeAt.nil (code : Code) (off : Nat) : CodeAt code off [] := by
  intro i hi; simp at hi

theorem CodeAt.append_left {code : Code} {off : Nat} {a b : Code} (h : CodeAt code off (a ++ b)) :
    CodeAt code off a := by
  intro i hi
  have := h i (by simp; omega)
  rw [this, List.getElem?_append_left hi]

theorem CodeAt.append_right {code : Code} {off : Nat} {a b : Code} (h : CodeAt code off (a ++ b)) :
    CodeAt code (off + a.length) b := by
  intro i hi
  have := h (a.length + i) (by simp; omega)
  rw [Nat.add_assoc, this, List.getElem?_append_right (by omega)]
  congr 1; omega

theorem CodeAt.head {code : Code} {off : Nat} {x : CInstr × Pos} {rest : Code}
    (h : CodeAt code off (x :: rest)) : code[off]? = some x := by
  have := h 0 (by simp)
  simpa using this

theorem CodeAt.tail {code : Code} {off : Nat} {x : CInstr × Pos} {rest : Code}
    (h : CodeAt code off (x :: rest)) : CodeAt code (off + 1) rest := by
  have := CodeAt.append_right (a := [x]) (b := rest) (by simpa using h)
  simpa using this

/-! ### execution -/

/-- zero or more successful steps -/
inductive Steps (code : Code) : Vm → Vm → Prop
  | refl (σ : Vm) : Steps code σ σ
  | cons {σ τ υ : Vm} : Vm.step code σ = .next τ → Steps code τ υ → Steps code σ υ

theorem Steps.trans {code : Code} {a b c : Vm} (h₁ : Steps code a b) (h₂ : Steps code b c) : Steps code a c := by
  induction h₁ with
  | refl => exact h₂
  | cons hs _ ih => exact Steps.cons hs (ih h₂)

theorem Steps.one {code : Code} {σ τ : Vm} (h : Vm.step code σ = .next τ) : Steps code σ τ :=
  Steps.cons h (Steps.refl τ)

/-- the run reaches a state whose next step raises the BASIC error `(c, p)`, with the variables and
the output as they are at that point -/
def ErrsWith (code : Code) (σ : Vm) (c : Nat) (p : Pos) (env : List Val) (out : Print.WritePrinter) : Prop :=
  ∃ τ υ, Steps code σ τ ∧ Vm.step code τ = .error c p υ ∧ υ.env = env ∧ υ.out = out

theorem ErrsWith.of_steps {code : Code} {σ τ : Vm} {c : Nat} {p : Pos} {env out}
    (h₁ : Steps code σ τ) (h₂ : ErrsWith code τ c p env out) : ErrsWith code σ c p env out := by
  obtain ⟨a, b, h, hs, he, ho⟩ := h₂
  exact ⟨a, b, h₁.trans h, hs, he, ho⟩

/-! ### expressions -/

/-- the state after an expression has been evaluated into A: only A (and scratch register B) and the
program counter differ -/
def afterExpr (σ : Vm) (pc : Nat) (v b : Val) : Vm :=
  { σ with pc := pc, regs := { σ.regs with a := v, b := b } }

/-- evaluating an instruction that writes A from a `Res Val` -/
theorem resA_ok {σ : Vm} {p : Pos} {r : Res Val} {v : Val} (h : r = .ok v) :
    resA σ p r = .next (advance (setA σ v)) := by subst h; rfl

theorem resA_err {σ : Vm} {p : Pos} {r : Res Val} {e : Err} (h : r = .err e) :
    resA σ p r = .error (codeOf e) p σ := by subst h; rfl

/-- `binStep` of the reference semantics is the VM's operator instruction followed, for `/`, by the
`Cast` the generator emits -/
theorem binStep_eq (op : Op) (t : Ty) (a b : Val) :
    binStep op t a b =
      (if op = .divide then (binInstr op a b).bind (fun q => cast q t) else binInstr op a b) := by
  cases op <;> simp [binStep, binInstr]


/-- what an expression's code does, as a predicate on the start state -/
def ExprSpec (code : Code) (e : Ast.Expr) (off : Nat) (σ : Vm) : Prop :=
  match eval σ.env e with
  | .ok v => ∃ b, Steps code σ (afterExpr σ (off + (compileExpr e).length) v b)
  | .err c p => ErrsWith code σ c p σ.env σ.out
  | .inexact => True

theorem expr_lit (code : Code) (v : Val) (p : Pos) (off : Nat) (σ : Vm)
    (hc : CodeAt code off (compileExpr (.lit v p))) (hpc : σ.pc = off) :
    ExprSpec code (.lit v p) off σ := by
  simp only [ExprSpec, eval, compileExpr, List.length_singleton]
  refine ⟨σ.regs.b, Steps.one ?_⟩
  have h0 : code[σ.pc]? = some (CInstr.loadA v, p) := by rw [hpc]; exact hc.head
  simp only [Vm.step, h0]
  subst hpc
  rfl

theorem expr_var (code : Code) (x : Nat) (t : Ty) (p : Pos) (off : Nat) (σ : Vm)
    (hc : CodeAt code off (compileExpr (.var x t p))) (hpc : σ.pc = off) (hx : x < σ.env.length) :
    ExprSpec code (.var x t p) off σ := by
  obtain ⟨hg, hs⟩ := getD_of_lt (Ref.zeroOf t) hx
  simp only [ExprSpec, eval, compileExpr, hg, List.length_cons, List.length_nil]
  refine ⟨σ.regs.b, ?_⟩
  subst hpc
  have h0 : code[σ.pc]? = some (CInstr.varPath x, p) := hc.head
  have h1 : code[σ.pc + 1]? = some (CInstr.copyVarPathToA, p) := hc.tail.head
  have h2 : code[σ.pc + 1 + 1]? = some (CInstr.popVarPath, p) := hc.tail.tail.head
  refine Steps.cons (τ := advance { σ with paths := x :: σ.paths }) ?_ ?_
  · simp only [Vm.step, h0]
  refine Steps.cons (τ := advance (setA (advance { σ with paths := x :: σ.paths }) σ.env[x])) ?_ ?_
  · simp only [Vm.step, advance, h1, hs]
  refine Steps.one ?_
  simp only [Vm.step, advance, setA, h2]
  rfl

/-- one instruction that rewrites A by a `Res`-valued operation, after an expression -/
theorem after_resA (code : Code) (σ : Vm) (pc : Nat) (v b : Val) (i : CInstr) (p : Pos) (r : Res Val)
    (hi : code[pc]? = some (i, p))
    (hstep : ∀ τ : Vm, τ.pc = pc → τ.regs.a = v → τ.regs.b = b → Vm.step code τ = resA τ p r) :
    match lift p r with
    | .ok w => Steps code (afterExpr σ pc v b) (afterExpr σ (pc + 1) w b)
    | .err c q => ErrsWith code (afterExpr σ pc v b) c q σ.env σ.out
    | .inexact => True := by
  have hs := hstep (afterExpr σ pc v b) rfl rfl rfl
  cases r with
  | ok w => exact Steps.one (by rw [hs]; rfl)
  | err e => exact ⟨afterExpr σ pc v b, afterExpr σ pc v b, Steps.refl _, (by rw [hs]; rfl), rfl, rfl⟩
  | inexact => trivial

theorem afterExpr_afterExpr (σ : Vm) (pc pc' : Nat) (v b v' b' : Val) :
    afterExpr (afterExpr σ pc v b) pc' v' b' = afterExpr σ pc' v' b' := rfl

theorem expr_un (code : Code) (op : UnOp) (e : Ast.Expr) (p : Pos) (off : Nat) (σ : Vm)
    (ih : CodeAt code off (compileExpr e) → ExprSpec code e off σ)
    (hc : CodeAt code off (compileExpr (.un op e p))) :
    ExprSpec code (.un op e p) off σ := by
  cases op with
  | neg =>
    simp only [compileExpr] at hc
    have ihe := ih hc.append_left
    have hi : code[off + (compileExpr e).length]? = some (CInstr.negateA, p) := hc.append_right.head
    simp only [ExprSpec, eval, compileExpr, List.length_append, List.length_singleton] at ihe ⊢
    cases he : eval σ.env e with
    | ok v =>
      simp only [he] at ihe
      obtain ⟨b, hsteps⟩ := ihe
      have := after_resA code σ (off + (compileExpr e).length) v b _ p (negate v) hi
        (by intro τ h1 h2 _; simp only [Vm.step, h1, hi, h2])
      simp only [ERes.bind]
      cases hn : negate v with
      | ok w =>
        simp only [hn, lift] at this ⊢
        exact ⟨b, hsteps.trans (by simpa [Nat.add_assoc] using this)⟩
      | err er =>
        simp only [hn, lift] at this ⊢
        exact ErrsWith.of_steps hsteps this
      | inexact => simp [lift]
    | err c q => simpa [he, ERes.bind] using ihe
    | inexact => simp [ERes.bind]
  | not =>
    simp only [compileExpr] at hc
    have ihe := ih hc.append_left
    have hi : code[off + (compileExpr e).length]? = some (CInstr.notA, p) := hc.append_right.head
    simp only [ExprSpec, eval, compileExpr, List.length_append, List.length_singleton] at ihe ⊢
    cases he : eval σ.env e with
    | ok v =>
      simp only [he] at ihe
      obtain ⟨b, hsteps⟩ := ihe
      have := after_resA code σ (off + (compileExpr e).length) v b _ p (unaryNot v) hi
        (by intro τ h1 h2 _; simp only [Vm.step, h1, hi, h2])
      simp only [ERes.bind]
      cases hn : unaryNot v with
      | ok w =>
        simp only [hn, lift] at this ⊢
        exact ⟨b, hsteps.trans (by simpa [Nat.add_assoc] using this)⟩
      | err er =>
        simp only [hn, lift] at this ⊢
        exact ErrsWith.of_steps hsteps this
      | inexact => simp [lift]
    | err c q => simpa [he, ERes.bind] using ihe
    | inexact => simp [ERes.bind]

/-- the operator tail of a binary expression: `CopyAToB; PopValueStackIntoA; <op>; [Cast t]` -/
theorem bin_tail (code : Code) (op : Op) (t : Ty) (p : Pos) (q : Nat) (τ : Vm) (a bv : Val) (vs : List Val)
    (hc : CodeAt code q ([(CInstr.copyAToB, p), (CInstr.popA, p), (CInstr.bin op, p)] ++
      (if op = .divide then [(CInstr.cast t, p)] else [])))
    (hpc : τ.pc = q) (ha : τ.regs.a = bv) (hv : τ.vals = a :: vs) :
    match lift p (binStep op t a bv) with
    | .ok w => Steps code τ { τ with pc := q + 3 + (if op = .divide then 1 else 0),
                                      regs := { τ.regs with a := w, b := bv }, vals := vs }
    | .err c r => ErrsWith code τ c r τ.env τ.out
    | .inexact => True := by
  have h0 : code[τ.pc]? = some (CInstr.copyAToB, p) := by rw [hpc]; exact hc.append_left.head
  have h1 : code[τ.pc + 1]? = some (CInstr.popA, p) := by rw [hpc]; exact hc.append_left.tail.head
  have h2 : code[τ.pc + 1 + 1]? = some (CInstr.bin op, p) := by rw [hpc]; exact hc.append_left.tail.tail.head
  let τ1 : Vm := advance { τ with regs := { τ.regs with b := τ.regs.a } }
  let τ2 : Vm := advance { setA τ1 a with vals := vs }
  have s1 : Vm.step code τ = .next τ1 := by simp only [Vm.step, h0]; rfl
  have s2 : Vm.step code τ1 = .next τ2 := by
    simp only [Vm.step, τ1, advance, h1, hv]; rfl
  have s3 : Vm.step code τ2 = resA τ2 p (binInstr op a bv) := by
    simp only [Vm.step, τ2, τ1, advance, setA, h2, ha]
  have st : Steps code τ τ2 := Steps.cons s1 (Steps.one s2)
  rw [binStep_eq]
  by_cases hd : op = .divide
  · simp only [hd, if_true] at hc ⊢
    have h3 : code[τ.pc + 1 + 1 + 1]? = some (CInstr.cast t, p) := by
      rw [hpc]; exact hc.append_right.head
    subst hd
    cases hb : binInstr .divide a bv with
    | ok qv =>
      let τ3 : Vm := advance (setA τ2 qv)
      have s3' : Vm.step code τ2 = .next τ3 := by rw [s3, hb]; rfl
      have s4 : Vm.step code τ3 = resA τ3 p (cast qv t) := by
        simp only [Vm.step, τ3, τ2, τ1, advance, setA, h3]
      simp only [Res.bind]
      cases hcst : cast qv t with
      | ok w =>
        simp only [lift]
        refine st.trans (Steps.cons s3' (Steps.one ?_))
        rw [s4, hcst]
        simp only [resA, τ3, τ2, τ1, advance, setA, ha, hpc]
      | err e =>
        simp only [lift]
        refine ⟨τ3, τ3, st.trans (Steps.one s3'), ?_, rfl, rfl⟩
        rw [s4, hcst]; rfl
      | inexact => simp [lift]
    | err e =>
      simp only [Res.bind, lift]
      refine ⟨τ2, τ2, st, ?_, rfl, rfl⟩
      rw [s3, hb]; rfl
    | inexact => simp [Res.bind, lift]
  · simp only [hd, if_false]
    cases hb : binInstr op a bv with
    | ok w =>
      simp only [lift]
      refine st.trans (Steps.one ?_)
      rw [s3, hb]
      simp only [resA, τ2, τ1, advance, setA, ha, hpc, Nat.add_zero]
    | err e =>
      simp only [lift]
      refine ⟨τ2, τ2, st, ?_, rfl, rfl⟩
      rw [s3, hb]; rfl
    | inexact => simp [lift]

/-- **`compileExpr_correct`**: running the code of `e` from any state whose program counter is at its
first instruction puts `eval e` into A and leaves the value stack, the var-path stack, the register
stack, registers C and D, the variables and the output as they were; if `eval e` is an error the run
stops with that error code at that position, with variables and output untouched. -/
theorem compileExpr_correct (code : Code) (e : Ast.Expr) :
    ∀ (off : Nat) (σ : Vm), CodeAt code off (compileExpr e) → σ.pc = off → SlotsBelow σ.env.length e →
      ExprSpec code e off σ := by
  induction e with
  | lit v p => intro off σ hc hpc _; exact expr_lit code v p off σ hc hpc
  | var x t p => intro off σ hc hpc hs; exact expr_var code x t p off σ hc hpc hs
  | un op e p ih =>
    intro off σ hc hpc hs
    exact expr_un code op e p off σ (fun h => ih off σ h hpc hs) hc
  | paren e p ih =>
    intro off σ hc hpc hs
    have := ih off σ (by simpa [compileExpr] using hc) hpc hs
    simpa [ExprSpec, eval, compileExpr] using this
  | bin op l r t p ihl ihr =>
    intro off σ hc hpc hs
    simp only [compileExpr] at hc
    obtain ⟨hsl, hsr⟩ := hs
    -- pieces of the code
    have hcl : CodeAt code off (compileExpr l) := hc.append_left.append_left.append_left.append_left
    have hpush : code[off + (compileExpr l).length]? = some (CInstr.pushA, p) :=
      hc.append_left.append_left.append_left.append_right.head
    have hcr : CodeAt code (off + (compileExpr l).length + 1) (compileExpr r) := by
      have := hc.append_left.append_left.append_right
      simpa [Nat.add_assoc] using this
    have hct : CodeAt code (off + (compileExpr l).length + 1 + (compileExpr r).length)
        ([(CInstr.copyAToB, p), (CInstr.popA, p), (CInstr.bin op, p)] ++
          (if op = .divide then [(CInstr.cast t, p)] else [])) := by
      have h1 := hc.append_left.append_right
      have h2 := hc.append_right
      intro i hi
      by_cases h3 : i < 3
      · have := h1 i (by simpa using h3)
        simp only [List.length_append, List.length_singleton] at this
        rw [List.getElem?_append_left (by simpa using h3)]
        rw [← this]; congr 1; omega
      · have := h2 (i - 3) (by simp at hi ⊢; omega)
        simp only [List.length_append, List.length_cons, List.length_nil] at this
        rw [List.getElem?_append_right (by simp; omega)]
        simp only [List.length_cons, List.length_nil]
        rw [← this]; congr 1; omega
    have ihl' := ihl off σ hcl hpc hsl
    simp only [ExprSpec, eval, compileExpr, List.length_append, List.length_cons, List.length_nil] at ihl' ⊢
    cases hl : eval σ.env l with
    | err c q => simpa [hl, ERes.bind] using ihl'
    | inexact => simp [ERes.bind]
    | ok a =>
      simp only [hl] at ihl'
      obtain ⟨b1, st1⟩ := ihl'
      -- push the left value
      let σ2 : Vm := { afterExpr σ (off + (compileExpr l).length) a b1 with
        pc := off + (compileExpr l).length + 1, vals := a :: σ.vals }
      have spush : Vm.step code (afterExpr σ (off + (compileExpr l).length) a b1) = .next σ2 := by
        simp only [Vm.step, afterExpr, hpush]; rfl
      have ihr' := ihr (off + (compileExpr l).length + 1) σ2 hcr rfl hsr
      simp only [ExprSpec] at ihr'
      have henv : σ2.env = σ.env := rfl
      rw [henv] at ihr'
      cases hr : eval σ.env r with
      | err c q =>
        simp only [hr] at ihr'
        simp only [ERes.bind]
        exact ErrsWith.of_steps (st1.trans (Steps.one spush)) ihr'
      | inexact => simp only [ERes.bind]
      | ok bv =>
        simp only [hr] at ihr'
        simp only [ERes.bind]
        obtain ⟨b2, st2⟩ := ihr'
        let σ3 : Vm := afterExpr σ2 (off + (compileExpr l).length + 1 + (compileExpr r).length) bv b2
        have tail := bin_tail code op t p _ σ3 a bv σ.vals hct rfl rfl rfl
        have pre : Steps code σ σ3 := (st1.trans (Steps.one spush)).trans st2
        cases hb : lift p (binStep op t a bv) with
        | ok w =>
          simp only [hb] at tail
          refine ⟨bv, pre.trans ?_⟩
          have hlen : (if op = Op.divide then [(CInstr.cast t, p)] else []).length =
              (if op = Op.divide then 1 else 0) := by split <;> rfl
          have hpcEq : off + (compileExpr l).length + 1 + (compileExpr r).length + 3 +
                (if op = Op.divide then 1 else 0) =
              off + ((compileExpr l).length + (0 + 1) + (compileExpr r).length + (0 + 1 + 1 + 1) +
                (if op = Op.divide then [(CInstr.cast t, p)] else []).length) := by
            rw [hlen]; omega
          rw [← hpcEq]
          exact tail
        | err c q =>
          simp only [hb] at tail
          exact ErrsWith.of_steps pre tail
        | inexact => trivial


/-! ### the state relation -/

/-- the VM state represents the state of the reference semantics; every variable holds a value of its declared type -/
structure Rel (sl : List Ty) (s : St) (σ : Vm) : Prop where
  env : σ.env = s.env
  typed : Typed sl s.env
  out : σ.out = s.out
  skip : σ.skipNewline = false
  /-- the DATA items collected so far and the READ cursor -/
  data : σ.data = s.data
  dataIdx : σ.dataIdx = s.dataIdx
  /-- nothing is waiting in the by-reference return queue between statements -/
  queue : σ.queue = []

/-- only the program counter, the registers, the stacks and the argument list differ -/
theorem Rel.same {sl : List Ty} {s : St} {σ τ : Vm} (h : Rel sl s σ) (he : τ.env = σ.env) (ho : τ.out = σ.out)
    (hk : τ.skipNewline = σ.skipNewline) (hd : τ.data = σ.data) (hi : τ.dataIdx = σ.dataIdx) (hq : τ.queue = σ.queue) :
    Rel sl s τ :=
  ⟨by rw [he, h.env], h.typed, by rw [ho, h.out], by rw [hk, h.skip], by rw [hd, h.data], by rw [hi, h.dataIdx],
    by rw [hq, h.queue]⟩

theorem Rel.afterExpr {sl : List Ty} {s : St} {σ : Vm} (h : Rel sl s σ) (pc : Nat) (v b : Val) :
    Rel sl s (afterExpr σ pc v b) := h.same rfl rfl rfl rfl rfl rfl

theorem Rel.advance {sl : List Ty} {s : St} {σ : Vm} (h : Rel sl s σ) : Rel sl s (advance σ) :=
  h.same rfl rfl rfl rfl rfl rfl

theorem Rel.setPc {sl : List Ty} {s : St} {σ : Vm} (h : Rel sl s σ) (a : Nat) : Rel sl s { σ with pc := a } :=
  h.same rfl rfl rfl rfl rfl rfl

/-- storing a value of the slot's type into a variable -/
theorem Rel.store {sl : List Ty} {s : St} {σ τ : Vm} (h : Rel sl s σ) {x : Nat} {t : Ty} {v : Val}
    (hx : sl[x]? = some t) (hv : v.tag = t) (he : τ.env = σ.env.set x v) (ho : τ.out = σ.out)
    (hk : τ.skipNewline = σ.skipNewline) (hd : τ.data = σ.data) (hi : τ.dataIdx = σ.dataIdx) (hq : τ.queue = σ.queue) :
    Rel sl (s.set x v) τ :=
  ⟨by rw [he, h.env]; rfl, RbThm.C01Sim.SimRead.typed_set h.typed hx hv, by rw [ho, h.out]; rfl, by rw [hk, h.skip],
    by rw [hd, h.data]; rfl, by rw [hi, h.dataIdx]; rfl, by rw [hq, h.queue]⟩

theorem Rel.len {sl : List Ty} {s : St} {σ : Vm} (h : Rel sl s σ) : σ.env.length = sl.length := by
  rw [h.env]; exact h.typed.len

/-- the register stack, the value stack, the var-path stack and the GOSUB stack are as they were -/
def SameStacks (σ τ : Vm) : Prop :=
  τ.regStack = σ.regStack ∧ τ.vals = σ.vals ∧ τ.paths = σ.paths ∧ τ.gosubs = σ.gosubs

theorem SameStacks.refl (σ : Vm) : SameStacks σ σ := ⟨rfl, rfl, rfl, rfl⟩

theorem SameStacks.trans {a b c : Vm} (h₁ : SameStacks a b) (h₂ : SameStacks b c) : SameStacks a c :=
  ⟨h₂.1.trans h₁.1, h₂.2.1.trans h₁.2.1, h₂.2.2.1.trans h₁.2.2.1, h₂.2.2.2.trans h₁.2.2.2⟩

/-- the collected DATA items, the READ cursor and the by-reference return queue are as they were -/
def SameData (σ τ : Vm) : Prop :=
  τ.data = σ.data ∧ τ.dataIdx = σ.dataIdx ∧ τ.queue = σ.queue

theorem SameData.refl (σ : Vm) : SameData σ σ := ⟨rfl, rfl, rfl⟩

theorem SameData.trans {a b c : Vm} (h₁ : SameData a b) (h₂ : SameData b c) : SameData a c :=
  ⟨h₂.1.trans h₁.1, h₂.2.1.trans h₁.2.1, h₂.2.2.trans h₁.2.2⟩

/-! ### conversions, stores, conditions, PRINT items (ported) -/

/-- evaluating an expression and converting it to the type of the receiving location:
`generate_expression_instructions_casting` -/
theorem exprTo_correct (code : Code) (e : Ast.Expr) (t : Ty) (off : Nat) (σ : Vm)
    (hc : CodeAt code off (compileExprTo e t)) (hpc : σ.pc = off) (hs : SlotsBelow σ.env.length e) :
    match evalTo σ.env e t with
    | .ok v => ∃ b, Steps code σ (afterExpr σ (off + (compileExprTo e t).length) v b)
    | .err c p => ErrsWith code σ c p σ.env σ.out
    | .inexact => True := by
  have he := compileExpr_correct code e off σ hc.append_left hpc hs
  simp only [ExprSpec] at he
  simp only [evalTo, compileExprTo, List.length_append]
  cases hev : eval σ.env e with
  | err c q => simpa [hev, ERes.bind] using he
  | inexact => simp [ERes.bind]
  | ok v =>
    simp only [hev] at he
    obtain ⟨b, st⟩ := he
    simp only [ERes.bind, storeCast]
    by_cases hty : e.ty = t
    · simp only [hty, if_true, lift, List.length_nil, Nat.add_zero]
      exact ⟨b, st⟩
    · simp only [hty, if_false, List.length_singleton]
      have hi : code[off + (compileExpr e).length]? = some (CInstr.cast t, e.pos) := by
        have := hc.append_right
        simp only [compileExprTo, hty, if_false] at this
        exact this.head
      have := after_resA code σ (off + (compileExpr e).length) v b _ e.pos (cast v t) hi
        (by intro τ h1 h2 _; simp only [Vm.step, h1, hi, h2])
      cases hcst : cast v t with
      | ok w =>
        simp only [hcst, lift] at this ⊢
        exact ⟨b, st.trans (by simpa [Nat.add_assoc] using this)⟩
      | err er =>
        simp only [hcst, lift] at this ⊢
        exact ErrsWith.of_steps st this
      | inexact => simp [lift]

/-- `VarPathName x; CopyAToVarPath`: store A into variable `x` -/
theorem store_steps (code : Code) (x : Nat) (p : Pos) (off : Nat) (τ : Vm)
    (hc : CodeAt code off (storeVar x p)) (hpc : τ.pc = off) :
    Steps code τ { τ with pc := off + 2, env := τ.env.set x τ.regs.a } := by
  subst hpc
  have h0 : code[τ.pc]? = some (CInstr.varPath x, p) := hc.head
  have h1 : code[τ.pc + 1]? = some (CInstr.copyAToVarPath, p) := hc.tail.head
  refine Steps.cons (τ := advance { τ with paths := x :: τ.paths }) ?_ (Steps.one ?_)
  · simp only [Vm.step, h0]
  · simp only [Vm.step, advance, h1]


/-- `<cond>; JumpIfFalse target` -/
theorem cond_correct (code : Code) (c : Ast.Expr) (target : Nat) (p : Pos) (off : Nat) (σ : Vm)
    (hc : CodeAt code off (compileExpr c ++ [(CInstr.jumpIfFalse target, p)])) (hpc : σ.pc = off)
    (hs : SlotsBelow σ.env.length c) (hn : NumericAt σ.env c) :
    match evalCond σ.env c with
    | .ok true => ∃ v b, Steps code σ (afterExpr σ (off + (compileExpr c).length + 1) v b)
    | .ok false => ∃ v b, Steps code σ (afterExpr σ target v b)
    | .error (.error cd q) => ErrsWith code σ cd q σ.env σ.out
    | .error _ => True := by
  have he := compileExpr_correct code c off σ hc.append_left hpc hs
  have hj : code[off + (compileExpr c).length]? = some (CInstr.jumpIfFalse target, p) := hc.append_right.head
  simp only [ExprSpec] at he
  simp only [evalCond]
  cases hev : eval σ.env c with
  | err cd q => simpa [hev] using he
  | inexact => simp
  | ok v =>
    simp only [hev] at he
    obtain ⟨b, st⟩ := he
    have hsome := hn v hev
    cases ht : truthy v with
    | none => simp [ht] at hsome
    | some tv =>
      cases tv with
      | true =>
        simp only [ht]
        refine ⟨v, b, st.trans (Steps.one ?_)⟩
        simp only [Vm.step, afterExpr, hj, ht]
        rfl
      | false =>
        simp only [ht]
        refine ⟨v, b, st.trans (Steps.one ?_)⟩
        simp only [Vm.step, afterExpr, hj, ht]


/-- the items of a PRINT statement: the device receives what `printItems` prescribes, in order -/
theorem items_correct (code : Code) (p : Pos) :
    ∀ (items : List PrintItem) (off : Nat) (σ : Vm) (s : St),
      CodeAt code off (compileItems p items) → σ.pc = off → σ.env = s.env → σ.out = s.out →
      ItemsSlots s.env.length items →
      match printItems s items with
      | (s', .normal) => ∃ τ, Steps code σ τ ∧ τ.pc = off + sizeItems items ∧ τ.env = s'.env ∧ τ.out = s'.out ∧
          s'.env = s.env ∧ τ.skipNewline = flagAfter σ.skipNewline items ∧ SameStacks σ τ ∧ SameData σ τ ∧
          s'.data = s.data ∧ s'.dataIdx = s.dataIdx
      | (s', .error c q) => ErrsWith code σ c q s'.env s'.out
      | _ => True := by
  intro items
  induction items with
  | nil =>
    intro off σ s _ hpc he ho _
    simp only [printItems]
    exact ⟨σ, Steps.refl σ, by simp [sizeItems, hpc], he, ho, trivial, rfl, SameStacks.refl σ, SameData.refl σ, trivial, trivial⟩
  | cons it rest ih =>
    intro off σ s hc hpc he ho hsl
    cases it with
    | comma =>
      simp only [compileItems, compileItem] at hc
      have h0 : code[σ.pc]? = some (CInstr.printComma, p) := by rw [hpc]; exact hc.append_left.head
      let σ1 : Vm := advance { σ with out := σ.out.moveToNextPrintZone, skipNewline := true }
      have s1 : Vm.step code σ = .next σ1 := by simp only [Vm.step, h0]; rfl
      have ih' := ih (off + 1) σ1 { s with out := s.out.moveToNextPrintZone } hc.append_right
        (by simp [σ1, advance, hpc]) he (by simp [σ1, advance, ho]) hsl
      simp only [printItems, sizeItems, flagAfter, isSep]
      generalize hr : printItems { s with out := s.out.moveToNextPrintZone } rest = r at ih' ⊢
      obtain ⟨s', o⟩ := r
      cases o with
      | normal =>
        obtain ⟨τ, st, hp, e1, e2, e3, e4, e5, e6, e7, e8⟩ := ih'
        exact ⟨τ, Steps.cons s1 st, by omega, e1, e2, e3, e4, SameStacks.trans ⟨rfl, rfl, rfl, rfl⟩ e5,
          SameData.trans ⟨rfl, rfl, rfl⟩ e6, e7, e8⟩
      | error c q => exact ErrsWith.of_steps (Steps.one s1) ih'
      | _ => trivial
    | semicolon =>
      simp only [compileItems, compileItem] at hc
      have h0 : code[σ.pc]? = some (CInstr.printSemicolon, p) := by rw [hpc]; exact hc.append_left.head
      let σ1 : Vm := advance { σ with skipNewline := true }
      have s1 : Vm.step code σ = .next σ1 := by simp only [Vm.step, h0]; rfl
      have ih' := ih (off + 1) σ1 s hc.append_right (by simp [σ1, advance, hpc]) he ho hsl
      simp only [printItems, sizeItems, flagAfter, isSep]
      generalize hr : printItems s rest = r at ih' ⊢
      obtain ⟨s', o⟩ := r
      cases o with
      | normal =>
        obtain ⟨τ, st, hp, e1, e2, e3, e4, e5, e6, e7, e8⟩ := ih'
        exact ⟨τ, Steps.cons s1 st, by omega, e1, e2, e3, e4, SameStacks.trans ⟨rfl, rfl, rfl, rfl⟩ e5,
          SameData.trans ⟨rfl, rfl, rfl⟩ e6, e7, e8⟩
      | error c q => exact ErrsWith.of_steps (Steps.one s1) ih'
      | _ => trivial
    | expr e =>
      simp only [compileItems, compileItem] at hc
      obtain ⟨hse, hsr⟩ := hsl
      have hce := compileExpr_correct code e off σ hc.append_left.append_left hpc (by rw [he]; exact hse)
      have hpv : code[off + (compileExpr e).length]? = some (CInstr.printValue, e.pos) :=
        hc.append_left.append_right.head
      simp only [ExprSpec, he] at hce
      simp only [printItems, sizeItems, flagAfter, isSep]
      cases hev : eval s.env e with
      | err c q => simp only [hev] at hce ⊢; rw [← ho]; exact hce
      | inexact => trivial
      | ok v =>
        simp only [hev] at hce ⊢
        obtain ⟨b, st⟩ := hce
        cases hpr : printValue v with
        | none => trivial
        | some pv =>
          simp only
          let σ1 : Vm := afterExpr σ (off + (compileExpr e).length) v b
          let σ2 : Vm := advance { σ1 with out := σ1.out.print (Print.valueText pv), skipNewline := false }
          have s2 : Vm.step code σ1 = .next σ2 := by
            simp only [Vm.step, σ1, afterExpr, hpv, hpr]; rfl
          have hc' : CodeAt code (off + (compileExpr e).length + 1) (compileItems p rest) := by
            have := hc.append_right
            simpa [Nat.add_assoc] using this
          have ih' := ih (off + (compileExpr e).length + 1) σ2
            { s with out := s.out.print (Print.valueText pv) } hc'
            (by simp [σ2, σ1, advance, afterExpr]) (by simp [σ2, σ1, advance, afterExpr, he])
            (by simp [σ2, σ1, advance, afterExpr, ho]) hsr
          generalize hr : printItems { s with out := s.out.print (Print.valueText pv) } rest = r at ih' ⊢
          obtain ⟨s', o⟩ := r
          cases o with
          | normal =>
            obtain ⟨τ, st', hp, e1, e2, e3, e4, e5, e6, e7, e8⟩ := ih'
            refine ⟨τ, st.trans (Steps.cons s2 st'), by omega, e1, e2, e3, e4, ?_, ?_, e7, e8⟩
            · exact SameStacks.trans ⟨rfl, rfl, rfl, rfl⟩ e5
            · exact SameData.trans ⟨rfl, rfl, rfl⟩ e6
          | error c q => exact ErrsWith.of_steps (st.trans (Steps.one s2)) ih'
          | _ => trivial


/-! ### well-formedness (the Prop mirrored by `JmpL.wfB`) -/

/-- a GOTO that leaves a construct (its label is not among `inner`) names a label that is not deeper than the construct -/
def Leaves (depthOf : Nat → Nat) (depth : Nat) (inner gotos : List Nat) : Prop :=
  ∀ L ∈ gotos, L ∈ inner ∨ depthOf L ≤ depth

mutual
/-- well-formed statements at FOR depth `d` and SELECT depth `e`: C01's `Wf` (slots, typing, numeric conditions, no dead ELSE
part, no DATA inside) plus the jump discipline: a GOTO names a label that is not deeper than itself; a GOTO that leaves a FOR
body (the blocks of a SELECT) names a label that is not deeper than the FOR (the SELECT); a GOSUB names a label at depth
0 / 0; the body of a `FOR … STEP` defines no label (it is generated twice: finding C05-a) -/
def Wf (sl : List Ty) (dp : Dp) : Nat → Nat → SStmt → Prop
  | _, _, .skip => True
  | _, _, .comment => True
  | d, e, .seq a b => Wf sl dp d e a ∧ Wf sl dp d e b
  | _, _, .dim x t _ => sl[x]? = some t
  | _, _, .assign x t ex _ => sl[x]? = some t ∧ SlotsBelow sl.length ex ∧ ExprWt sl ex
  | _, _, .print items _ => ItemsSlots sl.length items
  | d, e, .ifBlock c thn elifs hasElse els _ =>
    SlotsBelow sl.length c ∧ NumericCond sl c ∧ Wf sl dp d e thn ∧ WfElifs sl dp d e elifs ∧ Wf sl dp d e els ∧
      (hasElse = false → els = .skip)
  | d, e, .while c body _ => SlotsBelow sl.length c ∧ NumericCond sl c ∧ Wf sl dp d e body
  | d, e, .doLoop c _ _ body _ => SlotsBelow sl.length c ∧ NumericCond sl c ∧ Wf sl dp d e body
  | _, _, .end_ _ => True
  | _, _, .data _ _ => False
  | _, _, .read vars _ => ∀ v ∈ vars, sl[v.1]? = some v.2.1
  | d, e, .select sel cases hasElse els _ =>
    SlotsBelow sl.length sel ∧ WfCases sl dp d (e + 1) cases ∧ Wf sl dp d (e + 1) els ∧ (hasElse = false → els = .skip) ∧
      Leaves dp.sd e (cases.labels ++ els.labels) (cases.gotos ++ els.gotos)
  | d, e, .forLoop x t lo hi step body _ =>
    sl[x]? = some t ∧ SlotsBelow sl.length lo ∧ ExprWt sl lo ∧ SlotsBelow sl.length hi ∧
      (∀ se, step = some se → SlotsBelow sl.length se ∧ body.labels = []) ∧ Wf sl dp (d + 1) e body ∧
      Leaves dp.fd d body.labels body.gotos
  | _, _, .label _ _ _ => True
  | d, e, .goto L _ => dp.fd L ≤ d ∧ dp.sd L ≤ e
  | _, _, .gosub L _ => dp.fd L = 0 ∧ dp.sd L = 0
  | _, _, .ret _ => True
def WfElifs (sl : List Ty) (dp : Dp) : Nat → Nat → ElseIfs → Prop
  | _, _, .nil => True
  | d, e, .cons c body rest => SlotsBelow sl.length c ∧ NumericCond sl c ∧ Wf sl dp d e body ∧ WfElifs sl dp d e rest
def WfCases (sl : List Ty) (dp : Dp) : Nat → Nat → SCases → Prop
  | _, _, .nil => True
  | d, e, .cons conds body rest => conds ≠ [] ∧ CondsSlots sl.length conds ∧ Wf sl dp d e body ∧ WfCases sl dp d e rest
end

/-! ### labels and GOTO targets of a statement and of its desugared form -/

theorem labels_readSeq (p : Pos) : ∀ vars : List (Nat × Ty × Pos), (readSeq p vars).labels = []
  | [] => rfl
  | (x, t, q) :: rest => by simp [readSeq, Stmt.labels, labels_readSeq p rest]

mutual
/-- (needs `Wf` only for "a missing ELSE part is empty") -/
theorem labels_desugar (sl : List Ty) (dp : Dp) : ∀ (s : SStmt) (d e : Nat), Wf sl dp d e s → (desugar s).labels = s.labels
  | .skip, _, _, _ => rfl
  | .seq a b, d, e, h => by
    simp only [desugar, Stmt.labels, SStmt.labels, labels_desugar sl dp a d e h.1, labels_desugar sl dp b d e h.2]
  | .comment, _, _, _ => rfl
  | .dim _ _ _, _, _, _ => rfl
  | .assign _ _ _ _, _, _, _ => rfl
  | .print _ _, _, _, _ => rfl
  | .data _ _, _, _, _ => rfl
  | .read vars p, _, _, _ => by simp [desugar, SStmt.labels, labels_readSeq]
  | .ifBlock c thn elifs hasElse els p, d, e, h => by
    obtain ⟨_, _, h1, h2, h3, _⟩ := h
    simp only [desugar, Stmt.labels, SStmt.labels, labels_desugar sl dp thn d e h1,
      labels_desugarElifs sl dp elifs d e h2, labels_desugar sl dp els d e h3]
  | .select sel cases hasElse els p, d, e, h => by
    obtain ⟨_, h1, h2, h3, _⟩ := h
    simp only [desugar, Stmt.labels, SStmt.labels, labels_desugarCases sl dp cases d (e + 1) h1]
    cases hasElse with
    | false => rw [h3 rfl]; simp [Cases.labels, SStmt.labels]
    | true => simp [Cases.labels, labels_desugar sl dp els d (e + 1) h2]
  | .forLoop _ _ _ _ _ body _, d, e, h => by
    simp only [desugar, Stmt.labels, SStmt.labels, labels_desugar sl dp body (d + 1) e h.2.2.2.2.2.1]
  | .while _ body _, d, e, h => by simp only [desugar, Stmt.labels, SStmt.labels, labels_desugar sl dp body d e h.2.2]
  | .doLoop _ _ _ body _, d, e, h => by simp only [desugar, Stmt.labels, SStmt.labels, labels_desugar sl dp body d e h.2.2]
  | .end_ _, _, _, _ => rfl
  | .label _ _ _, _, _, _ => rfl
  | .goto _ _, _, _, _ => rfl
  | .gosub _ _, _, _, _ => rfl
  | .ret _, _, _, _ => rfl
theorem labels_desugarElifs (sl : List Ty) (dp : Dp) : ∀ (el : ElseIfs) (d e : Nat), WfElifs sl dp d e el →
    ∀ (els : Stmt) (p : Pos), (desugarElifs el els p).labels = el.labels ++ els.labels
  | .nil, _, _, _, _, _ => by simp [desugarElifs, ElseIfs.labels]
  | .cons c body rest, d, e, h, els, p => by
    obtain ⟨_, _, h1, h2⟩ := h
    simp only [desugarElifs, Stmt.labels, ElseIfs.labels, labels_desugar sl dp body d e h1,
      labels_desugarElifs sl dp rest d e h2, List.append_assoc]
theorem labels_desugarCases (sl : List Ty) (dp : Dp) : ∀ (cs : SCases) (d e : Nat), WfCases sl dp d e cs →
    ∀ (tail : Cases), (desugarCases cs tail).labels = cs.labels ++ tail.labels
  | .nil, _, _, _, _ => by simp [desugarCases, SCases.labels]
  | .cons conds body rest, d, e, h, tail => by
    obtain ⟨_, _, h1, h2⟩ := h
    simp only [desugarCases, Cases.labels, SCases.labels, labels_desugar sl dp body d e h1,
      labels_desugarCases sl dp rest d e h2, List.append_assoc]
end

theorem hasLabel_desugar {sl : List Ty} {dp : Dp} {s : SStmt} {d e : Nat} (h : Wf sl dp d e s) (L : Nat) :
    (desugar s).hasLabel L = s.labels.contains L := by
  simp only [Stmt.hasLabel, labels_desugar sl dp s d e h]

open RbThm.JmpLShape (gotosS gotosC) in
theorem gotos_readSeq (p : Pos) : ∀ vars : List (Nat × Ty × Pos), gotosS (readSeq p vars) = []
  | [] => rfl
  | (x, t, q) :: rest => by simp [readSeq, gotosS, gotos_readSeq p rest]

open RbThm.JmpLShape (gotosS gotosC) in
mutual
theorem gotos_desugar : ∀ (s : SStmt) (L : Nat), L ∈ gotosS (desugar s) → L ∈ s.gotos
  | .skip, _, h => by simp [desugar, gotosS] at h
  | .seq a b, L, h => by
    simp only [desugar, gotosS, List.mem_append] at h
    simp only [SStmt.gotos, List.mem_append]
    exact h.imp (gotos_desugar a L) (gotos_desugar b L)
  | .comment, _, h => by simp [desugar, gotosS] at h
  | .dim _ _ _, _, h => by simp [desugar, gotosS] at h
  | .assign _ _ _ _, _, h => by simp [desugar, gotosS] at h
  | .print _ _, _, h => by simp [desugar, gotosS] at h
  | .data _ _, _, h => by simp [desugar, gotosS] at h
  | .read vars p, _, h => by simp [desugar, gotos_readSeq] at h
  | .ifBlock c thn elifs hasElse els p, L, h => by
    simp only [desugar, gotosS, List.mem_append] at h
    simp only [SStmt.gotos, List.mem_append]
    rcases h with h | h
    · exact .inl (gotos_desugar thn L h)
    · rcases gotos_desugarElifs elifs (desugar els) p L h with h | h
      · exact .inr (.inl h)
      · exact .inr (.inr (gotos_desugar els L h))
  | .select sel cases hasElse els p, L, h => by
    simp only [desugar, gotosS] at h
    simp only [SStmt.gotos, List.mem_append]
    rcases gotos_desugarCases cases _ L h with h | h
    · exact .inl h
    · cases hasElse with
      | false => simp [gotosC] at h
      | true => simp only [if_true, gotosC] at h; exact .inr (gotos_desugar els L h)
  | .forLoop _ _ _ _ _ body _, L, h => by
    simp only [desugar, gotosS] at h; simp only [SStmt.gotos]; exact gotos_desugar body L h
  | .while _ body _, L, h => by
    simp only [desugar, gotosS] at h; simp only [SStmt.gotos]; exact gotos_desugar body L h
  | .doLoop _ _ _ body _, L, h => by
    simp only [desugar, gotosS] at h; simp only [SStmt.gotos]; exact gotos_desugar body L h
  | .end_ _, _, h => by simp [desugar, gotosS] at h
  | .label _ _ _, _, h => by simp [desugar, gotosS] at h
  | .goto L' _, L, h => by simpa [desugar, gotosS, SStmt.gotos] using h
  | .gosub _ _, _, h => by simp [desugar, gotosS] at h
  | .ret _, _, h => by simp [desugar, gotosS] at h
theorem gotos_desugarElifs : ∀ (el : ElseIfs) (els : Stmt) (p : Pos) (L : Nat),
    L ∈ gotosS (desugarElifs el els p) → L ∈ el.gotos ∨ L ∈ gotosS els
  | .nil, _, _, _, h => by simp only [desugarElifs] at h; exact .inr h
  | .cons c body rest, els, p, L, h => by
    simp only [desugarElifs, gotosS, List.mem_append] at h
    simp only [ElseIfs.gotos, List.mem_append]
    rcases h with h | h
    · exact .inl (.inl (gotos_desugar body L h))
    · rcases gotos_desugarElifs rest els p L h with h | h
      · exact .inl (.inr h)
      · exact .inr h
theorem gotos_desugarCases : ∀ (cs : SCases) (tail : Cases) (L : Nat),
    L ∈ gotosC (desugarCases cs tail) → L ∈ cs.gotos ∨ L ∈ gotosC tail
  | .nil, _, _, h => by simp only [desugarCases] at h; exact .inr h
  | .cons conds body rest, tail, L, h => by
    simp only [desugarCases, gotosC, List.mem_append] at h
    simp only [SCases.gotos, List.mem_append]
    rcases h with h | h
    · exact .inl (.inl (gotos_desugar body L h))
    · rcases gotos_desugarCases rest tail L h with h | h
      · exact .inl (.inr h)
      · exact .inr h
end

mutual
/-- **static lemma**: a GOTO inside a well-formed statement whose label is outside it names a label that is not deeper
than the statement -/
theorem goto_depths (sl : List Ty) (dp : Dp) : ∀ (s : SStmt) (d e L : Nat), Wf sl dp d e s → L ∈ s.gotos → L ∉ s.labels →
    dp.fd L ≤ d ∧ dp.sd L ≤ e
  | .seq a b, d, e, L, hw, hg, hl => by
    simp only [SStmt.gotos, List.mem_append] at hg
    simp only [SStmt.labels, List.mem_append, not_or] at hl
    rcases hg with hg | hg
    · exact goto_depths sl dp a d e L hw.1 hg hl.1
    · exact goto_depths sl dp b d e L hw.2 hg hl.2
  | .ifBlock c thn elifs hasElse els p, d, e, L, hw, hg, hl => by
    obtain ⟨_, _, h1, h2, h3, _⟩ := hw
    simp only [SStmt.gotos, List.mem_append] at hg
    simp only [SStmt.labels, List.mem_append, not_or] at hl
    rcases hg with hg | hg | hg
    · exact goto_depths sl dp thn d e L h1 hg hl.1
    · exact goto_depths_elifs sl dp elifs d e L h2 hg hl.2.1
    · exact goto_depths sl dp els d e L h3 hg hl.2.2
  | .select sel cases hasElse els p, d, e, L, hw, hg, hl => by
    obtain ⟨_, h1, h2, _, h4⟩ := hw
    simp only [SStmt.gotos] at hg
    simp only [SStmt.labels] at hl
    have hsd : dp.sd L ≤ e := by
      rcases h4 L hg with h | h
      · exact absurd h hl
      · exact h
    simp only [List.mem_append] at hg
    simp only [List.mem_append, not_or] at hl
    rcases hg with hg | hg
    · exact ⟨(goto_depths_cases sl dp cases d (e + 1) L h1 hg hl.1).1, hsd⟩
    · exact ⟨(goto_depths sl dp els d (e + 1) L h2 hg hl.2).1, hsd⟩
  | .forLoop x t lo hi step body p, d, e, L, hw, hg, hl => by
    obtain ⟨_, _, _, _, _, h1, h2⟩ := hw
    simp only [SStmt.gotos] at hg
    simp only [SStmt.labels] at hl
    have hfd : dp.fd L ≤ d := by
      rcases h2 L hg with h | h
      · exact absurd h hl
      · exact h
    exact ⟨hfd, (goto_depths sl dp body (d + 1) e L h1 hg hl).2⟩
  | .while c body p, d, e, L, hw, hg, hl => goto_depths sl dp body d e L hw.2.2 hg hl
  | .doLoop c top u body p, d, e, L, hw, hg, hl => goto_depths sl dp body d e L hw.2.2 hg hl
  | .goto L' p, d, e, L, hw, hg, hl => by
    simp only [SStmt.gotos, List.mem_singleton] at hg
    subst hg; exact hw
  | .skip, _, _, _, _, hg, _ => by simp [SStmt.gotos] at hg
  | .comment, _, _, _, _, hg, _ => by simp [SStmt.gotos] at hg
  | .dim _ _ _, _, _, _, _, hg, _ => by simp [SStmt.gotos] at hg
  | .assign _ _ _ _, _, _, _, _, hg, _ => by simp [SStmt.gotos] at hg
  | .print _ _, _, _, _, _, hg, _ => by simp [SStmt.gotos] at hg
  | .data _ _, _, _, _, _, hg, _ => by simp [SStmt.gotos] at hg
  | .read _ _, _, _, _, _, hg, _ => by simp [SStmt.gotos] at hg
  | .end_ _, _, _, _, _, hg, _ => by simp [SStmt.gotos] at hg
  | .label _ _ _, _, _, _, _, hg, _ => by simp [SStmt.gotos] at hg
  | .gosub _ _, _, _, _, _, hg, _ => by simp [SStmt.gotos] at hg
  | .ret _, _, _, _, _, hg, _ => by simp [SStmt.gotos] at hg
theorem goto_depths_elifs (sl : List Ty) (dp : Dp) : ∀ (el : ElseIfs) (d e L : Nat), WfElifs sl dp d e el → L ∈ el.gotos →
    L ∉ el.labels → dp.fd L ≤ d ∧ dp.sd L ≤ e
  | .nil, _, _, _, _, hg, _ => by simp [ElseIfs.gotos] at hg
  | .cons c body rest, d, e, L, hw, hg, hl => by
    obtain ⟨_, _, h1, h2⟩ := hw
    simp only [ElseIfs.gotos, List.mem_append] at hg
    simp only [ElseIfs.labels, List.mem_append, not_or] at hl
    rcases hg with hg | hg
    · exact goto_depths sl dp body d e L h1 hg hl.1
    · exact goto_depths_elifs sl dp rest d e L h2 hg hl.2
theorem goto_depths_cases (sl : List Ty) (dp : Dp) : ∀ (cs : SCases) (d e L : Nat), WfCases sl dp d e cs → L ∈ cs.gotos →
    L ∉ cs.labels → dp.fd L ≤ d ∧ dp.sd L ≤ e
  | .nil, _, _, _, _, hg, _ => by simp [SCases.gotos] at hg
  | .cons conds body rest, d, e, L, hw, hg, hl => by
    obtain ⟨_, _, h1, h2⟩ := hw
    simp only [SCases.gotos, List.mem_append] at hg
    simp only [SCases.labels, List.mem_append, not_or] at hl
    rcases hg with hg | hg
    · exact goto_depths sl dp body d e L h1 hg hl.1
    · exact goto_depths_cases sl dp rest d e L h2 hg hl.2
end

/-- **the label of a jump that leaves a well-formed statement is not deeper than the statement** (so the `PopRegisters` /
`PopValueStackIntoA` runs in front of the `Jump` remove exactly the frames and selectors of the constructs that are left) -/
theorem jump_depths {sl : List Ty} {dp : Dp} {stmt : SStmt} {d e : Nat} (hw : Wf sl dp d e stmt) {fuel : Nat} {P : Stmt}
    {m : Mode} {s s' : St} {L : Nat} (h : exec fuel P (desugar stmt) m s = (s', .jump L)) :
    L ∉ stmt.labels ∧ dp.fd L ≤ d ∧ dp.sd L ≤ e := by
  obtain ⟨hg, hl⟩ := RbThm.JmpLShape.jump_shape fuel P _ m s s' L h
  rw [hasLabel_desugar hw] at hl
  have hl' : L ∉ stmt.labels := by simpa using hl
  exact ⟨hl', goto_depths sl dp stmt d e L hw (gotos_desugar stmt L hg) hl'⟩

/-! ### the labels of a statement placed in the code -/

/-- the generator's label environment is right about the labels inside the statement `s` placed at `off` at depths `d` /
`e`: their resolved addresses are those of the layout, their recorded depths are the real ones -/
def LabAt (env : LEnv) (d e off : Nat) (s : SStmt) : Prop :=
  (∀ L a, (L, a) ∈ addrTable env.dp d e off s → env.addr L = a) ∧
  (∀ L d' e', (L, d', e') ∈ depthTable d e s → env.dp.fd L = d' ∧ env.dp.sd L = e')

def LabAtElifs (env : LEnv) (d e off : Nat) (el : ElseIfs) : Prop :=
  (∀ L a, (L, a) ∈ addrElifs env.dp d e off el → env.addr L = a) ∧
  (∀ L d' e', (L, d', e') ∈ depthElifs d e el → env.dp.fd L = d' ∧ env.dp.sd L = e')

def LabAtCases (env : LEnv) (d e off : Nat) (cs : SCases) : Prop :=
  (∀ L a, (L, a) ∈ addrCases env.dp d e off cs → env.addr L = a) ∧
  (∀ L d' e', (L, d', e') ∈ depthCases d e cs → env.dp.fd L = d' ∧ env.dp.sd L = e')

theorem LabAt.seq {env : LEnv} {d e off : Nat} {a b : SStmt} (h : LabAt env d e off (.seq a b)) :
    LabAt env d e off a ∧ LabAt env d e (off + sizeStmt env.dp d e a) b := by
  obtain ⟨h1, h2⟩ := h
  simp only [addrTable, depthTable, List.mem_append] at h1 h2
  exact ⟨⟨fun L a hm => h1 L a (.inl hm), fun L d' e' hm => h2 L d' e' (.inl hm)⟩,
    ⟨fun L a hm => h1 L a (.inr hm), fun L d' e' hm => h2 L d' e' (.inr hm)⟩⟩

theorem LabAt.ifBlock {env : LEnv} {d e off : Nat} {c : Ast.Expr} {thn : SStmt} {elifs : ElseIfs} {hasElse : Bool}
    {els : SStmt} {p : Pos} (h : LabAt env d e off (.ifBlock c thn elifs hasElse els p)) :
    LabAt env d e (off + (compileExpr c).length + 1) thn ∧
    LabAtElifs env d e (off + (compileExpr c).length + 1 + sizeStmt env.dp d e thn + 1) elifs ∧
    (hasElse = true → LabAt env d e (off + (compileExpr c).length + 1 + sizeStmt env.dp d e thn + 1 +
      sizeElifs env.dp d e elifs + 1) els) := by
  obtain ⟨h1, h2⟩ := h
  simp only [addrTable, depthTable, List.mem_append] at h1 h2
  refine ⟨⟨fun L a hm => h1 L a (.inl (.inl hm)), fun L d' e' hm => h2 L d' e' (.inl (.inl hm))⟩,
    ⟨fun L a hm => h1 L a (.inl (.inr hm)), fun L d' e' hm => h2 L d' e' (.inl (.inr hm))⟩, ?_⟩
  intro he
  subst he
  exact ⟨fun L a hm => h1 L a (.inr (by simpa using hm)), fun L d' e' hm => h2 L d' e' (.inr hm)⟩

theorem LabAt.select {env : LEnv} {d e off : Nat} {sel : Ast.Expr} {cases : SCases} {hasElse : Bool}
    {els : SStmt} {p : Pos} (h : LabAt env d e off (.select sel cases hasElse els p)) :
    LabAtCases env d (e + 1) (off + (compileExpr sel).length + 1 + 3) cases ∧
    (hasElse = true → LabAt env d (e + 1) (off + (compileExpr sel).length + 1 + 3 +
      sizeCases env.dp d (e + 1) cases + 1) els) := by
  obtain ⟨h1, h2⟩ := h
  simp only [addrTable, depthTable, List.mem_append] at h1 h2
  refine ⟨⟨fun L a hm => h1 L a (.inl hm), fun L d' e' hm => h2 L d' e' (.inl hm)⟩, ?_⟩
  intro he
  subst he
  exact ⟨fun L a hm => h1 L a (.inr (by simpa using hm)), fun L d' e' hm => h2 L d' e' (.inr hm)⟩

theorem LabAt.forNone {env : LEnv} {d e off : Nat} {x : Nat} {t : Ty} {lo hi : Ast.Expr} {body : SStmt} {p : Pos}
    (h : LabAt env d e off (.forLoop x t lo hi none body p)) :
    LabAt env (d + 1) e (off + (compileExprTo lo t).length + 2 + (compileExprTo hi t).length + 6 + 8) body := by
  obtain ⟨h1, h2⟩ := h
  simp only [addrTable, depthTable] at h1 h2
  exact ⟨h1, h2⟩

theorem LabAt.forSome {env : LEnv} {d e off : Nat} {x : Nat} {t : Ty} {lo hi se : Ast.Expr} {body : SStmt} {p : Pos}
    (h : LabAt env d e off (.forLoop x t lo hi (some se) body p)) :
    LabAt env (d + 1) e (off + (compileExprTo lo t).length + 2 + (compileExprTo hi t).length + 1 +
      (compileExpr se).length + 11 + 8) body ∧
    LabAt env (d + 1) e (off + (compileExprTo lo t).length + 2 + (compileExprTo hi t).length + 1 +
      (compileExpr se).length + 11 + sizeForBody env.dp d e x body + 1 + 4 + 8) body := by
  obtain ⟨h1, h2⟩ := h
  simp only [addrTable, depthTable, List.mem_append] at h1 h2
  exact ⟨⟨fun L a hm => h1 L a (.inr hm), h2⟩, ⟨fun L a hm => h1 L a (.inl hm), h2⟩⟩

theorem LabAt.while {env : LEnv} {d e off : Nat} {c : Ast.Expr} {body : SStmt} {p : Pos}
    (h : LabAt env d e off (.while c body p)) : LabAt env d e (off + 1 + (compileExpr c).length + 1) body := by
  obtain ⟨h1, h2⟩ := h
  simp only [addrTable, depthTable] at h1 h2
  exact ⟨h1, h2⟩

theorem LabAt.doTop {env : LEnv} {d e off : Nat} {c : Ast.Expr} {u : Bool} {body : SStmt} {p : Pos}
    (h : LabAt env d e off (.doLoop c true u body p)) :
    LabAt env d e (off + 1 + (compileExpr c).length + (if u then 3 else 1)) body := by
  obtain ⟨h1, h2⟩ := h
  simp only [addrTable, depthTable, if_true] at h1 h2
  exact ⟨h1, h2⟩

theorem LabAt.doBottom {env : LEnv} {d e off : Nat} {c : Ast.Expr} {u : Bool} {body : SStmt} {p : Pos}
    (h : LabAt env d e off (.doLoop c false u body p)) : LabAt env d e (off + 1) body := by
  obtain ⟨h1, h2⟩ := h
  simp only [addrTable, depthTable, Bool.false_eq_true, if_false] at h1 h2
  exact ⟨h1, h2⟩

theorem LabAtElifs.cons {env : LEnv} {d e off : Nat} {c : Ast.Expr} {body : SStmt} {rest : ElseIfs}
    (h : LabAtElifs env d e off (.cons c body rest)) :
    LabAt env d e (off + 1 + (compileExpr c).length + 1) body ∧
    LabAtElifs env d e (off + 1 + (compileExpr c).length + 1 + sizeStmt env.dp d e body + 1) rest := by
  obtain ⟨h1, h2⟩ := h
  simp only [addrElifs, depthElifs, List.mem_append] at h1 h2
  exact ⟨⟨fun L a hm => h1 L a (.inl hm), fun L d' e' hm => h2 L d' e' (.inl hm)⟩,
    ⟨fun L a hm => h1 L a (.inr hm), fun L d' e' hm => h2 L d' e' (.inr hm)⟩⟩

theorem LabAtCases.cons {env : LEnv} {d e off : Nat} {conds : List CaseExpr} {body : SStmt} {rest : SCases}
    (h : LabAtCases env d e off (.cons conds body rest)) :
    LabAt env d e (off + 1 + sizeConds conds + (if conds.length > 1 then 1 else 0)) body ∧
    LabAtCases env d e (off + 1 + sizeConds conds + (if conds.length > 1 then 1 else 0) +
      sizeStmt env.dp d e body + 1) rest := by
  obtain ⟨h1, h2⟩ := h
  simp only [addrCases, depthCases, List.mem_append] at h1 h2
  exact ⟨⟨fun L a hm => h1 L a (.inl hm), fun L d' e' hm => h2 L d' e' (.inl hm)⟩,
    ⟨fun L a hm => h1 L a (.inr hm), fun L d' e' hm => h2 L d' e' (.inr hm)⟩⟩

/-- a label statement: its resolved address is the address of its `Label` instruction, its depths are the current ones -/
theorem LabAt.label {env : LEnv} {d e off : Nat} {L : Nat} {name : String} {p : Pos}
    (h : LabAt env d e off (.label L name p)) : env.addr L = off ∧ env.dp.fd L = d ∧ env.dp.sd L = e := by
  obtain ⟨h1, h2⟩ := h
  exact ⟨h1 L off (by simp [addrTable]), h2 L d e (by simp [depthTable])⟩

/-- a label inside a statement is at least as deep as the statement -/
theorem LabAt.depth_ge {env : LEnv} {d e off : Nat} {s : SStmt} (h : LabAt env d e off s) {L : Nat} (hL : L ∈ s.labels) :
    d ≤ env.dp.fd L ∧ e ≤ env.dp.sd L := by
  obtain ⟨d', e', hm, h1, h2⟩ := depth_of_label s d e L hL
  obtain ⟨e1, e2⟩ := h.2 L d' e' hm
  omega

theorem LabAtElifs.depth_ge {env : LEnv} {d e off : Nat} {el : ElseIfs} (h : LabAtElifs env d e off el) {L : Nat}
    (hL : L ∈ el.labels) : d ≤ env.dp.fd L ∧ e ≤ env.dp.sd L := by
  obtain ⟨d', e', hm, h1, h2⟩ := depth_of_label_elifs el d e L hL
  obtain ⟨e1, e2⟩ := h.2 L d' e' hm
  omega

theorem LabAtCases.depth_ge {env : LEnv} {d e off : Nat} {cs : SCases} (h : LabAtCases env d e off cs) {L : Nat}
    (hL : L ∈ cs.labels) : d ≤ env.dp.fd L ∧ e ≤ env.dp.sd L := by
  obtain ⟨d', e', hm, h1, h2⟩ := depth_of_label_cases cs d e L hL
  obtain ⟨e1, e2⟩ := h.2 L d' e' hm
  omega

/-! ### the program context and the statement specification -/

/-- what is fixed throughout the statement theorem: the whole code, the generator's label environment, the variable slots,
and the whole program body `B` with its placement `base` (what a GOSUB enters) -/
structure Ctx where
  code : Code
  env : LEnv
  sl : List Ty
  B : SStmt
  base : Nat

/-- the program the reference semantics runs (and a GOSUB re-enters) -/
def Ctx.P (C : Ctx) : Stmt := desugar C.B

/-- the context is consistent: the body's code is in place and is followed by the final `Halt`; the body is well formed;
the label environment is right about every label of the body; a label recorded at FOR depth 0 is defined -/
structure Ctx.Ok (C : Ctx) : Prop where
  hcode : CodeAt C.code C.base (compileStmt C.env "" 0 0 C.base C.B)
  hhalt : ∃ p, C.code[C.base + sizeStmt C.env.dp 0 0 C.B]? = some (.halt, p)
  wf : Wf C.sl C.env.dp 0 0 C.B
  lab : LabAt C.env 0 0 C.base C.B
  gosubOk : ∀ L, C.env.dp.fd L = 0 → L ∈ C.B.labels

/-- how a statement is entered: from its first instruction, or — in seek mode — at the `Label` instruction of a label
defined inside it -/
def Entry (env : LEnv) (off : Nat) (stmt : SStmt) : Mode → Vm → Prop
  | .run, σ => σ.pc = off
  | .seek L, σ => L ∈ stmt.labels ∧ σ.pc = env.addr L

/-- what the code of a statement does, given what the reference semantics says the statement does.  The statement sits at
FOR depth `d` and SELECT depth `e` and ends at address `fin`; everything is *relative* to the stacks of the entry state `σ`:

* `normal`: the run reaches `fin` with the four stacks as they were;
* `jump L`: the run reaches the `Label` instruction of `L` with the `d − fd L` register frames and the `e − sd L` selectors
  of the constructs it leaves removed, the GOSUB stack as it was;
* `ret p`: the run reaches the `Return` instruction at `p` with the GOSUB stack as it was and the stacks *below* the
  statement's own depth intact (whatever frames / selectors of the routine are still on top of them: `Return` cuts them);
* `halted` / `error`: the run ends that way with the same output; the other outcomes claim nothing. -/
def StmtSpec (C : Ctx) (d e fin : Nat) (σ : Vm) : St × Outcome → Prop
  | (s', .normal) => ∃ τ, Steps C.code σ τ ∧ τ.pc = fin ∧ Rel C.sl s' τ ∧ SameStacks σ τ
  | (s', .halted) => ∃ τ υ, Steps C.code σ τ ∧ Vm.step C.code τ = .halt υ ∧ Rel C.sl s' υ
  | (s', .jump L) => ∃ τ, Steps C.code σ τ ∧ τ.pc = C.env.addr L ∧ Rel C.sl s' τ ∧
      τ.regStack = σ.regStack.drop (d - C.env.dp.fd L) ∧ τ.vals = σ.vals.drop (e - C.env.dp.sd L) ∧
      τ.paths = σ.paths ∧ τ.gosubs = σ.gosubs
  | (s', .ret p) => ∃ τ, Steps C.code σ τ ∧ C.code[τ.pc]? = some (.ret, p) ∧ Rel C.sl s' τ ∧
      (∃ X, τ.regStack = X ++ σ.regStack.drop d) ∧ (∃ Y, τ.vals = Y ++ σ.vals.drop e) ∧
      τ.paths = σ.paths ∧ τ.gosubs = σ.gosubs
  | (s', .error c p) => ∃ env, ErrsWith C.code σ c p env s'.out
  | (_, .inexact) => True
  | (_, .outOfFuel) => True
  | (_, .illFormed) => True
  | (_, .notHere) => True

/-- the induction hypothesis of the statement theorem at a given amount of fuel: for every statement placed anywhere in the
code, at any depths, entered in either way, on top of any stacks that are at least as high as the statement is deep -/
def StmtIH (C : Ctx) (fuel : Nat) : Prop :=
  ∀ (stmt : SStmt) (sfx : String) (d e off : Nat) (m : Mode) (σ : Vm) (s : St),
    CodeAt C.code off (compileStmt C.env sfx d e off stmt) → LabAt C.env d e off stmt → Wf C.sl C.env.dp d e stmt →
    Entry C.env off stmt m σ → Rel C.sl s σ → d ≤ σ.regStack.length → e ≤ σ.vals.length →
    StmtSpec C d e (off + sizeStmt C.env.dp d e stmt) σ (exec fuel C.P (desugar stmt) m s)

/-- the induction hypothesis at every smaller or equal amount of fuel -/
def StmtIHle (C : Ctx) (fuel : Nat) : Prop := ∀ f, f ≤ fuel → StmtIH C f

theorem StmtIHle.self {C : Ctx} {fuel : Nat} (h : StmtIHle C fuel) : StmtIH C fuel := h fuel (Nat.le_refl _)

theorem StmtIHle.mono {C : Ctx} {fuel f : Nat} (h : StmtIHle C fuel) (hf : f ≤ fuel) : StmtIHle C f :=
  fun g hg => h g (Nat.le_trans hg hf)

theorem stmtIH_zero (C : Ctx) : StmtIH C 0 := by
  intro stmt sfx d e off m σ s _ _ _ _ _ _ _
  simp only [exec, StmtSpec]

/-- a statement that defines no label is entered from its first instruction -/
theorem Entry.of_nolabels {env : LEnv} {off : Nat} {stmt : SStmt} {m : Mode} {σ : Vm} (h : Entry env off stmt m σ)
    (hl : stmt.labels = []) : m = .run ∧ σ.pc = off := by
  cases m with
  | run => exact ⟨rfl, h⟩
  | seek L => obtain ⟨h1, _⟩ := h; rw [hl] at h1; exact absurd h1 (by simp)

/-- the same specification reached after a prefix of steps that leaves the four stacks alone -/
theorem StmtSpec.of_steps {C : Ctx} {d e fin : Nat} {σ τ : Vm} {r : St × Outcome} (h₁ : Steps C.code σ τ)
    (hs : SameStacks σ τ) (h₂ : StmtSpec C d e fin τ r) : StmtSpec C d e fin σ r := by
  obtain ⟨s', o⟩ := r
  obtain ⟨e1, e2, e3, e4⟩ := hs
  cases o with
  | normal =>
    obtain ⟨υ, st, hp, hr, hss⟩ := h₂
    exact ⟨υ, h₁.trans st, hp, hr, SameStacks.trans ⟨e1, e2, e3, e4⟩ hss⟩
  | halted =>
    obtain ⟨υ, ω, st, hh, hr⟩ := h₂
    exact ⟨υ, ω, h₁.trans st, hh, hr⟩
  | jump L =>
    obtain ⟨υ, st, hp, hr, h1, h2, h3, h4⟩ := h₂
    exact ⟨υ, h₁.trans st, hp, hr, by rw [h1, e1], by rw [h2, e2], by rw [h3, e3], by rw [h4, e4]⟩
  | ret p =>
    obtain ⟨υ, st, hp, hr, h1, h2, h3, h4⟩ := h₂
    exact ⟨υ, h₁.trans st, hp, hr, by rw [← e1]; exact h1, by rw [← e2]; exact h2, by rw [h3, e3], by rw [h4, e4]⟩
  | error c p =>
    obtain ⟨ev, h⟩ := h₂
    exact ⟨ev, ErrsWith.of_steps h₁ h⟩
  | inexact => trivial
  | outOfFuel => trivial
  | illFormed => trivial
  | notHere => trivial

/-- the same specification with the end address written differently -/
theorem StmtSpec.addr {C : Ctx} {d e fin fin' : Nat} {σ : Vm} {r : St × Outcome} (he : fin = fin')
    (h : StmtSpec C d e fin σ r) : StmtSpec C d e fin' σ r := he ▸ h

/-- an outcome that ends the program or is outside the claim is passed on by every construct, whatever the depths and the
end address -/
theorem StmtSpec.pass {C : Ctx} {d e fin d' e' fin' : Nat} {σ : Vm} {s' : St} {o : Outcome}
    (ho : ∀ L, o ≠ .jump L) (hn : o ≠ .normal) (hr : ∀ p, o ≠ .ret p)
    (h : StmtSpec C d e fin σ (s', o)) : StmtSpec C d' e' fin' σ (s', o) := by
  cases o with
  | normal => exact absurd rfl hn
  | jump L => exact absurd rfl (ho L)
  | ret p => exact absurd rfl (hr p)
  | halted => exact h
  | error c p => exact h
  | inexact => trivial
  | outOfFuel => trivial
  | illFormed => trivial
  | notHere => trivial

/-- a jump that leaves a sub-statement at the same depths towards a label *inside* the enclosing statement arrives at the
label with the stacks of the entry state: the enclosing statement can be re-entered in seek mode -/
theorem jump_caught {C : Ctx} {d e fin : Nat} {σ : Vm} {s' : St} {L : Nat}
    (h : StmtSpec C d e fin σ (s', .jump L)) (h1 : C.env.dp.fd L ≤ d) (h2 : d ≤ C.env.dp.fd L)
    (h3 : C.env.dp.sd L ≤ e) (h4 : e ≤ C.env.dp.sd L) :
    ∃ τ, Steps C.code σ τ ∧ τ.pc = C.env.addr L ∧ Rel C.sl s' τ ∧ SameStacks σ τ := by
  obtain ⟨τ, st, hp, hr, e1, e2, e3, e4⟩ := h
  have hd : d - C.env.dp.fd L = 0 := by omega
  have he : e - C.env.dp.sd L = 0 := by omega
  rw [hd] at e1; rw [he] at e2
  exact ⟨τ, st, hp, hr, by simpa using e1, by simpa using e2, e3, e4⟩

theorem evalCond_error_kind {env : List Val} {c : Ast.Expr} {o : Outcome} (h : evalCond env c = .error o) :
    (∃ cd q, o = .error cd q) ∨ o = .inexact := by
  unfold evalCond at h
  cases he : eval env c with
  | err cd q => simp [he] at h; exact .inl ⟨cd, q, h.symm⟩
  | inexact => simp [he] at h; exact .inr h.symm
  | ok v =>
    simp only [he] at h
    cases ht : truthy v with
    | some b => simp [ht] at h
    | none => simp [ht] at h; exact .inl ⟨13, c.pos, h.symm⟩

/-- an outcome of a condition, an expression or a built-in that is an error ends the statement with that error -/
theorem StmtSpec.of_cond_error {C : Ctx} {d e fin : Nat} {σ : Vm} {s : St} {c : Ast.Expr} {o : Outcome}
    (hec : evalCond s.env c = .error o)
    (h : ∀ cd q, o = .error cd q → ∃ ev, ErrsWith C.code σ cd q ev s.out) : StmtSpec C d e fin σ (s, o) := by
  rcases evalCond_error_kind hec with ⟨cd, q, rfl⟩ | rfl
  · exact h cd q rfl
  · trivial

/-- **the jump-handling rule, VM side**: a jump that came out of a part of `stmt` (specification relative to `σ` at the depths
of `stmt`) to a label *inside* `stmt` is a re-entry of `stmt` in seek mode, one unit of fuel down -/
theorem restart_seek {C : Ctx} {fuel : Nat} (ih : StmtIH C fuel) {stmt : SStmt} {sfx : String} {d e off : Nat} {σ : Vm}
    (hc : CodeAt C.code off (compileStmt C.env sfx d e off stmt)) (hl : LabAt C.env d e off stmt)
    (hw : Wf C.sl C.env.dp d e stmt) (hd : d ≤ σ.regStack.length) (he : e ≤ σ.vals.length)
    {fin : Nat} {s' : St} {L : Nat} (h : StmtSpec C d e fin σ (s', .jump L))
    (hdep : C.env.dp.fd L ≤ d ∧ C.env.dp.sd L ≤ e) (hL : L ∈ stmt.labels) :
    StmtSpec C d e (off + sizeStmt C.env.dp d e stmt) σ (exec fuel C.P (desugar stmt) (.seek L) s') := by
  obtain ⟨g1, g2⟩ := hl.depth_ge hL
  obtain ⟨τ, st, hp, hr, hss⟩ := jump_caught h hdep.1 g1 hdep.2 g2
  have := ih stmt sfx d e off (.seek L) τ s' hc hl hw ⟨hL, hp⟩ hr (by rw [hss.1]; exact hd) (by rw [hss.2.1]; exact he)
  exact StmtSpec.of_steps st hss this

/-- `L ∈ stmt.labels` as the reference semantics asks it -/
theorem hasLabel_iff {sl : List Ty} {dp : Dp} {s : SStmt} {d e : Nat} (h : Wf sl dp d e s) (L : Nat) :
    (desugar s).hasLabel L = true ↔ L ∈ s.labels := by
  rw [hasLabel_desugar h]; simp

theorem hasLabel_false_iff {sl : List Ty} {dp : Dp} {s : SStmt} {d e : Nat} (h : Wf sl dp d e s) (L : Nat) :
    (desugar s).hasLabel L = false ↔ L ∉ s.labels := by
  rw [hasLabel_desugar h]; simp

end RbThm.JmpLSim
