import Thm.JmpLEnclose
/-!
Jump layer: the converse of `JmpLEnclose.progWf_enclosed` — the checker's rule about jumps into FOR bodies and SELECT CASE
blocks (`JmpL.jumpsEnclosedB`) gives the depth conditions the premise of the simulation theorem (`Wf` / `WfTop` with the
program's depth table `dpOf prog`) asks of every GOTO.

* `enc_top`: in a statement that passes the rule, a label that a jump *outside* the statement names is defined at the
  statement's own depth (inside no FOR body and no SELECT of the statement).
* `lift`: `Wf` with any depth table lifts to `Wf` with a table `dp` that agrees with `depthTable` on the labels of the
  statement, when the statement passes the rule, every GOSUB names a label at depth 0 / 0 and every GOTO whose label is
  outside the statement names a label that is not deeper than the statement.
* `enclosed_gives_goto_rule : EnclosedGivesGotoRule` — the statement `JmpLEnclose` left open, proved as stated.
* `enclosed_gives_premise`: the full converse with the GOSUB condition made explicit (`gosubsTopB`): a program that passes
  the rule, whose labels are defined once, whose jump targets are defined, whose GOSUB labels are at depth 0 / 0 and that
  is well formed with the trivial depth table is in the premise (`ProgWf`).  The two extra conditions are necessary:
  `progWf_enclosed` (the rule) and `gosubsTop_of_progWf` (the GOSUB condition).
-/
namespace RbThm.JmpLEnclose
set_option linter.unusedVariables false
set_option linter.unusedSimpArgs false
open RbModel RbModel.Num RbModel.JmpL RbModel.JmpL.Compile
open RbModel.Ast (Pos)
open RbThm.JmpLSim RbThm.JmpLLen

theorem noneIntoB_elim {outer inner : List Nat} (h : noneIntoB outer inner = true) {L : Nat} (hL : L ∈ outer) :
    L ∉ inner := by
  simp only [noneIntoB, List.all_eq_true, Bool.not_eq_true', List.contains_eq_mem, decide_eq_false_iff_not] at h
  exact h L hL

/-! ### a label that an outer jump names is at the statement's own depth -/

mutual
theorem enc_top : ∀ (s : SStmt) (d e : Nat) (outer : List Nat) (L : Nat), encB outer s = true → L ∈ outer →
    L ∈ s.labels → (L, d, e) ∈ depthTable d e s
  | .seq a b, d, e, outer, L, he, ho, hl => by
    simp only [encB, Bool.and_eq_true] at he
    simp only [SStmt.labels, List.mem_append] at hl
    simp only [depthTable, List.mem_append]
    rcases hl with hl | hl
    · exact .inl (enc_top a d e _ L he.1 (List.mem_append.mpr (.inl ho)) hl)
    · exact .inr (enc_top b d e _ L he.2 (List.mem_append.mpr (.inl ho)) hl)
  | .ifBlock c thn elifs hasElse els p, d, e, outer, L, he, ho, hl => by
    simp only [encB, Bool.and_eq_true] at he
    simp only [SStmt.labels, List.mem_append] at hl
    simp only [depthTable, List.mem_append]
    rcases hl with hl | hl | hl
    · exact .inl (.inl (enc_top thn d e _ L he.1.1 (List.mem_append.mpr (.inl ho)) hl))
    · exact .inl (.inr (enc_top_elifs elifs d e _ L he.1.2 (List.mem_append.mpr (.inl ho)) hl))
    · exact .inr (enc_top els d e _ L he.2 (List.mem_append.mpr (.inl ho)) hl)
  | .select sel cases hasElse els p, d, e, outer, L, he, ho, hl => by
    simp only [encB, Bool.and_eq_true] at he
    simp only [SStmt.labels] at hl
    exact absurd hl (noneIntoB_elim he.1.1 ho)
  | .forLoop x t lo hi step body p, d, e, outer, L, he, ho, hl => by
    simp only [encB, Bool.and_eq_true] at he
    simp only [SStmt.labels] at hl
    exact absurd hl (noneIntoB_elim he.1 ho)
  | .while c body p, d, e, outer, L, he, ho, hl => by
    simp only [encB] at he
    simp only [SStmt.labels] at hl
    simp only [depthTable]
    exact enc_top body d e outer L he ho hl
  | .doLoop c top u body p, d, e, outer, L, he, ho, hl => by
    simp only [encB] at he
    simp only [SStmt.labels] at hl
    simp only [depthTable]
    exact enc_top body d e outer L he ho hl
  | .label L' name p, d, e, outer, L, he, ho, hl => by
    simp only [SStmt.labels, List.mem_singleton] at hl
    subst hl
    simp [depthTable]
  | .skip, _, _, _, _, _, _, hl => by simp [SStmt.labels] at hl
  | .comment, _, _, _, _, _, _, hl => by simp [SStmt.labels] at hl
  | .dim _ _ _, _, _, _, _, _, _, hl => by simp [SStmt.labels] at hl
  | .assign _ _ _ _, _, _, _, _, _, _, hl => by simp [SStmt.labels] at hl
  | .print _ _, _, _, _, _, _, _, hl => by simp [SStmt.labels] at hl
  | .data _ _, _, _, _, _, _, _, hl => by simp [SStmt.labels] at hl
  | .read _ _, _, _, _, _, _, _, hl => by simp [SStmt.labels] at hl
  | .end_ _, _, _, _, _, _, _, hl => by simp [SStmt.labels] at hl
  | .goto _ _, _, _, _, _, _, _, hl => by simp [SStmt.labels] at hl
  | .gosub _ _, _, _, _, _, _, _, hl => by simp [SStmt.labels] at hl
  | .ret _, _, _, _, _, _, _, hl => by simp [SStmt.labels] at hl
theorem enc_top_elifs : ∀ (el : ElseIfs) (d e : Nat) (outer : List Nat) (L : Nat), encElifsB outer el = true → L ∈ outer →
    L ∈ el.labels → (L, d, e) ∈ depthElifs d e el
  | .nil, _, _, _, _, _, _, hl => by simp [ElseIfs.labels] at hl
  | .cons c body rest, d, e, outer, L, he, ho, hl => by
    simp only [encElifsB, Bool.and_eq_true] at he
    simp only [ElseIfs.labels, List.mem_append] at hl
    simp only [depthElifs, List.mem_append]
    rcases hl with hl | hl
    · exact .inl (enc_top body d e _ L he.1 (List.mem_append.mpr (.inl ho)) hl)
    · exact .inr (enc_top_elifs rest d e _ L he.2 (List.mem_append.mpr (.inl ho)) hl)
theorem enc_top_cases : ∀ (cs : SCases) (d e : Nat) (outer : List Nat) (L : Nat), encCasesB outer cs = true → L ∈ outer →
    L ∈ cs.labels → (L, d, e) ∈ depthCases d e cs
  | .nil, _, _, _, _, _, _, hl => by simp [SCases.labels] at hl
  | .cons conds body rest, d, e, outer, L, he, ho, hl => by
    simp only [encCasesB, Bool.and_eq_true] at he
    simp only [SCases.labels, List.mem_append] at hl
    simp only [depthCases, List.mem_append]
    rcases hl with hl | hl
    · exact .inl (enc_top body d e _ L he.1 (List.mem_append.mpr (.inl ho)) hl)
    · exact .inr (enc_top_cases rest d e _ L he.2 (List.mem_append.mpr (.inl ho)) hl)
end

/-! ### the invariant of the induction -/

/-- every GOTO target that is not one of `labels` (the labels of the statement around the GOTOs) is not deeper than the
statement (depth `d` / `e`) -/
def GotoOk (dp : Dp) (d e : Nat) (gotos labels : List Nat) : Prop :=
  ∀ L ∈ gotos, L ∈ labels ∨ (dp.fd L ≤ d ∧ dp.sd L ≤ e)

/-- every GOSUB target is at depth 0 / 0 -/
def GosubOk (dp : Dp) (gosubs : List Nat) : Prop := ∀ L ∈ gosubs, dp.fd L = 0 ∧ dp.sd L = 0

/-- a label the table lists at depth `d` / `e` is not deeper than `d` / `e` -/
theorem sib {dp : Dp} {tbl : List (Nat × Nat × Nat)} (hd : DepIn dp tbl) {L d e : Nat} (hm : (L, d, e) ∈ tbl) :
    dp.fd L ≤ d ∧ dp.sd L ≤ e := by
  obtain ⟨h1, h2⟩ := hd L d e hm
  omega

theorem goto_jump {s : SStmt} {L : Nat} (h : L ∈ s.gotos) : L ∈ s.jumps := List.mem_append.mpr (.inl h)
theorem goto_jump_elifs {el : ElseIfs} {L : Nat} (h : L ∈ el.gotos) : L ∈ el.jumps := List.mem_append.mpr (.inl h)
theorem goto_jump_cases {cs : SCases} {L : Nat} (h : L ∈ cs.gotos) : L ∈ cs.jumps := List.mem_append.mpr (.inl h)

/-! ### the rule gives the depth conditions -/

mutual
theorem lift (sl : List Ty) (dp0 dp : Dp) : ∀ (s : SStmt) (d e : Nat) (outer : List Nat), Wf sl dp0 d e s →
    DepIn dp (depthTable d e s) → encB outer s = true → GosubOk dp s.gosubs → GotoOk dp d e s.gotos s.labels →
    Wf sl dp d e s
  | .seq a b, d, e, outer, hw, hd, he, hs, hg => by
    simp only [encB, Bool.and_eq_true] at he
    simp only [SStmt.gosubs] at hs
    simp only [SStmt.gotos, SStmt.labels] at hg
    have hda : DepIn dp (depthTable d e a) := fun L d' e' hm =>
      hd L d' e' (by simp only [depthTable, List.mem_append]; exact .inl hm)
    have hdb : DepIn dp (depthTable d e b) := fun L d' e' hm =>
      hd L d' e' (by simp only [depthTable, List.mem_append]; exact .inr hm)
    refine ⟨lift sl dp0 dp a d e _ hw.1 hda he.1 (fun L h => hs L (List.mem_append.mpr (.inl h))) ?_,
      lift sl dp0 dp b d e _ hw.2 hdb he.2 (fun L h => hs L (List.mem_append.mpr (.inr h))) ?_⟩
    · intro L hL
      rcases hg L (List.mem_append.mpr (.inl hL)) with h | h
      · rcases List.mem_append.mp h with h | h
        · exact .inl h
        · exact .inr (sib hdb (enc_top b d e _ L he.2 (List.mem_append.mpr (.inr (goto_jump hL))) h))
      · exact .inr h
    · intro L hL
      rcases hg L (List.mem_append.mpr (.inr hL)) with h | h
      · rcases List.mem_append.mp h with h | h
        · exact .inr (sib hda (enc_top a d e _ L he.1 (List.mem_append.mpr (.inr (goto_jump hL))) h))
        · exact .inl h
      · exact .inr h
  | .ifBlock c thn elifs hasElse els p, d, e, outer, hw, hd, he, hs, hg => by
    obtain ⟨a1, a2, h1, h2, h3, a6⟩ := hw
    simp only [encB, Bool.and_eq_true] at he
    obtain ⟨⟨he1, he2⟩, he3⟩ := he
    simp only [SStmt.gosubs] at hs
    simp only [SStmt.gotos, SStmt.labels] at hg
    have hd1 : DepIn dp (depthTable d e thn) := fun L d' e' hm =>
      hd L d' e' (by simp only [depthTable, List.mem_append]; exact .inl (.inl hm))
    have hd2 : DepIn dp (depthElifs d e elifs) := fun L d' e' hm =>
      hd L d' e' (by simp only [depthTable, List.mem_append]; exact .inl (.inr hm))
    have hd3 : DepIn dp (depthTable d e els) := fun L d' e' hm =>
      hd L d' e' (by simp only [depthTable, List.mem_append]; exact .inr hm)
    refine ⟨a1, a2,
      lift sl dp0 dp thn d e _ h1 hd1 he1 (fun L h => hs L (List.mem_append.mpr (.inl h))) ?_,
      lift_elifs sl dp0 dp elifs d e _ h2 hd2 he2
        (fun L h => hs L (List.mem_append.mpr (.inr (List.mem_append.mpr (.inl h))))) ?_,
      lift sl dp0 dp els d e _ h3 hd3 he3
        (fun L h => hs L (List.mem_append.mpr (.inr (List.mem_append.mpr (.inr h))))) ?_, a6⟩
    · intro L hL
      rcases hg L (List.mem_append.mpr (.inl hL)) with h | h
      · rcases List.mem_append.mp h with h | h
        · exact .inl h
        · rcases List.mem_append.mp h with h | h
          · exact .inr (sib hd2 (enc_top_elifs elifs d e _ L he2
              (List.mem_append.mpr (.inr (List.mem_append.mpr (.inl (goto_jump hL))))) h))
          · exact .inr (sib hd3 (enc_top els d e _ L he3
              (List.mem_append.mpr (.inr (List.mem_append.mpr (.inl (goto_jump hL))))) h))
      · exact .inr h
    · intro L hL
      rcases hg L (List.mem_append.mpr (.inr (List.mem_append.mpr (.inl hL)))) with h | h
      · rcases List.mem_append.mp h with h | h
        · exact .inr (sib hd1 (enc_top thn d e _ L he1
            (List.mem_append.mpr (.inr (List.mem_append.mpr (.inl (goto_jump_elifs hL))))) h))
        · rcases List.mem_append.mp h with h | h
          · exact .inl h
          · exact .inr (sib hd3 (enc_top els d e _ L he3
              (List.mem_append.mpr (.inr (List.mem_append.mpr (.inr (goto_jump_elifs hL))))) h))
      · exact .inr h
    · intro L hL
      rcases hg L (List.mem_append.mpr (.inr (List.mem_append.mpr (.inr hL)))) with h | h
      · rcases List.mem_append.mp h with h | h
        · exact .inr (sib hd1 (enc_top thn d e _ L he1
            (List.mem_append.mpr (.inr (List.mem_append.mpr (.inr (goto_jump hL))))) h))
        · rcases List.mem_append.mp h with h | h
          · exact .inr (sib hd2 (enc_top_elifs elifs d e _ L he2
              (List.mem_append.mpr (.inr (List.mem_append.mpr (.inr (goto_jump hL))))) h))
          · exact .inl h
      · exact .inr h
  | .select sel cases hasElse els p, d, e, outer, hw, hd, he, hs, hg => by
    obtain ⟨a1, h1, h2, a4, _⟩ := hw
    simp only [encB, Bool.and_eq_true] at he
    obtain ⟨⟨_, he1⟩, he2⟩ := he
    simp only [SStmt.gosubs] at hs
    simp only [SStmt.gotos, SStmt.labels] at hg
    have hd1 : DepIn dp (depthCases d (e + 1) cases) := fun L d' e' hm =>
      hd L d' e' (by simp only [depthTable, List.mem_append]; exact .inl hm)
    have hd2 : DepIn dp (depthTable d (e + 1) els) := fun L d' e' hm =>
      hd L d' e' (by simp only [depthTable, List.mem_append]; exact .inr hm)
    refine ⟨a1,
      lift_cases sl dp0 dp cases d (e + 1) _ h1 hd1 he1 (fun L h => hs L (List.mem_append.mpr (.inl h))) ?_,
      lift sl dp0 dp els d (e + 1) _ h2 hd2 he2 (fun L h => hs L (List.mem_append.mpr (.inr h))) ?_, a4, ?_⟩
    · intro L hL
      rcases hg L (List.mem_append.mpr (.inl hL)) with h | h
      · rcases List.mem_append.mp h with h | h
        · exact .inl h
        · exact .inr (sib hd2 (enc_top els d (e + 1) _ L he2 (List.mem_append.mpr (.inr (goto_jump_cases hL))) h))
      · exact .inr ⟨h.1, by have := h.2; omega⟩
    · intro L hL
      rcases hg L (List.mem_append.mpr (.inr hL)) with h | h
      · rcases List.mem_append.mp h with h | h
        · exact .inr (sib hd1 (enc_top_cases cases d (e + 1) _ L he1 (List.mem_append.mpr (.inr (goto_jump hL))) h))
        · exact .inl h
      · exact .inr ⟨h.1, by have := h.2; omega⟩
    · intro L hL
      rcases hg L hL with h | h
      · exact .inl h
      · exact .inr h.2
  | .forLoop x t lo hi step body p, d, e, outer, hw, hd, he, hs, hg => by
    obtain ⟨a1, a2, a3, a4, a5, h1, _⟩ := hw
    simp only [encB, Bool.and_eq_true] at he
    simp only [SStmt.gosubs] at hs
    simp only [SStmt.gotos, SStmt.labels] at hg
    have hd1 : DepIn dp (depthTable (d + 1) e body) := fun L d' e' hm => hd L d' e' (by simpa only [depthTable] using hm)
    refine ⟨a1, a2, a3, a4, a5, lift sl dp0 dp body (d + 1) e outer h1 hd1 he.2 hs ?_, ?_⟩
    · intro L hL
      rcases hg L hL with h | h
      · exact .inl h
      · exact .inr ⟨by have := h.1; omega, h.2⟩
    · intro L hL
      rcases hg L hL with h | h
      · exact .inl h
      · exact .inr h.1
  | .while c body p, d, e, outer, hw, hd, he, hs, hg => by
    simp only [encB] at he
    exact ⟨hw.1, hw.2.1, lift sl dp0 dp body d e outer hw.2.2
      (fun L d' e' hm => hd L d' e' (by simpa only [depthTable] using hm)) he hs hg⟩
  | .doLoop c top u body p, d, e, outer, hw, hd, he, hs, hg => by
    simp only [encB] at he
    exact ⟨hw.1, hw.2.1, lift sl dp0 dp body d e outer hw.2.2
      (fun L d' e' hm => hd L d' e' (by simpa only [depthTable] using hm)) he hs hg⟩
  | .goto L p, d, e, outer, hw, hd, he, hs, hg => by
    rcases hg L (by simp [SStmt.gotos]) with h | h
    · simp [SStmt.labels] at h
    · exact h
  | .gosub L p, d, e, outer, hw, hd, he, hs, hg => hs L (by simp [SStmt.gosubs])
  | .skip, _, _, _, hw, _, _, _, _ => hw
  | .comment, _, _, _, hw, _, _, _, _ => hw
  | .dim _ _ _, _, _, _, hw, _, _, _, _ => hw
  | .assign _ _ _ _, _, _, _, hw, _, _, _, _ => hw
  | .print _ _, _, _, _, hw, _, _, _, _ => hw
  | .data _ _, _, _, _, hw, _, _, _, _ => hw
  | .read _ _, _, _, _, hw, _, _, _, _ => hw
  | .end_ _, _, _, _, hw, _, _, _, _ => hw
  | .label _ _ _, _, _, _, hw, _, _, _, _ => hw
  | .ret _, _, _, _, hw, _, _, _, _ => hw
theorem lift_elifs (sl : List Ty) (dp0 dp : Dp) : ∀ (el : ElseIfs) (d e : Nat) (outer : List Nat), WfElifs sl dp0 d e el →
    DepIn dp (depthElifs d e el) → encElifsB outer el = true → GosubOk dp el.gosubs → GotoOk dp d e el.gotos el.labels →
    WfElifs sl dp d e el
  | .nil, _, _, _, hw, _, _, _, _ => hw
  | .cons c body rest, d, e, outer, hw, hd, he, hs, hg => by
    obtain ⟨a1, a2, h1, h2⟩ := hw
    simp only [encElifsB, Bool.and_eq_true] at he
    simp only [ElseIfs.gosubs] at hs
    simp only [ElseIfs.gotos, ElseIfs.labels] at hg
    have hda : DepIn dp (depthTable d e body) := fun L d' e' hm =>
      hd L d' e' (by simp only [depthElifs, List.mem_append]; exact .inl hm)
    have hdb : DepIn dp (depthElifs d e rest) := fun L d' e' hm =>
      hd L d' e' (by simp only [depthElifs, List.mem_append]; exact .inr hm)
    refine ⟨a1, a2, lift sl dp0 dp body d e _ h1 hda he.1 (fun L h => hs L (List.mem_append.mpr (.inl h))) ?_,
      lift_elifs sl dp0 dp rest d e _ h2 hdb he.2 (fun L h => hs L (List.mem_append.mpr (.inr h))) ?_⟩
    · intro L hL
      rcases hg L (List.mem_append.mpr (.inl hL)) with h | h
      · rcases List.mem_append.mp h with h | h
        · exact .inl h
        · exact .inr (sib hdb (enc_top_elifs rest d e _ L he.2 (List.mem_append.mpr (.inr (goto_jump hL))) h))
      · exact .inr h
    · intro L hL
      rcases hg L (List.mem_append.mpr (.inr hL)) with h | h
      · rcases List.mem_append.mp h with h | h
        · exact .inr (sib hda (enc_top body d e _ L he.1 (List.mem_append.mpr (.inr (goto_jump_elifs hL))) h))
        · exact .inl h
      · exact .inr h
theorem lift_cases (sl : List Ty) (dp0 dp : Dp) : ∀ (cs : SCases) (d e : Nat) (outer : List Nat), WfCases sl dp0 d e cs →
    DepIn dp (depthCases d e cs) → encCasesB outer cs = true → GosubOk dp cs.gosubs → GotoOk dp d e cs.gotos cs.labels →
    WfCases sl dp d e cs
  | .nil, _, _, _, hw, _, _, _, _ => hw
  | .cons conds body rest, d, e, outer, hw, hd, he, hs, hg => by
    obtain ⟨a1, a2, h1, h2⟩ := hw
    simp only [encCasesB, Bool.and_eq_true] at he
    simp only [SCases.gosubs] at hs
    simp only [SCases.gotos, SCases.labels] at hg
    have hda : DepIn dp (depthTable d e body) := fun L d' e' hm =>
      hd L d' e' (by simp only [depthCases, List.mem_append]; exact .inl hm)
    have hdb : DepIn dp (depthCases d e rest) := fun L d' e' hm =>
      hd L d' e' (by simp only [depthCases, List.mem_append]; exact .inr hm)
    refine ⟨a1, a2, lift sl dp0 dp body d e _ h1 hda he.1 (fun L h => hs L (List.mem_append.mpr (.inl h))) ?_,
      lift_cases sl dp0 dp rest d e _ h2 hdb he.2 (fun L h => hs L (List.mem_append.mpr (.inr h))) ?_⟩
    · intro L hL
      rcases hg L (List.mem_append.mpr (.inl hL)) with h | h
      · rcases List.mem_append.mp h with h | h
        · exact .inl h
        · exact .inr (sib hdb (enc_top_cases rest d e _ L he.2 (List.mem_append.mpr (.inr (goto_jump hL))) h))
      · exact .inr h
    · intro L hL
      rcases hg L (List.mem_append.mpr (.inr hL)) with h | h
      · rcases List.mem_append.mp h with h | h
        · exact .inr (sib hda (enc_top body d e _ L he.1 (List.mem_append.mpr (.inr (goto_jump_cases hL))) h))
        · exact .inl h
      · exact .inr h
end

/-! ### the top level (DATA statements allowed) -/

theorem lift_top (sl : List Ty) (dp0 dp : Dp) : ∀ (s : SStmt) (outer : List Nat), WfTop sl dp0 s →
    DepIn dp (depthTable 0 0 s) → encB outer s = true → GosubOk dp s.gosubs → GotoOk dp 0 0 s.gotos s.labels →
    WfTop sl dp s
  | .seq a b, outer, hw, hd, he, hs, hg => by
    simp only [encB, Bool.and_eq_true] at he
    simp only [SStmt.gosubs] at hs
    simp only [SStmt.gotos, SStmt.labels] at hg
    have hda : DepIn dp (depthTable 0 0 a) := fun L d' e' hm =>
      hd L d' e' (by simp only [depthTable, List.mem_append]; exact .inl hm)
    have hdb : DepIn dp (depthTable 0 0 b) := fun L d' e' hm =>
      hd L d' e' (by simp only [depthTable, List.mem_append]; exact .inr hm)
    refine ⟨lift_top sl dp0 dp a _ hw.1 hda he.1 (fun L h => hs L (List.mem_append.mpr (.inl h))) ?_,
      lift_top sl dp0 dp b _ hw.2 hdb he.2 (fun L h => hs L (List.mem_append.mpr (.inr h))) ?_⟩
    · intro L hL
      rcases hg L (List.mem_append.mpr (.inl hL)) with h | h
      · rcases List.mem_append.mp h with h | h
        · exact .inl h
        · exact .inr (sib hdb (enc_top b 0 0 _ L he.2 (List.mem_append.mpr (.inr (goto_jump hL))) h))
      · exact .inr h
    · intro L hL
      rcases hg L (List.mem_append.mpr (.inr hL)) with h | h
      · rcases List.mem_append.mp h with h | h
        · exact .inr (sib hda (enc_top a 0 0 _ L he.1 (List.mem_append.mpr (.inr (goto_jump hL))) h))
        · exact .inl h
      · exact .inr h
  | .data _ _, _, _, _, _, _, _ => trivial
  | .skip, outer, hw, hd, he, hs, hg => lift sl dp0 dp _ 0 0 outer hw hd he hs hg
  | .comment, outer, hw, hd, he, hs, hg => lift sl dp0 dp _ 0 0 outer hw hd he hs hg
  | .dim _ _ _, outer, hw, hd, he, hs, hg => lift sl dp0 dp _ 0 0 outer hw hd he hs hg
  | .assign _ _ _ _, outer, hw, hd, he, hs, hg => lift sl dp0 dp _ 0 0 outer hw hd he hs hg
  | .print _ _, outer, hw, hd, he, hs, hg => lift sl dp0 dp _ 0 0 outer hw hd he hs hg
  | .read _ _, outer, hw, hd, he, hs, hg => lift sl dp0 dp _ 0 0 outer hw hd he hs hg
  | .ifBlock _ _ _ _ _ _, outer, hw, hd, he, hs, hg => lift sl dp0 dp _ 0 0 outer hw hd he hs hg
  | .select _ _ _ _ _, outer, hw, hd, he, hs, hg => lift sl dp0 dp _ 0 0 outer hw hd he hs hg
  | .forLoop _ _ _ _ _ _ _, outer, hw, hd, he, hs, hg => lift sl dp0 dp _ 0 0 outer hw hd he hs hg
  | .while _ _ _, outer, hw, hd, he, hs, hg => lift sl dp0 dp _ 0 0 outer hw hd he hs hg
  | .doLoop _ _ _ _ _, outer, hw, hd, he, hs, hg => lift sl dp0 dp _ 0 0 outer hw hd he hs hg
  | .end_ _, outer, hw, hd, he, hs, hg => lift sl dp0 dp _ 0 0 outer hw hd he hs hg
  | .label _ _ _, outer, hw, hd, he, hs, hg => lift sl dp0 dp _ 0 0 outer hw hd he hs hg
  | .goto _ _, outer, hw, hd, he, hs, hg => lift sl dp0 dp _ 0 0 outer hw hd he hs hg
  | .gosub _ _, outer, hw, hd, he, hs, hg => lift sl dp0 dp _ 0 0 outer hw hd he hs hg
  | .ret _, outer, hw, hd, he, hs, hg => lift sl dp0 dp _ 0 0 outer hw hd he hs hg

/-! ### the program theorems -/

/-- the GOSUB condition of the premise, executable: every GOSUB names a label the program's depth table puts at depth
0 / 0 -/
def gosubsTopB (prog : SProgram) : Bool :=
  prog.body.gosubs.all fun L => decide ((dpOf prog).fd L = 0) && decide ((dpOf prog).sd L = 0)

/-- **the checker's rule gives the premise's depth conditions**, GOSUB condition explicit: a program whose labels are
defined once, whose GOTO targets are defined, whose GOSUB labels are at depth 0 / 0 and that passes the checker's rule is
well formed with its real depth table as soon as it is well formed with any depth table (the trivial one, say: C01's
conditions and "no label in the body of a FOR … STEP") -/
theorem enclosed_lifts (prog : SProgram) (hn : prog.body.labels.Nodup) (hdef : ∀ L ∈ prog.body.gotos, L ∈ prog.body.labels)
    (henc : jumpsEnclosedB prog = true) (hgs : gosubsTopB prog = true) (sl : List Ty) (dp0 : Dp)
    (hw : WfTop sl dp0 prog.body) : WfTop sl (dpOf prog) prog.body := by
  refine lift_top sl dp0 (dpOf prog) prog.body [] hw (depIn_dpOf prog hn) henc ?_ (fun L hL => .inl (hdef L hL))
  intro L hL
  simp only [gosubsTopB, List.all_eq_true, Bool.and_eq_true, decide_eq_true_eq] at hgs
  exact hgs L hL

/-- **the statement `JmpLEnclose` left open**, as stated there -/
theorem enclosed_gives_goto_rule : EnclosedGivesGotoRule := by
  intro prog hn hdef henc hgs sl hw
  refine enclosed_lifts prog hn (fun L hL => hdef L (goto_jump hL)) henc ?_ sl _ hw
  simp [gosubsTopB, hgs]

/-- the full converse of `progWf_enclosed`, the GOSUB condition and the table-independent part of the premise explicit -/
def EnclosedGivesPremise : Prop :=
  ∀ prog : SProgram, prog.body.labels.Nodup → (∀ L ∈ prog.body.gotos, L ∈ prog.body.labels) → jumpsEnclosedB prog = true →
    gosubsTopB prog = true → WfTop prog.slots ⟨fun _ => 0, fun _ => 0⟩ prog.body → ProgWf prog

theorem enclosed_gives_premise : EnclosedGivesPremise :=
  fun prog hn hdef henc hgs hw => ⟨enclosed_lifts prog hn hdef henc hgs prog.slots _ hw, hn⟩

/-- a GOSUB of a well-formed program body names a label at depth 0 / 0 -/
theorem gosub_depths_top (sl : List Ty) (dp : Dp) : ∀ (s : SStmt) (L : Nat), WfTop sl dp s → L ∈ s.gosubs →
    dp.fd L = 0 ∧ dp.sd L = 0
  | .seq a b, L, hw, hg => by
    simp only [SStmt.gosubs, List.mem_append] at hg
    rcases hg with hg | hg
    · exact gosub_depths_top sl dp a L hw.1 hg
    · exact gosub_depths_top sl dp b L hw.2 hg
  | .data _ _, L, _, hg => by simp [SStmt.gosubs] at hg
  | .skip, L, hw, hg => gosub_depths sl dp _ 0 0 L hw hg
  | .comment, L, hw, hg => gosub_depths sl dp _ 0 0 L hw hg
  | .dim _ _ _, L, hw, hg => gosub_depths sl dp _ 0 0 L hw hg
  | .assign _ _ _ _, L, hw, hg => gosub_depths sl dp _ 0 0 L hw hg
  | .print _ _, L, hw, hg => gosub_depths sl dp _ 0 0 L hw hg
  | .read _ _, L, hw, hg => gosub_depths sl dp _ 0 0 L hw hg
  | .ifBlock _ _ _ _ _ _, L, hw, hg => gosub_depths sl dp _ 0 0 L hw hg
  | .select _ _ _ _ _, L, hw, hg => gosub_depths sl dp _ 0 0 L hw hg
  | .forLoop _ _ _ _ _ _ _, L, hw, hg => gosub_depths sl dp _ 0 0 L hw hg
  | .while _ _ _, L, hw, hg => gosub_depths sl dp _ 0 0 L hw hg
  | .doLoop _ _ _ _ _, L, hw, hg => gosub_depths sl dp _ 0 0 L hw hg
  | .end_ _, L, hw, hg => gosub_depths sl dp _ 0 0 L hw hg
  | .label _ _ _, L, hw, hg => gosub_depths sl dp _ 0 0 L hw hg
  | .goto _ _, L, hw, hg => gosub_depths sl dp _ 0 0 L hw hg
  | .gosub _ _, L, hw, hg => gosub_depths sl dp _ 0 0 L hw hg
  | .ret _, L, hw, hg => gosub_depths sl dp _ 0 0 L hw hg

/-- the GOSUB condition is necessary: a program in the premise satisfies `gosubsTopB` -/
theorem gosubsTop_of_progWf (prog : SProgram) (h : ProgWf prog) : gosubsTopB prog = true := by
  simp only [gosubsTopB, List.all_eq_true, Bool.and_eq_true, decide_eq_true_eq]
  exact fun L hL => gosub_depths_top prog.slots (dpOf prog) prog.body L h.1 hL

/-! ### examples -/

/-- non-vacuity of `enclosed_gives_goto_rule`: `FOR x = 1 TO 1 : 0: : GOTO 1 : GOTO 0 : NEXT : 1:` (a label inside a FOR
body, a GOTO to it from the same body, a GOTO out of the body) satisfies every hypothesis, the trivial-table
well-formedness included, and the conclusion is the non-trivial one (`progWfB`) -/
example : insideAndOut.body.labels.Nodup ∧ (∀ L ∈ insideAndOut.body.jumps, L ∈ insideAndOut.body.labels) ∧
    jumpsEnclosedB insideAndOut = true ∧ insideAndOut.body.gosubs = [] ∧
    wfTopB insideAndOut.slots ⟨fun _ => 0, fun _ => 0⟩ insideAndOut.body = true ∧ progWfB insideAndOut = true := by
  decide +kernel

/-- the hypothesis "passes the rule" is needed: `intoFor` satisfies the others and is not in the premise -/
example : intoFor.body.labels.Nodup ∧ (∀ L ∈ intoFor.body.jumps, L ∈ intoFor.body.labels) ∧ intoFor.body.gosubs = [] ∧
    wfTopB intoFor.slots ⟨fun _ => 0, fun _ => 0⟩ intoFor.body = true ∧ jumpsEnclosedB intoFor = false ∧
    progWfB intoFor = false := by
  decide +kernel

/-- `gosubInside` passes the rule and fails `gosubsTopB`: the GOSUB condition is the one the checker's rule does not give -/
example : jumpsEnclosedB gosubInside = true ∧ gosubsTopB gosubInside = false := by decide +kernel

end RbThm.JmpLEnclose
