import Thm.ProcJSimBase
/-!
Layer "procedures ∪ jumps", simulation part: the four jump statements and `EXIT SUB / FUNCTION`, in every scope.

* `label L`: one `Label` instruction, a no-op; in seek mode it is the entry point.
* `goto L`: `(fd − fd L)` × `PopRegisters`, `(sd − sd L)` × `PopValueStackIntoA`, `Jump (addr L)`.
* `ret`: the `Return` instruction itself is executed by whoever answers it: the GOSUB statement of the same activation
  (`case_gosub`), or nobody — the top of the main module / the call whose body it came out of: error 3 (`ProcJSimCall`, `ProcJSimProg`).
* `exit`: `fd` × `PopRegisters`, `sd` × `PopValueStackIntoA`, `PopRet`: the activation's marks cut all four stacks back.
* `gosub L`: `GoSub (addr L)`; the routine is the body of the *current activation* entered at the label, one unit of fuel down;
  its `Return` passes the test "a GOSUB of the running procedure" because the GOSUB stack is higher than the activation's mark,
  and cuts the register stack and the value stack back to the heights recorded by the `GoSub`.  When the body's text runs out
  inside the routine the instruction that follows the body runs: `Halt` in the main module, the final `PopRet` in a procedure —
  the procedure returns with its GOSUB dropped (`ExitedTo`); an `exited` that comes out of the routine is passed on unchanged
  (`ExitedTo` is anchored at the bottom of the stacks).
-/
namespace RbThm.ProcJSim
set_option linter.unusedVariables false
set_option linter.unusedSimpArgs false
open RbModel RbModel.ProcJ RbModel.ProcJ.Compile RbModel.ProcJ.Vm
open RbModel.Num hiding Expr
open RbModel.Ast (Pos)
open RbModel.Proc (Var SlotTabs Expr Args PrintItem CaseExpr ProcDecl zeroOf Sigs sigsOf)
open RbModel.Proc.Compile (Layout Layout.addr sizeExpr sizePush refCount sizeExprTo sizeSubCall sizeItems sizeCaseExpr sizeConds
  sizeExit labelName stepSuffix maxPos)
open RbModel.Proc.Vm (Regs Regs.new Frame CtxState getVar setVar curVars modCur curStatic applyArgs readVars binInstr)
open RbModel.ProcJ.Ref (Outcome Mode Act)
open RbThm.ProcJLen
open RbThm.ProcSim (Scope)

/-- what the `PopRegisters` / `PopValueStackIntoA` runs of a GOTO / EXIT leave alone -/
structure PopKeeps (σ τ : Vm) : Prop where
  ctx : τ.ctx = σ.ctx
  glob : τ.glob = σ.glob
  statics : τ.statics = σ.statics
  out : τ.out = σ.out
  skip : τ.skipNewline = σ.skipNewline
  data : τ.data = σ.data
  dataIdx : τ.dataIdx = σ.dataIdx
  queue : τ.queue = σ.queue
  funRes : τ.funRes = σ.funRes
  paths : τ.paths = σ.paths
  gosubs : τ.gosubs = σ.gosubs
  rets : τ.rets = σ.rets
  marks : τ.marks = σ.marks
  trace : τ.trace = σ.trace

theorem PopKeeps.refl (σ : Vm) : PopKeeps σ σ := ⟨rfl, rfl, rfl, rfl, rfl, rfl, rfl, rfl, rfl, rfl, rfl, rfl, rfl, rfl⟩

theorem PopKeeps.trans {a b c : Vm} (h₁ : PopKeeps a b) (h₂ : PopKeeps b c) : PopKeeps a c :=
  ⟨h₂.ctx.trans h₁.ctx, h₂.glob.trans h₁.glob, h₂.statics.trans h₁.statics, h₂.out.trans h₁.out, h₂.skip.trans h₁.skip,
    h₂.data.trans h₁.data, h₂.dataIdx.trans h₁.dataIdx, h₂.queue.trans h₁.queue, h₂.funRes.trans h₁.funRes,
    h₂.paths.trans h₁.paths, h₂.gosubs.trans h₁.gosubs, h₂.rets.trans h₁.rets, h₂.marks.trans h₁.marks,
    h₂.trace.trans h₁.trace⟩

theorem PopKeeps.rel {W : World} {sc : Scope} {pre below : List CtxState} {s : St} {σ τ : Vm} (h : PopKeeps σ τ)
    (hr : Rel W sc pre below s σ) : Rel W sc pre below s τ :=
  hr.stacks h.ctx h.glob h.statics h.out h.data h.dataIdx h.queue h.funRes

/-- `k` × `PopRegisters`: the `k` topmost saved frames are dropped -/
theorem pop_regs_run (code : Code) (p : Pos) : ∀ (k : Nat) (σ : Vm),
    CodeAt code σ.pc (List.replicate k (CInstr.popRegs, p)) → k ≤ σ.regStack.length →
    ∃ τ, Steps code σ τ ∧ τ.pc = σ.pc + k ∧ τ.regStack = σ.regStack.drop k ∧ τ.vals = σ.vals ∧ PopKeeps σ τ := by
  intro k
  induction k with
  | zero => intro σ _ _; exact ⟨σ, Steps.refl σ, rfl, by simp, rfl, PopKeeps.refl σ⟩
  | succ k ih =>
    intro σ hc hk
    rw [List.replicate_succ] at hc
    have h0 : code[σ.pc]? = some (CInstr.popRegs, p) := hc.head
    cases hrs : σ.regStack with
    | nil => rw [hrs] at hk; simp at hk
    | cons r rest =>
      let σ1 : Vm := Vm.advance { σ with regs := r, regStack := rest }
      have s1 : Vm.step code σ = .next σ1 := by simp only [Vm.step, h0, hrs] <;> rfl
      have hk' : k ≤ σ1.regStack.length := by
        rw [hrs] at hk; simp only [List.length_cons] at hk
        show k ≤ rest.length
        omega
      obtain ⟨τ, st, hp, h1, h2, h3⟩ := ih σ1 hc.tail hk'
      refine ⟨τ, Steps.cons s1 st, ?_, ?_, ?_, ?_⟩
      · rw [hp]; show σ.pc + 1 + k = σ.pc + (k + 1); omega
      · rw [h1]; show rest.drop k = (r :: rest).drop (k + 1); rfl
      · rw [h2]; rfl
      · exact PopKeeps.trans (b := σ1) ⟨rfl, rfl, rfl, rfl, rfl, rfl, rfl, rfl, rfl, rfl, rfl, rfl, rfl, rfl⟩ h3

/-- `k` × `PopValueStackIntoA`: the `k` topmost values are dropped -/
theorem pop_vals_run (code : Code) (p : Pos) : ∀ (k : Nat) (σ : Vm),
    CodeAt code σ.pc (List.replicate k (CInstr.popA, p)) → k ≤ σ.vals.length →
    ∃ τ, Steps code σ τ ∧ τ.pc = σ.pc + k ∧ τ.regStack = σ.regStack ∧ τ.vals = σ.vals.drop k ∧ PopKeeps σ τ := by
  intro k
  induction k with
  | zero => intro σ _ _; exact ⟨σ, Steps.refl σ, rfl, rfl, by simp, PopKeeps.refl σ⟩
  | succ k ih =>
    intro σ hc hk
    rw [List.replicate_succ] at hc
    have h0 : code[σ.pc]? = some (CInstr.popA, p) := hc.head
    cases hvs : σ.vals with
    | nil => rw [hvs] at hk; simp at hk
    | cons v rest =>
      let σ1 : Vm := Vm.advance { Vm.setA σ v with vals := rest }
      have s1 : Vm.step code σ = .next σ1 := by simp only [Vm.step, h0, hvs] <;> rfl
      have hk' : k ≤ σ1.vals.length := by
        rw [hvs] at hk; simp only [List.length_cons] at hk
        show k ≤ rest.length
        omega
      obtain ⟨τ, st, hp, h1, h2, h3⟩ := ih σ1 hc.tail hk'
      refine ⟨τ, Steps.cons s1 st, ?_, ?_, ?_, ?_⟩
      · rw [hp]; show σ.pc + 1 + k = σ.pc + (k + 1); omega
      · rw [h1]; rfl
      · rw [h2]; show rest.drop k = (v :: rest).drop (k + 1); rfl
      · exact PopKeeps.trans (b := σ1) ⟨rfl, rfl, rfl, rfl, rfl, rfl, rfl, rfl, rfl, rfl, rfl, rfl, rfl, rfl⟩ h3

/-! ### `label` -/

theorem case_label (W : World) (B : BodyCtx) (fuel : Nat) (L : Nat) (name : String) (p : Pos) (sfx : String) (fd sd off : Nat)
    (m : Mode) (below : List CtxState) (s : St) (σ : Vm)
    (hc : CodeAt W.code off (compileStmt W.lay W.env sfx fd sd off (.label L name p)))
    (hl : LabAt W.env fd sd off (.label L name p)) (hen : Entry W.env off (.label L name p) m σ)
    (hr : Rel W B.sc [] below s σ) :
    StmtPost W B.sc below fd sd (off + sizeStmt W.env.dp fd sd (.label L name p)) σ
      (ProcJ.Ref.exec W.P (fuel + 1) B.act (desugar (.label L name p)) m s) := by
  simp only [compileStmt] at hc
  have hpc : σ.pc = off := by
    cases m with
    | run => exact hen
    | seek L0 =>
      obtain ⟨h1, h2⟩ := hen
      simp only [SStmt.labels, List.mem_singleton] at h1
      subst h1
      rw [h2]; exact hl.label.1
  have h0 : W.code[σ.pc]? = some (CInstr.label name, p) := by rw [hpc]; exact hc.head
  have s1 : Vm.step W.code σ = .next (Vm.advance σ) := by simp only [Vm.step, h0]
  have hfin : StmtPost W B.sc below fd sd (off + sizeStmt W.env.dp fd sd (.label L name p)) σ (s, .normal) :=
    ⟨Vm.advance σ, Steps.one s1, by simp [Vm.advance, hpc, sizeStmt], hr.advance, ⟨rfl, rfl, rfl, rfl, rfl, rfl, rfl, id⟩⟩
  cases m with
  | run => simpa only [desugar, ProcJ.Ref.exec] using hfin
  | seek L0 =>
    obtain ⟨h1, _⟩ := hen
    simp only [SStmt.labels, List.mem_singleton] at h1
    subst h1
    simpa only [desugar, ProcJ.Ref.exec, if_true] using hfin

/-! ### `goto` -/

theorem case_goto (W : World) (B : BodyCtx) (fuel : Nat) (L : Nat) (p : Pos) (sfx : String) (fd sd off : Nat) (m : Mode)
    (below : List CtxState) (s : St) (σ : Vm)
    (hc : CodeAt W.code off (compileStmt W.lay W.env sfx fd sd off (.goto L p)))
    (hen : Entry W.env off (.goto L p) m σ) (hr : Rel W B.sc [] below s σ) (hinv : ActInv B.sc fd sd σ) :
    StmtPost W B.sc below fd sd (off + sizeStmt W.env.dp fd sd (.goto L p)) σ
      (ProcJ.Ref.exec W.P (fuel + 1) B.act (desugar (.goto L p)) m s) := by
  obtain ⟨rfl, hpc⟩ := hen.of_nolabels rfl
  subst hpc
  have hd := hinv.fd_le
  have he := hinv.sd_le
  simp only [compileStmt, compileGoto] at hc
  simp only [desugar, ProcJ.Ref.exec, StmtPost]
  obtain ⟨τ1, st1, hp1, hr1, hv1, hk1⟩ :=
    pop_regs_run W.code p (fd - W.env.dp.fd L) σ hc.append_left.append_left (by omega)
  have hc2 : CodeAt W.code τ1.pc (List.replicate (sd - W.env.dp.sd L) (CInstr.popA, p)) := by
    have := hc.append_left.append_right
    simp only [List.length_replicate] at this
    rw [hp1]; exact this
  obtain ⟨τ2, st2, hp2, hr2, hv2, hk2⟩ :=
    pop_vals_run W.code p (sd - W.env.dp.sd L) τ1 hc2 (by rw [hv1]; omega)
  have hj : W.code[τ2.pc]? = some (CInstr.jump (W.env.addr L), p) := by
    have := hc.append_right.head
    simp only [List.length_append, List.length_replicate] at this
    rw [hp2, hp1, ← this]; congr 1; omega
  let τ3 : Vm := { τ2 with pc := W.env.addr L }
  have s3 : Vm.step W.code τ2 = .next τ3 := by simp only [Vm.step, hj] <;> rfl
  have hk := hk1.trans hk2
  refine ⟨τ3, (st1.trans st2).trans (Steps.one s3), rfl, (hk.rel hr).setPc _, ?_, ?_, hk.paths, hk.gosubs, hk.rets, hk.marks,
    hk.trace, fun h => ?_⟩
  · show τ2.regStack = _; rw [hr2, hr1]
  · show τ2.vals = _; rw [hv2, hv1]
  · show τ2.skipNewline = false; rw [hk.skip]; exact h

/-! ### `ret` -/

theorem case_ret (W : World) (B : BodyCtx) (fuel : Nat) (p : Pos) (sfx : String) (fd sd off : Nat) (m : Mode)
    (below : List CtxState) (s : St) (σ : Vm)
    (hc : CodeAt W.code off (compileStmt W.lay W.env sfx fd sd off (.ret p)))
    (hen : Entry W.env off (.ret p) m σ) (hr : Rel W B.sc [] below s σ) :
    StmtPost W B.sc below fd sd (off + sizeStmt W.env.dp fd sd (.ret p)) σ
      (ProcJ.Ref.exec W.P (fuel + 1) B.act (desugar (.ret p)) m s) := by
  obtain ⟨rfl, hpc⟩ := hen.of_nolabels rfl
  subst hpc
  simp only [compileStmt] at hc
  simp only [desugar, ProcJ.Ref.exec, StmtPost]
  exact ⟨σ, Steps.refl σ, hc.head, hr, ⟨σ.regStack.take fd, (List.take_append_drop fd σ.regStack).symm⟩,
    ⟨σ.vals.take sd, (List.take_append_drop sd σ.vals).symm⟩, rfl, rfl, rfl, rfl, rfl, id⟩

/-! ### `EXIT SUB / FUNCTION` -/

/-- the activation's `PopRet` from a state whose stacks satisfy the activation's invariant -/
theorem popRet_exits (W : World) (sc : Scope) (σ : Vm) (p : Pos) (hp : sc.inProc = true) (fd sd : Nat)
    (hinv : ActInv sc fd sd σ) (h0 : W.code[σ.pc]? = some (CInstr.popRet, p)) :
    ∃ τ, Vm.step W.code σ = .next τ ∧ ExitedTo σ τ ∧ τ.ctx = σ.ctx ∧ τ.glob = σ.glob ∧ τ.statics = σ.statics ∧
      τ.out = σ.out ∧ τ.data = σ.data ∧ τ.dataIdx = σ.dataIdx ∧ τ.queue = σ.queue ∧ τ.funRes = σ.funRes := by
  obtain ⟨a, rets, m, marks, h1, h2, h3, h4, h5, h6, h7⟩ := hinv.act hp
  -- the register stack (current frame counted) is at least `m.regs ≥ 1` high: something stays
  have hlen : m.regs ≤ (σ.regs :: σ.regStack).length := by simp only [List.length_cons]; omega
  have hne : truncTop m.regs (σ.regs :: σ.regStack) ≠ [] := by
    intro h
    have := truncTop_length m.regs (σ.regs :: σ.regStack) hlen
    rw [h] at this; simp at this; omega
  cases htr : truncTop m.regs (σ.regs :: σ.regStack) with
  | nil => exact absurd htr hne
  | cons r rs =>
    let τ : Vm := { σ with pc := a, rets := rets, marks := marks, regs := r, regStack := rs,
                           gosubs := truncTop m.gosubs σ.gosubs, vals := truncTop m.vals σ.vals,
                           paths := truncTop m.paths σ.paths }
    refine ⟨τ, by simp only [Vm.step, h0, h1, h2, htr] <;> rfl, ⟨⟨a, m, h1, h2, rfl, ?_, rfl, rfl⟩, ?_, rfl, id⟩, rfl, rfl, rfl,
      rfl, rfl, rfl, rfl, rfl⟩
    · -- the saved frames that stay
      show rs = truncTop (m.regs - 1) σ.regStack
      have hl := truncTop_length m.regs (σ.regs :: σ.regStack) hlen
      by_cases hall : m.regs = σ.regStack.length + 1
      · have : truncTop m.regs (σ.regs :: σ.regStack) = σ.regs :: σ.regStack :=
          truncTop_of_le _ _ (by simp only [List.length_cons]; omega)
        rw [this] at htr
        have : rs = σ.regStack := (List.cons.inj htr).2.symm
        rw [this, truncTop_of_le _ _ (by omega)]
      · have : truncTop m.regs (σ.regs :: σ.regStack) = truncTop m.regs σ.regStack :=
          truncTop_cons _ _ _ (by omega)
        rw [this] at htr
        -- dropping one more entry from the top
        unfold truncTop at htr ⊢
        have e : σ.regStack.length - (m.regs - 1) = (σ.regStack.length - m.regs) + 1 := by omega
        rw [e, ← List.drop_drop, htr]; rfl
    · show truncTop m.paths σ.paths = σ.paths
      exact truncTop_of_le _ _ (by omega)

theorem case_exit (W : World) (B : BodyCtx) (fuel : Nat) (p : Pos) (sfx : String) (fd sd off : Nat) (m : Mode)
    (below : List CtxState) (s : St) (σ : Vm)
    (hc : CodeAt W.code off (compileStmt W.lay W.env sfx fd sd off (.exitProc p)))
    (hw : Wf W.sg B.sc W.env.dp B.body.labels fd sd (.exitProc p))
    (hen : Entry W.env off (.exitProc p) m σ) (hr : Rel W B.sc [] below s σ) (hinv : ActInv B.sc fd sd σ) :
    StmtPost W B.sc below fd sd (off + sizeStmt W.env.dp fd sd (.exitProc p)) σ
      (ProcJ.Ref.exec W.P (fuel + 1) B.act (desugar (.exitProc p)) m s) := by
  obtain ⟨rfl, hpc⟩ := hen.of_nolabels rfl
  subst hpc
  have hd := hinv.fd_le
  have he := hinv.sd_le
  have hp : B.sc.inProc = true := hw
  simp only [compileStmt] at hc
  simp only [desugar, ProcJ.Ref.exec, StmtPost]
  obtain ⟨τ1, st1, hp1, hr1, hv1, hk1⟩ := pop_regs_run W.code p fd σ hc.append_left.append_left hd
  have hc2 : CodeAt W.code τ1.pc (List.replicate sd (CInstr.popA, p)) := by
    have := hc.append_left.append_right
    simp only [List.length_replicate] at this
    rw [hp1]; exact this
  obtain ⟨τ2, st2, hp2, hr2, hv2, hk2⟩ := pop_vals_run W.code p sd τ1 hc2 (by rw [hv1]; exact he)
  have hj : W.code[τ2.pc]? = some (CInstr.popRet, p) := by
    have := hc.append_right.head
    simp only [List.length_append, List.length_replicate] at this
    rw [hp2, hp1, ← this]; congr 1; omega
  have hk := hk1.trans hk2
  -- the invariant at depths 0 / 0 holds for the popped state
  have hinv2 : ActInv B.sc 0 0 τ2 := by
    refine ⟨fun h => absurd hp (by rw [h]; simp), fun h => absurd hp (by rw [h]; simp), fun _ => ?_⟩
    obtain ⟨a, rets, mk, marks, h1, h2, h3, h4, h5, h6, h7⟩ := hinv.act hp
    refine ⟨a, rets, mk, marks, by rw [hk.rets, h1], by rw [hk.marks, h2], ?_, h4, ?_, by rw [hk.gosubs]; exact h6,
      by rw [hk.paths]; exact h7⟩
    · rw [hr2, hr1, List.length_drop]; omega
    · rw [hv2, hv1, List.length_drop]; omega
  obtain ⟨τ3, s3, hx, e1, e2, e3, e4, e5, e6, e7, e8⟩ := popRet_exits W B.sc τ2 p hp 0 0 hinv2 hj
  refine ⟨τ3, (st1.trans st2).trans (Steps.one s3), ?_, ?_⟩
  · -- seen from `σ`: the dropped frames / subjects lay above the marks
    obtain ⟨a, rets, mk, marks, h1, h2, h3, h4, h5, h6, h7⟩ := hinv.act hp
    refine hx.mono hk.rets hk.marks (fun n hn => ?_) (fun n hn => ?_) (fun n hn => by rw [hk.gosubs]) hk.paths hk.trace
      (fun h => by rw [hk.skip]; exact h)
    · simp only [h2, List.head?_cons, Option.map_some, Option.getD_some] at hn
      rw [hr2, hr1]; exact truncTop_drop _ _ _ (by omega)
    · simp only [h2, List.head?_cons, Option.map_some, Option.getD_some] at hn
      rw [hv2, hv1]; exact truncTop_drop _ _ _ (by omega)
  · exact (hk.rel hr).stacks e1 e2 e3 e4 e5 e6 e7 e8

/-! ### `gosub` -/

/-- `register_stack.truncate(h)` at a `Return`: whatever frames the routine still has on top of the caller's, the caller's
saved frames are what is left below the (new) current frame -/
theorem truncTop_frames (R : List Regs) : ∀ (X : List Regs) (r : Regs),
    ∃ r', truncTop (R.length + 1) (r :: (X ++ R)) = r' :: R := by
  intro X
  induction X with
  | nil => intro r; exact ⟨r, by simp [truncTop]⟩
  | cons x X ih =>
    intro r
    obtain ⟨r', h⟩ := ih x
    refine ⟨r', ?_⟩
    simp only [truncTop, List.length_cons, List.length_append, List.cons_append] at h ⊢
    have e1 : X.length + R.length + 1 + 1 - (R.length + 1) = (X.length + R.length + 1 - (R.length + 1)) + 1 := by omega
    rw [e1, List.drop_succ_cons]
    exact h

theorem truncTop_vals (V Y : List Val) : truncTop V.length (Y ++ V) = V := by
  simp only [truncTop, List.length_append]
  have : Y.length + V.length - V.length = Y.length := by omega
  rw [this, List.drop_left]

/-- the `Return` test of 37cc5db: a GOSUB of the running activation is pending -/
theorem own_gosub_pending {sc : Scope} {fd sd : Nat} {σ : Vm} (hinv : ActInv sc fd sd σ) (g : Nat × Nat × Nat) :
    (g :: σ.gosubs).length > pendingInCallers σ.marks := by
  cases hp : sc.inProc with
  | false => rw [(hinv.main hp).1]; simp [pendingInCallers]
  | true =>
    obtain ⟨a, rets, m, marks, _, h2, _, _, _, h6, _⟩ := hinv.act hp
    rw [h2]; simp only [List.length_cons, pendingInCallers]; omega

theorem case_gosub (W : World) (B : BodyCtx) (hB : B.Ok W) (fuel : Nat) (ih : StmtIH W fuel) (L : Nat) (p : Pos) (sfx : String)
    (fd sd off : Nat) (m : Mode) (below : List CtxState) (s : St) (σ : Vm)
    (hc : CodeAt W.code off (compileStmt W.lay W.env sfx fd sd off (.gosub L p)))
    (hw : Wf W.sg B.sc W.env.dp B.body.labels fd sd (.gosub L p))
    (hen : Entry W.env off (.gosub L p) m σ) (hr : Rel W B.sc [] below s σ) (hinv : ActInv B.sc fd sd σ) :
    StmtPost W B.sc below fd sd (off + sizeStmt W.env.dp fd sd (.gosub L p)) σ
      (ProcJ.Ref.exec W.P (fuel + 1) B.act (desugar (.gosub L p)) m s) := by
  obtain ⟨rfl, hpc⟩ := hen.of_nolabels rfl
  subst hpc
  simp only [compileStmt] at hc
  have h0 : W.code[σ.pc]? = some (CInstr.goSub (W.env.addr L), p) := hc.head
  let g : Nat × Nat × Nat := (σ.pc, σ.regStack.length + 1, σ.vals.length)
  let σ1 : Vm := { σ with pc := W.env.addr L, gosubs := g :: σ.gosubs }
  have s1 : Vm.step W.code σ = .next σ1 := by simp only [Vm.step, h0] <;> rfl
  have hL : L ∈ B.body.labels := hw.2.2
  have hinv1 : ActInv B.sc 0 0 σ1 := hinv.enterGosub g rfl rfl rfl rfl rfl rfl rfl
  have hr1 : Rel W B.sc [] below s σ1 := hr.stacks rfl rfl rfl rfl rfl rfl rfl rfl
  -- the routine: the body of the current activation, entered at the label
  have hsub := ih B B.body "" 0 0 B.base (.seek L) below s σ1 hB hB.hcode hB.lab hB.wf ⟨hL, rfl⟩ hr1 hinv1
  simp only [desugar, ProcJ.Ref.exec, sizeStmt]
  change StmtPost W B.sc below 0 0 _ σ1 (ProcJ.Ref.exec W.P fuel B.act (desugar B.body) (.seek L) s) at hsub
  show StmtPost W B.sc below fd sd (σ.pc + 1) σ
    (match ProcJ.Ref.exec W.P fuel B.act B.act.body (.seek L) s with
     | (s', o) => (s', ProcJ.Ref.gosubEnd B.act.inProc o))
  have hbody : B.act.body = desugar B.body := rfl
  have hinp : B.act.inProc = B.sc.inProc := rfl
  rw [hbody, hinp]
  generalize ProcJ.Ref.exec W.P fuel B.act (desugar B.body) (.seek L) s = r at hsub ⊢
  obtain ⟨s', o⟩ := r
  cases o with
  | ret q =>
    obtain ⟨τ, st, hret, hrel, ⟨X, hX⟩, ⟨Y, hY⟩, hpa, hgs, hrets, hmk, htr, hsk⟩ := hsub
    simp only [List.drop_zero] at hX hY
    obtain ⟨r', hr'⟩ := truncTop_frames σ.regStack X τ.regs
    let υ : Vm := { τ with pc := σ.pc + 1, regs := r', regStack := σ.regStack, vals := σ.vals, gosubs := σ.gosubs }
    have s2 : Vm.step W.code τ = .next υ := by
      have hg : τ.gosubs = (σ.pc, σ.regStack.length + 1, σ.vals.length) :: σ.gosubs := hgs
      have ht : truncTop (σ.regStack.length + 1) (τ.regs :: τ.regStack) = r' :: σ.regStack := by rw [hX]; exact hr'
      have hv : truncTop σ.vals.length τ.vals = σ.vals := by rw [hY]; exact truncTop_vals _ _
      have hpend : τ.gosubs.length > pendingInCallers τ.marks := by
        rw [hg, hmk]; exact own_gosub_pending hinv _
      simp only [Vm.step, hret]
      rw [if_pos hpend]
      simp only [hg, ht, hv] <;> rfl
    simp only [ProcJ.Ref.gosubEnd, StmtPost]
    exact ⟨υ, (Steps.cons s1 st).trans (Steps.one s2), rfl, hrel.stacks rfl rfl rfl rfl rfl rfl rfl rfl,
      ⟨rfl, hpa, rfl, hrets, hmk, rfl, htr, hsk⟩⟩
  | normal =>
    obtain ⟨τ, st, hp, hrel, hss⟩ := hsub
    obtain ⟨q, hq⟩ := hB.hend
    cases hip : B.sc.inProc with
    | false =>
      simp only [hip, Bool.false_eq_true, if_false] at hq
      simp only [ProcJ.Ref.gosubEnd, hip, StmtPost]
      exact ⟨τ, τ, Steps.cons s1 st, by simp only [Vm.step, hp, hq], hrel.out⟩
    | true =>
      simp only [hip, if_true] at hq
      simp only [ProcJ.Ref.gosubEnd, hip, if_true, StmtPost]
      have hq' : W.code[τ.pc]? = some (CInstr.popRet, q) := by rw [hp]; exact hq
      obtain ⟨υ, s3, hx, e1, e2, e3, e4, e5, e6, e7, e8⟩ := popRet_exits W B.sc τ q hip 0 0 (hinv1.of_same hss) hq'
      refine ⟨υ, (Steps.cons s1 st).trans (Steps.one s3), ?_, hrel.stacks e1 e2 e3 e4 e5 e6 e7 e8⟩
      obtain ⟨a, rets, mk, marks, h1, h2, h3, h4, h5, h6, h7⟩ := hinv.act hip
      refine hx.mono hss.rets hss.marks (fun n hn => by rw [hss.regStack]) (fun n hn => by rw [hss.vals])
        (fun n hn => ?_) hss.paths hss.trace hss.skip
      simp only [h2, List.head?_cons, Option.map_some, Option.getD_some] at hn
      rw [hss.gosubs]; exact truncTop_cons _ _ _ (by omega)
  | exited =>
    obtain ⟨τ, st, hx, hrel⟩ := hsub
    simp only [ProcJ.Ref.gosubEnd, StmtPost]
    refine ⟨τ, Steps.cons s1 st, ?_, hrel⟩
    refine hx.mono rfl rfl (fun n hn => rfl) (fun n hn => rfl) (fun n hn => ?_) rfl rfl id
    cases hip : B.sc.inProc with
    | false => rw [(hinv.main hip).1] at hn; simp at hn; subst hn; simp [truncTop]
    | true =>
      obtain ⟨a, rets, mk, marks, h1, h2, h3, h4, h5, h6, h7⟩ := hinv.act hip
      simp only [h2, List.head?_cons, Option.map_some, Option.getD_some] at hn
      exact truncTop_cons _ _ _ (by omega)
  | halted => simp only [ProcJ.Ref.gosubEnd, StmtPost] at hsub ⊢; exact HaltsWith.of_steps (Steps.one s1) hsub
  | error c q => simp only [ProcJ.Ref.gosubEnd, StmtPost] at hsub ⊢; exact ErrsWith.of_steps (Steps.one s1) hsub
  | jump L' => simp only [ProcJ.Ref.gosubEnd, StmtPost]
  | notHere => simp only [ProcJ.Ref.gosubEnd, StmtPost]
  | inexact => simp only [ProcJ.Ref.gosubEnd, StmtPost]
  | outOfFuel => simp only [ProcJ.Ref.gosubEnd, StmtPost]
  | illFormed => simp only [ProcJ.Ref.gosubEnd, StmtPost]

end RbThm.ProcJSim
