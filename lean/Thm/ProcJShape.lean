import Thm.ProcJSimBase
/-!
Layer "procedures ∪ jumps", simulation part — shape lemmas, syntax only (no VM, no reference semantics): the labels of a
statement and of its desugared form agree (`labels_desugar`, `hasLabel_iff`), and `LabAt` of a compound statement gives `LabAt`
of its parts at their addresses (`LabAt.ifBlock`, `.select`, `.forNone`, `.forSome`, `.while`, `.doTop`, `.doBottom`,
`LabAtElifs.cons`, `LabAtCases.cons`; `LabAt.seq` and `LabAt.label` are in the Base).  Ported from `Thm/JmpLSimBase.lean`.
Still to port here (they need `Thm/ProcJRef.lean`): `gotos_desugar`, `goto_depths`, `jump_depths`, `LabAt.depth_ge`,
`jump_caught`, `restart_seek`, `StmtPost.pass`.
-/
namespace RbThm.ProcJSim
set_option linter.unusedVariables false
set_option linter.unusedSimpArgs false
open RbModel RbModel.ProcJ RbModel.ProcJ.Compile RbModel.ProcJ.Vm
open RbModel.Num hiding Expr
open RbModel.Ast (Pos)
open RbModel.Proc (Var SlotTabs Expr Args PrintItem CaseExpr ProcDecl zeroOf Sigs sigsOf)
open RbModel.Proc.Compile (Layout Layout.addr sizeExpr sizePush refCount sizeExprTo sizeSubCall sizeItems sizeCaseExpr sizeConds
  sizeExit labelName stepSuffix maxPos)
open RbModel.Proc.Vm (Regs Regs.new Frame CtxState getVar setVar curVars modCur curStatic applyArgs readVars binInstr)
open RbModel.ProcJ.Ref (Outcome Mode Act)
open RbThm.ProcJLen
open RbThm.ProcSim (Scope)


theorem labels_readSeq (p : Pos) : ∀ vars : List (Var × Ty × Pos), (readSeq p vars).labels = []
  | [] => rfl
  | (x, t, q) :: rest => by simp [readSeq, Stmt.labels, labels_readSeq p rest]

mutual
/-- (needs `Wf` only for "a missing ELSE part is empty") -/
theorem labels_desugar (sg : Sigs) (sc : Scope) (dp : Dp) (labs : List Nat) : ∀ (s : SStmt) (d e : Nat), Wf sg sc dp labs d e s → (desugar s).labels = s.labels
  | .skip, _, _, _ => rfl
  | .seq a b, d, e, h => by
    simp only [desugar, Stmt.labels, SStmt.labels, labels_desugar sg sc dp labs a d e h.1, labels_desugar sg sc dp labs b d e h.2]
  | .comment, _, _, _ => rfl
  | .dim _ _ _, _, _, _ => rfl
  | .sdim _ _ _, _, _, _ => rfl
  | .callSub _ _ _, _, _, _ => rfl
  | .exitProc _, _, _, _ => rfl
  | .assign _ _ _ _, _, _, _ => rfl
  | .print _ _, _, _, _ => rfl
  | .data _ _, _, _, _ => rfl
  | .read vars p, _, _, _ => by simp [desugar, SStmt.labels, labels_readSeq]
  | .ifBlock c thn elifs hasElse els p, d, e, h => by
    obtain ⟨_, _, h1, h2, h3, _⟩ := h
    simp only [desugar, Stmt.labels, SStmt.labels, labels_desugar sg sc dp labs thn d e h1,
      labels_desugarElifs sg sc dp labs elifs d e h2, labels_desugar sg sc dp labs els d e h3]
  | .select sel cases hasElse els p, d, e, h => by
    obtain ⟨_, h1, h2, h3, _⟩ := h
    simp only [desugar, Stmt.labels, SStmt.labels, labels_desugarCases sg sc dp labs cases d (e + 1) h1]
    cases hasElse with
    | false => rw [h3 rfl]; simp [Cases.labels, SStmt.labels]
    | true => simp [Cases.labels, labels_desugar sg sc dp labs els d (e + 1) h2]
  | .forLoop _ _ _ _ _ body _, d, e, h => by
    simp only [desugar, Stmt.labels, SStmt.labels, labels_desugar sg sc dp labs body (d + 1) e h.2.2.2.2.1]
  | .while _ body _, d, e, h => by simp only [desugar, Stmt.labels, SStmt.labels, labels_desugar sg sc dp labs body d e h.2.2]
  | .doLoop _ _ _ body _, d, e, h => by simp only [desugar, Stmt.labels, SStmt.labels, labels_desugar sg sc dp labs body d e h.2.2]
  | .end_ _, _, _, _ => rfl
  | .label _ _ _, _, _, _ => rfl
  | .goto _ _, _, _, _ => rfl
  | .gosub _ _, _, _, _ => rfl
  | .ret _, _, _, _ => rfl
theorem labels_desugarElifs (sg : Sigs) (sc : Scope) (dp : Dp) (labs : List Nat) : ∀ (el : ElseIfs) (d e : Nat), WfElifs sg sc dp labs d e el →
    ∀ (els : Stmt) (p : Pos), (desugarElifs el els p).labels = el.labels ++ els.labels
  | .nil, _, _, _, _, _ => by simp [desugarElifs, ElseIfs.labels]
  | .cons c body rest, d, e, h, els, p => by
    obtain ⟨_, _, h1, h2⟩ := h
    simp only [desugarElifs, Stmt.labels, ElseIfs.labels, labels_desugar sg sc dp labs body d e h1,
      labels_desugarElifs sg sc dp labs rest d e h2, List.append_assoc]
theorem labels_desugarCases (sg : Sigs) (sc : Scope) (dp : Dp) (labs : List Nat) : ∀ (cs : SCases) (d e : Nat), WfCases sg sc dp labs d e cs →
    ∀ (tail : Cases), (desugarCases cs tail).labels = cs.labels ++ tail.labels
  | .nil, _, _, _, _ => by simp [desugarCases, SCases.labels]
  | .cons conds body rest, d, e, h, tail => by
    obtain ⟨_, _, h1, h2⟩ := h
    simp only [desugarCases, Cases.labels, SCases.labels, labels_desugar sg sc dp labs body d e h1,
      labels_desugarCases sg sc dp labs rest d e h2, List.append_assoc]
end

theorem hasLabel_desugar {sg : Sigs} {sc : Scope} {dp : Dp} {labs : List Nat} {s : SStmt} {d e : Nat} (h : Wf sg sc dp labs d e s) (L : Nat) :
    (desugar s).hasLabel L = s.labels.contains L := by
  simp only [Stmt.hasLabel, labels_desugar sg sc dp labs s d e h]



theorem LabAt.ifBlock {env : LEnv} {d e off : Nat} {c : Expr} {thn : SStmt} {elifs : ElseIfs} {hasElse : Bool}
    {els : SStmt} {p : Pos} (h : LabAt env d e off (.ifBlock c thn elifs hasElse els p)) :
    LabAt env d e (off + sizeExpr c + 1) thn ∧
    LabAtElifs env d e (off + sizeExpr c + 1 + sizeStmt env.dp d e thn + 1) elifs ∧
    (hasElse = true → LabAt env d e (off + sizeExpr c + 1 + sizeStmt env.dp d e thn + 1 +
      sizeElifs env.dp d e elifs + 1) els) := by
  obtain ⟨h1, h2⟩ := h
  simp only [addrTable, depthTable, List.mem_append] at h1 h2
  refine ⟨⟨fun L a hm => h1 L a (.inl (.inl hm)), fun L d' e' hm => h2 L d' e' (.inl (.inl hm))⟩,
    ⟨fun L a hm => h1 L a (.inl (.inr hm)), fun L d' e' hm => h2 L d' e' (.inl (.inr hm))⟩, ?_⟩
  intro he
  subst he
  exact ⟨fun L a hm => h1 L a (.inr (by simpa using hm)), fun L d' e' hm => h2 L d' e' (.inr hm)⟩

theorem LabAt.select {env : LEnv} {d e off : Nat} {sel : Expr} {cases : SCases} {hasElse : Bool}
    {els : SStmt} {p : Pos} (h : LabAt env d e off (.select sel cases hasElse els p)) :
    LabAtCases env d (e + 1) (off + sizeExpr sel + 1 + 3) cases ∧
    (hasElse = true → LabAt env d (e + 1) (off + sizeExpr sel + 1 + 3 +
      sizeCases env.dp d (e + 1) cases + 1) els) := by
  obtain ⟨h1, h2⟩ := h
  simp only [addrTable, depthTable, List.mem_append] at h1 h2
  refine ⟨⟨fun L a hm => h1 L a (.inl hm), fun L d' e' hm => h2 L d' e' (.inl hm)⟩, ?_⟩
  intro he
  subst he
  exact ⟨fun L a hm => h1 L a (.inr (by simpa using hm)), fun L d' e' hm => h2 L d' e' (.inr hm)⟩

theorem LabAt.forNone {env : LEnv} {d e off : Nat} {x : Var} {t : Ty} {lo hi : Expr} {body : SStmt} {p : Pos}
    (h : LabAt env d e off (.forLoop x t lo hi none body p)) :
    LabAt env (d + 1) e (off + sizeExprTo lo t + 2 + sizeExprTo hi t + 6 + 8) body := by
  obtain ⟨h1, h2⟩ := h
  simp only [addrTable, depthTable] at h1 h2
  exact ⟨h1, h2⟩

theorem LabAt.forSome {env : LEnv} {d e off : Nat} {x : Var} {t : Ty} {lo hi se : Expr} {body : SStmt} {p : Pos}
    (h : LabAt env d e off (.forLoop x t lo hi (some se) body p)) :
    LabAt env (d + 1) e (off + sizeExprTo lo t + 2 + sizeExprTo hi t + 1 +
      sizeExpr se + 11 + 8) body ∧
    LabAt env (d + 1) e (off + sizeExprTo lo t + 2 + sizeExprTo hi t + 1 +
      sizeExpr se + 11 + sizeForBody env.dp d e body + 1 + 4 + 8) body := by
  obtain ⟨h1, h2⟩ := h
  simp only [addrTable, depthTable, List.mem_append] at h1 h2
  exact ⟨⟨fun L a hm => h1 L a (.inr hm), h2⟩, ⟨fun L a hm => h1 L a (.inl hm), h2⟩⟩

theorem LabAt.while {env : LEnv} {d e off : Nat} {c : Expr} {body : SStmt} {p : Pos}
    (h : LabAt env d e off (.while c body p)) : LabAt env d e (off + 1 + sizeExpr c + 1) body := by
  obtain ⟨h1, h2⟩ := h
  simp only [addrTable, depthTable] at h1 h2
  exact ⟨h1, h2⟩

theorem LabAt.doTop {env : LEnv} {d e off : Nat} {c : Expr} {u : Bool} {body : SStmt} {p : Pos}
    (h : LabAt env d e off (.doLoop c true u body p)) :
    LabAt env d e (off + 1 + sizeExpr c + (if u then 3 else 1)) body := by
  obtain ⟨h1, h2⟩ := h
  simp only [addrTable, depthTable, if_true] at h1 h2
  exact ⟨h1, h2⟩

theorem LabAt.doBottom {env : LEnv} {d e off : Nat} {c : Expr} {u : Bool} {body : SStmt} {p : Pos}
    (h : LabAt env d e off (.doLoop c false u body p)) : LabAt env d e (off + 1) body := by
  obtain ⟨h1, h2⟩ := h
  simp only [addrTable, depthTable, Bool.false_eq_true, if_false] at h1 h2
  exact ⟨h1, h2⟩

theorem LabAtElifs.cons {env : LEnv} {d e off : Nat} {c : Expr} {body : SStmt} {rest : ElseIfs}
    (h : LabAtElifs env d e off (.cons c body rest)) :
    LabAt env d e (off + 1 + sizeExpr c + 1) body ∧
    LabAtElifs env d e (off + 1 + sizeExpr c + 1 + sizeStmt env.dp d e body + 1) rest := by
  obtain ⟨h1, h2⟩ := h
  simp only [addrElifs, depthElifs, List.mem_append] at h1 h2
  exact ⟨⟨fun L a hm => h1 L a (.inl hm), fun L d' e' hm => h2 L d' e' (.inl hm)⟩,
    ⟨fun L a hm => h1 L a (.inr hm), fun L d' e' hm => h2 L d' e' (.inr hm)⟩⟩

theorem LabAtCases.cons {env : LEnv} {d e off : Nat} {conds : List CaseExpr} {body : SStmt} {rest : SCases}
    (h : LabAtCases env d e off (.cons conds body rest)) :
    LabAt env d e (off + 1 + sizeConds conds + (if conds.length > 1 then 1 else 0)) body ∧
    LabAtCases env d e (off + 1 + sizeConds conds + (if conds.length > 1 then 1 else 0) +
      sizeStmt env.dp d e body + 1) rest := by
  obtain ⟨h1, h2⟩ := h
  simp only [addrCases, depthCases, List.mem_append] at h1 h2
  exact ⟨⟨fun L a hm => h1 L a (.inl hm), fun L d' e' hm => h2 L d' e' (.inl hm)⟩,
    ⟨fun L a hm => h1 L a (.inr hm), fun L d' e' hm => h2 L d' e' (.inr hm)⟩⟩


/-- `L ∈ stmt.labels` as the reference semantics asks it -/
theorem hasLabel_iff {sg : Sigs} {sc : Scope} {dp : Dp} {labs : List Nat} {s : SStmt} {d e : Nat}
    (h : Wf sg sc dp labs d e s) (L : Nat) : (desugar s).hasLabel L = true ↔ L ∈ s.labels := by
  rw [hasLabel_desugar h]; simp

theorem hasLabel_false_iff {sg : Sigs} {sc : Scope} {dp : Dp} {labs : List Nat} {s : SStmt} {d e : Nat}
    (h : Wf sg sc dp labs d e s) (L : Nat) : (desugar s).hasLabel L = false ↔ L ∉ s.labels := by
  rw [hasLabel_desugar h]; simp

end RbThm.ProcJSim
