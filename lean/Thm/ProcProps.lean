import RbModel.Proc.Ref
/-!
Procedures layer: property-level facts about DIM SHARED variables and STATIC procedures, proved from the reference
semantics `RbModel.Proc.Ref` alone (no VM, no simulation relation).

(A) `shared_is_one_object`: the DIM SHARED variables are ONE store for all scopes: a value stored into a shared
    variable in any activation is the value every other activation reads; entering a procedure keeps the shared store,
    leaving it changes the shared store only through by-reference actuals that are shared variables; a store into a
    local never changes a shared variable.
(B) `static_persists`: a STATIC procedure starts every call on the block its previous activation left
    (`enter_static_locals`, `rebind_keeps`); on return the block is the callee's environment at the end of its body
    (`static_exit`, with `self_preserved`: an evaluation / execution that does not end the run ends in the activation it
    started in); a store in another activation does not touch the block (`statics_other`).
-/
namespace RbThm.ProcProps
set_option linter.unusedVariables false
set_option linter.unusedSimpArgs false
open RbModel RbModel.Num RbModel.Proc RbModel.Proc.Ref
open RbModel.Ast (Pos)

/-! ## (A) the DIM SHARED variables are one object -/

theorem get_set_shared (s : St) (i : Nat) (t : Ty) (v : Val) (h : i < s.glob.length) :
    (s.set ⟨true, i⟩ v).get ⟨true, i⟩ t = v := by
  simp [St.set, St.get, List.getD, h]

/-- the value of a shared variable does not depend on the activation -/
theorem get_shared_indep (s : St) (env : List Val) (self : Option Nat) (i : Nat) (t : Ty) :
    ({ s with env := env, self := self } : St).get ⟨true, i⟩ t = s.get ⟨true, i⟩ t := by
  simp [St.get]

theorem set_shared_glob (s : St) (i : Nat) (v : Val) :
    (s.set ⟨true, i⟩ v).glob = s.glob.set i v ∧ (s.set ⟨true, i⟩ v).env = s.env ∧
      (s.set ⟨true, i⟩ v).self = s.self ∧ (s.set ⟨true, i⟩ v).statics = s.statics := by
  simp [St.set]

/-- entering a procedure keeps the shared store -/
theorem enterCore_glob (d : ProcDecl Stmt) (f : Nat) (vals : List Val) (s : St) :
    (enterCore d f vals s).glob = s.glob := by
  unfold enterCore; split <;> rfl

theorem enter_glob (d : ProcDecl Stmt) (f : Nat) (vals : List Val) (s : St) : (enter d f vals s).glob = s.glob := by
  unfold enter
  split
  · simp only [St.set, Bool.false_eq_true, if_false]
    unfold St.setLocal
    split <;> exact enterCore_glob d f vals s
  · exact enterCore_glob d f vals s

theorem setLocal_glob (s : St) (i : Nat) (v : Val) : (s.setLocal i v).glob = s.glob := by
  unfold St.setLocal; split <;> rfl

/-- a store into a local never changes a shared variable -/
theorem set_local_glob (s : St) (i : Nat) (v : Val) : (s.set ⟨false, i⟩ v).glob = s.glob := by
  simp [St.set, setLocal_glob]

theorem set_glob_of_not_shared (s : St) (x : Var) (v : Val) (h : x.shared = false) : (s.set x v).glob = s.glob := by
  simp [St.set, h, setLocal_glob]

/-- the argument is a by-reference actual that is a DIM SHARED variable -/
def isSharedRef : Proc.Expr → Bool
  | .var x _ _ => x.shared
  | _ => false

/-- no argument is a DIM SHARED variable passed by reference -/
def NoSharedRef : Args → Prop
  | .nil => True
  | .cons e _ _ rest => isSharedRef e = false ∧ NoSharedRef rest

/-- leaving a procedure: the write-back changes the shared store only at by-reference actuals that are shared
variables -/
theorem writeBack_glob_of_no_shared_ref :
    ∀ (args : Args) (i : Nat) (callee : List Val) (s : St), NoSharedRef args → (writeBack args i callee s).glob = s.glob
  | .nil, i, callee, s, h => by simp [writeBack]
  | .cons e n pt rest, i, callee, s, h => by
    obtain ⟨he, hr⟩ := h
    cases e with
    | var x t p =>
      simp only [writeBack]
      rw [writeBack_glob_of_no_shared_ref rest _ _ _ hr]
      exact set_glob_of_not_shared s x _ he
    | lit => simp only [writeBack]; exact writeBack_glob_of_no_shared_ref rest _ _ _ hr
    | un => simp only [writeBack]; exact writeBack_glob_of_no_shared_ref rest _ _ _ hr
    | bin => simp only [writeBack]; exact writeBack_glob_of_no_shared_ref rest _ _ _ hr
    | paren => simp only [writeBack]; exact writeBack_glob_of_no_shared_ref rest _ _ _ hr
    | callFn => simp only [writeBack]; exact writeBack_glob_of_no_shared_ref rest _ _ _ hr

/-- a value stored into a shared variable in any activation is what any other activation (any `env`, any `self`)
reads -/
theorem shared_is_one_object (s : St) (i : Nat) (t : Ty) (v : Val) (h : i < s.glob.length) (env' : List Val)
    (self' : Option Nat) : ({ (s.set ⟨true, i⟩ v) with env := env', self := self' } : St).get ⟨true, i⟩ t = v := by
  rw [get_shared_indep]; exact get_set_shared s i t v h

/-- the same across a call: what the caller stored is what the callee's start state reads -/
theorem shared_seen_by_callee (s : St) (i : Nat) (t : Ty) (v : Val) (h : i < s.glob.length) (d : ProcDecl Stmt)
    (f : Nat) (vals : List Val) : (enter d f vals (s.set ⟨true, i⟩ v)).get ⟨true, i⟩ t = v := by
  have := get_set_shared s i t v h
  simp only [St.get, if_true] at this ⊢
  rw [enter_glob]; exact this

/-! ## (B) STATIC procedures -/

theorem enterCore_static_locals (d : ProcDecl Stmt) (f : Nat) (vals : List Val) (s : St) (h : d.static = true) :
    (enterCore d f vals s).locals = rebind (s.statics f) vals := by
  simp [enterCore, h, St.locals]

theorem enterCore_static_self (d : ProcDecl Stmt) (f : Nat) (vals : List Val) (s : St) (h : d.static = true) :
    (enterCore d f vals s).self = some f := by
  simp [enterCore, h]

/-- a store into a variable of the current activation, on the activation's variables -/
theorem locals_set_local (s : St) (i : Nat) (v : Val) : (s.set ⟨false, i⟩ v).locals = s.locals.set i v := by
  simp only [St.set, Bool.false_eq_true, if_false]
  unfold St.setLocal St.locals
  cases s.self <;> simp

theorem self_set_local (s : St) (i : Nat) (v : Val) : (s.set ⟨false, i⟩ v).self = s.self := by
  simp only [St.set, Bool.false_eq_true, if_false]
  unfold St.setLocal
  cases s.self <;> rfl

/-- a STATIC FUNCTION starts on its block with the parameters rebound and the result variable at zero -/
theorem enter_static_function_locals (d : ProcDecl Stmt) (f : Nat) (vals : List Val) (s : St) (h : d.static = true)
    (rt : Ty) (hr : d.result = some rt) :
    (enter d f vals s).locals = (rebind (s.statics f) vals).set d.resultSlot (zeroOf rt) := by
  simp only [enter, h, hr]
  rw [locals_set_local, enterCore_static_locals d f vals s h]

/-- a STATIC SUB starts on its block with the parameters rebound -/
theorem enter_static_sub_locals (d : ProcDecl Stmt) (f : Nat) (vals : List Val) (s : St) (h : d.static = true)
    (hr : d.result = none) : (enter d f vals s).locals = rebind (s.statics f) vals := by
  simp only [enter, h, hr]
  exact enterCore_static_locals d f vals s h

/-- a STATIC procedure starts on its block with the parameters rebound — except for the result variable of a FUNCTION,
which starts at zero (`enter_static_function_locals`) -/
theorem enter_static_locals (d : ProcDecl Stmt) (f : Nat) (vals : List Val) (s : St) (h : d.static = true) (x : Nat)
    (hx : x ≠ d.resultSlot ∨ d.result = none) :
    (enter d f vals s).locals[x]? = (rebind (s.statics f) vals)[x]? := by
  cases hr : d.result with
  | none => rw [enter_static_sub_locals d f vals s h hr]
  | some rt =>
    have hne : x ≠ d.resultSlot := by
      rcases hx with hx | hx
      · exact hx
      · rw [hr] at hx; exact absurd hx (by simp)
    rw [enter_static_function_locals d f vals s h rt hr, List.getElem?_set_ne (fun e => hne e.symm)]

theorem enter_static_self (d : ProcDecl Stmt) (f : Nat) (vals : List Val) (s : St) (h : d.static = true) :
    (enter d f vals s).self = some f := by
  unfold enter
  split
  · rw [self_set_local]; exact enterCore_static_self d f vals s h
  · exact enterCore_static_self d f vals s h

/-- at the start of a call every non-parameter slot has the value stored in the block -/
theorem rebind_keeps (old vals : List Val) (x : Nat) (h : vals.length ≤ x) : (rebind old vals)[x]? = old[x]? := by
  unfold rebind
  rw [List.getElem?_append_right h, List.getElem?_drop]
  congr 1; omega

/-- the parameters are rebound -/
theorem rebind_param (old vals : List Val) (x : Nat) (h : x < vals.length) : (rebind old vals)[x]? = vals[x]? := by
  unfold rebind
  rw [List.getElem?_append_left h]

/-- a store in an activation that is not `f`'s does not change `f`'s block -/
theorem statics_other (s : St) (x : Var) (v : Val) (f : Nat) (h : x.shared = true ∨ s.self ≠ some f) :
    (s.set x v).statics f = s.statics f := by
  unfold St.set
  split
  · rfl
  · next hx =>
    have hs : s.self ≠ some f := by
      rcases h with h | h
      · exact absurd h hx
      · exact h
    unfold St.setLocal
    split
    · rfl
    · next g hg =>
      have : f ≠ g := fun e => hs (by rw [hg, e])
      simp [this]

/-! ### an evaluation / execution that does not end the run ends in the activation it started in -/

theorem set_self (s : St) (x : Var) (v : Val) : (s.set x v).self = s.self := by
  unfold St.set St.setLocal
  split
  · rfl
  · split <;> simp [*]

theorem writeBack_self : ∀ (args : Args) (i : Nat) (callee : List Val) (s : St), (writeBack args i callee s).self = s.self
  | .nil, i, callee, s => by simp [writeBack]
  | .cons e n pt rest, i, callee, s => by
    cases e with
    | var x t p => simp only [writeBack]; rw [writeBack_self rest, set_self]
    | lit => simp only [writeBack]; exact writeBack_self rest _ _ _
    | un => simp only [writeBack]; exact writeBack_self rest _ _ _
    | bin => simp only [writeBack]; exact writeBack_self rest _ _ _
    | paren => simp only [writeBack]; exact writeBack_self rest _ _ _
    | callFn => simp only [writeBack]; exact writeBack_self rest _ _ _

theorem liftR_ok {s s' : St} {p : Pos} {r : Res Val} {v : Val} (h : liftR s p r = (s', .ok v)) : s' = s := by
  cases r <;> simp [liftR] at h <;> exact h.1.symm

theorem liftR_err {s s' : St} {p : Pos} {r : Res Val} {o : Outcome} (h : liftR s p r = (s', .error o)) :
    returns o = false := by
  cases r <;> simp [liftR] at h <;> simp [← h.2, returns]

theorem relTest_err {p : Pos} {op : Op} {a b : Val} {o : Outcome} (h : relTest p op a b = .error o) :
    returns o = false := by
  unfold relTest at h
  split at h <;> simp at h <;> simp [← h, returns]

theorem stepSign_err {p : Pos} {v : Val} {o : Outcome} (h : stepSign p v = .error o) : returns o = false := by
  unfold stepSign at h
  split at h
  · next o' he => simp at h; subst h; exact relTest_err he
  · simp at h
  · split at h
    · next o' he => simp at h; subst h; exact relTest_err he
    · simp at h
    · simp at h

/-- the statement for one amount of fuel: a result that lets the run go on is in the activation the evaluation
started in; a result that ends the run never is `normal` / `exited` -/
structure SelfIH (P : Program) (n : Nat) : Prop where
  eval : ∀ e s s' v, Proc.Ref.eval P n e s = (s', .ok v) → s'.self = s.self
  evalE : ∀ e s s' o, Proc.Ref.eval P n e s = (s', .error o) → returns o = false
  evalTo : ∀ e t s s' v, Proc.Ref.evalTo P n e t s = (s', .ok v) → s'.self = s.self
  evalToE : ∀ e t s s' o, Proc.Ref.evalTo P n e t s = (s', .error o) → returns o = false
  evalArgs : ∀ a s s' v, Proc.Ref.evalArgs P n a s = (s', .ok v) → s'.self = s.self
  evalArgsE : ∀ a s s' o, Proc.Ref.evalArgs P n a s = (s', .error o) → returns o = false
  call : ∀ f a s s' v, Proc.Ref.call P n f a s = (s', .ok v) → s'.self = s.self
  callE : ∀ f a s s' o, Proc.Ref.call P n f a s = (s', .error o) → returns o = false
  printItems : ∀ items s s' o, Proc.Ref.printItems P n items s = (s', o) → returns o = true → s'.self = s.self
  evalCond : ∀ c s s' v, Proc.Ref.evalCond P n c s = (s', .ok v) → s'.self = s.self
  evalCondE : ∀ c s s' o, Proc.Ref.evalCond P n c s = (s', .error o) → returns o = false
  caseMatches : ∀ p subj c s s' v, Proc.Ref.caseMatches P n p subj c s = (s', .ok v) → s'.self = s.self
  caseMatchesE : ∀ p subj c s s' o, Proc.Ref.caseMatches P n p subj c s = (s', .error o) → returns o = false
  anyMatches : ∀ p subj cs s s' v, Proc.Ref.anyMatches P n p subj cs s = (s', .ok v) → s'.self = s.self
  anyMatchesE : ∀ p subj cs s s' o, Proc.Ref.anyMatches P n p subj cs s = (s', .error o) → returns o = false
  exec : ∀ st s s' o, Proc.Ref.exec P n st s = (s', o) → returns o = true → s'.self = s.self
  execCases : ∀ p subj cs s s' o, Proc.Ref.execCases P n p subj cs s = (s', o) → returns o = true → s'.self = s.self
  forIter : ∀ x t hh sv up body p s s' o, Proc.Ref.forIter P n x t hh sv up body p s = (s', o) → returns o = true → s'.self = s.self

theorem step_eval {P : Program} {n : Nat} (ih : SelfIH P n) :
    ∀ e s s' v, Proc.Ref.eval P (n + 1) e s = (s', .ok v) → s'.self = s.self := by
  intro e s s' v h
  obtain ⟨i1, i2, i3, i4, i5, i6, i7, i8, i9, i10, i11, i12, i13, i14, i15, i16, i17, i18⟩ := ih
  cases e <;> simp only [Proc.Ref.eval] at h <;> grind [liftR_ok, liftR_err, relTest_err, stepSign_err, writeBack_self, set_self, returns]

theorem step_evalE {P : Program} {n : Nat} (ih : SelfIH P n) :
    ∀ e s s' o, Proc.Ref.eval P (n + 1) e s = (s', .error o) → returns o = false := by
  intro e s s' o h
  obtain ⟨i1, i2, i3, i4, i5, i6, i7, i8, i9, i10, i11, i12, i13, i14, i15, i16, i17, i18⟩ := ih
  cases e <;> simp only [Proc.Ref.eval] at h <;> grind [liftR_ok, liftR_err, relTest_err, stepSign_err, writeBack_self, set_self, returns]

theorem step_evalTo {P : Program} {n : Nat} (ih : SelfIH P n) :
    ∀ e t s s' v, evalTo P (n + 1) e t s = (s', .ok v) → s'.self = s.self := by
  intro e t s s' v h
  obtain ⟨i1, i2, i3, i4, i5, i6, i7, i8, i9, i10, i11, i12, i13, i14, i15, i16, i17, i18⟩ := ih
  simp only [evalTo] at h
  grind [liftR_ok, liftR_err, relTest_err, stepSign_err, writeBack_self, set_self, returns]

theorem step_evalToE {P : Program} {n : Nat} (ih : SelfIH P n) :
    ∀ e t s s' o, evalTo P (n + 1) e t s = (s', .error o) → returns o = false := by
  intro e t s s' o h
  obtain ⟨i1, i2, i3, i4, i5, i6, i7, i8, i9, i10, i11, i12, i13, i14, i15, i16, i17, i18⟩ := ih
  simp only [evalTo] at h
  grind [liftR_ok, liftR_err, relTest_err, stepSign_err, writeBack_self, set_self, returns]

theorem step_evalArgs {P : Program} {n : Nat} (ih : SelfIH P n) :
    ∀ a s s' v, evalArgs P (n + 1) a s = (s', .ok v) → s'.self = s.self := by
  intro a s s' v h
  obtain ⟨i1, i2, i3, i4, i5, i6, i7, i8, i9, i10, i11, i12, i13, i14, i15, i16, i17, i18⟩ := ih
  cases a <;> simp only [evalArgs] at h <;> grind [liftR_ok, liftR_err, relTest_err, stepSign_err, writeBack_self, set_self, returns]

theorem step_evalArgsE {P : Program} {n : Nat} (ih : SelfIH P n) :
    ∀ a s s' o, evalArgs P (n + 1) a s = (s', .error o) → returns o = false := by
  intro a s s' o h
  obtain ⟨i1, i2, i3, i4, i5, i6, i7, i8, i9, i10, i11, i12, i13, i14, i15, i16, i17, i18⟩ := ih
  cases a <;> simp only [evalArgs] at h <;> grind [liftR_ok, liftR_err, relTest_err, stepSign_err, writeBack_self, set_self, returns]

theorem step_call {P : Program} {n : Nat} (ih : SelfIH P n) :
    ∀ f a s s' v, call P (n + 1) f a s = (s', .ok v) → s'.self = s.self := by
  intro f a s s' v h
  obtain ⟨i1, i2, i3, i4, i5, i6, i7, i8, i9, i10, i11, i12, i13, i14, i15, i16, i17, i18⟩ := ih
  simp only [call] at h
  grind [liftR_ok, liftR_err, relTest_err, stepSign_err, writeBack_self, set_self, returns]

theorem step_callE {P : Program} {n : Nat} (ih : SelfIH P n) :
    ∀ f a s s' o, call P (n + 1) f a s = (s', .error o) → returns o = false := by
  intro f a s s' o h
  obtain ⟨i1, i2, i3, i4, i5, i6, i7, i8, i9, i10, i11, i12, i13, i14, i15, i16, i17, i18⟩ := ih
  simp only [call] at h
  grind [liftR_ok, liftR_err, relTest_err, stepSign_err, writeBack_self, set_self, returns]

theorem step_printItems {P : Program} {n : Nat} (ih : SelfIH P n) :
    ∀ items s s' o, printItems P (n + 1) items s = (s', o) → returns o = true → s'.self = s.self := by
  intro items s s' o h ho
  obtain ⟨i1, i2, i3, i4, i5, i6, i7, i8, i9, i10, i11, i12, i13, i14, i15, i16, i17, i18⟩ := ih
  match items with
  | [] => simp only [printItems] at h; grind [liftR_ok, liftR_err, relTest_err, stepSign_err, writeBack_self, set_self, returns]
  | .comma :: rest => simp only [printItems] at h; grind [liftR_ok, liftR_err, relTest_err, stepSign_err, writeBack_self, set_self, returns]
  | .semicolon :: rest => simp only [printItems] at h; grind [liftR_ok, liftR_err, relTest_err, stepSign_err, writeBack_self, set_self, returns]
  | .expr e :: rest => simp only [printItems] at h; grind [liftR_ok, liftR_err, relTest_err, stepSign_err, writeBack_self, set_self, returns]

theorem step_evalCond {P : Program} {n : Nat} (ih : SelfIH P n) :
    ∀ c s s' v, evalCond P (n + 1) c s = (s', .ok v) → s'.self = s.self := by
  intro c s s' v h
  obtain ⟨i1, i2, i3, i4, i5, i6, i7, i8, i9, i10, i11, i12, i13, i14, i15, i16, i17, i18⟩ := ih
  simp only [evalCond] at h
  grind [liftR_ok, liftR_err, relTest_err, stepSign_err, writeBack_self, set_self, returns]

theorem step_evalCondE {P : Program} {n : Nat} (ih : SelfIH P n) :
    ∀ c s s' o, evalCond P (n + 1) c s = (s', .error o) → returns o = false := by
  intro c s s' o h
  obtain ⟨i1, i2, i3, i4, i5, i6, i7, i8, i9, i10, i11, i12, i13, i14, i15, i16, i17, i18⟩ := ih
  simp only [evalCond] at h
  grind [liftR_ok, liftR_err, relTest_err, stepSign_err, writeBack_self, set_self, returns]

theorem step_caseMatches {P : Program} {n : Nat} (ih : SelfIH P n) :
    ∀ p subj c s s' v, caseMatches P (n + 1) p subj c s = (s', .ok v) → s'.self = s.self := by
  intro p subj c s s' v h
  obtain ⟨i1, i2, i3, i4, i5, i6, i7, i8, i9, i10, i11, i12, i13, i14, i15, i16, i17, i18⟩ := ih
  cases c <;> simp only [caseMatches] at h <;> grind [liftR_ok, liftR_err, relTest_err, stepSign_err, writeBack_self, set_self, returns]

theorem step_caseMatchesE {P : Program} {n : Nat} (ih : SelfIH P n) :
    ∀ p subj c s s' o, caseMatches P (n + 1) p subj c s = (s', .error o) → returns o = false := by
  intro p subj c s s' o h
  obtain ⟨i1, i2, i3, i4, i5, i6, i7, i8, i9, i10, i11, i12, i13, i14, i15, i16, i17, i18⟩ := ih
  cases c <;> simp only [caseMatches] at h <;> grind [liftR_ok, liftR_err, relTest_err, stepSign_err, writeBack_self, set_self, returns]

theorem step_anyMatches {P : Program} {n : Nat} (ih : SelfIH P n) :
    ∀ p subj cs s s' v, anyMatches P (n + 1) p subj cs s = (s', .ok v) → s'.self = s.self := by
  intro p subj cs s s' v h
  obtain ⟨i1, i2, i3, i4, i5, i6, i7, i8, i9, i10, i11, i12, i13, i14, i15, i16, i17, i18⟩ := ih
  cases cs <;> simp only [anyMatches] at h <;> grind [liftR_ok, liftR_err, relTest_err, stepSign_err, writeBack_self, set_self, returns]

theorem step_anyMatchesE {P : Program} {n : Nat} (ih : SelfIH P n) :
    ∀ p subj cs s s' o, anyMatches P (n + 1) p subj cs s = (s', .error o) → returns o = false := by
  intro p subj cs s s' o h
  obtain ⟨i1, i2, i3, i4, i5, i6, i7, i8, i9, i10, i11, i12, i13, i14, i15, i16, i17, i18⟩ := ih
  cases cs <;> simp only [anyMatches] at h <;> grind [liftR_ok, liftR_err, relTest_err, stepSign_err, writeBack_self, set_self, returns]

theorem step_exec {P : Program} {n : Nat} (ih : SelfIH P n) :
    ∀ st s s' o, exec P (n + 1) st s = (s', o) → returns o = true → s'.self = s.self := by
  intro st s s' o h ho
  cases st with
  | forLoop x t lo hi step body p =>
    simp only [exec] at h
    split at h
    · next s1 o1 h1 => have := ih.evalToE _ _ _ _ _ h1; grind
    · next s1 l h1 =>
      split at h
      · next s2 o2 h2 => have := ih.evalToE _ _ _ _ _ h2; grind
      · next s2 hv h2 =>
        have e1 : s2.self = s.self := by rw [ih.evalTo _ _ _ _ _ h2, set_self, ih.evalTo _ _ _ _ _ h1]
        split at h
        · rw [ih.forIter _ _ _ _ _ _ _ _ _ _ h ho, e1]
        · next se =>
          split at h
          · next s3 o3 h3 => have := ih.evalE _ _ _ _ h3; grind
          · next s3 sv h3 =>
            have e2 : s3.self = s.self := by rw [ih.eval _ _ _ _ h3, e1]
            split at h
            · next o4 h4 => have := stepSign_err h4; grind
            · rw [ih.forIter _ _ _ _ _ _ _ _ _ _ h ho, e2]
            · rw [ih.forIter _ _ _ _ _ _ _ _ _ _ h ho, e2]
            · grind [returns]
  | _ =>
    obtain ⟨i1, i2, i3, i4, i5, i6, i7, i8, i9, i10, i11, i12, i13, i14, i15, i16, i17, i18⟩ := ih
    simp only [exec] at h
    grind [liftR_ok, liftR_err, relTest_err, stepSign_err, writeBack_self, set_self, returns]

theorem step_execCases {P : Program} {n : Nat} (ih : SelfIH P n) :
    ∀ p subj cs s s' o, execCases P (n + 1) p subj cs s = (s', o) → returns o = true → s'.self = s.self := by
  intro p subj cs s s' o h ho
  obtain ⟨i1, i2, i3, i4, i5, i6, i7, i8, i9, i10, i11, i12, i13, i14, i15, i16, i17, i18⟩ := ih
  cases cs <;> simp only [execCases] at h <;> grind [liftR_ok, liftR_err, relTest_err, stepSign_err, writeBack_self, set_self, returns]

theorem step_forIter {P : Program} {n : Nat} (ih : SelfIH P n) :
    ∀ x t hh sv up body p s s' o, forIter P (n + 1) x t hh sv up body p s = (s', o) → returns o = true → s'.self = s.self := by
  intro x t hh sv up body p s s' o h ho
  obtain ⟨i1, i2, i3, i4, i5, i6, i7, i8, i9, i10, i11, i12, i13, i14, i15, i16, i17, i18⟩ := ih
  simp only [forIter] at h
  grind [liftR_ok, liftR_err, relTest_err, stepSign_err, writeBack_self, set_self, returns]

theorem selfIH_all (P : Program) : ∀ n, SelfIH P n
  | 0 => by
    constructor <;> intros <;> simp only [Proc.Ref.eval, evalTo, evalArgs, call, printItems, evalCond, caseMatches,
      anyMatches, exec, execCases, forIter] at * <;> grind [returns]
  | n + 1 =>
    have ih := selfIH_all P n
    ⟨step_eval ih, step_evalE ih, step_evalTo ih, step_evalToE ih, step_evalArgs ih, step_evalArgsE ih, step_call ih, step_callE ih, step_printItems ih, step_evalCond ih, step_evalCondE ih, step_caseMatches ih, step_caseMatchesE ih, step_anyMatches ih, step_anyMatchesE ih, step_exec ih, step_execCases ih, step_forIter ih⟩

/-- `self_preserved`: every function of the reference semantics' mutual block, at every amount of fuel: a result that
lets the run go on (`.ok _`; outcome `normal` / `exited`) comes with a state whose `self` is the one it started with
(a result that ends the run — END, an error, `inexact`, `outOfFuel` — may come from inside a callee: then `self` is
the callee's, which is why the statement is conditional) -/
theorem self_preserved (P : Program) (fuel : Nat) : SelfIH P fuel := selfIH_all P fuel

theorem exec_self {P : Program} {fuel : Nat} {st : Stmt} {s s' : St} {o : Outcome} (h : exec P fuel st s = (s', o))
    (ho : returns o = true) : s'.self = s.self := (selfIH_all P fuel).exec _ _ _ _ h ho

theorem eval_self {P : Program} {fuel : Nat} {e : Proc.Expr} {s s' : St} {v : Val}
    (h : Proc.Ref.eval P fuel e s = (s', .ok v)) : s'.self = s.self := (selfIH_all P fuel).eval _ _ _ _ h

theorem evalArgs_self {P : Program} {fuel : Nat} {a : Args} {s s' : St} {vs : List Val}
    (h : evalArgs P fuel a s = (s', .ok vs)) : s'.self = s.self := (selfIH_all P fuel).evalArgs _ _ _ _ h

theorem call_self {P : Program} {fuel f : Nat} {a : Args} {s s' : St} {v : Val}
    (h : call P fuel f a s = (s', .ok v)) : s'.self = s.self := (selfIH_all P fuel).call _ _ _ _ _ h

/-! ### the block of a STATIC procedure when a call returns -/

/-- the argument is a by-reference actual that is a variable of the caller's own scope -/
def isLocalRef : Proc.Expr → Bool
  | .var x _ _ => !x.shared
  | _ => false

/-- no argument is a non-shared variable passed by reference -/
def NoLocalRef : Args → Prop
  | .nil => True
  | .cons e _ _ rest => isLocalRef e = false ∧ NoLocalRef rest

theorem set_statics_of_shared (s : St) (x : Var) (v : Val) (h : x.shared = true) : (s.set x v).statics = s.statics := by
  simp [St.set, h]

theorem writeBack_statics_of_no_local_ref :
    ∀ (args : Args) (i : Nat) (callee : List Val) (s : St), NoLocalRef args →
      (writeBack args i callee s).statics = s.statics
  | .nil, i, callee, s, h => by simp [writeBack]
  | .cons e n pt rest, i, callee, s, h => by
    obtain ⟨he, hr⟩ := h
    cases e with
    | var x t p =>
      simp only [writeBack]
      rw [writeBack_statics_of_no_local_ref rest _ _ _ hr]
      exact set_statics_of_shared s x _ (by simpa [isLocalRef] using he)
    | lit => simp only [writeBack]; exact writeBack_statics_of_no_local_ref rest _ _ _ hr
    | un => simp only [writeBack]; exact writeBack_statics_of_no_local_ref rest _ _ _ hr
    | bin => simp only [writeBack]; exact writeBack_statics_of_no_local_ref rest _ _ _ hr
    | paren => simp only [writeBack]; exact writeBack_statics_of_no_local_ref rest _ _ _ hr
    | callFn => simp only [writeBack]; exact writeBack_statics_of_no_local_ref rest _ _ _ hr

/-- a write-back in an activation that is not `f`'s does not change `f`'s block -/
theorem writeBack_statics_other (f : Nat) :
    ∀ (args : Args) (i : Nat) (callee : List Val) (s : St), s.self ≠ some f →
      (writeBack args i callee s).statics f = s.statics f
  | .nil, i, callee, s, h => by simp [writeBack]
  | .cons e n pt rest, i, callee, s, h => by
    cases e with
    | var x t p =>
      simp only [writeBack]
      rw [writeBack_statics_other f rest _ _ _ (by rw [set_self]; exact h)]
      exact statics_other s x _ f (Or.inr h)
    | lit => simp only [writeBack]; exact writeBack_statics_other f rest _ _ _ h
    | un => simp only [writeBack]; exact writeBack_statics_other f rest _ _ _ h
    | bin => simp only [writeBack]; exact writeBack_statics_other f rest _ _ _ h
    | paren => simp only [writeBack]; exact writeBack_statics_other f rest _ _ _ h
    | callFn => simp only [writeBack]; exact writeBack_statics_other f rest _ _ _ h

/-- a call that returns, unfolded -/
theorem call_ok_unfold {P : Program} {fuel f : Nat} {args : Args} {s s' : St} {v : Val} {d : ProcDecl Stmt}
    (hd : P.procs[f]? = some d) (h : call P (fuel + 1) f args s = (s', .ok v)) :
    ∃ s1 vals s2 o, evalArgs P fuel args s = (s1, .ok vals) ∧
      exec P fuel d.body (enter d f vals s1) = (s2, o) ∧ returns o = true ∧
      s' = writeBack args 0 s2.locals { s2 with env := s1.env, self := s1.self } := by
  simp only [call, hd] at h
  split at h
  · simp at h
  · next s1 vals ha =>
    split at h
    · next ho => exact ⟨s1, vals, _, _, ha, rfl, ho, (Prod.mk.inj h).1.symm⟩
    · simp at h

/-- when a call of the STATIC procedure `f` returns: the body ended in `f`'s activation (`s2.self = some f`, so its
environment `s2.locals` IS the block `s2.statics f`), and unless the write-back stores into `f`'s own block (only
possible for a by-reference actual that is a variable of the caller's scope, when the caller is an activation of `f`
itself) the block after the call is the callee's environment at the end of its body -/
theorem static_exit {P : Program} {fuel f : Nat} {args : Args} {s s' : St} {v : Val} {d : ProcDecl Stmt}
    (hd : P.procs[f]? = some d) (hst : d.static = true) (h : call P (fuel + 1) f args s = (s', .ok v)) :
    ∃ s1 vals s2 o, evalArgs P fuel args s = (s1, .ok vals) ∧
      exec P fuel d.body (enter d f vals s1) = (s2, o) ∧ returns o = true ∧
      s' = writeBack args 0 s2.locals { s2 with env := s1.env, self := s1.self } ∧
      s1.self = s.self ∧ s2.self = some f ∧ s2.locals = s2.statics f ∧
      (NoLocalRef args ∨ s.self ≠ some f → s'.statics f = s2.locals) := by
  obtain ⟨s1, vals, s2, o, ha, hb, ho, hs'⟩ := call_ok_unfold hd h
  have h1 : s1.self = s.self := evalArgs_self ha
  have h2 : s2.self = some f := by rw [exec_self hb ho, enter_static_self d f vals s1 hst]
  have h3 : s2.locals = s2.statics f := by simp [St.locals, h2]
  refine ⟨s1, vals, s2, o, ha, hb, ho, hs', h1, h2, h3, ?_⟩
  intro hc
  rw [hs', h3]
  rcases hc with hc | hc
  · rw [writeBack_statics_of_no_local_ref _ _ _ _ hc]
  · exact writeBack_statics_other f _ _ _ _ (by simpa [h1] using hc)

/-- `static_persists`: the next call of `f` (from any state whose block of `f` is still the one the previous call left,
with any argument values) starts with every non-parameter variable — other than the result variable of a FUNCTION, which
starts at zero — holding the value it had when the body of the previous call ended -/
theorem static_persists {P : Program} {fuel f : Nat} {args : Args} {s s' : St} {v : Val} {d : ProcDecl Stmt}
    (hd : P.procs[f]? = some d) (hst : d.static = true) (h : call P (fuel + 1) f args s = (s', .ok v))
    (hc : NoLocalRef args ∨ s.self ≠ some f) :
    ∃ s1 vals s2 o, evalArgs P fuel args s = (s1, .ok vals) ∧
      exec P fuel d.body (enter d f vals s1) = (s2, o) ∧ returns o = true ∧
      ∀ (t : St) (vals' : List Val) (x : Nat), t.statics f = s'.statics f → vals'.length ≤ x →
        (x ≠ d.resultSlot ∨ d.result = none) → (enter d f vals' t).locals[x]? = s2.locals[x]? := by
  obtain ⟨s1, vals, s2, o, ha, hb, ho, hs', h1, h2, h3, h4⟩ := static_exit hd hst h
  refine ⟨s1, vals, s2, o, ha, hb, ho, ?_⟩
  intro t vals' x ht hx hxr
  rw [enter_static_locals d f vals' t hst x hxr, rebind_keeps _ _ _ hx, ht, h4 hc]

/-! ### the result of a FUNCTION that assigns nothing to its name -/

/-- a call that returns, unfolded, with its value -/
theorem call_ok_value {P : Program} {fuel f : Nat} {args : Args} {s s' : St} {v : Val} {d : ProcDecl Stmt}
    (hd : P.procs[f]? = some d) (h : call P (fuel + 1) f args s = (s', .ok v)) :
    ∃ s1 vals s2 o, evalArgs P fuel args s = (s1, .ok vals) ∧
      exec P fuel d.body (enter d f vals s1) = (s2, o) ∧ returns o = true ∧
      v = (match d.result with
           | some rt => s2.locals.getD d.resultSlot (zeroOf rt)
           | none => .int 0) := by
  simp only [call, hd] at h
  split at h
  · simp at h
  · next s1 vals ha =>
    split at h
    · next ho =>
      refine ⟨s1, vals, _, _, ha, rfl, ho, ?_⟩
      have := (Prod.mk.inj h).2
      exact (Except.ok.inj this).symm
    · simp at h

/-- the result variable of a FUNCTION at the start of the body: zero / the empty string, or (slot table too short) not
there at all — for a STATIC function by the reset in `enter`, for an ordinary one because the fresh environment is
zero outside the parameters (`hsl`: the slot after the parameters is the result variable, of the result type) -/
theorem enter_result_slot (d : ProcDecl Stmt) (f : Nat) (vals : List Val) (s : St) (rt : Ty) (hr : d.result = some rt)
    (hsl : d.slots[d.params.length]? = some rt) (hlen : vals.length = d.params.length) :
    (enter d f vals s).locals[d.resultSlot]? = some (zeroOf rt) ∨ (enter d f vals s).locals[d.resultSlot]? = none := by
  cases hs : d.static with
  | true =>
    rw [enter_static_function_locals d f vals s hs rt hr]
    by_cases hlt : d.resultSlot < (rebind (s.statics f) vals).length
    · left; exact List.getElem?_set_self hlt
    · right; simp only [List.getElem?_eq_none_iff, List.length_set]; omega
  | false =>
    left
    have he : enter d f vals s = enterCore d f vals s := by simp [enter, hs]
    rw [he]
    simp only [enterCore, hs, Bool.false_eq_true, if_false, St.locals, freshEnv, ProcDecl.resultSlot]
    rw [List.getElem?_append_right (by omega)]
    simp [hlen, hsl]

/-- `function_result_default`: a call of a FUNCTION (STATIC or not) whose body leaves the result variable as it found
it ("assigns nothing to its name", stated semantically: `hkeep`) yields zero / the empty string.  `hsl`: the slot after
the parameters is the result variable (`SlotsOk`); `hlen`: as many argument values as parameters -/
theorem function_result_default {P : Program} {fuel f : Nat} {args : Args} {s s' : St} {v : Val} {d : ProcDecl Stmt}
    {rt : Ty} (hd : P.procs[f]? = some d) (hr : d.result = some rt) (hsl : d.slots[d.params.length]? = some rt)
    (h : call P (fuel + 1) f args s = (s', .ok v))
    (hlen : ∀ s1 vals, evalArgs P fuel args s = (s1, .ok vals) → vals.length = d.params.length)
    (hkeep : ∀ s1 vals s2 o, evalArgs P fuel args s = (s1, .ok vals) →
      exec P fuel d.body (enter d f vals s1) = (s2, o) →
      s2.locals[d.resultSlot]? = (enter d f vals s1).locals[d.resultSlot]?) :
    v = zeroOf rt := by
  obtain ⟨s1, vals, s2, o, ha, hb, ho, hv⟩ := call_ok_value hd h
  rw [hr] at hv
  simp only at hv
  rw [hv, List.getD_eq_getElem?_getD, hkeep s1 vals s2 o ha hb]
  rcases enter_result_slot d f vals s1 rt hr hsl (hlen s1 vals ha) with e | e <;> rw [e] <;> rfl

/-! ## the frame theorem: what does not call `f` does not touch `f`'s block -/

mutual
/-- every call inside the expression is a call of a procedure of `N` -/
def callsOnlyE (N : Nat → Bool) : Proc.Expr → Bool
  | .lit _ _ => true
  | .var _ _ _ => true
  | .un _ e _ => callsOnlyE N e
  | .bin _ l r _ _ => callsOnlyE N l && callsOnlyE N r
  | .paren e _ => callsOnlyE N e
  | .callFn g args _ _ => N g && callsOnlyA N args
def callsOnlyA (N : Nat → Bool) : Args → Bool
  | .nil => true
  | .cons e _ _ rest => callsOnlyE N e && callsOnlyA N rest
end

def callsOnlyItem (N : Nat → Bool) : PrintItem → Bool
  | .expr e => callsOnlyE N e
  | .comma => true
  | .semicolon => true

def callsOnlyItems (N : Nat → Bool) : List PrintItem → Bool
  | [] => true
  | i :: rest => callsOnlyItem N i && callsOnlyItems N rest

def callsOnlyCase (N : Nat → Bool) : CaseExpr → Bool
  | .simple e => callsOnlyE N e
  | .is _ e => callsOnlyE N e
  | .range lo hi => callsOnlyE N lo && callsOnlyE N hi

def callsOnlyConds (N : Nat → Bool) : List CaseExpr → Bool
  | [] => true
  | c :: rest => callsOnlyCase N c && callsOnlyConds N rest

def callsOnlyStep (N : Nat → Bool) : Option Proc.Expr → Bool
  | none => true
  | some se => callsOnlyE N se

mutual
def callsOnlyS (N : Nat → Bool) : Stmt → Bool
  | .skip => true
  | .seq a b => callsOnlyS N a && callsOnlyS N b
  | .assign _ _ e _ => callsOnlyE N e
  | .print items _ => callsOnlyItems N items
  | .read _ _ _ => true
  | .ifs c thn els _ => callsOnlyE N c && callsOnlyS N thn && callsOnlyS N els
  | .select e cases _ => callsOnlyE N e && callsOnlyC N cases
  | .forLoop _ _ lo hi step body _ => callsOnlyE N lo && callsOnlyE N hi && callsOnlyStep N step && callsOnlyS N body
  | .while c body _ => callsOnlyE N c && callsOnlyS N body
  | .doLoop c _ _ body _ => callsOnlyE N c && callsOnlyS N body
  | .end_ _ => true
  | .callSub g args _ => N g && callsOnlyA N args
  | .exitProc _ => true
def callsOnlyC (N : Nat → Bool) : Cases → Bool
  | .nil => true
  | .else_ body => callsOnlyS N body
  | .case conds body rest => callsOnlyConds N conds && callsOnlyS N body && callsOnlyC N rest
end

/-- the bodies of the procedures of `N` call only procedures of `N` -/
def ClosedUnder (P : Program) (N : Nat → Bool) : Prop :=
  ∀ g d, N g = true → P.procs[g]? = some d → callsOnlyS N d.body = true

/-- the invariant the frame theorem propagates: `f`'s block is `B` and the activation is not `f`'s -/
def Inv (f : Nat) (B : List Val) (s : St) : Prop := s.statics f = B ∧ s.self ≠ some f

theorem liftR_fst (s : St) (p : Pos) (r : Res Val) : (liftR s p r).1 = s := by
  cases r <;> rfl

theorem Inv.set {f : Nat} {B : List Val} {s : St} (h : Inv f B s) (x : Var) (v : Val) : Inv f B (s.set x v) :=
  ⟨by rw [statics_other s x v f (Or.inr h.2)]; exact h.1, by rw [set_self]; exact h.2⟩

theorem Inv.out {f : Nat} {B : List Val} {s : St} (h : Inv f B s) (o : Print.WritePrinter) :
    Inv f B { s with out := o } := h

theorem Inv.dataIdx {f : Nat} {B : List Val} {s : St} (h : Inv f B s) (i : Nat) : Inv f B { s with dataIdx := i } := h

theorem Inv.writeBack {f : Nat} {B : List Val} {s : St} (h : Inv f B s) (args : Args) (i : Nat) (callee : List Val) :
    Inv f B (writeBack args i callee s) :=
  ⟨by rw [writeBack_statics_other f args i callee s h.2]; exact h.1, by rw [writeBack_self]; exact h.2⟩

/-- entering another procedure keeps `f`'s block and does not make the activation `f`'s -/
theorem Inv.enterCore {f : Nat} {B : List Val} {s : St} (h : Inv f B s) (d : ProcDecl Stmt) (g : Nat) (vals : List Val)
    (hg : g ≠ f) : Inv f B (enterCore d g vals s) := by
  have hfg : f ≠ g := fun e => hg e.symm
  unfold RbModel.Proc.Ref.enterCore
  split
  · exact ⟨by simp [hfg]; exact h.1, by simp [hg]⟩
  · exact ⟨h.1, by simp⟩

/-- entering another procedure keeps `f`'s block and does not make the activation `f`'s -/
theorem Inv.enter {f : Nat} {B : List Val} {s : St} (h : Inv f B s) (d : ProcDecl Stmt) (g : Nat) (vals : List Val)
    (hg : g ≠ f) : Inv f B (enter d g vals s) := by
  unfold RbModel.Proc.Ref.enter
  split
  · exact (h.enterCore d g vals hg).set _ _
  · exact h.enterCore d g vals hg

/-- the frame statement for one amount of fuel: started in an activation that is not `f`'s with `f`'s block = `B`, on
syntax that calls only procedures of `N`, every function of the reference semantics ends — whatever the result — in
such a state -/
structure FrameIH (P : Program) (N : Nat → Bool) (f : Nat) (B : List Val) (n : Nat) : Prop where
  eval : ∀ e s, callsOnlyE N e = true → Inv f B s → Inv f B (Proc.Ref.eval P n e s).1
  evalTo : ∀ e t s, callsOnlyE N e = true → Inv f B s → Inv f B (Proc.Ref.evalTo P n e t s).1
  evalArgs : ∀ a s, callsOnlyA N a = true → Inv f B s → Inv f B (Proc.Ref.evalArgs P n a s).1
  call : ∀ g a s, N g = true → callsOnlyA N a = true → Inv f B s → Inv f B (Proc.Ref.call P n g a s).1
  printItems : ∀ items s, callsOnlyItems N items = true → Inv f B s → Inv f B (Proc.Ref.printItems P n items s).1
  evalCond : ∀ c s, callsOnlyE N c = true → Inv f B s → Inv f B (Proc.Ref.evalCond P n c s).1
  caseMatches : ∀ p subj c s, callsOnlyCase N c = true → Inv f B s → Inv f B (Proc.Ref.caseMatches P n p subj c s).1
  anyMatches : ∀ p subj cs s, callsOnlyConds N cs = true → Inv f B s → Inv f B (Proc.Ref.anyMatches P n p subj cs s).1
  exec : ∀ st s, callsOnlyS N st = true → Inv f B s → Inv f B (Proc.Ref.exec P n st s).1
  execCases : ∀ p subj cs s, callsOnlyC N cs = true → Inv f B s → Inv f B (Proc.Ref.execCases P n p subj cs s).1
  forIter : ∀ x t hh sv up body p s, callsOnlyS N body = true → Inv f B s → Inv f B (Proc.Ref.forIter P n x t hh sv up body p s).1

theorem FrameIH.evalq {P : Program} {N : Nat → Bool} {f n : Nat} {B : List Val} (ih : FrameIH P N f B n) :
    ∀ e s s' r, Proc.Ref.eval P n e s = (s', r) → callsOnlyE N e = true → Inv f B s → Inv f B s' := by
  intro e s s' r h hc hs
  have := ih.eval e s hc hs
  rw [h] at this; exact this

theorem FrameIH.evalToq {P : Program} {N : Nat → Bool} {f n : Nat} {B : List Val} (ih : FrameIH P N f B n) :
    ∀ e t s s' r, Proc.Ref.evalTo P n e t s = (s', r) → callsOnlyE N e = true → Inv f B s → Inv f B s' := by
  intro e t s s' r h hc hs
  have := ih.evalTo e t s hc hs
  rw [h] at this; exact this

theorem FrameIH.evalArgsq {P : Program} {N : Nat → Bool} {f n : Nat} {B : List Val} (ih : FrameIH P N f B n) :
    ∀ a s s' r, Proc.Ref.evalArgs P n a s = (s', r) → callsOnlyA N a = true → Inv f B s → Inv f B s' := by
  intro a s s' r h hc hs
  have := ih.evalArgs a s hc hs
  rw [h] at this; exact this

theorem FrameIH.callq {P : Program} {N : Nat → Bool} {f n : Nat} {B : List Val} (ih : FrameIH P N f B n) :
    ∀ g a s s' r, Proc.Ref.call P n g a s = (s', r) → N g = true → callsOnlyA N a = true → Inv f B s → Inv f B s' := by
  intro g a s s' r h hg hc hs
  have := ih.call g a s hg hc hs
  rw [h] at this; exact this

theorem FrameIH.printItemsq {P : Program} {N : Nat → Bool} {f n : Nat} {B : List Val} (ih : FrameIH P N f B n) :
    ∀ items s s' r, Proc.Ref.printItems P n items s = (s', r) → callsOnlyItems N items = true → Inv f B s → Inv f B s' := by
  intro items s s' r h hc hs
  have := ih.printItems items s hc hs
  rw [h] at this; exact this

theorem FrameIH.evalCondq {P : Program} {N : Nat → Bool} {f n : Nat} {B : List Val} (ih : FrameIH P N f B n) :
    ∀ c s s' r, Proc.Ref.evalCond P n c s = (s', r) → callsOnlyE N c = true → Inv f B s → Inv f B s' := by
  intro c s s' r h hc hs
  have := ih.evalCond c s hc hs
  rw [h] at this; exact this

theorem FrameIH.caseMatchesq {P : Program} {N : Nat → Bool} {f n : Nat} {B : List Val} (ih : FrameIH P N f B n) :
    ∀ p subj c s s' r, Proc.Ref.caseMatches P n p subj c s = (s', r) → callsOnlyCase N c = true → Inv f B s → Inv f B s' := by
  intro p subj c s s' r h hc hs
  have := ih.caseMatches p subj c s hc hs
  rw [h] at this; exact this

theorem FrameIH.anyMatchesq {P : Program} {N : Nat → Bool} {f n : Nat} {B : List Val} (ih : FrameIH P N f B n) :
    ∀ p subj cs s s' r, Proc.Ref.anyMatches P n p subj cs s = (s', r) → callsOnlyConds N cs = true → Inv f B s → Inv f B s' := by
  intro p subj cs s s' r h hc hs
  have := ih.anyMatches p subj cs s hc hs
  rw [h] at this; exact this

theorem FrameIH.execq {P : Program} {N : Nat → Bool} {f n : Nat} {B : List Val} (ih : FrameIH P N f B n) :
    ∀ st s s' r, Proc.Ref.exec P n st s = (s', r) → callsOnlyS N st = true → Inv f B s → Inv f B s' := by
  intro st s s' r h hc hs
  have := ih.exec st s hc hs
  rw [h] at this; exact this

theorem FrameIH.execCasesq {P : Program} {N : Nat → Bool} {f n : Nat} {B : List Val} (ih : FrameIH P N f B n) :
    ∀ p subj cs s s' r, Proc.Ref.execCases P n p subj cs s = (s', r) → callsOnlyC N cs = true → Inv f B s → Inv f B s' := by
  intro p subj cs s s' r h hc hs
  have := ih.execCases p subj cs s hc hs
  rw [h] at this; exact this

theorem FrameIH.forIterq {P : Program} {N : Nat → Bool} {f n : Nat} {B : List Val} (ih : FrameIH P N f B n) :
    ∀ x t hh sv up body p s s' r, Proc.Ref.forIter P n x t hh sv up body p s = (s', r) → callsOnlyS N body = true → Inv f B s → Inv f B s' := by
  intro x t hh sv up body p s s' r h hc hs
  have := ih.forIter x t hh sv up body p s hc hs
  rw [h] at this; exact this

/- after unfolding one step: split every `match` / `if`, then chain the invariant through the equations (`ih` is the
induction hypothesis of the enclosing step lemma) -/
set_option hygiene false in
local macro "frame_tac" : tactic => `(tactic|
  ((repeat' split) <;> (try dsimp only) <;> (try simp only [liftR_fst]) <;>
    solve_by_elim (maxDepth := 16) [ih.eval, ih.evalTo, ih.evalArgs, ih.call, ih.printItems, ih.evalCond, ih.caseMatches, ih.anyMatches, ih.exec, ih.execCases, ih.forIter,
      ih.evalq, ih.evalToq, ih.evalArgsq, ih.callq, ih.printItemsq, ih.evalCondq, ih.caseMatchesq, ih.anyMatchesq, ih.execq, ih.execCasesq, ih.forIterq,
      Inv.set, Inv.out, Inv.dataIdx]))

theorem fstep_eval {P : Program} {N : Nat → Bool} {f n : Nat} {B : List Val} (hN : N f = false)
    (hcl : ClosedUnder P N) (ih : FrameIH P N f B n) :
    ∀ e s, callsOnlyE N e = true → Inv f B s → Inv f B (Proc.Ref.eval P (n + 1) e s).1 := by
  intro e s hc hs
  have hc0 := hc
  cases e <;> simp only [Proc.Ref.eval] <;> (revert hc; simp only [callsOnlyE, callsOnlyA, callsOnlyItem, callsOnlyItems, callsOnlyCase, callsOnlyConds, callsOnlyStep, callsOnlyS, callsOnlyC, Bool.and_eq_true, and_imp]; intros) <;> frame_tac

theorem fstep_evalTo {P : Program} {N : Nat → Bool} {f n : Nat} {B : List Val} (hN : N f = false)
    (hcl : ClosedUnder P N) (ih : FrameIH P N f B n) :
    ∀ e t s, callsOnlyE N e = true → Inv f B s → Inv f B (Proc.Ref.evalTo P (n + 1) e t s).1 := by
  intro e t s hc hs
  have hc0 := hc
  simp only [evalTo]
  frame_tac

theorem fstep_evalArgs {P : Program} {N : Nat → Bool} {f n : Nat} {B : List Val} (hN : N f = false)
    (hcl : ClosedUnder P N) (ih : FrameIH P N f B n) :
    ∀ a s, callsOnlyA N a = true → Inv f B s → Inv f B (Proc.Ref.evalArgs P (n + 1) a s).1 := by
  intro a s hc hs
  have hc0 := hc
  cases a <;> simp only [evalArgs] <;> (revert hc; simp only [callsOnlyE, callsOnlyA, callsOnlyItem, callsOnlyItems, callsOnlyCase, callsOnlyConds, callsOnlyStep, callsOnlyS, callsOnlyC, Bool.and_eq_true, and_imp]; intros) <;> frame_tac

theorem fstep_call {P : Program} {N : Nat → Bool} {f n : Nat} {B : List Val} (hN : N f = false)
    (hcl : ClosedUnder P N) (ih : FrameIH P N f B n) :
    ∀ g a s, N g = true → callsOnlyA N a = true → Inv f B s → Inv f B (Proc.Ref.call P (n + 1) g a s).1 := by
  intro g a s hg hc hs
  have hgf : g ≠ f := by intro e; subst e; rw [hN] at hg; exact absurd hg (by simp)
  simp only [call]
  split
  · exact hs
  · next d hd =>
    split
    · next s1 o ha => exact ih.evalArgsq _ _ _ _ ha hc hs
    · next s1 vals ha =>
      have a1 : Inv f B s1 := ih.evalArgsq _ _ _ _ ha hc hs
      have b1 := ih.exec d.body _ (hcl g d hg hd) (a1.enter d g vals hgf)
      generalize exec P n d.body (enter d g vals s1) = rb at b1 ⊢
      obtain ⟨s2, o⟩ := rb
      dsimp only at b1 ⊢
      split
      · exact Inv.writeBack (s := { s2 with env := s1.env, self := s1.self }) ⟨b1.1, a1.2⟩ _ _ _
      · exact b1

theorem fstep_printItems {P : Program} {N : Nat → Bool} {f n : Nat} {B : List Val} (hN : N f = false)
    (hcl : ClosedUnder P N) (ih : FrameIH P N f B n) :
    ∀ items s, callsOnlyItems N items = true → Inv f B s → Inv f B (Proc.Ref.printItems P (n + 1) items s).1 := by
  intro items s hc hs
  have hc0 := hc
  match items with
  | [] => simp only [printItems]; revert hc; simp only [callsOnlyE, callsOnlyA, callsOnlyItem, callsOnlyItems, callsOnlyCase, callsOnlyConds, callsOnlyStep, callsOnlyS, callsOnlyC, Bool.and_eq_true, and_imp]; intros; frame_tac
  | .comma :: rest => simp only [printItems]; revert hc; simp only [callsOnlyE, callsOnlyA, callsOnlyItem, callsOnlyItems, callsOnlyCase, callsOnlyConds, callsOnlyStep, callsOnlyS, callsOnlyC, Bool.and_eq_true, and_imp]; intros; frame_tac
  | .semicolon :: rest => simp only [printItems]; revert hc; simp only [callsOnlyE, callsOnlyA, callsOnlyItem, callsOnlyItems, callsOnlyCase, callsOnlyConds, callsOnlyStep, callsOnlyS, callsOnlyC, Bool.and_eq_true, and_imp]; intros; frame_tac
  | .expr e :: rest => simp only [printItems]; revert hc; simp only [callsOnlyE, callsOnlyA, callsOnlyItem, callsOnlyItems, callsOnlyCase, callsOnlyConds, callsOnlyStep, callsOnlyS, callsOnlyC, Bool.and_eq_true, and_imp]; intros; frame_tac

theorem fstep_evalCond {P : Program} {N : Nat → Bool} {f n : Nat} {B : List Val} (hN : N f = false)
    (hcl : ClosedUnder P N) (ih : FrameIH P N f B n) :
    ∀ c s, callsOnlyE N c = true → Inv f B s → Inv f B (Proc.Ref.evalCond P (n + 1) c s).1 := by
  intro c s hc hs
  have hc0 := hc
  simp only [evalCond]
  frame_tac

theorem fstep_caseMatches {P : Program} {N : Nat → Bool} {f n : Nat} {B : List Val} (hN : N f = false)
    (hcl : ClosedUnder P N) (ih : FrameIH P N f B n) :
    ∀ p subj c s, callsOnlyCase N c = true → Inv f B s → Inv f B (Proc.Ref.caseMatches P (n + 1) p subj c s).1 := by
  intro p subj c s hc hs
  have hc0 := hc
  cases c <;> simp only [caseMatches] <;> (revert hc; simp only [callsOnlyE, callsOnlyA, callsOnlyItem, callsOnlyItems, callsOnlyCase, callsOnlyConds, callsOnlyStep, callsOnlyS, callsOnlyC, Bool.and_eq_true, and_imp]; intros) <;> frame_tac

theorem fstep_anyMatches {P : Program} {N : Nat → Bool} {f n : Nat} {B : List Val} (hN : N f = false)
    (hcl : ClosedUnder P N) (ih : FrameIH P N f B n) :
    ∀ p subj cs s, callsOnlyConds N cs = true → Inv f B s → Inv f B (Proc.Ref.anyMatches P (n + 1) p subj cs s).1 := by
  intro p subj cs s hc hs
  have hc0 := hc
  cases cs <;> simp only [anyMatches] <;> (revert hc; simp only [callsOnlyE, callsOnlyA, callsOnlyItem, callsOnlyItems, callsOnlyCase, callsOnlyConds, callsOnlyStep, callsOnlyS, callsOnlyC, Bool.and_eq_true, and_imp]; intros) <;> frame_tac

theorem fstep_exec {P : Program} {N : Nat → Bool} {f n : Nat} {B : List Val} (hN : N f = false)
    (hcl : ClosedUnder P N) (ih : FrameIH P N f B n) :
    ∀ st s, callsOnlyS N st = true → Inv f B s → Inv f B (Proc.Ref.exec P (n + 1) st s).1 := by
  intro st s hc hs
  have hc0 := hc
  cases st <;> simp only [exec] <;> (revert hc; simp only [callsOnlyE, callsOnlyA, callsOnlyItem, callsOnlyItems, callsOnlyCase, callsOnlyConds, callsOnlyStep, callsOnlyS, callsOnlyC, Bool.and_eq_true, and_imp]; intros) <;> frame_tac

theorem fstep_execCases {P : Program} {N : Nat → Bool} {f n : Nat} {B : List Val} (hN : N f = false)
    (hcl : ClosedUnder P N) (ih : FrameIH P N f B n) :
    ∀ p subj cs s, callsOnlyC N cs = true → Inv f B s → Inv f B (Proc.Ref.execCases P (n + 1) p subj cs s).1 := by
  intro p subj cs s hc hs
  have hc0 := hc
  cases cs <;> simp only [execCases] <;> (revert hc; simp only [callsOnlyE, callsOnlyA, callsOnlyItem, callsOnlyItems, callsOnlyCase, callsOnlyConds, callsOnlyStep, callsOnlyS, callsOnlyC, Bool.and_eq_true, and_imp]; intros) <;> frame_tac

theorem fstep_forIter {P : Program} {N : Nat → Bool} {f n : Nat} {B : List Val} (hN : N f = false)
    (hcl : ClosedUnder P N) (ih : FrameIH P N f B n) :
    ∀ x t hh sv up body p s, callsOnlyS N body = true → Inv f B s → Inv f B (Proc.Ref.forIter P (n + 1) x t hh sv up body p s).1 := by
  intro x t hh sv up body p s hc hs
  have hc0 := hc
  simp only [forIter]
  frame_tac

theorem frameIH_all {P : Program} {N : Nat → Bool} {f : Nat} (B : List Val) (hN : N f = false) (hcl : ClosedUnder P N) :
    ∀ n, FrameIH P N f B n
  | 0 => by
    constructor <;> intros <;> simp only [Proc.Ref.eval, evalTo, evalArgs, call, printItems, evalCond, caseMatches,
      anyMatches, exec, execCases, forIter] <;> assumption
  | n + 1 =>
    have ih := frameIH_all B hN hcl n
    ⟨fstep_eval hN hcl ih, fstep_evalTo hN hcl ih, fstep_evalArgs hN hcl ih, fstep_call hN hcl ih, fstep_printItems hN hcl ih, fstep_evalCond hN hcl ih, fstep_caseMatches hN hcl ih, fstep_anyMatches hN hcl ih, fstep_exec hN hcl ih, fstep_execCases hN hcl ih, fstep_forIter hN hcl ih⟩

/-- the frame theorem: a statement that calls only procedures of `N` (closed under calls, `f ∉ N`), run in an
activation that is not `f`'s, leaves `f`'s block as it is — whatever the outcome -/
theorem statics_frame (P : Program) (N : Nat → Bool) (f : Nat) (hN : N f = false) (hcl : ClosedUnder P N) (fuel : Nat)
    (st : Stmt) (s s' : St) (o : Outcome) (hs : s.self ≠ some f) (hc : callsOnlyS N st = true)
    (h : exec P fuel st s = (s', o)) : s'.statics f = s.statics f :=
  ((frameIH_all (s.statics f) hN hcl fuel).execq st s s' o h hc ⟨rfl, hs⟩).1

/-- … and ends in an activation that is not `f`'s -/
theorem self_frame (P : Program) (N : Nat → Bool) (f : Nat) (hN : N f = false) (hcl : ClosedUnder P N) (fuel : Nat)
    (st : Stmt) (s s' : St) (o : Outcome) (hs : s.self ≠ some f) (hc : callsOnlyS N st = true)
    (h : exec P fuel st s = (s', o)) : s'.self ≠ some f :=
  ((frameIH_all (s.statics f) hN hcl fuel).execq st s s' o h hc ⟨rfl, hs⟩).2

theorem statics_frame_eval (P : Program) (N : Nat → Bool) (f : Nat) (hN : N f = false) (hcl : ClosedUnder P N)
    (fuel : Nat) (e : Proc.Expr) (s s' : St) (r : Except Outcome Val) (hs : s.self ≠ some f)
    (hc : callsOnlyE N e = true) (h : Proc.Ref.eval P fuel e s = (s', r)) : s'.statics f = s.statics f :=
  ((frameIH_all (s.statics f) hN hcl fuel).evalq e s s' r h hc ⟨rfl, hs⟩).1

theorem statics_frame_call (P : Program) (N : Nat → Bool) (f : Nat) (hN : N f = false) (hcl : ClosedUnder P N)
    (fuel g : Nat) (args : Args) (s s' : St) (r : Except Outcome Val) (hs : s.self ≠ some f) (hg : N g = true)
    (hc : callsOnlyA N args = true) (h : call P fuel g args s = (s', r)) : s'.statics f = s.statics f :=
  ((frameIH_all (s.statics f) hN hcl fuel).callq g args s s' r h hg hc ⟨rfl, hs⟩).1

/-- `static_persists_between`: a call of the STATIC procedure `f` from an activation that is not `f`'s returns; then
ANY statement that (transitively) does not call `f` runs, with any amount of fuel and any outcome; then `f` is entered
again, with any argument values: every non-parameter variable of `f` (other than the result variable of a FUNCTION,
which starts at zero) starts with the value it had when the body of the first call ended -/
theorem static_persists_between {P : Program} {N : Nat → Bool} {fuel f : Nat} {args : Args} {s s' : St} {v : Val}
    {d : ProcDecl Stmt} (hd : P.procs[f]? = some d) (hst : d.static = true)
    (h : call P (fuel + 1) f args s = (s', .ok v)) (hs : s.self ≠ some f)
    (hN : N f = false) (hcl : ClosedUnder P N)
    {k : Nat} {st : Stmt} {t : St} {o' : Outcome} (hc : callsOnlyS N st = true) (hk : exec P k st s' = (t, o')) :
    ∃ s1 vals s2 o, evalArgs P fuel args s = (s1, .ok vals) ∧
      exec P fuel d.body (enter d f vals s1) = (s2, o) ∧ returns o = true ∧
      ∀ (vals' : List Val) (x : Nat), vals'.length ≤ x → (x ≠ d.resultSlot ∨ d.result = none) →
        (enter d f vals' t).locals[x]? = s2.locals[x]? := by
  obtain ⟨s1, vals, s2, o, ha, hb, ho, hp⟩ := static_persists hd hst h (Or.inr hs)
  refine ⟨s1, vals, s2, o, ha, hb, ho, ?_⟩
  intro vals' x hx hxr
  have hs' : s'.self ≠ some f := by rw [call_self h]; exact hs
  exact hp t vals' x (statics_frame P N f hN hcl k st s' t o' hs' hc hk) hx hxr

/-! #### non-vacuity of `static_persists_between`

    S : T : S            (main module; T is an ordinary SUB that does not call S)
    SUB S STATIC : C% = C% + 1 : END SUB
    SUB T : D% = 5 : END SUB
-/

private def demoP : Program :=
  { slots := [], gslots := [], data := [],
    body := .skip,
    procs :=
      [ { result := none, name := "S", params := [], slots := [.int],
          body := .assign ⟨false, 0⟩ .int (.bin .plus (.var ⟨false, 0⟩ .int ⟨2, 8⟩) (.lit (.int 1) ⟨2, 13⟩) .int ⟨2, 11⟩) ⟨2, 3⟩,
          pos := ⟨1, 1⟩, static := true },
        { result := none, name := "T", params := [], slots := [.int],
          body := .assign ⟨false, 0⟩ .int (.lit (.int 5) ⟨4, 8⟩) ⟨4, 3⟩, pos := ⟨3, 1⟩ } ] }

/-- the set of procedures that cannot reach `S` (procedure 0): only `T` -/
private def demoN : Nat → Bool := fun g => g == 1

theorem demo_closed : ClosedUnder demoP demoN := by
  intro g d hg hd
  have : g = 1 := by simpa [demoN] using hg
  subst this
  have : d = { result := none, name := "T", params := [], slots := [.int],
               body := .assign ⟨false, 0⟩ .int (.lit (.int 5) ⟨4, 8⟩) ⟨4, 3⟩, pos := ⟨3, 1⟩ } := by
    simpa [demoP] using hd.symm
  subst this
  rfl

/-- the hypotheses of `static_persists_between` are satisfiable: a first call of the STATIC `S` from the main module
returns, then `T` runs, and the theorem yields the persistence statement for every later entry of `S` -/
example : ∃ s' v t o', call demoP 10 0 .nil (St.init demoP) = (s', .ok v) ∧
    exec demoP 10 (.callSub 1 .nil ⟨5, 1⟩) s' = (t, o') ∧
    ∃ s1 vals s2 o, evalArgs demoP 9 .nil (St.init demoP) = (s1, .ok vals) ∧
      exec demoP 9 (.assign ⟨false, 0⟩ .int (.bin .plus (.var ⟨false, 0⟩ .int ⟨2, 8⟩) (.lit (.int 1) ⟨2, 13⟩) .int ⟨2, 11⟩) ⟨2, 3⟩)
        (enter (demoP.procs[0]) 0 vals s1) = (s2, o) ∧ returns o = true ∧
      ∀ (vals' : List Val) (x : Nat), vals'.length ≤ x →
        (x ≠ (demoP.procs[0]).resultSlot ∨ (demoP.procs[0]).result = none) →
        (enter (demoP.procs[0]) 0 vals' t).locals[x]? = s2.locals[x]? := by
  refine ⟨_, _, _, _, rfl, rfl, ?_⟩
  exact static_persists_between (P := demoP) (N := demoN) (f := 0) (d := demoP.procs[0]) rfl rfl rfl (by simp [St.init])
    rfl demo_closed (k := 10) (st := .callSub 1 .nil ⟨5, 1⟩) rfl rfl

/-! #### non-vacuity of `function_result_default`

    FUNCTION F% STATIC : END FUNCTION      (assigns nothing to its name)
-/

private def demoF : Program :=
  { slots := [], gslots := [], data := [], body := .skip,
    procs := [ { result := some .int, name := "F%", params := [], slots := [.int], body := .skip, pos := ⟨1, 1⟩,
                 static := true } ] }

example : ∃ s' v, call demoF 5 0 .nil (St.init demoF) = (s', .ok v) ∧ v = .int 0 := by
  refine ⟨_, _, rfl, ?_⟩
  refine function_result_default (P := demoF) (f := 0) (d := demoF.procs[0]) (rt := .int) (fuel := 4) (args := .nil)
    (s := St.init demoF) rfl rfl rfl rfl ?_ ?_
  · intro s1 vals ha
    simp only [evalArgs] at ha
    rw [← (Except.ok.inj (Prod.mk.inj ha).2)]; rfl
  · intro s1 vals s2 o ha hb
    have : s2 = enter (demoF.procs[0]) 0 vals s1 := by
      simp only [demoF, List.getElem_cons_zero, exec] at hb
      exact (Prod.mk.inj hb).1.symm
    rw [this]


end RbThm.ProcProps
