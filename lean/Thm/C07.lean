import RbModel.RowCol
import Thm.C11
/-!
C07 — parsing and checking any text ends with a program or a located error (the proved part).

Every syntax error carries `StringView::position()` at the index where the parser stopped
(`program_parser`: `err.at_pos(reader.position())`), an index between 0 and the length of the text.
`position_in_bounds`: for **every** text and **every** index `≤ length` that position names a place
inside the text or immediately at its end:

* for an index inside the text: an existing row (1 … number of lines) and a column between 1 and that
  line's length + 1 (`length + 1` is where the line's terminator sits) — `position_in_bounds_inside`;
* at the end of a text that does not end with a line terminator: the last row, one column past its last
  character (`(1, 1)` for the empty text) — `eof_in_bounds_strict`;
* at the end of a text that ends with a line terminator the code reports the row of the terminated line and
  column `length + 2` — one column past the terminator's own position, *not* column 1 of the (empty) line
  that follows.  `inBounds` admits exactly this one extra place (`isEndAfterTerminator`);
  `strict_reading_fails` shows that the stricter reading is false on the code as it is (witness `"a\n"`),
  `position_in_bounds_strict_partial` proves it outside that case.

NOT proved (see checks.d/C07.json): that parser and checker return at all (no panic, no stack overflow,
bounded time) and that the index they stop at is `≤ length`; that the positions captured by `with_pos()`
for checker errors come from this table. Those are carried by the differential run `harness/src/bin/c07.rs`,
which evaluates the decidable predicate `inBounds` of this file on every reported position.
-/
namespace RbThm.C07
open RbModel.RowCol
open RbThm.C11

theorem humanAt_bounds (ls : List Line) (last : List Nat) (row idx r c : Nat)
    (h : humanAt ls last row idx = some (r, c)) :
    row ≤ r ∧ r ≤ row + ls.length ∧ 1 ≤ c ∧
      c ≤ ((ls.map (·.1) ++ [last]).getD (r - row) []).length + 1 := by
  induction ls generalizing row idx with
  | nil =>
    simp only [humanAt] at h
    split at h
    · simp only [Option.some.injEq, Prod.mk.injEq] at h
      obtain ⟨rfl, rfl⟩ := h
      simp; omega
    · cases h
  | cons l ls ih =>
    obtain ⟨cs, e⟩ := l
    simp only [humanAt] at h
    split at h
    · simp only [Option.some.injEq, Prod.mk.injEq] at h
      obtain ⟨rfl, rfl⟩ := h
      simp; omega
    · split at h
      · simp only [Option.some.injEq, Prod.mk.injEq] at h
        obtain ⟨rfl, rfl⟩ := h
        simp
      · obtain ⟨h1, h2, h3, h4⟩ := ih (row + 1) _ h
        have e1 : r - row = (r - (row + 1)) + 1 := by omega
        refine ⟨by omega, by simp only [List.length_cons]; omega, h3, ?_⟩
        rw [e1]
        simpa using h4

theorem linesOf_length (text : List Nat) : (linesOf text).length = (decompose text).1.length + 1 := by
  simp [linesOf]

/-- An index inside the text: the reported row exists and the column is on that line or directly after
its last character. -/
theorem position_in_bounds_inside (text : List Nat) (idx : Nat) (h : idx < text.length) :
    inBoundsStrict text (position text idx).1 (position text idx).2 = true := by
  have hh := position_is_human text idx h
  unfold humanRowCol at hh
  generalize position text idx = p at hh ⊢
  obtain ⟨r, c⟩ := p
  obtain ⟨h1, h2, h3, h4⟩ := humanAt_bounds _ _ 1 idx r c hh
  simp only [inBoundsStrict, linesOf_length, Bool.and_eq_true, decide_eq_true_eq]
  refine ⟨⟨⟨h1, by omega⟩, h3⟩, ?_⟩
  simpa [linesOf] using h4

theorem eq_nil_or_snoc {α} (l : List α) : l = [] ∨ ∃ l' a, l = l' ++ [a] := by
  rcases List.eq_nil_or_concat l with h | ⟨l', a, h⟩
  · exact Or.inl h
  · exact Or.inr ⟨l', a, by simpa using h⟩

theorem render_append_lines (a b : List Line) (last : List Nat) :
    render (a ++ b) last = render a [] ++ render b last := by
  induction a with
  | nil => simp [render]
  | cons l a ih => obtain ⟨cs, e⟩ := l; simp [render, ih]

/-- The text ends with a line terminator: its last character is LF or CR. -/
def endsWithTerminator (text : List Nat) : Bool :=
  text.getLast? == some LF || text.getLast? == some CR

theorem eol_getLast (e : Eol) : e.chars.getLast? = some LF ∨ e.chars.getLast? = some CR := by
  cases e <;> simp [Eol.chars]

theorem eol_ne_nil (e : Eol) : e.chars ≠ [] := by cases e <;> simp [Eol.chars]

/-- The final unterminated line of the decomposition is empty exactly when the text is empty or ends
with a terminator. -/
theorem last_empty_iff (text : List Nat) :
    (decompose text).2 = [] ↔ (text = [] ∨ endsWithTerminator text = true) := by
  have hr := render_decompose text
  have hw := wf_decompose text
  generalize (decompose text).1 = ls at hr hw
  generalize (decompose text).2 = last at hr hw
  subst hr
  constructor
  · intro hl
    subst hl
    rcases eq_nil_or_snoc ls with rfl | ⟨ls', l, rfl⟩
    · left; simp [render]
    · right
      obtain ⟨cs, e⟩ := l
      have : render (ls' ++ [(cs, e)]) [] = (render ls' [] ++ cs) ++ e.chars := by
        rw [render_append_lines]; simp [render]
      rw [this]
      cases e <;> simp [endsWithTerminator, Eol.chars, List.getLast?_append]
  · intro h
    -- a non-empty last line ends the text with a plain character
    by_cases hl : last = []
    · exact hl
    · exfalso
      have hplain : Plain last := by
        clear h
        induction ls with
        | nil => exact hw
        | cons l ls ih => obtain ⟨cs, e⟩ := l; exact ih hw.2.2
      have hlast : (render ls last).getLast? = last.getLast? := by
        clear h hw hplain
        induction ls with
        | nil => simp [render]
        | cons l ls ih =>
          obtain ⟨cs, e⟩ := l
          have hne : render ls last ≠ [] := by
            intro h0
            have := render_length ls last
            rw [h0] at this
            have : 0 < last.length := List.length_pos_iff.mpr hl
            simp at *; omega
          cases hg : (render ls last).getLast? with
          | none => exact absurd (List.getLast?_eq_none_iff.mp hg) hne
          | some y =>
            simp only [render, List.getLast?_append]
            rw [← ih, hg]; simp
      obtain ⟨x, hx⟩ : ∃ x, last.getLast? = some x := by
        cases hg : last.getLast? with
        | none => simp at hg; exact absurd hg hl
        | some x => exact ⟨x, rfl⟩
      have hmem : x ∈ last := List.mem_of_getLast? hx
      have hp := hplain x hmem
      rcases h with h | h
      · have := render_length ls last
        rw [h] at this
        have : 0 < last.length := List.length_pos_iff.mpr hl
        simp at *; omega
      · simp only [endsWithTerminator, hlast, hx, Bool.or_eq_true, beq_iff_eq, Option.some.injEq] at h
        rcases h with h | h
        · exact hp.2 h
        · exact hp.1 h

/-- End of a text that does not end with a terminator: the last row, one column past its last character;
`(1, 1)` for the empty text. -/
theorem eof_in_bounds_strict (text : List Nat) (h : endsWithTerminator text = false) :
    inBoundsStrict text (position text text.length).1 (position text text.length).2 = true := by
  by_cases ht : text = []
  · subst ht; decide
  · have hne : (decompose text).2 ≠ [] := by
      intro h0
      rcases (last_empty_iff text).mp h0 with h1 | h1
      · exact ht h1
      · rw [h1] at h; cases h
    have hr := render_decompose text
    have hw := wf_decompose text
    have hp := eof_after_last_line _ _ hw hne
    rw [hr] at hp
    rw [hp]
    simp [inBoundsStrict, linesOf]

/-- End of a text that ends with a terminator: the extra place `isEndAfterTerminator`. -/
theorem eof_after_terminator_in_bounds (text : List Nat) (h : endsWithTerminator text = true) :
    isEndAfterTerminator text (position text text.length).1 (position text text.length).2 = true := by
  have hl : (decompose text).2 = [] := (last_empty_iff text).mpr (Or.inr h)
  have hr := render_decompose text
  have hw := wf_decompose text
  have hne : text ≠ [] := by intro h0; subst h0; simp [endsWithTerminator] at h
  rcases eq_nil_or_snoc (decompose text).1 with h1 | ⟨ls', l, h1⟩
  · rw [h1, hl] at hr; simp [render] at hr; first | exact absurd hr hne | exact absurd hr.symm hne
  · obtain ⟨cs, e⟩ := l
    rw [h1, hl] at hr hw
    have hp := eof_after_terminator ls' cs e hw
    rw [hr] at hp
    rw [hp]
    simp [isEndAfterTerminator, linesOf, hl, h1]

/-- **`position_in_bounds`.** For every text and every index `≤ length` the position the parser reports
for that index lies inside the text or immediately at its end. -/
theorem position_in_bounds (text : List Nat) (idx : Nat) (h : idx ≤ text.length) :
    inBounds text (position text idx).1 (position text idx).2 = true := by
  unfold inBounds
  rcases Nat.lt_or_ge idx text.length with hlt | hge
  · simp [position_in_bounds_inside text idx hlt]
  · have : idx = text.length := by omega
    subst this
    cases ht : endsWithTerminator text with
    | false => simp [eof_in_bounds_strict text ht]
    | true => simp [eof_after_terminator_in_bounds text ht]

/-- The stricter reading (existing row, column at most line length + 1) as a statement about all texts. -/
def PositionInBoundsStrict : Prop :=
  ∀ (text : List Nat) (idx : Nat), idx ≤ text.length →
    inBoundsStrict text (position text idx).1 (position text idx).2 = true

/-- It is false for the code as it is: the end of `"a\n"` is reported as `(1, 3)` (line 1 has one
character; the LF is at column 2). -/
theorem strict_reading_fails : ¬ PositionInBoundsStrict := by
  intro h
  have := h [97, 10] 2 (by decide)
  revert this
  decide

/-- … and true everywhere except at the end of a text that ends with a line terminator. -/
theorem position_in_bounds_strict_partial (text : List Nat) (idx : Nat) (h : idx ≤ text.length)
    (hex : ¬ (idx = text.length ∧ endsWithTerminator text = true)) :
    inBoundsStrict text (position text idx).1 (position text idx).2 = true := by
  rcases Nat.lt_or_ge idx text.length with hlt | hge
  · exact position_in_bounds_inside text idx hlt
  · have : idx = text.length := by omega
    subst this
    cases ht : endsWithTerminator text with
    | false => exact eof_in_bounds_strict text ht
    | true => exact absurd ⟨rfl, ht⟩ hex

/-- Rows and columns start at 1 (`Position::new` asserts it in debug builds). -/
theorem position_ge_one (text : List Nat) (idx : Nat) (h : idx ≤ text.length) :
    1 ≤ (position text idx).1 ∧ 1 ≤ (position text idx).2 := by
  have := position_in_bounds text idx h
  simp only [inBounds, inBoundsStrict, isEndAfterTerminator, Bool.or_eq_true, Bool.and_eq_true,
    decide_eq_true_eq] at this
  rcases this with h | h
  · exact ⟨h.1.1.1, h.1.2⟩
  · refine ⟨h.1.1.2, ?_⟩
    rw [h.2]; omega

/-- The predicate is satisfiable and discriminating: positions of `"ab\r\nc"` are in bounds, the
places around them are not. -/
example : inBounds [97, 98, 13, 10, 99] 1 3 = true ∧ inBounds [97, 98, 13, 10, 99] 2 2 = true ∧
    inBounds [97, 98, 13, 10, 99] 1 4 = false ∧ inBounds [97, 98, 13, 10, 99] 3 1 = false ∧
    inBounds [97, 98, 13, 10, 99] 0 1 = false ∧ inBounds [97, 98, 13, 10, 99] 2 3 = false ∧
    position [97, 98, 13, 10, 99] 5 = (2, 2) := by decide

end RbThm.C07
