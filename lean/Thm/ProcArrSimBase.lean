import RbModel.ProcArr.Ref
import RbModel.ProcArr.Vm
import Thm.ProcArrLen
import Thm.C01SimRead
import Thm.ArrLSimBase
/-!
Combined layer (core language + SUB / FUNCTION + arrays of scalars + array elements as by-reference actuals), simulation
part — the infrastructure.  Port of `Thm/ProcSimBase.lean` extended with the array relation of `Thm/ArrLSimBase.lean`.

The code the generator model `ProcArr.Compile.compile*` emits, run on the VM model `ProcArr.Vm.step`, computes what the
reference semantics `ProcArr.Ref` prescribes.  The reference semantics is ONE mutual recursion on fuel (expressions thread
the state, because a function call may occur in any expression — also in a subscript or a DIM bound), so the proof is one
induction on fuel: `IH W fuel` packages the specifications of expressions, argument lists, calls and statements at a given
amount of fuel, and every construct is proved by its own case lemma from `IHle W fuel` (the hypothesis at every smaller or
equal amount).  Subscript lists (`IdxIH`) and DIM bounds are derived from `IHle` by structural induction
(`Thm/ProcArrSimIdx.lean`).

Contents: `World`, `Scope` (slot tables incl. the array table, number of parameters, main / procedure, the argument paths
of the activation's block), `CodeAt`, `Steps`, `ErrsWith`, `HaltsWith`; frames with lazy creation (`getVar` / `setVar`,
`FrameRel`), lazily grown array frames (`setArrSlot`, `ArrsRel` over `ArrLSim.ArrRel`), `Rel` (`Rel.store`,
`Rel.storeArr`, `Rel.readElem`), `SameStacks`, `ActInv`, `ExitedTo`; well-formedness (`EWf`, `IdxWf`, `AWf`, `DimsWf`,
`Wf`, `ProcsOk`); the specifications (`ErrPost`, `ExprPost`, `IdxPost`, `ArgsPost` with `argEntry` / `LocOk`, `CallPost`,
`CondPost`, `StmtPost`), `IH`, `IHle`; and the derived lemmas every case needs: `var_steps`, `store_steps`,
`exprTo_correct`, `cond_correct`.
-/
namespace RbThm.ProcArrSim
set_option linter.unusedVariables false
set_option linter.unusedSimpArgs false
open RbModel RbModel.Num RbModel.ProcArr RbModel.ProcArr.Compile RbModel.ProcArr.Vm
open RbModel.Ast (Pos)
open RbThm.ProcArrLen

abbrev St := RbModel.ProcArr.Ref.St
abbrev Outcome := RbModel.ProcArr.Ref.Outcome
abbrev Typed := RbThm.C01Sim.Typed
abbrev RArr := RbModel.ProcArr.Ref.RArr
abbrev Loc := RbModel.ProcArr.Ref.Loc
abbrev ArrRel := RbThm.ArrLSim.ArrRel

/-- what the whole proof is relative to: the program of the reference semantics, the code the VM runs, the layout
(addresses of the procedures' labels and their STATIC flags) the generator used, and the signature table of the
procedures -/
structure World where
  P : Program
  code : Code
  lay : Layout
  sg : Sigs

/-- a scope: the main module or one procedure.  `slots` = the scope's own slot table and the table of DIM SHARED
variables; `np` slots (the parameters) exist in the VM frame from `PushStack` on; `inProc` tells a procedure body from
the main module; `self = some f`: the body of the STATIC procedure `f` (its variables are the persistent block of `f`) -/
structure Scope where
  slots : SlotTabs
  np : Nat
  inProc : Bool
  self : Option Nat
  /-- the argument paths of the activation's block (`RuntimeVariableInfo::arg_path`; fixed at `PushStack`, constant while
  the activation lives; `[]` for the main module) -/
  ap : List (Option Path) := []


/-! ### code placement -/

/-- the fragment `frag` sits in `code` at address `off` -/
def CodeAt (code : Code) (off : Nat) (frag : Code) : Prop :=
  ∀ i, i < frag.length → code[off + i]? = frag[i]?

theorem CodeAt.nil (code : Code) (off : Nat) : CodeAt code off [] := by
  intro i hi; simp at hi

theorem CodeAt.append_left {code : Code} {off : Nat} {a b : Code} (h : CodeAt code off (a ++ b)) :
    CodeAt code off a := by
  intro i hi
  have := h i (by simp; omega)
  rw [this, List.getElem?_append_left hi]

theorem CodeAt.append_right {code : Code} {off : Nat} {a b : Code} (h : CodeAt code off (a ++ b)) :
    CodeAt code (off + a.length) b := by
  intro i hi
  have := h (a.length + i) (by simp; omega)
  rw [Nat.add_assoc, this, List.getElem?_append_right (by omega)]
  congr 1; omega

theorem CodeAt.head {code : Code} {off : Nat} {x : CInstr × Pos} {rest : Code}
    (h : CodeAt code off (x :: rest)) : code[off]? = some x := by
  have := h 0 (by simp)
  simpa using this

theorem CodeAt.tail {code : Code} {off : Nat} {x : CInstr × Pos} {rest : Code}
    (h : CodeAt code off (x :: rest)) : CodeAt code (off + 1) rest := by
  have := CodeAt.append_right (a := [x]) (b := rest) (by simpa using h)
  simpa using this

/-- re-addressing: the same fragment at a provably equal address -/
theorem CodeAt.at {code : Code} {off off' : Nat} {frag : Code} (h : CodeAt code off frag) (e : off = off') :
    CodeAt code off' frag := e ▸ h

/-- re-addressing with a provably equal fragment -/
theorem CodeAt.cast {code : Code} {off off' : Nat} {frag frag' : Code} (h : CodeAt code off frag) (e : off = off')
    (e' : frag = frag') : CodeAt code off' frag' := e ▸ e' ▸ h

/-! ### execution -/

/-- zero or more successful steps -/
inductive Steps (code : Code) : Vm → Vm → Prop
  | refl (σ : Vm) : Steps code σ σ
  | cons {σ τ υ : Vm} : Vm.step code σ = .next τ → Steps code τ υ → Steps code σ υ

theorem Steps.trans {code : Code} {a b c : Vm} (h₁ : Steps code a b) (h₂ : Steps code b c) : Steps code a c := by
  induction h₁ with
  | refl => exact h₂
  | cons hs _ ih => exact Steps.cons hs (ih h₂)

theorem Steps.one {code : Code} {σ τ : Vm} (h : Vm.step code σ = .next τ) : Steps code σ τ :=
  Steps.cons h (Steps.refl τ)

theorem Steps.cast {code : Code} {σ τ τ' : Vm} (h : Steps code σ τ) (e : τ = τ') : Steps code σ τ' := e ▸ h

/-- the run reaches a state whose next step raises the BASIC error `(c, p)`, with the output `out` -/
def ErrsWith (code : Code) (σ : Vm) (c : Nat) (p : Pos) (out : Print.WritePrinter) : Prop :=
  ∃ τ υ, Steps code σ τ ∧ Vm.step code τ = .error c p υ ∧ υ.out = out

/-- the run reaches a `Halt` (END / SYSTEM, also inside a procedure) with the output `out` -/
def HaltsWith (code : Code) (σ : Vm) (out : Print.WritePrinter) : Prop :=
  ∃ τ υ, Steps code σ τ ∧ Vm.step code τ = .halt υ ∧ υ.out = out

theorem ErrsWith.of_steps {code : Code} {σ τ : Vm} {c : Nat} {p : Pos} {out}
    (h₁ : Steps code σ τ) (h₂ : ErrsWith code τ c p out) : ErrsWith code σ c p out := by
  obtain ⟨a, b, h, hs, ho⟩ := h₂
  exact ⟨a, b, h₁.trans h, hs, ho⟩

theorem HaltsWith.of_steps {code : Code} {σ τ : Vm} {out}
    (h₁ : Steps code σ τ) (h₂ : HaltsWith code τ out) : HaltsWith code σ out := by
  obtain ⟨a, b, h, hs, ho⟩ := h₂
  exact ⟨a, b, h₁.trans h, hs, ho⟩

/-! ### frames: lazily created variables -/

theorem getVar_setVar_same (fr : Frame) (x : Nat) (v : Val) (t : Ty) : getVar (setVar fr x v) x t = v := by
  unfold getVar setVar
  by_cases h : x < fr.length
  · simp [h, List.getElem?_set_self h]
  · simp only [h, if_false]
    have : (fr ++ List.replicate (x - fr.length) none ++ [some v])[x]? = some (some v) := by
      have hl : (fr ++ List.replicate (x - fr.length) (none : Option Val)).length = x := by
        simp only [List.length_append, List.length_replicate]; omega
      rw [List.getElem?_append_right (by rw [hl]; exact Nat.le_refl _), hl]
      simp
    rw [this]

theorem getElem?_setVar_ne (fr : Frame) (x y : Nat) (v : Val) (h : x ≠ y) :
    (setVar fr x v)[y]?.join = fr[y]?.join := by
  unfold setVar
  by_cases hx : x < fr.length
  · simp only [hx, if_true]
    rw [List.getElem?_set_ne h]
  · simp only [hx, if_false]
    by_cases hy : y < fr.length
    · rw [List.append_assoc, List.getElem?_append_left hy]
    · rw [List.getElem?_eq_none (l := fr) (by omega)]
      by_cases hy2 : y < x
      · rw [List.getElem?_append_left (by simp; omega), List.getElem?_append_right (by omega)]
        rw [List.getElem?_replicate]
        have : y - fr.length < x - fr.length := by omega
        simp [this]
      · rw [List.getElem?_eq_none (by simp; omega)]

theorem getVar_eq_join (fr : Frame) (x : Nat) (t : Ty) : getVar fr x t = (fr[x]?.join).getD (zeroOf t) := by
  unfold getVar
  cases h : fr[x]? with
  | none => rfl
  | some o => cases o <;> rfl

theorem getVar_setVar_ne (fr : Frame) (x y : Nat) (v : Val) (t : Ty) (h : x ≠ y) :
    getVar (setVar fr x v) y t = getVar fr y t := by
  rw [getVar_eq_join, getVar_eq_join, getElem?_setVar_ne fr x y v h]

/-- a created variable stays created -/
theorem created_setVar (fr : Frame) (x i : Nat) (v : Val) (h : ∃ w, fr[i]? = some (some w)) :
    ∃ w, (setVar fr x v)[i]? = some (some w) := by
  obtain ⟨w, hw⟩ := h
  have hi : i < fr.length := (List.getElem?_eq_some_iff.mp hw).1
  unfold setVar
  by_cases hx : x < fr.length
  · simp only [hx, if_true]
    by_cases hxi : x = i
    · subst hxi; exact ⟨v, List.getElem?_set_self hi⟩
    · exact ⟨w, by rw [List.getElem?_set_ne hxi]; exact hw⟩
  · simp only [hx, if_false]
    exact ⟨w, by rw [List.append_assoc, List.getElem?_append_left hi]; exact hw⟩

/-- the states above the current frame are argument-collecting states (calls whose argument lists are being
evaluated: names still resolve in the frame below them) -/
def Collecting : List CtxState → Prop
  | [] => True
  | .args _ :: rest => Collecting rest
  | .frame _ :: _ => False
  | .sframe _ :: _ => False

theorem curVars_pre (st : Nat → Option Frame) : ∀ {pre : List CtxState}, Collecting pre → ∀ (fr : Block) (below : List CtxState),
    curVars st (pre ++ .frame fr :: below) = some fr.vars
  | [], _, _, _ => rfl
  | .args _ :: rest, h, fr, below => by
    simp only [List.cons_append, curVars]
    exact curVars_pre st (pre := rest) h fr below
  | .frame _ :: _, h, _, _ => h.elim
  | .sframe _ :: _, h, _, _ => h.elim

theorem curVars_pre_s (st : Nat → Option Frame) : ∀ {pre : List CtxState}, Collecting pre → ∀ (f : Nat) (below : List CtxState),
    curVars st (pre ++ .sframe f :: below) = st f
  | [], _, _, _ => rfl
  | .args _ :: rest, h, f, below => by
    simp only [List.cons_append, curVars]
    exact curVars_pre_s st (pre := rest) h f below
  | .frame _ :: _, h, _, _ => h.elim
  | .sframe _ :: _, h, _, _ => h.elim

theorem curStatic_pre : ∀ {pre : List CtxState}, Collecting pre → ∀ (fr : Block) (below : List CtxState),
    curStatic (pre ++ .frame fr :: below) = none
  | [], _, _, _ => rfl
  | .args _ :: rest, h, fr, below => by
    simp only [List.cons_append, curStatic]
    exact curStatic_pre (pre := rest) h fr below
  | .frame _ :: _, h, _, _ => h.elim
  | .sframe _ :: _, h, _, _ => h.elim

theorem curStatic_pre_s : ∀ {pre : List CtxState}, Collecting pre → ∀ (f : Nat) (below : List CtxState),
    curStatic (pre ++ .sframe f :: below) = some f
  | [], _, _, _ => rfl
  | .args _ :: rest, h, f, below => by
    simp only [List.cons_append, curStatic]
    exact curStatic_pre_s (pre := rest) h f below
  | .frame _ :: _, h, _, _ => h.elim
  | .sframe _ :: _, h, _, _ => h.elim

theorem modCur_pre (f : Frame → Frame) : ∀ {pre : List CtxState}, Collecting pre → ∀ (fr : Block) (below : List CtxState),
    modCur f (pre ++ .frame fr :: below) = pre ++ .frame { fr with vars := f fr.vars } :: below
  | [], _, _, _ => rfl
  | .args _ :: rest, h, fr, below => by
    simp only [List.cons_append, modCur]
    rw [modCur_pre f (pre := rest) h fr below]
  | .frame _ :: _, h, _, _ => h.elim
  | .sframe _ :: _, h, _, _ => h.elim

theorem curBlock_pre : ∀ {pre : List CtxState}, Collecting pre → ∀ (b : Block) (below : List CtxState),
    curBlock (pre ++ .frame b :: below) = some b
  | [], _, _, _ => rfl
  | .args _ :: rest, h, b, below => by
    simp only [List.cons_append, curBlock]
    exact curBlock_pre (pre := rest) h b below
  | .frame _ :: _, h, _, _ => h.elim
  | .sframe _ :: _, h, _, _ => h.elim

theorem curBlock_pre_s : ∀ {pre : List CtxState}, Collecting pre → ∀ (f : Nat) (below : List CtxState),
    curBlock (pre ++ .sframe f :: below) = none
  | [], _, _, _ => rfl
  | .args _ :: rest, h, f, below => by
    simp only [List.cons_append, curBlock]
    exact curBlock_pre_s (pre := rest) h f below
  | .frame _ :: _, h, _, _ => h.elim
  | .sframe _ :: _, h, _, _ => h.elim

theorem curPaths_pre : ∀ {pre : List CtxState}, Collecting pre → ∀ (b : Block) (below : List CtxState),
    curPaths (pre ++ .frame b :: below) = b.apaths
  | [], _, _, _ => rfl
  | .args _ :: rest, h, b, below => by
    simp only [List.cons_append, curPaths]
    exact curPaths_pre (pre := rest) h b below
  | .frame _ :: _, h, _, _ => h.elim
  | .sframe _ :: _, h, _, _ => h.elim

theorem curPaths_pre_s : ∀ {pre : List CtxState}, Collecting pre → ∀ (f : Nat) (below : List CtxState),
    curPaths (pre ++ .sframe f :: below) = []
  | [], _, _, _ => rfl
  | .args _ :: rest, h, f, below => by
    simp only [List.cons_append, curPaths]
    exact curPaths_pre_s (pre := rest) h f below
  | .frame _ :: _, h, _, _ => h.elim
  | .sframe _ :: _, h, _, _ => h.elim

theorem modArr_pre (a : Nat) (A : VArr) : ∀ {pre : List CtxState}, Collecting pre → ∀ (b : Block) (below : List CtxState),
    modArr a A (pre ++ .frame b :: below) = pre ++ .frame { b with arrs := setArrSlot b.arrs a A } :: below
  | [], _, _, _ => rfl
  | .args _ :: rest, h, b, below => by
    simp only [List.cons_append, modArr]
    rw [modArr_pre a A (pre := rest) h b below]
  | .frame _ :: _, h, _, _ => h.elim
  | .sframe _ :: _, h, _, _ => h.elim

/-! ### array frames: lazily grown, as the scalar frames -/

theorem getElem?_setArrSlot_same (af : AFrame) (a : Nat) (A : VArr) : (setArrSlot af a A)[a]?.join = some A := by
  unfold setArrSlot
  by_cases h : a < af.length
  · simp [h, List.getElem?_set_self h]
  · simp only [h, if_false]
    have hl : (af ++ List.replicate (a - af.length) (none : Option VArr)).length = a := by
      simp only [List.length_append, List.length_replicate]; omega
    rw [List.getElem?_append_right (by rw [hl]; exact Nat.le_refl _), hl]
    simp

theorem getElem?_setArrSlot_ne (af : AFrame) (a b : Nat) (A : VArr) (h : a ≠ b) :
    (setArrSlot af a A)[b]?.join = af[b]?.join := by
  unfold setArrSlot
  by_cases hx : a < af.length
  · simp only [hx, if_true]
    rw [List.getElem?_set_ne h]
  · simp only [hx, if_false]
    by_cases hy : b < af.length
    · rw [List.append_assoc, List.getElem?_append_left hy]
    · rw [List.getElem?_eq_none (l := af) (by omega)]
      by_cases hy2 : b < a
      · rw [List.getElem?_append_left (by simp; omega), List.getElem?_append_right (by omega)]
        rw [List.getElem?_replicate]
        have : b - af.length < a - af.length := by omega
        simp [this]
      · rw [List.getElem?_eq_none (by simp; omega)]

/-- the arrays of a block represent the arrays of the activation over the array table `al` (a never-dimensioned array is
`none` on the reference side and absent / `none` in the block) -/
structure ArrsRel (al : List Ty) (ra : List (Option RArr)) (va : AFrame) : Prop where
  lenR : ra.length = al.length
  at_ : ∀ (a : Nat) (t : Ty), al[a]? = some t →
    (ra[a]? = some none ∧ va[a]?.join = none) ∨ ∃ A V, ra[a]? = some (some A) ∧ va[a]?.join = some V ∧ ArrRel t A V

/-- a dimensioned array of the reference state has its VM counterpart -/
theorem ArrsRel.lookup {al : List Ty} {ra : List (Option RArr)} {va : AFrame} (h : ArrsRel al ra va)
    {a : Nat} {t : Ty} {A : RArr} (ha : al[a]? = some t) (hA : ra[a]? = some (some A)) :
    ∃ V, va[a]?.join = some V ∧ ArrRel t A V := by
  rcases h.at_ a t ha with ⟨h1, _⟩ | ⟨A', V, h1, h2, h3⟩
  · rw [h1] at hA; cases hA
  · rw [h1] at hA; injection hA with hA; injection hA with hA; subst hA
    exact ⟨V, h2, h3⟩

/-- an array whose DIM has not run is absent in the block -/
theorem ArrsRel.lookup_none {al : List Ty} {ra : List (Option RArr)} {va : AFrame} (h : ArrsRel al ra va)
    {a : Nat} {t : Ty} (ha : al[a]? = some t) (hA : ∀ A, ra[a]? ≠ some (some A)) : va[a]?.join = none := by
  rcases h.at_ a t ha with ⟨_, h2⟩ | ⟨A', V, h1, _, _⟩
  · exact h2
  · exact absurd h1 (hA A')

/-- the reference side always has an entry for a declared array -/
theorem ArrsRel.entry {al : List Ty} {ra : List (Option RArr)} {va : AFrame} (h : ArrsRel al ra va)
    {a : Nat} {t : Ty} (ha : al[a]? = some t) : ∃ o, ra[a]? = some o := by
  rcases h.at_ a t ha with ⟨h1, _⟩ | ⟨A', V, h1, _, _⟩
  · exact ⟨_, h1⟩
  · exact ⟨_, h1⟩

/-- (re)dimensioning or updating array `a` on both sides -/
theorem ArrsRel.set {al : List Ty} {ra : List (Option RArr)} {va : AFrame} (h : ArrsRel al ra va)
    {a : Nat} {t : Ty} {A : RArr} {V : VArr} (ha : al[a]? = some t) (hr : ArrRel t A V) :
    ArrsRel al (ra.set a (some A)) (setArrSlot va a V) := by
  have hlt : a < al.length := (List.getElem?_eq_some_iff.mp ha).1
  refine ⟨by rw [List.length_set]; exact h.lenR, ?_⟩
  intro b u hb
  by_cases hab : a = b
  · subst hab
    have hu : u = t := by rw [ha] at hb; injection hb with hb; exact hb.symm
    subst hu
    exact Or.inr ⟨A, V, List.getElem?_set_self (by rw [h.lenR]; exact hlt), getElem?_setArrSlot_same va a V, hr⟩
  · rw [List.getElem?_set_ne hab, getElem?_setArrSlot_ne va a b V hab]
    exact h.at_ b u hb

/-- a VM block represents an environment over a slot table: every slot reads the same value (a never-created variable
reads as zero of its type) -/
def TabRel (sl : List Ty) (fr : Frame) (env : List Val) : Prop :=
  ∀ x t, sl[x]? = some t → getVar fr x t = env.getD x (zeroOf t)

theorem TabRel.set {sl : List Ty} {fr : Frame} {env : List Val} (h : TabRel sl fr env) {x : Nat} {t : Ty}
    (hx : sl[x]? = some t) (hlen : env.length = sl.length) (v : Val) : TabRel sl (setVar fr x v) (env.set x v) := by
  have hxl : x < env.length := by
    rw [hlen]; exact (List.getElem?_eq_some_iff.mp hx).1
  intro y u hy
  by_cases hxy : x = y
  · subst hxy
    rw [getVar_setVar_same]
    simp [List.getD, List.getElem?_set_self hxl]
  · rw [getVar_setVar_ne fr x y v u hxy, h y u hy]
    simp [List.getD, List.getElem?_set_ne hxy]

/-- a VM frame represents a reference environment over the scope's own slot table: every slot reads the same value,
and the parameter slots exist -/
structure FrameRel (sc : Scope) (fr : Frame) (env : List Val) : Prop where
  get : ∀ x t, sc.slots.loc[x]? = some t → getVar fr x t = env.getD x (zeroOf t)
  created : ∀ i, i < sc.np → ∃ v, fr[i]? = some (some v)

theorem FrameRel.set {sc : Scope} {fr : Frame} {env : List Val} (h : FrameRel sc fr env) {x : Nat} {t : Ty}
    (hx : sc.slots.loc[x]? = some t) (hlen : env.length = sc.slots.loc.length) (v : Val) :
    FrameRel sc (setVar fr x v) (env.set x v) :=
  ⟨TabRel.set h.get hx hlen v, fun i hi => created_setVar fr x i v (h.created i hi)⟩

/-- the normal state of an activation of scope `sc`: an ordinary block, or the state on the block of a STATIC procedure -/
def topState (sc : Scope) (b : Block) : CtxState :=
  match sc.self with
  | none => .frame b
  | some f => .sframe f

/-- reading a slot of a block that may not exist yet -/
def ogetVar (ofr : Option Frame) (x : Nat) (t : Ty) : Val :=
  match ofr with
  | some fr => getVar fr x t
  | none => zeroOf t

/-- the persistent block of a STATIC procedure (absent until the first call) represents its persistent environment -/
structure StatRel (sl : List Ty) (ofr : Option Frame) (env : List Val) : Prop where
  typed : Typed sl env
  get : ∀ x t, sl[x]? = some t → ogetVar ofr x t = env.getD x (zeroOf t)

/-! ### the state relation -/

/-- the VM state represents the state `s` of the reference semantics inside one activation of scope `sc`, whose normal
state sits under the collecting prefix `pre` and above the (untouched) rest `below` of the context stack; the scalar part
of the activation's block represents the environment, its arrays represent the arrays of the activation (`ArrsRel`), its
argument paths are `sc.ap`; the DIM SHARED variables and the blocks of the STATIC procedures represent `s.glob` and
`s.statics`; no array is waiting in the array register -/
structure Rel (W : World) (sc : Scope) (pre below : List CtxState) (s : St) (σ : Vm) : Prop where
  coll : Collecting pre
  self : s.self = sc.self
  ctx : ∃ b : Block, σ.ctx = pre ++ topState sc b :: below ∧ σ.curFrame = some b.vars ∧ FrameRel sc b.vars s.locals ∧
    ArrsRel sc.slots.arrs s.arrs b.arrs ∧ b.apaths = sc.ap
  /-- every variable of the activation holds a value of its declared type -/
  typed : Typed sc.slots.loc s.locals
  gl : sc.slots.glob = W.P.gslots
  /-- the STATIC flags the scope's tables carry are the program's -/
  st : sc.slots.stat = W.P.procs.map (·.static)
  glob : TabRel W.P.gslots σ.glob s.glob
  gtyped : Typed W.P.gslots s.glob
  stat : ∀ f d, W.P.procs[f]? = some d → d.static = true → StatRel d.slots (σ.statics f) (s.statics f)
  scok : ∀ f, sc.self = some f → ∃ d, W.P.procs[f]? = some d ∧ d.static = true ∧ sc.slots.loc = d.slots ∧ sc.slots.arrs = []
  out : σ.out = s.out
  data : σ.data = s.data
  dataIdx : σ.dataIdx = s.dataIdx
  /-- nothing is waiting in the by-reference return queue, no function result is stashed, no array is in the array register -/
  queue : σ.queue = []
  funRes : σ.funRes = none
  arrA : σ.arrA = none

theorem locals_congr {s s' : St} (he : s'.env = s.env) (hs : s'.self = s.self) (hst : s'.statics = s.statics) :
    s'.locals = s.locals := by
  unfold ProcArr.Ref.St.locals
  rw [hs, he, hst]

theorem curFrame_congr {σ τ : Vm} (hc : τ.ctx = σ.ctx) (hs : τ.statics = σ.statics) : τ.curFrame = σ.curFrame := by
  unfold Vm.curFrame
  rw [hc, hs]

/-- a VM state that agrees with a related one on the context stack and the global components is related to a reference
state that agrees with the old one on the variables -/
theorem Rel.congr {W : World} {sc : Scope} {pre below : List CtxState} {s s' : St} {σ τ : Vm} (h : Rel W sc pre below s σ)
    (hc : τ.ctx = σ.ctx) (he : s'.env = s.env) (ho : τ.out = s'.out) (hd : τ.data = s'.data)
    (hi : τ.dataIdx = s'.dataIdx) (hq : τ.queue = []) (hf : τ.funRes = none)
    (hself : s'.self = s.self := by rfl) (hg : s'.glob = s.glob := by rfl) (hst : s'.statics = s.statics := by rfl)
    (hcg : τ.glob = σ.glob := by rfl) (hcs : τ.statics = σ.statics := by rfl)
    (ha : s'.arrs = s.arrs := by rfl) (hA : τ.arrA = σ.arrA := by rfl) : Rel W sc pre below s' τ := by
  obtain ⟨fr, h1, h2, h3, h4, h5⟩ := h.ctx
  have hl := locals_congr he hself hst
  exact ⟨h.coll, by rw [hself]; exact h.self,
    ⟨fr, by rw [hc, h1], by rw [curFrame_congr hc hcs]; exact h2, by rw [hl]; exact h3, by rw [ha]; exact h4, h5⟩,
    by rw [hl]; exact h.typed, h.gl, h.st, by rw [hcg, hg]; exact h.glob, by rw [hg]; exact h.gtyped,
    by rw [hcs, hst]; exact h.stat, h.scok, ho, hd, hi, hq, hf, by rw [hA]; exact h.arrA⟩

/-- only the program counter, the registers and the stacks differ -/
theorem Rel.same {W : World} {sc : Scope} {pre below : List CtxState} {s : St} {σ τ : Vm} (h : Rel W sc pre below s σ)
    (hc : τ.ctx = σ.ctx) (ho : τ.out = σ.out) (hd : τ.data = σ.data) (hi : τ.dataIdx = σ.dataIdx)
    (hq : τ.queue = σ.queue) (hf : τ.funRes = σ.funRes)
    (hcg : τ.glob = σ.glob := by rfl) (hcs : τ.statics = σ.statics := by rfl) (hA : τ.arrA = σ.arrA := by rfl) :
    Rel W sc pre below s τ :=
  h.congr hc rfl (by rw [ho, h.out]) (by rw [hd, h.data]) (by rw [hi, h.dataIdx]) (by rw [hq, h.queue])
    (by rw [hf, h.funRes]) rfl rfl rfl hcg hcs rfl hA

theorem Rel.advance {W : World} {sc : Scope} {pre below : List CtxState} {s : St} {σ : Vm} (h : Rel W sc pre below s σ) :
    Rel W sc pre below s (advance σ) := h.same rfl rfl rfl rfl rfl rfl

theorem Rel.setPc {W : World} {sc : Scope} {pre below : List CtxState} {s : St} {σ : Vm} (h : Rel W sc pre below s σ) (a : Nat) :
    Rel W sc pre below s { σ with pc := a } := h.same rfl rfl rfl rfl rfl rfl

theorem Rel.setA {W : World} {sc : Scope} {pre below : List CtxState} {s : St} {σ : Vm} (h : Rel W sc pre below s σ) (v : Val) :
    Rel W sc pre below s (setA σ v) := h.same rfl rfl rfl rfl rfl rfl

theorem Rel.curVars {W : World} {sc : Scope} {pre below : List CtxState} {s : St} {σ : Vm} (h : Rel W sc pre below s σ) :
    ∃ fr, σ.curFrame = some fr ∧ FrameRel sc fr s.locals := by
  obtain ⟨b, _, h2, h3, _, _⟩ := h.ctx
  exact ⟨b.vars, h2, h3⟩

/-- a scope that has arrays is an ordinary one -/
theorem Rel.self_none_of_arr {W : World} {sc : Scope} {pre below : List CtxState} {s : St} {σ : Vm}
    (h : Rel W sc pre below s σ) {a : Nat} {t : Ty} (ha : sc.slots.arrs[a]? = some t) : sc.self = none := by
  cases hs : sc.self with
  | none => rfl
  | some f =>
    obtain ⟨d, _, _, _, h4⟩ := h.scok f hs
    rw [h4] at ha; simp at ha

/-- in a scope with arrays the current block is an ordinary block whose arrays represent the arrays of the activation -/
theorem Rel.curBlock {W : World} {sc : Scope} {pre below : List CtxState} {s : St} {σ : Vm}
    (h : Rel W sc pre below s σ) (hs : sc.self = none) :
    ∃ b : Block, σ.ctx = pre ++ .frame b :: below ∧ Vm.curBlock σ.ctx = some b ∧ FrameRel sc b.vars s.locals ∧
      ArrsRel sc.slots.arrs s.arrs b.arrs ∧ b.apaths = sc.ap := by
  obtain ⟨b, h1, _, h3, h4, h5⟩ := h.ctx
  have htop : topState sc b = .frame b := by simp [topState, hs]
  rw [htop] at h1
  exact ⟨b, h1, by rw [h1]; exact curBlock_pre h.coll b below, h3, h4, h5⟩

/-- the type of a shared reference is its entry in the program's table of DIM SHARED variables -/
theorem Rel.gslot {W : World} {sc : Scope} {pre below : List CtxState} {s : St} {σ : Vm} (h : Rel W sc pre below s σ)
    {x : Var} {t : Ty} (hx : sc.slots.get? x = some t) (hsh : x.shared = true) : W.P.gslots[x.slot]? = some t := by
  rw [← h.gl]
  simpa [SlotTabs.get?, hsh] using hx

theorem lslot {sc : Scope} {x : Var} {t : Ty} (hx : sc.slots.get? x = some t) (hsh : x.shared = false) :
    sc.slots.loc[x.slot]? = some t := by
  simpa [SlotTabs.get?, hsh] using hx

/-- reading a variable: the VM finds the value the reference semantics reads -/
theorem Rel.getV {W : World} {sc : Scope} {pre below : List CtxState} {s : St} {σ : Vm} (h : Rel W sc pre below s σ)
    {x : Var} {t : Ty} (hx : sc.slots.get? x = some t) : σ.getV x t = some (s.get x t) := by
  unfold Vm.getV ProcArr.Ref.St.get
  cases hsh : x.shared with
  | true =>
    simp only [if_true]
    rw [h.glob x.slot t (h.gslot hx hsh)]
  | false =>
    obtain ⟨fr, h2, h3⟩ := h.curVars
    simp only [Bool.false_eq_true, if_false, h2]
    rw [h3.get x.slot t (lslot hx hsh)]

/-- a variable holds a value of its declared type -/
theorem Rel.get_tag {W : World} {sc : Scope} {pre below : List CtxState} {s : St} {σ : Vm} (h : Rel W sc pre below s σ)
    {x : Var} {t : Ty} (hx : sc.slots.get? x = some t) : (s.get x t).tag = t := by
  unfold ProcArr.Ref.St.get
  cases hsh : x.shared with
  | true =>
    simp only [if_true]
    exact RbThm.C01Sim.SimRead.typed_getD_tag h.gtyped (h.gslot hx hsh) _
  | false =>
    simp only [Bool.false_eq_true, if_false]
    exact RbThm.C01Sim.SimRead.typed_getD_tag h.typed (lslot hx hsh) _

theorem list_set_getD_self (l : List Val) (i : Nat) (d : Val) (h : i < l.length) : l.set i (l.getD i d) = l := by
  have : l.getD i d = l[i] := by simp [List.getD, List.getElem?_eq_getElem h]
  rw [this, List.set_getElem_self]

/-- writing back the value a variable already has changes nothing -/
theorem set_get_self {W : World} {sc : Scope} {pre below : List CtxState} {s : St} {σ : Vm} (h : Rel W sc pre below s σ)
    {x : Var} {t : Ty} (hx : sc.slots.get? x = some t) : s.set x (s.get x t) = s := by
  unfold ProcArr.Ref.St.set ProcArr.Ref.St.get
  cases hsh : x.shared with
  | true =>
    simp only [if_true]
    rw [list_set_getD_self _ _ _ (h.gtyped.lt (h.gslot hx hsh))]
  | false =>
    simp only [Bool.false_eq_true, if_false]
    have hlt := h.typed.lt (lslot hx hsh)
    unfold ProcArr.Ref.St.setLocal
    unfold ProcArr.Ref.St.locals at hlt ⊢
    cases hs : s.self with
    | none =>
      simp only [hs] at hlt ⊢
      rw [list_set_getD_self _ _ _ hlt]
      cases s; simp only at hs; subst hs; rfl
    | some f =>
      simp only [hs] at hlt ⊢
      have : (fun g => if g = f then (s.statics f).set x.slot ((s.statics f).getD x.slot (zeroOf t)) else s.statics g)
          = s.statics := by
        funext g
        by_cases hg : g = f
        · subst hg; simp only [if_true]; exact list_set_getD_self _ _ _ hlt
        · simp only [hg, if_false]
      rw [this]
      cases s; simp only at hs; subst hs; rfl

/-- storing a value of the slot's type into a variable (of the current activation, or a DIM SHARED one) -/
theorem Rel.store {W : World} {sc : Scope} {pre below : List CtxState} {s : St} {σ τ : Vm} (h : Rel W sc pre below s σ)
    {x : Var} {t : Ty} {v : Val} (hx : sc.slots.get? x = some t) (hv : v.tag = t)
    (hc : τ.ctx = (σ.setV x v).ctx) (ho : τ.out = σ.out) (hd : τ.data = σ.data)
    (hi : τ.dataIdx = σ.dataIdx) (hq : τ.queue = σ.queue) (hf : τ.funRes = σ.funRes)
    (hcg : τ.glob = (σ.setV x v).glob := by rfl) (hcs : τ.statics = (σ.setV x v).statics := by rfl)
    (hA : τ.arrA = σ.arrA := by rfl) :
    Rel W sc pre below (s.set x v) τ := by
  obtain ⟨fr, h1, h2, h3, h4, h5⟩ := h.ctx
  have hAA : τ.arrA = none := by rw [hA]; exact h.arrA
  cases hsh : x.shared with
  | true =>
    have hxg := h.gslot hx hsh
    have e1 : s.set x v = { s with glob := s.glob.set x.slot v } := by simp [ProcArr.Ref.St.set, hsh]
    have e2 : σ.setV x v = { σ with glob := setVar σ.glob x.slot v } := by simp [Vm.setV, hsh]
    rw [e2] at hc hcg hcs
    rw [e1]
    exact ⟨h.coll, h.self, ⟨fr, by rw [hc, h1], by rw [curFrame_congr hc hcs]; exact h2, h3, h4, h5⟩, h.typed, h.gl, h.st,
      by rw [hcg]; exact TabRel.set h.glob hxg h.gtyped.1 v, RbThm.C01Sim.SimRead.typed_set h.gtyped hxg hv,
      by rw [hcs]; exact h.stat, h.scok, by rw [ho, h.out], by rw [hd, h.data], by rw [hi, h.dataIdx],
      by rw [hq, h.queue], by rw [hf, h.funRes], hAA⟩
  | false =>
    have hxl := lslot hx hsh
    cases hself : sc.self with
    | none =>
      have hs0 : s.self = none := by rw [h.self, hself]
      have hloc : s.locals = s.env := by simp [ProcArr.Ref.St.locals, hs0]
      have e1 : s.set x v = { s with env := s.env.set x.slot v } := by
        simp [ProcArr.Ref.St.set, hsh, ProcArr.Ref.St.setLocal, hs0]
      have htop : topState sc fr = .frame fr := by simp [topState, hself]
      rw [htop] at h1
      have e2 : σ.setV x v = { σ with ctx := pre ++ .frame { fr with vars := setVar fr.vars x.slot v } :: below } := by
        simp only [Vm.setV, hsh, Bool.false_eq_true, if_false, Vm.setLocal, h1, curStatic_pre h.coll]
        rw [modCur_pre _ h.coll]
      rw [e2] at hc hcg hcs
      rw [e1]
      have hl' : ({ s with env := s.env.set x.slot v } : St).locals = s.env.set x.slot v := by
        simp [ProcArr.Ref.St.locals, hs0]
      rw [hloc] at h3
      refine ⟨h.coll, h.self, ⟨{ fr with vars := setVar fr.vars x.slot v }, by rw [hc, topState, hself], ?_, ?_, h4, h5⟩,
        ?_, h.gl, h.st,
        by rw [hcg]; exact h.glob, h.gtyped, by rw [hcs]; exact h.stat, h.scok, by rw [ho, h.out],
        by rw [hd, h.data], by rw [hi, h.dataIdx], by rw [hq, h.queue], by rw [hf, h.funRes], hAA⟩
      · unfold Vm.curFrame; rw [hc]; exact curVars_pre _ h.coll _ _
      · rw [hl']; exact h3.set hxl (by rw [← hloc]; exact h.typed.1) v
      · rw [hl']; exact RbThm.C01Sim.SimRead.typed_set (by rw [← hloc]; exact h.typed) hxl hv
    | some f =>
      have hs0 : s.self = some f := by rw [h.self, hself]
      have hloc : s.locals = s.statics f := by simp [ProcArr.Ref.St.locals, hs0]
      have e1 : s.set x v =
          { s with statics := fun g => if g = f then (s.statics f).set x.slot v else s.statics g } := by
        simp [ProcArr.Ref.St.set, hsh, ProcArr.Ref.St.setLocal, hs0]
      have htop : topState sc fr = .sframe f := by simp [topState, hself]
      rw [htop] at h1
      have hsf : σ.statics f = some fr.vars := by
        have := h2; unfold Vm.curFrame at this; rw [h1, curVars_pre_s _ h.coll] at this; exact this
      have e2 : σ.setV x v =
          { σ with statics := fun g => if g = f then some (setVar fr.vars x.slot v) else σ.statics g } := by
        simp only [Vm.setV, hsh, Bool.false_eq_true, if_false, Vm.setLocal, h1, curStatic_pre_s h.coll, hsf, Option.map]
      rw [e2] at hc hcg hcs
      rw [e1]
      have hl' : ({ s with statics := fun g => if g = f then (s.statics f).set x.slot v else s.statics g } : St).locals
          = (s.statics f).set x.slot v := by
        simp [ProcArr.Ref.St.locals, hs0]
      rw [hloc] at h3
      have hty : Typed sc.slots.loc ((s.statics f).set x.slot v) :=
        RbThm.C01Sim.SimRead.typed_set (by rw [← hloc]; exact h.typed) hxl hv
      have hfr : FrameRel sc (setVar fr.vars x.slot v) ((s.statics f).set x.slot v) :=
        h3.set hxl (by rw [← hloc]; exact h.typed.1) v
      refine ⟨h.coll, h.self, ⟨{ fr with vars := setVar fr.vars x.slot v }, by rw [hc, h1, topState, hself], ?_, ?_, h4, h5⟩,
        ?_, h.gl, h.st,
        by rw [hcg]; exact h.glob, h.gtyped, ?_, h.scok, by rw [ho, h.out],
        by rw [hd, h.data], by rw [hi, h.dataIdx], by rw [hq, h.queue], by rw [hf, h.funRes], hAA⟩
      · unfold Vm.curFrame; rw [hc, hcs, h1, curVars_pre_s _ h.coll]; simp
      · rw [hl']; exact hfr
      · rw [hl']; exact hty
      · intro g d hd' hst
        rw [hcs]
        by_cases hg : g = f
        · subst hg
          obtain ⟨d0, hd0, _, hsl, _⟩ := h.scok g hself
          have : d = d0 := by rw [hd0] at hd'; exact (Option.some.inj hd').symm
          subst this
          simp only [if_true]
          exact ⟨by rw [← hsl]; exact hty, fun y u hy => by rw [← hsl] at hy; exact hfr.get y u hy⟩
        · simp only [hg, if_false]
          exact h.stat g d hd' hst

/-- an array of the current activation as both sides see it: `none` = its DIM has not run -/
theorem Rel.curArr {W : World} {sc : Scope} {pre below : List CtxState} {s : St} {σ : Vm} (h : Rel W sc pre below s σ)
    {a : Nat} {t : Ty} (ha : sc.slots.arrs[a]? = some t) :
    (s.arrs[a]? = some none ∧ Vm.curArr σ.ctx a = some none) ∨
    ∃ A V, s.arrs[a]? = some (some A) ∧ Vm.curArr σ.ctx a = some (some V) ∧ ArrRel t A V := by
  obtain ⟨b, h1, h2, _, h4, _⟩ := h.curBlock (h.self_none_of_arr ha)
  unfold Vm.curArr
  rw [h2]
  rcases h4.at_ a t ha with ⟨e1, e2⟩ | ⟨A, V, e1, e2, e3⟩
  · exact Or.inl ⟨e1, by simp only [e2]⟩
  · exact Or.inr ⟨A, V, e1, by simp only [e2], e3⟩

/-- (re)dimensioning array `a` of the current activation or storing into one of its elements: the VM replaces the array
of the current block (`modArr`) -/
theorem Rel.storeArr {W : World} {sc : Scope} {pre below : List CtxState} {s : St} {σ τ : Vm} (h : Rel W sc pre below s σ)
    {a : Nat} {t : Ty} {A : RArr} {V : VArr} (ha : sc.slots.arrs[a]? = some t) (hr : ArrRel t A V)
    (hc : τ.ctx = modArr a V σ.ctx) (ho : τ.out = σ.out) (hd : τ.data = σ.data)
    (hi : τ.dataIdx = σ.dataIdx) (hq : τ.queue = σ.queue) (hf : τ.funRes = σ.funRes) (hA : τ.arrA = none)
    (hcg : τ.glob = σ.glob := by rfl) (hcs : τ.statics = σ.statics := by rfl) :
    Rel W sc pre below (s.setArr a A) τ := by
  have hself := h.self_none_of_arr ha
  obtain ⟨b, h1, _, h3, h4, h5⟩ := h.curBlock hself
  have hc' : τ.ctx = pre ++ .frame { b with arrs := setArrSlot b.arrs a V } :: below := by
    rw [hc, h1, modArr_pre a V h.coll]
  refine ⟨h.coll, h.self, ⟨{ b with arrs := setArrSlot b.arrs a V }, by rw [hc', topState, hself], ?_, h3, h4.set ha hr, h5⟩,
    h.typed, h.gl, h.st, by rw [hcg]; exact h.glob, h.gtyped, by rw [hcs]; exact h.stat, h.scok, by rw [ho, h.out]; rfl,
    by rw [hd, h.data]; rfl, by rw [hi, h.dataIdx]; rfl, by rw [hq, h.queue], by rw [hf, h.funRes], hA⟩
  unfold Vm.curFrame; rw [hc']; exact curVars_pre _ h.coll _ _

/-- `s.setElem` on a dimensioned array is `setArr` of the updated array -/
theorem setElem_eq {s : St} {a : Nat} {A : RArr} (hA : s.arrs[a]? = some (some A)) (is : List Int) (v : Val) :
    s.setElem a is v = s.setArr a (A.set is v) := by
  simp only [ProcArr.Ref.St.setElem, hA]


/-- what a construct leaves alone: value stack, path stack, register stack below the current frame of registers,
return addresses and marks, stack trace; and it does not raise the "skip the newline" flag of PRINT (the registers of
the current frame may change: a callee's FOR header writes C and D) -/
structure SameStacks (σ τ : Vm) : Prop where
  vals : τ.vals = σ.vals
  paths : τ.paths = σ.paths
  regStack : τ.regStack = σ.regStack
  rets : τ.rets = σ.rets
  marks : τ.marks = σ.marks
  trace : τ.trace = σ.trace
  skip : σ.skipNewline = false → τ.skipNewline = false

theorem SameStacks.refl (σ : Vm) : SameStacks σ σ := ⟨rfl, rfl, rfl, rfl, rfl, rfl, id⟩

theorem SameStacks.trans {a b c : Vm} (h₁ : SameStacks a b) (h₂ : SameStacks b c) : SameStacks a c :=
  ⟨h₂.vals.trans h₁.vals, h₂.paths.trans h₁.paths, h₂.regStack.trans h₁.regStack, h₂.rets.trans h₁.rets,
    h₂.marks.trans h₁.marks, h₂.trace.trans h₁.trace, fun h => h₂.skip (h₁.skip h)⟩

/-- the states agree on everything `SameStacks` mentions -/
theorem SameStacks.of_eq {σ τ : Vm} (h1 : τ.vals = σ.vals) (h2 : τ.paths = σ.paths) (h3 : τ.regStack = σ.regStack)
    (h4 : τ.rets = σ.rets) (h5 : τ.marks = σ.marks) (h6 : τ.trace = σ.trace) (h7 : τ.skipNewline = σ.skipNewline) :
    SameStacks σ τ := ⟨h1, h2, h3, h4, h5, h6, fun h => by rw [h7]; exact h⟩

/-- the invariant of an activation at FOR depth `fd` and SELECT depth `sd`.  In the main module: between statements
the PRINT flag is down.  In a procedure: since the activation's `PushRet` (whose mark `m` counts the register frames
then present, at least the current one) exactly `fd` register frames were pushed and
`sd` SELECT subjects lie on top of the value stack (what `EXIT SUB / FUNCTION` undoes). -/
structure ActInv (sc : Scope) (fd sd : Nat) (σ : Vm) : Prop where
  quiet : sc.inProc = false → σ.skipNewline = false
  act : sc.inProc = true → ∃ a rets m marks, σ.rets = a :: rets ∧ σ.marks = m :: marks ∧
    σ.regStack.length + 1 = m + fd ∧ 1 ≤ m ∧ sd ≤ σ.vals.length

theorem ActInv.of_same {sc : Scope} {fd sd : Nat} {σ τ : Vm} (h : ActInv sc fd sd σ) (hs : SameStacks σ τ) :
    ActInv sc fd sd τ := by
  refine ⟨fun hp => hs.skip (h.quiet hp), fun hp => ?_⟩
  obtain ⟨a, rets, m, marks, h1, h2, h3, h5, h4⟩ := h.act hp
  exact ⟨a, rets, m, marks, by rw [hs.rets, h1], by rw [hs.marks, h2], by rw [hs.regStack]; exact h3, h5,
    by rw [hs.vals]; exact h4⟩

/-- entering a FOR body: `PushRegisters` -/
theorem ActInv.enterFor {sc : Scope} {fd sd : Nat} {σ τ : Vm} (h : ActInv sc fd sd σ) (r : Regs)
    (hreg : τ.regStack = r :: σ.regStack) (hv : τ.vals = σ.vals) (hrets : τ.rets = σ.rets)
    (hm : τ.marks = σ.marks) (hk : σ.skipNewline = false → τ.skipNewline = false) : ActInv sc (fd + 1) sd τ := by
  refine ⟨fun hp => hk (h.quiet hp), fun hp => ?_⟩
  obtain ⟨a, rets, m, marks, h1, h2, h3, h5, h4⟩ := h.act hp
  exact ⟨a, rets, m, marks, by rw [hrets, h1], by rw [hm, h2], by rw [hreg, List.length_cons]; omega, h5,
    by rw [hv]; exact h4⟩

/-- entering a SELECT CASE: the subject is pushed on the value stack -/
theorem ActInv.enterSelect {sc : Scope} {fd sd : Nat} {σ τ : Vm} (h : ActInv sc fd sd σ) (v : Val)
    (hv : τ.vals = v :: σ.vals) (hreg : τ.regStack = σ.regStack) (hrets : τ.rets = σ.rets)
    (hm : τ.marks = σ.marks) (hk : σ.skipNewline = false → τ.skipNewline = false) : ActInv sc fd (sd + 1) τ := by
  refine ⟨fun hp => hk (h.quiet hp), fun hp => ?_⟩
  obtain ⟨a, rets, m, marks, h1, h2, h3, h5, h4⟩ := h.act hp
  exact ⟨a, rets, m, marks, by rw [hrets, h1], by rw [hm, h2], by rw [hreg]; exact h3, h5,
    by rw [hv, List.length_cons]; omega⟩

/-- `EXIT SUB / FUNCTION` executed at FOR depth `fd` and SELECT depth `sd` from `σ` has led to `τ`: the `fd` register
frames and the `sd` SELECT subjects are gone and the activation's `PopRet` has run (the callee's frame is still on
the context stack: the caller's epilogue pops it) -/
structure ExitedTo (fd sd : Nat) (σ τ : Vm) : Prop where
  ret : ∃ a m, σ.rets = a :: τ.rets ∧ σ.marks = m :: τ.marks ∧ τ.pc = a
  regStack : τ.regStack = σ.regStack.drop fd
  vals : τ.vals = σ.vals.drop sd
  paths : τ.paths = σ.paths
  trace : τ.trace = σ.trace
  skip : σ.skipNewline = false → τ.skipNewline = false

/-- the exit was taken from a state `σ'` reached inside a construct started at `σ` -/
theorem ExitedTo.mono {fd sd fd' sd' : Nat} {σ σ' τ : Vm} (h : ExitedTo fd' sd' σ' τ) (hrets : σ'.rets = σ.rets)
    (hm : σ'.marks = σ.marks) (hreg : σ'.regStack.drop fd' = σ.regStack.drop fd)
    (hv : σ'.vals.drop sd' = σ.vals.drop sd) (hp : σ'.paths = σ.paths) (ht : σ'.trace = σ.trace)
    (hk : σ.skipNewline = false → σ'.skipNewline = false) : ExitedTo fd sd σ τ := by
  obtain ⟨a, m, h1, h2, h3⟩ := h.ret
  exact ⟨⟨a, m, by rw [← hrets, h1], by rw [← hm, h2], h3⟩, by rw [h.regStack, hreg], by rw [h.vals, hv],
    by rw [h.paths, hp], by rw [h.trace, ht], fun hh => h.skip (hk hh)⟩

theorem ExitedTo.of_same {fd sd : Nat} {σ σ' τ : Vm} (h : ExitedTo fd sd σ' τ) (hs : SameStacks σ σ') :
    ExitedTo fd sd σ τ :=
  h.mono hs.rets hs.marks (by rw [hs.regStack]) (by rw [hs.vals]) hs.paths hs.trace hs.skip

/-- out of a FOR body (entered by `PushRegisters` from a state with the stacks of `σ`) -/
theorem ExitedTo.leaveFor {fd sd : Nat} {σ σ' τ : Vm} (h : ExitedTo (fd + 1) sd σ' τ) (r : Regs)
    (hreg : σ'.regStack = r :: σ.regStack) (hv : σ'.vals = σ.vals) (hrets : σ'.rets = σ.rets)
    (hm : σ'.marks = σ.marks) (hp : σ'.paths = σ.paths) (ht : σ'.trace = σ.trace)
    (hk : σ.skipNewline = false → σ'.skipNewline = false) : ExitedTo fd sd σ τ :=
  h.mono hrets hm (by rw [hreg]; rfl) (by rw [hv]) hp ht hk

/-- out of a SELECT CASE (entered by pushing the subject from a state with the stacks of `σ`) -/
theorem ExitedTo.leaveSelect {fd sd : Nat} {σ σ' τ : Vm} (h : ExitedTo fd (sd + 1) σ' τ) (v : Val)
    (hv : σ'.vals = v :: σ.vals) (hreg : σ'.regStack = σ.regStack) (hrets : σ'.rets = σ.rets)
    (hm : σ'.marks = σ.marks) (hp : σ'.paths = σ.paths) (ht : σ'.trace = σ.trace)
    (hk : σ.skipNewline = false → σ'.skipNewline = false) : ExitedTo fd sd σ τ :=
  h.mono hrets hm (by rw [hreg]) (by rw [hv]; rfl) hp ht hk

/-! ### well-formedness -/

mutual
/-- static well-formedness of an expression as the linter establishes it: a variable is a slot of the scope used at the
slot's type; an operator node carries the result type the checker's table gives for the types of its operands (`/` is
followed by a `Cast` to the node's type, so nothing is asked of it); a function call names an existing FUNCTION with
the node's result type and exactly the annotated parameters -/
def EWf (sg : Sigs) (sl : SlotTabs) : ProcArr.Expr → Prop
  | .lit _ _ => True
  | .var x t _ => sl.get? x = some t
  | .un _ e _ => EWf sg sl e
  | .bin op l r t _ => EWf sg sl l ∧ EWf sg sl r ∧ (op = .divide ∨ Gen.NumTables.binType op l.ty r.ty = some t)
  | .paren e _ => EWf sg sl e
  | .callFn f args t _ => sg[f]? = some (some t, args.params) ∧ AWf sg sl (sl.stat.getD f false) args
  -- an element names an array of the scope at its element type and has at least one subscript
  | .elem a idx t _ => sl.arrs[a]? = some t ∧ idx ≠ .nil ∧ IdxWf sg sl idx
/-- subscripts: well formed and numeric -/
def IdxWf (sg : Sigs) (sl : SlotTabs) : Exprs → Prop
  | .nil => True
  | .cons e rest => EWf sg sl e ∧ e.ty ≠ .str ∧ IdxWf sg sl rest
/-- actual arguments: a by-reference actual (a plain variable or an array element) has the parameter's type
(`lint_by_ref_arg`); `cs`: the callee is STATIC — then no actual is an array element -/
def AWf (sg : Sigs) (sl : SlotTabs) (cs : Bool) : Args → Prop
  | .nil => True
  | .cons e _ pt rest => EWf sg sl e ∧ (e.isRef = true → e.ty = pt) ∧ (e.isElem = true → cs = false) ∧ AWf sg sl cs rest
end

/-- the bounds of a DIM: well formed and numeric -/
def DimsWf (sg : Sigs) (sl : SlotTabs) : Dims → Prop
  | .nil => True
  | .cons none hi rest => EWf sg sl hi ∧ hi.ty ≠ .str ∧ DimsWf sg sl rest
  | .cons (some lo) hi rest => EWf sg sl lo ∧ lo.ty ≠ .str ∧ EWf sg sl hi ∧ hi.ty ≠ .str ∧ DimsWf sg sl rest

def ItemsWf (sg : Sigs) (sl : SlotTabs) : List PrintItem → Prop
  | [] => True
  | .expr e :: rest => EWf sg sl e ∧ ItemsWf sg sl rest
  | _ :: rest => ItemsWf sg sl rest

/-- the six relational operators (after `CASE IS` the parser accepts nothing else) -/
def SelRelOp (op : Op) : Prop :=
  op = .less ∨ op = .lessOrEqual ∨ op = .equal ∨ op = .greaterOrEqual ∨ op = .greater ∨ op = .notEqual

def CaseWf (sg : Sigs) (sl : SlotTabs) : CaseExpr → Prop
  | .simple e => EWf sg sl e
  | .is op e => SelRelOp op ∧ EWf sg sl e
  | .range lo hi => EWf sg sl lo ∧ EWf sg sl hi

def CondsWf (sg : Sigs) (sl : SlotTabs) : List CaseExpr → Prop
  | [] => True
  | c :: rest => CaseWf sg sl c ∧ CondsWf sg sl rest

mutual
/-- well-formed statements of a scope: every variable is a declared slot used at its declared type, expressions are
well formed, conditions of IF / WHILE / DO are not strings, a DIM inside a STATIC procedure is the guarded form `sdim`
(and occurs nowhere else), a missing ELSE part is empty, calls name an existing SUB
with exactly the annotated parameters, DATA does not occur (it is hoisted: see the program theorem),
`EXIT SUB / FUNCTION` occurs only in a procedure -/
def Wf (sg : Sigs) (sc : Scope) : SStmt → Prop
  | .skip => True
  | .comment => True
  | .seq a b => Wf sg sc a ∧ Wf sg sc b
  | .dim x t _ => sc.slots.get? x = some t ∧ sc.self = none
  | .sdim x t _ => sc.slots.loc[x]? = some t ∧ sc.self.isSome = true
  | .assign x t e _ => sc.slots.get? x = some t ∧ EWf sg sc.slots e
  | .dimArr a t dims _ => sc.slots.arrs[a]? = some t ∧ dims ≠ .nil ∧ DimsWf sg sc.slots dims ∧ sc.self = none
  | .assignElem a t idx e _ => sc.slots.arrs[a]? = some t ∧ idx ≠ .nil ∧ IdxWf sg sc.slots idx ∧ EWf sg sc.slots e
  | .print items _ => ItemsWf sg sc.slots items
  | .ifBlock c thn elifs hasElse els _ =>
    EWf sg sc.slots c ∧ c.ty ≠ .str ∧ Wf sg sc thn ∧ WfElifs sg sc elifs ∧ Wf sg sc els ∧ (hasElse = false → els = .skip)
  | .while c body _ => EWf sg sc.slots c ∧ c.ty ≠ .str ∧ Wf sg sc body
  | .doLoop c _ _ body _ => EWf sg sc.slots c ∧ c.ty ≠ .str ∧ Wf sg sc body
  | .end_ _ => True
  | .data _ _ => False
  | .read vars _ => ∀ v ∈ vars, sc.slots.get? v.1 = some v.2.1
  | .select e cases hasElse els _ =>
    EWf sg sc.slots e ∧ WfCases sg sc cases ∧ Wf sg sc els ∧ (hasElse = false → els = .skip)
  | .forLoop x t lo hi step body _ =>
    sc.slots.get? x = some t ∧ EWf sg sc.slots lo ∧ EWf sg sc.slots hi ∧ (∀ se, step = some se → EWf sg sc.slots se) ∧
      Wf sg sc body
  | .callSub f args _ => sg[f]? = some (none, args.params) ∧ AWf sg sc.slots (sc.slots.stat.getD f false) args
  | .exitProc _ => sc.inProc = true
def WfElifs (sg : Sigs) (sc : Scope) : ElseIfs → Prop
  | .nil => True
  | .cons c body rest => EWf sg sc.slots c ∧ c.ty ≠ .str ∧ Wf sg sc body ∧ WfElifs sg sc rest
def WfCases (sg : Sigs) (sc : Scope) : SCases → Prop
  | .nil => True
  | .cons conds body rest => conds ≠ [] ∧ CondsWf sg sc.slots conds ∧ Wf sg sc body ∧ WfCases sg sc rest
end

/-- the scope of procedure `f`: its slot table, the table `gl` of DIM SHARED variables, its array table and the STATIC
flags `stat` of all procedures, its parameters, `inProc`, whether its variables are the persistent block of `f`, and the
argument paths `ap` of the activation -/
def procScope (gl : List Ty) (stat : List Bool) (f : Nat) (d : ProcDecl SStmt) (ap : List (Option Path)) : Scope :=
  ⟨⟨d.slots, gl, d.arrs, stat⟩, d.params.length, true, if d.static then some f else none, ap⟩

/-- the parameter types (and the result type of a FUNCTION) are the first entries of the slot table -/
def SlotsOk (d : ProcDecl SStmt) : Prop :=
  (∀ (i : Nat) (pn : String) (pt : Ty), d.params[i]? = some (pn, pt) → d.slots[i]? = some pt) ∧
  (∀ rt : Ty, d.result = some rt → d.slots[d.params.length]? = some rt)

/-- the procedures of the world: the reference program runs their desugared bodies, the code of each lies at its
layout address, the signature table is theirs, and every body is well formed in its own scope -/
structure ProcsOk (W : World) (procs : List (ProcDecl SStmt)) : Prop where
  ref : W.P.procs = procs.map fun d => { d with body := desugar d.body }
  sg : W.sg = sigsOf procs
  at_ : ∀ (f : Nat) (d : ProcDecl SStmt), procs[f]? = some d → CodeAt W.code (W.lay.addr f) (compileProc W.lay (W.lay.addr f) d)
  /-- the layout's STATIC flags are the declarations' -/
  st : ∀ (f : Nat) (d : ProcDecl SStmt), procs[f]? = some d → (W.lay.getD f (0, false)).2 = d.static
  wf : ∀ (f : Nat) (d : ProcDecl SStmt), procs[f]? = some d → SlotsOk d ∧ (d.static = true → d.arrs = []) ∧
    ∀ ap, Wf W.sg (procScope W.P.gslots (procs.map (·.static)) f d ap) d.body

/-! ### specifications -/

/-- an evaluation that does not yield a value: the run ends with the error / at the `Halt`; a well-formed program never
yields `normal` / `exited` here, and never calls a missing procedure -/
def ErrPost (code : Code) (σ : Vm) (s' : St) : Outcome → Prop
  | .error c p => ErrsWith code σ c p s'.out
  | .halted => HaltsWith code σ s'.out
  | .inexact => True
  | .outOfFuel => True
  | .tooBig => True
  | .normal => False
  | .exited => False
  | .illFormed => False

theorem ErrPost.of_steps {code : Code} {σ τ : Vm} {s' : St} {o : Outcome} (h₁ : Steps code σ τ)
    (h₂ : ErrPost code τ s' o) : ErrPost code σ s' o := by
  cases o with
  | error c p => exact ErrsWith.of_steps h₁ h₂
  | halted => exact HaltsWith.of_steps h₁ h₂
  | inexact => trivial
  | outOfFuel => trivial
  | tooBig => trivial
  | normal => exact h₂
  | exited => exact h₂
  | illFormed => exact h₂

/-- code that leaves a value in A: `n` instructions starting at `off`; the value has type `ty` -/
def ExprPost (W : World) (sc : Scope) (pre below : List CtxState) (n : Nat) (ty : Ty) (off : Nat) (σ : Vm) :
    St × Except Outcome Val → Prop
  | (s', .ok v) => ∃ τ, Steps W.code σ τ ∧ τ.pc = off + n ∧ τ.regs.a = v ∧ Rel W sc pre below s' τ ∧ SameStacks σ τ ∧
      v.tag = ty
  | (s', .error o) => ErrPost W.code σ s' o

/-- expressions: the code of `e` puts `Ref.eval e` into A and threads the state exactly as `Ref.eval` does (function
calls included) -/
def ExprIH (W : World) (fuel : Nat) : Prop :=
  ∀ (sc : Scope) (e : ProcArr.Expr) (off : Nat) (pre below : List CtxState) (s : St) (σ : Vm),
    CodeAt W.code off (compileExpr W.lay off e) → σ.pc = off → Rel W sc pre below s σ → EWf W.sg sc.slots e →
    ExprPost W sc pre below (sizeExpr e) e.ty off σ (ProcArr.Ref.eval W.P fuel e s)

/-- subscripts: the array path on top of the path stack is extended by the converted subscripts; register A and every
other stack are as before; the state is threaded (a subscript may call a function) -/
def IdxPost (W : World) (sc : Scope) (pre below : List CtxState) (n off : Nat) (σ : Vm) (a : Nat) (is0 : List Int)
    (rest : List Path) : St × Except Outcome (List Int) → Prop
  | (s', .ok is) => ∃ τ, Steps W.code σ τ ∧ τ.pc = off + n ∧ τ.regs.a = σ.regs.a ∧ Rel W sc pre below s' τ ∧
      SameStacks { σ with paths := .elem a (is0 ++ is) :: rest } τ
  | (s', .error o) => ErrPost W.code σ s' o

/-- subscript lists (`generate_path_instructions`): derived from `IHle` by induction on the list (`Thm/ProcArrSimIdx.lean`) -/
def IdxIH (W : World) (fuel : Nat) : Prop :=
  ∀ (sc : Scope) (idx : Exprs) (off : Nat) (pre below : List CtxState) (s : St) (σ : Vm) (a : Nat) (is0 : List Int)
    (rest : List Path),
    CodeAt W.code off (compileIdx W.lay off idx) → σ.pc = off → Rel W sc pre below s σ → IdxWf W.sg sc.slots idx →
    σ.paths = .elem a is0 :: rest →
    IdxPost W sc pre below (sizeIdx idx) off σ a is0 rest (ProcArr.Ref.evalIdx W.P fuel idx s)

/-- the path an evaluated argument travels with: the element location resolved when the argument was evaluated -/
def locPath : Option Loc → Option Path
  | some (a, is) => some (.elem a is)
  | none => none

/-- the collected argument of an evaluated argument -/
def argEntry (av : Val × Option Loc) : Val × Option Path := (av.1, locPath av.2)

/-- the location an evaluated actual carries: an element actual `a(…)` carries a location in array `a`, which is declared
at the element's type, dimensioned in `s`, with the (non-empty) index tuple inside its box; every other actual carries none -/
def LocOk (sl : SlotTabs) (s : St) : ProcArr.Expr → Option Loc → Prop
  | .elem a _ t _, l => ∃ is A, l = some (a, is) ∧ is ≠ [] ∧ sl.arrs[a]? = some t ∧ s.arrs[a]? = some (some A) ∧
      A.inBounds is = true
  | .lit _ _, l => l = none
  | .var _ _ _, l => l = none
  | .un _ _ _, l => l = none
  | .bin _ _ _ _ _, l => l = none
  | .paren _ _, l => l = none
  | .callFn _ _ _ _, l => l = none

def LocsOk (sl : SlotTabs) (s : St) : Args → List (Val × Option Loc) → Prop
  | .nil, [] => True
  | .cons e _ _ rest, av :: avs => LocOk sl s e av.2 ∧ LocsOk sl s rest avs
  | _, _ => False

/-- argument evaluation: the collecting state on top of `pre` receives the values, each of its parameter's type, an
element actual together with the path `elem a is` of the location it denotes NOW (`PushNamedByRef`) -/
def ArgsPost (W : World) (sc : Scope) (pre below : List CtxState) (vs0 : List (Val × Option Path)) (args : Args) (off : Nat)
    (σ : Vm) : St × Except Outcome (List (Val × Option Loc)) → Prop
  | (s', .ok avs) => ∃ τ, Steps W.code σ τ ∧ τ.pc = off + sizePush args ∧
      Rel W sc (.args (vs0 ++ avs.map argEntry) :: pre) below s' τ ∧ SameStacks σ τ ∧
      avs.map (fun av => av.1.tag) = args.params.map (·.2) ∧ LocsOk sc.slots s' args avs
  | (s', .error o) => ErrPost W.code σ s' o

def ArgsIH (W : World) (fuel : Nat) : Prop :=
  ∀ (sc : Scope) (args : Args) (cs : Bool) (off : Nat) (pre below : List CtxState) (vs0 : List (Val × Option Path)) (s : St)
    (σ : Vm),
    CodeAt W.code off (pushArgs W.lay off args) → σ.pc = off → Rel W sc (.args vs0 :: pre) below s σ →
    AWf W.sg sc.slots cs args →
    ArgsPost W sc pre below vs0 args off σ (ProcArr.Ref.evalArgs W.P fuel args s)

/-- the code of a call of procedure `f` (`generate_sub_call_instructions` / `generate_function_call_instructions`):
`res = some t` for a FUNCTION with result type `t` -/
def callCode (lay : Layout) (off f : Nat) (args : Args) (p : Pos) (res : Option Ty) : Code :=
  [(.beginArgs, p)] ++ pushArgs lay (off + 1) args ++
    [(pushStackInstr lay f, p), (.pushRet (off + 1 + sizePush args + 3), p), (.jump (lay.addr f), p)] ++
    enqueues 0 args ++ (match res with | some t => [(.stashResult args.length t, p)] | none => []) ++
    [(.popStack, p)] ++ writeBacks args ++ (match res with | some _ => [(.unStash, p)] | none => [])

def sizeCall (args : Args) (res : Option Ty) : Nat :=
  1 + sizePush args + 3 + refCount args + (if res.isSome then 1 else 0) + 1 + sizeWb args +
    (if res.isSome then 1 else 0)

theorem callCode_fn (lay : Layout) (off f : Nat) (args : Args) (t : Ty) (p : Pos) :
    compileExpr lay off (.callFn f args t p) = callCode lay off f args p (some t) := by
  simp [compileExpr, callCode, List.append_assoc]

theorem callCode_sub (lay : Layout) (off f : Nat) (args : Args) (p : Pos) :
    compileSubCall lay off f args p = callCode lay off f args p none := by
  simp [compileSubCall, callCode, List.append_assoc]

theorem sizeCall_fn (f : Nat) (args : Args) (t : Ty) (p : Pos) : sizeExpr (.callFn f args t p) = sizeCall args (some t) := by
  simp [sizeExpr, sizeCall] <;> omega

theorem sizeCall_sub (args : Args) : sizeSubCall args = sizeCall args none := by
  simp [sizeSubCall, sizeCall]

/-- a call: for a FUNCTION the result is in A and has the result type -/
def CallPost (W : World) (sc : Scope) (pre below : List CtxState) (n : Nat) (res : Option Ty) (off : Nat) (σ : Vm) :
    St × Except Outcome Val → Prop
  | (s', .ok v) => ∃ τ, Steps W.code σ τ ∧ τ.pc = off + n ∧ Rel W sc pre below s' τ ∧ SameStacks σ τ ∧
      ∀ t, res = some t → τ.regs.a = v ∧ v.tag = t
  | (s', .error o) => ErrPost W.code σ s' o

def CallIH (W : World) (fuel : Nat) : Prop :=
  ∀ (sc : Scope) (f : Nat) (args : Args) (p : Pos) (res : Option Ty) (off : Nat) (pre below : List CtxState) (s : St)
    (σ : Vm),
    CodeAt W.code off (callCode W.lay off f args p res) → σ.pc = off → Rel W sc pre below s σ →
    W.sg[f]? = some (res, args.params) → AWf W.sg sc.slots (sc.slots.stat.getD f false) args →
    CallPost W sc pre below (sizeCall args res) res off σ (ProcArr.Ref.call W.P fuel f args s)

/-- what the code of a statement does, given what the reference semantics says the statement does -/
def StmtPost (W : World) (sc : Scope) (below : List CtxState) (fd sd n off : Nat) (σ : Vm) : St × Outcome → Prop
  | (s', .normal) => ∃ τ, Steps W.code σ τ ∧ τ.pc = off + n ∧ Rel W sc [] below s' τ ∧ SameStacks σ τ
  | (s', .exited) => ∃ τ, Steps W.code σ τ ∧ ExitedTo fd sd σ τ ∧ Rel W sc [] below s' τ
  | (s', .halted) => HaltsWith W.code σ s'.out
  | (s', .error c p) => ErrsWith W.code σ c p s'.out
  | (_, .inexact) => True
  | (_, .outOfFuel) => True
  | (_, .tooBig) => True
  | (_, .illFormed) => False

def StmtIH (W : World) (fuel : Nat) : Prop :=
  ∀ (sc : Scope) (stmt : SStmt) (sfx : String) (fd sd off : Nat) (below : List CtxState) (s : St) (σ : Vm),
    CodeAt W.code off (compileStmt W.lay sfx fd sd off stmt) → σ.pc = off → Rel W sc [] below s σ → Wf W.sg sc stmt →
    ActInv sc fd sd σ →
    StmtPost W sc below fd sd (sizeStmt fd sd stmt) off σ (ProcArr.Ref.exec W.P fuel (desugar stmt) s)

/-- the induction hypothesis at a given amount of fuel: expressions, argument lists, calls and statements -/
structure IH (W : World) (fuel : Nat) : Prop where
  expr : ExprIH W fuel
  args : ArgsIH W fuel
  call : CallIH W fuel
  stmt : StmtIH W fuel

/-- the induction hypothesis at every smaller or equal amount of fuel -/
def IHle (W : World) (fuel : Nat) : Prop := ∀ f, f ≤ fuel → IH W f

theorem IHle.self {W : World} {fuel : Nat} (h : IHle W fuel) : IH W fuel := h fuel (Nat.le_refl _)

theorem IHle.mono {W : World} {fuel f : Nat} (h : IHle W fuel) (hf : f ≤ fuel) : IHle W f :=
  fun g hg => h g (Nat.le_trans hg hf)

/-- an evaluation that ended the run ends the statement the same way -/
theorem StmtPost.of_err {W : World} {sc : Scope} {below : List CtxState} {fd sd n off : Nat} {σ : Vm} {s' : St}
    {o : Outcome} (h : ErrPost W.code σ s' o) : StmtPost W sc below fd sd n off σ (s', o) := by
  cases o with
  | error c p => exact h
  | halted => exact h
  | inexact => trivial
  | outOfFuel => trivial
  | tooBig => trivial
  | normal => exact h.elim
  | exited => exact h.elim
  | illFormed => exact h.elim

/-- the statement's code is reached after some steps that leave the stacks alone -/
theorem StmtPost.of_steps {W : World} {sc : Scope} {below : List CtxState} {fd sd n off : Nat} {σ τ : Vm}
    {r : St × Outcome} (h₁ : Steps W.code σ τ) (hs : SameStacks σ τ)
    (h₂ : StmtPost W sc below fd sd n off τ r) : StmtPost W sc below fd sd n off σ r := by
  obtain ⟨s', o⟩ := r
  cases o with
  | normal =>
    obtain ⟨υ, st, hp, hr, hss⟩ := h₂
    exact ⟨υ, h₁.trans st, hp, hr, hs.trans hss⟩
  | exited =>
    obtain ⟨υ, st, hx, hr⟩ := h₂
    exact ⟨υ, h₁.trans st, hx.of_same hs, hr⟩
  | halted => exact HaltsWith.of_steps h₁ h₂
  | error c p => exact ErrsWith.of_steps h₁ h₂
  | inexact => trivial
  | outOfFuel => trivial
  | tooBig => trivial
  | illFormed => exact h₂

/-- the same specification with the end address written differently -/
theorem StmtPost.addr {W : World} {sc : Scope} {below : List CtxState} {fd sd n off n' off' : Nat} {σ : Vm}
    {r : St × Outcome} (e : off + n = off' + n') (h : StmtPost W sc below fd sd n off σ r) :
    StmtPost W sc below fd sd n' off' σ r := by
  obtain ⟨s', o⟩ := r
  cases o with
  | normal =>
    obtain ⟨υ, st, hp, hr, hss⟩ := h
    exact ⟨υ, st, by rw [hp, e], hr, hss⟩
  | exited => exact h
  | halted => exact h
  | error c p => exact h
  | inexact => trivial
  | outOfFuel => trivial
  | tooBig => trivial
  | illFormed => exact h

/-! ### loads, stores, conversions, conditions -/

/-- the state after `VarPathName x; CopyVarPathToA; PopVarPath` -/
def loadSt (τ : Vm) (v : Val) : Vm := { τ with pc := τ.pc + 3, regs := { τ.regs with a := v } }

/-- reading a variable of the current activation into A: only A and the program counter change -/
theorem var_steps (W : World) (sc : Scope) (pre below : List CtxState) (s : St) (x : Var) (t : Ty) (p : Pos)
    (τ : Vm) (hc : CodeAt W.code τ.pc (loadVar x t p)) (hr : Rel W sc pre below s τ) (hx : sc.slots.get? x = some t) :
    Steps W.code τ (loadSt τ (s.get x t)) := by
  have hgv := hr.getV hx
  have h0 : W.code[τ.pc]? = some (CInstr.varPath x t, p) := hc.head
  have h1 : W.code[τ.pc + 1]? = some (CInstr.copyVarPathToA, p) := hc.tail.head
  have h2 : W.code[τ.pc + 1 + 1]? = some (CInstr.popVarPath, p) := hc.tail.tail.head
  let τ1 : Vm := Vm.advance { τ with paths := Path.var x t :: τ.paths }
  let τ2 : Vm := Vm.advance (Vm.setA τ1 (s.get x t))
  have hgv1 : τ1.getV x t = some (s.get x t) := hgv
  have s1 : Vm.step W.code τ = .next τ1 := by simp only [Vm.step, h0]; rfl
  have s2 : Vm.step W.code τ1 = .next τ2 := by
    have h1' : W.code[τ1.pc]? = some (CInstr.copyVarPathToA, p) := h1
    have hp : τ1.paths = Path.var x t :: τ.paths := rfl
    simp only [Vm.step, h1', hp, hgv1]; rfl
  have s3 : Vm.step W.code τ2 = .next (loadSt τ (s.get x t)) := by
    simp only [Vm.step, τ2, τ1, Vm.advance, Vm.setA, h2, loadSt]
  exact Steps.cons s1 (Steps.cons s2 (Steps.one s3))

theorem Rel.loadSt {W : World} {sc : Scope} {pre below : List CtxState} {s : St} {τ : Vm} (h : Rel W sc pre below s τ) (v : Val) :
    Rel W sc pre below s (loadSt τ v) := h.same rfl rfl rfl rfl rfl rfl

theorem SameStacks.loadSt (τ : Vm) (v : Val) : SameStacks τ (loadSt τ v) := ⟨rfl, rfl, rfl, rfl, rfl, rfl, id⟩

/-- the state after `VarPathName x; CopyAToVarPath` -/
def storeSt (τ : Vm) (x : Var) : Vm :=
  { τ.setV x τ.regs.a with pc := τ.pc + 2 }

/-- a store changes only the variable blocks -/
theorem setV_same (τ : Vm) (x : Var) (v : Val) :
    (τ.setV x v).pc = τ.pc ∧ (τ.setV x v).regs = τ.regs ∧ (τ.setV x v).regStack = τ.regStack ∧
    (τ.setV x v).vals = τ.vals ∧ (τ.setV x v).paths = τ.paths ∧ (τ.setV x v).out = τ.out ∧
    (τ.setV x v).skipNewline = τ.skipNewline ∧ (τ.setV x v).data = τ.data ∧ (τ.setV x v).dataIdx = τ.dataIdx ∧
    (τ.setV x v).queue = τ.queue ∧ (τ.setV x v).funRes = τ.funRes ∧ (τ.setV x v).rets = τ.rets ∧
    (τ.setV x v).marks = τ.marks ∧ (τ.setV x v).trace = τ.trace ∧ (τ.setV x v).arrA = τ.arrA := by
  unfold Vm.setV Vm.setLocal
  cases x.shared <;> simp only [Bool.false_eq_true, if_true, if_false]
  · cases curStatic τ.ctx <;> simp
  · simp

/-- `VarPathName x; CopyAToVarPath`: store A into variable `x` of the current activation; the registers and the
stacks are as they were -/
theorem store_steps (code : Code) (x : Var) (t : Ty) (p : Pos) (τ : Vm) (hc : CodeAt code τ.pc (storeVar x t p)) :
    Steps code τ (storeSt τ x) := by
  have h0 : code[τ.pc]? = some (CInstr.varPath x t, p) := hc.head
  have h1 : code[τ.pc + 1]? = some (CInstr.copyAToVarPath, p) := hc.tail.head
  refine Steps.cons (τ := Vm.advance { τ with paths := Path.var x t :: τ.paths }) ?_ (Steps.one ?_)
  · simp only [Vm.step, h0]
  · simp only [Vm.step, Vm.advance, h1, storeSt]
    unfold Vm.setV Vm.setLocal
    cases x.shared <;> simp only [Bool.false_eq_true, if_true, if_false]
    cases curStatic τ.ctx <;> rfl

theorem Rel.storeSt {W : World} {sc : Scope} {pre below : List CtxState} {s : St} {τ : Vm} (h : Rel W sc pre below s τ) {x : Var}
    {t : Ty} (hx : sc.slots.get? x = some t) (hv : τ.regs.a.tag = t) : Rel W sc pre below (s.set x τ.regs.a) (storeSt τ x) := by
  obtain ⟨_, _, _, _, _, h6, _, h8, h9, h10, h11, _, _, _, h15⟩ := setV_same τ x τ.regs.a
  exact h.store hx hv rfl h6 h8 h9 h10 h11 rfl rfl h15

theorem SameStacks.storeSt (τ : Vm) (x : Var) : SameStacks τ (storeSt τ x) := by
  obtain ⟨_, _, h3, h4, h5, _, h7, _, _, _, _, h12, h13, h14, _⟩ := setV_same τ x τ.regs.a
  exact ⟨h4, h5, h3, h12, h13, h14, fun h => by show (τ.setV x τ.regs.a).skipNewline = false; rw [h7]; exact h⟩

theorem storeSt_pc (τ : Vm) (x : Var) : (storeSt τ x).pc = τ.pc + 2 := rfl

theorem storeSt_regs (τ : Vm) (x : Var) : (storeSt τ x).regs = τ.regs := (setV_same τ x τ.regs.a).2.1

/-- one instruction that rewrites A by a `Res`-valued operation -/
theorem resA_ok {code : Code} {σ : Vm} {p : Pos} {r : Res Val} {w : Val} (hstep : Vm.step code σ = Vm.resA σ p r)
    (h : r = .ok w) : Steps code σ (Vm.advance (Vm.setA σ w)) := by
  subst h; exact Steps.one (by rw [hstep]; rfl)

theorem resA_err {code : Code} {σ : Vm} {p : Pos} {r : Res Val} {e : Err} (hstep : Vm.step code σ = Vm.resA σ p r)
    (h : r = .err e) : ErrsWith code σ (ProcArr.Ref.codeOf e) p σ.out := by
  subst h; exact ⟨σ, σ, Steps.refl _, (by rw [hstep]; rfl), rfl⟩

/-- the optional `Cast t` after an expression whose static type is `ty` (`generate_expression_instructions_casting`,
by-value arguments) -/
theorem cast_tail (W : World) (sc : Scope) (pre below : List CtxState) (s : St) (ty t : Ty) (p : Pos) (τ : Vm)
    (hc : CodeAt W.code τ.pc (if ty = t then [] else [(CInstr.cast t, p)])) (hr : Rel W sc pre below s τ)
    (hv : τ.regs.a.tag = ty) :
    match ProcArr.Ref.liftR s p (storeCast ty t τ.regs.a) with
    | (s', .ok w) => ∃ υ, Steps W.code τ υ ∧ υ.pc = τ.pc + (if ty = t then 0 else 1) ∧ υ.regs.a = w ∧
        Rel W sc pre below s' υ ∧ SameStacks τ υ ∧ w.tag = t
    | (s', .error o) => ErrPost W.code τ s' o := by
  unfold storeCast
  by_cases hty : ty = t
  · simp only [hty, if_true, ProcArr.Ref.liftR, Nat.add_zero]
    exact ⟨τ, Steps.refl τ, rfl, rfl, hr, SameStacks.refl τ, by rw [hv, hty]⟩
  · simp only [hty, if_false] at hc ⊢
    have h0 : W.code[τ.pc]? = some (CInstr.cast t, p) := hc.head
    have hs : Vm.step W.code τ = Vm.resA τ p (cast τ.regs.a t) := by simp only [Vm.step, h0]
    cases hcst : cast τ.regs.a t with
    | ok w =>
      simp only [ProcArr.Ref.liftR]
      exact ⟨_, resA_ok hs hcst, rfl, rfl, (hr.setA w).advance, ⟨rfl, rfl, rfl, rfl, rfl, rfl, id⟩,
        RbThm.C01Sim.SimRead.cast_tag _ _ _ hcst⟩
    | err e =>
      simp only [ProcArr.Ref.liftR, ErrPost]
      rw [← hr.out]; exact resA_err hs hcst
    | inexact => simp only [ProcArr.Ref.liftR, ErrPost]

/-- evaluating an expression and converting it to the type of the receiving location:
`generate_expression_instructions_casting` -/
theorem exprTo_correct (W : World) (fuel : Nat) (hE : ExprIH W fuel) (sc : Scope) (e : ProcArr.Expr) (t : Ty) (off : Nat)
    (pre below : List CtxState) (s : St) (σ : Vm)
    (hc : CodeAt W.code off (compileExprTo W.lay off e t)) (hpc : σ.pc = off) (hr : Rel W sc pre below s σ)
    (hw : EWf W.sg sc.slots e) :
    ExprPost W sc pre below (sizeExprTo e t) t off σ (ProcArr.Ref.evalTo W.P (fuel + 1) e t s) := by
  simp only [compileExprTo] at hc
  have he := hE sc e off pre below s σ hc.append_left hpc hr hw
  simp only [ProcArr.Ref.evalTo]
  generalize hev : ProcArr.Ref.eval W.P fuel e s = r at he ⊢
  obtain ⟨s1, rv⟩ := r
  cases rv with
  | error o => exact he
  | ok v =>
    obtain ⟨τ, st, hp, ha, hrel, hss, htag⟩ := he
    have hct : CodeAt W.code τ.pc (if e.ty = t then [] else [(CInstr.cast t, e.pos)]) := by
      have := hc.append_right
      rw [len_expr] at this
      rw [hp]; exact this
    have := cast_tail W sc pre below s1 e.ty t e.pos τ hct hrel (by rw [ha]; exact htag)
    rw [ha] at this
    simp only
    generalize hl : ProcArr.Ref.liftR s1 e.pos (storeCast e.ty t v) = r2 at this ⊢
    obtain ⟨s2, rv2⟩ := r2
    cases rv2 with
    | error o => exact ErrPost.of_steps st this
    | ok w =>
      obtain ⟨υ, st2, hp2, ha2, hrel2, hss2, htag2⟩ := this
      exact ⟨υ, st.trans st2, by rw [hp2, hp]; simp only [sizeExprTo]; omega, ha2, hrel2, hss.trans hss2, htag2⟩

/-- a condition followed by `JumpIfFalse no`: control arrives at `yes` (true) or `no` (false) -/
def CondPost (W : World) (sc : Scope) (pre below : List CtxState) (yes no : Nat) (σ : Vm) :
    St × Except Outcome Bool → Prop
  | (s', .ok true) => ∃ τ, Steps W.code σ τ ∧ τ.pc = yes ∧ Rel W sc pre below s' τ ∧ SameStacks σ τ
  | (s', .ok false) => ∃ τ, Steps W.code σ τ ∧ τ.pc = no ∧ Rel W sc pre below s' τ ∧ SameStacks σ τ
  | (s', .error o) => ErrPost W.code σ s' o

theorem truthy_of_tag {v : Val} (h : v.tag ≠ .str) : ∃ b, ProcArr.Ref.truthy v = some b := by
  cases v with
  | int i => exact ⟨_, rfl⟩
  | long i => exact ⟨_, rfl⟩
  | sgl q => exact ⟨_, rfl⟩
  | dbl q => exact ⟨_, rfl⟩
  | str l => exact absurd rfl h

/-- `<cond>; JumpIfFalse target` -/
theorem cond_correct (W : World) (fuel : Nat) (hE : ExprIH W fuel) (sc : Scope) (c : ProcArr.Expr) (target : Nat) (p : Pos)
    (off : Nat) (pre below : List CtxState) (s : St) (σ : Vm)
    (hc : CodeAt W.code off (compileExpr W.lay off c ++ [(CInstr.jumpIfFalse target, p)])) (hpc : σ.pc = off)
    (hr : Rel W sc pre below s σ) (hw : EWf W.sg sc.slots c) (hn : c.ty ≠ .str) :
    CondPost W sc pre below (off + sizeExpr c + 1) target σ (ProcArr.Ref.evalCond W.P (fuel + 1) c s) := by
  have he := hE sc c off pre below s σ hc.append_left hpc hr hw
  have hj : W.code[off + sizeExpr c]? = some (CInstr.jumpIfFalse target, p) := by
    have := hc.append_right.head
    rwa [len_expr] at this
  simp only [ProcArr.Ref.evalCond]
  generalize hev : ProcArr.Ref.eval W.P fuel c s = r at he ⊢
  obtain ⟨s1, rv⟩ := r
  cases rv with
  | error o => exact he
  | ok v =>
    obtain ⟨τ, st, hp, ha, hrel, hss, htag⟩ := he
    obtain ⟨b, hb⟩ := truthy_of_tag (v := v) (by rw [htag]; exact hn)
    have hj' : W.code[τ.pc]? = some (CInstr.jumpIfFalse target, p) := by rw [hp]; exact hj
    simp only [hb]
    cases b with
    | true =>
      refine ⟨Vm.advance τ, st.trans (Steps.one ?_), by simp [Vm.advance, hp], hrel.advance,
        hss.trans ⟨rfl, rfl, rfl, rfl, rfl, rfl, id⟩⟩
      simp only [Vm.step, hj', ha, hb]
    | false =>
      refine ⟨{ τ with pc := target }, st.trans (Steps.one ?_), rfl, hrel.setPc target,
        hss.trans ⟨rfl, rfl, rfl, rfl, rfl, rfl, id⟩⟩
      simp only [Vm.step, hj', ha, hb]

/-- `exprTo_correct` at any amount of fuel, from the hypothesis at all smaller amounts -/
theorem exprTo_correct' (W : World) (fuel : Nat) (ih : IHle W fuel) (sc : Scope) (e : ProcArr.Expr) (t : Ty) (off : Nat)
    (pre below : List CtxState) (s : St) (σ : Vm)
    (hc : CodeAt W.code off (compileExprTo W.lay off e t)) (hpc : σ.pc = off) (hr : Rel W sc pre below s σ)
    (hw : EWf W.sg sc.slots e) :
    ExprPost W sc pre below (sizeExprTo e t) t off σ (ProcArr.Ref.evalTo W.P fuel e t s) := by
  cases fuel with
  | zero => simp only [ProcArr.Ref.evalTo, ExprPost, ErrPost]
  | succ n => exact exprTo_correct W n (ih n (Nat.le_succ n)).expr sc e t off pre below s σ hc hpc hr hw

/-- `cond_correct` at any amount of fuel, from the hypothesis at all smaller amounts -/
theorem cond_correct' (W : World) (fuel : Nat) (ih : IHle W fuel) (sc : Scope) (c : ProcArr.Expr) (target : Nat) (p : Pos)
    (off : Nat) (pre below : List CtxState) (s : St) (σ : Vm)
    (hc : CodeAt W.code off (compileExpr W.lay off c ++ [(CInstr.jumpIfFalse target, p)])) (hpc : σ.pc = off)
    (hr : Rel W sc pre below s σ) (hw : EWf W.sg sc.slots c) (hn : c.ty ≠ .str) :
    CondPost W sc pre below (off + sizeExpr c + 1) target σ (ProcArr.Ref.evalCond W.P fuel c s) := by
  cases fuel with
  | zero => simp only [ProcArr.Ref.evalCond, CondPost, ErrPost]
  | succ n => exact cond_correct W n (ih n (Nat.le_succ n)).expr sc c target p off pre below s σ hc hpc hr hw hn

/-- with no fuel every specification holds (the reference semantics says `outOfFuel`) -/
theorem ih_zero (W : World) : IH W 0 := by
  refine ⟨?_, ?_, ?_, ?_⟩
  · intro sc e off pre below s σ _ _ _ _; simp only [ProcArr.Ref.eval, ExprPost, ErrPost]
  · intro sc args cs off pre below vs0 s σ _ _ _ _; simp only [ProcArr.Ref.evalArgs, ArgsPost, ErrPost]
  · intro sc f args p res off pre below s σ _ _ _ _ _; simp only [ProcArr.Ref.call, CallPost, ErrPost]
  · intro sc stmt sfx fd sd off below s σ _ _ _ _ _; simp only [ProcArr.Ref.exec, StmtPost]

/-! ### whole programs: the static premise (proved from `progWfB` in `Thm/ProcArrWf.lean`, used in `Thm/ProcArrSimProg.lean`) -/

/-- the body of the main module: DATA statements may occur only at top level (where the generator hoists them from);
everything else is well formed -/
def WfTop (sg : Sigs) (sc : Scope) : SStmt → Prop
  | .seq a b => WfTop sg sc a ∧ WfTop sg sc b
  | .data _ _ => True
  | st => Wf sg sc st

/-- the STATIC flags of the procedures of a program -/
def statOf (prog : SProgram) : List Bool := prog.procs.map (·.static)

/-- the scope of the main module: no parameters, not a procedure, no argument paths -/
def mainScope (prog : SProgram) : Scope := ⟨⟨prog.slots, prog.gslots, prog.arrs, statOf prog⟩, 0, false, none, []⟩

/-- the static premise of the program theorem -/
structure ProgWf (prog : SProgram) : Prop where
  body : WfTop (sigsOf prog.procs) (mainScope prog) prog.body
  procs : ∀ (f : Nat) (d : ProcDecl SStmt), prog.procs[f]? = some d →
    SlotsOk d ∧ (d.static = true → d.arrs = []) ∧
      ∀ ap, Wf (sigsOf prog.procs) (procScope prog.gslots (statOf prog) f d ap) d.body

/-- the world of a program: its reference program, its code, its layout, its signatures -/
def world (prog : SProgram) : World := ⟨prog.toAst, compile prog, layout prog, sigsOf prog.procs⟩

end RbThm.ProcArrSim
