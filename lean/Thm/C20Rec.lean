import RbModel.PcRec
import Thm.C20Fuel
/-!
C20 — recursive grammars through `lazy` (`RbModel.PcRec`): grammar tables, `GExpr.ref i` = `lazy(|| g_i())`,
interpreter `runG` with a descent fuel.

* `runG_mono` — **every** table, **every** fuel, every expression: no outcome moves the input backwards or past its
  end (a run that has not ended, `hang`, constrains nothing);
* `runG_wb` — over tables and expressions whose context-free parts are well-behaved (`gLeavesWB`), a soft failure
  leaves the input where it started, at every fuel;
* `runG_fuel_mono` / `runG_fuel_stable` — an answer other than `hang` is the answer at every larger fuel (so the
  answer the driver computes at its finite fuel is the answer of the unbounded recursion whenever it is not `hang`);
* `leftRec_hangs` — a set of expressions closed under "the sub-parser that is tried first, at the same position"
  (`first`) never answers: `hang` at every fuel, from every position, on every input.  `leftRec_example`: the table
  `A ::= A a`; `rightRec_example`: `A ::= a A | ε` answers.
-/
namespace RbThm.C20Rec
open RbModel.Pc RbModel.PcRec RbThm.C20

/-! ## 1. The backtracking contract for grammar tables -/

theorem hang_wb (len : Nat) : WB len (fun _ => Res.hang) := by
  constructor <;> intro pos x q _ h <;> simp at h

/-- **`runG_mono`.**  For every grammar table, every descent fuel and every expression: whatever the outcome, the
position never moves backwards and never passes the end of the input. -/
theorem runG_mono (tbl : List GExpr) (inp : List Nat) : ∀ (f : Nat) (e : GExpr), Mono inp.length (runG tbl inp f e) := by
  intro f
  induction f with
  | zero => intro e; exact (hang_wb _).mono
  | succ n ih =>
    intro e
    cases e with
    | lift e => exact run_mono inp e
    | ref i =>
      simp only [runG]
      cases tbl[i]? with
      | none => exact (hang_wb _).mono
      | some e => exact ih e
    | and c l r => exact andP_mono (ih l) (ih r)
    | or2 a b => exact orBoxP_mono _ _ (ih a) (mem1 (ih b))
    | orNoBox l r => exact orNoBoxP_mono (ih l) (ih r)
    | seq2 a b => exact seqP_mono (ih a) (mem1 (ih b))
    | seq3 a b c => exact seqP_mono (ih a) (mem2 (ih b) (ih c))
    | many an e => exact manyP_mono (ih e)
    | surround md l m r => exact surroundP_mono (ih l) (ih m) (ih r)
    | delimited am te e d => exact delimitedP_mono (ih e) (ih d)
    | map g e => exact mapP_mono (ih e)
    | toOption e => exact toOptionP_mono (ih e)

/-- the context-free parts are built from well-behaved leaves and mappers (`RbThm.C20.leavesWB`) -/
def gLeavesWB : GExpr → Bool
  | .lift e => leavesWB e
  | .ref _ => true
  | .and _ l r | .or2 l r | .orNoBox l r | .seq2 l r | .delimited _ _ l r => gLeavesWB l && gLeavesWB r
  | .seq3 a b c | .surround _ a b c => gLeavesWB a && gLeavesWB b && gLeavesWB c
  | .many _ e | .map _ e | .toOption e => gLeavesWB e

/-- **`runG_wb`.**  If every entry of the table and the start expression are built over well-behaved context-free
parts, then at every descent fuel the parser is well-behaved: a soft failure leaves the input where it started, a
success or a fatal error never moves it backwards. -/
theorem runG_wb (tbl : List GExpr) (inp : List Nat) (ht : ∀ e ∈ tbl, gLeavesWB e = true) :
    ∀ (f : Nat) (e : GExpr), gLeavesWB e = true → WB inp.length (runG tbl inp f e) := by
  intro f
  induction f with
  | zero => intro e _; exact hang_wb _
  | succ n ih =>
    intro e h
    cases e with
    | lift e => exact run_wb inp e h
    | ref i =>
      simp only [runG]
      cases hi : tbl[i]? with
      | none => exact hang_wb _
      | some e => exact ih e (ht e (List.mem_of_getElem? hi))
    | and c l r => simp [gLeavesWB] at h; exact andP_wb (ih l h.1) (ih r h.2)
    | or2 a b => simp [gLeavesWB] at h; exact orBoxP_wb _ _ (ih a h.1) (mem1 (ih b h.2))
    | orNoBox l r => simp [gLeavesWB] at h; exact orNoBoxP_wb (ih l h.1) (ih r h.2)
    | seq2 a b => simp [gLeavesWB] at h; exact seqP_wb (ih a h.1) (mem1 (ih b h.2))
    | seq3 a b c => simp [gLeavesWB] at h; exact seqP_wb (ih a h.1.1) (mem2 (ih b h.1.2) (ih c h.2))
    | many an e => simp [gLeavesWB] at h; exact manyP_wb (ih e h)
    | surround md l m r => simp [gLeavesWB] at h; exact surroundP_wb (ih l h.1.1) (ih m h.1.2) (ih r h.2)
    | delimited am te e d => simp [gLeavesWB] at h; exact delimitedP_wb (ih e h.1) (ih d h.2)
    | map g e => simp [gLeavesWB] at h; exact mapP_wb (ih e h)
    | toOption e => simp [gLeavesWB] at h; exact toOptionP_wb (ih e h)

/-- the contract at the level of one run that ended -/
theorem runG_soft_restores (tbl : List GExpr) (inp : List Nat) (ht : ∀ e ∈ tbl, gLeavesWB e = true) (f : Nat)
    (e : GExpr) (he : gLeavesWB e = true) (pos : Nat) (hpos : pos ≤ inp.length) (c q : Nat)
    (h : runG tbl inp f e pos = .soft c q) : q = pos :=
  (runG_wb tbl inp ht f e he).soft pos c q hpos h

/-! ## 2. More descent fuel only turns `hang` into an answer -/

theorem hang_le (p : P) : PLe (fun _ => Res.hang) p := fun _ => .inl rfl

theorem runG_le (tbl : List GExpr) (inp : List Nat) : ∀ (f f' : Nat), f ≤ f' → ∀ e : GExpr,
    PLe (runG tbl inp f e) (runG tbl inp f' e) := by
  intro f
  induction f with
  | zero => intro f' _ e; exact hang_le _
  | succ n ih =>
    intro f' hf e
    obtain ⟨m, rfl⟩ : ∃ m, f' = m + 1 := ⟨f' - 1, by omega⟩
    have ih' := ih m (by omega)
    cases e with
    | lift e => exact PLe.refl _
    | ref i =>
      simp only [runG]
      cases tbl[i]? with
      | none => exact PLe.refl _
      | some e => exact ih' e
    | and c l r => exact andP_le (ih' l) (ih' r)
    | or2 a b => exact orBoxP_le _ _ _ _ (ih' a) ⟨ih' b, trivial⟩
    | orNoBox l r => exact orNoBoxP_le (ih' l) (ih' r)
    | seq2 a b => exact seqP_le (ih' a) ⟨ih' b, trivial⟩
    | seq3 a b c => exact seqP_le (ih' a) ⟨ih' b, ih' c, trivial⟩
    | many an e => simp only [runG, manyP_eq]; exact manyPF_le (ih' e) (Nat.le_refl _)
    | surround md l m r => exact surroundP_le (ih' l) (ih' m) (ih' r)
    | delimited am te e d => simp only [runG, delimitedP_eq]; exact delimitedPF_le (ih' e) (ih' d) (Nat.le_refl _)
    | map g e => exact mapP_le (ih' e)
    | toOption e => exact toOptionP_le (ih' e)

/-- **`runG_fuel_mono`.**  An answer other than `hang` is the answer at every larger descent fuel. -/
theorem runG_fuel_mono (tbl : List GExpr) (inp : List Nat) (e : GExpr) (pos : Nat) {f f' : Nat} (hf : f ≤ f')
    (h : runG tbl inp f e pos ≠ .hang) : runG tbl inp f' e pos = runG tbl inp f e pos := by
  rcases runG_le tbl inp f f' hf e pos with h1 | h1
  · exact absurd h1 h
  · exact h1.symm

/-- two fuels at which the run ends give the same answer: the answer of the unbounded recursion is well defined -/
theorem runG_fuel_stable (tbl : List GExpr) (inp : List Nat) (e : GExpr) (pos : Nat) (f f' : Nat)
    (h : runG tbl inp f e pos ≠ .hang) (h' : runG tbl inp f' e pos ≠ .hang) :
    runG tbl inp f e pos = runG tbl inp f' e pos := by
  by_cases hf : f ≤ f'
  · exact (runG_fuel_mono tbl inp e pos hf h).symm
  · exact runG_fuel_mono tbl inp e pos (by omega) h'

/-- `ref` is one unfolding of the table, `lift` the base model -/
theorem runG_ref (tbl : List GExpr) (inp : List Nat) (f i : Nat) (e : GExpr) (h : tbl[i]? = some e) :
    runG tbl inp (f + 1) (.ref i) = runG tbl inp f e := by
  simp only [runG, h]

theorem runG_lift (tbl : List GExpr) (inp : List Nat) (f : Nat) (e : PExpr) : runG tbl inp (f + 1) (.lift e) = run e inp :=
  rfl

/-! ## 3. Left recursion never answers -/

/-- the sub-parser every `parse` method calls first, unconditionally and at the start position -/
def first (tbl : List GExpr) : GExpr → Option GExpr
  | .lift _ => none
  | .ref i => tbl[i]?
  | .and _ l _ | .or2 l _ | .orNoBox l _ | .seq2 l _ | .seq3 l _ _ | .surround _ l _ _ | .delimited _ _ l _ => some l
  | .many _ e | .map _ e | .toOption e => some e

/-- if the sub-parser called first does not answer, neither does the parser -/
theorem first_hang (tbl : List GExpr) (inp : List Nat) (f : Nat) (e s : GExpr) (pos : Nat) (hs : first tbl e = some s)
    (h : runG tbl inp f s pos = .hang) : runG tbl inp (f + 1) e pos = .hang := by
  cases e with
  | lift e => simp [first] at hs
  | ref i => simp only [first] at hs; simp only [runG, hs, h]
  | and c l r => simp only [first, Option.some.injEq] at hs; subst hs; simp only [runG, andP, h]
  | or2 a b => simp only [first, Option.some.injEq] at hs; subst hs; simp only [runG, orBoxP, h]
  | orNoBox l r => simp only [first, Option.some.injEq] at hs; subst hs; simp only [runG, orNoBoxP, h]
  | seq2 a b => simp only [first, Option.some.injEq] at hs; subst hs; simp only [runG, seqP, h]
  | seq3 a b c => simp only [first, Option.some.injEq] at hs; subst hs; simp only [runG, seqP, h]
  | many an e => simp only [first, Option.some.injEq] at hs; subst hs; simp only [runG, manyP, h]
  | surround md l m r => simp only [first, Option.some.injEq] at hs; subst hs; simp only [runG, surroundP, h]
  | delimited am te e d =>
    simp only [first, Option.some.injEq] at hs; subst hs
    simp only [runG, delimitedP, delimLoop, h]
  | map g e => simp only [first, Option.some.injEq] at hs; subst hs; simp only [runG, mapP, h]
  | toOption e => simp only [first, Option.some.injEq] at hs; subst hs; simp only [runG, toOptionP, h]

/-- … and if it fails fatally, that fatal error — same code, same position — is the parser's result (no constructor
of `GExpr` replaces a fatal error): a fatal error is not downgraded on its way up through `lazy` descents -/
theorem first_fatal (tbl : List GExpr) (inp : List Nat) (f : Nat) (e s : GExpr) (pos c q : Nat)
    (hs : first tbl e = some s) (h : runG tbl inp f s pos = .fatal c q) : runG tbl inp (f + 1) e pos = .fatal c q := by
  cases e with
  | lift e => simp [first] at hs
  | ref i => simp only [first] at hs; simp only [runG, hs, h]
  | and c l r => simp only [first, Option.some.injEq] at hs; subst hs; simp only [runG, andP, h]
  | or2 a b => simp only [first, Option.some.injEq] at hs; subst hs; simp only [runG, orBoxP, h]
  | orNoBox l r => simp only [first, Option.some.injEq] at hs; subst hs; simp only [runG, orNoBoxP, h]
  | seq2 a b => simp only [first, Option.some.injEq] at hs; subst hs; simp only [runG, seqP, h]
  | seq3 a b c => simp only [first, Option.some.injEq] at hs; subst hs; simp only [runG, seqP, h]
  | many an e => simp only [first, Option.some.injEq] at hs; subst hs; simp only [runG, manyP, h]
  | surround md l m r => simp only [first, Option.some.injEq] at hs; subst hs; simp only [runG, surroundP, h]
  | delimited am te e d =>
    simp only [first, Option.some.injEq] at hs; subst hs
    simp only [runG, delimitedP, delimLoop, h]
  | map g e => simp only [first, Option.some.injEq] at hs; subst hs; simp only [runG, mapP, h]
  | toOption e => simp only [first, Option.some.injEq] at hs; subst hs; simp only [runG, toOptionP, h]

/-- `Descends tbl e n s`: `s` is reached from `e` by `n ≥ 1` steps of `first` (through `lazy` references included) -/
inductive Descends (tbl : List GExpr) : GExpr → Nat → GExpr → Prop where
  | one {e s} : first tbl e = some s → Descends tbl e 1 s
  | step {e x s n} : first tbl e = some x → Descends tbl x n s → Descends tbl e (n + 1) s

/-- through any number of descents: a fatal error of `s` is the result of every `e` that reaches `s` by `first` steps -/
theorem descends_fatal (tbl : List GExpr) (inp : List Nat) (pos c q : Nat) {e s : GExpr} {n : Nat}
    (hd : Descends tbl e n s) (f : Nat) (h : runG tbl inp f s pos = .fatal c q) :
    runG tbl inp (f + n) e pos = .fatal c q := by
  induction hd with
  | one hs => exact first_fatal tbl inp f _ _ pos c q hs h
  | step hs _ ih => exact first_fatal tbl inp _ _ _ pos c q hs (ih h)

/-- **`leftRec_hangs`.**  Let `S` be a set of expressions closed under `first` (every member's first sub-parser is a
member: the grammar is left-recursive through `S`).  Then no member ever answers: `hang` at every descent fuel, from
every position, on every input.  (The real parser recurses through `lazy` until the stack overflows.) -/
theorem leftRec_hangs (tbl : List GExpr) (inp : List Nat) (S : GExpr → Prop)
    (hS : ∀ e, S e → ∃ s, first tbl e = some s ∧ S s) :
    ∀ (f : Nat) (e : GExpr), S e → ∀ pos, runG tbl inp f e pos = .hang := by
  intro f
  induction f with
  | zero => intros; rfl
  | succ n ih =>
    intro e he pos
    obtain ⟨s, hs, hss⟩ := hS e he
    exact first_hang tbl inp n e s pos hs (ih s hss pos)

/-- `A ::= A a` -/
def leftTbl : List GExpr := [.and .tuple (.ref 0) (.lift (.one 0))]
/-- `A ::= a A | ε` -/
def rightTbl : List GExpr := [.or2 (.and .tuple (.lift (.one 0)) (.ref 0)) (.lift .pure)]

/-- the left-recursive table never answers, whatever the fuel, the input and the position … -/
theorem leftRec_example (inp : List Nat) (f pos : Nat) : runG leftTbl inp f (.ref 0) pos = .hang :=
  leftRec_hangs leftTbl inp (fun e => e = .ref 0 ∨ e = .and .tuple (.ref 0) (.lift (.one 0)))
    (by
      intro e he
      rcases he with rfl | rfl
      · exact ⟨_, rfl, .inr rfl⟩
      · exact ⟨_, rfl, .inl rfl⟩)
    f (.ref 0) (.inl rfl) pos

/-- … its right-recursive mirror answers (and with more fuel the same, `runG_fuel_mono`) -/
theorem rightRec_example :
    runG rightTbl [0, 0, 1] 10 (.ref 0) 0 = .ok (.pair (.sym 0) (.pair (.sym 0) .unit)) 2 ∧
    runG rightTbl [0, 0, 1] 9 (.ref 0) 0 = .hang := by decide

/-! ## 4. Two recursive grammars (the ones the harness also builds with the real `lazy`) -/

/-- nested parentheses `P ::= '(' P ')' | ε` over `a = (`, `b = )`, with `seq3` (errors after `(` are fatal) -/
def parensTbl : List GExpr :=
  [.or2 (.seq3 (.lift (.one 0)) (.ref 0) (.lift (.one 1))) (.lift .pure)]

/-- `E ::= T ('+' E)?`, `T ::= 'a' | '(' E ')'` over `a`, `b = +`, `c = (`, `d = )`: right-recursive -/
def exprTbl : List GExpr :=
  [.and .tuple (.ref 1) (.toOption (.and .right (.lift (.one 1)) (.ref 0))),
   .or2 (.lift (.one 0)) (.surround true (.lift (.one 2)) (.ref 0) (.lift (.one 3)))]

example : runG parensTbl [0, 0, 1, 1] 12 (.ref 0) 0 =
    .ok (Val.ofList [.sym 0, Val.ofList [.sym 0, .unit, .sym 1], .sym 1]) 4 := by decide
/-- a missing `)` is fatal (the `seq3` rule), at the position where it is missed -/
example : runG parensTbl [0, 0, 1] 12 (.ref 0) 0 = .fatal 0 3 := by decide
/-- `a+(a+a)` -/
example : runG exprTbl [0, 1, 2, 0, 1, 0, 3] 20 (.ref 0) 0 =
    .ok (.pair (.sym 0) (.some (.pair (.pair (.sym 0) (.some (.pair (.sym 0) .none))) .none))) 7 := by decide
/-- `a+` : the soft failure of `E` after `+` undoes the `+` (`and`), the `?` turns it into `None` -/
example : runG exprTbl [0, 1] 20 (.ref 0) 0 = .ok (.pair (.sym 0) .none) 1 := by decide
/-- `(a` : mandatory `surround` makes the missing `)` fatal -/
example : runG exprTbl [2, 0] 20 (.ref 0) 0 = .fatal 0 2 := by decide
/-- `(` then nothing: the fatal error of the mandatory `surround` in `T` is the result of `E` (two descents up) -/
example : runG exprTbl [2] (18 + 2) (.ref 0) 0 = .fatal 0 1 :=
  descends_fatal exprTbl [2] 0 0 1 (e := .ref 0) (s := .ref 1)
    (Descends.step (x := .and .tuple (.ref 1) (.toOption (.and .right (.lift (.one 1)) (.ref 0)))) rfl (Descends.one rfl))
    18 (by decide)
example : ∀ e ∈ exprTbl, gLeavesWB e = true := by decide
example : WB 7 (runG exprTbl [0, 1, 2, 0, 1, 0, 3] 20 (.ref 0)) :=
  runG_wb exprTbl [0, 1, 2, 0, 1, 0, 3] (by decide) 20 (.ref 0) rfl
/-- the driver's fuel is enough for these -/
example : driverFuel exprTbl (.ref 0) 7 = 87 ∧
    runG exprTbl [0, 1, 2, 0, 1, 0, 3] (driverFuel exprTbl (.ref 0) 7) (.ref 0) 0 =
      runG exprTbl [0, 1, 2, 0, 1, 0, 3] 20 (.ref 0) 0 :=
  ⟨by decide, runG_fuel_mono exprTbl _ _ 0 (by decide) (by decide)⟩

end RbThm.C20Rec
