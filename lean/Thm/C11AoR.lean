import Thm.C08AoR
/-!
# C11 (run-time half) for the layer AoR (arrays of records / of fixed-length strings) — the reported position is the prescribed one

`Thm/C11Layers.lean`, `Thm/C11Layers2.lean` and `Thm/C11ProcArr.lean` prove for the other layers that the position
reported with a run-time error is a position carried by a node of the program.  This file does the same for the layer
`RbModel.AoR` (core language + TYPE records with nesting + `STRING * n` + arrays of any declared element type, `a(i…).f.g`
as a value and as an assignment target, LBOUND / UBOUND), from the layer's simulation theorem
(`RbThm.AoRSim.compile_correct_checked`) and an induction over the layer's reference semantics `AoR.Ref`:

* `runtime_error_pos_is_ref_pos` — for a program the layer's premise checker `progWfB` accepts on which the layer's
  reference run finishes, whatever error the VM model stops with, at any step budget, is the reference's: same code, same
  position (`step` is a function).
* `ref_error_pos_within_program` — the position the reference semantics prescribes for an error is a position carried by a
  node of the source tree (`SStmt`).  By induction on fuel over the three mutually recursive functions of `AoR.Ref`
  (`errPos_all`), then through `desugar` (`desugar_posns`: desugaring adds no positions).  No premise: every tree.
* `runtime_error_pos_within_program` — both together.
* `elem_read_error_pos`, `elem_store_error_pos`, `dim_error_pos` — WHICH node, for the array constructs.

Positions `AoR.Ref` uses for the array / record constructs (all carried by a node):
* a subscript that does not convert to INTEGER (Overflow 6, Type mismatch 13): the subscript expression's own position
  (`evalIdx` → `toIndex e.pos`); an error inside a subscript: wherever it arises inside that expression;
* element READ `a(i…).f.g` out of range or with the wrong number of subscripts (9): the ELEMENT EXPRESSION's position
  (`Expr.elem … p`) — not the statement's;
* element STORE `a(i…).f.g = e`: first the right-hand side (an error inside `e` where it arises, the conversion to the
  target's type at the position of `e`), then the subscripts (as above), then Subscript out of range (9) at the
  STATEMENT's position (`assignElem … p`);
* `DIM` / `REDIM`: an error inside a bound expression at its own position; a bound that does not convert to INTEGER and
  `u < l` (9) at the statement's position (`dimArr … p`);
* `LBOUND` / `UBOUND`: a dimension outside `1 … rank` (9) and a dimension argument that does not convert at the call's
  position; an error inside the dimension argument where it arises.

Whether a node's position lies inside the node's *text* is the parser fact `PosNested` (checked by the fault-injection
run, not proved), as for the other layers.
-/

namespace RbThm.C11AoR
set_option linter.unusedVariables false
open RbModel RbModel.Num RbModel.AoR RbModel.AoR.Compile RbModel.AoR.Vm RbModel.AoR.Ref
open RbModel.Ast (Pos)
open RbModel.RecL (ETy FTy FFields expand)
open RbModel.RecL.Ref (ERes lift asScalar conv)

/-! ### positions that occur in a piece of syntax -/

mutual
def exprPosns : AoR.Expr → List Pos
  | .lit _ p => [p]
  | .var _ _ _ p => [p]
  | .un _ e p => p :: exprPosns e
  | .bin _ l r _ p => p :: (exprPosns l ++ exprPosns r)
  | .paren e p => p :: exprPosns e
  | .elem _ idx _ _ p => p :: exprsPosns idx
  | .bound _ _ ap p => [p, ap]
  | .boundD _ _ ap d p => p :: ap :: exprPosns d
def exprsPosns : Exprs → List Pos
  | .nil => []
  | .cons e rest => exprPosns e ++ exprsPosns rest
end

def itemPosns : PrintItem → List Pos
  | .expr e => exprPosns e
  | _ => []

def caseExprPosns : CaseExpr → List Pos
  | .simple e => exprPosns e
  | .is _ e => exprPosns e
  | .range lo hi => exprPosns lo ++ exprPosns hi

def optExprPosns : Option AoR.Expr → List Pos
  | none => []
  | some e => exprPosns e

def dimsPosns : Dims → List Pos
  | .nil => []
  | .cons lo hi rest => optExprPosns lo ++ exprPosns hi ++ dimsPosns rest

mutual
/-- every position that occurs in a statement of the reference syntax -/
def stmtPosns : Stmt → List Pos
  | .skip => []
  | .seq a b => stmtPosns a ++ stmtPosns b
  | .dim _ _ p => [p]
  | .dimArr _ _ dims p => p :: dimsPosns dims
  | .assign _ _ _ e p => p :: exprPosns e
  | .assignElem _ idx _ _ e p => p :: (exprsPosns idx ++ exprPosns e)
  | .print items p => p :: items.flatMap itemPosns
  | .read tg p => [p, tg.pos]
  | .ifs c thn els p => p :: (exprPosns c ++ stmtPosns thn ++ stmtPosns els)
  | .select e cs p => p :: (exprPosns e ++ casesPosns cs)
  | .forLoop _ _ lo hi step body p => p :: (exprPosns lo ++ exprPosns hi ++ optExprPosns step ++ stmtPosns body)
  | .while c body p => p :: (exprPosns c ++ stmtPosns body)
  | .doLoop c _ _ body p => p :: (exprPosns c ++ stmtPosns body)
  | .end_ p => [p]
def casesPosns : Cases → List Pos
  | .nil => []
  | .else_ body => stmtPosns body
  | .case conds body rest => conds.flatMap caseExprPosns ++ stmtPosns body ++ casesPosns rest
end

theorem pos_mem_exprPosns (e : AoR.Expr) : e.pos ∈ exprPosns e := by
  cases e <;> simp [Expr.pos, exprPosns]

/-! ### expressions -/

theorem bind_err {α β : Type} {r : ERes α} {f : α → ERes β} {c : Nat} {p : Pos} (h : r.bind f = .err c p) :
    r = .err c p ∨ ∃ v, r = .ok v ∧ f v = .err c p := by
  cases r with
  | ok v => exact .inr ⟨v, rfl, h⟩
  | err c' p' => exact .inl (by simpa [ERes.bind] using h)
  | inexact => cases h
  | illFormed => cases h

theorem lift_err {q : Pos} {r : Res Val} {c : Nat} {p : Pos} (h : lift q r = .err c p) : p = q := by
  cases r <;> simp [lift] at h; exact h.2.symm

theorem asScalar_err {v : RecL.Ref.RV} {c : Nat} {p : Pos} : asScalar v ≠ .err c p := by
  cases v <;> simp [asScalar]

theorem toIndex_err {q : Pos} {r : Res Val} {c : Nat} {p : Pos} (h : toIndex q r = .err c p) : p = q := by
  unfold toIndex at h
  split at h
  · cases h
  · cases h
  · simp only [ERes.err.injEq] at h; exact h.2.symm
  · cases h

theorem getArr_err {arrs : List (Option RArr)} {a : Nat} {c : Nat} {p : Pos} : getArr arrs a ≠ .err c p := by
  unfold getArr; split <;> simp

theorem boundOf_err {upper : Bool} {A : RArr} {d : Int} {q : Pos} {c : Nat} {p : Pos}
    (h : boundOf upper A d q = .err c p) : p = q := by
  unfold boundOf at h
  split at h
  · simp at h; exact h.2.symm
  · split at h
    · cases h
    · simp at h; exact h.2.symm

/-- what an element expression can fail with: an error of a subscript (inside it, or its conversion to INTEGER at the
subscript's own position), or Subscript out of range at the position of the ELEMENT EXPRESSION -/
theorem elem_err_cases {env : Env} {arrs : List (Option RArr)} {a : Nat} {idx : Exprs} {path : List String} {t : ETy}
    {q : Pos} {c : Nat} {p : Pos} (h : eval env arrs (.elem a idx path t q) = .err c p) :
    evalIdx env arrs idx = .err c p ∨ (c = 9 ∧ p = q) := by
  simp only [eval] at h
  rcases bind_err h with h | ⟨is, _, h⟩
  · exact .inl h
  · rcases bind_err h with h | ⟨A, _, h⟩
    · exact absurd h getArr_err
    · split at h
      · split at h <;> cases h
      · simp only [ERes.err.injEq, codeSubscript] at h; exact .inr ⟨h.1.symm, h.2.symm⟩

mutual
theorem eval_err (env : Env) (arrs : List (Option RArr)) (c : Nat) (p : Pos) :
    ∀ e, eval env arrs e = .err c p → p ∈ exprPosns e
  | .lit _ _, h => by simp [eval] at h
  | .var x path t q, h => by
    simp only [eval] at h
    split at h
    · split at h <;> cases h
    · cases h
  | .un .neg e q, h => by
    simp only [eval] at h
    rcases bind_err h with h | ⟨v, _, h⟩
    · simp [exprPosns, eval_err env arrs c p e h]
    · rcases bind_err h with h | ⟨a, _, h⟩
      · exact absurd h asScalar_err
      · rcases bind_err h with h | ⟨r, _, h⟩
        · simp [exprPosns, lift_err h]
        · cases h
  | .un .not e q, h => by
    simp only [eval] at h
    rcases bind_err h with h | ⟨v, _, h⟩
    · simp [exprPosns, eval_err env arrs c p e h]
    · rcases bind_err h with h | ⟨a, _, h⟩
      · exact absurd h asScalar_err
      · rcases bind_err h with h | ⟨r, _, h⟩
        · simp [exprPosns, lift_err h]
        · cases h
  | .bin op l r t q, h => by
    simp only [eval] at h
    rcases bind_err h with h | ⟨a, _, h⟩
    · simp [exprPosns, eval_err env arrs c p l h]
    · rcases bind_err h with h | ⟨a', _, h⟩
      · exact absurd h asScalar_err
      · rcases bind_err h with h | ⟨b, _, h⟩
        · simp [exprPosns, eval_err env arrs c p r h]
        · rcases bind_err h with h | ⟨b', _, h⟩
          · exact absurd h asScalar_err
          · rcases bind_err h with h | ⟨x, _, h⟩
            · simp [exprPosns, lift_err h]
            · cases h
  | .paren e q, h => by
    simp only [eval] at h
    simp [exprPosns, eval_err env arrs c p e h]
  | .elem a idx path t q, h => by
    rcases elem_err_cases h with h | ⟨_, h⟩
    · simp [exprPosns, evalIdx_err env arrs c p idx h]
    · simp [exprPosns, h]
  | .bound upper a ap q, h => by
    simp only [eval] at h
    rcases bind_err h with h | ⟨A, _, h⟩
    · exact absurd h getArr_err
    · simp [exprPosns, boundOf_err h]
  | .boundD upper a ap d q, h => by
    simp only [eval] at h
    rcases bind_err h with h | ⟨A, _, h⟩
    · exact absurd h getArr_err
    · rcases bind_err h with h | ⟨dv, _, h⟩
      · simp [exprPosns, eval_err env arrs c p d h]
      · rcases bind_err h with h | ⟨dv', _, h⟩
        · exact absurd h asScalar_err
        · rcases bind_err h with h | ⟨k, _, h⟩
          · simp [exprPosns, toIndex_err h]
          · simp [exprPosns, boundOf_err h]
theorem evalIdx_err (env : Env) (arrs : List (Option RArr)) (c : Nat) (p : Pos) :
    ∀ idx, evalIdx env arrs idx = .err c p → p ∈ exprsPosns idx
  | .nil, h => by simp [evalIdx] at h
  | .cons e rest, h => by
    simp only [evalIdx] at h
    rcases bind_err h with h | ⟨v, _, h⟩
    · simp [exprsPosns, eval_err env arrs c p e h]
    · rcases bind_err h with h | ⟨v', _, h⟩
      · exact absurd h asScalar_err
      · rcases bind_err h with h | ⟨i, _, h⟩
        · simp [exprsPosns, toIndex_err h, pos_mem_exprPosns]
        · rcases bind_err h with h | ⟨is, _, h⟩
          · simp [exprsPosns, evalIdx_err env arrs c p rest h]
          · cases h
end

theorem evalS_err {env : Env} {arrs : List (Option RArr)} {e : AoR.Expr} {c : Nat} {p : Pos}
    (h : evalS env arrs e = .err c p) : p ∈ exprPosns e := by
  unfold evalS at h
  rcases bind_err h with h | ⟨v, _, h⟩
  · exact eval_err env arrs c p e h
  · exact absurd h asScalar_err

theorem conv_err {q : Pos} {st tt : ETy} {v : RecL.Ref.RV} {c : Nat} {p : Pos} (h : conv q st tt v = .err c p) :
    p = q := by
  unfold conv at h
  split at h
  · cases h
  · split at h
    · rcases bind_err h with h | ⟨r, _, h⟩
      · exact lift_err h
      · cases h
    · cases h
    · simp only [ERes.err.injEq] at h; exact h.2.symm
    · cases h

/-! ### the pieces of a statement -/

theorem outcomeOf_err {α : Type} {r : ERes α} {c : Nat} {p : Pos} (h : outcomeOf r = .error c p) : r = .err c p := by
  cases r <;> simp [outcomeOf] at h; obtain ⟨rfl, rfl⟩ := h; rfl

/-- the right-hand side of a store fails inside the expression, or in the conversion at the expression's position -/
theorem evalTo_err {env : Env} {arrs : List (Option RArr)} {e : AoR.Expr} {t : ETy} {c : Nat} {p : Pos}
    (h : evalTo env arrs e t = .err c p) : p ∈ exprPosns e := by
  unfold evalTo at h
  rcases bind_err h with h | ⟨v, _, h⟩
  · exact eval_err env arrs c p e h
  · rw [conv_err h]; exact pos_mem_exprPosns e

theorem evalToS_err {env : Env} {arrs : List (Option RArr)} {e : AoR.Expr} {t : Ty} {c : Nat} {p : Pos}
    (h : evalToS env arrs e t = .err c p) : p ∈ exprPosns e := by
  unfold evalToS at h
  rcases bind_err h with h | ⟨v, _, h⟩
  · exact evalTo_err h
  · exact absurd h asScalar_err

theorem evalCond_err {s : St} {e : AoR.Expr} {c : Nat} {p : Pos} (h : evalCond s e = .error (.error c p)) :
    p ∈ exprPosns e := by
  unfold evalCond at h
  split at h
  · split at h
    · cases h
    · simp only [Except.error.injEq, Outcome.error.injEq] at h; rw [← h.2]; exact pos_mem_exprPosns e
  · simp only [Except.error.injEq] at h
    exact evalS_err (outcomeOf_err h)

theorem evalE_err {s : St} {e : AoR.Expr} {c : Nat} {p : Pos} (h : evalE s e = .error (.error c p)) :
    p ∈ exprPosns e := by
  unfold evalE at h
  split at h
  · cases h
  · simp only [Except.error.injEq] at h
    exact evalS_err (outcomeOf_err h)

theorem relTest_err {q : Pos} {op : Op} {a b : Val} {c : Nat} {p : Pos}
    (h : relTest q op a b = .error (.error c p)) : p = q := by
  unfold relTest at h
  split at h
  · cases h
  · simp only [Except.error.injEq, Outcome.error.injEq] at h; exact h.2.symm
  · cases h

theorem stepSign_err {q : Pos} {v : Val} {c : Nat} {p : Pos} (h : stepSign q v = .error (.error c p)) : p = q := by
  unfold stepSign at h
  split at h
  · rename_i o ho; cases h; exact relTest_err ho
  · cases h
  · split at h
    · rename_i o ho; cases h; exact relTest_err ho
    · cases h
    · cases h

theorem caseMatches_err {s : St} {q : Pos} {subj : Val} {ce : CaseExpr} {c : Nat} {p : Pos}
    (h : caseMatches s q subj ce = .error (.error c p)) : p = q ∨ p ∈ caseExprPosns ce := by
  cases ce with
  | simple e =>
    simp only [caseMatches] at h
    split at h
    · rename_i o ho; cases h; exact .inr (by simpa [caseExprPosns] using evalE_err ho)
    · exact .inl (relTest_err h)
  | is op e =>
    simp only [caseMatches] at h
    split at h
    · rename_i o ho; cases h; exact .inr (by simpa [caseExprPosns] using evalE_err ho)
    · exact .inl (relTest_err h)
  | range lo hi =>
    simp only [caseMatches] at h
    split at h
    · rename_i o ho; cases h; exact .inr (by simp [caseExprPosns, evalE_err ho])
    · split at h
      · rename_i o ho; cases h; exact .inl (relTest_err ho)
      · cases h
      · split at h
        · rename_i o ho; cases h; exact .inr (by simp [caseExprPosns, evalE_err ho])
        · exact .inl (relTest_err h)

theorem anyMatches_err {s : St} {q : Pos} {subj : Val} {c : Nat} {p : Pos} :
    ∀ conds : List CaseExpr, anyMatches s q subj conds = .error (.error c p) →
      p = q ∨ p ∈ conds.flatMap caseExprPosns
  | [], h => by simp [anyMatches] at h
  | ce :: rest, h => by
    simp only [anyMatches] at h
    split at h
    · rename_i o ho; cases h
      rcases caseMatches_err ho with h1 | h1
      · exact .inl h1
      · exact .inr (by simp [h1])
    · cases h
    · rcases anyMatches_err rest h with h1 | h1
      · exact .inl h1
      · exact .inr (by simp [h1])

theorem printItems_err {c : Nat} {p : Pos} : ∀ (items : List PrintItem) (s s' : St),
    printItems s items = (s', .error c p) → p ∈ items.flatMap itemPosns
  | [], s, s', h => by simp [printItems] at h
  | .comma :: rest, s, s', h => by
    simp only [printItems] at h
    simpa [itemPosns] using printItems_err rest _ _ h
  | .semicolon :: rest, s, s', h => by
    simp only [printItems] at h
    simpa [itemPosns] using printItems_err rest _ _ h
  | .expr e :: rest, s, s', h => by
    simp only [printItems] at h
    split at h
    · split at h
      · cases h
      · have := printItems_err rest _ _ h
        simp [itemPosns, this]
    · simp only [Prod.mk.injEq] at h
      simp [itemPosns, evalS_err (outcomeOf_err h.2)]

theorem evalDims_err {env : Env} {arrs : List (Option RArr)} {c : Nat} {p : Pos} :
    ∀ dims, evalDims env arrs dims = .err c p → p ∈ dimsPosns dims
  | .nil, h => by simp [evalDims] at h
  | .cons lo hi rest, h => by
    simp only [evalDims] at h
    rcases bind_err h with h | ⟨l, _, h⟩
    · cases lo with
      | none => cases h
      | some e => simp [dimsPosns, optExprPosns, evalS_err h]
    · rcases bind_err h with h | ⟨hv, _, h⟩
      · simp [dimsPosns, evalS_err h]
      · rcases bind_err h with h | ⟨ds, _, h⟩
        · simp [dimsPosns, evalDims_err rest h]
        · cases h

theorem convDims_err {q : Pos} {c : Nat} {p : Pos} : ∀ vs, convDims q vs = .err c p → p = q
  | [], h => by simp [convDims] at h
  | (l, hv) :: rest, h => by
    simp only [convDims] at h
    rcases bind_err h with h | ⟨lo, _, h⟩
    · exact toIndex_err h
    · rcases bind_err h with h | ⟨hi, _, h⟩
      · exact toIndex_err h
      · rcases bind_err h with h | ⟨ds, _, h⟩
        · exact convDims_err rest h
        · cases h

/-- what a `DIM` / `REDIM` can fail with: an error inside a bound expression where it arises; a bound that does not convert
to INTEGER, or an upper bound below its lower bound (9), at the STATEMENT's position -/
theorem dimArray_err {s : St} {t : ETy} {dims : Dims} {q : Pos} {c : Nat} {p : Pos}
    (h : dimArray s t dims q = .error (.error c p)) : p = q ∨ p ∈ dimsPosns dims := by
  unfold dimArray at h
  split at h
  · cases h
  · split at h
    · split at h
      · simp only [Except.error.injEq, Outcome.error.injEq] at h; exact .inl h.2.symm
      · split at h <;> cases h
    · simp only [Except.error.injEq] at h
      rcases bind_err (outcomeOf_err h) with h | ⟨vs, _, h⟩
      · exact .inr (evalDims_err dims h)
      · exact .inl (convDims_err vs h)

theorem readItem_err {s : St} {t : Ty} {q : Pos} {c : Nat} {p : Pos}
    (h : readItem s t q = .error (.error c p)) : p = q := by
  unfold readItem at h
  split at h
  · simp only [Except.error.injEq, Outcome.error.injEq] at h; exact h.2.symm
  · split at h
    · cases h
    · simp only [Except.error.injEq, Outcome.error.injEq] at h; exact h.2.symm
    · cases h

theorem idxArr_err {env : Env} {arrs : List (Option RArr)} {idx : Exprs} {a : Nat} {c : Nat} {p : Pos}
    (h : ((evalIdx env arrs idx).bind fun is => (getArr arrs a).bind fun A => ERes.ok (is, A)) = .err c p) :
    p ∈ exprsPosns idx := by
  rcases bind_err h with h | ⟨is, _, h⟩
  · exact evalIdx_err env arrs c p idx h
  · rcases bind_err h with h | ⟨A, _, h⟩
    · exact absurd h getArr_err
    · cases h

/-- **`elem_store_error_pos`** — what an element / element-field store `a(i…).f.g = e` can fail with, in the order the
reference semantics prescribes: an error of the right-hand side (inside `e`, or its conversion at the position of `e`); an
error of a subscript (inside it, or its conversion at its own position); Subscript out of range (9) at the STATEMENT's
position -/
theorem elem_store_error_pos {fuel : Nat} {a : Nat} {idx : Exprs} {path : List String} {t : ETy} {e : AoR.Expr}
    {q : Pos} {s s' : St} {c : Nat} {p : Pos} (h : exec fuel (.assignElem a idx path t e q) s = (s', .error c p)) :
    p ∈ exprPosns e ∨ p ∈ exprsPosns idx ∨ (c = 9 ∧ p = q) := by
  cases fuel with
  | zero => simp [exec] at h
  | succ n =>
    simp only [exec] at h
    split at h
    · split at h
      · split at h
        · split at h <;> cases h
        · simp only [Prod.mk.injEq, Outcome.error.injEq, codeSubscript] at h
          exact .inr (.inr ⟨h.2.1.symm, h.2.2.symm⟩)
      · simp only [Prod.mk.injEq] at h
        exact .inr (.inl (idxArr_err (outcomeOf_err h.2)))
    · simp only [Prod.mk.injEq] at h
      exact .inl (evalTo_err (outcomeOf_err h.2))

/-- **`elem_read_error_pos`** — what an element / element-field read `a(i…).f.g` can fail with: an error of a subscript
(inside it, or its conversion at its own position), or Subscript out of range (9) at the ELEMENT EXPRESSION's position —
wherever the expression stands (PRINT item, operand, right-hand side, subscript of another element, DIM bound, …) -/
theorem elem_read_error_pos {env : Env} {arrs : List (Option RArr)} {a : Nat} {idx : Exprs} {path : List String}
    {t : ETy} {q : Pos} {c : Nat} {p : Pos} (h : eval env arrs (.elem a idx path t q) = .err c p) :
    p ∈ exprsPosns idx ∨ (c = 9 ∧ p = q) := by
  rcases elem_err_cases h with h | h
  · exact .inl (evalIdx_err env arrs c p idx h)
  · exact .inr h

/-- **`dim_error_pos`** — `DIM a(l TO u, …) AS T` / `REDIM`: an error inside a bound expression is reported where it arises,
everything else (a bound beyond INTEGER: 6, `u < l`: 9) at the statement's position -/
theorem dim_error_pos {fuel : Nat} {a : Nat} {t : ETy} {dims : Dims} {q : Pos} {s s' : St} {c : Nat} {p : Pos}
    (h : exec fuel (.dimArr a t dims q) s = (s', .error c p)) : p = q ∨ p ∈ dimsPosns dims := by
  cases fuel with
  | zero => simp [exec] at h
  | succ n =>
    simp only [exec] at h
    split at h
    · cases h
    · rename_i o ho
      simp only [Prod.mk.injEq] at h
      obtain ⟨_, rfl⟩ := h
      exact dimArray_err ho

/-! ### statements: the position of an error is a position of the statement -/

/-- the claim at a given amount of fuel, for the three mutually recursive functions -/
def ErrPos (fuel : Nat) : Prop :=
  (∀ st s s' c p, exec fuel st s = (s', .error c p) → p ∈ stmtPosns st) ∧
  (∀ q subj cs s s' c p, execCases fuel q subj cs s = (s', .error c p) → p = q ∨ p ∈ casesPosns cs) ∧
  (∀ x t hv sv up body q s s' c p, forIter fuel x t hv sv up body q s = (s', .error c p) →
      p = q ∨ p ∈ stmtPosns body)

theorem errPos_zero : ErrPos 0 := by
  refine ⟨?_, ?_, ?_⟩
  · intro st s s' c p h; simp [exec] at h
  · intro q subj cs s s' c p h; simp [execCases] at h
  · intro x t hv sv up body q s s' c p h; simp [forIter] at h

theorem errPos_succ (n : Nat) (ih : ErrPos n) : ErrPos (n + 1) := by
  obtain ⟨ihE, ihC, ihF⟩ := ih
  refine ⟨?_, ?_, ?_⟩
  · intro st s s' c p h
    cases st with
    | skip => simp [exec] at h
    | end_ q => simp [exec] at h
    | seq a b =>
      simp only [exec] at h
      split at h
      · simp [stmtPosns, ihE b _ _ c p h]
      · simp [stmtPosns, ihE a _ _ c p h]
    | dim x t q =>
      simp only [exec] at h
      split at h <;> cases h
    | assign x path t e q =>
      simp only [exec] at h
      split at h
      · split at h
        · cases h
        · split at h <;> cases h
        · cases h
      · simp only [Prod.mk.injEq] at h
        simp [stmtPosns, evalTo_err (outcomeOf_err h.2)]
    | dimArr a t dims q =>
      rcases dim_error_pos h with h1 | h1 <;> simp [stmtPosns, h1]
    | assignElem a idx path t e q =>
      rcases elem_store_error_pos h with h1 | h1 | ⟨_, h1⟩ <;> simp [stmtPosns, h1]
    | print items q =>
      simp only [exec] at h
      split at h
      · split at h <;> cases h
      · simp [stmtPosns, printItems_err items _ _ h]
    | read tg q =>
      simp only [exec] at h
      split at h
      · cases h
      · rename_i o ho
        simp only [Prod.mk.injEq] at h
        obtain ⟨_, rfl⟩ := h
        simp [stmtPosns, readItem_err ho]
    | ifs cnd thn els q =>
      simp only [exec] at h
      split at h
      · rename_i o ho
        simp only [Prod.mk.injEq] at h
        obtain ⟨_, rfl⟩ := h
        simp [stmtPosns, evalCond_err ho]
      · simp [stmtPosns, ihE thn _ _ c p h]
      · simp [stmtPosns, ihE els _ _ c p h]
    | select e cs q =>
      simp only [exec] at h
      split at h
      · rename_i o ho
        simp only [Prod.mk.injEq] at h
        obtain ⟨_, rfl⟩ := h
        simp [stmtPosns, evalE_err ho]
      · rcases ihC q _ cs _ _ c p h with h1 | h1 <;> simp [stmtPosns, h1]
    | forLoop x t lo hi step body q =>
      simp only [exec] at h
      split at h
      · split at h
        · split at h
          · rcases ihF _ _ _ _ _ _ _ _ _ c p h with h1 | h1 <;> simp [stmtPosns, h1]
          · rename_i se
            split at h
            · rename_i o ho
              simp only [Prod.mk.injEq] at h
              obtain ⟨_, rfl⟩ := h
              simp [stmtPosns, optExprPosns, evalE_err ho]
            · split at h
              · rename_i o ho
                simp only [Prod.mk.injEq] at h
                obtain ⟨_, rfl⟩ := h
                simp [stmtPosns, stepSign_err ho]
              · rcases ihF _ _ _ _ _ _ _ _ _ c p h with h1 | h1 <;> simp [stmtPosns, h1]
              · rcases ihF _ _ _ _ _ _ _ _ _ c p h with h1 | h1 <;> simp [stmtPosns, h1]
              · simp only [Prod.mk.injEq, Outcome.error.injEq] at h
                simp [stmtPosns, optExprPosns, ← h.2.2, pos_mem_exprPosns]
        · simp only [Prod.mk.injEq] at h
          simp [stmtPosns, evalToS_err (outcomeOf_err h.2)]
      · simp only [Prod.mk.injEq] at h
        simp [stmtPosns, evalToS_err (outcomeOf_err h.2)]
    | «while» cnd body q =>
      simp only [exec] at h
      split at h
      · rename_i o ho
        simp only [Prod.mk.injEq] at h
        obtain ⟨_, rfl⟩ := h
        simp [stmtPosns, evalCond_err ho]
      · cases h
      · split at h
        · exact ihE _ _ _ c p h
        · simp [stmtPosns, ihE body _ _ c p h]
    | doLoop cnd top u body q =>
      simp only [exec] at h
      split at h
      · split at h
        · rename_i o ho
          simp only [Prod.mk.injEq] at h
          obtain ⟨_, rfl⟩ := h
          simp [stmtPosns, evalCond_err ho]
        · split at h
          · split at h
            · exact ihE _ _ _ c p h
            · simp [stmtPosns, ihE body _ _ c p h]
          · cases h
      · split at h
        · split at h
          · rename_i o ho
            simp only [Prod.mk.injEq] at h
            obtain ⟨_, rfl⟩ := h
            simp [stmtPosns, evalCond_err ho]
          · split at h
            · exact ihE _ _ _ c p h
            · cases h
        · simp [stmtPosns, ihE body _ _ c p h]
  · intro q subj cs s s' c p h
    cases cs with
    | nil => simp [execCases] at h
    | else_ body =>
      simp only [execCases] at h
      exact .inr (by simp [casesPosns, ihE body _ _ c p h])
    | case conds body rest =>
      simp only [execCases] at h
      split at h
      · rename_i o ho
        simp only [Prod.mk.injEq] at h
        obtain ⟨_, rfl⟩ := h
        rcases anyMatches_err conds ho with h1 | h1
        · exact .inl h1
        · exact .inr (by simp [casesPosns, h1])
      · exact .inr (by simp [casesPosns, ihE body _ _ c p h])
      · rcases ihC q _ rest _ _ c p h with h1 | h1
        · exact .inl h1
        · exact .inr (by simp [casesPosns, h1])
  · intro x t hv sv up body q s s' c p h
    simp only [forIter] at h
    split at h
    · rename_i o ho
      simp only [Prod.mk.injEq] at h
      obtain ⟨_, rfl⟩ := h
      exact .inl (relTest_err ho)
    · cases h
    · split at h
      · split at h
        · exact ihF _ _ _ _ _ _ _ _ _ c p h
        · simp only [Prod.mk.injEq, Outcome.error.injEq] at h
          exact .inl h.2.2.symm
        · cases h
      · exact .inr (ihE body _ _ c p h)

theorem errPos_all : ∀ n, ErrPos n
  | 0 => errPos_zero
  | n + 1 => errPos_succ n (errPos_all n)

/-! ### the source tree (`SStmt`, what the front end delivers) and its desugaring -/

mutual
/-- every position that occurs in a statement of the source syntax -/
def sstmtPosns : SStmt → List Pos
  | .skip => []
  | .seq a b => sstmtPosns a ++ sstmtPosns b
  | .comment => []
  | .dim _ _ p => [p]
  | .dimArr _ _ dims p => p :: dimsPosns dims
  | .assign _ _ _ e p => p :: exprPosns e
  | .assignElem _ idx _ _ e p => p :: (exprsPosns idx ++ exprPosns e)
  | .print items p => p :: items.flatMap itemPosns
  | .data items p => p :: items.map (·.2)
  | .read tgs p => p :: tgs.map (·.pos)
  | .ifBlock c thn elifs _ els p => p :: (exprPosns c ++ sstmtPosns thn ++ elifsPosns elifs ++ sstmtPosns els)
  | .select e cases _ els p => p :: (exprPosns e ++ scasesPosns cases ++ sstmtPosns els)
  | .forLoop _ _ lo hi step body p => p :: (exprPosns lo ++ exprPosns hi ++ optExprPosns step ++ sstmtPosns body)
  | .while c body p => p :: (exprPosns c ++ sstmtPosns body)
  | .doLoop c _ _ body p => p :: (exprPosns c ++ sstmtPosns body)
  | .end_ p => [p]
def elifsPosns : ElseIfs → List Pos
  | .nil => []
  | .cons c body rest => exprPosns c ++ sstmtPosns body ++ elifsPosns rest
def scasesPosns : SCases → List Pos
  | .nil => []
  | .cons conds body rest => conds.flatMap caseExprPosns ++ sstmtPosns body ++ scasesPosns rest
end

theorem readSeq_posns (p q : Pos) : ∀ tgs : List ReadTarget, q ∈ stmtPosns (readSeq p tgs) →
    q = p ∨ q ∈ tgs.map (·.pos)
  | [], h => by simp [readSeq, stmtPosns] at h
  | tg :: rest, h => by
    simp only [readSeq, stmtPosns, List.mem_append, List.mem_cons] at h
    rcases h with (h | h) | h
    · exact .inl h
    · rcases h with h | h
      · exact .inr (by simp [h])
      · cases h
    · rcases readSeq_posns p q rest h with h1 | h1
      · exact .inl h1
      · exact .inr (List.mem_cons_of_mem _ h1)

mutual
/-- desugaring adds no positions -/
theorem desugar_posns (q : Pos) : ∀ s : SStmt, q ∈ stmtPosns (desugar s) → q ∈ sstmtPosns s
  | .skip, h => by simp [desugar, stmtPosns] at h
  | .comment, h => by simp [desugar, stmtPosns] at h
  | .data _ _, h => by simp [desugar, stmtPosns] at h
  | .seq a b, h => by
    simp only [desugar, stmtPosns, List.mem_append] at h
    rcases h with h | h
    · simp [sstmtPosns, desugar_posns q a h]
    · simp [sstmtPosns, desugar_posns q b h]
  | .dim x t p, h => by simpa [desugar, stmtPosns, exprPosns, sstmtPosns] using h
  | .dimArr a t dims p, h => by simpa [desugar, stmtPosns, sstmtPosns] using h
  | .assign x path t e p, h => by simpa [desugar, stmtPosns, sstmtPosns] using h
  | .assignElem a idx path t e p, h => by simpa [desugar, stmtPosns, sstmtPosns] using h
  | .print items p, h => by simpa [desugar, stmtPosns, sstmtPosns] using h
  | .read tgs p, h => by
    simp only [desugar] at h
    rcases readSeq_posns p q tgs h with h1 | h1 <;> simp [sstmtPosns, h1]
  | .ifBlock c thn elifs he els p, h => by
    simp only [desugar, stmtPosns, List.mem_append, List.mem_cons] at h
    rcases h with h | (h | h) | h
    · simp [sstmtPosns, h]
    · simp [sstmtPosns, h]
    · simp [sstmtPosns, desugar_posns q thn h]
    · rcases desugarElifs_posns q elifs (desugar els) p h with h1 | h1 | h1
      · simp [sstmtPosns, h1]
      · simp [sstmtPosns, h1]
      · simp [sstmtPosns, desugar_posns q els h1]
  | .select e cases he els p, h => by
    simp only [desugar, stmtPosns, List.mem_append, List.mem_cons] at h
    rcases h with h | h | h
    · simp [sstmtPosns, h]
    · simp [sstmtPosns, h]
    · rcases desugarCases_posns q cases _ h with h1 | h1
      · simp [sstmtPosns, h1]
      · cases he with
        | true =>
          simp only [if_true, casesPosns] at h1
          simp [sstmtPosns, desugar_posns q els h1]
        | false => simp [casesPosns] at h1
  | .forLoop x t lo hi step body p, h => by
    simp only [desugar, stmtPosns, List.mem_append, List.mem_cons] at h
    rcases h with h | ((h | h) | h) | h
    · simp [sstmtPosns, h]
    · simp [sstmtPosns, h]
    · simp [sstmtPosns, h]
    · simp [sstmtPosns, h]
    · simp [sstmtPosns, desugar_posns q body h]
  | .while c body p, h => by
    simp only [desugar, stmtPosns, List.mem_append, List.mem_cons] at h
    rcases h with h | h | h
    · simp [sstmtPosns, h]
    · simp [sstmtPosns, h]
    · simp [sstmtPosns, desugar_posns q body h]
  | .doLoop c top u body p, h => by
    simp only [desugar, stmtPosns, List.mem_append, List.mem_cons] at h
    rcases h with h | h | h
    · simp [sstmtPosns, h]
    · simp [sstmtPosns, h]
    · simp [sstmtPosns, desugar_posns q body h]
  | .end_ p, h => by simpa [desugar, stmtPosns, sstmtPosns] using h
theorem desugarElifs_posns (q : Pos) : ∀ (e : ElseIfs) (els : Stmt) (p : Pos),
    q ∈ stmtPosns (desugarElifs e els p) → q = p ∨ q ∈ elifsPosns e ∨ q ∈ stmtPosns els
  | .nil, els, p, h => by simp only [desugarElifs] at h; exact .inr (.inr h)
  | .cons c body rest, els, p, h => by
    simp only [desugarElifs, stmtPosns, List.mem_append, List.mem_cons] at h
    rcases h with h | (h | h) | h
    · exact .inl h
    · exact .inr (.inl (by simp [elifsPosns, h]))
    · exact .inr (.inl (by simp [elifsPosns, desugar_posns q body h]))
    · rcases desugarElifs_posns q rest els p h with h1 | h1 | h1
      · exact .inl h1
      · exact .inr (.inl (by simp [elifsPosns, h1]))
      · exact .inr (.inr h1)
theorem desugarCases_posns (q : Pos) : ∀ (cs : SCases) (tail : Cases),
    q ∈ casesPosns (desugarCases cs tail) → q ∈ scasesPosns cs ∨ q ∈ casesPosns tail
  | .nil, tail, h => by simp only [desugarCases] at h; exact .inr h
  | .cons conds body rest, tail, h => by
    simp only [desugarCases, casesPosns, List.mem_append] at h
    rcases h with (h | h) | h
    · exact .inl (by simp [scasesPosns, h])
    · exact .inl (by simp [scasesPosns, desugar_posns q body h])
    · rcases desugarCases_posns q rest tail h with h1 | h1
      · exact .inl (by simp [scasesPosns, h1])
      · exact .inr h1
end

/-! ### the property theorems -/

open RbThm.C08AoR (Finished finished run_of_steps_halt run_of_steps_err)

/-- **`ref_error_pos_within_program`** (layer AoR) — the position the reference semantics prescribes for a run-time error is
a position carried by a node of the program's tree: the statement's own position, or that of one of its sub-expressions
(operator nodes, element / element-field expressions, LBOUND / UBOUND calls, subscripts, DIM bounds, READ targets). -/
theorem ref_error_pos_within_program (prog : SProgram) (fuel c : Nat) (p : Pos)
    (h : (AoR.Ref.run fuel prog.toAst).2 = .error c p) : p ∈ sstmtPosns prog.body := by
  unfold AoR.Ref.run at h
  generalize hr : exec fuel prog.toAst.body (St.init prog.toAst) = r at h
  obtain ⟨s', o⟩ := r
  simp only at h
  subst h
  exact desugar_posns p prog.body ((errPos_all fuel).1 _ _ _ c p hr)

/-- **`runtime_error_pos_is_ref_pos`** (layer AoR) — for a program the premise checker accepts on which the reference run
finishes, whatever error the VM model stops with — at any step budget — is the reference's: same code, same position. -/
theorem runtime_error_pos_is_ref_pos (prog : SProgram) (fuel : Nat) (hw : progWfB prog = true)
    (hfin : Finished (AoR.Ref.run fuel prog.toAst).2) :
    ∀ (m c : Nat) (p : Pos) (ω : Vm),
      Vm.run (compile prog) m (Vm.init prog.types prog.slots prog.arrs) = .error c p ω →
      (AoR.Ref.run fuel prog.toAst).2 = .error c p := by
  intro m c p ω hrun
  have h := RbThm.AoRSim.compile_correct_checked prog fuel hw
  rcases hr : AoR.Ref.run fuel prog.toAst with ⟨s', o⟩
  rw [hr] at h hfin
  cases o with
  | normal =>
    obtain ⟨τ, υ, hs, hh, _⟩ := h
    rcases run_of_steps_halt _ hs hh m with h1 | h1 <;> rw [h1] at hrun <;> cases hrun
  | halted =>
    obtain ⟨τ, υ, hs, hh, _⟩ := h
    rcases run_of_steps_halt _ hs hh m with h1 | h1 <;> rw [h1] at hrun <;> cases hrun
  | error c' p' =>
    obtain ⟨τ, υ, hs, hh, _⟩ := h
    rcases run_of_steps_err _ hs hh m with h1 | h1 <;> rw [h1] at hrun <;> cases hrun
    rfl
  | inexact => simp [Finished, finished] at hfin
  | outOfFuel => simp [Finished, finished] at hfin
  | illFormed => simp [Finished, finished] at hfin
  | tooBig => simp [Finished, finished] at hfin

/-- **`runtime_error_pos_within_program`** (layer AoR) — hence the position reported with a run-time error of the VM run is
a position carried by a node of the program's tree. -/
theorem runtime_error_pos_within_program (prog : SProgram) (fuel : Nat) (hw : progWfB prog = true)
    (hfin : Finished (AoR.Ref.run fuel prog.toAst).2) :
    ∀ (m c : Nat) (p : Pos) (ω : Vm),
      Vm.run (compile prog) m (Vm.init prog.types prog.slots prog.arrs) = .error c p ω →
      p ∈ sstmtPosns prog.body :=
  fun m c p ω hrun =>
    ref_error_pos_within_program prog fuel c p (runtime_error_pos_is_ref_pos prog fuel hw hfin m c p ω hrun)

/-! non-vacuity (`RbThm.C08AoR.demo k j r`: `DIM A(1 TO 3) AS T : FOR I% = 1 TO k : A(I%).P.X = I% * j :
A(I%).S = "abcdef" : NEXT : PRINT A(2).S; A(r).P.X; UBOUND(A)`):
* `k = 4`: accepted, the reference run ends with Subscript out of range (9) at the element-field STORE, at the STATEMENT's
  position (row 5 col 3), which is a position of the tree;
* `r = 0`: Subscript out of range (9) at the element-field READ, at the ELEMENT EXPRESSION's position (row 8 col 15) — not
  at the PRINT statement's (row 8 col 1);
* `j = 20000`: Overflow (6) at the `*` of the right-hand side (row 5 col 18), before any subscript is looked at. -/
example : progWfB (RbThm.C08AoR.demo 4 2 2) = true ∧
    Finished (AoR.Ref.run 100 (RbThm.C08AoR.demo 4 2 2).toAst).2 ∧
    (match (AoR.Ref.run 100 (RbThm.C08AoR.demo 4 2 2).toAst).2 with
     | .error 9 ⟨5, 3⟩ => true | _ => false) = true ∧
    (⟨5, 3⟩ : Pos) ∈ sstmtPosns (RbThm.C08AoR.demo 4 2 2).body := by decide +kernel

example : progWfB (RbThm.C08AoR.demo 3 2 0) = true ∧
    Finished (AoR.Ref.run 100 (RbThm.C08AoR.demo 3 2 0).toAst).2 ∧
    (match (AoR.Ref.run 100 (RbThm.C08AoR.demo 3 2 0).toAst).2 with
     | .error 9 ⟨8, 15⟩ => true | _ => false) = true ∧
    (⟨8, 15⟩ : Pos) ∈ sstmtPosns (RbThm.C08AoR.demo 3 2 0).body := by decide +kernel

example : (match (AoR.Ref.run 100 (RbThm.C08AoR.demo 3 20000 2).toAst).2 with
     | .error 6 ⟨5, 18⟩ => true | _ => false) = true ∧
    (⟨5, 18⟩ : Pos) ∈ sstmtPosns (RbThm.C08AoR.demo 3 20000 2).body := by decide +kernel

/-- so whatever the VM model reports for `demo 4 2 2`, at any budget, is error 9 at row 5 col 3 -/
example (m c : Nat) (p : Pos) (ω : Vm)
    (h : Vm.run (compile (RbThm.C08AoR.demo 4 2 2)) m
      (Vm.init (RbThm.C08AoR.demo 4 2 2).types (RbThm.C08AoR.demo 4 2 2).slots (RbThm.C08AoR.demo 4 2 2).arrs) =
        .error c p ω) : c = 9 ∧ p = ⟨5, 3⟩ := by
  have h1 := runtime_error_pos_is_ref_pos (RbThm.C08AoR.demo 4 2 2) 100 (by decide +kernel) (by decide +kernel) m c p ω h
  have h2 : (match (AoR.Ref.run 100 (RbThm.C08AoR.demo 4 2 2).toAst).2 with
     | .error 9 ⟨5, 3⟩ => true | _ => false) = true := by decide +kernel
  rw [h1] at h2
  split at h2
  · next heq => injection heq with hc hp; exact ⟨hc, hp⟩
  · cases h2

end RbThm.C11AoR
