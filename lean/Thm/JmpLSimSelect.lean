import Thm.JmpLSimBase
/-!
Jump layer, simulation part: the SELECT CASE statement (port of `C01SimSelect`).

Generated shape: `<selector>; PushAToValueStack; Jump select-begin; Jump select-skip; select-begin:` (a resume point),
then per CASE block `caseN` label, the item tests
(`<item>; CopyAToB; PopValueStackIntoA; PushAToValueStack; <comparison>; JumpIfFalse next` — selector in A, item in B,
the selector stays on the value stack), an optional `case-statementsN` label, the body, `Jump end-select`; then the
optional `case-else` part, the `end-select` label, `PopValueStackIntoA` and the `select-skip` label.

The blocks live at SELECT depth `e + 1` on the value stack `sel :: vals`: inside the SELECT everything is stated with
`StmtSpec C d (e + 1) endOff` (`endOff` = the `end-select` label) relative to a state whose value stack carries the selector:

* `cases_correct`  — `execCases` (run mode: the tests, then the block that matches);
* `seek_cases_correct` — `seekCases` (the block that contains the label is entered at the label; no test runs);
* `select_catch` / `select_seek_correct` — `selectSeek`: a jump out of a block to a label in a block of the same SELECT
  arrives at the label with the selector still on the value stack (the label is at SELECT depth `≥ e + 1`: nothing is popped);
* `select_exit` — leaving the SELECT: a normal end runs `end-select; PopValueStackIntoA; select-skip`; a jump that leaves has
  `sd L ≤ e` (`Leaves dp.sd` in `Wf`, through `jump_depths`), so the selector is among the `e + 1 − sd L` popped values; a
  RETURN is passed on.

A SELECT entered in seek mode from outside answers `illFormed` / `notHere`: nothing is claimed.
-/
namespace RbThm.JmpLSim
set_option linter.unusedVariables false
set_option linter.unusedSimpArgs false
open RbModel RbModel.Num RbModel.JmpL RbModel.JmpL.Compile RbModel.JmpL.Vm
open RbModel.Ast (Pos PrintItem CaseExpr)
open RbModel.Ref (St ERes eval evalTo codeOf codeOutOfData codeZeroStep zeroOf truthy printValue endsInSeparator StepSign
  binStep lift)
open RbModel.JmpL.Ref
open RbThm.JmpLLen
open RbThm.C01Sim (Typed SlotsBelow ExprWt NumericAt NumericCond ItemsSlots CaseSlots CondsSlots)

/-! ### the tests (port) -/

/-- the six relational operators (what the parser accepts after `CASE IS`) -/
def SelRelOp (op : Op) : Prop :=
  op = .less ∨ op = .lessOrEqual ∨ op = .equal ∨ op = .greaterOrEqual ∨ op = .greater ∨ op = .notEqual

/-- the comparison instructions turn `try_cmp` into −1 / 0 -/
theorem sel_binInstr_rel {op : Op} (h : SelRelOp op) (a b : Val) :
    binInstr op a b = (tryCmp a b).bind fun o => Res.ok (ofBool (relHolds op o)) := by
  rcases h with h | h | h | h | h | h <;> subst h <;> rfl

theorem sel_truthy_ofBool (b : Bool) : truthy (ofBool b) = some b := by
  cases b <;> rfl

/-- everything but the program counter, the registers (and the argument list / call position) is as it was -/
structure SelKeeps (τ τ' : Vm) : Prop where
  regStack : τ'.regStack = τ.regStack
  vals : τ'.vals = τ.vals
  paths : τ'.paths = τ.paths
  gosubs : τ'.gosubs = τ.gosubs
  env : τ'.env = τ.env
  out : τ'.out = τ.out
  skip : τ'.skipNewline = τ.skipNewline
  data : τ'.data = τ.data
  dataIdx : τ'.dataIdx = τ.dataIdx
  queue : τ'.queue = τ.queue

theorem SelKeeps.refl (τ : Vm) : SelKeeps τ τ := ⟨rfl, rfl, rfl, rfl, rfl, rfl, rfl, rfl, rfl, rfl⟩

theorem SelKeeps.trans {a b c : Vm} (h₁ : SelKeeps a b) (h₂ : SelKeeps b c) : SelKeeps a c :=
  ⟨h₂.regStack.trans h₁.regStack, h₂.vals.trans h₁.vals, h₂.paths.trans h₁.paths, h₂.gosubs.trans h₁.gosubs,
    h₂.env.trans h₁.env, h₂.out.trans h₁.out, h₂.skip.trans h₁.skip, h₂.data.trans h₁.data,
    h₂.dataIdx.trans h₁.dataIdx, h₂.queue.trans h₁.queue⟩

theorem SelKeeps.afterExpr (τ : Vm) (pc : Nat) (v b : Val) : SelKeeps τ (afterExpr τ pc v b) :=
  ⟨rfl, rfl, rfl, rfl, rfl, rfl, rfl, rfl, rfl, rfl⟩

theorem SelKeeps.rel {sl : List Ty} {s : St} {τ τ' : Vm} (h : SelKeeps τ τ') (hr : Rel sl s τ) : Rel sl s τ' :=
  hr.same h.env h.out h.skip h.data h.dataIdx h.queue

theorem SelKeeps.stacks {τ τ' : Vm} (h : SelKeeps τ τ') : SameStacks τ τ' := ⟨h.regStack, h.vals, h.paths, h.gosubs⟩

/-- what the code of a test does: on `true` it arrives at `yes`, on `false` at `no`, in both cases with everything but
the program counter and the registers as it was -/
def SelTestSpec (code : Code) (τ : Vm) (yes no : Nat) : Except Outcome Bool → Prop
  | .ok true => ∃ τ', Steps code τ τ' ∧ τ'.pc = yes ∧ SelKeeps τ τ'
  | .ok false => ∃ τ', Steps code τ τ' ∧ τ'.pc = no ∧ SelKeeps τ τ'
  | .error (.error c r) => ErrsWith code τ c r τ.env τ.out
  | .error _ => True

theorem SelTestSpec.prefix {code : Code} {τ0 τ : Vm} {yes no : Nat} {r : Except Outcome Bool}
    (st : Steps code τ0 τ) (hk : SelKeeps τ0 τ) (h : SelTestSpec code τ yes no r) : SelTestSpec code τ0 yes no r := by
  cases r with
  | ok b =>
    cases b with
    | true =>
      simp only [SelTestSpec] at h ⊢
      obtain ⟨τ', st', hp, hk'⟩ := h
      exact ⟨τ', st.trans st', hp, hk.trans hk'⟩
    | false =>
      simp only [SelTestSpec] at h ⊢
      obtain ⟨τ', st', hp, hk'⟩ := h
      exact ⟨τ', st.trans st', hp, hk.trans hk'⟩
  | error o =>
    cases o with
    | error c r =>
      simp only [SelTestSpec] at h ⊢
      rw [← hk.env, ← hk.out]
      exact ErrsWith.of_steps st h
    | _ => simp [SelTestSpec]

/-- a test that fails with an error (or leaves the exact domain) does so whatever the two targets are -/
theorem SelTestSpec.error {code : Code} {τ : Vm} {yes no yes' no' : Nat} {o : Outcome}
    (h : SelTestSpec code τ yes no (.error o)) : SelTestSpec code τ yes' no' (.error o) := by
  cases o with
  | error c r => exact h
  | _ => simp [SelTestSpec]

/-- `CopyAToB; PopValueStackIntoA; PushAToValueStack; <comparison>; JumpIfFalse next`: the SELECT subject (top of the
value stack, kept there) is compared with the CASE item's value in A -/
theorem sel_cmp_tail (code : Code) (op : Op) (hop : SelRelOp op) (p : Pos) (next q : Nat) (τ : Vm) (subj v : Val)
    (vs : List Val)
    (hc : CodeAt code q [(CInstr.copyAToB, p), (CInstr.popA, p), (CInstr.pushA, p), (CInstr.bin op, p),
      (CInstr.jumpIfFalse next, p)])
    (hpc : τ.pc = q) (ha : τ.regs.a = v) (hv : τ.vals = subj :: vs) :
    SelTestSpec code τ (q + 5) next (relTest p op subj v) := by
  subst hpc
  have h0 : code[τ.pc]? = some (CInstr.copyAToB, p) := hc.head
  have h1 : code[τ.pc + 1]? = some (CInstr.popA, p) := hc.tail.head
  have h2 : code[τ.pc + 1 + 1]? = some (CInstr.pushA, p) := hc.tail.tail.head
  have h3 : code[τ.pc + 1 + 1 + 1]? = some (CInstr.bin op, p) := hc.tail.tail.tail.head
  have h4 : code[τ.pc + 1 + 1 + 1 + 1]? = some (CInstr.jumpIfFalse next, p) := hc.tail.tail.tail.tail.head
  let τ1 : Vm := advance { τ with regs := { τ.regs with b := τ.regs.a } }
  let τ2 : Vm := advance { setA τ1 subj with vals := vs }
  let τ3 : Vm := advance { τ2 with vals := subj :: vs }
  have s1 : Vm.step code τ = .next τ1 := by simp only [Vm.step, h0]; rfl
  have s2 : Vm.step code τ1 = .next τ2 := by simp only [Vm.step, τ1, advance, h1, hv]; rfl
  have s3 : Vm.step code τ2 = .next τ3 := by simp only [Vm.step, τ2, τ1, advance, setA, h2]; rfl
  have s4 : Vm.step code τ3 = resA τ3 p (binInstr op subj v) := by
    simp only [Vm.step, τ3, τ2, τ1, advance, setA, h3, ha]
  have st : Steps code τ τ3 := Steps.cons s1 (Steps.cons s2 (Steps.one s3))
  rw [sel_binInstr_rel hop] at s4
  simp only [relTest]
  cases ht : tryCmp subj v with
  | ok o =>
    let τ4 : Vm := advance (setA τ3 (ofBool (relHolds op o)))
    have s4' : Vm.step code τ3 = .next τ4 := by rw [s4, ht]; rfl
    have hj : code[τ4.pc]? = some (CInstr.jumpIfFalse next, p) := h4
    have ht4 : truthy τ4.regs.a = some (relHolds op o) := sel_truthy_ofBool _
    dsimp only
    cases hb : relHolds op o with
    | true =>
      rw [hb] at ht4
      simp only [SelTestSpec]
      refine ⟨advance τ4, st.trans (Steps.cons s4' (Steps.one ?_)), rfl, ?_⟩
      · simp only [Vm.step, hj, ht4]
      · exact ⟨rfl, hv.symm, rfl, rfl, rfl, rfl, rfl, rfl, rfl, rfl⟩
    | false =>
      rw [hb] at ht4
      simp only [SelTestSpec]
      refine ⟨{ τ4 with pc := next }, st.trans (Steps.cons s4' (Steps.one ?_)), rfl, ?_⟩
      · simp only [Vm.step, hj, ht4]
      · exact ⟨rfl, hv.symm, rfl, rfl, rfl, rfl, rfl, rfl, rfl, rfl⟩
  | err e =>
    simp only [SelTestSpec]
    refine ⟨τ3, τ3, st, ?_, rfl, rfl⟩
    rw [s4, ht]; rfl
  | inexact => simp [SelTestSpec]

/-- one comparison of the subject with the value of an expression -/
def selItemTest (env : List Val) (p : Pos) (op : Op) (subj : Val) (e : Ast.Expr) : Except Outcome Bool :=
  match evalE env e with
  | .error o => .error o
  | .ok v => relTest p op subj v

theorem caseMatches_simple (env : List Val) (p : Pos) (subj : Val) (e : Ast.Expr) :
    caseMatches env p subj (.simple e) = selItemTest env p .equal subj e := by
  simp only [caseMatches, selItemTest, bind, Except.bind]
  cases evalE env e <;> rfl

theorem caseMatches_is (env : List Val) (p : Pos) (subj : Val) (op : Op) (e : Ast.Expr) :
    caseMatches env p subj (.is op e) = selItemTest env p op subj e := by
  simp only [caseMatches, selItemTest, bind, Except.bind]
  cases evalE env e <;> rfl

theorem caseMatches_range (env : List Val) (p : Pos) (subj : Val) (lo hi : Ast.Expr) :
    caseMatches env p subj (.range lo hi) =
      match selItemTest env p .greaterOrEqual subj lo with
      | .error o => .error o
      | .ok true => selItemTest env p .lessOrEqual subj hi
      | .ok false => .ok false := by
  simp only [caseMatches, selItemTest, bind, Except.bind, pure, Except.pure]
  cases evalE env lo with
  | error o => rfl
  | ok l =>
    dsimp only
    cases relTest p .greaterOrEqual subj l with
    | error o => rfl
    | ok b =>
      cases b with
      | false => rfl
      | true =>
        dsimp only
        cases evalE env hi <;> rfl

theorem anyMatches_cons (env : List Val) (p : Pos) (subj : Val) (c : CaseExpr) (rest : List CaseExpr) :
    anyMatches env p subj (c :: rest) =
      match caseMatches env p subj c with
      | .error o => .error o
      | .ok true => .ok true
      | .ok false => anyMatches env p subj rest := by
  simp only [anyMatches, bind, Except.bind, pure, Except.pure]
  cases caseMatches env p subj c with
  | error o => rfl
  | ok b => cases b <;> rfl

/-! ### a test that fails fails with a BASIC error or leaves the exact domain -/

theorem selItemTest_error_kind {env : List Val} {p : Pos} {op : Op} {subj : Val} {e : Ast.Expr} {o : Outcome}
    (h : selItemTest env p op subj e = .error o) : (∃ cd q, o = .error cd q) ∨ o = .inexact := by
  simp only [selItemTest, evalE] at h
  cases he : eval env e with
  | err c q => simp [he] at h; exact .inl ⟨c, q, h.symm⟩
  | inexact => simp [he] at h; exact .inr h.symm
  | ok v =>
    simp only [he, relTest] at h
    cases ht : tryCmp subj v with
    | ok x => simp [ht] at h
    | err er => simp [ht] at h; exact .inl ⟨_, _, h.symm⟩
    | inexact => simp [ht] at h; exact .inr h.symm

theorem caseMatches_error_kind {env : List Val} {p : Pos} {subj : Val} {c : CaseExpr} {o : Outcome}
    (h : caseMatches env p subj c = .error o) : (∃ cd q, o = .error cd q) ∨ o = .inexact := by
  cases c with
  | simple e => rw [caseMatches_simple] at h; exact selItemTest_error_kind h
  | is op e => rw [caseMatches_is] at h; exact selItemTest_error_kind h
  | range lo hi =>
    rw [caseMatches_range] at h
    cases h1 : selItemTest env p .greaterOrEqual subj lo with
    | error o1 =>
      rw [h1] at h
      injection h with h
      subst h
      exact selItemTest_error_kind h1
    | ok b =>
      rw [h1] at h
      cases b with
      | true => exact selItemTest_error_kind h
      | false => cases h

theorem anyMatches_error_kind {env : List Val} {p : Pos} {subj : Val} {o : Outcome} :
    ∀ (conds : List CaseExpr), anyMatches env p subj conds = .error o → (∃ cd q, o = .error cd q) ∨ o = .inexact
  | [], h => by simp [anyMatches, pure, Except.pure] at h
  | c :: rest, h => by
    rw [anyMatches_cons] at h
    cases h1 : caseMatches env p subj c with
    | error o1 =>
      rw [h1] at h
      injection h with h
      subst h
      exact caseMatches_error_kind h1
    | ok b =>
      rw [h1] at h
      cases b with
      | true => cases h
      | false => exact anyMatches_error_kind rest h

/-- `<expr>; CopyAToB; PopValueStackIntoA; PushAToValueStack; <comparison>; JumpIfFalse next` -/
theorem sel_item_correct (code : Code) (op : Op) (hop : SelRelOp op) (p : Pos) (next off : Nat) (τ : Vm) (subj : Val)
    (vs : List Val) (e : Ast.Expr)
    (hc : CodeAt code off (compileExpr e ++ [(CInstr.copyAToB, p), (CInstr.popA, p), (CInstr.pushA, p),
      (CInstr.bin op, p), (CInstr.jumpIfFalse next, p)]))
    (hpc : τ.pc = off) (hv : τ.vals = subj :: vs) (hs : SlotsBelow τ.env.length e) :
    SelTestSpec code τ (off + (compileExpr e).length + 5) next (selItemTest τ.env p op subj e) := by
  have he := compileExpr_correct code e off τ hc.append_left hpc hs
  simp only [ExprSpec] at he
  simp only [selItemTest, evalE]
  cases hev : eval τ.env e with
  | err c q =>
    simp only [hev] at he
    simp only [SelTestSpec]
    exact he
  | inexact => simp [SelTestSpec]
  | ok v =>
    simp only [hev] at he
    obtain ⟨b, st⟩ := he
    have := sel_cmp_tail code op hop p next (off + (compileExpr e).length)
      (afterExpr τ (off + (compileExpr e).length) v b) subj v vs hc.append_right rfl rfl hv
    exact SelTestSpec.prefix st (SelKeeps.afterExpr _ _ _ _) this

/-- one CASE item: `generate_case_expression` -/
theorem caseExpr_correct (code : Code) (p : Pos) (next off : Nat) (τ : Vm) (subj : Val) (vs : List Val)
    (c : CaseExpr) (hc : CodeAt code off (compileCaseExpr p next c))
    (hpc : τ.pc = off) (hv : τ.vals = subj :: vs) (hs : CaseSlots τ.env.length c) :
    SelTestSpec code τ (off + sizeCaseExpr c) next (caseMatches τ.env p subj c) := by
  cases c with
  | simple e =>
    simp only [compileCaseExpr] at hc
    rw [caseMatches_simple]
    exact sel_item_correct code .equal (.inr (.inr (.inl rfl))) p next off τ subj vs e hc hpc hv hs
  | is op e =>
    simp only [compileCaseExpr] at hc
    rw [caseMatches_is]
    exact sel_item_correct code op hs.1 p next off τ subj vs e hc hpc hv hs.2
  | range lo hi =>
    simp only [compileCaseExpr] at hc
    rw [caseMatches_range]
    obtain ⟨hslo, hshi⟩ := hs
    have h1 := sel_item_correct code .greaterOrEqual (.inr (.inr (.inr (.inl rfl)))) p next off τ subj vs lo
      hc.append_left.append_left hpc hv hslo
    cases ht1 : selItemTest τ.env p .greaterOrEqual subj lo with
    | error o =>
      rw [ht1] at h1
      exact h1.error
    | ok b =>
      rw [ht1] at h1
      cases b with
      | false => simpa [SelTestSpec] using h1
      | true =>
        simp only [SelTestSpec] at h1
        obtain ⟨τ', st, hp', hk⟩ := h1
        have hc2 : CodeAt code (off + (compileExpr lo).length + 5)
            (compileExpr hi ++ [(CInstr.copyAToB, p), (CInstr.popA, p), (CInstr.pushA, p),
              (CInstr.bin .lessOrEqual, p), (CInstr.jumpIfFalse next, p)]) := by
          have h' : CodeAt code off ((compileExpr lo ++ [(CInstr.copyAToB, p), (CInstr.popA, p), (CInstr.pushA, p),
              (CInstr.bin .greaterOrEqual, p), (CInstr.jumpIfFalse next, p)]) ++
              (compileExpr hi ++ [(CInstr.copyAToB, p), (CInstr.popA, p), (CInstr.pushA, p),
              (CInstr.bin .lessOrEqual, p), (CInstr.jumpIfFalse next, p)])) := by
            simpa only [List.append_assoc] using hc
          have := h'.append_right
          simp only [List.length_append, List.length_cons, List.length_nil] at this
          have e : off + ((compileExpr lo).length + (0 + 1 + 1 + 1 + 1 + 1)) = off + (compileExpr lo).length + 5 := by
            omega
          rw [e] at this
          exact this
        have h2 := sel_item_correct code .lessOrEqual (.inr (.inl rfl)) p next _ τ' subj vs hi hc2 hp'
          (by rw [hk.vals]; exact hv) (by rw [hk.env]; exact hshi)
        rw [hk.env] at h2
        have := SelTestSpec.prefix st hk h2
        simp only [sizeCaseExpr]
        have e : off + ((compileExpr lo).length + 5 + (compileExpr hi).length + 5) =
            off + (compileExpr lo).length + 5 + (compileExpr hi).length + 5 := by omega
        rw [e]
        exact this

/-- the item list of one CASE block (`generate_case_expressions`): on a match control arrives at `stmts` (the block's
statements, or the `case-statements` label in front of them), otherwise at `nextCase` -/
theorem conds_correct (code : Code) (p : Pos) (sfx : String) (bi nextCase stmts : Nat) (subj : Val) (vs : List Val) :
    ∀ (conds : List CaseExpr) (off ei : Nat) (τ : Vm), conds ≠ [] →
      CodeAt code off (compileConds p sfx bi nextCase stmts off ei conds) → stmts = off + sizeConds conds →
      τ.pc = off → τ.vals = subj :: vs → CondsSlots τ.env.length conds →
      SelTestSpec code τ stmts nextCase (anyMatches τ.env p subj conds)
  | [], _, _, _, hne, _, _, _, _, _ => absurd rfl hne
  | [c], off, ei, τ, _, hc, hst, hpc, hv, hs => by
    simp only [compileConds] at hc
    simp only [sizeConds] at hst
    have h := caseExpr_correct code p nextCase off τ subj vs c hc hpc hv hs.1
    rw [anyMatches_cons]
    subst hst
    cases hm : caseMatches τ.env p subj c with
    | error o => rw [hm] at h; exact h
    | ok b =>
      rw [hm] at h
      cases b with
      | true => exact h
      | false => exact h
  | c :: d :: rest, off, ei, τ, _, hc, hst, hpc, hv, hs => by
    simp only [compileConds] at hc
    simp only [sizeConds] at hst
    have h := caseExpr_correct code p (off + sizeCaseExpr c + 1) off τ subj vs c
      hc.append_left.append_left.append_left hpc hv hs.1
    have hjmp : code[off + sizeCaseExpr c]? = some (CInstr.jump stmts, p) := by
      have := hc.append_left.append_left.append_right.head
      simp only [len_caseExpr] at this
      exact this
    have hlab : code[off + sizeCaseExpr c + 1]? =
        some (CInstr.label (labelName ("case-multi-expr-" ++ toString bi ++ "-" ++ toString (ei + 1)) p sfx), p) := by
      have := hc.append_left.append_right.head
      simp only [List.length_append, List.length_singleton, len_caseExpr] at this
      exact this
    have hrest : CodeAt code (off + sizeCaseExpr c + 1 + 1)
        (compileConds p sfx bi nextCase stmts (off + sizeCaseExpr c + 1 + 1) (ei + 1) (d :: rest)) := by
      have := hc.append_right
      simp only [List.length_append, List.length_singleton, len_caseExpr] at this
      exact this
    rw [anyMatches_cons]
    cases hm : caseMatches τ.env p subj c with
    | error o => rw [hm] at h; exact h.error
    | ok b =>
      rw [hm] at h
      cases b with
      | true =>
        simp only [SelTestSpec] at h ⊢
        obtain ⟨τ', st, hp', hk⟩ := h
        have hj' : code[τ'.pc]? = some (CInstr.jump stmts, p) := by rw [hp']; exact hjmp
        have s1 : Vm.step code τ' = .next { τ' with pc := stmts } := by simp only [Vm.step, hj']
        exact ⟨{ τ' with pc := stmts }, st.trans (Steps.one s1), rfl,
          hk.trans ⟨rfl, rfl, rfl, rfl, rfl, rfl, rfl, rfl, rfl, rfl⟩⟩
      | false =>
        simp only [SelTestSpec] at h
        obtain ⟨τ', st, hp', hk⟩ := h
        have hl' : code[τ'.pc]? = some (CInstr.label
            (labelName ("case-multi-expr-" ++ toString bi ++ "-" ++ toString (ei + 1)) p sfx), p) := by
          rw [hp']; exact hlab
        have s1 : Vm.step code τ' = .next (advance τ') := by simp only [Vm.step, hl']
        have hk1 : SelKeeps τ (advance τ') := hk.trans ⟨rfl, rfl, rfl, rfl, rfl, rfl, rfl, rfl, rfl, rfl⟩
        have ih := conds_correct code p sfx bi nextCase stmts subj vs (d :: rest) (off + sizeCaseExpr c + 1 + 1)
          (ei + 1) (advance τ') (by simp) hrest (by omega) (by simp only [advance, hp'])
          (by rw [hk1.vals]; exact hv) (by rw [hk1.env]; exact hs.2)
        rw [hk1.env] at ih
        exact SelTestSpec.prefix (st.trans (Steps.one s1)) hk1 ih

/-! ### the blocks -/

/-- a `Jump a` right behind a statement: its normal end continues at `a` -/
theorem StmtSpec.sel_then_jump {C : Ctx} {d e fin a : Nat} {p : Pos} {σ : Vm} {r : St × Outcome}
    (h : StmtSpec C d e fin σ r) (hj : C.code[fin]? = some (CInstr.jump a, p)) : StmtSpec C d e a σ r := by
  obtain ⟨s', o⟩ := r
  cases o with
  | normal =>
    obtain ⟨τ, st, hp, hr, hss⟩ := h
    have hj' : C.code[τ.pc]? = some (CInstr.jump a, p) := by rw [hp]; exact hj
    have s1 : Vm.step C.code τ = .next { τ with pc := a } := by simp only [Vm.step, hj']
    exact ⟨{ τ with pc := a }, st.trans (Steps.one s1), rfl, hr.setPc _, ⟨hss.1, hss.2.1, hss.2.2.1, hss.2.2.2⟩⟩
  | halted => exact h
  | jump L => exact h
  | ret q => exact h
  | error c q => exact h
  | inexact => trivial
  | outOfFuel => trivial
  | illFormed => trivial
  | notHere => trivial

/-- the address of the statements of a CASE block whose `caseN` label is at `off` -/
@[reducible] def selBodyOff (off : Nat) (conds : List CaseExpr) : Nat :=
  off + 1 + sizeConds conds + (if conds.length > 1 then 1 else 0)

/-- the pieces of the code of one CASE block -/
theorem cases_cons_layout {code : Code} {env : LEnv} {sfx : String} {d e : Nat} {p : Pos} {endOff elseOff off i : Nat}
    {conds : List CaseExpr} {body : SStmt} {rest : SCases}
    (hc : CodeAt code off (compileCases env sfx d e p endOff elseOff off i (.cons conds body rest))) :
    code[off]? = some (CInstr.label (labelName ("case" ++ toString i) p sfx), p) ∧
    CodeAt code (off + 1) (compileConds p sfx i (selBodyOff off conds + sizeStmt env.dp d e body + 1)
      (off + 1 + sizeConds conds) (off + 1) 0 conds) ∧
    (∀ τ : Vm, τ.pc = off + 1 + sizeConds conds →
      ∃ τ', Steps code τ τ' ∧ τ'.pc = selBodyOff off conds ∧ SelKeeps τ τ') ∧
    CodeAt code (selBodyOff off conds) (compileStmt env sfx d e (selBodyOff off conds) body) ∧
    code[selBodyOff off conds + sizeStmt env.dp d e body]? = some (CInstr.jump endOff, p) ∧
    CodeAt code (selBodyOff off conds + sizeStmt env.dp d e body + 1)
      (compileCases env sfx d e p endOff elseOff (selBodyOff off conds + sizeStmt env.dp d e body + 1) (i + 1) rest) := by
  simp only [compileCases, decide_eq_true_eq] at hc
  simp only [selBodyOff]
  obtain ⟨m, L, hm, hL, hLlen, hLstep⟩ : ∃ (m : Nat) (L : Code),
      (if conds.length > 1 then 1 else 0) = m ∧
      (if conds.length > 1 then [(CInstr.label (labelName ("case-statements" ++ toString i) p sfx), p)]
        else []) = L ∧
      L.length = m ∧
      (∀ q, CodeAt code q L → ∀ τ : Vm, τ.pc = q → ∃ τ', Steps code τ τ' ∧ τ'.pc = q + m ∧ SelKeeps τ τ') := by
    by_cases hmul : conds.length > 1
    · refine ⟨1, [(CInstr.label (labelName ("case-statements" ++ toString i) p sfx), p)], by simp [hmul],
        by simp [hmul], rfl, ?_⟩
      intro q hq τ hτ
      have h0 : code[τ.pc]? = some (CInstr.label (labelName ("case-statements" ++ toString i) p sfx), p) := by
        rw [hτ]; exact hq.head
      exact ⟨advance τ, Steps.one (by simp only [Vm.step, h0]), by simp [advance, hτ],
        ⟨rfl, rfl, rfl, rfl, rfl, rfl, rfl, rfl, rfl, rfl⟩⟩
    · refine ⟨0, [], by simp [hmul], by simp [hmul], rfl, ?_⟩
      intro q _ τ hτ
      exact ⟨τ, Steps.refl τ, by omega, SelKeeps.refl τ⟩
  simp only [hm, hL] at hc ⊢
  clear hm hL
  have hlab : code[off]? = some (CInstr.label (labelName ("case" ++ toString i) p sfx), p) :=
    hc.append_left.append_left.append_left.append_left.append_left.head
  have hcc : CodeAt code (off + 1) (compileConds p sfx i (off + 1 + sizeConds conds + m + sizeStmt env.dp d e body + 1)
      (off + 1 + sizeConds conds) (off + 1) 0 conds) := by
    have := hc.append_left.append_left.append_left.append_left.append_right
    simpa only [List.length_singleton] using this
  have hcL : CodeAt code (off + 1 + sizeConds conds) L := by
    have := hc.append_left.append_left.append_left.append_right
    simp only [List.length_append, List.length_singleton, len_conds] at this
    have e1 : off + (1 + sizeConds conds) = off + 1 + sizeConds conds := by omega
    rw [e1] at this
    exact this
  have hcb : CodeAt code (off + 1 + sizeConds conds + m)
      (compileStmt env sfx d e (off + 1 + sizeConds conds + m) body) := by
    have := hc.append_left.append_left.append_right
    simp only [List.length_append, List.length_singleton, len_conds, hLlen] at this
    have e1 : off + (1 + sizeConds conds + m) = off + 1 + sizeConds conds + m := by omega
    rw [e1] at this
    exact this
  have hj : code[off + 1 + sizeConds conds + m + sizeStmt env.dp d e body]? = some (CInstr.jump endOff, p) := by
    have := hc.append_left.append_right.head
    simp only [List.length_append, List.length_singleton, len_conds, len_stmt, hLlen] at this
    rw [← this]; congr 1; omega
  have hcr : CodeAt code (off + 1 + sizeConds conds + m + sizeStmt env.dp d e body + 1)
      (compileCases env sfx d e p endOff elseOff (off + 1 + sizeConds conds + m + sizeStmt env.dp d e body + 1) (i + 1)
        rest) := by
    have := hc.append_right
    simp only [List.length_append, List.length_singleton, len_conds, len_stmt, hLlen] at this
    have e1 : off + (1 + sizeConds conds + m + sizeStmt env.dp d e body + 1) =
        off + 1 + sizeConds conds + m + sizeStmt env.dp d e body + 1 := by omega
    rw [e1] at this
    exact this
  exact ⟨hlab, hcc, fun τ hτ => hLstep _ hcL τ hτ, hcb, hj, hcr⟩

/-- run mode, the CASE blocks: running from the label of block `i` does what `execCases` prescribes and, on a normal end,
arrives at `endOff`; `htail` says what happens once all blocks have been tried and control is at `elseOff`.  `e` is the
depth of the blocks (the SELECT counted); the selector is on top of the value stack. -/
theorem cases_correct (C : Ctx) (fuel : Nat) (ih : StmtIHle C fuel) (sfx : String) (p : Pos) (d e : Nat)
    (endOff elseOff : Nat) (subj : Val) (vs : List Val) (tail : Cases) (s : St) (he : e ≤ vs.length + 1)
    (htail : ∀ f, f ≤ fuel → ∀ σ : Vm, σ.pc = elseOff → Rel C.sl s σ → σ.vals = subj :: vs → d ≤ σ.regStack.length →
      StmtSpec C d e endOff σ (execCases f C.P p subj tail s)) :
    ∀ (cs : SCases) (f : Nat), f ≤ fuel → ∀ (off i : Nat) (σ : Vm),
      CodeAt C.code off (compileCases C.env sfx d e p endOff elseOff off i cs) →
      off + sizeCases C.env.dp d e cs = elseOff → LabAtCases C.env d e off cs → WfCases C.sl C.env.dp d e cs →
      σ.pc = off → Rel C.sl s σ → σ.vals = subj :: vs → d ≤ σ.regStack.length →
      StmtSpec C d e endOff σ (execCases f C.P p subj (desugarCases cs tail) s)
  | .nil, f, hf, off, i, σ, hc, hsz, hl, hw, hpc, hr, hv, hd => by
    simp only [desugarCases]
    simp only [sizeCases] at hsz
    exact htail f hf σ (by omega) hr hv hd
  | .cons conds body rest, f, hf, off, i, σ, hc, hsz, hl, hw, hpc, hr, hv, hd => by
    cases f with
    | zero => simp only [desugarCases, execCases, StmtSpec]
    | succ f' =>
      simp only [desugarCases, execCases]
      obtain ⟨hlab, hcc, hLstep, hcb, hj, hcr⟩ := cases_cons_layout hc
      obtain ⟨hne, hcs, hwb, hwr⟩ := hw
      obtain ⟨hlb, hlr⟩ := hl.cons
      simp only [sizeCases] at hsz
      subst hpc
      have s1 : Vm.step C.code σ = .next (advance σ) := by simp only [Vm.step, hlab]
      have henv1 : (advance σ).env = s.env := hr.env
      have hk0 : SelKeeps σ (advance σ) := ⟨rfl, rfl, rfl, rfl, rfl, rfl, rfl, rfl, rfl, rfl⟩
      have hconds := conds_correct C.code p sfx i (selBodyOff σ.pc conds + sizeStmt C.env.dp d e body + 1)
        (σ.pc + 1 + sizeConds conds) subj vs conds (σ.pc + 1) 0 (advance σ) hne hcc rfl rfl hv
        (by rw [henv1, hr.typed.len]; exact hcs)
      rw [henv1] at hconds
      cases ham : anyMatches s.env p subj conds with
      | error o =>
        rw [ham] at hconds
        rcases anyMatches_error_kind _ ham with ⟨cd, q, rfl⟩ | rfl
        · simp only [SelTestSpec] at hconds
          simp only [StmtSpec]
          refine ⟨s.env, ?_⟩
          have := ErrsWith.of_steps (Steps.one s1) hconds
          rw [← hr.env, ← hr.out]
          exact this
        · trivial
      | ok b =>
        rw [ham] at hconds
        cases b with
        | true =>
          simp only [SelTestSpec] at hconds
          obtain ⟨τ', st, hp', hk⟩ := hconds
          obtain ⟨τ'', st2, hp'', hk2⟩ := hLstep τ' hp'
          have hk3 : SelKeeps σ τ'' := (hk0.trans hk).trans hk2
          have hb := ih f' (by omega) body sfx d e _ .run τ'' s hcb hlb hwb hp'' (hk3.rel hr)
            (by rw [hk3.regStack]; exact hd) (by rw [hk3.vals, hv]; simpa using he)
          exact StmtSpec.of_steps ((Steps.cons s1 st).trans st2) hk3.stacks (hb.sel_then_jump hj)
        | false =>
          simp only [SelTestSpec] at hconds
          obtain ⟨τ', st, hp', hk⟩ := hconds
          have hk3 : SelKeeps σ τ' := hk0.trans hk
          have hrec := cases_correct C fuel ih sfx p d e endOff elseOff subj vs tail s he htail rest f' (by omega)
            _ (i + 1) τ' hcr (by simp only [selBodyOff] at hsz ⊢; omega) hlr hwr hp' (hk3.rel hr)
            (by rw [hk3.vals]; exact hv) (by rw [hk3.regStack]; exact hd)
          exact StmtSpec.of_steps (Steps.cons s1 st) hk3.stacks hrec

/-- seek mode, the CASE blocks: the VM is at the label `L`, which is inside one of the blocks (or in the CASE ELSE part:
`htail`); no test runs, the block is entered at the label and, on a normal end, control arrives at `endOff` -/
theorem seek_cases_correct (C : Ctx) (fuel : Nat) (ih : StmtIHle C fuel) (sfx : String) (p : Pos) (d e : Nat)
    (endOff elseOff : Nat) (tail : Cases) (tl : List Nat)
    (htail : ∀ f, f ≤ fuel → ∀ (L : Nat) (σ : Vm) (s : St), L ∈ tl → σ.pc = C.env.addr L → Rel C.sl s σ →
      d ≤ σ.regStack.length → e ≤ σ.vals.length → StmtSpec C d e endOff σ (seekCases f C.P tail L s)) :
    ∀ (cs : SCases) (f : Nat), f ≤ fuel → ∀ (off i : Nat) (L : Nat) (σ : Vm) (s : St),
      CodeAt C.code off (compileCases C.env sfx d e p endOff elseOff off i cs) →
      LabAtCases C.env d e off cs → WfCases C.sl C.env.dp d e cs →
      L ∈ cs.labels ++ tl → σ.pc = C.env.addr L → Rel C.sl s σ → d ≤ σ.regStack.length → e ≤ σ.vals.length →
      StmtSpec C d e endOff σ (seekCases f C.P (desugarCases cs tail) L s)
  | .nil, f, hf, off, i, L, σ, s, hc, hl, hw, hL, hpc, hr, hd, he => by
    simp only [desugarCases]
    simp only [SCases.labels, List.nil_append] at hL
    exact htail f hf L σ s hL hpc hr hd he
  | .cons conds body rest, f, hf, off, i, L, σ, s, hc, hl, hw, hL, hpc, hr, hd, he => by
    cases f with
    | zero => simp only [desugarCases, seekCases, StmtSpec]
    | succ f' =>
      simp only [desugarCases, seekCases]
      obtain ⟨_, _, _, hcb, hj, hcr⟩ := cases_cons_layout hc
      obtain ⟨hne, hcs, hwb, hwr⟩ := hw
      obtain ⟨hlb, hlr⟩ := hl.cons
      by_cases hLb : (desugar body).hasLabel L = true
      · simp only [hLb, if_true]
        have hb := ih f' (by omega) body sfx d e _ (.seek L) σ s hcb hlb hwb ⟨(hasLabel_iff hwb L).mp hLb, hpc⟩ hr hd he
        exact hb.sel_then_jump hj
      · simp only [hLb]
        have hL' : L ∈ rest.labels ++ tl := by
          simp only [SCases.labels, List.mem_append] at hL ⊢
          rcases hL with (h | h) | h
          · exact absurd ((hasLabel_iff hwb L).mpr h) hLb
          · exact .inl h
          · exact .inr h
        exact seek_cases_correct C fuel ih sfx p d e endOff elseOff tail tl htail rest f' (by omega) _ (i + 1) L σ s
          hcr hlr hwr hL' hpc hr hd he

/-- **the jump-handling rule of a SELECT**: a jump that came out of a block to a label in a block of the same SELECT has
arrived at the label with the stacks of the entry state (the selector still on the value stack): the blocks are re-entered
in seek mode -/
theorem select_catch {C : Ctx} {d e endOff : Nat} {cs' : Cases} {labs : List Nat} {f : Nat}
    (hlabs : ∀ L, cs'.hasLabel L = true → L ∈ labs)
    (hdepth : ∀ L, L ∈ labs → d ≤ C.env.dp.fd L ∧ e ≤ C.env.dp.sd L)
    (hseek : ∀ (L : Nat) (σ : Vm) (s : St), L ∈ labs → σ.pc = C.env.addr L → Rel C.sl s σ → d ≤ σ.regStack.length →
      e ≤ σ.vals.length → StmtSpec C d e endOff σ (selectSeek f C.P cs' L s))
    {σ : Vm} (r1 : St × Outcome) (h1 : StmtSpec C d e endOff σ r1) (hd : d ≤ σ.regStack.length) (he : e ≤ σ.vals.length) :
    StmtSpec C d e endOff σ
      (match (generalizing := false) r1 with
       | (s', .jump L) => if cs'.hasLabel L = true then selectSeek f C.P cs' L s' else (s', .jump L)
       | r => r) := by
  obtain ⟨s1, o1⟩ := r1
  cases o1 with
  | jump L =>
    simp only
    by_cases hL : cs'.hasLabel L = true
    · simp only [hL, if_true]
      obtain ⟨g1, g2⟩ := hdepth L (hlabs L hL)
      obtain ⟨τ, st, hp, hr, e1, e2, e3, e4⟩ := h1
      have hd0 : d - C.env.dp.fd L = 0 := by omega
      have he0 : e - C.env.dp.sd L = 0 := by omega
      rw [hd0] at e1; rw [he0] at e2
      have hss : SameStacks σ τ := ⟨by simpa using e1, by simpa using e2, e3, e4⟩
      have := hseek L τ s1 (hlabs L hL) hp hr (by rw [hss.1]; exact hd) (by rw [hss.2.1]; exact he)
      exact StmtSpec.of_steps st hss this
    · simp only [hL]
      exact h1
  | normal => exact h1
  | halted => exact h1
  | ret q => exact h1
  | error c q => exact h1
  | inexact => trivial
  | outOfFuel => trivial
  | illFormed => trivial
  | notHere => trivial

/-- `selectSeek`: the block that contains the label is entered, jumps between the blocks are followed -/
theorem select_seek_correct {C : Ctx} {fuel : Nat} {d e endOff : Nat} {cs' : Cases} {labs : List Nat}
    (hlabs : ∀ L, cs'.hasLabel L = true → L ∈ labs)
    (hdepth : ∀ L, L ∈ labs → d ≤ C.env.dp.fd L ∧ e ≤ C.env.dp.sd L)
    (hseekc : ∀ f, f ≤ fuel → ∀ (L : Nat) (σ : Vm) (s : St), L ∈ labs → σ.pc = C.env.addr L → Rel C.sl s σ →
      d ≤ σ.regStack.length → e ≤ σ.vals.length → StmtSpec C d e endOff σ (seekCases f C.P cs' L s)) :
    ∀ f, f ≤ fuel → ∀ (L : Nat) (σ : Vm) (s : St), L ∈ labs → σ.pc = C.env.addr L → Rel C.sl s σ →
      d ≤ σ.regStack.length → e ≤ σ.vals.length → StmtSpec C d e endOff σ (selectSeek f C.P cs' L s) := by
  intro f
  induction f with
  | zero =>
    intro _ L σ s _ _ _ _ _
    simp only [selectSeek, StmtSpec]
  | succ f ihf =>
    intro hf L σ s hL hpc hr hd he
    simp only [selectSeek]
    have h1 := hseekc f (by omega) L σ s hL hpc hr hd he
    exact select_catch hlabs hdepth (ihf (by omega)) _ h1 hd he

/-- leaving the SELECT: the result of the blocks (relative to the state `σ4` that carries the selector on the value stack)
as a result of the whole statement (relative to the entry state `σ`) -/
theorem select_exit {C : Ctx} {d e fin endOff : Nat} {p : Pos} {n1 n2 : String} {σ σ4 : Vm} {subj : Val}
    (pre : Steps C.code σ σ4) (hv : σ4.vals = subj :: σ.vals) (hrs : σ4.regStack = σ.regStack)
    (hpa : σ4.paths = σ.paths) (hgs : σ4.gosubs = σ.gosubs)
    (hend : CodeAt C.code endOff [(CInstr.label n1, p), (CInstr.popA, p), (CInstr.label n2, p)])
    (hfin : fin = endOff + 3)
    (r : St × Outcome) (h : StmtSpec C d (e + 1) endOff σ4 r)
    (hdep : ∀ s' L, r = (s', .jump L) → C.env.dp.sd L ≤ e) :
    StmtSpec C d e fin σ r := by
  obtain ⟨s', o⟩ := r
  cases o with
  | normal =>
    obtain ⟨τ, st3, hp3, hrel3, hss3⟩ := h
    have hl0 : C.code[τ.pc]? = some (CInstr.label n1, p) := by rw [hp3]; exact hend.head
    let τ0 : Vm := advance τ
    have s4 : Vm.step C.code τ = .next τ0 := by simp only [Vm.step, hl0]; rfl
    have hv3 : τ0.vals = subj :: σ.vals := by show τ.vals = _; rw [hss3.2.1, hv]
    have hpop' : C.code[τ0.pc]? = some (CInstr.popA, p) := by
      show C.code[τ.pc + 1]? = _; rw [hp3]; exact hend.tail.head
    let τ1 : Vm := advance { setA τ0 subj with vals := σ.vals }
    have s5 : Vm.step C.code τ0 = .next τ1 := by simp only [Vm.step, hpop', hv3]; rfl
    have hskip' : C.code[τ1.pc]? = some (CInstr.label n2, p) := by
      show C.code[τ.pc + 1 + 1]? = _; rw [hp3]; exact hend.tail.tail.head
    have s6 : Vm.step C.code τ1 = .next (advance τ1) := by simp only [Vm.step, hskip']
    refine ⟨advance τ1, (pre.trans st3).trans (Steps.cons s4 (Steps.cons s5 (Steps.one s6))), ?_, ?_, ?_⟩
    · show τ.pc + 1 + 1 + 1 = fin; rw [hp3, hfin]
    · exact hrel3.same rfl rfl rfl rfl rfl rfl
    · exact ⟨by show τ.regStack = _; rw [hss3.1, hrs], rfl, by show τ.paths = _; rw [hss3.2.2.1, hpa],
        by show τ.gosubs = _; rw [hss3.2.2.2, hgs]⟩
  | jump L =>
    obtain ⟨τ, st, hp, hrel, h1, h2, h3, h4⟩ := h
    have hsd := hdep s' L rfl
    refine ⟨τ, pre.trans st, hp, hrel, by rw [h1, hrs], ?_, by rw [h3, hpa], by rw [h4, hgs]⟩
    rw [h2, hv]
    have e1 : e + 1 - C.env.dp.sd L = (e - C.env.dp.sd L) + 1 := by omega
    rw [e1, List.drop_succ_cons]
  | ret q =>
    obtain ⟨τ, st, hp, hrel, ⟨X, hX⟩, ⟨Y, hY⟩, h3, h4⟩ := h
    exact ⟨τ, pre.trans st, hp, hrel, ⟨X, by rw [hX, hrs]⟩, ⟨Y, by rw [hY, hv, List.drop_succ_cons]⟩, by rw [h3, hpa],
      by rw [h4, hgs]⟩
  | halted =>
    obtain ⟨τ, υ, st, hh, hrel⟩ := h
    exact ⟨τ, υ, pre.trans st, hh, hrel⟩
  | error c q =>
    obtain ⟨ev, h3⟩ := h
    exact ⟨ev, ErrsWith.of_steps pre h3⟩
  | inexact => trivial
  | outOfFuel => trivial
  | illFormed => trivial
  | notHere => trivial

/-- the optional CASE ELSE part, abstractly: its size `k`, what it desugars to (`T`), its code (`E`), and what running it /
entering it at a label does -/
theorem select_tail (C : Ctx) (fuel : Nat) (ih : StmtIHle C fuel) (hasElse : Bool) (els : SStmt) (p : Pos) (sfx : String)
    (d e elseOff : Nat) (hwe : Wf C.sl C.env.dp d e els) (hne : hasElse = false → els = .skip)
    (hle : hasElse = true → LabAt C.env d e (elseOff + 1) els) :
    ∃ (k : Nat) (T : Cases) (E : Code),
      (if hasElse = true then 1 + sizeStmt C.env.dp d e els else 0) = k ∧
      (if hasElse = true then Cases.else_ (desugar els) else Cases.nil) = T ∧
      (if hasElse = true then [(CInstr.label (labelName "case-else" p sfx), p)] ++
        compileStmt C.env sfx d e (elseOff + 1) els else []) = E ∧
      E.length = k ∧ T.labels = els.labels ∧
      (∀ L, L ∈ els.labels → d ≤ C.env.dp.fd L ∧ e ≤ C.env.dp.sd L) ∧
      (CodeAt C.code elseOff E → ∀ f, f ≤ fuel → ∀ (pp : Pos) (subj : Val) (τ : Vm) (s : St), τ.pc = elseOff →
        Rel C.sl s τ → d ≤ τ.regStack.length → e ≤ τ.vals.length →
        StmtSpec C d e (elseOff + k) τ (execCases f C.P pp subj T s)) ∧
      (CodeAt C.code elseOff E → ∀ f, f ≤ fuel → ∀ (L : Nat) (τ : Vm) (s : St), L ∈ els.labels →
        τ.pc = C.env.addr L → Rel C.sl s τ → d ≤ τ.regStack.length → e ≤ τ.vals.length →
        StmtSpec C d e (elseOff + k) τ (seekCases f C.P T L s)) := by
  cases hasElse with
  | false =>
    have hsk := hne rfl
    subst hsk
    refine ⟨0, Cases.nil, [], by simp, by simp, by simp, rfl, rfl, ?_, ?_, ?_⟩
    · intro L hL; simp [SStmt.labels] at hL
    · intro _ f hf pp subj τ s hτ hrτ _ _
      cases f with
      | zero => simp only [execCases, StmtSpec]
      | succ f' =>
        simp only [execCases, StmtSpec]
        exact ⟨τ, Steps.refl τ, by omega, hrτ, SameStacks.refl τ⟩
    · intro _ f hf L τ s hL
      simp [SStmt.labels] at hL
  | true =>
    have hl := hle rfl
    refine ⟨1 + sizeStmt C.env.dp d e els, Cases.else_ (desugar els),
      [(CInstr.label (labelName "case-else" p sfx), p)] ++ compileStmt C.env sfx d e (elseOff + 1) els,
      by simp, by simp, by simp, by simp [len_stmt]; omega, ?_, ?_, ?_, ?_⟩
    · simp only [Cases.labels]; exact labels_desugar C.sl C.env.dp els d e hwe
    · intro L hL; exact hl.depth_ge hL
    · intro hcE f hf pp subj τ s hτ hrτ hdτ heτ
      cases f with
      | zero => simp only [execCases, StmtSpec]
      | succ f' =>
        simp only [execCases]
        have hl0 : C.code[τ.pc]? = some (CInstr.label (labelName "case-else" p sfx), p) := by
          rw [hτ]; exact hcE.append_left.head
        have s1 : Vm.step C.code τ = .next (advance τ) := by simp only [Vm.step, hl0]
        have hcb : CodeAt C.code (elseOff + 1) (compileStmt C.env sfx d e (elseOff + 1) els) := by
          have := hcE.append_right
          simpa only [List.length_singleton] using this
        have hb := ih f' (by omega) els sfx d e _ .run (advance τ) s hcb hl hwe (by simp only [Entry, advance, hτ])
          hrτ.advance hdτ heτ
        exact StmtSpec.of_steps (Steps.one s1) ⟨rfl, rfl, rfl, rfl⟩ (hb.addr (by omega))
    · intro hcE f hf L τ s hL hτ hrτ hdτ heτ
      cases f with
      | zero => simp only [seekCases, StmtSpec]
      | succ f' =>
        simp only [seekCases]
        have hcb : CodeAt C.code (elseOff + 1) (compileStmt C.env sfx d e (elseOff + 1) els) := by
          have := hcE.append_right
          simpa only [List.length_singleton] using this
        have hb := ih f' (by omega) els sfx d e _ (.seek L) τ s hcb hl hwe ⟨hL, hτ⟩ hrτ hdτ heτ
        exact hb.addr (by omega)

/-! ### the statement -/

theorem case_select (C : Ctx) (hC : C.Ok) (fuel : Nat) (ih : StmtIHle C fuel) (sel : Ast.Expr) (cases : SCases) (hasElse : Bool)
    (els : SStmt) (p : Pos) (sfx : String) (d e off : Nat) (m : Mode) (σ : Vm) (s : St)
    (hc : CodeAt C.code off (compileStmt C.env sfx d e off (.select sel cases hasElse els p)))
    (hl : LabAt C.env d e off (.select sel cases hasElse els p))
    (hw : Wf C.sl C.env.dp d e (.select sel cases hasElse els p))
    (hen : Entry C.env off (.select sel cases hasElse els p) m σ) (hr : Rel C.sl s σ)
    (hd : d ≤ σ.regStack.length) (he : e ≤ σ.vals.length) :
    StmtSpec C d e (off + sizeStmt C.env.dp d e (.select sel cases hasElse els p)) σ
      (exec (fuel + 1) C.P (desugar (.select sel cases hasElse els p)) m s) := by
  cases m with
  | seek L =>
    -- a SELECT is not entered from outside in seek mode
    simp only [desugar, exec]
    generalize Cases.hasLabel _ L = bb
    cases bb
    · simp only [Bool.false_eq_true, if_false, StmtSpec]
    · simp only [if_true, StmtSpec]
  | run =>
    have hpc : σ.pc = off := hen
    -- a jump that leaves the SELECT names a label that is not deeper than the SELECT
    have hdepOut : ∀ s' L, exec (fuel + 1) C.P (desugar (.select sel cases hasElse els p)) .run s = (s', .jump L) →
        C.env.dp.sd L ≤ e := fun s' L h => (jump_depths hw h).2.2
    simp only [compileStmt] at hc
    obtain ⟨hlc, hle⟩ := hl.select
    obtain ⟨hse, hwc, hwe, hnoelse, _⟩ := hw
    have hev0 := compileExpr_correct C.code sel off σ hc.append_left.append_left.append_left.append_left.append_left hpc
      (by rw [hr.env, hr.typed.len]; exact hse)
    simp only [ExprSpec] at hev0
    rw [hr.env] at hev0
    simp only [desugar, exec, sizeStmt, evalE] at hdepOut ⊢
    cases hev : eval s.env sel with
    | err c q =>
      simp only [hev] at hev0 ⊢
      simp only [StmtSpec]
      rw [← hr.out]
      exact ⟨_, hev0⟩
    | inexact => simp only [StmtSpec]
    | ok subj =>
      simp only [hev] at hev0 hdepOut ⊢
      obtain ⟨b, st⟩ := hev0
      obtain ⟨k, T, E, hk, hT, hE, hElen, hTlab, hdepE, htailRun, htailSeek⟩ :=
        select_tail C fuel ih hasElse els p sfx d (e + 1)
          (off + (compileExpr sel).length + 1 + 3 + sizeCases C.env.dp d (e + 1) cases) hwe hnoelse hle
      simp only [hk, hT, hE] at hc hdepOut ⊢
      clear hk hT hE
      have hpush : C.code[off + (compileExpr sel).length]? = some (CInstr.pushA, p) :=
        hc.append_left.append_left.append_left.append_left.append_right.head
      have hjb : C.code[off + (compileExpr sel).length + 1]? =
          some (CInstr.jump (off + (compileExpr sel).length + 1 + 3 - 1), p) := by
        have := hc.append_left.append_left.append_left.append_right.head
        simp only [List.length_append, List.length_singleton] at this
        rw [← this]; congr 1
      have hlb : C.code[off + (compileExpr sel).length + 1 + 3 - 1]? =
          some (CInstr.label (labelName "select-begin" p sfx), p) := by
        have := hc.append_left.append_left.append_left.append_right.tail.tail.head
        simp only [List.length_append, List.length_singleton] at this
        rw [← this]; congr 1
      have hcc : CodeAt C.code (off + (compileExpr sel).length + 1 + 3)
          (compileCases C.env sfx d (e + 1) p
            (off + (compileExpr sel).length + 1 + 3 + sizeCases C.env.dp d (e + 1) cases + k)
            (off + (compileExpr sel).length + 1 + 3 + sizeCases C.env.dp d (e + 1) cases)
            (off + (compileExpr sel).length + 1 + 3) 0 cases) := by
        have := hc.append_left.append_left.append_right
        simp only [List.length_append, List.length_singleton, List.length_cons, List.length_nil] at this
        have e1 : off + ((compileExpr sel).length + 1 + (0 + 1 + 1 + 1)) = off + (compileExpr sel).length + 1 + 3 := by
          omega
        rw [e1] at this
        exact this
      have hcE : CodeAt C.code (off + (compileExpr sel).length + 1 + 3 + sizeCases C.env.dp d (e + 1) cases) E := by
        have := hc.append_left.append_right
        simp only [List.length_append, List.length_singleton, List.length_cons, List.length_nil, len_cases] at this
        have e1 : off + ((compileExpr sel).length + 1 + (0 + 1 + 1 + 1) + sizeCases C.env.dp d (e + 1) cases) =
            off + (compileExpr sel).length + 1 + 3 + sizeCases C.env.dp d (e + 1) cases := by omega
        rw [e1] at this
        exact this
      have hend : CodeAt C.code (off + (compileExpr sel).length + 1 + 3 + sizeCases C.env.dp d (e + 1) cases + k)
          [(CInstr.label (labelName "end-select" p sfx), p), (CInstr.popA, p),
            (CInstr.label (labelName "select-skip" p sfx), p)] := by
        have := hc.append_right
        simp only [List.length_append, List.length_singleton, List.length_cons, List.length_nil, len_cases, hElen]
          at this
        have e1 : off + ((compileExpr sel).length + 1 + (0 + 1 + 1 + 1) + sizeCases C.env.dp d (e + 1) cases + k) =
            off + (compileExpr sel).length + 1 + 3 + sizeCases C.env.dp d (e + 1) cases + k := by omega
        rw [e1] at this
        exact this
      -- push the subject, jump to the `select-begin` label, step over it
      let σ1 : Vm := afterExpr σ (off + (compileExpr sel).length) subj b
      let σ2 : Vm := advance { σ1 with vals := subj :: σ.vals }
      let σ3 : Vm := { σ2 with pc := off + (compileExpr sel).length + 1 + 3 - 1 }
      let σ4 : Vm := advance σ3
      have s2 : Vm.step C.code σ1 = .next σ2 := by simp only [Vm.step, σ1, afterExpr, hpush]; rfl
      have s3 : Vm.step C.code σ2 = .next σ3 := by
        have h : C.code[σ2.pc]? = some (CInstr.jump (off + (compileExpr sel).length + 1 + 3 - 1), p) := hjb
        simp only [Vm.step, h] <;> rfl
      have s4 : Vm.step C.code σ3 = .next σ4 := by
        have h : C.code[σ3.pc]? = some (CInstr.label (labelName "select-begin" p sfx), p) := hlb
        simp only [Vm.step, h] <;> rfl
      have hr4 : Rel C.sl s σ4 := hr.same rfl rfl rfl rfl rfl rfl
      have pre : Steps C.code σ σ4 := st.trans (Steps.cons s2 (Steps.cons s3 (Steps.one s4)))
      have hd4 : d ≤ σ4.regStack.length := hd
      have he4 : e + 1 ≤ σ4.vals.length := by show e + 1 ≤ (subj :: σ.vals).length; simp only [List.length_cons]; omega
      -- the labels of the blocks
      have hlabs : ∀ L, (desugarCases cases T).hasLabel L = true → L ∈ cases.labels ++ els.labels := by
        intro L hL
        simp only [Cases.hasLabel, labels_desugarCases C.sl C.env.dp cases d (e + 1) hwc T, hTlab] at hL
        simpa using hL
      have hdepth : ∀ L, L ∈ cases.labels ++ els.labels → d ≤ C.env.dp.fd L ∧ e + 1 ≤ C.env.dp.sd L := by
        intro L hL
        rcases List.mem_append.mp hL with h | h
        · exact hlc.depth_ge h
        · exact hdepE L h
      -- the blocks entered at a label
      have hseekc := seek_cases_correct C fuel ih sfx p d (e + 1)
        (off + (compileExpr sel).length + 1 + 3 + sizeCases C.env.dp d (e + 1) cases + k)
        (off + (compileExpr sel).length + 1 + 3 + sizeCases C.env.dp d (e + 1) cases) T els.labels (htailSeek hcE)
      have hseek := select_seek_correct (cs' := desugarCases cases T) hlabs hdepth
        (fun f hf L τ s' hL hp' hr' hd' he' =>
          hseekc cases f hf _ 0 L τ s' hcc hlc hwc hL hp' hr' hd' he')
      -- the blocks from the first test
      have hcases := cases_correct C fuel ih sfx p d (e + 1)
        (off + (compileExpr sel).length + 1 + 3 + sizeCases C.env.dp d (e + 1) cases + k)
        (off + (compileExpr sel).length + 1 + 3 + sizeCases C.env.dp d (e + 1) cases) subj σ.vals T s (by omega)
        (fun f hf τ hp' hr' hv' hd' => htailRun hcE f hf p subj τ s hp' hr' hd'
          (by rw [hv']; simp only [List.length_cons]; omega))
        cases fuel (Nat.le_refl _) (off + (compileExpr sel).length + 1 + 3) 0 σ4 hcc rfl hlc hwc
        (by simp only [σ4, σ3, advance]; omega) hr4 rfl hd4
      have hinner := select_catch hlabs hdepth (hseek fuel (Nat.le_refl _)) _ hcases hd4 he4
      exact select_exit pre rfl rfl rfl rfl hend (by omega) _ hinner hdepOut

end RbThm.JmpLSim
