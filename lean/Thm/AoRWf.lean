import Thm.AoRProgWf
import Thm.AoRPropsTyping
import Thm.RecLWf
import RbModel.AoR.WfB
/-!
Layer AoR (arrays of records / of fixed-length strings) — a decidable form of the static premise `ProgWf` of
`AoR.compile_correct`, and of the premise `ProgTyped` of the property theorems of `Thm/AoRPropsTyping.lean`.

`progWfB prog = true` is what the driver evaluates on a concrete linted program (`RbModel/AoR/WfB.lean`, request `aor.wf`);
* `progWfB_sound` shows it implies `ProgWf prog` (the type table satisfies `Spec.TypesWf`, the body is well formed, the
  DATA items hold no NUL): port of `Thm/RecLWf.lean` + the array clauses of `Thm/ArrLWf.lean`; `eWfB_sound` / `idxWfB_sound`
  are the soundness of the expression checker for `AoRTy.ExprTyped` / `AoRTy.IdxTyped`;
* `progWf_typed` / `progWfB_typed` show that `ProgWf prog` (hence `progWfB prog = true`) implies
  `AoRProps.ProgTyped prog.toAst`, the premise of `fixed_string_always_n_chars`; `fixed_string_always_n_chars_checked` and
  `exec_preserves_typing_checked` are the property theorems under the EVALUATED premise.
-/
namespace RbThm.AoRSim
set_option linter.unusedVariables false
set_option linter.unusedSimpArgs false
open RbModel RbModel.Num RbModel.AoR RbModel.AoR.Compile RbModel.AoR.Vm
open RbModel.Ast (Pos)
open RbModel.RecL (ETy FTy FFields expand zeroOf typesWfB noNulValB pathTypedB isScB numTyB selRelOpB)
open RbThm.AoRTy

/-! ### expressions -/

theorem wf_numTyB_sound (t : ETy) (h : numTyB t = true) : NumTy t := by
  cases t with
  | sc q => simp only [numTyB, decide_eq_true_eq] at h; exact ⟨q, rfl, h⟩
  | fix n => simp [numTyB] at h
  | udt k => simp [numTyB] at h

theorem wf_elemTypedB_sound (types : List FFields) (arrs : List ETy) (a : Nat) (path : List String) (t : ETy)
    (h : elemTypedB types arrs a path t = true) : ElemTyped types arrs a path t := by
  unfold elemTypedB at h
  cases h1 : arrs[a]? with
  | none => simp [h1] at h
  | some et =>
    simp only [h1] at h
    cases h2 : expand types et with
    | none => simp [h2] at h
    | some root =>
      simp only [h2] at h
      cases h3 : root.at path with
      | none => simp [h3] at h
      | some ft =>
        simp only [h3, decide_eq_true_eq] at h
        exact ⟨et, root, ft, h1, h2, h3, h⟩

theorem wf_not_isNilP {idx : Exprs} (h : (!idx.isNil) = true) : ¬ Exprs.isNilP idx := by
  cases idx with
  | nil => simp [Exprs.isNil] at h
  | cons e rest => simp only [Exprs.isNilP, not_false_eq_true]

mutual
/-- the expression checker is sound for the static typing `AoRTy.ExprTyped` (= `EWf`) -/
theorem eWfB_sound (sc : Scope) : ∀ e, eWfB sc.types sc.slots sc.arrs e = true → EWf sc e
  | .lit v _, h => by
    simp only [eWfB] at h
    simp only [EWf, ExprTyped]; exact RbThm.RecLSim.noNulValB_sound v h
  | .var x path t _, h => by
    simp only [eWfB] at h
    simp only [EWf, ExprTyped]; exact RbThm.RecLSim.pathTypedB_sound _ _ x path t h
  | .un _ e _, h => by
    simp only [eWfB, Bool.and_eq_true] at h
    simp only [EWf, ExprTyped]
    refine ⟨eWfB_sound sc e h.1, ?_⟩
    cases hty : e.ty with
    | sc t => exact ⟨t, rfl⟩
    | fix n => simp [hty, isScB] at h
    | udt k => simp [hty, isScB] at h
  | .bin op l r t _, h => by
    simp only [eWfB, Bool.and_eq_true] at h
    simp only [EWf, ExprTyped]
    refine ⟨eWfB_sound sc l h.1.1, eWfB_sound sc r h.1.2, ?_⟩
    have h2 := h.2
    cases hl : RecL.Ref.ETy.asTy l.ty with
    | none => simp [hl] at h2
    | some tl =>
      cases hr : RecL.Ref.ETy.asTy r.ty with
      | none => simp [hl, hr] at h2
      | some tr =>
        simp only [hl, hr, Bool.or_eq_true, decide_eq_true_eq] at h2
        exact ⟨tl, tr, rfl, rfl, h2⟩
  | .paren e _, h => by
    simp only [eWfB] at h
    simp only [EWf, ExprTyped]; exact eWfB_sound sc e h
  | .elem a idx path t _, h => by
    simp only [eWfB, Bool.and_eq_true] at h
    simp only [EWf, ExprTyped]
    exact ⟨wf_elemTypedB_sound _ _ a path t h.1.1, wf_not_isNilP h.1.2, idxWfB_sound sc idx h.2⟩
  | .bound _ a _ _, h => by
    simp only [eWfB, decide_eq_true_eq] at h
    simp only [EWf, ExprTyped]; exact h
  | .boundD _ a _ d _, h => by
    simp only [eWfB, Bool.and_eq_true, decide_eq_true_eq, Bool.not_eq_true'] at h
    simp only [EWf, ExprTyped]
    exact ⟨h.1.1.1, eWfB_sound sc d h.1.1.2, wf_numTyB_sound _ h.1.2, h.2⟩
/-- the subscript checker is sound for `AoRTy.IdxTyped` -/
theorem idxWfB_sound (sc : Scope) : ∀ idx, idxWfB sc.types sc.slots sc.arrs idx = true →
    IdxTyped sc.types sc.slots sc.arrs idx
  | .nil, _ => by simp only [IdxTyped]
  | .cons e rest, h => by
    simp only [idxWfB, Bool.and_eq_true] at h
    simp only [IdxTyped]
    exact ⟨eWfB_sound sc e h.1.1, wf_numTyB_sound _ h.1.2, idxWfB_sound sc rest h.2⟩
end

theorem itemsWfB_sound (sc : Scope) : ∀ items, itemsWfB sc.types sc.slots sc.arrs items = true → ItemsWf sc items
  | [], _ => trivial
  | .expr e :: rest, h => by
    simp only [itemsWfB, Bool.and_eq_true] at h
    exact ⟨eWfB_sound sc e h.1, itemsWfB_sound sc rest h.2⟩
  | .comma :: rest, h => by
    simp only [itemsWfB] at h
    simp only [ItemsWf]; exact itemsWfB_sound sc rest h
  | .semicolon :: rest, h => by
    simp only [itemsWfB] at h
    simp only [ItemsWf]; exact itemsWfB_sound sc rest h

theorem wf_selRelOpB_sound (op : Op) (h : selRelOpB op = true) : SelRelOp op := by
  simp only [selRelOpB, Bool.or_eq_true, decide_eq_true_eq] at h
  simp only [SelRelOp]
  rcases h with ((((h | h) | h) | h) | h) | h
  · exact .inl h
  · exact .inr (.inl h)
  · exact .inr (.inr (.inl h))
  · exact .inr (.inr (.inr (.inl h)))
  · exact .inr (.inr (.inr (.inr (.inl h))))
  · exact .inr (.inr (.inr (.inr (.inr h))))

theorem caseWfB_sound (sc : Scope) : ∀ c, caseWfB sc.types sc.slots sc.arrs c = true → CaseWf sc c
  | .simple e, h => eWfB_sound sc e h
  | .is op e, h => by
    simp only [caseWfB, Bool.and_eq_true] at h
    exact ⟨wf_selRelOpB_sound op h.1, eWfB_sound sc e h.2⟩
  | .range lo hi, h => by
    simp only [caseWfB, Bool.and_eq_true] at h
    exact ⟨eWfB_sound sc lo h.1, eWfB_sound sc hi h.2⟩

theorem condsWfB_sound (sc : Scope) : ∀ cs, condsWfB sc.types sc.slots sc.arrs cs = true → CondsWf sc cs
  | [], _ => trivial
  | c :: rest, h => by
    simp only [condsWfB, Bool.and_eq_true] at h
    exact ⟨caseWfB_sound sc c h.1, condsWfB_sound sc rest h.2⟩

theorem dimsWfB_sound (sc : Scope) : ∀ ds, dimsWfB sc.types sc.slots sc.arrs ds = true → DimsWf sc ds
  | .nil, _ => trivial
  | .cons none hi rest, h => by
    simp only [dimsWfB, Bool.and_eq_true] at h
    exact ⟨eWfB_sound sc hi h.1.1, wf_numTyB_sound _ h.1.2, dimsWfB_sound sc rest h.2⟩
  | .cons (some lo) hi rest, h => by
    simp only [dimsWfB, Bool.and_eq_true] at h
    obtain ⟨⟨⟨⟨h1, h2⟩, h3⟩, h4⟩, h5⟩ := h
    exact ⟨eWfB_sound sc lo h1, wf_numTyB_sound _ h2, eWfB_sound sc hi h3, wf_numTyB_sound _ h4,
      dimsWfB_sound sc rest h5⟩

theorem targetWfB_sound (sc : Scope) (tg : ReadTarget) (h : targetWfB sc.slots tg = true) : TargetWf sc tg := by
  simpa only [targetWfB, TargetWf, decide_eq_true_eq] using h

theorem wf_isSkipB_sound : ∀ s, isSkipB s = true → s = .skip := by
  intro s h; cases s <;> first | rfl | cases h

theorem wf_elseB_sound {hasElse : Bool} {els : SStmt} (h : (hasElse || isSkipB els) = true) :
    hasElse = false → els = .skip := by
  intro hf
  rw [hf] at h
  exact wf_isSkipB_sound els (by simpa using h)

/-! ### statements -/

mutual
theorem wfB_sound (sc : Scope) : ∀ s, wfB sc.types sc.slots sc.arrs s = true → Wf sc s
  | .skip, _ => trivial
  | .comment, _ => trivial
  | .seq a b, h => by
    simp only [wfB, Bool.and_eq_true] at h
    exact ⟨wfB_sound sc a h.1, wfB_sound sc b h.2⟩
  | .dim x t _, h => by
    simp only [wfB, Bool.and_eq_true, decide_eq_true_eq] at h
    exact h
  | .dimArr a t dims _, h => by
    simp only [wfB, Bool.and_eq_true, decide_eq_true_eq] at h
    exact ⟨h.1.1, h.1.2, dimsWfB_sound sc dims h.2⟩
  | .assign x path t e _, h => by
    simp only [wfB, Bool.and_eq_true] at h
    exact ⟨RbThm.RecLSim.pathTypedB_sound _ _ x path t h.1, eWfB_sound sc e h.2⟩
  | .assignElem a idx path t e _, h => by
    simp only [wfB, Bool.and_eq_true] at h
    obtain ⟨⟨⟨h1, h2⟩, h3⟩, h4⟩ := h
    exact ⟨wf_elemTypedB_sound _ _ a path t h1, wf_not_isNilP h2, idxWfB_sound sc idx h3, eWfB_sound sc e h4⟩
  | .print items _, h => by
    simp only [wfB] at h
    exact itemsWfB_sound sc items h
  | .ifBlock c thn elifs hasElse els _, h => by
    simp only [wfB, Bool.and_eq_true] at h
    obtain ⟨⟨⟨⟨⟨h1, h2⟩, h3⟩, h4⟩, h5⟩, h6⟩ := h
    exact ⟨eWfB_sound sc c h1, wf_numTyB_sound _ h2, wfB_sound sc thn h3, wfElifsB_sound sc elifs h4,
      wfB_sound sc els h5, wf_elseB_sound h6⟩
  | .while c body _, h => by
    simp only [wfB, Bool.and_eq_true] at h
    exact ⟨eWfB_sound sc c h.1.1, wf_numTyB_sound _ h.1.2, wfB_sound sc body h.2⟩
  | .doLoop c _ _ body _, h => by
    simp only [wfB, Bool.and_eq_true] at h
    exact ⟨eWfB_sound sc c h.1.1, wf_numTyB_sound _ h.1.2, wfB_sound sc body h.2⟩
  | .end_ _, _ => trivial
  | .data _ _, h => by simp [wfB] at h
  | .read tgs _, h => by
    simp only [wfB, List.all_eq_true] at h
    intro tg htg
    exact targetWfB_sound sc tg (h tg htg)
  | .select e cases hasElse els _, h => by
    simp only [wfB, Bool.and_eq_true] at h
    obtain ⟨⟨⟨h1, h2⟩, h3⟩, h4⟩ := h
    exact ⟨eWfB_sound sc e h1, wfCasesB_sound sc cases h2, wfB_sound sc els h3, wf_elseB_sound h4⟩
  | .forLoop x t lo hi step body _, h => by
    simp only [wfB, Bool.and_eq_true, decide_eq_true_eq] at h
    obtain ⟨⟨⟨⟨⟨h1, h1'⟩, h2⟩, h3⟩, h4⟩, h5⟩ := h
    refine ⟨h1, h1', eWfB_sound sc lo h2, eWfB_sound sc hi h3, ?_, wfB_sound sc body h5⟩
    intro se hse
    subst hse
    exact eWfB_sound sc se h4
theorem wfElifsB_sound (sc : Scope) : ∀ e, wfElifsB sc.types sc.slots sc.arrs e = true → WfElifs sc e
  | .nil, _ => trivial
  | .cons c body rest, h => by
    simp only [wfElifsB, Bool.and_eq_true] at h
    exact ⟨eWfB_sound sc c h.1.1.1, wf_numTyB_sound _ h.1.1.2, wfB_sound sc body h.1.2, wfElifsB_sound sc rest h.2⟩
theorem wfCasesB_sound (sc : Scope) : ∀ cs, wfCasesB sc.types sc.slots sc.arrs cs = true → WfCases sc cs
  | .nil, _ => trivial
  | .cons conds body rest, h => by
    simp only [wfCasesB, Bool.and_eq_true] at h
    exact ⟨RbThm.RecLSim.ne_nil_of_not_isEmpty h.1.1.1, condsWfB_sound sc conds h.1.1.2, wfB_sound sc body h.1.2,
      wfCasesB_sound sc rest h.2⟩
end

theorem wfTopB_sound (sc : Scope) : ∀ body, wfTopB sc.types sc.slots sc.arrs body = true → WfTop sc body := by
  refine top_induction ?_ ?_
  · intro a b iha ihb h
    simp only [wfTopB, Bool.and_eq_true] at h
    exact ⟨iha h.1, ihb h.2⟩
  · intro st hns h
    cases st with
    | seq a b => exact absurd rfl (hns a b)
    | data items p => trivial
    | _ =>
      simp only [wfTopB] at h
      simp only [WfTop]
      exact wfB_sound sc _ h

/-- **the executable premise implies the premise of the simulation theorem** -/
theorem progWfB_sound (prog : SProgram) (h : progWfB prog = true) : ProgWf prog := by
  simp only [progWfB, Bool.and_eq_true, List.all_eq_true] at h
  exact ⟨RbThm.RecLSim.typesWfB_sound prog.types h.1.1, wfTopB_sound (progScope prog) prog.body h.1.2,
    fun v hv => RbThm.RecLSim.noNulValB_sound v (h.2 v hv)⟩

/-! ### the premise of the property theorems (`Thm/AoRPropsTyping.lean`): `Wf` implies `StmtTyped` of the desugared
statement -/

open RbThm.AoRProps (StmtTyped CasesTyped CaseTyped ProgTyped)

theorem wf_items_typed (sc : Scope) : ∀ items, ItemsWf sc items →
    ∀ it ∈ items, (match it with | PrintItem.expr e => ExprTyped sc.types sc.slots sc.arrs e | _ => True)
  | [], _, it, hit => by simp at hit
  | .expr e :: rest, h, it, hit => by
    simp only [ItemsWf] at h
    rcases List.mem_cons.mp hit with rfl | hr
    · exact h.1
    · exact wf_items_typed sc rest h.2 it hr
  | .comma :: rest, h, it, hit => by
    simp only [ItemsWf] at h
    rcases List.mem_cons.mp hit with rfl | hr
    · trivial
    · exact wf_items_typed sc rest h it hr
  | .semicolon :: rest, h, it, hit => by
    simp only [ItemsWf] at h
    rcases List.mem_cons.mp hit with rfl | hr
    · trivial
    · exact wf_items_typed sc rest h it hr

theorem wf_case_typed (sc : Scope) : ∀ c, CaseWf sc c → CaseTyped sc.types sc.slots sc.arrs c
  | .simple e, h => h
  | .is op e, h => h.2
  | .range lo hi, h => h

theorem wf_conds_typed (sc : Scope) : ∀ cs, CondsWf sc cs → ∀ c ∈ cs, CaseTyped sc.types sc.slots sc.arrs c
  | [], _, c, hc => by simp at hc
  | d :: rest, h, c, hc => by
    simp only [CondsWf] at h
    rcases List.mem_cons.mp hc with rfl | hr
    · exact wf_case_typed sc _ h.1
    · exact wf_conds_typed sc rest h.2 c hr

theorem wf_readSeq_typed (sc : Scope) (p : Pos) : ∀ tgs : List ReadTarget, (∀ tg ∈ tgs, TargetWf sc tg) →
    StmtTyped sc.types sc.slots sc.arrs (readSeq p tgs)
  | [], _ => by simp only [readSeq, StmtTyped]
  | tg :: rest, h => by
    simp only [readSeq, StmtTyped]
    exact ⟨h tg (by simp), wf_readSeq_typed sc p rest (fun t ht => h t (by simp [ht]))⟩

mutual
/-- a well-formed statement desugars to a statically typed statement of the reference syntax -/
theorem wf_typed (sc : Scope) : ∀ s, Wf sc s → StmtTyped sc.types sc.slots sc.arrs (desugar s)
  | .skip, _ => by simp only [desugar, StmtTyped]
  | .comment, _ => by simp only [desugar, StmtTyped]
  | .seq a b, h => by
    simp only [Wf] at h
    simp only [desugar, StmtTyped]
    exact ⟨wf_typed sc a h.1, wf_typed sc b h.2⟩
  | .dim x t _, h => by
    simp only [Wf] at h
    simp only [desugar, StmtTyped]
    exact h
  | .dimArr a t dims _, h => by
    simp only [Wf] at h
    simp only [desugar, StmtTyped]
    exact h.1
  | .assign x path t e _, h => by
    simp only [Wf] at h
    simp only [desugar, StmtTyped]
    exact ⟨h.1, h.2, trivial⟩
  | .assignElem a idx path t e _, h => by
    simp only [Wf] at h
    simp only [desugar, StmtTyped]
    exact ⟨h.1, h.2.2.2⟩
  | .print items _, h => by
    simp only [Wf] at h
    simp only [desugar, StmtTyped]
    exact wf_items_typed sc items h
  | .ifBlock c thn elifs hasElse els p, h => by
    simp only [Wf] at h
    obtain ⟨h1, _, h3, h4, h5, _⟩ := h
    simp only [desugar, StmtTyped]
    exact ⟨h1, wf_typed sc thn h3, wfElifs_typed sc elifs h4 _ p (wf_typed sc els h5)⟩
  | .while c body _, h => by
    simp only [Wf] at h
    simp only [desugar, StmtTyped]
    exact ⟨h.1, wf_typed sc body h.2.2⟩
  | .doLoop c _ _ body _, h => by
    simp only [Wf] at h
    simp only [desugar, StmtTyped]
    exact ⟨h.1, wf_typed sc body h.2.2⟩
  | .end_ _, _ => by simp only [desugar, StmtTyped]
  | .data _ _, _ => by simp only [desugar, StmtTyped]
  | .read tgs p, h => by
    simp only [Wf] at h
    simp only [desugar]
    exact wf_readSeq_typed sc p tgs h
  | .select e cases hasElse els _, h => by
    simp only [Wf] at h
    obtain ⟨h1, h2, h3, _⟩ := h
    simp only [desugar, StmtTyped]
    refine ⟨h1, wfCases_typed sc cases h2 _ ?_⟩
    cases hasElse with
    | true => simp only [if_true, CasesTyped]; exact wf_typed sc els h3
    | false => simp only [Bool.false_eq_true, if_false, CasesTyped]
  | .forLoop x t lo hi step body _, h => by
    simp only [Wf] at h
    obtain ⟨h1, h2, h3, h4, h5, h6⟩ := h
    simp only [desugar, StmtTyped]
    exact ⟨h1, h2, h3, h4, h5, wf_typed sc body h6⟩
theorem wfElifs_typed (sc : Scope) : ∀ e, WfElifs sc e → ∀ (els : Stmt) (p : Pos),
    StmtTyped sc.types sc.slots sc.arrs els → StmtTyped sc.types sc.slots sc.arrs (desugarElifs e els p)
  | .nil, _, els, p, he => by simp only [desugarElifs]; exact he
  | .cons c body rest, h, els, p, he => by
    simp only [WfElifs] at h
    simp only [desugarElifs, StmtTyped]
    exact ⟨h.1, wf_typed sc body h.2.2.1, wfElifs_typed sc rest h.2.2.2 els p he⟩
theorem wfCases_typed (sc : Scope) : ∀ cs, WfCases sc cs → ∀ (tail : Cases),
    CasesTyped sc.types sc.slots sc.arrs tail → CasesTyped sc.types sc.slots sc.arrs (desugarCases cs tail)
  | .nil, _, tail, ht => by simp only [desugarCases]; exact ht
  | .cons conds body rest, h, tail, ht => by
    simp only [WfCases] at h
    simp only [desugarCases, CasesTyped]
    exact ⟨wf_conds_typed sc conds h.2.1, wf_typed sc body h.2.2.1, wfCases_typed sc rest h.2.2.2 tail ht⟩
end

theorem wfTop_typed (sc : Scope) : ∀ body, WfTop sc body → StmtTyped sc.types sc.slots sc.arrs (desugar body) := by
  refine top_induction ?_ ?_
  · intro a b iha ihb h
    simp only [WfTop] at h
    simp only [desugar, StmtTyped]
    exact ⟨iha h.1, ihb h.2⟩
  · intro st hns h
    cases st with
    | seq a b => exact absurd rfl (hns a b)
    | data items p => simp only [desugar, StmtTyped]
    | _ =>
      simp only [WfTop] at h
      exact wf_typed sc _ h

/-- the premise of the simulation theorem implies the premise of the property theorems -/
theorem progWf_typed (prog : SProgram) (h : ProgWf prog) : ProgTyped prog.toAst :=
  ⟨h.1, wfTop_typed (progScope prog) prog.body h.2.1⟩

/-- **the executable premise implies the premise `ProgTyped` of the property theorems** -/
theorem progWfB_typed (prog : SProgram) (h : progWfB prog = true) : ProgTyped prog.toAst :=
  progWf_typed prog (progWfB_sound prog h)

/-- `fixed_string_always_n_chars` for every program the evaluated premise accepts -/
theorem fixed_string_always_n_chars_checked (prog : SProgram) (fuel : Nat) (s' : St) (o : Outcome)
    (hp : progWfB prog = true) (h : AoR.Ref.run fuel prog.toAst = (s', o)) :
    RbThm.AoRProps.Good prog.types prog.slots prog.arrs s' ∧
    (∀ (x : Nat) (path : List String) (n : Nat) (q : Pos) (v : RbModel.RecL.Ref.RV),
      PathTyped prog.types prog.slots x path (.fix n) → AoR.Ref.eval s'.env s'.arrs (.var x path (.fix n) q) = .ok v →
      ∃ cs, v = .sc (.str cs) ∧ cs.length = n) ∧
    (∀ (a : Nat) (idx : Exprs) (path : List String) (n : Nat) (q : Pos) (v : RbModel.RecL.Ref.RV),
      ElemTyped prog.types prog.arrs a path (.fix n) → AoR.Ref.eval s'.env s'.arrs (.elem a idx path (.fix n) q) = .ok v →
      ∃ cs, v = .sc (.str cs) ∧ cs.length = n) ∧
    (∀ (a : Nat) (A : RArr) (is : List Int), s'.arrs[a]? = some (some A) → HasTy A.ty (A.get is)) :=
  RbThm.AoRProps.fixed_string_always_n_chars prog.toAst fuel s' o (progWfB_typed prog hp) h

/-- `exec_preserves_typing` for the body of every program the evaluated premise accepts, from any well-typed state -/
theorem exec_preserves_typing_checked (prog : SProgram) (fuel : Nat) (s s' : St) (o : Outcome)
    (hp : progWfB prog = true) (hg : RbThm.AoRProps.Good prog.types prog.slots prog.arrs s)
    (h : AoR.Ref.exec fuel (desugar prog.body) s = (s', o)) :
    RbThm.AoRProps.Good prog.types prog.slots prog.arrs s' :=
  RbThm.AoRProps.exec_preserves_typing fuel prog.types prog.slots prog.arrs (desugar prog.body) s s' o
    (progWfB_typed prog hp).1 (progWfB_typed prog hp).2 hg h

end RbThm.AoRSim
