import Thm.C01SimBase
/-!
C01, simulation part: the case lemma for DO loops (`DO WHILE c … LOOP`, `DO UNTIL c … LOOP`, `DO … LOOP WHILE c`,
`DO … LOOP UNTIL c`).

The four forms are assembled from the same moves (a label, a jump, `<cond>; JumpIfFalse`, the body, going round the loop),
so the moves are stated once as lemmas about `DoReach`: "the run from `σ` gets to address `pc` in a state that represents
`s`, stacks untouched".
-/
namespace RbThm.C01Sim
set_option linter.unusedVariables false
set_option linter.unusedSimpArgs false
open RbModel RbModel.Num RbModel.Ast RbModel.Src RbModel.Core RbModel.CoreVm RbModel.Ref
open RbThm.C01Len

/-- a fragment followed by one more instruction -/
theorem do_codeAt_snoc {code : Code} {off : Nat} {frag : Code} {x : CInstr × Pos}
    (h1 : CodeAt code off frag) (h2 : code[off + frag.length]? = some x) : CodeAt code off (frag ++ [x]) := by
  intro i hi
  simp only [List.length_append, List.length_singleton] at hi
  by_cases h3 : i < frag.length
  · rw [List.getElem?_append_left h3]; exact h1 i h3
  · have hi' : i = frag.length := by omega
    subst hi'
    rw [List.getElem?_append_right (Nat.le_refl _), h2]
    simp

/-- the run from `σ` reaches address `pc` in a state that represents `s`, with the stacks as they were -/
def DoReach (code : Code) (σ : Vm) (s : St) (pc : Nat) : Prop :=
  ∃ τ, Steps code σ τ ∧ τ.pc = pc ∧ Rel s τ ∧ SameStacks σ τ

theorem DoReach.start {code : Code} {σ : Vm} {s : St} (hr : Rel s σ) : DoReach code σ s σ.pc :=
  ⟨σ, Steps.refl σ, rfl, hr, SameStacks.refl σ⟩

theorem DoReach.label {code : Code} {σ : Vm} {s : St} {a : Nat} {l : String} {p : Pos}
    (h : DoReach code σ s a) (hl : code[a]? = some (CInstr.label l, p)) : DoReach code σ s (a + 1) := by
  obtain ⟨τ, st, hp, hr, hss⟩ := h
  subst hp
  have s1 : CoreVm.step code τ = .next (advance τ) := by simp only [CoreVm.step, hl]
  exact ⟨advance τ, st.trans (Steps.one s1), rfl,
    rel_of _ _ hr.env hr.out hr.skip hr.data hr.dataIdx hr.queue, hss.trans ⟨rfl, rfl, rfl⟩⟩

theorem DoReach.jump {code : Code} {σ : Vm} {s : St} {a t : Nat} {p : Pos}
    (h : DoReach code σ s a) (hl : code[a]? = some (CInstr.jump t, p)) : DoReach code σ s t := by
  obtain ⟨τ, st, hp, hr, hss⟩ := h
  subst hp
  have s1 : CoreVm.step code τ = .next { τ with pc := t } := by simp only [CoreVm.step, hl]
  exact ⟨{ τ with pc := t }, st.trans (Steps.one s1), rfl,
    rel_of _ _ hr.env hr.out hr.skip hr.data hr.dataIdx hr.queue, hss.trans ⟨rfl, rfl, rfl⟩⟩

/-- `<cond>; JumpIfFalse t` from a reached address: an error ends the statement with that error (whatever the
statement), truth falls through, falsity lands on `t` -/
theorem DoReach.cond {code : Code} {σ : Vm} {s : St} {a : Nat} (h : DoReach code σ s a) (c : Ast.Expr) (t : Nat) (p : Pos)
    (hc : CodeAt code a (compileExpr c ++ [(CInstr.jumpIfFalse t, p)]))
    (hs : SlotsBelow s.env.length c) (hn : NumericAt s.env c) :
    (∀ o, evalCond s.env c = .error o → ∀ (n off : Nat) (s0 : St), StmtSpec code n off σ s0 (s, o)) ∧
    (evalCond s.env c = .ok true → DoReach code σ s (a + (compileExpr c).length + 1)) ∧
    (evalCond s.env c = .ok false → DoReach code σ s t) := by
  obtain ⟨τ, st, hp, hr, hss⟩ := h
  have hcond := cond_correct code c t p a τ hc hp (by rw [hr.env]; exact hs) (by rw [hr.env]; exact hn)
  rw [hr.env] at hcond
  have hrel : ∀ pc v b, Rel s (afterExpr τ pc v b) := fun pc v b =>
    rel_of _ _ hr.env hr.out hr.skip hr.data hr.dataIdx hr.queue
  refine ⟨?_, ?_, ?_⟩
  · intro o hec n off s0
    simp only [hec] at hcond
    cases o with
    | error cd q =>
      simp only [StmtSpec]
      exact ⟨s.env, ErrsWith.of_steps st (by rw [← hr.out]; exact hcond)⟩
    | normal => rcases evalCond_error_kind hec with ⟨_, _, h⟩ | h <;> cases h
    | halted => rcases evalCond_error_kind hec with ⟨_, _, h⟩ | h <;> cases h
    | inexact => simp [StmtSpec]
    | outOfFuel => rcases evalCond_error_kind hec with ⟨_, _, h⟩ | h <;> cases h
  · intro hec
    simp only [hec] at hcond
    obtain ⟨v, b, st2⟩ := hcond
    exact ⟨_, st.trans st2, rfl, hrel _ v b, hss.trans ⟨rfl, rfl, rfl⟩⟩
  · intro hec
    simp only [hec] at hcond
    obtain ⟨v, b, st2⟩ := hcond
    exact ⟨_, st.trans st2, rfl, hrel _ v b, hss.trans ⟨rfl, rfl, rfl⟩⟩

/-- a sub-statement from a reached address: ending normally it reaches the address after it; any other outcome is the
outcome of the whole statement -/
theorem DoReach.stmt {code : Code} {σ : Vm} {s : St} {a fuel : Nat} (h : DoReach code σ s a) (ih : StmtIH code fuel)
    (body : SStmt) (sfx : String) (sl : List Ty) (hc : CodeAt code a (compileStmt sfx a body)) (hw : Wf sl body)
    (hty : Typed sl s.env) (s' : St) (o : Outcome) (he : exec fuel (desugar body) s = (s', o)) :
    (o = .normal → DoReach code σ s' (a + sizeStmt body) ∧ s'.env.length = s.env.length) ∧
    (o ≠ .normal → ∀ (n off : Nat) (s0 : St), StmtSpec code n off σ s0 (s', o)) := by
  obtain ⟨τ, st, hp, hr, hss⟩ := h
  have hb := ih body sfx a τ s sl hc hp hr hw hty
  rw [he] at hb
  constructor
  · intro ho
    subst ho
    simp only [StmtSpec] at hb
    obtain ⟨υ, st2, hp2, hrel2, hss2, hlen2⟩ := hb
    exact ⟨⟨υ, st.trans st2, hp2, hrel2, hss.trans hss2⟩, hlen2⟩
  · intro ho n off s0
    cases o with
    | normal => exact absurd rfl ho
    | halted =>
      simp only [StmtSpec] at hb ⊢
      obtain ⟨υ, ω, st2, hh, hrel2⟩ := hb
      exact ⟨υ, ω, st.trans st2, hh, hrel2⟩
    | error cd q =>
      simp only [StmtSpec] at hb ⊢
      obtain ⟨ev, hb⟩ := hb
      exact ⟨ev, ErrsWith.of_steps st hb⟩
    | inexact => simp [StmtSpec]
    | outOfFuel => simp [StmtSpec]

/-- reaching the end address is ending normally -/
theorem DoReach.finish {code : Code} {σ : Vm} {s s' : St} {n off : Nat} (h : DoReach code σ s' (off + n))
    (hlen : s'.env.length = s.env.length) : StmtSpec code n off σ s (s', .normal) := by
  obtain ⟨τ, st, hp, hr, hss⟩ := h
  exact ⟨τ, st, hp, hr, hss, hlen⟩

/-- reaching the start address again: what the statement does from there is what it does from here -/
theorem DoReach.again {code : Code} {σ : Vm} {s s' : St} {n off : Nat} {r : St × Outcome} (h : DoReach code σ s' off)
    (hlen : s'.env.length = s.env.length)
    (hl : ∀ τ : Vm, τ.pc = off → Rel s' τ → StmtSpec code n off τ s' r) : StmtSpec code n off σ s r := by
  obtain ⟨τ, st, hp, hr, hss⟩ := h
  have := hl τ hp hr
  obtain ⟨s2, o⟩ := r
  cases o with
  | normal =>
    simp only [StmtSpec] at this ⊢
    obtain ⟨ω, st4, hp4, hrel4, hss4, hlen4⟩ := this
    exact ⟨ω, st.trans st4, hp4, hrel4, hss.trans hss4, by omega⟩
  | halted =>
    simp only [StmtSpec] at this ⊢
    obtain ⟨ω, ω', st4, hh, hrel4⟩ := this
    exact ⟨ω, ω', st.trans st4, hh, hrel4⟩
  | error cd q =>
    simp only [StmtSpec] at this ⊢
    obtain ⟨ev, this⟩ := this
    exact ⟨ev, ErrsWith.of_steps st this⟩
  | inexact => simp [StmtSpec]
  | outOfFuel => simp [StmtSpec]

/-- DO loops, all four forms -/
theorem case_do (code : Code) (fuel : Nat) (ih : StmtIHle code fuel) (htp : ExecTyped) (c : Ast.Expr) (top until_ : Bool)
    (body : SStmt) (p : Pos) (sfx : String) (off : Nat) (σ : Vm) (s : St)
    (hc : CodeAt code off (compileStmt sfx off (.doLoop c top until_ body p))) (hpc : σ.pc = off) (hr : Rel s σ)
    (sl : List Ty) (hw : Wf sl (.doLoop c top until_ body p)) (hty : Typed sl s.env) :
    StmtSpec code (sizeStmt (.doLoop c top until_ body p)) off σ s
      (exec (fuel + 1) (desugar (.doLoop c top until_ body p)) s) := by
  obtain ⟨hsc, hnc, hwb⟩ := hw
  have hih : StmtIH code fuel := ih fuel (Nat.le_refl _)
  -- going round the loop again
  have hloop : ∀ (s' : St) (τ : Vm), Typed sl s'.env → τ.pc = off → Rel s' τ →
      StmtSpec code (sizeStmt (.doLoop c top until_ body p)) off τ s'
        (exec fuel (Stmt.doLoop c top until_ (desugar body) p) s') := by
    intro s' τ ht hp hr'
    have := hih (.doLoop c top until_ body p) sfx off τ s' sl hc hp hr' ⟨hsc, hnc, hwb⟩ ht
    simpa only [desugar] using this
  have h0 : DoReach code σ s off := by rw [← hpc]; exact DoReach.start hr
  have hcw := hc
  cases top with
  | true =>
    cases until_ with
    | false =>
      -- DO WHILE c: label; cond; jif loop; body; jump off; label loop
      simp only [compileStmt, ↓reduceIte, Bool.false_eq_true] at hc
      have hlab : code[off]? = some (CInstr.label (labelName "do" p sfx), p) :=
        hc.append_left.append_left.append_left.append_left.head
      have hcc : CodeAt code (off + 1) (compileExpr c ++
          [(CInstr.jumpIfFalse (off + 1 + (compileExpr c).length + 1 + sizeStmt body + 1), p)]) := by
        have := hc.append_left.append_left
        rw [List.append_assoc] at this
        exact this.append_right
      have hcb : CodeAt code (off + 1 + (compileExpr c).length + 1)
          (compileStmt sfx (off + 1 + (compileExpr c).length + 1) body) := by
        have := hc.append_left.append_right
        simp only [List.length_append, List.length_singleton] at this
        have e : off + (1 + (compileExpr c).length + 1) = off + 1 + (compileExpr c).length + 1 := by omega
        rw [e] at this
        exact this
      have hjmp : code[off + 1 + (compileExpr c).length + 1 + sizeStmt body]? = some (CInstr.jump off, p) := by
        have := hc.append_right.head
        simp only [List.length_append, List.length_singleton, len_stmt] at this
        rw [← this]; congr 1; omega
      have hend : code[off + 1 + (compileExpr c).length + 1 + sizeStmt body + 1]? =
          some (CInstr.label (labelName "loop" p sfx), p) := by
        have := hc.append_right.tail.head
        simp only [List.length_append, List.length_singleton, len_stmt] at this
        rw [← this]; congr 1; omega
      obtain ⟨cerr, ctrue, cfalse⟩ := (h0.label hlab).cond c _ p hcc (by rw [hty.len]; exact hsc) (hnc _ hty)
      simp only [desugar, exec, ↓reduceIte]
      cases hec : evalCond s.env c with
      | error o => exact cerr o hec _ _ _
      | ok bv =>
        cases bv with
        | false =>
          simp only [Bool.bne_false, Bool.false_eq_true, ↓reduceIte]
          have := (cfalse hec).label hend
          refine DoReach.finish ?_ rfl
          have e : off + sizeStmt (.doLoop c true false body p) =
              off + 1 + (compileExpr c).length + 1 + sizeStmt body + 1 + 1 := by
            simp only [sizeStmt, ↓reduceIte, Bool.false_eq_true]; omega
          rw [e]; exact this
        | true =>
          simp only [Bool.bne_false, ↓reduceIte]
          generalize hrb : exec fuel (desugar body) s = rb
          obtain ⟨s1, o1⟩ := rb
          obtain ⟨hn, ha⟩ := (ctrue hec).stmt hih body sfx sl hcb hwb hty s1 o1 hrb
          cases o1 with
          | normal =>
            obtain ⟨hre, hlen⟩ := hn rfl
            exact (hre.jump hjmp).again hlen
              (fun τ hp hr' => hloop s1 τ (htp sl fuel body s s1 hwb hty hrb) hp hr')
          | halted => exact ha (by simp) _ _ _
          | error cd q => exact ha (by simp) _ _ _
          | inexact => exact ha (by simp) _ _ _
          | outOfFuel => exact ha (by simp) _ _ _
    | true =>
      -- DO UNTIL c: label; cond; jif do-body; jump loop; label do-body; body; jump off; label loop
      simp only [compileStmt, ↓reduceIte] at hc
      have hlab : code[off]? = some (CInstr.label (labelName "do" p sfx), p) :=
        hc.append_left.append_left.append_left.append_left.head
      have hj0 : code[off + 1 + (compileExpr c).length]? =
          some (CInstr.jumpIfFalse (off + 1 + (compileExpr c).length + 3 - 1), p) := by
        have := hc.append_left.append_left.append_right.head
        simp only [List.length_append, List.length_singleton] at this
        rw [← this]; congr 1; omega
      have hcc : CodeAt code (off + 1) (compileExpr c ++
          [(CInstr.jumpIfFalse (off + 1 + (compileExpr c).length + 3 - 1), p)]) := by
        have := hc.append_left.append_left.append_left.append_right
        simp only [List.length_singleton] at this
        exact do_codeAt_snoc this hj0
      have hj1 : code[off + 1 + (compileExpr c).length + 1]? =
          some (CInstr.jump (off + 1 + (compileExpr c).length + 3 + sizeStmt body + 1), p) := by
        have := hc.append_left.append_left.append_right.tail.head
        simp only [List.length_append, List.length_singleton] at this
        rw [← this]; congr 1; omega
      have hl2 : code[off + 1 + (compileExpr c).length + 3 - 1]? =
          some (CInstr.label (labelName "do-body" p sfx), p) := by
        have := hc.append_left.append_left.append_right.tail.tail.head
        simp only [List.length_append, List.length_singleton] at this
        rw [← this]; congr 1; omega
      have hcb : CodeAt code (off + 1 + (compileExpr c).length + 3)
          (compileStmt sfx (off + 1 + (compileExpr c).length + 3) body) := by
        have := hc.append_left.append_right
        simp only [List.length_append, List.length_singleton, List.length_cons, List.length_nil] at this
        have e : off + (1 + (compileExpr c).length + (0 + 1 + 1 + 1)) = off + 1 + (compileExpr c).length + 3 := by omega
        rw [e] at this
        exact this
      have hjmp : code[off + 1 + (compileExpr c).length + 3 + sizeStmt body]? = some (CInstr.jump off, p) := by
        have := hc.append_right.head
        simp only [List.length_append, List.length_singleton, List.length_cons, List.length_nil, len_stmt] at this
        rw [← this]; congr 1; omega
      have hend : code[off + 1 + (compileExpr c).length + 3 + sizeStmt body + 1]? =
          some (CInstr.label (labelName "loop" p sfx), p) := by
        have := hc.append_right.tail.head
        simp only [List.length_append, List.length_singleton, List.length_cons, List.length_nil, len_stmt] at this
        rw [← this]; congr 1; omega
      obtain ⟨cerr, ctrue, cfalse⟩ := (h0.label hlab).cond c _ p hcc (by rw [hty.len]; exact hsc) (hnc _ hty)
      simp only [desugar, exec, ↓reduceIte]
      cases hec : evalCond s.env c with
      | error o => exact cerr o hec _ _ _
      | ok bv =>
        cases bv with
        | true =>
          simp only [bne_self_eq_false, Bool.false_eq_true, ↓reduceIte]
          have := ((ctrue hec).jump hj1).label hend
          refine DoReach.finish ?_ rfl
          have e : off + sizeStmt (.doLoop c true true body p) =
              off + 1 + (compileExpr c).length + 3 + sizeStmt body + 1 + 1 := by
            simp only [sizeStmt, ↓reduceIte]; omega
          rw [e]; exact this
        | false =>
          simp only [Bool.bne_true, Bool.not_false, ↓reduceIte]
          have hre0 := (cfalse hec).label hl2
          have e0 : off + 1 + (compileExpr c).length + 3 - 1 + 1 = off + 1 + (compileExpr c).length + 3 := by omega
          rw [e0] at hre0
          generalize hrb : exec fuel (desugar body) s = rb
          obtain ⟨s1, o1⟩ := rb
          obtain ⟨hn, ha⟩ := hre0.stmt hih body sfx sl hcb hwb hty s1 o1 hrb
          cases o1 with
          | normal =>
            obtain ⟨hre, hlen⟩ := hn rfl
            exact (hre.jump hjmp).again hlen
              (fun τ hp hr' => hloop s1 τ (htp sl fuel body s s1 hwb hty hrb) hp hr')
          | halted => exact ha (by simp) _ _ _
          | error cd q => exact ha (by simp) _ _ _
          | inexact => exact ha (by simp) _ _ _
          | outOfFuel => exact ha (by simp) _ _ _
  | false =>
    -- test at the bottom: label; body; cond; …
    have hcb : CodeAt code (off + 1) (compileStmt sfx (off + 1) body) := by
      cases until_ <;> simp only [compileStmt, ↓reduceIte, Bool.false_eq_true] at hc
      · exact hc.append_left.append_left.append_left.append_right
      · exact hc.append_left.append_left.append_left.append_right
    have hlab : code[off]? = some (CInstr.label (labelName "do" p sfx), p) := by
      cases until_ <;> simp only [compileStmt, ↓reduceIte, Bool.false_eq_true] at hc
      · exact hc.append_left.append_left.append_left.append_left.head
      · exact hc.append_left.append_left.append_left.append_left.head
    have hce : CodeAt code (off + 1 + sizeStmt body) (compileExpr c) := by
      cases until_ <;> simp only [compileStmt, ↓reduceIte, Bool.false_eq_true] at hc
      · have := hc.append_left.append_left.append_right
        simp only [List.length_append, List.length_singleton, len_stmt] at this
        rw [show off + (1 + sizeStmt body) = off + 1 + sizeStmt body by omega] at this
        exact this
      · have := hc.append_left.append_left.append_right
        simp only [List.length_append, List.length_singleton, len_stmt] at this
        rw [show off + (1 + sizeStmt body) = off + 1 + sizeStmt body by omega] at this
        exact this
    simp only [desugar, exec, Bool.false_eq_true, ↓reduceIte]
    generalize hrb : exec fuel (desugar body) s = rb
    obtain ⟨s1, o1⟩ := rb
    obtain ⟨hn, ha⟩ := (h0.label hlab).stmt hih body sfx sl hcb hwb hty s1 o1 hrb
    cases o1 with
    | halted => exact ha (by simp) _ _ _
    | error cd q => exact ha (by simp) _ _ _
    | inexact => exact ha (by simp) _ _ _
    | outOfFuel => exact ha (by simp) _ _ _
    | normal =>
      obtain ⟨hre, hlen⟩ := hn rfl
      have hty1 : Typed sl s1.env := htp sl fuel body s s1 hwb hty hrb
      simp only
      cases until_ with
      | false =>
        -- … jif loop; jump off; label loop
        simp only [compileStmt, ↓reduceIte, Bool.false_eq_true] at hc
        have hj0 : code[off + 1 + sizeStmt body + (compileExpr c).length]? =
            some (CInstr.jumpIfFalse (off + 1 + sizeStmt body + (compileExpr c).length + 2), p) := by
          have := hc.append_left.append_right.head
          simp only [List.length_append, List.length_singleton, len_stmt] at this
          rw [← this]; congr 1; omega
        have hjmp : code[off + 1 + sizeStmt body + (compileExpr c).length + 1]? = some (CInstr.jump off, p) := by
          have := hc.append_left.append_right.tail.head
          simp only [List.length_append, List.length_singleton, len_stmt] at this
          rw [← this]; congr 1; omega
        have hend : code[off + 1 + sizeStmt body + (compileExpr c).length + 2]? =
            some (CInstr.label (labelName "loop" p sfx), p) := by
          have := hc.append_right.head
          simp only [List.length_append, List.length_singleton, List.length_cons, List.length_nil, len_stmt] at this
          rw [← this]; congr 1; omega
        obtain ⟨cerr, ctrue, cfalse⟩ := hre.cond c _ p (do_codeAt_snoc hce hj0) (by rw [hty1.len]; exact hsc) (hnc _ hty1)
        cases hec : evalCond s1.env c with
        | error o => exact cerr o hec _ _ _
        | ok bv =>
          cases bv with
          | false =>
            simp only [Bool.bne_false, Bool.false_eq_true, ↓reduceIte]
            have := (cfalse hec).label hend
            refine DoReach.finish ?_ hlen
            have e : off + sizeStmt (.doLoop c false false body p) =
                off + 1 + sizeStmt body + (compileExpr c).length + 2 + 1 := by
              simp only [sizeStmt, ↓reduceIte, Bool.false_eq_true]; omega
            rw [e]; exact this
          | true =>
            simp only [Bool.bne_false, ↓reduceIte]
            exact ((ctrue hec).jump hjmp).again hlen (fun τ hp hr' => hloop s1 τ hty1 hp hr')
      | true =>
        -- … jif off; label loop
        simp only [compileStmt, ↓reduceIte, Bool.false_eq_true] at hc
        have hj0 : code[off + 1 + sizeStmt body + (compileExpr c).length]? = some (CInstr.jumpIfFalse off, p) := by
          have := hc.append_left.append_right.head
          simp only [List.length_append, List.length_singleton, len_stmt] at this
          rw [← this]; congr 1; omega
        have hend : code[off + 1 + sizeStmt body + (compileExpr c).length + 1]? =
            some (CInstr.label (labelName "loop" p sfx), p) := by
          have := hc.append_right.head
          simp only [List.length_append, List.length_singleton, List.length_cons, List.length_nil, len_stmt] at this
          rw [← this]; congr 1; omega
        obtain ⟨cerr, ctrue, cfalse⟩ := hre.cond c _ p (do_codeAt_snoc hce hj0) (by rw [hty1.len]; exact hsc) (hnc _ hty1)
        cases hec : evalCond s1.env c with
        | error o => exact cerr o hec _ _ _
        | ok bv =>
          cases bv with
          | true =>
            simp only [bne_self_eq_false, Bool.false_eq_true, ↓reduceIte]
            have := (ctrue hec).label hend
            refine DoReach.finish ?_ hlen
            have e : off + sizeStmt (.doLoop c false true body p) =
                off + 1 + sizeStmt body + (compileExpr c).length + 1 + 1 := by
              simp only [sizeStmt, ↓reduceIte, Bool.false_eq_true]; omega
            rw [e]; exact this
          | false =>
            simp only [Bool.bne_true, Bool.not_false, ↓reduceIte]
            exact (cfalse hec).again hlen (fun τ hp hr' => hloop s1 τ hty1 hp hr')

end RbThm.C01Sim
