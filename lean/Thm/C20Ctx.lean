import RbModel.PcCtx
/-!
C20, third part — the context data flow (`RbModel.PcCtx`): who sees which context.

* `then_with_in_context` hands the left side's value to the right side and nothing else
  (`thenWith_hands_left_value`, `thenWith_right_sees_only_left`);
* `many_ctx` gives its body the default context first and then the previous element
  (`CChain`, `manyCtx_sound`), and lets no outer context in (`manyCtx_blocks_outer`);
* `no_context` stops the propagation, `map_ctx` projects (`noCtx_blocks_outer`, `mapCtx_projects`),
  a context-free parser ignores every context (`lift_ignores_context`);
* the two ways to panic: reading a context that was never set (`ctx_unset_panics`, `iif_unset_panics`) and
  propagating a context into a `seqN` (`seq_under_then_with_panics`, `seq_under_many_ctx_panics`, `seq_top_context_panics`).
-/
namespace RbThm.C20
open RbModel.Pc RbModel.PcCtx

theorem lift_ignores_context (e : PExpr) (env env' : Option Val) (inp : List Nat) (pos : Nat) :
    runC (.lift e) env inp pos = runC (.lift e) env' inp pos ∧ runC (.lift e) env inp pos = .res (run e inp pos) :=
  ⟨rfl, rfl⟩

theorem noCtx_blocks_outer (c : CExpr) (env : Option Val) (inp : List Nat) (pos : Nat) :
    runC (.noCtx c) env inp pos = runC c none inp pos := rfl

theorem mapCtx_projects (f : CtxFn) (c : CExpr) (v : Val) (inp : List Nat) (pos : Nat) :
    runC (.mapCtx f c) (some v) inp pos = runC c (some (f.app v)) inp pos := rfl

/-- the context reader returns the context it holds, without touching the input -/
theorem ctx_reads (v : Val) (inp : List Nat) (pos : Nat) : runC .ctx (some v) inp pos = .res (.ok v pos) := rfl

theorem ctx_unset_panics (inp : List Nat) (pos : Nat) : runC .ctx none inp pos = .panic := rfl

theorem iif_unset_panics (l r : PExpr) (inp : List Nat) (pos : Nat) : runC (.iif l r) none inp pos = .panic := rfl

theorem iif_selects (l r : PExpr) (v : Val) (inp : List Nat) (pos : Nat) :
    runC (.iif l r) (some v) inp pos = .res (if v == .sym 0 then run l inp pos else run r inp pos) := rfl

/-- **`then_with_in_context` hands over the left value**: with the context reader on the right, the result
is the left value combined with itself, at the position where the left side stopped. -/
theorem thenWith_hands_left_value (cmb : Cmb) (l : CExpr) (env : Option Val) (inp : List Nat) (pos : Nat)
    (a : Val) (p1 : Nat) (h : runC l env inp pos = .res (.ok a p1)) :
    runC (.thenWith cmb l .ctx) env inp pos = .res (.ok (cmb.app a a) p1) := by
  simp [runC, h, setPanics]

/-- … and the right side sees *only* that value: after the left side succeeded with `a`, the whole result is
determined by the right side run under the context `a` — its error made fatal — whatever the outer context is. -/
theorem thenWith_right_sees_only_left (cmb : Cmb) (l r : CExpr) (env : Option Val) (inp : List Nat) (pos : Nat)
    (a : Val) (p1 : Nat) (h : runC l env inp pos = .res (.ok a p1)) (hr : setPanics r = false) :
    runC (.thenWith cmb l r) env inp pos =
      match runC r (some a) inp p1 with
      | .panic => .panic
      | .res (.ok b p2) => .res (.ok (cmb.app a b) p2)
      | .res (.soft e p2) => .res (.fatal e p2)
      | .res (.fatal e p2) => .res (.fatal e p2)
      | .res .hang => .res .hang := by
  simp only [runC, h, hr, Bool.false_eq_true, if_false]
  cases runC r (some a) inp p1 with
  | panic => rfl
  | res x => cases x <;> rfl

theorem thenWith_never_soft_after_first (cmb : Cmb) (l r : CExpr) (env : Option Val) (inp : List Nat) (pos : Nat)
    (a : Val) (p1 : Nat) (h : runC l env inp pos = .res (.ok a p1)) (e q : Nat) :
    runC (.thenWith cmb l r) env inp pos ≠ .res (.soft e q) := by
  simp only [runC, h]
  split
  · simp
  · split <;> simp

/-- the outer context does not reach the body of `many_ctx` -/
theorem manyCtx_blocks_outer (an : Bool) (c : CExpr) (env env' : Option Val) (inp : List Nat) (pos : Nat) :
    runC (.manyCtx an c) env inp pos = runC (.manyCtx an c) env' inp pos := rfl

/-- `CChain body ctx pos vs q last`: starting at `pos` holding the context `ctx`, the body succeeds `vs.length`
times in a row, **each round run under the value of the previous round** (the first under `ctx`), ending at `q`
holding `last`. -/
inductive CChain (body : Option Val → Nat → CRes) : Val → Nat → List Val → Nat → Val → Prop where
  | nil (ctx : Val) (pos : Nat) : CChain body ctx pos [] pos ctx
  | cons {ctx pos v q vs r last} : body (some ctx) pos = .res (.ok v q) → CChain body v q vs r last →
      CChain body ctx pos (v :: vs) r last

/-- whenever the `many_ctx` loop succeeds, its value is such a context-threaded maximal run -/
theorem manyCtxLoop_sound (body : Option Val → Nat → CRes) (fuel pos : Nat) (acc : List Val) (ctx : Val)
    (val : Val) (q' : Nat) (h : manyCtxLoop body fuel pos acc ctx = .res (.ok val q')) :
    ∃ vs q last e, val = Val.ofList (acc ++ vs) ∧ CChain body ctx pos vs q last ∧
      body (some last) q = .res (.soft e q') := by
  induction fuel generalizing pos acc ctx with
  | zero => simp [manyCtxLoop] at h
  | succ n ih =>
    simp only [manyCtxLoop] at h
    split at h
    · simp at h
    · next v q hq =>
      obtain ⟨vs, q2, last, e, hv, hc, hs⟩ := ih _ _ _ h
      exact ⟨v :: vs, q2, last, e, by simpa using hv, CChain.cons hq hc, hs⟩
    · next e q hq =>
      simp at h
      obtain ⟨rfl, rfl⟩ := h
      exact ⟨[], pos, ctx, e, by simp, CChain.nil ctx pos, hq⟩
    · simp at h
    · simp at h

/-- **`many_ctx` data flow**: a successful `many_ctx` is a maximal run of its body in which the first round runs
under the default context (the empty list) and every later round under the value of the round before. -/
theorem manyCtx_sound (an : Bool) (c : CExpr) (env : Option Val) (inp : List Nat) (pos : Nat) (val : Val) (q' : Nat)
    (h : runC (.manyCtx an c) env inp pos = .res (.ok val q')) :
    ∃ vs q last e, val = Val.ofList vs ∧ CChain (fun en p => runC c en inp p) .nil pos vs q last ∧
      runC c (some last) inp q = .res (.soft e q') ∧ (vs ≠ [] ∨ an = true) := by
  simp only [runC] at h
  split at h
  · simp at h
  · split at h
    · simp at h
    · next v q hq =>
      obtain ⟨vs, q2, last, e, hv, hc, hs⟩ := manyCtxLoop_sound _ _ _ _ _ _ _ h
      exact ⟨v :: vs, q2, last, e, by simpa using hv, CChain.cons hq hc, hs, Or.inl (by simp)⟩
    · next e q hq =>
      split at h
      · next han =>
        simp at h
        obtain ⟨rfl, rfl⟩ := h
        exact ⟨[], pos, .nil, e, rfl, CChain.nil _ _, hq, Or.inr han⟩
      · simp at h
    · next x hx => simp at h; subst h; simp_all

/-- propagating a context into a `seqN` panics (`seq.rs`: `set_context` is `unimplemented!()`): under
`then_with_in_context` once the left side has succeeded … -/
theorem seq_under_then_with_panics (cmb : Cmb) (l a b : CExpr) (env : Option Val) (inp : List Nat) (pos : Nat)
    (v : Val) (p1 : Nat) (h : runC l env inp pos = .res (.ok v p1)) :
    runC (.thenWith cmb l (.seq2 a b)) env inp pos = .panic := by
  simp [runC, h, setPanics]

/-- … under `many_ctx` immediately, whatever the input … -/
theorem seq_under_many_ctx_panics (an : Bool) (a b : CExpr) (env : Option Val) (inp : List Nat) (pos : Nat) :
    runC (.manyCtx an (.seq2 a b)) env inp pos = .panic := by
  simp [runC, setPanics]

/-- … and when the caller sets a context on a parser whose propagation reaches a `seqN`. -/
theorem seq_top_context_panics (a b : CExpr) (v : Val) (inp : List Nat) (pos : Nat) :
    runTop (.seq2 a b) (some v) inp pos = .panic := by
  simp [runTop, setPanics]

/-- without a context being set, the same sequence works -/
example : runTop (.seq2 (.lift .any) (.lift .any)) none [0, 1] 0 = .res (.ok (Val.ofList [.sym 0, .sym 1]) 2) := by
  decide

/-- `any >>= ctx`, then a `many_ctx` whose body alternates on the previous value: eight rounds on four symbols -/
example : runTop (.thenWith .tuple (.lift .any) .ctx) none [1] 0 = .res (.ok (.pair (.sym 1) (.sym 1)) 1) := by decide

example : CChain (fun en p => runC (.iif (.failSoft 3) .peekAny) en [0] p) .nil 0 [.sym 0] 0 (.sym 0) :=
  CChain.cons (by decide) (CChain.nil _ _)

example : runTop (.manyCtx false (.iif (.failSoft 3) .peekAny)) none [0] 0 = .res (.ok (Val.ofList [.sym 0]) 0) := by
  decide

end RbThm.C20
