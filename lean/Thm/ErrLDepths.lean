import Thm.ErrLSimProgBase
/-!
Error layer, simulation part, whole programs — **the label-depth table** (`InstructionGeneratorResult::label_depths`, the
model `labelDepths`): for the address of every label of a well-formed program the table the generator hands to the VM
answers that label's FOR depth and SELECT depth (`depths_ok`: the field `depthsOk` of `Ctx.Ok` for the program context).

* `addr_asc` / `addrElifs_asc` / `addrCases_asc`: the addresses of `addrTable` are strictly ascending and lie inside the
  code of the statement (the companion of `ErrLLen.marks_asc` for the label addresses).  Needs `Wf`: `addrTable` lists the
  positive copy of the body of a FOR … STEP first, then the negative one (lower addresses) — under `Wf` such a body has no
  label, both lists are empty;
* `mem_foldr_insertSorted`, `lookupLabelDepth_of_fun` / `lookupLabelDepth_of_mem`: insertion sort keeps the entries; a
  lookup finds the entry of a key that occurs with one value only;
* `lookup_sorted`: the generic form of the main theorem over any address table with strictly ascending addresses.
-/
namespace RbThm.ErrLSim
set_option linter.unusedVariables false
set_option linter.unusedSimpArgs false
open RbModel RbModel.Num RbModel.ErrL RbModel.ErrL.Compile RbModel.ErrL.Vm
open RbModel.JmpL.Compile (CInstr Code labelName compileExpr compileExprTo storeVar loadVar compileItems compileConds
  sizeCaseExpr sizeItems sizeConds Dp lookupNat lookupDepth stepSuffix maxPos)
open RbModel.JmpL.Vm (Vm truncTop Regs)
open RbModel.Ast (Pos PrintItem CaseExpr)
open RbModel.Ref (St)
open RbModel.ErrL.Ref
open RbThm.ErrLLen
open RbThm.C01Sim (Typed SlotsBelow ExprWt NumericAt NumericCond ItemsSlots CaseSlots CondsSlots)

/-! ### the addresses of the label table ascend -/

/-- a well-formed statement without labels has an empty address table, wherever it is placed -/
theorem addr_nil_of_labels (sl : List Ty) (dp : Dp) (s : SStmt) (d e off : Nat) (h : Wf sl dp true d e s)
    (hl : s.labels = []) : addrTable dp d e off s = [] := by
  have hk := addr_keys sl dp s d e off h
  rw [hl] at hk
  exact List.map_eq_nil_iff.1 hk

mutual
/-- **the label addresses of a statement are strictly ascending and lie in `[off, off + size)`** -/
theorem addr_asc (sl : List Ty) (dp : Dp) : ∀ (s : SStmt) (d e off : Nat), Wf sl dp true d e s →
    Asc off (off + sizeStmt dp d e s) ((addrTable dp d e off s).map Prod.snd)
  | .seq a b, d, e, off, h => by
    simp only [addrTable, sizeStmt, List.map_append]
    exact Asc.append (mid := off + sizeStmt dp d e a) (addr_asc sl dp a d e off h.1)
      ((addr_asc sl dp b d e (off + sizeStmt dp d e a) h.2).mono (Nat.le_refl _) (by omega)) (by omega) (by omega)
  | .ifBlock c thn elifs hasElse els p, d, e, off, h => by
    obtain ⟨_, _, h1, h2, h3, h4⟩ := h
    have a1 := addr_asc sl dp thn d e (off + (compileExpr c).length + 1) h1
    have a2 := addrElifs_asc sl dp elifs d e (off + (compileExpr c).length + 1 + sizeStmt dp d e thn + 1) h2
    have a3 := addr_asc sl dp els d e
      (off + (compileExpr c).length + 1 + sizeStmt dp d e thn + 1 + sizeElifs dp d e elifs + 1) h3
    simp only [addrTable, sizeStmt, List.map_append]
    refine Asc.append (mid := off + (compileExpr c).length + 1 + sizeStmt dp d e thn + 1 + sizeElifs dp d e elifs) ?_ ?_
      (by omega) (by cases hasElse <;> simp <;> omega)
    · exact Asc.append (mid := off + (compileExpr c).length + 1 + sizeStmt dp d e thn + 1)
        (a1.mono (by omega) (by omega)) a2 (by omega) (by omega)
    · cases hasElse with
      | false => simp only [Bool.false_eq_true, if_false, List.map_nil]; exact Asc.nil _ _
      | true => simp only [if_true]; exact a3.mono (by omega) (by omega)
  | .select sel cases hasElse els p, d, e, off, h => by
    obtain ⟨_, h1, h2, h3, _⟩ := h
    have a1 := addrCases_asc sl dp cases d (e + 1) (off + (compileExpr sel).length + 1 + 3) h1
    have a2 := addr_asc sl dp els d (e + 1)
      (off + (compileExpr sel).length + 1 + 3 + sizeCases dp d (e + 1) cases + 1) h2
    simp only [addrTable, sizeStmt, List.map_append]
    refine Asc.append (mid := off + (compileExpr sel).length + 1 + 3 + sizeCases dp d (e + 1) cases)
      (a1.mono (by omega) (by omega)) ?_ (by omega) (by cases hasElse <;> simp <;> omega)
    cases hasElse with
    | false => simp only [Bool.false_eq_true, if_false, List.map_nil]; exact Asc.nil _ _
    | true => simp only [if_true]; exact a2.mono (by omega) (by omega)
  | .forLoop x t lo hi step body p, d, e, off, h => by
    obtain ⟨_, _, _, _, h5, h6, _⟩ := h
    cases step with
    | none =>
      have a1 := addr_asc sl dp body (d + 1) e
        (off + (compileExprTo lo t).length + 2 + (compileExprTo hi t).length + 6 + 8) h6
      simp only [addrTable, sizeStmt]
      exact a1.mono (by omega) (by omega)
    | some se =>
      have hb := (h5 se rfl).2
      simp only [addrTable, addr_nil_of_labels sl dp body (d + 1) e _ h6 hb, List.append_nil, List.map_nil]
      exact Asc.nil _ _
  | .while c body p, d, e, off, h => by
    have a1 := addr_asc sl dp body d e (off + 1 + (compileExpr c).length + 1) h.2.2
    simp only [addrTable, sizeStmt]
    exact a1.mono (by omega) (by omega)
  | .doLoop c top u body p, d, e, off, h => by
    cases top with
    | true =>
      have a1 := addr_asc sl dp body d e (off + 1 + (compileExpr c).length + (if u then 3 else 1)) h.2.2
      simp only [addrTable, sizeStmt, if_true]
      exact a1.mono (by omega) (by omega)
    | false =>
      have a1 := addr_asc sl dp body d e (off + 1) h.2.2
      simp only [addrTable, sizeStmt, Bool.false_eq_true, if_false]
      exact a1.mono (by omega) (by omega)
  | .label L name p, d, e, off, _ => by
    simp only [addrTable, sizeStmt, List.map_cons, List.map_nil]; exact Asc.single (by omega) (by omega)
  | .skip, _, _, _, _ => by simp only [addrTable, List.map_nil]; exact Asc.nil _ _
  | .comment, _, _, _, _ => by simp only [addrTable, List.map_nil]; exact Asc.nil _ _
  | .dim _ _ _, _, _, _, _ => by simp only [addrTable, List.map_nil]; exact Asc.nil _ _
  | .assign _ _ _ _, _, _, _, _ => by simp only [addrTable, List.map_nil]; exact Asc.nil _ _
  | .print _ _, _, _, _, _ => by simp only [addrTable, List.map_nil]; exact Asc.nil _ _
  | .data _ _, _, _, _, _ => by simp only [addrTable, List.map_nil]; exact Asc.nil _ _
  | .read _ _, _, _, _, _ => by simp only [addrTable, List.map_nil]; exact Asc.nil _ _
  | .end_ _, _, _, _, _ => by simp only [addrTable, List.map_nil]; exact Asc.nil _ _
  | .goto _ _, _, _, _, _ => by simp only [addrTable, List.map_nil]; exact Asc.nil _ _
  | .gosub _ _, _, _, _, _ => by simp only [addrTable, List.map_nil]; exact Asc.nil _ _
  | .ret _, _, _, _, _ => by simp only [addrTable, List.map_nil]; exact Asc.nil _ _
  | .onErrorGoto _ _, _, _, _, _ => by simp only [addrTable, List.map_nil]; exact Asc.nil _ _
  | .onErrorResumeNext _, _, _, _, _ => by simp only [addrTable, List.map_nil]; exact Asc.nil _ _
  | .onErrorGoto0 _, _, _, _, _ => by simp only [addrTable, List.map_nil]; exact Asc.nil _ _
  | .resume _, _, _, _, _ => by simp only [addrTable, List.map_nil]; exact Asc.nil _ _
  | .resumeNext _, _, _, _, _ => by simp only [addrTable, List.map_nil]; exact Asc.nil _ _
  | .resumeLabel _ _, _, _, _, _ => by simp only [addrTable, List.map_nil]; exact Asc.nil _ _
theorem addrElifs_asc (sl : List Ty) (dp : Dp) : ∀ (el : ElseIfs) (d e off : Nat), WfElifs sl dp true d e el →
    Asc off (off + sizeElifs dp d e el) ((addrElifs dp d e off el).map Prod.snd)
  | .nil, d, e, off, _ => by simp only [addrElifs, List.map_nil]; exact Asc.nil _ _
  | .cons c body rest, d, e, off, h => by
    obtain ⟨_, _, h1, h2⟩ := h
    have a1 := addr_asc sl dp body d e (off + 1 + (compileExpr c).length + 1) h1
    have a2 := addrElifs_asc sl dp rest d e (off + 1 + (compileExpr c).length + 1 + sizeStmt dp d e body + 1) h2
    simp only [addrElifs, sizeElifs, List.map_append]
    exact Asc.append (mid := off + 1 + (compileExpr c).length + 1 + sizeStmt dp d e body + 1)
      (a1.mono (by omega) (by omega)) (a2.mono (Nat.le_refl _) (by omega)) (by omega) (by omega)
theorem addrCases_asc (sl : List Ty) (dp : Dp) : ∀ (cs : SCases) (d e off : Nat), WfCases sl dp true d e cs →
    Asc off (off + sizeCases dp d e cs) ((addrCases dp d e off cs).map Prod.snd)
  | .nil, d, e, off, _ => by simp only [addrCases, List.map_nil]; exact Asc.nil _ _
  | .cons conds body rest, d, e, off, h => by
    obtain ⟨_, _, _, h1, h2⟩ := h
    have a1 := addr_asc sl dp body d e (off + 1 + sizeConds conds + (if conds.length > 1 then 1 else 0)) h1
    have a2 := addrCases_asc sl dp rest d e
      (off + 1 + sizeConds conds + (if conds.length > 1 then 1 else 0) + sizeStmt dp d e body + 1) h2
    simp only [addrCases, sizeCases, List.map_append]
    exact Asc.append (mid := off + 1 + sizeConds conds + (if conds.length > 1 then 1 else 0) + sizeStmt dp d e body + 1)
      (a1.mono (by omega) (by omega)) (a2.mono (Nat.le_refl _) (by omega)) (by omega) (by omega)
end

/-- in a table whose addresses ascend strictly an address belongs to one label only -/
theorem label_of_addr_unique : ∀ (tbl : List (Nat × Nat)), (tbl.map Prod.snd).Pairwise (· < ·) →
    ∀ L1 L2 a, (L1, a) ∈ tbl → (L2, a) ∈ tbl → L1 = L2 := by
  intro tbl
  induction tbl with
  | nil => intro _ L1 L2 a h; simp at h
  | cons x rest ih =>
    intro hp L1 L2 a h1 h2
    obtain ⟨k, v⟩ := x
    simp only [List.map_cons, List.pairwise_cons] at hp
    have hlt : ∀ L, (L, a) ∈ rest → v < a := fun L hm => hp.1 a (List.mem_map.2 ⟨(L, a), hm, rfl⟩)
    simp only [List.mem_cons, Prod.mk.injEq] at h1 h2
    rcases h1 with ⟨rfl, rfl⟩ | h1
    · rcases h2 with ⟨rfl, _⟩ | h2
      · rfl
      · have := hlt L2 h2; omega
    · rcases h2 with ⟨rfl, rfl⟩ | h2
      · have := hlt L1 h1; omega
      · exact ih hp.2 L1 L2 a h1 h2

/-! ### insertion sort and the lookup -/

theorem mem_insertSorted (x y : Nat × Nat × Nat) : ∀ (l : List (Nat × Nat × Nat)),
    y ∈ insertSorted x l ↔ y = x ∨ y ∈ l := by
  intro l
  induction l with
  | nil => simp [insertSorted]
  | cons z rest ih =>
    simp only [insertSorted]
    split
    · simp only [List.mem_cons]
    · simp only [List.mem_cons, ih]
      constructor
      · rintro (h | h | h)
        · exact .inr (.inl h)
        · exact .inl h
        · exact .inr (.inr h)
      · rintro (h | h | h)
        · exact .inr (.inl h)
        · exact .inl h
        · exact .inr (.inr h)

/-- sorting by insertion keeps the entries -/
theorem mem_foldr_insertSorted (x : Nat × Nat × Nat) : ∀ (l : List (Nat × Nat × Nat)),
    x ∈ l.foldr insertSorted [] ↔ x ∈ l := by
  intro l
  induction l with
  | nil => simp
  | cons y rest ih => simp only [List.foldr_cons, mem_insertSorted, ih, List.mem_cons]

/-- an entry whose key occurs with no other value is the one the lookup finds -/
theorem lookupLabelDepth_of_fun : ∀ (l : List (Nat × Nat × Nat)) (a : Nat) (v : Nat × Nat), (a, v) ∈ l →
    (∀ w, (a, w) ∈ l → w = v) → lookupLabelDepth a l = some v := by
  intro l
  induction l with
  | nil => intro a v h; simp at h
  | cons x rest ih =>
    intro a v hm hf
    obtain ⟨k, u⟩ := x
    simp only [lookupLabelDepth]
    by_cases hk : k = a
    · subst hk
      simp only [if_true]
      rw [hf u (by simp)]
    · simp only [hk, if_false]
      simp only [List.mem_cons, Prod.mk.injEq] at hm
      rcases hm with ⟨rfl, _⟩ | hm
      · exact absurd rfl hk
      · exact ih a v hm (fun w hw => hf w (List.mem_cons_of_mem _ hw))

/-- in a list without repeated keys every entry is the one the lookup finds -/
theorem lookupLabelDepth_of_mem : ∀ (l : List (Nat × Nat × Nat)), (l.map Prod.fst).Nodup → ∀ (a : Nat) (v : Nat × Nat),
    (a, v) ∈ l → lookupLabelDepth a l = some v := by
  intro l
  induction l with
  | nil => intro _ a v h; simp at h
  | cons x rest ih =>
    intro hn a v hm
    obtain ⟨k, u⟩ := x
    simp only [List.map_cons, List.nodup_cons] at hn
    simp only [lookupLabelDepth]
    simp only [List.mem_cons, Prod.mk.injEq] at hm
    rcases hm with ⟨rfl, rfl⟩ | hm
    · simp
    · have : k ≠ a := by
        intro hk; subst hk
        exact hn.1 (List.mem_map.mpr ⟨(k, v), hm, rfl⟩)
      simp only [this, if_false]
      exact ih hn.2 a v hm

/-! ### the table of a program -/

/-- the generic form: over an address table with strictly ascending addresses, the sorted table of
`(address, depths of the label)` answers the depths of every label at its address -/
theorem lookup_sorted (tbl : List (Nat × Nat)) (dt : List (Nat × Nat × Nat))
    (hasc : (tbl.map Prod.snd).Pairwise (· < ·)) (L a : Nat) (v : Nat × Nat)
    (hm : (L, a) ∈ tbl) (hl : lookupDepth L dt = some v) :
    lookupLabelDepth a ((tbl.filterMap fun (L, a) => (lookupDepth L dt).map fun (fd, sd) => (a, fd, sd)).foldr
      insertSorted []) = some v := by
  obtain ⟨fd, sd⟩ := v
  refine lookupLabelDepth_of_fun _ a (fd, sd) ?_ ?_
  · rw [mem_foldr_insertSorted, List.mem_filterMap]
    exact ⟨(L, a), hm, by simp only [hl, Option.map_some]⟩
  · intro w hw
    rw [mem_foldr_insertSorted, List.mem_filterMap] at hw
    obtain ⟨⟨L', a'⟩, hm', hf⟩ := hw
    cases hl' : lookupDepth L' dt with
    | none => simp only [hl', Option.map_none] at hf; cases hf
    | some v' =>
      obtain ⟨fd', sd'⟩ := v'
      simp only [hl', Option.map_some, Option.some.injEq, Prod.mk.injEq] at hf
      obtain ⟨rfl, hw⟩ := hf
      have hLL : L' = L := label_of_addr_unique tbl hasc L' L a' hm' hm
      subst hLL
      rw [hl] at hl'
      simp only [Option.some.injEq, Prod.mk.injEq] at hl'
      obtain ⟨rfl, rfl⟩ := hl'
      exact hw.symm

/-- **the label-depth table of a well-formed program answers, at the address of every label, the depths of that label**
(the field `depthsOk` of `Ctx.Ok` for the program context) -/
theorem depths_ok (prog : SProgram) (hw : ProgWf prog) :
    ∀ L ∈ (strip prog.body).labels,
      lookupLabelDepth ((envOf (reorder prog.body)).addr L) (labelDepths prog) =
        some ((envOf (reorder prog.body)).dp.fd L, (envOf (reorder prog.body)).dp.sd L) := by
  obtain ⟨hwt, hnd⟩ := hw
  intro L hL
  rw [labels_strip] at hL
  have hdt := depth_reorder prog.body
  have hwf : Wf prog.slots (Dp.ofTable (depthTable 0 0 prog.body)) true 0 0 (strip prog.body) := wf_strip _ _ _ hwt
  -- the address table of the reordered body is that of the stripped body behind the DATA prefix
  have htbl : addrTable (Dp.ofTable (depthTable 0 0 prog.body)) 0 0 0 (reorder prog.body) =
      addrTable (Dp.ofTable (depthTable 0 0 prog.body)) 0 0
        (sizeStmt (Dp.ofTable (depthTable 0 0 prog.body)) 0 0 (seqOf (datas prog.body))) (strip prog.body) := by
    show addrTable _ 0 0 0 (seqOf (datas prog.body ++ others prog.body)) = _
    rw [addr_seqOf_append, addr_datas _ _ (datas_isData prog.body), List.nil_append, Nat.zero_add, ← addr_strip]
  have hkeys := addr_keys _ _ _ _ _ (sizeStmt (Dp.ofTable (depthTable 0 0 prog.body)) 0 0 (seqOf (datas prog.body))) hwf
  rw [labels_strip] at hkeys
  have hasc := (addr_asc _ _ _ _ _ (sizeStmt (Dp.ofTable (depthTable 0 0 prog.body)) 0 0 (seqOf (datas prog.body))) hwf).1
  have hdkeys : (depthTable 0 0 prog.body).map Prod.fst = prog.body.labels := depth_keys _ _ _
  rw [← htbl] at hkeys hasc
  -- the entries of `L` in the two tables
  obtain ⟨a, ha⟩ : ∃ a, (L, a) ∈ addrTable (Dp.ofTable (depthTable 0 0 prog.body)) 0 0 0 (reorder prog.body) := by
    have : L ∈ (addrTable (Dp.ofTable (depthTable 0 0 prog.body)) 0 0 0 (reorder prog.body)).map Prod.fst := by
      rw [hkeys]; exact hL
    obtain ⟨⟨L', a⟩, hm, rfl⟩ := List.mem_map.1 this
    exact ⟨a, hm⟩
  obtain ⟨v, hv⟩ : ∃ v, (L, v) ∈ depthTable 0 0 prog.body := by
    have : L ∈ (depthTable 0 0 prog.body).map Prod.fst := by rw [hdkeys]; exact hL
    obtain ⟨⟨L', v⟩, hm, rfl⟩ := List.mem_map.1 this
    exact ⟨v, hm⟩
  have hla := lookupNat_of_mem _ (by rw [hkeys]; exact hnd) L a ha
  have hlv := lookupDepth_of_mem _ (by rw [hdkeys]; exact hnd) L v hv
  have hmain := lookup_sorted _ _ hasc L a v ha hlv
  obtain ⟨fd, sd⟩ := v
  have hfd : (Dp.ofTable (depthTable 0 0 prog.body)).fd L = fd := by simp only [Dp.ofTable, hlv]
  have hsd : (Dp.ofTable (depthTable 0 0 prog.body)).sd L = sd := by simp only [Dp.ofTable, hlv]
  have hld : labelDepths prog =
      ((addrTable (Dp.ofTable (depthTable 0 0 (reorder prog.body))) 0 0 0 (reorder prog.body)).filterMap
        fun (L, a) => (lookupDepth L (depthTable 0 0 (reorder prog.body))).map fun (fd, sd) => (a, fd, sd)).foldr
          insertSorted [] := rfl
  have haddr : (envOf (reorder prog.body)).addr L =
      (lookupNat L (addrTable (Dp.ofTable (depthTable 0 0 (reorder prog.body))) 0 0 0 (reorder prog.body))).getD 0 := rfl
  have hdp : (envOf (reorder prog.body)).dp = Dp.ofTable (depthTable 0 0 (reorder prog.body)) := rfl
  rw [hld, haddr, hdp, hdt, hla, hfd, hsd]
  exact hmain

end RbThm.ErrLSim
