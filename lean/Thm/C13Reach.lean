import Thm.C13
/-!
C13, second part: the side conditions of the per-context theorems hold in *every context a script reaches*.

`Reachable s c`: `c` is a linter context in front of some statement (or at the end) of script `s` while the
converter walks it — in the main module or inside a SUB/FUNCTION body, after the pre-linter accepted `s`.
`Free c k` is the invariant "`k` is not an `AS type` variable, not a constant, not a FUNCTION, not a SUB";
it is kept by every declaration and use that is not itself `DIM k AS ...`, `CONST k`, a parameter `k AS ...` or a
subprogram named `k` (`NoShadow`).  Hence the bare/suffixed rules of `Thm/C13.lean` hold along whole scripts.
-/
namespace RbThm.C13Reach
open RbModel.Names RbThm.C13

/-! ## helper lemmas: tables -/

theorem find_cons_ne (t : Table) (k k' : Key) (v : NameInfo) (h : k' ≠ k) :
    Table.find ((k', v) :: t) k = Table.find t k := by
  simp [Table.find, h]

/-- no `AS type` variable and no constant of that name in the table -/
def NoExtConst (t : Table) (k : Key) : Prop := t.getExtended k = none ∧ t.getConst k = none

theorem noExtConst_nil (k : Key) : NoExtConst [] k := by
  simp [NoExtConst, Table.getExtended, Table.getConst, Table.find]

theorem noExtConst_cons_ne (t : Table) (k k' : Key) (v : NameInfo) (h : k' ≠ k) (ht : NoExtConst t k) :
    NoExtConst ((k', v) :: t) k := by
  unfold NoExtConst Table.getExtended Table.getConst at *
  rw [find_cons_ne t k k' v h]; exact ht

theorem noExtConst_insertCompact (t : Table) (k k' : Key) (q : Q) (s : Bool) (ht : NoExtConst t k) :
    NoExtConst (t.insertCompact k' q s) k := by
  by_cases h : k' = k
  · subst h
    unfold Table.insertCompact
    split <;> simp [NoExtConst, Table.getExtended, Table.getConst]
  · unfold Table.insertCompact
    split <;> exact noExtConst_cons_ne _ _ _ _ h ht

/-! ## the invariant -/

/-- `k` is free for the bare/suffixed rules: not a SUB, not a FUNCTION, and neither table in sight holds an
`AS type` variable or a constant of that name -/
structure Free (c : Ctx) (k : Key) : Prop where
  sub : c.hasSub k = false
  fn : c.funcQ k = none
  glob : NoExtConst c.globals k
  loc : c.inSub = true → NoExtConst c.locals k

theorem Free.cur {c : Ctx} {k : Key} (h : Free c k) : NoExtConst c.cur k := by
  unfold Ctx.cur
  cases hs : c.inSub
  · simpa using h.glob
  · simpa using h.loc hs

/-- the invariant gives exactly the side conditions of `bare_is_default_type`, `five_suffixes_distinct`, … -/
theorem Free.side_conditions {c : Ctx} {k : Key} (h : Free c k) :
    c.hasSub k = false ∧ c.getExtendedRec k = none ∧ c.getConstRec k = none ∧ c.funcQ k = none := by
  have hc := h.cur
  refine ⟨h.sub, ?_, ?_, h.fn⟩
  · unfold Ctx.getExtendedRec
    rw [hc.1]
    cases hs : c.inSub <;> simp [h.glob.1]
  · unfold Ctx.getConstRec
    rw [hc.2]
    cases hs : c.inSub <;> simp [h.glob.2]

theorem free_setCur (c : Ctx) (k : Key) (t : Table) (h : Free c k) (ht : NoExtConst t k) : Free (c.setCur t) k := by
  refine ⟨by simpa using h.sub, by simpa using h.fn, ?_, ?_⟩
  · unfold Ctx.setCur
    cases hs : c.inSub
    · simpa using ht
    · simpa using h.glob
  · intro hin
    rw [setCur_inSub] at hin
    unfold Ctx.setCur
    simp [hin]; exact ht

/-! ## what does not break the invariant -/

def stmtShadows (k : Key) : Stmt → Bool
  | .dim _ n (.extended _) => decide (fold n = k)
  | .const n _ => decide (fold n.name = k)
  | _ => false

def paramShadows (k : Key) (p : Param) : Bool :=
  match p.d with
  | .extended _ => decide (fold p.name = k)
  | _ => false

def itemShadows (k : Key) : Item → Bool
  | .defType _ _ => false
  | .stmt s => stmtShadows k s
  | .sub n ps body => decide (fold n = k) || ps.any (paramShadows k) || body.any (stmtShadows k)
  | .func n ps body => decide (fold n.name = k) || ps.any (paramShadows k) || body.any (stmtShadows k)

/-- the script never declares `k` as `AS type` variable / parameter, as CONST, or as SUB / FUNCTION name -/
def NoShadow (k : Key) (s : Script) : Prop := ∀ it ∈ s, itemShadows k it = false

/-- resolving a name changes the context at most by one implicit compact variable -/
theorem resolveVar_ctx (c c' : Ctx) (k : Key) (sfx : Option Q) (m : Mode) (r : Res)
    (h : resolveVar c k sfx m = .ok (c', r)) :
    c' = c ∨ ∃ q, c' = c.setCur (c.cur.insertCompact k q false) := by
  unfold resolveVar at h
  split at h; · cases h
  split at h
  · split at h
    · injection h with h; injection h with h _; exact Or.inl h.symm
    · cases h
  · simp only [] at h
    split at h
    · injection h with h; injection h with h _; exact Or.inl h.symm
    · split at h
      · unfold resolveConst at h
        split at h
        · simp [Except.map] at h; exact Or.inl h.1.symm
        · simp [Except.map] at h
      · unfold resolveTail at h
        split at h
        · split at h
          · split at h
            · split at h
              · injection h with h; injection h with h _; exact Or.inr ⟨_, h.symm⟩
              · cases h
            · cases h
          · split at h
            · injection h with h; injection h with h _; exact Or.inl h.symm
            · cases h
        · split at h
          · unfold resolveConst at h
            split at h
            · simp [Except.map] at h; exact Or.inl h.1.symm
            · simp [Except.map] at h
          · unfold addImplicit at h
            injection h with h; injection h with h _; exact Or.inr ⟨_, h.symm⟩

theorem free_resolveVar (c c' : Ctx) (k k' : Key) (sfx : Option Q) (m : Mode) (r : Res)
    (h : resolveVar c k' sfx m = .ok (c', r)) (hf : Free c k) : Free c' k := by
  rcases resolveVar_ctx c c' k' sfx m r h with h | ⟨q, h⟩
  · rw [h]; exact hf
  · rw [h]; exact free_setCur c k _ hf (noExtConst_insertCompact _ _ _ _ _ hf.cur)

theorem free_declare (c c' : Ctx) (k k' : Key) (d : Decl) (sh : Bool)
    (h : declare c k' d sh = .ok c') (hd : (match d with | .extended _ => decide (k' = k) | _ => false) = false)
    (hf : Free c k) : Free c' k := by
  unfold declare at h
  cases d with
  | bare =>
    simp only [] at h
    split at h
    · injection h with h; rw [← h]
      exact free_setCur c k _ hf (noExtConst_insertCompact _ _ _ _ _ hf.cur)
    · cases h
  | compact q =>
    simp only [] at h
    split at h
    · injection h with h; rw [← h]
      exact free_setCur c k _ hf (noExtConst_insertCompact _ _ _ _ _ hf.cur)
    · cases h
  | extended q =>
    simp only [] at h
    have hne : k' ≠ k := by simpa using hd
    split at h
    · injection h with h; rw [← h]
      exact free_setCur c k _ hf (noExtConst_cons_ne _ _ _ _ hne hf.cur)
    · cases h

theorem free_convStmt (c c' : Ctx) (k : Key) (s : Stmt) (r : RStmt)
    (h : convStmt c s = .ok (c', r)) (hs : stmtShadows k s = false) (hf : Free c k) : Free c' k := by
  cases s with
  | dim sh n d =>
    simp only [convStmt] at h
    cases hd : convDim c sh (fold n) d with
    | error e => simp [hd, Except.map] at h
    | ok c1 =>
      simp [hd, Except.map] at h
      rw [← h.1]
      unfold convDim at hd
      split at hd; · cases hd
      split at hd; · cases hd
      split at hd; · cases hd
      split at hd; · cases hd
      refine free_declare c c1 k (fold n) d sh hd ?_ hf
      cases d <;> simp [stmtShadows] at hs ⊢
      exact hs
  | const n l =>
    simp only [convStmt] at h
    cases hd : convConst c (fold n.name) n.sfx l with
    | error e => simp [hd, Except.map] at h
    | ok c1 =>
      simp [hd, Except.map] at h
      rw [← h.1]
      have hne : fold n.name ≠ k := by simpa [stmtShadows] using hs
      unfold convConst at hd
      split at hd; · cases hd
      split at hd
      · injection hd with hd; rw [← hd]
        exact free_setCur c k _ hf (noExtConst_cons_ne _ _ _ _ hne hf.cur)
      · cases hd
  | assign n b t =>
    simp only [convStmt] at h
    split at h; · cases h
    split at h
    · cases h
    · next c1 k1 q1 home1 hr =>
      split at h
      · cases h
      · injection h with h; injection h with h _; rw [← h]
        exact free_resolveVar c c1 k (fold n.name) n.sfx .assignment _ hr hf
    · cases h
  | print n =>
    simp only [convStmt] at h
    split at h
    · cases h
    · next c1 r1 hr =>
      injection h with h; injection h with h _; rw [← h]
      exact free_resolveVar c c1 k (fold n.name) n.sfx .default _ hr hf
  | callSub n a =>
    simp only [convStmt] at h
    injection h with h; injection h with h _; rw [← h]; exact hf
  | printCall n a =>
    simp only [convStmt] at h
    split at h
    · cases h
    · injection h with h; injection h with h _; rw [← h]; exact hf

theorem free_convParam (c c' : Ctx) (k : Key) (p : Param)
    (h : convParam c (fold p.name) p.d = .ok c') (hs : paramShadows k p = false) (hf : Free c k) : Free c' k := by
  obtain ⟨pn, pd⟩ := p
  unfold convParam at h
  split at h; · cases h
  split at h; · cases h
  split at h; · cases h
  refine free_declare c c' k (fold pn) pd false h ?_ hf
  unfold paramShadows at hs
  cases pd <;> simp at hs ⊢
  exact hs

theorem free_convParams (c c' : Ctx) (k : Key) (ps : List Param) (pq : List (Key × Q))
    (h : convParams c ps = .ok (c', pq)) (hs : ps.any (paramShadows k) = false) (hf : Free c k) : Free c' k := by
  induction ps generalizing c pq with
  | nil => simp [convParams] at h; rw [← h.1]; exact hf
  | cons p rest ih =>
    simp only [List.any_cons, Bool.or_eq_false_iff] at hs
    simp only [convParams] at h
    split at h; · cases h
    next c1 hp =>
    split at h; · cases h
    next c2 ps2 hrest =>
    injection h with h; injection h with h _; subst h
    exact ih c1 ps2 hrest hs.2 (free_convParam c c1 k p hp hs.1 hf)

/-! ## reachable contexts -/

/-- `ReachStmts c l c'`: starting the statement list `l` in context `c`, the converter is in context `c'` in front
of one of the statements of `l` or at its end -/
inductive ReachStmts : Ctx → List Stmt → Ctx → Prop where
  | here (c : Ctx) (l : List Stmt) : ReachStmts c l c
  | step {c c' c'' : Ctx} {s : Stmt} {r : RStmt} {rest : List Stmt} :
      convStmt c s = .ok (c', r) → ReachStmts c' rest c'' → ReachStmts c (s :: rest) c''

/-- the context in which the parameters of a subprogram are converted (`Names::push`) -/
def enter (c : Ctx) (sc : Scope) : Ctx := { c with scope := sc, locals := [] }

inductive ReachItems : Ctx → List Item → Ctx → Prop where
  | here (c : Ctx) (l : List Item) : ReachItems c l c
  | inSub {c c2 c'' : Ctx} {n : Ident} {ps : List Param} {pq : List (Key × Q)} {body : List Stmt} {rest : List Item} :
      convParams (enter c (.sub (fold n))) ps = .ok (c2, pq) → ReachStmts c2 body c'' →
      ReachItems c (.sub n ps body :: rest) c''
  | inFunc {c c2 c'' : Ctx} {n : NameRef} {ps : List Param} {pq : List (Key × Q)} {body : List Stmt} {rest : List Item} :
      convParams (enter c (.func (fold n.name) (n.sfx.getD (defaultQ c.deft (fold n.name))))) ps = .ok (c2, pq) →
      ReachStmts c2 body c'' → ReachItems c (.func n ps body :: rest) c''
  | step {c c' c'' : Ctx} {it : Item} {r : List RItem} {rest : List Item} :
      convItem c it = .ok (c', r) → ReachItems c' rest c'' → ReachItems c (it :: rest) c''

/-- the converter's initial context for the signatures the pre-linter collected (as in `lint`) -/
def initCtx (p : Pre) : Ctx :=
  { deft := DefTable.init, funcs := p.funcs, subs := p.subs, globals := [], locals := [], scope := Scope.global }

def pre0 : Pre := { deft := DefTable.init, funcs := [], subs := [], consts := [] }

/-- `c` is a context the linter is in at some point of script `s` -/
def Reachable (s : Script) (c : Ctx) : Prop :=
  ∃ p, preItems pre0 s = .ok p ∧ ReachItems (initCtx p) s c

theorem free_reachStmts (c c' : Ctx) (k : Key) (l : List Stmt) (hr : ReachStmts c l c')
    (hs : l.any (stmtShadows k) = false) (hf : Free c k) : Free c' k := by
  induction hr with
  | here c l => exact hf
  | step hconv _ ih =>
    simp only [List.any_cons, Bool.or_eq_false_iff] at hs
    exact ih hs.2 (free_convStmt _ _ k _ _ hconv hs.1 hf)

theorem free_convStmts (c c' : Ctx) (k : Key) (l : List Stmt) (rs : List RStmt)
    (h : convStmts c l = .ok (c', rs)) (hs : l.any (stmtShadows k) = false) (hf : Free c k) : Free c' k := by
  induction l generalizing c rs with
  | nil => simp [convStmts] at h; rw [← h.1]; exact hf
  | cons s rest ih =>
    simp only [List.any_cons, Bool.or_eq_false_iff] at hs
    simp only [convStmts] at h
    split at h; · cases h
    next c1 r1 h1 =>
    split at h; · cases h
    next c2 rs2 h2 =>
    injection h with h; injection h with h _; subst h
    exact ih c1 rs2 h2 hs.2 (free_convStmt c c1 k s r1 h1 hs.1 hf)

theorem free_enter (c : Ctx) (k : Key) (sc : Scope) (hf : Free c k) : Free (enter c sc) k :=
  ⟨hf.sub, hf.fn, hf.glob, fun _ => noExtConst_nil k⟩

theorem free_leave (c : Ctx) (k : Key) (hf : Free c k) : Free { c with scope := Scope.global, locals := [] } k :=
  ⟨hf.sub, hf.fn, hf.glob, fun _ => noExtConst_nil k⟩

theorem free_convSubprogram (c c' : Ctx) (k : Key) (sc : Scope) (ps : List Param) (body : List Stmt)
    (out : List (Key × Q) × List RStmt × Table)
    (h : convSubprogram c sc ps body = .ok (c', out))
    (hp : ps.any (paramShadows k) = false) (hb : body.any (stmtShadows k) = false) (hf : Free c k) : Free c' k := by
  unfold convSubprogram at h
  simp only [] at h
  split at h; · cases h
  next c2 pq h2 =>
  split at h; · cases h
  next c3 rs h3 =>
  injection h with h; injection h with h _; rw [← h]
  have f2 := free_convParams _ c2 k ps pq h2 hp (free_enter c k sc hf)
  exact free_leave c3 k (free_convStmts c2 c3 k body rs h3 hb f2)

theorem free_convItem (c c' : Ctx) (k : Key) (it : Item) (r : List RItem)
    (h : convItem c it = .ok (c', r)) (hs : itemShadows k it = false) (hf : Free c k) : Free c' k := by
  cases it with
  | defType q rs =>
    simp [convItem] at h; rw [← h.1]
    exact ⟨hf.sub, hf.fn, hf.glob, hf.loc⟩
  | stmt s =>
    simp only [convItem] at h
    cases hc : convStmt c s with
    | error e => simp [hc, Except.map] at h
    | ok p =>
      simp [hc, Except.map] at h
      rw [← h.1]
      exact free_convStmt c p.1 k s p.2 (by rw [hc]) (by simpa [itemShadows] using hs) hf
  | sub n ps body =>
    simp only [itemShadows, Bool.or_eq_false_iff] at hs
    simp only [convItem] at h
    split at h; · cases h
    next c1 pq rs loc hc =>
    injection h with h; injection h with h _; rw [← h]
    exact free_convSubprogram c c1 k _ ps body _ hc hs.1.2 hs.2 hf
  | func n ps body =>
    simp only [itemShadows, Bool.or_eq_false_iff] at hs
    simp only [convItem] at h
    split at h; · cases h
    next c1 pq rs loc hc =>
    injection h with h; injection h with h _; rw [← h]
    exact free_convSubprogram c c1 k _ ps body _ hc hs.1.2 hs.2 hf

theorem free_reachItems (c c' : Ctx) (k : Key) (l : List Item) (hr : ReachItems c l c')
    (hs : ∀ it ∈ l, itemShadows k it = false) (hf : Free c k) : Free c' k := by
  induction hr with
  | here c l => exact hf
  | inSub hp hb =>
    have h := hs _ (List.mem_cons_self ..)
    simp only [itemShadows, Bool.or_eq_false_iff] at h
    exact free_reachStmts _ _ k _ hb h.2 (free_convParams _ _ k _ _ hp h.1.2 (free_enter _ k _ hf))
  | inFunc hp hb =>
    have h := hs _ (List.mem_cons_self ..)
    simp only [itemShadows, Bool.or_eq_false_iff] at h
    exact free_reachStmts _ _ k _ hb h.2 (free_convParams _ _ k _ _ hp h.1.2 (free_enter _ k _ hf))
  | step hconv _ ih =>
    exact ih (fun it hit => hs it (List.mem_cons_of_mem _ hit))
      (free_convItem _ _ k _ _ hconv (hs _ (List.mem_cons_self ..)) hf)

/-! ## the pre-linter only records the names of the script's subprograms -/

theorem assocFind_cons_ne {β : Type} (l : List (Key × β)) (k k' : Key) (v : β) (h : k' ≠ k) :
    assocFind ((k', v) :: l) k = assocFind l k := by
  simp [assocFind, h]

theorem preItem_names (p p' : Pre) (k : Key) (it : Item) (h : preItem p it = .ok p')
    (hs : itemShadows k it = false) (hf : assocFind p.funcs k = none) (hsb : assocFind p.subs k = none) :
    assocFind p'.funcs k = none ∧ assocFind p'.subs k = none := by
  cases it with
  | defType q rs => simp [preItem] at h; rw [← h]; exact ⟨hf, hsb⟩
  | stmt s =>
    cases s with
    | const n l =>
      simp only [preItem] at h
      split at h; · cases h
      split at h
      · cases h
      · injection h with h; rw [← h]; exact ⟨hf, hsb⟩
    | dim _ _ _ => simp [preItem] at h; rw [← h]; exact ⟨hf, hsb⟩
    | assign _ _ _ => simp [preItem] at h; rw [← h]; exact ⟨hf, hsb⟩
    | print _ => simp [preItem] at h; rw [← h]; exact ⟨hf, hsb⟩
    | callSub _ _ => simp [preItem] at h; rw [← h]; exact ⟨hf, hsb⟩
    | printCall _ _ => simp [preItem] at h; rw [← h]; exact ⟨hf, hsb⟩
  | sub n ps body =>
    simp only [itemShadows, Bool.or_eq_false_iff, decide_eq_false_iff_not] at hs
    simp only [preItem] at h
    split at h; · cases h
    injection h with h; rw [← h]
    exact ⟨hf, by simp only []; rw [assocFind_cons_ne _ _ _ _ hs.1.1]; exact hsb⟩
  | func n ps body =>
    simp only [itemShadows, Bool.or_eq_false_iff, decide_eq_false_iff_not] at hs
    simp only [preItem] at h
    split at h; · cases h
    injection h with h; rw [← h]
    exact ⟨by simp only []; rw [assocFind_cons_ne _ _ _ _ hs.1.1]; exact hf, hsb⟩

theorem preItems_names (p p' : Pre) (k : Key) (l : List Item) (h : preItems p l = .ok p')
    (hs : ∀ it ∈ l, itemShadows k it = false) (hf : assocFind p.funcs k = none) (hsb : assocFind p.subs k = none) :
    assocFind p'.funcs k = none ∧ assocFind p'.subs k = none := by
  induction l generalizing p with
  | nil => simp [preItems] at h; rw [← h]; exact ⟨hf, hsb⟩
  | cons it rest ih =>
    simp only [preItems] at h
    split at h; · cases h
    next p1 h1 =>
    have := preItem_names p p1 k it h1 (hs _ (List.mem_cons_self ..)) hf hsb
    exact ih p1 h (fun it hit => hs it (List.mem_cons_of_mem _ hit)) this.1 this.2

/-! ## the property along whole scripts -/

/-- **Invariant.**  In a script that never declares `k` as `AS type` variable or parameter, CONST, SUB or
FUNCTION, `k` is free in every context the linter reaches. -/
theorem free_of_reachable (s : Script) (k : Key) (c : Ctx) (hs : NoShadow k s) (hr : Reachable s c) : Free c k := by
  obtain ⟨p, hp, hreach⟩ := hr
  have hn := preItems_names pre0 p k s hp hs (by simp [pre0, assocFind]) (by simp [pre0, assocFind])
  have h0 : Free (initCtx p) k :=
    ⟨by simp [initCtx, Ctx.hasSub, hn.2], by simp [initCtx, Ctx.funcQ, hn.1],
     by simpa [initCtx] using noExtConst_nil k, fun _ => by simpa [initCtx] using noExtConst_nil k⟩
  exact free_reachItems _ _ k s hreach hs h0

/-- **bare_is_default_type along scripts**: at every point of such a script, `k` and `k<DEFtype of its letter>`
resolve identically. -/
theorem bare_is_default_type_reachable (s : Script) (k : Key) (c : Ctx) (m : Mode)
    (hs : NoShadow k s) (hr : Reachable s c) :
    resolveVar c k none m = resolveVar c k (some (defaultQ c.deft k)) m := by
  obtain ⟨_, he, hc, hf⟩ := (free_of_reachable s k c hs hr).side_conditions
  exact bare_is_default_type c k m he hc hf

/-- **five_suffixes_distinct along scripts**: at every point of such a script each suffixed spelling `k<q>` resolves
to the variable `k<q>`, so the five spellings denote five different variables, whatever was declared or used before. -/
theorem five_suffixes_distinct_reachable (s : Script) (k : Key) (c : Ctx) (m : Mode)
    (hs : NoShadow k s) (hr : Reachable s c) :
    (∀ q, ∃ c' home, resolveVar c k (some q) m = .ok (c', .var k q home)) ∧
    (∀ q1 q2 c1 c2 r1 r2, q1 ≠ q2 → resolveVar c k (some q1) m = .ok (c1, r1) →
      resolveVar c k (some q2) m = .ok (c2, r2) → r1 ≠ r2) := by
  obtain ⟨hsub, he, hc, hf⟩ := (free_of_reachable s k c hs hr).side_conditions
  refine ⟨fun q => suffixed_resolves_to_own_qualifier c k q m hsub he hc hf, ?_⟩
  intro q1 q2 c1 c2 r1 r2 hne h1 h2
  exact (five_suffixes_distinct c k m hsub he hc hf q1 q2 hne c1 c2 r1 r2 h1 h2).2.2

/-- the lint pass really walks reachable contexts: the context in which `convItems` ends is reachable -/
theorem convItems_reach (c c' : Ctx) (l : List Item) (r : List RItem) (h : convItems c l = .ok (c', r)) :
    ReachItems c l c' := by
  induction l generalizing c r with
  | nil => simp [convItems] at h; rw [← h.1]; exact .here _ _
  | cons it rest ih =>
    simp only [convItems] at h
    split at h; · cases h
    next c1 r1 h1 =>
    split at h; · cases h
    next c2 r2 h2 =>
    injection h with h; injection h with h _; subst h
    exact .step h1 (ih c1 r2 h2)

/-- non-trivial instance: in `A% = 1 : SUB S : A$ = "x" : END SUB` the context inside the SUB after its statement
is reachable and `A` is free there -/
example : NoShadow [65] [.stmt (.assign ⟨[65], some .int⟩ false 1), .sub [83] [] [.assign ⟨[97], some .str⟩ true 2]] := by
  intro it hit
  simp at hit
  rcases hit with h | h <;> subst h <;> decide

/-- non-trivial instance of `Reachable`: after `A% = 1` the context holding the implicit `A%` is reachable -/
example : ∃ c, Reachable [.stmt (.assign ⟨[65], some .int⟩ false 1)] c ∧
    c.globals.getCompact [65] .int = some false :=
  ⟨_, ⟨_, rfl, ReachItems.step (r := [RItem.stmt (.assign [65] .int .global 1)]) rfl (ReachItems.here _ _)⟩, by decide⟩

end RbThm.C13Reach
