import Thm.C02Core
/-!
C02 — loops and branches mean the same wherever they are nested or however written.

Stated over the reference semantics `RbModel.Ref` (the specification the implementation is tied to by
C01's differential run) and the rewrites of `RbModel.Rewrite`.

* Equivalence (`Thm/C02Core.lean`): `Equiv zs a b` — each of `a`, `b` simulates the other: whenever one
  ends (with some fuel, not by exhausting it) the other ends (with some fuel) with the same output, the
  same DATA cursor, the same value in every variable except the temporaries `zs`, and the same outcome
  **up to the position of an error** (`OEq`: same kind of ending, same error code; two spellings put
  their tests at different source positions).
* Clause (a), "behaves identically regardless of what encloses it": `exec_congr` (C02Core) — `Equiv` is
  preserved by every context (`RbModel.Rewrite.Ctx`: sequence left/right, IF branches, CASE blocks,
  WHILE / DO / FOR bodies, nested to any depth).
* Clause (b), one theorem per respelling, below.  Together with `exec_congr` each holds under every
  context, i.e. at every rewrite site of every program.
* Single-line IF vs block IF is a fact about the parser (both produce the same `IfBlock` tree): it is
  checked by the harness on the parsed + linted trees, not stated here.
-/
namespace RbThm.C02
open RbModel RbModel.Num RbModel.Ast RbModel.Ref RbModel.Rewrite RbThm.C01

/-! ### WHILE … WEND  ≡  DO WHILE … LOOP -/

/-- `WHILE c … WEND` and `DO WHILE c … LOOP` are equivalent (they even run in lockstep:
`while_doTop_exec`). -/
theorem while_eq_doWhileTop (c : Ast.Expr) (body : Stmt) (p p' : Pos) :
    Equiv [] (.while c body p) (.doLoop c true false body p') :=
  Equiv.of_exec_eq (while_doTop_exec c body p p')

theorem whileToDo_equiv {st st' : Stmt} (h : whileToDo st = some st') : Equiv [] st st' := by
  cases st <;> simp [whileToDo] at h
  subst h; exact while_eq_doWhileTop _ _ _ _

/-! ### DO UNTIL c  ≡  DO WHILE NOT c  (c a comparison) -/

/-- the hypothesis on `c`: whenever it has a value, the value is the INTEGER −1 or 0 -/
def CmpLike (c : Ast.Expr) : Prop := ∀ env v, eval env c = .ok v → v = .int (-1) ∨ v = .int 0

theorem unaryNot_flip {v : Val} (h : v = .int (-1) ∨ v = .int 0) :
    (v = .int (-1) → unaryNot v = .ok (.int 0)) ∧ (v = .int 0 → unaryNot v = .ok (.int (-1))) := by
  constructor <;> intro hv <;> subst hv <;> rfl

/-- comparisons (a relational operator at the top, possibly under parentheses or NOT) qualify -/
theorem isCmp_cmpLike : ∀ c : Ast.Expr, isCmp c = true → CmpLike c
  | .lit _ _, h => by simp [isCmp] at h
  | .var _ _ _, h => by simp [isCmp] at h
  | .paren e _, h => by
      intro env v hv
      exact isCmp_cmpLike e (by simpa [isCmp] using h) env v (by simpa [eval] using hv)
  | .un .neg _ _, h => by simp [isCmp] at h
  | .un .not e p, h => by
      intro env v hv
      simp only [eval] at hv
      cases he : eval env e with
      | err c q => rw [he] at hv; cases hv
      | inexact => rw [he] at hv; cases hv
      | ok w =>
        rw [he] at hv; simp only [ERes.bind] at hv
        rcases isCmp_cmpLike e (by simpa [isCmp] using h) env w he with rfl | rfl
        · have : unaryNot (.int (-1)) = .ok (.int 0) := rfl
          rw [this] at hv; simp only [lift] at hv; cases hv; exact .inr rfl
        · have : unaryNot (.int 0) = .ok (.int (-1)) := rfl
          rw [this] at hv; simp only [lift] at hv; cases hv; exact .inl rfl
  | .bin op l r t p, h => by
      intro env v hv
      simp only [eval] at hv
      cases hl : eval env l with
      | err c q => rw [hl] at hv; cases hv
      | inexact => rw [hl] at hv; cases hv
      | ok a =>
        rw [hl] at hv; simp only [ERes.bind] at hv
        cases hr : eval env r with
        | err c q => rw [hr] at hv; cases hv
        | inexact => rw [hr] at hv; cases hv
        | ok b =>
          rw [hr] at hv; simp only at hv
          have hrel : isRel op = true := by simpa [isCmp] using h
          have hb : binStep op t a b = (tryCmp a b).bind fun o => .ok (ofBool (relHolds op o)) := by
            cases op <;> simp [isRel] at hrel <;> rfl
          rw [hb] at hv
          cases hc : tryCmp a b with
          | err e => rw [hc] at hv; cases hv
          | inexact => rw [hc] at hv; cases hv
          | ok o =>
            rw [hc] at hv; simp only [Res.bind, lift] at hv; cases hv
            cases relHolds op o <;> simp [ofBool]

/-- `NOT (c)` is true exactly when `c` is false, and fails exactly when `c` fails (same error) -/
theorem evalCond_notE {c : Ast.Expr} (hc : CmpLike c) (env : List Val) :
    evalCond env (notE c) = match evalCond env c with | .error o => .error o | .ok b => .ok (!b) := by
  simp only [evalCond, notE, eval]
  cases he : eval env c with
  | err cc q => rfl
  | inexact => rfl
  | ok w =>
    rcases hc env w he with rfl | rfl <;> rfl

/-- `DO UNTIL c` / `LOOP UNTIL c` and `DO WHILE NOT (c)` / `LOOP WHILE NOT (c)` run in lockstep when
`c` is a comparison -/
theorem doUntil_doWhileNot_exec {c : Ast.Expr} (hc : CmpLike c) (top : Bool) (body : Stmt) (p p' : Pos) :
    ∀ (f : Nat) (s : St), exec f (.doLoop c top true body p) s = exec f (.doLoop (notE c) top false body p') s := by
  intro f
  induction f with
  | zero => intro s; simp only [exec]
  | succ n ih =>
    intro s
    cases top with
    | true =>
      rw [exec_doTop, exec_doTop, evalCond_notE hc]
      cases evalCond s.env c with
      | error o => rfl
      | ok b =>
        cases b with
        | true => rfl
        | false =>
          simp only [Bool.false_bne, Bool.not_false, if_true]
          congr 1; funext s'; exact ih s'
    | false =>
      rw [exec_doBottom, exec_doBottom]
      congr 1; funext s'
      rw [evalCond_notE hc]
      cases evalCond s'.env c with
      | error o => rfl
      | ok b =>
        cases b with
        | true => rfl
        | false =>
          simp only [Bool.false_bne, Bool.not_false, if_true]
          exact ih s'

/-- **DO UNTIL c ≡ DO WHILE NOT c** for a comparison `c` (condition at the top or at the bottom). -/
theorem doUntil_eq_doWhileNot {c : Ast.Expr} (hc : CmpLike c) (top : Bool) (body : Stmt) (p p' : Pos) :
    Equiv [] (.doLoop c top true body p) (.doLoop (notE c) top false body p') :=
  Equiv.of_exec_eq (doUntil_doWhileNot_exec hc top body p p')

theorem untilToWhileNot_equiv {st st' : Stmt} (h : untilToWhileNot st = some st') : Equiv [] st st' := by
  cases st <;> simp [untilToWhileNot] at h
  case doLoop c top u body p =>
    cases u <;> simp at h
    obtain ⟨hcmp, rfl⟩ := h
    exact doUntil_eq_doWhileNot (isCmp_cmpLike c hcmp) top body p p

/-- the hypothesis is needed: for a condition that is not −1/0-valued the two spellings differ
(`DO UNTIL 2` never runs its body, `DO WHILE NOT 2` does: NOT 2 = −3 is true) -/
example : evalCond [] (.lit (.int 2) ⟨1, 1⟩) = .ok true ∧ evalCond [] (notE (.lit (.int 2) ⟨1, 1⟩)) = .ok true := by
  constructor <;> rfl

/-! ### FOR without STEP  ≡  STEP 1 -/

theorem stepSign_one (p : Pos) : stepSign p (.int 1) = .ok .pos := rfl

/-- lockstep: the two loops run identically for every amount of fuel -/
theorem for_noStep_step1_exec (x : Nat) (t : Ty) (lo hi : Ast.Expr) (body : Stmt) (p q : Pos) (f : Nat) (s : St) :
    exec f (.forLoop x t lo hi none body p) s = exec f (.forLoop x t lo hi (some (.lit (.int 1) q)) body p) s := by
  cases f with
  | zero => simp only [exec]
  | succ n =>
    simp only [exec, evalE, eval, stepSign_one]

/-- **FOR without STEP ≡ FOR … STEP 1.** -/
theorem for_noStep_eq_step1 (x : Nat) (t : Ty) (lo hi : Ast.Expr) (body : Stmt) (p q : Pos) :
    Equiv [] (.forLoop x t lo hi none body p) (.forLoop x t lo hi (some (.lit (.int 1) q)) body p) :=
  Equiv.of_exec_eq (for_noStep_step1_exec x t lo hi body p q)

theorem forAddStep1_equiv {st st' : Stmt} (h : forAddStep1 st = some st') : Equiv [] st st' := by
  cases st <;> simp [forAddStep1] at h
  case forLoop x t lo hi step body p =>
    cases step <;> simp at h
    subst h; exact for_noStep_eq_step1 _ _ _ _ _ _ _

/-! ### IF -1 THEN body END IF  ≡  body -/

/-- a condition that is true in every environment -/
def AlwaysTrue (c : Ast.Expr) : Prop := ∀ env, evalCond env c = .ok true

theorem trueE_alwaysTrue (p : Pos) : AlwaysTrue (trueE p) := fun _ => rfl

/-- `-1` written as a negated literal qualifies too -/
example (p q : Pos) : AlwaysTrue (.un .neg (.lit (.int 1) p) q) := fun _ => rfl

/-- **IF c THEN body END IF ≡ body** when `c` is always true (`-1`). -/
theorem wrap_ifTrue_id {c : Ast.Expr} (hc : AlwaysTrue c) (body : Stmt) (p : Pos) :
    Equiv [] (.ifs c body .skip p) body := by
  constructor
  · intro fuel s1 s2 s1' o hs h ho
    cases hs.nil_eq
    obtain ⟨n, rfl⟩ := fuel_pos h ho
    simp only [exec, hc s1.env] at h
    exact ⟨n, s1', o, h, StEq.refl (by simp), OEq.refl _⟩
  · intro fuel s1 s2 s1' o hs h ho
    cases hs.nil_eq
    exact ⟨fuel + 1, s1', o, by simp only [exec, hc s1.env]; exact h, StEq.refl (by simp), OEq.refl _⟩

/-- a block and the block followed by nothing -/
theorem seq_skip_right (a : Stmt) : Equiv [] (.seq a .skip) a := by
  constructor
  · intro fuel s1 s2 s1' o hs h ho
    cases hs.nil_eq
    obtain ⟨n, rfl⟩ := fuel_pos h ho
    rw [exec_seq] at h
    rcases andThen_inv h with ⟨sa, hra, hk⟩ | ⟨hne, hr⟩
    · obtain ⟨m, rfl⟩ := fuel_pos hk ho
      simp only [exec] at hk; cases hk
      exact ⟨m + 1, s1', .normal, hra, StEq.refl (by simp), trivial⟩
    · exact ⟨n, s1', o, hr, StEq.refl (by simp), OEq.refl _⟩
  · intro fuel s1 s2 s1' o hs h ho
    cases hs.nil_eq
    obtain ⟨n, rfl⟩ := fuel_pos h ho
    refine ⟨n + 2, s1', o, ?_, StEq.refl (by simp), OEq.refl _⟩
    rw [exec_seq, h]
    by_cases hn : o = .normal
    · subst hn; rw [andThen_normal]; simp only [exec]
    · exact andThen_abort _ hn

/-- **A loop body wrapped in IF -1 THEN … END IF** changes nothing, for every kind of loop —
obtained from `wrap_ifTrue_id` by the context lemma. -/
theorem wrapLoopBody_equiv {st st' : Stmt} (h : wrapLoopBody st = some st') : Equiv [] st' st := by
  have key : ∀ body p, Equiv [] (.seq (wrapTrue body p) .skip) body := fun body p =>
    (seq_skip_right _).trans (wrap_ifTrue_id (trueE_alwaysTrue p) body p)
  cases st <;> simp [wrapLoopBody] at h
  case forLoop x t lo hi step body p =>
    subst h; exact exec_congr_nil (key body p) (.forBody x t lo hi step .hole p)
  case «while» c body p =>
    subst h; exact exec_congr_nil (key body p) (.whileBody c .hole p)
  case doLoop c top u body p =>
    subst h; exact exec_congr_nil (key body p) (.doBody c top u .hole p)

/-! ### SELECT CASE  ≡  the IF / ELSEIF chain over a fresh variable -/

/-- results of tests equal up to the position of an error -/
def XEq {α : Type} : Except Outcome α → Except Outcome α → Prop
  | .error o, .error o' => OEq o o'
  | .ok a, .ok b => a = b
  | _, _ => False

theorem XEq.refl {α : Type} (x : Except Outcome α) : XEq x x := by
  cases x <;> simp [XEq, OEq.refl]

theorem relTest_pos (p q : Pos) (op : Op) (a b : Val) : XEq (relTest p op a b) (relTest q op a b) := by
  simp only [relTest]
  cases tryCmp a b <;> simp [XEq, OEq]

/-- `caseMatches` / `anyMatches` written with plain matches -/
theorem caseMatches_simple (env : List Val) (p : Pos) (subj : Val) (e : Ast.Expr) :
    caseMatches env p subj (.simple e) =
      match evalE env e with
      | .error o => .error o
      | .ok v => relTest p .equal subj v := by
  simp only [caseMatches, bind, Except.bind]
  cases evalE env e <;> rfl

theorem caseMatches_is (env : List Val) (p : Pos) (subj : Val) (op : Op) (e : Ast.Expr) :
    caseMatches env p subj (.is op e) =
      match evalE env e with
      | .error o => .error o
      | .ok v => relTest p op subj v := by
  simp only [caseMatches, bind, Except.bind]
  cases evalE env e <;> rfl

theorem caseMatches_range (env : List Val) (p : Pos) (subj : Val) (lo hi : Ast.Expr) :
    caseMatches env p subj (.range lo hi) =
      match evalE env lo with
      | .error o => .error o
      | .ok l =>
        match relTest p .greaterOrEqual subj l with
        | .error o => .error o
        | .ok false => .ok false
        | .ok true =>
          match evalE env hi with
          | .error o => .error o
          | .ok h => relTest p .lessOrEqual subj h := by
  simp only [caseMatches, bind, Except.bind]
  cases evalE env lo with
  | error o => rfl
  | ok l =>
    simp only
    cases relTest p .greaterOrEqual subj l with
    | error o => rfl
    | ok b =>
      cases b with
      | false => rfl
      | true =>
        simp only [if_true]
        cases evalE env hi <;> rfl

theorem anyMatches_cons (env : List Val) (p : Pos) (subj : Val) (c : CaseExpr) (rest : List CaseExpr) :
    anyMatches env p subj (c :: rest) =
      match caseMatches env p subj c with
      | .error o => .error o
      | .ok true => .ok true
      | .ok false => anyMatches env p subj rest := by
  simp only [anyMatches, bind, Except.bind]
  cases caseMatches env p subj c with
  | error o => rfl
  | ok b => cases b <;> rfl

theorem caseMatches_pos (env : List Val) (p q : Pos) (subj : Val) (c : CaseExpr) :
    XEq (caseMatches env p subj c) (caseMatches env q subj c) := by
  cases c with
  | simple e =>
    rw [caseMatches_simple, caseMatches_simple]
    cases evalE env e with
    | error o => exact OEq.refl o
    | ok v => exact relTest_pos p q _ _ _
  | is op e =>
    rw [caseMatches_is, caseMatches_is]
    cases evalE env e with
    | error o => exact OEq.refl o
    | ok v => exact relTest_pos p q _ _ _
  | range lo hi =>
    rw [caseMatches_range, caseMatches_range]
    cases evalE env lo with
    | error o => exact OEq.refl o
    | ok l =>
      simp only
      have h1 := relTest_pos p q .greaterOrEqual subj l
      revert h1
      cases relTest p .greaterOrEqual subj l <;> cases relTest q .greaterOrEqual subj l <;> intro h1 <;>
        simp only [XEq] at h1
      · exact h1
      · subst h1
        rename_i b1
        cases b1 with
        | false => exact rfl
        | true =>
          simp only
          cases evalE env hi with
          | error o => exact OEq.refl o
          | ok h => exact relTest_pos p q _ _ _

theorem anyMatches_pos (env : List Val) (p q : Pos) (subj : Val) :
    ∀ conds : List CaseExpr, XEq (anyMatches env p subj conds) (anyMatches env q subj conds)
  | [] => rfl
  | c :: rest => by
      rw [anyMatches_cons, anyMatches_cons]
      have h1 := caseMatches_pos env p q subj c
      revert h1
      cases caseMatches env p subj c <;> cases caseMatches env q subj c <;> intro h1 <;> simp only [XEq] at h1
      · exact h1
      · subst h1
        rename_i b
        cases b with
        | true => exact rfl
        | false => exact anyMatches_pos env p q subj rest

/-- the block SELECT CASE runs: the first CASE one of whose items matches, else CASE ELSE, else none -/
def pick (env : List Val) (p : Pos) (subj : Val) : Cases → Except Outcome (Option Stmt)
  | .nil => .ok none
  | .else_ b => .ok (some b)
  | .case conds b rest =>
    match anyMatches env p subj conds with
    | .error o => .error o
    | .ok true => .ok (some b)
    | .ok false => pick env p subj rest

theorem pick_agree {z : Nat} {s1 s2 : St} (hs : StEq [z] s1 s2) (p q : Pos) (subj : Val) :
    ∀ cs : Cases, usesC [z] cs = false → XEq (pick s1.env p subj cs) (pick s2.env q subj cs)
  | .nil, _ => rfl
  | .else_ b, _ => rfl
  | .case conds b rest, h => by
      have h' : (conds.any (usesCase [z]) = false ∧ usesS [z] b = false) ∧ usesC [z] rest = false := by
        simpa [usesC] using h
      simp only [pick]
      rw [anyMatches_agree hs p subj conds h'.1.1]
      have h1 := anyMatches_pos s2.env p q subj conds
      revert h1
      cases anyMatches s2.env p subj conds <;> cases anyMatches s2.env q subj conds <;> intro h1 <;>
        simp only [XEq] at h1
      · exact h1
      · subst h1
        rename_i bb
        cases bb with
        | true => exact rfl
        | false => exact pick_agree hs p q subj rest h'.2

theorem pick_uses {zs : List Nat} (env : List Val) (p : Pos) (subj : Val) :
    ∀ cs : Cases, usesC zs cs = false → ∀ b, pick env p subj cs = .ok (some b) → usesS zs b = false
  | .nil, _, b, h => by simp [pick] at h
  | .else_ b', hu, b, h => by
      simp only [pick] at h; cases h
      simpa [usesC] using hu
  | .case conds b' rest, hu, b, h => by
      have h' : (conds.any (usesCase zs) = false ∧ usesS zs b' = false) ∧ usesC zs rest = false := by
        simpa [usesC] using hu
      simp only [pick] at h
      cases hm : anyMatches env p subj conds with
      | error o => rw [hm] at h; cases h
      | ok bb =>
        rw [hm] at h
        cases bb with
        | true => cases h; exact h'.1.2
        | false => exact pick_uses env p subj rest h'.2 b h

/-- what SELECT CASE does, in terms of `pick` (`k`: the fuel spent on finding the block) -/
theorem execCases_pick (p : Pos) (subj : Val) (s : St) :
    ∀ cs : Cases, ∃ k j, ∀ f : Nat, execCases (f + 1 + k) p subj cs s =
      match pick s.env p subj cs with
      | .error o => (s, o)
      | .ok none => (s, .normal)
      | .ok (some b) => exec (f + j) b s
  | .nil => ⟨0, 0, fun f => by simp only [execCases, pick]⟩
  | .else_ b => ⟨0, 0, fun f => by simp only [execCases, pick]; rfl⟩
  | .case conds b rest => by
      cases hm : anyMatches s.env p subj conds with
      | error o => exact ⟨0, 0, fun f => by simp only [execCases, pick, hm]⟩
      | ok bb =>
        cases bb with
        | true => exact ⟨0, 0, fun f => by simp only [execCases, pick, hm]; rfl⟩
        | false =>
          obtain ⟨k, j, h⟩ := execCases_pick p subj s rest
          exact ⟨k + 1, j, fun f => by rw [← Nat.add_assoc]; simp only [execCases, pick, hm]; exact h f⟩

theorem exec_ifs (f : Nat) (c : Ast.Expr) (a b : Stmt) (p : Pos) (s : St) :
    exec (f + 1) (.ifs c a b p) s =
      match evalCond s.env c with
      | .error o => (s, o)
      | .ok true => exec f a s
      | .ok false => exec f b s := by
  simp only [exec]
  cases evalCond s.env c with
  | error o => rfl
  | ok bb => cases bb <;> rfl

/-- the test `z op e` of the chain is the test SELECT CASE makes, when `z` holds the subject -/
theorem evalCond_relE {env : List Val} {z : Nat} {tz : Ty} {subj : Val} (hz : env[z]? = some subj)
    {op : Op} (hop : isRel op = true) (e : Ast.Expr) (q : Pos) :
    evalCond env (relE op z tz e q) =
      match evalE env e with
      | .error o => .error o
      | .ok v => relTest q op subj v := by
  simp only [evalCond, relE, eval, evalE, List.getD_eq_getElem?_getD, hz, Option.getD_some, ERes.bind]
  cases eval env e with
  | err c p => rfl
  | inexact => rfl
  | ok v =>
    simp only
    have hb : binStep op .int subj v = (tryCmp subj v).bind fun o => .ok (ofBool (relHolds op o)) := by
      cases op <;> simp [isRel] at hop <;> rfl
    rw [hb]; simp only [relTest]
    cases tryCmp subj v with
    | err er => rfl
    | inexact => rfl
    | ok o => cases hr : relHolds op o <;> simp [Res.bind, lift, truthy, ofBool, hr]

/-- what the chain of one CASE line does -/
theorem chainItems_exec {z : Nat} {tz : Ty} {subj : Val} (q : Pos) (body rest : Stmt) (s : St)
    (hz : s.env[z]? = some subj) :
    ∀ conds : List CaseExpr, condsWF conds = true →
      ∃ k j, ∀ f : Nat, exec (f + 1 + k) (chainItems z tz q body rest conds) s =
        match anyMatches s.env q subj conds with
        | .error o => (s, o)
        | .ok true => exec (f + j) body s
        | .ok false => exec (f + j) rest s
  | [], _ => ⟨0, 1, fun f => by simp only [chainItems, anyMatches]; rfl⟩
  | .simple e :: more, hwf => by
      have hwf' : condsWF more = true := by simpa [condsWF] using hwf
      obtain ⟨k, j, ih⟩ := chainItems_exec (tz := tz) q body rest s hz more hwf'
      have hc := evalCond_relE (tz := tz) hz (op := .equal) rfl e q
      cases he : evalE s.env e with
      | error o =>
        exact ⟨0, 0, fun f => by simp only [chainItems, Nat.add_zero, exec_ifs, hc, he, anyMatches_cons, caseMatches_simple]⟩
      | ok v =>
        cases hr : relTest q .equal subj v with
        | error o =>
          exact ⟨0, 0, fun f => by simp only [chainItems, Nat.add_zero, exec_ifs, hc, he, hr, anyMatches_cons, caseMatches_simple]⟩
        | ok bb =>
          cases bb with
          | true =>
            exact ⟨0, 0, fun f => by simp only [chainItems, Nat.add_zero, exec_ifs, hc, he, hr, anyMatches_cons, caseMatches_simple]⟩
          | false =>
            refine ⟨k + 1, j, fun f => ?_⟩
            rw [← Nat.add_assoc]
            simp only [chainItems, exec_ifs, hc, he, hr, anyMatches_cons, caseMatches_simple]
            exact ih f
  | .is op e :: more, hwf => by
      have hwf' : isRel op = true ∧ condsWF more = true := by simpa [condsWF] using hwf
      obtain ⟨k, j, ih⟩ := chainItems_exec (tz := tz) q body rest s hz more hwf'.2
      have hc := evalCond_relE (tz := tz) hz hwf'.1 e q
      cases he : evalE s.env e with
      | error o =>
        exact ⟨0, 0, fun f => by simp only [chainItems, Nat.add_zero, exec_ifs, hc, he, anyMatches_cons, caseMatches_is]⟩
      | ok v =>
        cases hr : relTest q op subj v with
        | error o =>
          exact ⟨0, 0, fun f => by simp only [chainItems, Nat.add_zero, exec_ifs, hc, he, hr, anyMatches_cons, caseMatches_is]⟩
        | ok bb =>
          cases bb with
          | true =>
            exact ⟨0, 0, fun f => by simp only [chainItems, Nat.add_zero, exec_ifs, hc, he, hr, anyMatches_cons, caseMatches_is]⟩
          | false =>
            refine ⟨k + 1, j, fun f => ?_⟩
            rw [← Nat.add_assoc]
            simp only [chainItems, exec_ifs, hc, he, hr, anyMatches_cons, caseMatches_is]
            exact ih f
  | .range lo hi :: more, hwf => by
      have hwf' : condsWF more = true := by simpa [condsWF] using hwf
      obtain ⟨k, j, ih⟩ := chainItems_exec (tz := tz) q body rest s hz more hwf'
      have hc1 := evalCond_relE (tz := tz) hz (op := .greaterOrEqual) rfl lo q
      have hc2 := evalCond_relE (tz := tz) hz (op := .lessOrEqual) rfl hi q
      cases he : evalE s.env lo with
      | error o =>
        exact ⟨0, 0, fun f => by simp only [chainItems, Nat.add_zero, exec_ifs, hc1, he, anyMatches_cons, caseMatches_range]⟩
      | ok l =>
        cases hr : relTest q .greaterOrEqual subj l with
        | error o =>
          exact ⟨0, 0, fun f => by simp only [chainItems, Nat.add_zero, exec_ifs, hc1, he, hr, anyMatches_cons, caseMatches_range]⟩
        | ok bb =>
          cases bb with
          | false =>
            refine ⟨k + 1, j, fun f => ?_⟩
            rw [← Nat.add_assoc]
            simp only [chainItems, exec_ifs, hc1, he, hr, anyMatches_cons, caseMatches_range]
            exact ih f
          | true =>
            cases he2 : evalE s.env hi with
            | error o =>
              exact ⟨1, 0, fun f => by simp only [chainItems, Nat.add_zero, exec_ifs, hc1, hc2, he, hr, he2, anyMatches_cons, caseMatches_range]⟩
            | ok h =>
              cases hr2 : relTest q .lessOrEqual subj h with
              | error o =>
                exact ⟨1, 0, fun f => by simp only [chainItems, Nat.add_zero, exec_ifs, hc1, hc2, he, hr, he2, hr2, anyMatches_cons, caseMatches_range]⟩
              | ok b2 =>
                cases b2 with
                | true =>
                  exact ⟨1, 0, fun f => by simp only [chainItems, Nat.add_zero, exec_ifs, hc1, hc2, he, hr, he2, hr2, anyMatches_cons, caseMatches_range]⟩
                | false =>
                  refine ⟨k + 2, j, fun f => ?_⟩
                  rw [show f + 1 + (k + 2) = f + 1 + k + 1 + 1 from by omega]
                  simp only [chainItems, exec_ifs, hc1, hc2, he, hr, he2, hr2, anyMatches_cons, caseMatches_range]
                  exact ih f

theorem casesWF_case {conds : List CaseExpr} {b : Stmt} {rest : Cases} (h : casesWF (.case conds b rest) = true) :
    condsWF conds = true ∧ casesWF rest = true := by
  simpa [casesWF] using h

/-- what the whole chain does, in terms of `pick` -/
theorem chain_exec {z : Nat} {tz : Ty} {subj : Val} (q : Pos) (s : St) (hz : s.env[z]? = some subj) :
    ∀ cs : Cases, casesWF cs = true →
      ∃ k j, ∀ f : Nat, exec (f + 1 + k) (chain z tz q cs) s =
        match pick s.env q subj cs with
        | .error o => (s, o)
        | .ok none => (s, .normal)
        | .ok (some b) => exec (f + j) b s
  | .nil, _ => ⟨0, 0, fun f => by simp only [chain, pick, exec]⟩
  | .else_ b, _ => ⟨0, 1, fun f => by simp only [chain, pick]⟩
  | .case conds b rest, hwf => by
      obtain ⟨hw1, hw2⟩ := casesWF_case hwf
      obtain ⟨k, j, h⟩ := chainItems_exec (z := z) (tz := tz) (subj := subj) q b (chain z tz q rest) s hz conds hw1
      simp only [chain, pick]
      cases hm : anyMatches s.env q subj conds with
      | error o => simp only [hm] at h; exact ⟨k, j, h⟩
      | ok bb =>
        simp only [hm] at h
        cases bb with
        | true => exact ⟨k, j, h⟩
        | false =>
          simp only at h
          obtain ⟨k', j', h'⟩ := chain_exec (z := z) (tz := tz) (subj := subj) q s hz rest hw2
          refine ⟨k' + 1 + k, j + j', fun f => ?_⟩
          have e1 := h (f + 1 + k')
          have e2 := h' (f + j)
          rw [show f + 1 + (k' + 1 + k) = f + 1 + k' + 1 + k from by omega, e1,
            show f + 1 + k' + j = f + j + 1 + k' from by omega, e2,
            show f + j + j' = f + (j + j') from by omega]

theorem evalTo_self (env : List Val) (e : Ast.Expr) : evalTo env e e.ty = eval env e := by
  simp only [evalTo, storeCast, if_true]
  cases eval env e <;> rfl

theorem exec_assign_self (f z : Nat) (e : Ast.Expr) (q : Pos) (s : St) :
    exec (f + 1) (.assign z e.ty e q) s =
      match eval s.env e with
      | .ok v => (s.set z v, .normal)
      | .err c p => (s, .error c p)
      | .inexact => (s, .inexact) := by
  simp only [exec, evalTo_self]
  cases eval s.env e <;> rfl

theorem set_get {s : St} {z : Nat} (hz : z < s.env.length) (v : Val) : (s.set z v).env[z]? = some v := by
  simp [St.set, hz]

theorem usesS_select {zs : List Nat} {e : Ast.Expr} {cs : Cases} {p : Pos} (h : usesS zs (.select e cs p) = false) :
    usesE zs e = false ∧ usesC zs cs = false := by simpa [usesS] using h

/-- SELECT CASE is simulated by `z = e` followed by the chain -/
theorem select_sim_chain {z : Nat} {e : Ast.Expr} {cs : Cases} {p : Pos} (q : Pos)
    (hfresh : usesS [z] (.select e cs p) = false) (hwf : casesWF cs = true) :
    Sim [z] (.select e cs p) (.seq (.assign z e.ty e q) (chain z e.ty q cs)) := by
  obtain ⟨hue, huc⟩ := usesS_select hfresh
  intro fuel s1 s2 s1' o hs h ho
  obtain ⟨n, rfl⟩ := fuel_pos h ho
  have hzb : z < s2.env.length := hs.len ▸ hs.inb z (by simp)
  have hev := eval_agree hs.env e hue
  simp only [exec, evalE] at h
  cases he : eval s1.env e with
  | err c pp =>
    rw [he] at h; cases h
    refine ⟨2, s2, .error c pp, ?_, hs, rfl⟩
    rw [exec_seq, exec_assign_self, ← hev, he]; rfl
  | inexact =>
    rw [he] at h; cases h
    refine ⟨2, s2, .inexact, ?_, hs, trivial⟩
    rw [exec_seq, exec_assign_self, ← hev, he]; rfl
  | ok subj =>
    rw [he] at h; simp only at h
    have hs' : StEq [z] s1 (s2.set z subj) := hs.set_right (by simp) subj
    have hz' := set_get hzb subj
    obtain ⟨k1, j1, h1⟩ := execCases_pick p subj s1 cs
    obtain ⟨k2, j2, h2⟩ := chain_exec (z := z) (tz := e.ty) (subj := subj) q (s2.set z subj) hz' cs hwf
    have h1n := h1 n
    rw [execCases_le (f' := n + 1 + k1) (by omega) h ho] at h1n
    have hp := pick_agree hs' p q subj cs huc
    -- run the chain with fuel F+1+k2 after the assignment
    have fin : ∀ F s2' o', exec (F + 1 + k2) (chain z e.ty q cs) (s2.set z subj) = (s2', o') →
        exec (F + 1 + k2 + 1) (.seq (.assign z e.ty e q) (chain z e.ty q cs)) s2 = (s2', o') := by
      intro F s2' o' hc
      rw [exec_seq, show F + 1 + k2 = F + k2 + 1 from by omega, exec_assign_self, ← hev, he]
      simp only [andThen_normal]
      rw [show F + k2 + 1 = F + 1 + k2 from by omega]; exact hc
    cases hp1 : pick s1.env p subj cs with
    | error oe =>
      rw [hp1] at h1n hp; simp only at h1n; cases h1n
      cases hp2 : pick (s2.set z subj).env q subj cs with
      | ok x => rw [hp2] at hp; exact absurd hp (by simp [XEq])
      | error oe' =>
        rw [hp2] at hp
        have := h2 0; rw [hp2] at this
        exact ⟨_, _, _, fin 0 _ _ this, hs', hp⟩
    | ok x =>
      rw [hp1] at h1n hp
      cases hp2 : pick (s2.set z subj).env q subj cs with
      | error oe' => rw [hp2] at hp; exact absurd hp (by simp [XEq])
      | ok y =>
        rw [hp2] at hp; simp only [XEq] at hp; subst hp
        cases x with
        | none =>
          simp only at h1n; cases h1n
          have := h2 0; rw [hp2] at this
          exact ⟨_, _, _, fin 0 _ _ this, hs', trivial⟩
        | some b =>
          simp only at h1n
          have hub := pick_uses s1.env p subj cs huc b hp1
          obtain ⟨fb, s2', o', heb, hsb, hob⟩ := sim_self [z] b hub (n + j1) s1 (s2.set z subj) s1' o hs' h1n.symm ho
          have := h2 fb; rw [hp2] at this; simp only at this
          rw [exec_le (Nat.le_add_right fb j2) heb (by rw [hob.isFuel]; exact ho)] at this
          exact ⟨_, _, _, fin fb _ _ this, hsb, hob⟩

/-- and conversely -/
theorem chain_sim_select {z : Nat} {e : Ast.Expr} {cs : Cases} {p : Pos} (q : Pos)
    (hfresh : usesS [z] (.select e cs p) = false) (hwf : casesWF cs = true) :
    Sim [z] (.seq (.assign z e.ty e q) (chain z e.ty q cs)) (.select e cs p) := by
  obtain ⟨hue, huc⟩ := usesS_select hfresh
  intro fuel s1 s2 s1' o hs h ho
  obtain ⟨n, rfl⟩ := fuel_pos h ho
  have hzb : z < s1.env.length := hs.inb z (by simp)
  have hev := eval_agree hs.env e hue
  rw [exec_seq] at h
  have sel : ∀ F subj s2' o', eval s1.env e = .ok subj → execCases F p subj cs s2 = (s2', o') →
      exec (F + 1) (.select e cs p) s2 = (s2', o') := by
    intro F subj s2' o' he hc
    simp only [exec, evalE, ← hev, he]; exact hc
  rcases andThen_inv h with ⟨sa, hra, hk⟩ | ⟨hne, hr⟩
  · obtain ⟨m, rfl⟩ := fuel_pos hra rfl
    rw [exec_assign_self] at hra
    cases he : eval s1.env e with
    | err c pp => rw [he] at hra; cases hra
    | inexact => rw [he] at hra; cases hra
    | ok subj =>
      rw [he] at hra; cases hra
      have hs' : StEq [z] (s1.set z subj) s2 := hs.set_left (by simp) subj
      have hz' := set_get hzb subj
      obtain ⟨k2, j2, h2⟩ := chain_exec (z := z) (tz := e.ty) (subj := subj) q (s1.set z subj) hz' cs hwf
      obtain ⟨k1, j1, h1⟩ := execCases_pick p subj s2 cs
      have h2n := h2 (m + 1)
      rw [exec_le (f' := m + 1 + 1 + k2) (by omega) hk ho] at h2n
      have hp := pick_agree hs' q p subj cs huc
      cases hp1 : pick (s1.set z subj).env q subj cs with
      | error oe =>
        rw [hp1] at h2n hp; simp only at h2n; cases h2n
        cases hp2 : pick s2.env p subj cs with
        | ok x => rw [hp2] at hp; exact absurd hp (by simp [XEq])
        | error oe' =>
          rw [hp2] at hp
          have := h1 0; rw [hp2] at this
          exact ⟨_, _, _, sel _ _ _ _ he this, hs', hp⟩
      | ok x =>
        rw [hp1] at h2n hp
        cases hp2 : pick s2.env p subj cs with
        | error oe' => rw [hp2] at hp; exact absurd hp (by simp [XEq])
        | ok y =>
          rw [hp2] at hp; simp only [XEq] at hp; subst hp
          cases x with
          | none =>
            simp only at h2n; cases h2n
            have := h1 0; rw [hp2] at this
            exact ⟨_, _, _, sel _ _ _ _ he this, hs', trivial⟩
          | some b =>
            simp only at h2n
            have hub := pick_uses (s1.set z subj).env q subj cs huc b hp1
            obtain ⟨fb, s2', o', heb, hsb, hob⟩ :=
              sim_self [z] b hub (m + 1 + j2) (s1.set z subj) s2 s1' o hs' h2n.symm ho
            have := h1 fb; rw [hp2] at this; simp only at this
            rw [exec_le (Nat.le_add_right fb j1) heb (by rw [hob.isFuel]; exact ho)] at this
            exact ⟨_, _, _, sel _ _ _ _ he this, hsb, hob⟩
  · rw [hr] at hne
    obtain ⟨m, rfl⟩ := fuel_pos hr ho
    rw [exec_assign_self] at hr
    cases he : eval s1.env e with
    | ok subj => rw [he] at hr; cases hr; exact absurd rfl hne
    | err c pp =>
      rw [he] at hr; cases hr
      exact ⟨1, s2, .error c pp, by simp only [exec, evalE, ← hev, he], hs, rfl⟩
    | inexact =>
      rw [he] at hr; cases hr
      exact ⟨1, s2, .inexact, by simp only [exec, evalE, ← hev, he], hs, trivial⟩

/-- **SELECT CASE ≡ IF/ELSEIF chain.** `SELECT CASE e …` is equivalent to `z = e` followed by the chain
of IFs that compare `z` with the CASE items in order (`RbModel.Rewrite.chain`: one test per item, a
range tests its upper bound only after the lower one held, every test guards a copy of the block;
CASE ELSE is the final ELSE) — for every position `q` of the new nodes, modulo the temporary `z`,
provided `z` does not occur in the SELECT statement (`hfresh`) and holds a value of `e`'s own type.
Errors in a test are the same errors (the position differs: the SELECT reports them at the SELECT
line, the chain at the test). -/
theorem select_eq_ifChain {z : Nat} {e : Ast.Expr} {cs : Cases} {p : Pos} (q : Pos)
    (hfresh : usesS [z] (.select e cs p) = false) (hwf : casesWF cs = true) :
    Equiv [z] (.select e cs p) (.seq (.assign z e.ty e q) (chain z e.ty q cs)) :=
  ⟨select_sim_chain q hfresh hwf, chain_sim_select q hfresh hwf⟩

theorem selectToIf_equiv {z : Nat} {st st' : Stmt} (h : selectToIf z st = some st')
    (hfresh : usesS [z] st = false) (hwf : ∀ e cs p, st = .select e cs p → casesWF cs = true) :
    Equiv [z] st st' := by
  cases st <;> simp [selectToIf] at h
  case select e cs p =>
    subst h; exact select_eq_ifChain p hfresh (hwf e cs p rfl)

/-- the hypotheses are satisfiable and the statement is not vacuous: `SELECT CASE x : CASE 1 TO 3 : y = 7 :
CASE ELSE : y = 9` with `z` = slot 2 -/
example :
    let sel : Stmt := .select (.var 0 .int ⟨1, 1⟩)
      (.case [.range (.lit (.int 1) ⟨2, 1⟩) (.lit (.int 3) ⟨2, 1⟩)] (.assign 1 .int (.lit (.int 7) ⟨3, 1⟩) ⟨3, 1⟩)
        (.else_ (.assign 1 .int (.lit (.int 9) ⟨5, 1⟩) ⟨5, 1⟩))) ⟨1, 1⟩
    usesS [2] sel = false ∧ selectToIf 2 sel ≠ none := by
  constructor
  · rfl
  · simp [selectToIf]

/-! ### FOR  ≡  WHILE with temporaries for limit and step

The rewrite is `RbModel.Rewrite.forToWhile`; it is exercised at every FOR site by the harness (real
implementation before/after, and the reference semantics before/after through the driver).  Proved
here: the sign a constant step is given once, before the loop, is the sign the FOR header computes
(`constSign_stepSign`), and the test of the WHILE spelling is the test of a FOR round
(`evalCond_countTest`).  The equivalence itself is `for_eq_while` in `Thm/C02For.lean` (it needs the
frame lemma proved there and type preservation of `Ref.exec` from `Thm/C01SimRead.lean`). -/

/-- the test `x <= zl` / `x >= zl` of the WHILE spelling is the comparison a FOR round makes with
its limit, when `zl` holds the limit -/
theorem evalCond_countTest {env : List Val} {x zl : Nat} {t : Ty} {h : Val} (hz : env[zl]? = some h)
    (up : Bool) (q : Pos) :
    evalCond env (.bin (if up then .lessOrEqual else .greaterOrEqual) (.var x t q) (.var zl t q) .int q) =
      relTest q (if up then .lessOrEqual else .greaterOrEqual) (env.getD x (zeroOf t)) h := by
  have hb : ∀ op, isRel op = true → ∀ a b, binStep op .int a b = (tryCmp a b).bind fun o => .ok (ofBool (relHolds op o)) := by
    intro op hop a b; cases op <;> simp [isRel] at hop <;> rfl
  have hop : isRel (if up then Op.lessOrEqual else Op.greaterOrEqual) = true := by cases up <;> rfl
  simp only [evalCond, eval, ERes.bind, List.getD_eq_getElem?_getD, hz, Option.getD_some, hb _ hop, relTest]
  cases tryCmp (env[x]?.getD (zeroOf t)) h with
  | err er => rfl
  | inexact => rfl
  | ok o => cases hr : relHolds (if up then Op.lessOrEqual else Op.greaterOrEqual) o <;> simp [Res.bind, lift, truthy, ofBool, hr]

/-- **for a constant step the sign is known**: what `forToWhile` decides from the literal is what the
FOR header decides at run time -/
theorem constSign_stepSign {v : Val} {up : Bool} (p : Pos) (h : constSign v = some up) :
    stepSign p v = .ok (if up then .pos else .neg) := by
  have key : ∀ i : Int, (if i > 0 then some true else if i < 0 then some false else none) = some up →
      (cmpInt i 0 = .gt ∧ up = true) ∨ (cmpInt i 0 = .lt ∧ up = false) := by
    intro i hi
    by_cases h1 : i > 0
    · rw [if_pos h1] at hi; cases hi
      exact .inl ⟨by unfold cmpInt; rw [if_neg (by omega), if_neg (by omega)], rfl⟩
    · rw [if_neg h1] at hi
      by_cases h2 : i < 0
      · rw [if_pos h2] at hi; cases hi
        exact .inr ⟨by unfold cmpInt; rw [if_pos h2], rfl⟩
      · rw [if_neg h2] at hi; cases hi
  cases v with
  | int i =>
    rcases key i (by simpa [constSign] using h) with ⟨hc, rfl⟩ | ⟨hc, rfl⟩ <;>
      simp [stepSign, relTest, tryCmp, hc, relHolds, bind, Except.bind, pure, Except.pure]
  | long i =>
    rcases key i (by simpa [constSign] using h) with ⟨hc, rfl⟩ | ⟨hc, rfl⟩ <;>
      simp [stepSign, relTest, tryCmp, hc, relHolds, bind, Except.bind, pure, Except.pure]
  | sgl q => simp [constSign] at h
  | dbl q => simp [constSign] at h
  | str s => simp [constSign] at h

end RbThm.C02
