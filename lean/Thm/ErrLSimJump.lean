import Thm.ErrLSimBase
import Thm.JmpLSimJump
/-!
Error layer (property C05), simulation part: the four statements of the jump layer.

* `label L`: one `Label` instruction, a no-op; in seek mode it is the entry point.
* `goto L`: `(d − fd L)` × `PopRegisters`, `(e − sd L)` × `PopValueStackIntoA`, `Jump (addr L)` (the instruction runs of the
  jump layer, `pop_regs_run` / `pop_vals_run`, lifted).
* `ret`: with a GOSUB pending the `Return` instruction is reached, not executed (whoever answers it executes it); with none
  pending (`gd = 0`, the GOSUB stack is empty) the statement is a resume unit that fails with error 3 (`simple_unit`).
* `gosub L`: `GoSub (addr L)`; the routine is the *whole program body* entered at the label, one unit of fuel down, on top of
  the `vb + e` values of the callers and of the caller's selectors; its `Return` cuts the register stack and the value stack
  back to the heights recorded by the `GoSub`.  The stack-cut invariant of `ResumeLabel` (`CutInv`) for the routine is what
  premise clause P3 is for.
-/
namespace RbThm.ErrLSim
set_option linter.unusedVariables false
set_option linter.unusedSimpArgs false
open RbModel RbModel.Num RbModel.ErrL RbModel.ErrL.Compile RbModel.ErrL.Vm
open RbModel.JmpL.Compile (CInstr Code labelName compileExpr compileExprTo storeVar loadVar compileItems compileConds
  sizeCaseExpr sizeItems sizeConds Dp lookupNat lookupDepth stepSuffix maxPos)
open RbModel.JmpL.Vm (Vm truncTop)
open RbModel.Ast (Pos PrintItem CaseExpr)
open RbModel.Ref (St)
open RbModel.ErrL.Ref
open RbThm.ErrLLen
open RbThm.C01Sim (Typed SlotsBelow ExprWt NumericAt NumericCond ItemsSlots CaseSlots CondsSlots)

/-- one instruction of the jump layer that succeeds -/
theorem jp_step_next {C : Ctx} (hC : C.Ok) {x : EVm} {i : CInstr} {p : Pos} (h : C.prog.code[x.b.pc]? = some (.base i, p))
    (hnr : i ≠ .builtInRead) {b' : Vm} (hb : JmpL.Vm.step C.prog.base x.b = .next b') :
    step C.prog x = .next { x with b := b' } := by
  rw [step_base hC.pok h hnr, hb]

/-! ### `label` -/

theorem case_label (C : Ctx) (hC : C.Ok) (fuel : Nat) (ih : StmtIHle C fuel) (L : Nat) (name : String) (p : Pos)
    (sfx : String) (d e off nx vb gd : Nat) (m : Mode) (σ : EVm) (s : ESt)
    (hc : CodeAt C.prog.code off (compileStmt C.env sfx d e off (.label L name p)))
    (hl : LabAt C.env d e off (.label L name p)) (hw : Wf C.sl C.env.dp C.rl d e (.label L name p))
    (hm : MarksAt C.prog.marks (marksStmt C.env.dp d e off (.label L name p)) nx)
    (hnx : off + sizeStmt C.env.dp d e (.label L name p) ≤ nx)
    (hen : Entry C.env off (.label L name p) m σ) (hr : ERel C.sl C.env s σ) (hi : Inv C d e vb gd σ) :
    StmtSpec C d e vb (off + sizeStmt C.env.dp d e (.label L name p)) nx σ
      (exec (fuel + 1) C.P gd (desugar (.label L name p)) m s) := by
  simp only [compileStmt, lift, List.map_cons, List.map_nil] at hc
  have hpc : σ.b.pc = off := by
    cases m with
    | run => exact hen
    | seek L0 =>
      obtain ⟨h1, h2⟩ := hen
      simp only [SStmt.labels, List.mem_singleton] at h1
      subst h1
      rw [h2]; exact hl.label.1
  have h0 : C.prog.code[σ.b.pc]? = some (.base (CInstr.label name), p) := by rw [hpc]; exact hc.head
  have s1 : step C.prog σ = .next { σ with b := JmpL.Vm.advance σ.b } :=
    jp_step_next hC h0 (by simp) (by simp only [JmpL.Vm.step, base_get hC.pok h0])
  have hfin : StmtSpec C d e vb (off + sizeStmt C.env.dp d e (.label L name p)) nx σ (s, .normal) :=
    ⟨_, Steps.one s1, .inl (by simp [JmpL.Vm.advance, hpc, sizeStmt]), hr.same hr.base.advance, rfl,
      ⟨hi.he, fun _ => by simp [JmpL.Vm.advance]⟩, rfl, rfl, rfl⟩
  cases m with
  | run => simpa only [desugar, exec] using hfin
  | seek L0 =>
    obtain ⟨h1, _⟩ := hen
    simp only [SStmt.labels, List.mem_singleton] at h1
    subst h1
    simpa only [desugar, exec, if_true] using hfin

/-! ### `goto` -/

theorem case_goto (C : Ctx) (hC : C.Ok) (fuel : Nat) (ih : StmtIHle C fuel) (L : Nat) (p : Pos)
    (sfx : String) (d e off nx vb gd : Nat) (m : Mode) (σ : EVm) (s : ESt)
    (hc : CodeAt C.prog.code off (compileStmt C.env sfx d e off (.goto L p)))
    (hl : LabAt C.env d e off (.goto L p)) (hw : Wf C.sl C.env.dp C.rl d e (.goto L p))
    (hm : MarksAt C.prog.marks (marksStmt C.env.dp d e off (.goto L p)) nx)
    (hnx : off + sizeStmt C.env.dp d e (.goto L p) ≤ nx)
    (hen : Entry C.env off (.goto L p) m σ) (hr : ERel C.sl C.env s σ) (hi : Inv C d e vb gd σ) :
    StmtSpec C d e vb (off + sizeStmt C.env.dp d e (.goto L p)) nx σ
      (exec (fuel + 1) C.P gd (desugar (.goto L p)) m s) := by
  obtain ⟨rfl, hpc⟩ := hen.of_nolabels rfl
  subst hpc
  simp only [compileStmt] at hc
  simp only [desugar, exec, StmtSpec]
  obtain ⟨hwd, hwe⟩ := hw
  -- the run of the jump layer's VM on the fragment placed alone
  have hcp : RbThm.JmpLSim.CodeAt (pad σ.b.pc (compileGoto C.env d e L p)) σ.b.pc
      (List.replicate (d - C.env.dp.fd L) (CInstr.popRegs, p) ++ List.replicate (e - C.env.dp.sd L) (CInstr.popA, p) ++
        [(CInstr.jump (C.env.addr L), p)]) := codeAt_pad σ.b.pc (compileGoto C.env d e L p)
  obtain ⟨τ1, st1, hp1, hr1, hv1, hk1⟩ :=
    RbThm.JmpLSim.pop_regs_run _ p (d - C.env.dp.fd L) σ.b hcp.append_left.append_left (by have := hi.hd; omega)
  have hc2 : RbThm.JmpLSim.CodeAt (pad σ.b.pc (compileGoto C.env d e L p)) τ1.pc
      (List.replicate (e - C.env.dp.sd L) (CInstr.popA, p)) := by
    have := hcp.append_left.append_right
    simp only [List.length_replicate] at this
    rw [hp1]; exact this
  obtain ⟨τ2, st2, hp2, hr2, hv2, hk2⟩ :=
    RbThm.JmpLSim.pop_vals_run _ p (e - C.env.dp.sd L) τ1 hc2 (by rw [hv1]; have := hi.he; omega)
  have hj : (pad σ.b.pc (compileGoto C.env d e L p))[τ2.pc]? = some (CInstr.jump (C.env.addr L), p) := by
    have := hcp.append_right.head
    simp only [List.length_append, List.length_replicate] at this
    rw [hp2, hp1, ← this]; congr 1; omega
  let τ3 : Vm := { τ2 with pc := C.env.addr L }
  have s3 : JmpL.Vm.step (pad σ.b.pc (compileGoto C.env d e L p)) τ2 = .next τ3 := by simp only [JmpL.Vm.step, hj]; rfl
  have hnr : ∀ ip ∈ compileGoto C.env d e L p, ip.1 ≠ CInstr.builtInRead := by
    intro ip hip
    simp only [compileGoto, List.mem_append, List.mem_replicate, List.mem_singleton] at hip
    rcases hip with (⟨_, rfl⟩ | ⟨_, rfl⟩) | rfl <;> simp
  have st := lift_steps hC.pok hc hnr ((st1.trans st2).trans (RbThm.JmpLSim.Steps.one s3)) σ rfl
  refine ⟨_, st, rfl, hr.same ?_, ?_, ⟨?_, fun _ => ?_⟩, ?_, ?_, rfl⟩
  · exact hr.base.same (hk2.env.trans hk1.env) (hk2.out.trans hk1.out) (hk2.data.trans hk1.data)
      (hk2.dataIdx.trans hk1.dataIdx) (hk2.queue.trans hk1.queue)
  · show τ2.regStack = _; rw [hr2, hr1]
  · show vb + C.env.dp.sd L ≤ τ2.vals.length
    rw [hv2, hv1, List.length_drop]
    have := hi.he; omega
  · show τ2.vals = _; rw [hv2, hv1]
  · show τ2.paths = _; rw [hk2.paths, hk1.paths]
  · show τ2.gosubs = _; rw [hk2.gosubs, hk1.gosubs]

/-! ### `ret` -/

theorem case_ret (C : Ctx) (hC : C.Ok) (fuel : Nat) (ih : StmtIHle C fuel) (p : Pos)
    (sfx : String) (d e off nx vb gd : Nat) (m : Mode) (σ : EVm) (s : ESt)
    (hc : CodeAt C.prog.code off (compileStmt C.env sfx d e off (.ret p)))
    (hl : LabAt C.env d e off (.ret p)) (hw : Wf C.sl C.env.dp C.rl d e (.ret p))
    (hm : MarksAt C.prog.marks (marksStmt C.env.dp d e off (.ret p)) nx)
    (hnx : off + sizeStmt C.env.dp d e (.ret p) ≤ nx)
    (hen : Entry C.env off (.ret p) m σ) (hr : ERel C.sl C.env s σ) (hi : Inv C d e vb gd σ) :
    StmtSpec C d e vb (off + sizeStmt C.env.dp d e (.ret p)) nx σ
      (exec (fuel + 1) C.P gd (desugar (.ret p)) m s) := by
  obtain ⟨rfl, hpc⟩ := hen.of_nolabels rfl
  have hc0 := hc
  simp only [compileStmt, lift, List.map_cons, List.map_nil] at hc0
  have h0 : C.prog.code[σ.b.pc]? = some (.base CInstr.ret, p) := by rw [hpc]; exact hc0.head
  by_cases hgd : gd = 0
  · -- RETURN without GOSUB: the instruction fails with error 3; the statement is one resume unit
    subst hgd
    have hgs : σ.b.gosubs = [] := List.eq_nil_of_length_eq_zero hi.gs
    have hb : JmpL.Vm.step C.prog.base σ.b = .error JmpL.Vm.codeReturnWithoutGoSub p σ.b := by
      simp only [JmpL.Vm.step, base_get hC.pok h0, hgs]
    have hstep : step C.prog σ = Vm.raise C.prog σ Ref.codeReturnWithoutGoSub p := by
      rw [step_base hC.pok h0 (by simp), hb]; rfl
    have := simple_unit hC ih (stmt := .ret p) hc hl trivial hm rfl hnx (Steps.refl σ) (by omega)
      (by simp only [sizeStmt]; omega) hstep (Quiet.refl σ) rfl hi.he rfl rfl rfl hr hi
    simp only [desugar, exec, if_true]
    exact this
  · simp only [desugar, exec, hgd, if_false, StmtSpec]
    exact ⟨σ, Steps.refl σ, h0, hr, ⟨σ.b.regStack.take d, (List.take_append_drop d σ.b.regStack).symm⟩,
      by have := hi.he; omega, fun _ => ⟨σ.b.vals.take e, (List.take_append_drop e σ.b.vals).symm⟩, rfl, rfl, rfl⟩

/-! ### `gosub` -/

theorem jp_truncTop_len {α : Type} (n k : Nat) (l : List α) (h1 : k ≤ n) (h2 : k ≤ l.length) : k ≤ (truncTop n l).length := by
  simp only [truncTop, List.length_drop]; omega

theorem case_gosub (C : Ctx) (hC : C.Ok) (fuel : Nat) (ih : StmtIHle C fuel) (L : Nat) (p : Pos)
    (sfx : String) (d e off nx vb gd : Nat) (m : Mode) (σ : EVm) (s : ESt)
    (hc : CodeAt C.prog.code off (compileStmt C.env sfx d e off (.gosub L p)))
    (hl : LabAt C.env d e off (.gosub L p)) (hw : Wf C.sl C.env.dp C.rl d e (.gosub L p))
    (hm : MarksAt C.prog.marks (marksStmt C.env.dp d e off (.gosub L p)) nx)
    (hnx : off + sizeStmt C.env.dp d e (.gosub L p) ≤ nx)
    (hen : Entry C.env off (.gosub L p) m σ) (hr : ERel C.sl C.env s σ) (hi : Inv C d e vb gd σ) :
    StmtSpec C d e vb (off + sizeStmt C.env.dp d e (.gosub L p)) nx σ
      (exec (fuel + 1) C.P gd (desugar (.gosub L p)) m s) := by
  obtain ⟨rfl, hpc⟩ := hen.of_nolabels rfl
  simp only [compileStmt, lift, List.map_cons, List.map_nil] at hc
  have h0 : C.prog.code[σ.b.pc]? = some (.base (CInstr.goSub (C.env.addr L)), p) := by rw [hpc]; exact hc.head
  let b1 : Vm := { σ.b with pc := C.env.addr L, gosubs := (σ.b.pc, σ.b.regStack.length + 1, σ.b.vals.length) :: σ.b.gosubs }
  have s1 : step C.prog σ = .next { σ with b := b1 } :=
    jp_step_next hC h0 (by simp) (by simp only [JmpL.Vm.step, base_get hC.pok h0]; rfl)
  generalize hσ1 : ({ σ with b := b1 } : EVm) = σ1 at s1
  have e1 : σ1.b = b1 := by subst hσ1; rfl
  have e2 : σ1.errAddr = σ.errAddr := by subst hσ1; rfl
  have hL : L ∈ C.B.labels := hC.gosubOk L hw.1
  have hr1 : ERel C.sl C.env s σ1 := by
    subst hσ1; exact hr.same (hr.base.same rfl rfl rfl rfl rfl)
  have hi1 : Inv C 0 0 (vb + e) (gd + 1) σ1 := by
    refine ⟨Nat.zero_le _, ?_, ?_, ?_⟩
    · rw [e1]; exact hi.he
    · rw [e1]; show (σ.b.gosubs.length + 1) = gd + 1; rw [hi.gs]
    · -- the routine's cut is relative to the heights this GOSUB records: no appeal to the caller's `CutInv`
      intro _ _
      rw [e1]
      exact ⟨hi.he, rfl⟩
  -- the routine: the whole program body, entered at the label
  have hsub := ih.self C.B "" 0 0 C.base (C.base + sizeStmt C.env.dp 0 0 C.B) (vb + e) (gd + 1) (.seek L) σ1 s hC.hcode hC.lab
    hC.wf hC.hmarks (Nat.le_refl _) ⟨hL, by rw [e1]⟩ hr1 hi1
  have hP : desugar C.B = C.P := rfl
  rw [hP] at hsub
  simp only [desugar, exec, sizeStmt]
  generalize exec fuel C.P (gd + 1) C.P (.seek L) s = r at hsub ⊢
  obtain ⟨s', o⟩ := r
  cases o with
  | ret q =>
    obtain ⟨τ, st, hret, hrel, ⟨X, hX⟩, hvb, hY, hpa, hgs, hk⟩ := hsub
    rw [e1] at hX hpa hgs
    simp only [List.drop_zero] at hX hY
    obtain ⟨r', hr'⟩ := RbThm.JmpLSim.truncTop_frames σ.b.regStack X τ.b.regs
    let υb : Vm := { τ.b with pc := σ.b.pc + 1, regs := r', regStack := σ.b.regStack,
                              vals := truncTop σ.b.vals.length τ.b.vals, gosubs := σ.b.gosubs }
    have s2 : step C.prog τ = .next { τ with b := υb } := by
      refine jp_step_next hC hret (by simp) ?_
      have hg : τ.b.gosubs = (σ.b.pc, σ.b.regStack.length + 1, σ.b.vals.length) :: σ.b.gosubs := hgs
      have ht : truncTop (σ.b.regStack.length + 1) (τ.b.regs :: τ.b.regStack) = r' :: σ.b.regStack := by rw [hX]; exact hr'
      simp only [JmpL.Vm.step, base_get hC.pok hret, hg, ht]; rfl
    refine ⟨_, (Steps.cons s1 st).trans (Steps.one s2), .inl (by show σ.b.pc + 1 = off + 1; rw [hpc]), ?_, rfl, ⟨?_, fun hne => ?_⟩,
      hpa, rfl, ?_⟩
    · exact hrel.same (hrel.base.same rfl rfl rfl rfl rfl)
    · show vb + e ≤ (truncTop σ.b.vals.length τ.b.vals).length
      exact jp_truncTop_len _ _ _ hi.he hvb
    · show truncTop σ.b.vals.length τ.b.vals = σ.b.vals.drop 0
      obtain ⟨Y, hY'⟩ := hY (by rw [e2]; exact hne)
      rw [hY', e1, List.drop_zero]
      exact RbThm.JmpLSim.truncTop_vals _ _
    · have e3 : HKeep σ σ1 := by subst hσ1; rfl
      exact hk.trans e3
  | normal =>
    obtain ⟨τ, st, hp, hrel, _⟩ := hsub
    obtain ⟨q, hq⟩ := hC.hhalt
    have hpc' : τ.b.pc = C.base + sizeStmt C.env.dp 0 0 C.B := by
      rcases hp with h | ⟨h, _⟩ <;> exact h
    have hcode : C.prog.code[τ.b.pc]? = some (.base .halt, q) := by rw [hpc']; exact hq
    have s2 : step C.prog τ = .halt τ := by
      rw [step_base hC.pok hcode (by simp), step_halt (base_get hC.pok hcode)]
    exact ⟨τ, τ, Steps.cons s1 st, s2, hrel.base⟩
  | halted =>
    obtain ⟨τ, υ, st, hh, hrel⟩ := hsub
    exact ⟨τ, υ, Steps.cons s1 st, hh, hrel⟩
  | error c q =>
    obtain ⟨τ, υ, st, hh, ho⟩ := hsub
    exact ⟨τ, υ, Steps.cons s1 st, hh, ho⟩
  | jump L' => trivial
  | notHere => trivial
  | resumed k => trivial
  | inexact => trivial
  | outOfFuel => trivial
  | illFormed => trivial
  | unspec => trivial

end RbThm.ErrLSim
