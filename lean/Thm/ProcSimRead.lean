import Thm.ProcSimBase
/-!
Procedures layer, simulation part — `READ` (port of `Thm.C01SimRead.case_read`).

`READ a, b` is generated as `READ a : READ b`: one call of the built-in per variable —
`BeginCollectArguments; VarPathName x; CopyVarPathToA; PushUnnamedByRef; PushStack` (the collected value becomes the
frame of the built-in's activation); `BuiltInSub Read` (the variable of that frame receives the next DATA item converted
to the type of the value it holds — the declared type, because the environment is `Typed`); `EnqueueToReturnStack 0;
PopStack; DequeueFromReturnStack; VarPathName x; CopyAToVarPath`.  So every variable is assigned before the next DATA
item is converted: the `readSeq` of the reference semantics, round by round.
-/
set_option linter.unusedVariables false
set_option linter.unusedSimpArgs false

namespace RbThm.ProcSim.SimRead
open RbModel RbModel.Num RbModel.Proc RbModel.Proc.Compile RbModel.Proc.Vm
open RbModel.Ast (Pos)
open RbThm.ProcLen
open RbThm.C01Sim.SimRead (cast_tag typed_set typed_getD_tag)

/-- the code of one single-variable READ -/
def readBlock (p : Pos) (v : Nat × Ty × Pos) : Code :=
  [(CInstr.beginArgs, p), (CInstr.varPath v.1 v.2.1, v.2.2), (CInstr.copyVarPathToA, v.2.2), (CInstr.pushByRef, v.2.2),
   (CInstr.pushStack, p), (CInstr.builtInRead, p), (CInstr.enqueue 0, v.2.2), (CInstr.popStack, p),
   (CInstr.dequeue, v.2.2), (CInstr.varPath v.1 v.2.1, v.2.2), (CInstr.copyAToVarPath, v.2.2)]

theorem compile_read (lay : List Nat) (sfx : String) (fd sd off : Nat) (vars : List (Nat × Ty × Pos)) (p : Pos) :
    compileStmt lay sfx fd sd off (.read vars p) =
      if vars.isEmpty then
        [(CInstr.beginArgs, p), (CInstr.pushStack, p), (CInstr.builtInRead, p), (CInstr.popStack, p)]
      else vars.flatMap (readBlock p) := by
  simp only [compileStmt]
  rfl

theorem len_readBlocks (p : Pos) (vars : List (Nat × Ty × Pos)) : (vars.flatMap (readBlock p)).length = 11 * vars.length :=
  flatMap_const_len _ 11 (fun _ => rfl) vars

/-- **one single-variable READ** -/
theorem one_read (code : Code) (P : Program) (f : Nat) (x : Nat) (t : Ty) (q p : Pos) (sc : Scope) (fd sd off : Nat)
    (below : List CtxState) (s : St) (σ : Vm)
    (hc : CodeAt code off (readBlock p (x, t, q))) (hpc : σ.pc = off) (hr : Rel sc [] below s σ)
    (hx : sc.slots[x]? = some t) :
    StmtPost code sc below fd sd 11 off σ (Proc.Ref.exec P (f + 1) (.read x t p) s) := by
  subst hpc
  simp only [readBlock] at hc
  obtain ⟨fr, hctx, hfr⟩ := hr.ctx
  have hctx : σ.ctx = .frame fr :: below := hctx
  have h0 : code[σ.pc]? = some (CInstr.beginArgs, p) := hc.head
  have h1 : code[σ.pc + 1]? = some (CInstr.varPath x t, q) := hc.tail.head
  have h2 : code[σ.pc + 1 + 1]? = some (CInstr.copyVarPathToA, q) := hc.tail.tail.head
  have h3 : code[σ.pc + 1 + 1 + 1]? = some (CInstr.pushByRef, q) := hc.tail.tail.tail.head
  have h4 : code[σ.pc + 1 + 1 + 1 + 1]? = some (CInstr.pushStack, p) := hc.tail.tail.tail.tail.head
  have h5 : code[σ.pc + 1 + 1 + 1 + 1 + 1]? = some (CInstr.builtInRead, p) := hc.tail.tail.tail.tail.tail.head
  have h6 : code[σ.pc + 1 + 1 + 1 + 1 + 1 + 1]? = some (CInstr.enqueue 0, q) := hc.tail.tail.tail.tail.tail.tail.head
  have h7 : code[σ.pc + 1 + 1 + 1 + 1 + 1 + 1 + 1]? = some (CInstr.popStack, p) :=
    hc.tail.tail.tail.tail.tail.tail.tail.head
  have h8 : code[σ.pc + 1 + 1 + 1 + 1 + 1 + 1 + 1 + 1]? = some (CInstr.dequeue, q) :=
    hc.tail.tail.tail.tail.tail.tail.tail.tail.head
  have h9 : code[σ.pc + 1 + 1 + 1 + 1 + 1 + 1 + 1 + 1 + 1]? = some (CInstr.varPath x t, q) :=
    hc.tail.tail.tail.tail.tail.tail.tail.tail.tail.head
  have h10 : code[σ.pc + 1 + 1 + 1 + 1 + 1 + 1 + 1 + 1 + 1 + 1]? = some (CInstr.copyAToVarPath, q) :=
    hc.tail.tail.tail.tail.tail.tail.tail.tail.tail.tail.head
  -- the value the variable holds has the declared type
  let v0 : Val := getVar fr x t
  have htag : v0.tag = t := by
    show (getVar fr x t).tag = t
    rw [hfr.get x t hx]; exact typed_getD_tag hr.typed hx _
  -- the call with its one argument
  let σ1 : Vm := Vm.advance { σ with ctx := .args [] :: .frame fr :: below }
  let σ2 : Vm := Vm.advance { σ1 with paths := (x, t) :: σ1.paths }
  let σ3 : Vm := Vm.advance (Vm.setA σ2 v0)
  let σ4 : Vm := Vm.advance { σ3 with paths := σ.paths, ctx := .args [v0] :: .frame fr :: below }
  let σ5 : Vm := Vm.advance { σ4 with ctx := .frame [some v0] :: .frame fr :: below, trace := p :: σ.trace }
  have s1 : Vm.step code σ = .next σ1 := by simp only [Vm.step, h0, hctx]; rfl
  have s2 : Vm.step code σ1 = .next σ2 := by
    have h1' : code[σ1.pc]? = some (CInstr.varPath x t, q) := h1
    simp only [Vm.step, h1']; rfl
  have s3 : Vm.step code σ2 = .next σ3 := by
    have h2' : code[σ2.pc]? = some (CInstr.copyVarPathToA, q) := h2
    have hp2 : σ2.paths = (x, t) :: σ.paths := rfl
    have hcv : curVars σ2.ctx = some fr := rfl
    simp only [Vm.step, h2', hp2, hcv]; rfl
  have s4 : Vm.step code σ3 = .next σ4 := by
    have h3' : code[σ3.pc]? = some (CInstr.pushByRef, q) := h3
    have hp3 : σ3.paths = (x, t) :: σ.paths := rfl
    simp only [Vm.step, h3', hp3, pushArg]; rfl
  have s5 : Vm.step code σ4 = .next σ5 := by
    have h4' : code[σ4.pc]? = some (CInstr.pushStack, p) := h4
    have hc4 : σ4.ctx = .args [v0] :: .frame fr :: below := rfl
    simp only [Vm.step, h4', hc4]; rfl
  have pre : Steps code σ σ5 := Steps.cons s1 (Steps.cons s2 (Steps.cons s3 (Steps.cons s4 (Steps.one s5))))
  have hread : Vm.step code σ5 =
      match readVars [v0] s.data s.dataIdx with
      | .inr () => .error _root_.RbModel.Ref.codeOutOfData p σ5
      | .inl (.error e) => .error (Vm.codeOf e) p σ5
      | .inl (.ok (vs', idx')) =>
        .next (Vm.advance { σ5 with ctx := .frame (vs'.map some) :: .frame fr :: below, dataIdx := idx' }) := by
    have h5' : code[σ5.pc]? = some (CInstr.builtInRead, p) := h5
    have hc5 : σ5.ctx = .frame [some v0] :: .frame fr :: below := rfl
    have hm : ([some v0] : Frame).mapM id = some [v0] := rfl
    have e : readVars [v0] σ5.data σ5.dataIdx = readVars [v0] s.data s.dataIdx := by
      have e2 : σ5.data = s.data := hr.data
      have e3 : σ5.dataIdx = s.dataIdx := hr.dataIdx
      rw [e2, e3]
    simp only [Vm.step, h5', hc5, hm]
    rw [e]; rfl
  simp only [Proc.Ref.exec]
  cases hd : s.data[s.dataIdx]? with
  | none =>
    simp only [StmtPost]
    refine ⟨σ5, σ5, pre, ?_, hr.out⟩
    rw [hread]; simp only [readVars, hd]; rfl
  | some v =>
    simp only
    cases hcst : Num.cast v t with
    | inexact => simp only [StmtPost]
    | err e =>
      simp only [StmtPost]
      refine ⟨σ5, σ5, pre, ?_, hr.out⟩
      rw [hread]; simp only [readVars, hd, htag, hcst]
    | ok w =>
      simp only [StmtPost]
      let σ6 : Vm := Vm.advance { σ5 with ctx := .frame [some w] :: .frame fr :: below, dataIdx := s.dataIdx + 1 }
      let σ7 : Vm := Vm.advance { σ6 with queue := σ6.queue ++ [w] }
      let σ8 : Vm := Vm.advance { σ7 with ctx := .frame fr :: below, trace := σ.trace }
      let σ9 : Vm := Vm.advance { Vm.setA σ8 w with queue := [] }
      let σ10 : Vm := Vm.advance { σ9 with paths := (x, t) :: σ9.paths }
      let σ11 : Vm := Vm.advance { σ10 with ctx := .frame (setVar fr x w) :: below, paths := σ.paths }
      have s6 : Vm.step code σ5 = .next σ6 := by
        rw [hread]; simp only [readVars, hd, htag, hcst]; rfl
      have s7 : Vm.step code σ6 = .next σ7 := by
        have h6' : code[σ6.pc]? = some (CInstr.enqueue 0, q) := h6
        have hcv : curVars σ6.ctx = some [some w] := rfl
        have hw0 : ([some w] : Frame)[0]? = some (some w) := rfl
        simp only [Vm.step, h6', hcv, hw0]; rfl
      have s8 : Vm.step code σ7 = .next σ8 := by
        have h7' : code[σ7.pc]? = some (CInstr.popStack, p) := h7
        have hc7 : σ7.ctx = .frame [some w] :: .frame fr :: below := rfl
        have ht7 : σ7.trace = p :: σ.trace := rfl
        simp only [Vm.step, h7', hc7, ht7]; rfl
      have s9 : Vm.step code σ8 = .next σ9 := by
        have h8' : code[σ8.pc]? = some (CInstr.dequeue, q) := h8
        have hq8 : σ8.queue = [w] := by show σ.queue ++ [w] = [w]; rw [hr.queue]; rfl
        simp only [Vm.step, h8', hq8]; rfl
      have s10 : Vm.step code σ9 = .next σ10 := by
        have h9' : code[σ9.pc]? = some (CInstr.varPath x t, q) := h9
        simp only [Vm.step, h9']; rfl
      have s11 : Vm.step code σ10 = .next σ11 := by
        have h10' : code[σ10.pc]? = some (CInstr.copyAToVarPath, q) := h10
        have hp10 : σ10.paths = (x, t) :: σ.paths := rfl
        have hc10 : σ10.ctx = .frame fr :: below := rfl
        have ha10 : σ10.regs.a = w := rfl
        simp only [Vm.step, h10', hp10, hc10, ha10, modCur]; rfl
      refine ⟨σ11, pre.trans (Steps.cons s6 (Steps.cons s7 (Steps.cons s8 (Steps.cons s9
        (Steps.cons s10 (Steps.one s11)))))), rfl, ?_, ⟨rfl, rfl, rfl, rfl, rfl, rfl, id⟩⟩
      exact ⟨hr.coll, ⟨setVar fr x w, rfl, hfr.set hx hr.typed.1 w⟩,
        typed_set hr.typed hx (cast_tag v t w hcst), hr.out, hr.data,
        (by show s.dataIdx + 1 = s.dataIdx + 1; rfl), rfl, hr.funRes⟩

/-- the rounds of a READ statement: `readSeq` against the blocks, one unit of fuel per round -/
theorem reads_correct (code : Code) (P : Program) (p : Pos) (sc : Scope) (fd sd : Nat) (below : List CtxState) :
    ∀ (vars : List (Nat × Ty × Pos)) (fuel : Nat) (off : Nat) (σ : Vm) (s : St),
      CodeAt code off (vars.flatMap (readBlock p)) → σ.pc = off → Rel sc [] below s σ →
      (∀ v ∈ vars, sc.slots[v.1]? = some v.2.1) →
      StmtPost code sc below fd sd (11 * vars.length) off σ (Proc.Ref.exec P (fuel + 1) (readSeq p vars) s)
  | [], fuel, off, σ, s, _, hpc, hr, _ => by
    simp only [readSeq, Proc.Ref.exec, StmtPost]
    exact ⟨σ, Steps.refl σ, by simp only [List.length_nil, Nat.mul_zero, Nat.add_zero, hpc], hr, SameStacks.refl σ⟩
  | (x, t, q) :: rest, fuel, off, σ, s, hc, hpc, hr, hw => by
    simp only [List.flatMap_cons] at hc
    simp only [readSeq, Proc.Ref.exec]
    cases fuel with
    | zero => simp only [Proc.Ref.exec, StmtPost]
    | succ f =>
      have hx : sc.slots[x]? = some t := hw (x, t, q) (List.mem_cons_self ..)
      have h1 := one_read code P f x t q p sc fd sd off below s σ hc.append_left hpc hr hx
      generalize Proc.Ref.exec P (f + 1) (Stmt.read x t p) s = ra at h1 ⊢
      obtain ⟨s1, o1⟩ := ra
      cases o1 with
      | normal =>
        obtain ⟨τ, st, hp, hrel, hss⟩ := h1
        have hcr : CodeAt code (off + 11) (rest.flatMap (readBlock p)) := hc.append_right
        have h2 := reads_correct code P p sc fd sd below rest f (off + 11) τ s1 hcr hp hrel
          (fun v hv => hw v (List.mem_cons_of_mem _ hv))
        simp only
        exact StmtPost.of_steps st hss (h2.addr (by simp only [List.length_cons]; omega))
      | exited => exact h1
      | halted => exact h1
      | error c q' => exact h1
      | inexact => trivial
      | outOfFuel => trivial
      | illFormed => exact h1

end RbThm.ProcSim.SimRead

namespace RbThm.ProcSim
open RbModel RbModel.Num RbModel.Proc RbModel.Proc.Compile RbModel.Proc.Vm
open RbModel.Ast (Pos)
open RbThm.ProcLen RbThm.ProcSim.SimRead

/-- **READ**: one call of the built-in per variable (`READ a, b` = `READ a : READ b`).  A READ without variables is an
empty call. -/
theorem case_read (W : World) (fuel : Nat) (ih : IHle W fuel) (vars : List (Nat × Ty × Pos)) (p : Pos)
    (sc : Scope) (sfx : String) (fd sd off : Nat) (below : List CtxState) (s : St) (σ : Vm)
    (hc : CodeAt W.code off (compileStmt W.lay sfx fd sd off (.read vars p))) (hpc : σ.pc = off)
    (hr : Rel sc [] below s σ) (hw : Wf W.sg sc (.read vars p)) (ha : ActInv sc fd sd σ) :
    StmtPost W.code sc below fd sd (sizeStmt fd sd (.read vars p)) off σ
      (Proc.Ref.exec W.P (fuel + 1) (desugar (.read vars p)) s) := by
  rw [compile_read] at hc
  simp only [Wf] at hw
  cases vars with
  | nil =>
    simp only [List.isEmpty_nil, if_true] at hc
    subst hpc
    obtain ⟨fr, hctx, hfr⟩ := hr.ctx
    have hctx : σ.ctx = .frame fr :: below := hctx
    have h0 : W.code[σ.pc]? = some (CInstr.beginArgs, p) := hc.head
    have h1 : W.code[σ.pc + 1]? = some (CInstr.pushStack, p) := hc.tail.head
    have h2 : W.code[σ.pc + 1 + 1]? = some (CInstr.builtInRead, p) := hc.tail.tail.head
    have h3 : W.code[σ.pc + 1 + 1 + 1]? = some (CInstr.popStack, p) := hc.tail.tail.tail.head
    let σ1 : Vm := Vm.advance { σ with ctx := .args [] :: .frame fr :: below }
    let σ2 : Vm := Vm.advance { σ1 with ctx := .frame [] :: .frame fr :: below, trace := p :: σ.trace }
    let σ3 : Vm := Vm.advance { σ2 with ctx := .frame [] :: .frame fr :: below, dataIdx := σ.dataIdx }
    let σ4 : Vm := Vm.advance { σ3 with ctx := .frame fr :: below, trace := σ.trace }
    have s1 : Vm.step W.code σ = .next σ1 := by simp only [Vm.step, h0, hctx]; rfl
    have s2 : Vm.step W.code σ1 = .next σ2 := by
      have h1' : W.code[σ1.pc]? = some (CInstr.pushStack, p) := h1
      have hc1 : σ1.ctx = .args [] :: .frame fr :: below := rfl
      simp only [Vm.step, h1', hc1]; rfl
    have s3 : Vm.step W.code σ2 = .next σ3 := by
      have h2' : W.code[σ2.pc]? = some (CInstr.builtInRead, p) := h2
      have hc2 : σ2.ctx = .frame [] :: .frame fr :: below := rfl
      have hm : ([] : Frame).mapM id = some [] := rfl
      simp only [Vm.step, h2', hc2, hm, readVars]; rfl
    have s4 : Vm.step W.code σ3 = .next σ4 := by
      have h3' : W.code[σ3.pc]? = some (CInstr.popStack, p) := h3
      have hc3 : σ3.ctx = .frame [] :: .frame fr :: below := rfl
      have ht3 : σ3.trace = p :: σ.trace := rfl
      simp only [Vm.step, h3', hc3, ht3]; rfl
    simp only [desugar, readSeq, Proc.Ref.exec, sizeStmt, List.isEmpty_nil, if_true, StmtPost]
    refine ⟨σ4, Steps.cons s1 (Steps.cons s2 (Steps.cons s3 (Steps.one s4))), rfl, ?_,
      ⟨rfl, rfl, rfl, rfl, rfl, rfl, id⟩⟩
    exact hr.same (by show CtxState.frame fr :: below = σ.ctx; rw [hctx]) rfl rfl rfl rfl rfl
  | cons v rest =>
    simp only [List.isEmpty_cons, Bool.false_eq_true, if_false] at hc
    have h := reads_correct W.code W.P p sc fd sd below (v :: rest) fuel off σ s hc hpc hr hw
    simp only [desugar, sizeStmt, List.isEmpty_cons, Bool.false_eq_true, if_false]
    exact h

end RbThm.ProcSim
