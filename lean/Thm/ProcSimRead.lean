import Thm.ProcSimBase
/-!
Procedures layer, simulation part — `READ` (port of `Thm.C01SimRead.case_read`).

Generated shape: `BeginCollectArguments`; per variable `VarPathName x; CopyVarPathToA; PushUnnamedByRef`; `PushStack`
(the collected values become the frame of the built-in's activation); `BuiltInSub Read` (every variable of that frame
receives the next DATA item converted to the type of the value it holds — the declared type, because the environment is
`Typed`); per variable `EnqueueToReturnStack i`; `PopStack`; per variable `DequeueFromReturnStack; VarPathName x;
CopyAToVarPath`.
-/
set_option linter.unusedVariables false
set_option linter.unusedSimpArgs false

namespace RbThm.ProcSim.SimRead
open RbModel RbModel.Num RbModel.Proc RbModel.Proc.Compile RbModel.Proc.Vm
open RbModel.Ast (Pos)
open RbThm.ProcLen
open RbThm.C01Sim.SimRead (setAll setAll_length cast_tag typed_set typed_getD_tag)

/-! ### the three loops of the generated code -/

/-- `VarPathName x; CopyVarPathToA; PushUnnamedByRef` per variable -/
def pushCode (vars : List (Nat × Ty × Pos)) : Code :=
  vars.flatMap (fun v => [(CInstr.varPath v.1 v.2.1, v.2.2), (CInstr.copyVarPathToA, v.2.2), (CInstr.pushByRef, v.2.2)])

/-- `EnqueueToReturnStack i` per variable -/
def enqCode (k : Nat) (vars : List (Nat × Ty × Pos)) : Code :=
  (vars.zipIdx k).map (fun vi => (CInstr.enqueue vi.2, vi.1.2.2))

/-- `DequeueFromReturnStack; VarPathName x; CopyAToVarPath` per variable -/
def deqCode (vars : List (Nat × Ty × Pos)) : Code :=
  vars.flatMap (fun v => [(CInstr.dequeue, v.2.2), (CInstr.varPath v.1 v.2.1, v.2.2), (CInstr.copyAToVarPath, v.2.2)])

theorem compile_read (lay : List Nat) (sfx : String) (fd sd off : Nat) (vars : List (Nat × Ty × Pos)) (p : Pos) :
    compileStmt lay sfx fd sd off (.read vars p) =
      [(CInstr.beginArgs, p)] ++ pushCode vars ++ [(CInstr.pushStack, p), (CInstr.builtInRead, p)] ++ enqCode 0 vars ++
        [(CInstr.popStack, p)] ++ deqCode vars := by
  simp only [compileStmt, pushCode, enqCode, deqCode]

theorem len_pushCode (vars : List (Nat × Ty × Pos)) : (pushCode vars).length = 3 * vars.length :=
  flatMap_const_len _ 3 (fun _ => rfl) vars

theorem len_deqCode (vars : List (Nat × Ty × Pos)) : (deqCode vars).length = 3 * vars.length :=
  flatMap_const_len _ 3 (fun _ => rfl) vars

theorem len_enqCode (k : Nat) (vars : List (Nat × Ty × Pos)) : (enqCode k vars).length = vars.length := by
  simp only [enqCode, List.length_map, List.length_zipIdx]

def pushedSt (σ : Vm) (pc : Nat) (a : Val) (ctx : List CtxState) : Vm :=
  { σ with pc := pc, regs := { σ.regs with a := a }, ctx := ctx }

/-- collecting the by-reference arguments: the current value of every variable (read in the frame below the collecting
state) is appended to the collected values -/
theorem push_phase (code : Code) : ∀ (vars : List (Nat × Ty × Pos)) (off : Nat) (σ : Vm) (vs0 : List Val) (fr : Frame)
    (rest : List CtxState),
    CodeAt code off (pushCode vars) → σ.pc = off → σ.ctx = .args vs0 :: .frame fr :: rest →
    ∃ a, Steps code σ (pushedSt σ (off + 3 * vars.length) a
      (.args (vs0 ++ vars.map (fun v => getVar fr v.1 v.2.1)) :: .frame fr :: rest))
  | [], off, σ, vs0, fr, rest, _, hpc, hctx => by
    subst hpc
    refine ⟨σ.regs.a, (Steps.refl σ).cast ?_⟩
    simp only [List.map_nil, List.append_nil, ← hctx]
    rfl
  | (x, t, q) :: vars, off, σ, vs0, fr, rest, hc, hpc, hctx => by
    subst hpc
    simp only [pushCode, List.flatMap_cons] at hc
    have h0 : code[σ.pc]? = some (CInstr.varPath x t, q) := hc.append_left.head
    have h1 : code[σ.pc + 1]? = some (CInstr.copyVarPathToA, q) := hc.append_left.tail.head
    have h2 : code[σ.pc + 1 + 1]? = some (CInstr.pushByRef, q) := hc.append_left.tail.tail.head
    have hcv : curVars σ.ctx = some fr := by rw [hctx]; rfl
    let σ1 : Vm := Vm.advance { σ with paths := (x, t) :: σ.paths }
    let σ2 : Vm := Vm.advance (Vm.setA σ1 (getVar fr x t))
    let σ3 : Vm := Vm.advance { σ2 with paths := σ.paths, ctx := .args (vs0 ++ [getVar fr x t]) :: .frame fr :: rest }
    have s1 : Vm.step code σ = .next σ1 := by simp only [Vm.step, h0]; rfl
    have s2 : Vm.step code σ1 = .next σ2 := by simp only [Vm.step, σ1, Vm.advance, h1, hcv]; rfl
    have s3 : Vm.step code σ2 = .next σ3 := by
      simp only [Vm.step, σ2, σ1, Vm.advance, Vm.setA, h2, pushArg, hctx]; rfl
    have hcr : CodeAt code (σ.pc + 3) (pushCode vars) := hc.append_right
    obtain ⟨a, st⟩ := push_phase code vars (σ.pc + 3) σ3 (vs0 ++ [getVar fr x t]) fr rest hcr rfl rfl
    have e1 : σ.pc + 3 + 3 * vars.length = σ.pc + 3 * ((x, t, q) :: vars).length := by
      simp only [List.length_cons]; omega
    have e2 : vs0 ++ [getVar fr x t] ++ vars.map (fun v => getVar fr v.1 v.2.1) =
        vs0 ++ ((x, t, q) :: vars).map (fun v => getVar fr v.1 v.2.1) := by
      simp only [List.map_cons, List.append_assoc, List.singleton_append]
    rw [e1, e2] at st
    exact ⟨a, (Steps.cons s1 (Steps.cons s2 (Steps.one s3))).trans st⟩

def enqSt (σ : Vm) (pc : Nat) (queue : List Val) : Vm := { σ with pc := pc, queue := queue }

/-- the converted values (the variables of the built-in's frame) are put into the by-reference return queue, in order -/
theorem enq_phase (code : Code) : ∀ (vars : List (Nat × Ty × Pos)) (k off : Nat) (σ : Vm) (ws : List Val)
    (rest : List CtxState),
    CodeAt code off (enqCode k vars) → σ.pc = off → σ.ctx = .frame (ws.map some) :: rest →
    k + vars.length ≤ ws.length →
    Steps code σ (enqSt σ (off + vars.length) (σ.queue ++ (ws.drop k).take vars.length))
  | [], k, off, σ, ws, rest, _, hpc, _, _ => by
    subst hpc
    refine (Steps.refl σ).cast ?_
    simp only [enqSt, List.length_nil, Nat.add_zero, List.take_zero, List.append_nil]
  | v :: vars, k, off, σ, ws, rest, hc, hpc, hctx, hlen => by
    subst hpc
    simp only [enqCode, List.zipIdx_cons, List.map_cons] at hc
    have h0 : code[σ.pc]? = some (CInstr.enqueue k, v.2.2) := hc.head
    have hk : k < ws.length := by simp only [List.length_cons] at hlen; omega
    have hcv : curVars σ.ctx = some (ws.map some) := by rw [hctx]; rfl
    have hwk : (ws.map some)[k]? = some (some ws[k]) := by
      rw [List.getElem?_map, List.getElem?_eq_getElem hk]; rfl
    let σ1 : Vm := Vm.advance { σ with queue := σ.queue ++ [ws[k]] }
    have s1 : Vm.step code σ = .next σ1 := by simp only [Vm.step, h0, hcv, hwk]; rfl
    have hcr : CodeAt code (σ.pc + 1) (enqCode (k + 1) vars) := hc.tail
    have st := enq_phase code vars (k + 1) (σ.pc + 1) σ1 ws rest hcr rfl hctx
      (by simp only [List.length_cons] at hlen; omega)
    have e1 : σ.pc + 1 + vars.length = σ.pc + (v :: vars).length := by simp only [List.length_cons]; omega
    have e2 : σ1.queue ++ (ws.drop (k + 1)).take vars.length = σ.queue ++ (ws.drop k).take (v :: vars).length := by
      show σ.queue ++ [ws[k]] ++ (ws.drop (k + 1)).take vars.length = _
      rw [List.drop_eq_getElem_cons hk]
      simp only [List.length_cons, List.take_succ_cons, List.append_assoc, List.singleton_append]
    rw [e1, e2] at st
    exact Steps.cons s1 st

/-- the variables of a frame assigned one after the other -/
def setAllFr : Frame → List (Nat × Ty × Pos) → List Val → Frame
  | fr, v :: vs, w :: ws => setAllFr (setVar fr v.1 w) vs ws
  | fr, _, _ => fr

def deqSt (σ : Vm) (pc : Nat) (a : Val) (queue : List Val) (ctx : List CtxState) : Vm :=
  { σ with pc := pc, regs := { σ.regs with a := a }, queue := queue, ctx := ctx }

/-- the copy-back: the queued values are stored into the variables of the current frame, in order -/
theorem deq_phase (code : Code) : ∀ (vars : List (Nat × Ty × Pos)) (ws : List Val) (off : Nat) (σ : Vm)
    (tail : List Val) (fr : Frame) (below : List CtxState),
    CodeAt code off (deqCode vars) → σ.pc = off → σ.queue = ws ++ tail → ws.length = vars.length →
    σ.ctx = .frame fr :: below →
    ∃ a, Steps code σ (deqSt σ (off + 3 * vars.length) a tail (.frame (setAllFr fr vars ws) :: below))
  | [], [], off, σ, tail, fr, below, _, hpc, hq, _, hctx => by
    subst hpc
    have ht : tail = σ.queue := by rw [hq]; rfl
    subst ht
    refine ⟨σ.regs.a, (Steps.refl σ).cast ?_⟩
    simp only [setAllFr, ← hctx]
    rfl
  | [], _ :: _, _, _, _, _, _, _, _, _, hl, _ => by simp at hl
  | _ :: _, [], _, _, _, _, _, _, _, _, hl, _ => by simp at hl
  | (x, t, q) :: vars, w :: ws, off, σ, tail, fr, below, hc, hpc, hq, hl, hctx => by
    subst hpc
    simp only [deqCode, List.flatMap_cons] at hc
    have h0 : code[σ.pc]? = some (CInstr.dequeue, q) := hc.append_left.head
    have h1 : code[σ.pc + 1]? = some (CInstr.varPath x t, q) := hc.append_left.tail.head
    have h2 : code[σ.pc + 1 + 1]? = some (CInstr.copyAToVarPath, q) := hc.append_left.tail.tail.head
    have hq' : σ.queue = w :: (ws ++ tail) := hq
    let σ1 : Vm := Vm.advance { Vm.setA σ w with queue := ws ++ tail }
    let σ2 : Vm := Vm.advance { σ1 with paths := (x, t) :: σ1.paths }
    let σ3 : Vm := Vm.advance { σ2 with ctx := .frame (setVar fr x w) :: below, paths := σ.paths }
    have s1 : Vm.step code σ = .next σ1 := by simp only [Vm.step, h0, hq']; rfl
    have s2 : Vm.step code σ1 = .next σ2 := by simp only [Vm.step, σ1, Vm.advance, Vm.setA, h1]; rfl
    have s3 : Vm.step code σ2 = .next σ3 := by
      simp only [Vm.step, σ2, σ1, Vm.advance, Vm.setA, h2, hctx, modCur]; rfl
    have hcr : CodeAt code (σ.pc + 3) (deqCode vars) := hc.append_right
    obtain ⟨a, st⟩ := deq_phase code vars ws (σ.pc + 3) σ3 tail (setVar fr x w) below hcr rfl rfl
      (by simp only [List.length_cons] at hl; omega) rfl
    have e1 : σ.pc + 3 + 3 * vars.length = σ.pc + 3 * ((x, t, q) :: vars).length := by
      simp only [List.length_cons]; omega
    rw [e1] at st
    exact ⟨a, (Steps.cons s1 (Steps.cons s2 (Steps.one s3))).trans st⟩

/-- the frame and the environment after the copy-back are related again, and the environment is typed -/
theorem rel_setAll (sc : Scope) : ∀ (vars : List (Nat × Ty × Pos)) (ws : List Val) (fr : Frame) (env : List Val),
    FrameRel sc fr env → Typed sc.slots env → (∀ v ∈ vars, sc.slots[v.1]? = some v.2.1) →
    ws.map Val.tag = vars.map (·.2.1) →
    FrameRel sc (setAllFr fr vars ws) (setAll env vars ws) ∧ Typed sc.slots (setAll env vars ws)
  | [], ws, fr, env, hf, ht, _, _ => by
    cases ws <;> simp only [setAllFr, setAll] <;> exact ⟨hf, ht⟩
  | _ :: _, [], _, _, _, _, _, htag => by simp at htag
  | v :: vars, w :: ws, fr, env, hf, ht, hsl, htag => by
    simp only [List.map_cons, List.cons.injEq] at htag
    have hx := hsl v (List.mem_cons_self ..)
    simp only [setAllFr, setAll]
    exact rel_setAll sc vars ws _ _ (hf.set hx ht.1 w) (typed_set ht hx htag.1)
      (fun u hu => hsl u (List.mem_cons_of_mem _ hu)) htag.2

theorem mapM_id_some : ∀ (vs : List Val), (vs.map some).mapM id = some vs
  | [] => rfl
  | v :: vs => by
    simp only [List.map_cons, List.mapM_cons, mapM_id_some vs, id]
    rfl

/-! ### the reference semantics against the built-in's loop -/

/-- the reference semantics of `READ x1, …, xn` against the built-in's loop over the values it finds in its frame (any
values that carry the declared types of the variables) -/
theorem read_ref (P : Program) (p : Pos) (cur : (Nat × Ty × Pos) → Val) :
    ∀ (vars : List (Nat × Ty × Pos)) (fuel : Nat) (s : St),
      (∀ v ∈ vars, (cur v).tag = v.2.1) →
      match Proc.Ref.exec P (fuel + 1) (readSeq p vars) s with
      | (s', .normal) => ∃ rs, readVars (vars.map cur) s.data s.dataIdx = .inl (.ok (rs, s.dataIdx + vars.length)) ∧
          rs.length = vars.length ∧ rs.map Val.tag = vars.map (·.2.1) ∧ s'.env = setAll s.env vars rs ∧
          s'.out = s.out ∧ s'.data = s.data ∧ s'.dataIdx = s.dataIdx + vars.length
      | (s', .error c q) => s'.out = s.out ∧ q = p ∧
          ((readVars (vars.map cur) s.data s.dataIdx = .inr () ∧ c = Proc.Ref.codeOutOfData) ∨
           (∃ e, readVars (vars.map cur) s.data s.dataIdx = .inl (.error e) ∧ c = Proc.Ref.codeOf e))
      | (_, .inexact) => True
      | (_, .outOfFuel) => True
      | (_, .halted) => False
      | (_, .exited) => False
      | (_, .illFormed) => False
  | [], fuel, s, _ => by
    simp only [readSeq, Proc.Ref.exec]
    refine ⟨[], ?_⟩
    simp [readVars, setAll]
  | (x, t, q) :: rest, fuel, s, hf => by
    simp only [readSeq, Proc.Ref.exec]
    cases fuel with
    | zero => simp only [Proc.Ref.exec]
    | succ fl =>
      simp only [Proc.Ref.exec]
      have hcur : (cur (x, t, q)).tag = t := hf (x, t, q) (List.mem_cons_self ..)
      simp only [List.map_cons, readVars, hcur]
      cases hd : s.data[s.dataIdx]? with
      | none => simp
      | some v =>
        simp only
        cases hc : Num.cast v t with
        | err e => simp
        | inexact => simp only
        | ok w =>
          simp only
          have ih := read_ref P p cur rest fl { s.set x w with dataIdx := s.dataIdx + 1 }
            (fun v hv => hf v (List.mem_cons_of_mem _ hv))
          generalize hr : Proc.Ref.exec P (fl + 1) (readSeq p rest) { s.set x w with dataIdx := s.dataIdx + 1 } = r
            at ih ⊢
          obtain ⟨s2, o2⟩ := r
          cases o2 with
          | normal =>
            simp only [Proc.Ref.St.set] at ih ⊢
            obtain ⟨rs, h1, h2, h3, h4, h5, h6, h7⟩ := ih
            refine ⟨w :: rs, ?_, ?_, ?_, ?_, h5, h6, ?_⟩
            · rw [h1]
              simp only [List.length_cons]
              congr 3; omega
            · simp only [List.length_cons, h2]
            · simp only [List.map_cons, h3, cast_tag v t w hc]
            · simp only [setAll]; exact h4
            · rw [h7]; simp only [List.length_cons]; omega
          | error c q' =>
            simp only [Proc.Ref.St.set] at ih ⊢
            obtain ⟨h1, h2, h3⟩ := ih
            refine ⟨h1, h2, ?_⟩
            rcases h3 with ⟨h3, hc'⟩ | ⟨e, h3, hc'⟩
            · left; rw [h3]; exact ⟨rfl, hc'⟩
            · right; rw [h3]; exact ⟨e, rfl, hc'⟩
          | halted => simp only at ih
          | exited => simp only at ih
          | illFormed => simp only at ih
          | inexact => simp only
          | outOfFuel => simp only

end RbThm.ProcSim.SimRead

namespace RbThm.ProcSim
open RbModel RbModel.Num RbModel.Proc RbModel.Proc.Compile RbModel.Proc.Vm
open RbModel.Ast (Pos)
open RbThm.ProcLen RbThm.ProcSim.SimRead
open RbThm.C01Sim.SimRead (setAll setAll_length cast_tag typed_set typed_getD_tag)

/-- **READ**.  The built-in converts every DATA item to the type of the value the variable currently holds, which is its
declared type because the environment is `Typed`; the converted values travel through the return queue back into the
variables in the order in which the reference semantics assigns them, so a variable that occurs twice is no special
case. -/
theorem case_read (W : World) (fuel : Nat) (ih : IHle W fuel) (vars : List (Nat × Ty × Pos)) (p : Pos)
    (sc : Scope) (sfx : String) (fd sd off : Nat) (below : List CtxState) (s : St) (σ : Vm)
    (hc : CodeAt W.code off (compileStmt W.lay sfx fd sd off (.read vars p))) (hpc : σ.pc = off)
    (hr : Rel sc [] below s σ) (hw : Wf W.sg sc (.read vars p)) (ha : ActInv sc fd sd σ) :
    StmtPost W.code sc below fd sd (sizeStmt fd sd (.read vars p)) off σ
      (Proc.Ref.exec W.P (fuel + 1) (desugar (.read vars p)) s) := by
  rw [compile_read] at hc
  simp only [Wf] at hw
  subst hpc
  obtain ⟨fr, hctx, hfr⟩ := hr.ctx
  have hctx : σ.ctx = .frame fr :: below := hctx
  -- BeginCollectArguments
  have h0 : W.code[σ.pc]? = some (CInstr.beginArgs, p) :=
    hc.append_left.append_left.append_left.append_left.append_left.head
  let σ1 : Vm := Vm.advance { σ with ctx := .args [] :: σ.ctx }
  have s1 : Vm.step W.code σ = .next σ1 := by simp only [Vm.step, h0]; rfl
  -- the arguments
  have hcp : CodeAt W.code (σ.pc + 1) (pushCode vars) :=
    hc.append_left.append_left.append_left.append_left.append_right
  obtain ⟨a, st2⟩ := push_phase W.code vars (σ.pc + 1) σ1 [] fr below hcp rfl
    (by show CtxState.args [] :: σ.ctx = _; rw [hctx])
  let cur : (Nat × Ty × Pos) → Val := fun v => getVar fr v.1 v.2.1
  let σ2 : Vm := pushedSt σ1 (σ.pc + 1 + 3 * vars.length) a (.args (vars.map cur) :: .frame fr :: below)
  have st2' : Steps W.code σ1 σ2 := st2
  -- PushStack; BuiltInSub Read
  have h3 : W.code[σ.pc + 1 + 3 * vars.length]? = some (CInstr.pushStack, p) := by
    have := hc.append_left.append_left.append_left.append_right.head
    simp only [List.length_append, List.length_singleton, len_pushCode] at this
    rw [← this]; congr 1; omega
  have h4 : W.code[σ.pc + 1 + 3 * vars.length + 1]? = some (CInstr.builtInRead, p) := by
    have := hc.append_left.append_left.append_left.append_right.tail.head
    simp only [List.length_append, List.length_singleton, len_pushCode] at this
    rw [← this]; congr 1; omega
  let σ3 : Vm := Vm.advance { σ2 with ctx := .frame ((vars.map cur).map some) :: .frame fr :: below, trace := p :: σ.trace }
  have s3 : Vm.step W.code σ2 = .next σ3 := by simp only [Vm.step, σ2, pushedSt, h3]; rfl
  have pre : Steps W.code σ σ3 := (Steps.cons s1 st2').trans (Steps.one s3)
  have hread : Vm.step W.code σ3 =
      match readVars (vars.map cur) s.data s.dataIdx with
      | .inr () => .error _root_.RbModel.Ref.codeOutOfData p σ3
      | .inl (.error e) => .error (Vm.codeOf e) p σ3
      | .inl (.ok (vs', idx')) =>
        .next (Vm.advance { σ3 with ctx := .frame (vs'.map some) :: .frame fr :: below, dataIdx := idx' }) := by
    have h4' : W.code[σ3.pc]? = some (CInstr.builtInRead, p) := h4
    have hctx3 : σ3.ctx = .frame ((vars.map cur).map some) :: .frame fr :: below := rfl
    have e : readVars (vars.map cur) σ3.data σ3.dataIdx = readVars (vars.map cur) s.data s.dataIdx := by
      have e2 : σ3.data = s.data := hr.data
      have e3 : σ3.dataIdx = s.dataIdx := hr.dataIdx
      rw [e2, e3]
    simp only [Vm.step, h4', hctx3, mapM_id_some]
    rw [e]; rfl
  have htag : ∀ v ∈ vars, (cur v).tag = v.2.1 := fun v hv => by
    show (getVar fr v.1 v.2.1).tag = v.2.1
    rw [hfr.get v.1 v.2.1 (hw v hv)]; exact typed_getD_tag hr.typed (hw v hv) _
  have href := read_ref W.P p cur vars fuel s htag
  simp only [desugar, sizeStmt]
  generalize hrr : Proc.Ref.exec W.P (fuel + 1) (readSeq p vars) s = r at href ⊢
  obtain ⟨s', o⟩ := r
  cases o with
  | halted => exact href.elim
  | exited => exact href.elim
  | illFormed => exact href.elim
  | inexact => trivial
  | outOfFuel => trivial
  | error c q =>
    simp only at href
    obtain ⟨hout, hq, hcase⟩ := href
    subst hq
    simp only [StmtPost]
    refine ⟨σ3, σ3, pre, ?_, ?_⟩
    · rcases hcase with ⟨hra, hcd⟩ | ⟨e, hra, hcd⟩
      · rw [hread, hra, hcd]; rfl
      · rw [hread, hra, hcd]
    · rw [hout]; exact hr.out
  | normal =>
    simp only at href
    obtain ⟨rs, hra, hlen, htags, henv, hout, hdata, hidx⟩ := href
    rw [hra] at hread
    simp only at hread
    let σ4 : Vm := Vm.advance { σ3 with ctx := .frame (rs.map some) :: .frame fr :: below,
                                        dataIdx := s.dataIdx + vars.length }
    have s4 : Vm.step W.code σ3 = .next σ4 := hread
    -- the return queue
    have hce : CodeAt W.code (σ.pc + 1 + 3 * vars.length + 2) (enqCode 0 vars) := by
      have := hc.append_left.append_left.append_right
      simp only [List.length_append, List.length_singleton, List.length_cons, List.length_nil, len_pushCode] at this
      exact this.at (by omega)
    have st5 := enq_phase W.code vars 0 (σ.pc + 1 + 3 * vars.length + 2) σ4 rs (.frame fr :: below) hce rfl rfl
      (by omega)
    have hq4 : σ4.queue = [] := hr.queue
    have hws : (rs.drop 0).take vars.length = rs := by rw [List.drop_zero, ← hlen, List.take_length]
    rw [hq4, hws, List.nil_append] at st5
    let σ5 : Vm := enqSt σ4 (σ.pc + 1 + 3 * vars.length + 2 + vars.length) rs
    -- PopStack
    have h6 : W.code[σ.pc + 1 + 3 * vars.length + 2 + vars.length]? = some (CInstr.popStack, p) := by
      have := hc.append_left.append_right.head
      simp only [List.length_append, List.length_singleton, List.length_cons, List.length_nil, len_pushCode,
        len_enqCode] at this
      rw [← this]; congr 1; omega
    let σ6 : Vm := Vm.advance { σ5 with ctx := .frame fr :: below, trace := σ.trace }
    have s6 : Vm.step W.code σ5 = .next σ6 := by simp only [Vm.step, σ5, enqSt, h6]; rfl
    -- the copy-back
    have hcd : CodeAt W.code (σ.pc + 1 + 3 * vars.length + 2 + vars.length + 1) (deqCode vars) := by
      have := hc.append_right
      simp only [List.length_append, List.length_singleton, List.length_cons, List.length_nil, len_pushCode,
        len_enqCode] at this
      exact this.at (by omega)
    obtain ⟨a7, st7⟩ := deq_phase W.code vars rs _ σ6 [] fr below hcd rfl
      (by show rs = rs ++ []; rw [List.append_nil]) hlen rfl
    obtain ⟨hfr', hty'⟩ := rel_setAll sc vars rs fr s.env hfr hr.typed hw htags
    simp only [StmtPost]
    refine ⟨_, ((pre.trans (Steps.cons s4 st5)).trans (Steps.one s6)).trans st7, ?_, ?_,
      ⟨rfl, rfl, rfl, rfl, rfl, rfl, id⟩⟩
    · show σ.pc + 1 + 3 * vars.length + 2 + vars.length + 1 + 3 * vars.length = _
      omega
    · refine ⟨hr.coll, ⟨setAllFr fr vars rs, rfl, by rw [henv]; exact hfr'⟩, by rw [henv]; exact hty', ?_, ?_, ?_, rfl,
        hr.funRes⟩
      · show σ.out = s'.out
        rw [hout]; exact hr.out
      · show σ.data = s'.data
        rw [hdata]; exact hr.data
      · show s.dataIdx + vars.length = s'.dataIdx
        rw [hidx]

end RbThm.ProcSim
