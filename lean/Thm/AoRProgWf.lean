import Thm.AoRSimBase
/-!
Layer AoR (arrays of records / of fixed-length strings), simulation part — the static premise `ProgWf` of the program
theorem, on its own so that the program theorem (`Thm/AoRSimProg.lean`) and the soundness of the decidable checker
(`Thm/AoRWf.lean`: `progWfB_sound`) can be built independently of each other.  Port of the definitions at the head of
`Thm/RecLSimProg.lean`; the scope has the array table as its third component.
-/
namespace RbThm.AoRSim
set_option linter.unusedVariables false
open RbModel RbModel.Num RbModel.AoR RbModel.AoR.Compile RbModel.AoR.Vm
open RbModel.Ast (Pos)
open RbModel.RecL (ETy FTy FFields expand zeroOf)

/-- the body of the program: DATA statements may occur only at top level (where the generator hoists them from);
everything else is well formed -/
def WfTop (sc : Scope) : SStmt → Prop
  | .seq a b => WfTop sc a ∧ WfTop sc b
  | .data _ _ => True
  | st => Wf sc st

/-- the tables of a program: record types, declared types of the variables, element types of the arrays -/
def progScope (prog : SProgram) : Scope := ⟨prog.types, prog.slots, prog.arrs⟩

/-- the static premise of the program theorem: the type table is closed and consistent (`Spec.TypesWf`), the body is well
formed (DATA only at top level), no DATA item holds a NUL character -/
def ProgWf (prog : SProgram) : Prop :=
  TypesWf prog.types ∧ WfTop (progScope prog) prog.body ∧ ∀ v ∈ dataOf prog.body, NoNulVal v

/-- induction over the top-level sequence structure of a statement: `seq` nodes, and everything else -/
theorem top_induction {P : SStmt → Prop} (hseq : ∀ a b, P a → P b → P (.seq a b))
    (hatom : ∀ st, (∀ a b, st ≠ .seq a b) → P st) : ∀ st, P st
  | .seq a b => hseq a b (top_induction hseq hatom a) (top_induction hseq hatom b)
  | .skip => hatom _ (by intro a b h; cases h)
  | .comment => hatom _ (by intro a b h; cases h)
  | .dim _ _ _ => hatom _ (by intro a b h; cases h)
  | .dimArr _ _ _ _ => hatom _ (by intro a b h; cases h)
  | .assign _ _ _ _ _ => hatom _ (by intro a b h; cases h)
  | .assignElem _ _ _ _ _ _ => hatom _ (by intro a b h; cases h)
  | .print _ _ => hatom _ (by intro a b h; cases h)
  | .data _ _ => hatom _ (by intro a b h; cases h)
  | .read _ _ => hatom _ (by intro a b h; cases h)
  | .ifBlock _ _ _ _ _ _ => hatom _ (by intro a b h; cases h)
  | .select _ _ _ _ _ => hatom _ (by intro a b h; cases h)
  | .forLoop _ _ _ _ _ _ _ => hatom _ (by intro a b h; cases h)
  | .while _ _ _ => hatom _ (by intro a b h; cases h)
  | .doLoop _ _ _ _ _ => hatom _ (by intro a b h; cases h)
  | .end_ _ => hatom _ (by intro a b h; cases h)

end RbThm.AoRSim
