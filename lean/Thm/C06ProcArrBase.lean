import Thm.C06
import Thm.C06Core
import Thm.C06ArrL
import Thm.ProcArrSim
import Thm.ProcArrProps
/-!
C06 over the combined layer (`RbModel.ProcArr.Ref`: core language + SUB / FUNCTION + arrays of scalars in every ordinary
scope + array elements as by-reference actuals) — definitions and the invariant's helper lemmas.

The premises (`progRangeB`, `WfA`, `ProcsGood`), the invariant (`Good`: activation variables, DIM SHARED store, STATIC
environments, DATA items, every stored cell and the default value of every dimensioned array), entering / leaving a
procedure, and the copy-out lemma `byref_writeback_inrange` (plain variables AND array elements).  The induction over the
mutual block of the reference semantics is in `Thm/C06ProcArrPres.lean`, the theorems in `Thm/C06ProcArr.lean`.
-/
namespace RbThm.C06ProcArr
set_option linter.unusedVariables false
set_option linter.unusedSimpArgs false
open RbModel RbModel.Num RbModel.ProcArr RbModel.ProcArr.Ref
open RbModel.Ast (Pos)
open RbThm.C06
open RbThm.ProcArrSim (EWf IdxWf AWf DimsWf ItemsWf CaseWf CondsWf SelRelOp Typed)
open RbThm.C06ArrL (GoodArr GoodArrs)

/-! ### hypotheses: literals and DATA items are values of their own types (decidable) -/

mutual
/-- every literal of the expression (argument lists of function calls and subscripts included) is in range for its tag -/
def litsE : ProcArr.Expr → Bool
  | .lit v _ => decide v.InRange
  | .var _ _ _ => true
  | .un _ e _ => litsE e
  | .bin _ l r _ _ => litsE l && litsE r
  | .paren e _ => litsE e
  | .callFn _ args _ _ => litsA args
  | .elem _ idx _ _ => litsX idx
def litsX : Exprs → Bool
  | .nil => true
  | .cons e rest => litsE e && litsX rest
def litsA : Args → Bool
  | .nil => true
  | .cons e _ _ rest => litsE e && litsA rest
end

def litsD : Dims → Bool
  | .nil => true
  | .cons lo hi rest => (match lo with | some e => litsE e | none => true) && litsE hi && litsD rest

def litsItem : PrintItem → Bool
  | .expr e => litsE e
  | _ => true

def litsCase : CaseExpr → Bool
  | .simple e => litsE e
  | .is _ e => litsE e
  | .range lo hi => litsE lo && litsE hi

mutual
/-- all literals of a statement of the reference syntax are in range -/
def rangeB : Stmt → Bool
  | .skip => true
  | .seq a b => rangeB a && rangeB b
  | .assign _ _ e _ => litsE e
  | .dimArr _ _ dims _ => litsD dims
  | .assignElem _ _ idx e _ => litsX idx && litsE e
  | .print items _ => items.all litsItem
  | .read _ _ _ => true
  | .ifs c thn els _ => litsE c && rangeB thn && rangeB els
  | .select e cases _ => litsE e && rangeCB cases
  | .forLoop _ _ lo hi step body _ =>
    litsE lo && litsE hi && (match step with | some se => litsE se | none => true) && rangeB body
  | .while c body _ => litsE c && rangeB body
  | .doLoop c _ _ body _ => litsE c && rangeB body
  | .end_ _ => true
  | .callSub _ args _ => litsA args
  | .exitProc _ => true
def rangeCB : Cases → Bool
  | .nil => true
  | .else_ body => rangeB body
  | .case conds body rest => conds.all litsCase && rangeB body && rangeCB rest
end

/-- **the range premise of a whole program** (decidable): every literal of the main module and of every procedure body and
every DATA item is a value in range for its own tag — what the parser produces -/
def progRangeB (P : Program) : Bool :=
  rangeB P.body && P.procs.all (fun d => rangeB d.body) && P.data.all (fun v => decide v.InRange)

/-! ### static well-formedness on the reference syntax -/

/-- the tables a scope with local slot table `sl` and array table `al` resolves its references against -/
def tabs (P : Program) (sl al : List Ty) : SlotTabs := ⟨sl, P.gslots, al, P.procs.map (·.static)⟩

mutual
/-- what the invariant needs of a statement of the reference syntax -/
def WfA (sg : Sigs) (tb : SlotTabs) : Stmt → Prop
  | .skip => True
  | .seq a b => WfA sg tb a ∧ WfA sg tb b
  | .assign x t e _ => tb.get? x = some t ∧ EWf sg tb e
  | .dimArr a t dims _ => tb.arrs[a]? = some t ∧ DimsWf sg tb dims
  | .assignElem a t idx e _ => tb.arrs[a]? = some t ∧ IdxWf sg tb idx ∧ EWf sg tb e
  | .print items _ => ItemsWf sg tb items
  | .read x t _ => tb.get? x = some t
  | .ifs c thn els _ => EWf sg tb c ∧ WfA sg tb thn ∧ WfA sg tb els
  | .select e cases _ => EWf sg tb e ∧ WfAC sg tb cases
  | .forLoop x t lo hi step body _ =>
    tb.get? x = some t ∧ EWf sg tb lo ∧ EWf sg tb hi ∧ (∀ se, step = some se → EWf sg tb se) ∧ WfA sg tb body
  | .while c body _ => EWf sg tb c ∧ WfA sg tb body
  | .doLoop c _ _ body _ => EWf sg tb c ∧ WfA sg tb body
  | .end_ _ => True
  | .callSub f args _ => sg[f]? = some (none, args.params) ∧ AWf sg tb (tb.stat.getD f false) args
  | .exitProc _ => True
def WfAC (sg : Sigs) (tb : SlotTabs) : Cases → Prop
  | .nil => True
  | .else_ body => WfA sg tb body
  | .case conds body rest => CondsWf sg tb conds ∧ WfA sg tb body ∧ WfAC sg tb rest
end

/-- the parameter types (and the result type of a FUNCTION) are the first entries of the slot table -/
def SlotsOkG {β : Type} (d : ProcDecl β) : Prop :=
  (∀ (i : Nat) (pn : String) (pt : Ty), d.params[i]? = some (pn, pt) → d.slots[i]? = some pt) ∧
  (∀ rt : Ty, d.result = some rt → d.slots[d.params.length]? = some rt)

/-- the procedures of the reference program are well formed and have in-range literals -/
structure ProcsGood (P : Program) (sg : Sigs) : Prop where
  sgEq : sg = sigsOf P.procs
  procs : ∀ (f : Nat) (d : ProcDecl Stmt), P.procs[f]? = some d →
    SlotsOkG d ∧ WfA sg (tabs P d.slots d.arrs) d.body ∧ rangeB d.body = true

/-! ### the invariant -/

/-- an environment over a slot table: every slot holds a value of its declared type (`Typed`), every value is in
range for its tag -/
def GoodEnv (sl : List Ty) (env : List Val) : Prop := Typed sl env ∧ ∀ v ∈ env, v.InRange

/-- `sl` / `al` are the slot table and the array table of a scope of the program: the main module or a procedure -/
def ScopeOf (P : Program) (sl al : List Ty) : Prop :=
  (sl = P.slots ∧ al = P.arrs) ∨ ∃ (f : Nat) (d : ProcDecl Stmt), P.procs[f]? = some d ∧ sl = d.slots ∧ al = d.arrs

/-- **the invariant**, for a state inside an activation of the scope with local slot table `sl` and array table `al`: the
variables of the current activation, the DIM SHARED variables and the persistent environment of every procedure hold values
of their declared types within those types' ranges; every dimensioned array of the activation has its declared element
type, every cell stored in it holds a value of that type within its range and so does its default value (what every
other element reads as) (`C06ArrL.GoodArr`); and the DATA items are in range -/
structure Good (P : Program) (sl al : List Ty) (s : St) : Prop where
  scope : ScopeOf P sl al
  /-- the current activation (its own environment, or the persistent one of the STATIC procedure it belongs to) -/
  loc : GoodEnv sl s.locals
  glob : GoodEnv P.gslots s.glob
  stat : ∀ f d, P.procs[f]? = some d → GoodEnv d.slots (s.statics f)
  selfOk : ∀ f, s.self = some f → ∃ d, P.procs[f]? = some d ∧ sl = d.slots
  /-- the arrays of the current activation -/
  arrs : GoodArrs al s.arrs
  data : ∀ v ∈ s.data, v.InRange

/-- the invariant for whatever scope the state's activation belongs to -/
def GoodSome (P : Program) (s : St) : Prop := ∃ sl al, Good P sl al s

theorem Good.anyScope {P : Program} {sl al : List Ty} {s : St} (h : Good P sl al s) : GoodSome P s := ⟨sl, al, h⟩

/-- after an evaluation: a value comes with a state of the same activation satisfying the invariant and `Q`; an abrupt
end comes with a state satisfying the invariant for its own activation -/
def PostE {α : Type} (P : Program) (sl al : List Ty) (Q : α → Prop) : St × Except Outcome α → Prop
  | (s', .ok v) => Good P sl al s' ∧ Q v
  | (s', .error o) => GoodSome P s' ∧ returns o = false

/-- after a statement: `normal` / `exited` come with a state of the same activation -/
def PostO (P : Program) (sl al : List Ty) : St × Outcome → Prop
  | (s', .normal) => Good P sl al s'
  | (s', .exited) => Good P sl al s'
  | (s', _) => GoodSome P s'

theorem PostO.of_good {P : Program} {sl al : List Ty} {s' : St} (h : Good P sl al s') (o : Outcome) :
    PostO P sl al (s', o) := by
  cases o <;> first | exact h | exact h.anyScope

theorem PostO.any {P : Program} {sl al : List Ty} {s' : St} {o : Outcome} (h : PostO P sl al (s', o)) :
    GoodSome P s' := by
  cases o <;> first | exact h | exact Good.anyScope h

theorem PostO.of_some {P : Program} {sl al : List Ty} {s' : St} {o : Outcome} (h : GoodSome P s')
    (ho : returns o = false) : PostO P sl al (s', o) := by
  cases o <;> first | exact h | (simp [returns] at ho)

theorem PostE.any {α : Type} {P : Program} {sl al : List Ty} {Q : α → Prop} {s' : St} {r : Except Outcome α}
    (h : PostE P sl al Q (s', r)) : GoodSome P s' := by
  cases r with
  | ok v => exact h.1.anyScope
  | error o => exact h.1

theorem PostE.mono {α : Type} {P : Program} {sl al : List Ty} {Q Q' : α → Prop} {r : St × Except Outcome α}
    (hq : ∀ v, Q v → Q' v) (h : PostE P sl al Q r) : PostE P sl al Q' r := by
  obtain ⟨s', r'⟩ := r
  cases r' with
  | ok v => exact ⟨h.1, hq v h.2⟩
  | error o => exact h

/-! ### helper lemmas -/

theorem zeroOf_inRange (t : Ty) : (zeroOf t).InRange := by cases t <;> decide +kernel

theorem zeroOf_tag (t : Ty) : (zeroOf t).tag = t := by cases t <;> rfl

theorem goodEnv_zero (sl : List Ty) : GoodEnv sl (sl.map zeroOf) := by
  refine ⟨RbThm.ProcArrSim.typed_init sl, ?_⟩
  intro v hv
  simp only [List.mem_map] at hv
  obtain ⟨t, _, rfl⟩ := hv
  exact zeroOf_inRange t

theorem GoodEnv.getD {sl : List Ty} {env : List Val} (h : GoodEnv sl env) {x : Nat} {t : Ty} (hx : sl[x]? = some t)
    (d : Val) : (env.getD x d).tag = t ∧ (env.getD x d).InRange := by
  obtain ⟨v, hv, ht⟩ := h.1.2 x t hx
  simp only [List.getD, hv, Option.getD_some]
  exact ⟨ht, h.2 v (List.mem_of_getElem? hv)⟩

theorem GoodEnv.set {sl : List Ty} {env : List Val} (h : GoodEnv sl env) {x : Nat} {t : Ty} {v : Val}
    (hx : sl[x]? = some t) (ht : v.tag = t) (hr : v.InRange) : GoodEnv sl (env.set x v) :=
  ⟨RbThm.C01Sim.SimRead.typed_set h.1 hx ht, RbThm.C06Core.set_inRange h.2 x hr⟩

/-- a declaration seen as one with a faithful-syntax body (the lemmas of `Thm/ProcArrSimCall.lean` about `freshEnv` /
`rebind` are stated for those; they use the slot table and the parameters only) -/
def asS (d : ProcDecl Stmt) : ProcDecl SStmt := { d with body := SStmt.skip }

theorem slotsOk_asS {d : ProcDecl Stmt} (h : SlotsOkG d) : RbThm.ProcArrSim.SlotsOk (asS d) := h

/-- the activation environment of an ordinary procedure: the (converted, in-range) arguments, zero elsewhere -/
theorem goodEnv_fresh (d : ProcDecl Stmt) (vals : List Val) (hs : SlotsOkG d)
    (htags : vals.map Val.tag = d.params.map (·.2)) (hr : ∀ v ∈ vals, v.InRange) :
    GoodEnv d.slots (freshEnv d.slots vals) := by
  refine ⟨RbThm.ProcArrSim.typed_fresh (asS d) vals (slotsOk_asS hs) htags, ?_⟩
  intro v hv
  simp only [freshEnv, List.mem_append, List.mem_map] at hv
  rcases hv with hv | ⟨t, _, rfl⟩
  · exact hr v hv
  · exact zeroOf_inRange t

/-- the persistent environment of a STATIC procedure with the parameters rebound -/
theorem goodEnv_rebind (d : ProcDecl Stmt) (old vals : List Val) (hs : SlotsOkG d)
    (htags : vals.map Val.tag = d.params.map (·.2)) (hr : ∀ v ∈ vals, v.InRange) (hold : GoodEnv d.slots old) :
    GoodEnv d.slots (rebind old vals) := by
  refine ⟨RbThm.ProcArrSim.typed_rebind (asS d) old vals (slotsOk_asS hs) htags hold.1, ?_⟩
  intro v hv
  simp only [rebind, List.mem_append] at hv
  rcases hv with hv | hv
  · exact hr v hv
  · exact hold.2 v (List.mem_of_mem_drop hv)

theorem locals_none {s : St} (h : s.self = none) : s.locals = s.env := by
  simp only [St.locals, h]

theorem locals_some {s : St} {f : Nat} (h : s.self = some f) : s.locals = s.statics f := by
  simp only [St.locals, h]

/-- only the printer / the READ cursor changed -/
theorem Good.congr {P : Program} {sl al : List Ty} {s s' : St} (h : Good P sl al s) (he : s'.env = s.env)
    (hs : s'.self = s.self) (hg : s'.glob = s.glob) (hst : s'.statics = s.statics) (ha : s'.arrs = s.arrs)
    (hd : s'.data = s.data) : Good P sl al s' := by
  have hl : s'.locals = s.locals := by unfold St.locals; rw [hs, he, hst]
  exact ⟨h.scope, hl ▸ h.loc, hg ▸ h.glob, hst ▸ h.stat, hs ▸ h.selfOk, ha ▸ h.arrs, hd ▸ h.data⟩

/-- reading a variable -/
theorem Good.get {P : Program} {sl al : List Ty} {s : St} (h : Good P sl al s) {x : Var} {t : Ty}
    (hx : (tabs P sl al).get? x = some t) : (s.get x t).tag = t ∧ (s.get x t).InRange := by
  unfold St.get
  unfold SlotTabs.get? at hx
  cases hsh : x.shared with
  | true => simp only [hsh, if_true, tabs] at hx ⊢; exact h.glob.getD hx _
  | false => simp only [hsh, Bool.false_eq_true, if_false, tabs] at hx ⊢; exact h.loc.getD hx _

/-- **a store keeps the invariant**: a value of the variable's declared type, in range, into a declared variable (own
scope — the activation environment or the STATIC procedure's persistent one — or DIM SHARED) -/
theorem Good.set {P : Program} {sl al : List Ty} {s : St} (h : Good P sl al s) {x : Var} {t : Ty} {v : Val}
    (hx : (tabs P sl al).get? x = some t) (ht : v.tag = t) (hr : v.InRange) : Good P sl al (s.set x v) := by
  unfold St.set
  unfold SlotTabs.get? at hx
  cases hsh : x.shared with
  | true =>
    simp only [hsh, if_true, tabs] at hx ⊢
    exact ⟨h.scope, h.loc, h.glob.set hx ht hr, h.stat, h.selfOk, h.arrs, h.data⟩
  | false =>
    simp only [hsh, Bool.false_eq_true, if_false, tabs] at hx ⊢
    obtain ⟨scope, loc, glob, stat, selfOk, harrs, data⟩ := h
    obtain ⟨env, self, gl, statics, arrs, out, dat, idx⟩ := s
    cases self with
    | none =>
      refine ⟨scope, ?_, glob, stat, ?_, harrs, data⟩
      · show GoodEnv sl (env.set x.slot v)
        exact GoodEnv.set loc hx ht hr
      · intro f hf; cases hf
    | some f =>
      obtain ⟨d, hd, hsl⟩ := selfOk f rfl
      have hl : GoodEnv sl ((statics f).set x.slot v) := GoodEnv.set loc hx ht hr
      refine ⟨scope, ?_, glob, ?_, selfOk, harrs, data⟩
      · show GoodEnv sl (if f = f then (statics f).set x.slot v else statics f)
        rw [if_pos rfl]; exact hl
      · intro g d' hd'
        show GoodEnv d'.slots (if g = f then (statics f).set x.slot v else statics g)
        by_cases hgf : g = f
        · subst hgf
          rw [if_pos rfl]
          have : d' = d := by
            have h1 : P.procs[g]? = some d := hd
            rw [h1] at hd'; injection hd' with hd'; exact hd'.symm
          subst this
          rw [← hsl]
          exact hl
        · rw [if_neg hgf]; exact stat g d' hd'

/-- `DIM a(…)` / `REDIM`: a good array into a declared array slot -/
theorem Good.setArr {P : Program} {sl al : List Ty} {s : St} (h : Good P sl al s) {a : Nat} {t : Ty} {A : RArr}
    (ha : al[a]? = some t) (hA : GoodArr t A) : Good P sl al (s.setArr a A) :=
  ⟨h.scope, h.loc, h.glob, h.stat, h.selfOk, h.arrs.set ha hA, h.data⟩

/-- **a store into an array element keeps the invariant**: a value of the element type, in range, into any index tuple of
a declared array (nothing happens when the array is not dimensioned) -/
theorem Good.setElem {P : Program} {sl al : List Ty} {s : St} (h : Good P sl al s) {a : Nat} {t : Ty} {v : Val}
    (ha : al[a]? = some t) (is : List Int) (ht : v.tag = t) (hr : v.InRange) : Good P sl al (s.setElem a is v) := by
  unfold St.setElem
  split
  · next A hA => exact h.setArr ha ((h.arrs.2 a t A ha hA).set is ht hr)
  · exact h

/-- what the invariant says about an element read -/
theorem Good.readElem {P : Program} {sl al : List Ty} {s : St} (h : Good P sl al s) {a : Nat} {t : Ty}
    (ha : al[a]? = some t) (is : List Int) (p : Pos) (v : Val) (hr : s.readElem a is p = .ok v) :
    v.tag = t ∧ v.InRange := by
  unfold St.readElem at hr
  split at hr
  · next A hA =>
    split at hr
    · injection hr with hr; subst hr
      exact (h.arrs.2 a t A ha hA).get is
    · cases hr
  · cases hr

/-! ### DIM -/

/-- the bounds converted to INTEGER are INTEGERs -/
theorem convDims_good (p : Pos) : ∀ (vals : List (Val × Val)) (bounds : List (Int × Int)),
    (∀ b ∈ vals, b.1.InRange ∧ b.2.InRange) → convDims p vals = .ok bounds →
    ∀ b ∈ bounds, inIntRange b.1 = true ∧ inIntRange b.2 = true
  | [], bounds, _, h => by
    simp only [convDims] at h
    injection h with h; subst h
    intro b hb; cases hb
  | (l, hv) :: rest, bounds, hr, h => by
    have hm := hr (l, hv) (List.mem_cons_self ..)
    simp only [convDims] at h
    split at h
    · cases h
    · cases h
    · next lo hlo =>
      split at h
      · cases h
      · cases h
      · next hi hhi =>
        split at h
        · next ds hds =>
          injection h with h; subst h
          have h1 := (cast_sound l .int (.int lo) hm.1 hlo).2
          have h2 := (cast_sound hv .int (.int hi) hm.2 hhi).2
          intro b hb
          rcases List.mem_cons.mp hb with rfl | hb
          · exact ⟨h1, h2⟩
          · exact convDims_good p rest ds (fun b hb => hr b (List.mem_cons_of_mem _ hb)) hds b hb
        · cases h
      · cases h
    · cases h

/-- `DIM a(…)` / `REDIM a(…)`: the new array is good (no stored cell, default zero of the element type, INTEGER bounds) -/
theorem dimArray_good (t : Ty) (bs : List (Val × Val)) (p : Pos) (A : RArr)
    (hbs : ∀ b ∈ bs, b.1.InRange ∧ b.2.InRange) (h : dimArray t bs p = .ok A) : GoodArr t A := by
  unfold dimArray at h
  split at h
  · cases h
  · next bounds hb =>
    split at h
    · cases h
    · split at h
      · cases h
      · injection h with h; subst h
        exact RbThm.C06ArrL.goodArr_new t bounds (convDims_good p bs bounds hbs hb)

/-! ### entering and leaving a procedure -/

theorem postE_liftR {P : Program} {sl al : List Ty} {Q : Val → Prop} {s : St} (hg : Good P sl al s) (p : Pos)
    (r : Res Val) (hq : ∀ v, r = .ok v → Q v) : PostE P sl al Q (liftR s p r) := by
  cases r with
  | ok v => exact ⟨hg, hq v rfl⟩
  | err e => exact ⟨hg.anyScope, rfl⟩
  | inexact => exact ⟨hg.anyScope, rfl⟩

theorem goodArrs_none (al : List Ty) : GoodArrs al (al.map fun _ => none) := by
  refine ⟨by simp, ?_⟩
  intro a t A _ hA
  simp only [List.getElem?_map] at hA
  cases h : al[a]? with
  | none => rw [h] at hA; cases hA
  | some u => rw [h] at hA; cases hA

/-- **binding the parameters keeps the invariant**: the callee's activation starts with every slot of its table typed and in
range — the parameters because the argument values are, the other slots because they are zero (ordinary procedure) or
as the previous activation left them (STATIC procedure; the result variable of a STATIC FUNCTION is reset to zero) — and
with none of its arrays dimensioned -/
theorem good_enter {P : Program} {sg : Sigs} (hP : ProcsGood P sg) {sl al : List Ty} {s1 : St} (hg : Good P sl al s1)
    {f : Nat} {d : ProcDecl Stmt} (hd : P.procs[f]? = some d) (vals : List Val)
    (htags : vals.map Val.tag = d.params.map (·.2)) (hr : ∀ v ∈ vals, v.InRange) :
    Good P d.slots d.arrs (enter d f vals s1) := by
  obtain ⟨hso, _, _⟩ := hP.procs f d hd
  have hcore : Good P d.slots d.arrs (enterCore d f vals s1) := by
    unfold enterCore
    cases hst : d.static with
    | false =>
      simp only [Bool.false_eq_true, if_false]
      refine ⟨.inr ⟨f, d, hd, rfl, rfl⟩, ?_, hg.glob, hg.stat, ?_, goodArrs_none d.arrs, hg.data⟩
      · show GoodEnv d.slots (freshEnv d.slots vals)
        exact goodEnv_fresh d vals hso htags hr
      · intro g hg'; cases hg'
    | true =>
      simp only [if_true]
      have hl : GoodEnv d.slots (rebind (s1.statics f) vals) :=
        goodEnv_rebind d _ vals hso htags hr (hg.stat f d hd)
      refine ⟨.inr ⟨f, d, hd, rfl, rfl⟩, ?_, hg.glob, ?_, ?_, goodArrs_none d.arrs, hg.data⟩
      · show GoodEnv d.slots (if f = f then rebind (s1.statics f) vals else s1.statics f)
        rw [if_pos rfl]; exact hl
      · intro g d' hd'
        show GoodEnv d'.slots (if g = f then rebind (s1.statics f) vals else s1.statics g)
        by_cases hgf : g = f
        · subst hgf
          rw [if_pos rfl]
          have : d' = d := by rw [hd] at hd'; injection hd' with hd'; exact hd'.symm
          subst this
          exact hl
        · rw [if_neg hgf]; exact hg.stat g d' hd'
      · intro g hg'
        have : g = f := by injection hg' with hg'; exact hg'.symm
        subst this
        exact ⟨d, hd, rfl⟩
  unfold enter
  cases hst : d.static with
  | false => exact hcore
  | true =>
    cases hres : d.result with
    | none => exact hcore
    | some rt =>
      simp only
      refine hcore.set ?_ (zeroOf_tag rt) (zeroOf_inRange rt)
      simp only [SlotTabs.get?, tabs, Bool.false_eq_true, if_false, ProcDecl.resultSlot]
      exact hso.2 rt hres

/-- back in the caller's activation after a call that returned: the caller's own environment and arrays are as they were,
the DIM SHARED variables and the persistent environments are as the callee left them -/
theorem good_return {P : Program} {sl al dsl dal : List Ty} {s1 s2 : St} (h1 : Good P sl al s1)
    (h2 : Good P dsl dal s2) : Good P sl al { s2 with env := s1.env, self := s1.self, arrs := s1.arrs } := by
  refine ⟨h1.scope, ?_, h2.glob, h2.stat, h1.selfOk, h1.arrs, h2.data⟩
  cases hself : s1.self with
  | none =>
    have hl := h1.loc
    rw [locals_none hself] at hl
    exact hl
  | some g =>
    obtain ⟨d, hd, hsl⟩ := h1.selfOk g hself
    rw [hsl]
    exact h2.stat g d hd

/-- the location an evaluated element actual carries is a location in the array the actual names -/
def LocA : ProcArr.Expr → Option Loc → Prop
  | .elem a _ _ _, some l => l.1 = a
  | _, _ => True

def LocsA : Args → List (Val × Option Loc) → Prop
  | .cons e _ _ rest, av :: avs => LocA e av.2 ∧ LocsA rest avs
  | _, _ => True

/-- one copy-out keeps the invariant -/
theorem good_writeOne {P : Program} {sg : Sigs} {sl al : List Ty} {s : St} (hg : Good P sl al s) (e : ProcArr.Expr)
    (ol : Option Loc) (v : Val) (hwe : EWf sg (tabs P sl al) e) (hl : LocA e ol)
    (hv : e.isRef = true → v.tag = e.ty ∧ v.InRange) : Good P sl al (writeOne e ol v s) := by
  cases e with
  | var x t p =>
    simp only [writeOne]
    simp only [EWf] at hwe
    obtain ⟨ht, hr⟩ := hv rfl
    exact hg.set hwe ht hr
  | elem a idx t p =>
    cases ol with
    | none => simp only [writeOne]; exact hg
    | some l =>
      obtain ⟨a', is⟩ := l
      simp only [writeOne]
      simp only [EWf] at hwe
      simp only [LocA] at hl
      subst hl
      obtain ⟨ht, hr⟩ := hv rfl
      exact hg.setElem hwe.1 is ht hr
  | lit v p => simp only [writeOne]; exact hg
  | un op e p => simp only [writeOne]; exact hg
  | bin op l r t p => simp only [writeOne]; exact hg
  | paren e p => simp only [writeOne]; exact hg
  | callFn f a t p => simp only [writeOne]; exact hg

/-- **`byref_writeback_inrange`** — copy-out keeps the caller's variables AND ARRAY ELEMENTS typed and in range: every
by-reference actual — a plain variable of the parameter's type, or an array element `a(…)` whose element type is the
parameter's type — receives the final value of its parameter, which is a value of the parameter's type within its range
because the callee's environment satisfies the invariant; an element actual receives it at the location `(a, is)` the
subscripts denoted when the argument was evaluated.  `i` = index of the first argument of `args` in the whole list;
`dsl` = the callee's slot table, `callee` = its variables when it returned, `avs` = the evaluated arguments. -/
theorem byref_writeback_inrange {P : Program} {sg : Sigs} {sl al dsl : List Ty} {callee : List Val} {cs : Bool}
    (hc : GoodEnv dsl callee) : ∀ (args : Args) (avs : List (Val × Option Loc)) (i : Nat) (s : St), Good P sl al s →
    AWf sg (tabs P sl al) cs args → LocsA args avs →
    (∀ (j : Nat) (pn : String) (pt : Ty), args.params[j]? = some (pn, pt) → dsl[i + j]? = some pt) →
    Good P sl al (writeBack args avs i callee s)
  | .nil, _, _, s, hg, _, _, _ => by simp only [writeBack]; exact hg
  | .cons e pn pt rest, [], _, s, hg, _, _, _ => by simp only [writeBack]; exact hg
  | .cons e pn pt rest, av :: avs, i, s, hg, hw, hla, hp => by
    simp only [AWf] at hw
    obtain ⟨hwe, href, _, hwr⟩ := hw
    simp only [LocsA] at hla
    have hp' : ∀ (j : Nat) (pn' : String) (pt' : Ty), rest.params[j]? = some (pn', pt') → dsl[i + 1 + j]? = some pt' := by
      intro j pn' pt' hj
      have := hp (j + 1) pn' pt' (by simpa only [Args.params, List.getElem?_cons_succ] using hj)
      rw [← this]; congr 1; omega
    have h0 : dsl[i]? = some pt := by
      have := hp 0 pn pt (by simp only [Args.params, List.getElem?_cons_zero])
      simpa using this
    simp only [writeBack]
    refine byref_writeback_inrange hc rest avs (i + 1) _ (good_writeOne (sg := sg) hg e av.2 _ hwe hla.1 ?_) hwr hla.2 hp'
    intro hr
    obtain ⟨ht, hrr⟩ := hc.getD h0 (zeroOf e.ty)
    exact ⟨by rw [ht, href hr], hrr⟩

end RbThm.C06ProcArr
