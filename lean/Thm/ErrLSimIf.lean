import Thm.ErrLSimCond
/-!
Error layer, simulation part: `IF … [ELSEIF …]* [ELSE …] END IF` (port of `Thm/JmpLSimIf.lean`).

The ELSEIF chain is desugared into nested `ifs` nodes; every node applies the jump-handling rule and every node's condition
is a **resume unit** (`cond_unit` of `Thm/ErrLSimCond.lean`): RESUME runs the node again from its condition (`again`: the node
is re-entered in run mode at the condition's first instruction — for an ELSEIF arm that is *behind* the arm's label, hence
`EntryC`), RESUME NEXT enters the node's block (`marks_if` / `marks_elif`: the entry that follows the condition unit is the
block's first instruction).

A block of the IF (THEN, ELSEIF) is followed in the statement-address table by its own `Jump end-if`, so its two normal
exits coincide; the ELSE block is followed by **what follows the IF** (`nx`): a RESUME NEXT after its last unit skips the
`end-if` label.  All specifications are stated at the end address `fin` of the whole IF and the IF's `nx`.
-/
namespace RbThm.ErrLSim
set_option linter.unusedVariables false
set_option linter.unusedSimpArgs false
open RbModel RbModel.Num RbModel.ErrL RbModel.ErrL.Compile RbModel.ErrL.Vm
open RbModel.JmpL.Compile (CInstr Code labelName compileExpr compileExprTo storeVar loadVar compileItems compileConds
  sizeCaseExpr sizeItems sizeConds Dp lookupNat lookupDepth stepSuffix maxPos)
open RbModel.JmpL.Vm (Vm truncTop)
open RbModel.Ast (Pos PrintItem CaseExpr)
open RbModel.Ref (St)
open RbModel.ErrL.Ref
open RbThm.ErrLLen
open RbThm.C01Sim (Typed SlotsBelow ExprWt NumericAt NumericCond ItemsSlots CaseSlots CondsSlots)

/-! ### small tools -/

theorem if_lift_append (a b : Code) : lift (a ++ b) = lift a ++ lift b := by simp [lift]

theorem if_codeAt_addr {code : ECode} {off off' : Nat} {frag : ECode} (h : CodeAt code off frag) (e : off = off') :
    CodeAt code off' frag := e ▸ h

theorem if_lift_head {code : ECode} {off : Nat} {x : CInstr × Pos} {rest : Code} (h : CodeAt code off (lift (x :: rest))) :
    code[off]? = some (EInstr.base x.1, x.2) := by
  have := h.lift_get (i := 0) (ip := x) rfl
  simpa using this

theorem if_step_jump {P : Prog} (hP : ProgOk P) {x : EVm} {t : Nat} {p : Pos}
    (h : P.code[x.b.pc]? = some (EInstr.base (CInstr.jump t), p)) :
    step P x = .next { x with b := { x.b with pc := t } } := by
  rw [step_base hP h (by simp)]
  simp only [JmpL.Vm.step, base_get hP h]

theorem if_step_label {P : Prog} (hP : ProgOk P) {x : EVm} {name : String} {p : Pos}
    (h : P.code[x.b.pc]? = some (EInstr.base (CInstr.label name), p)) :
    step P x = .next { x with b := JmpL.Vm.advance x.b } := by
  rw [step_base hP h (by simp)]
  simp only [JmpL.Vm.step, base_get hP h]

theorem if_hasLabel_ifs (c : Ast.Expr) (a b : Stmt) (p : Pos) (L : Nat) :
    (Stmt.ifs c a b p).hasLabel L = (a.hasLabel L || b.hasLabel L) := by
  simp [Stmt.hasLabel, Stmt.labels]

/-- how a node of the lean syntax is entered: at address `a`, or in seek mode at a label inside it -/
def EntryS (env : LEnv) (a : Nat) (N : Stmt) : Mode → EVm → Prop
  | .run, σ => σ.b.pc = a
  | .seek L, σ => N.hasLabel L = true ∧ σ.b.pc = env.addr L

/-- how an ELSEIF chain placed at `off` is entered: at the label of its first arm (or, for the empty chain, at the ELSE part /
the `end-if` label), behind that label (where RESUME re-enters the arm: the condition's first instruction), or in seek mode -/
def EntryC (env : LEnv) (off : Nat) (el : ElseIfs) (N : Stmt) : Mode → EVm → Prop
  | .run, σ => σ.b.pc = off ∨ ((∃ c b r, el = .cons c b r) ∧ σ.b.pc = off + 1)
  | .seek L, σ => N.hasLabel L = true ∧ σ.b.pc = env.addr L

theorem EntryC.of_entryS {env : LEnv} {off : Nat} {el : ElseIfs} {N : Stmt} {m : Mode} {σ : EVm}
    (h : EntryS env off N m σ) : EntryC env off el N m σ := by
  cases m with
  | run => exact .inl h
  | seek L => exact h

/-- a normal end at `bodyFin`, where `Jump endOff` sits (and which is the entry that follows the block), and `endOff` holds
the `end-if` label: the run goes on to `fin` -/
theorem if_body_to_fin {C : Ctx} (hC : C.Ok) {d e vb bodyFin endOff fin nx : Nat} {σ : EVm} {p : Pos} {name : String}
    {r : ESt × Outcome} (h : StmtSpec C d e vb bodyFin bodyFin σ r)
    (hj : C.prog.code[bodyFin]? = some (EInstr.base (CInstr.jump endOff), p))
    (hl : C.prog.code[endOff]? = some (EInstr.base (CInstr.label name), p)) (hfin : fin = endOff + 1) :
    StmtSpec C d e vb fin nx σ r := by
  obtain ⟨s', o⟩ := r
  cases o with
  | normal =>
    obtain ⟨τ, st, hp, hrel, a1, a2, a3, a4, a5⟩ := h
    have hp' : τ.b.pc = bodyFin := by
      rcases hp with h | h
      · exact h
      · exact h.1
    have s1 : step C.prog τ = .next { τ with b := { τ.b with pc := endOff } } :=
      if_step_jump hC.pok (by rw [hp']; exact hj)
    have s2 : step C.prog { τ with b := { τ.b with pc := endOff } } =
        .next { τ with b := { τ.b with pc := endOff + 1 } } := if_step_label hC.pok hl
    exact ⟨_, st.trans (Steps.cons s1 (Steps.one s2)), .inl (by rw [hfin]), hrel.same (hrel.base.setPc _), a1, a2, a3, a4, a5⟩
  | halted => exact h
  | jump L => exact h
  | ret q => exact h
  | resumed k => exact h
  | error c q => exact h
  | inexact => trivial
  | outOfFuel => trivial
  | illFormed => trivial
  | unspec => trivial
  | notHere => trivial

/-- a normal end at `endOff`, which holds the `end-if` label (the other normal exit, at `nx`, is behind the label already) -/
theorem if_then_label {C : Ctx} (hC : C.Ok) {d e vb endOff fin nx : Nat} {σ : EVm} {p : Pos} {name : String}
    {r : ESt × Outcome} (h : StmtSpec C d e vb endOff nx σ r)
    (hl : C.prog.code[endOff]? = some (EInstr.base (CInstr.label name), p)) (hfin : fin = endOff + 1) :
    StmtSpec C d e vb fin nx σ r := by
  obtain ⟨s', o⟩ := r
  cases o with
  | normal =>
    obtain ⟨τ, st, hp, hrel, a1, a2, a3, a4, a5⟩ := h
    rcases hp with hp | hp
    · have s2 : step C.prog τ = .next { τ with b := JmpL.Vm.advance τ.b } := if_step_label hC.pok (by rw [hp]; exact hl)
      exact ⟨_, st.trans (Steps.one s2), .inl (by rw [hfin]; show τ.b.pc + 1 = _; rw [hp]), hrel.same hrel.base.advance,
        a1, a2, a3, a4, a5⟩
    · exact ⟨τ, st, .inr hp, hrel, a1, a2, a3, a4, a5⟩
  | halted => exact h
  | jump L => exact h
  | ret q => exact h
  | resumed k => exact h
  | error c q => exact h
  | inexact => trivial
  | outOfFuel => trivial
  | illFormed => trivial
  | unspec => trivial
  | notHere => trivial

/-- the labels of an ELSEIF chain with its ELSE part -/
theorem if_chain_hasLabel {sl : List Ty} {dp : Dp} {rl : Bool} {d e : Nat} {el : ElseIfs} {els : SStmt}
    (hwe : WfElifs sl dp rl d e el) (hwels : Wf sl dp rl d e els) (p : Pos) (L : Nat) :
    (desugarElifs el (desugar els) p).hasLabel L = true ↔ L ∈ el.labels ∨ L ∈ els.labels := by
  simp only [Stmt.hasLabel, labels_desugarElifs sl dp rl el d e hwe, labels_desugar sl dp rl els d e hwels,
    List.contains_eq_mem, List.mem_append, decide_eq_true_eq]

/-- the label of a jump that leaves an ELSEIF chain (with its ELSE part) is not deeper than the IF: a non-empty chain is the
desugaring of an IF statement of its own -/
theorem if_chain_depths {C : Ctx} (hC : C.Ok) {d e : Nat} {el : ElseIfs} {hasElse : Bool} {els : SStmt} {p : Pos}
    (hwe : WfElifs C.sl C.env.dp C.rl d e el) (hwels : Wf C.sl C.env.dp C.rl d e els) (hne : hasElse = false → els = .skip)
    (hde : ∀ L d' e', (L, d', e') ∈ depthElifs d e el → C.env.dp.fd L = d' ∧ C.env.dp.sd L = e')
    (hdl : ∀ L d' e', (L, d', e') ∈ depthTable d e els → C.env.dp.fd L = d' ∧ C.env.dp.sd L = e')
    {fuel gd : Nat} {m : Mode} {s s' : ESt} {L : Nat}
    (h : exec fuel C.P gd (desugarElifs el (desugar els) p) m s = (s', .jump L)) :
    C.env.dp.fd L ≤ d ∧ C.env.dp.sd L ≤ e := by
  cases el with
  | nil =>
    simp only [desugarElifs] at h
    exact (hC.shape els d e fuel gd m s s' L hwels hdl h).2
  | cons c body rest =>
    have hw : Wf C.sl C.env.dp C.rl d e (SStmt.ifBlock c body rest hasElse els p) := by
      obtain ⟨h1, h2, h3, h4⟩ := hwe
      simp only [Wf]
      exact ⟨h1, h2, h3, h4, hwels, hne⟩
    have hd : ∀ L d' e', (L, d', e') ∈ depthTable d e (SStmt.ifBlock c body rest hasElse els p) →
        C.env.dp.fd L = d' ∧ C.env.dp.sd L = e' := by
      intro L d' e' hm
      simp only [depthTable, List.mem_append] at hm
      rcases hm with (hm | hm) | hm
      · exact hde L d' e' (by simp only [depthElifs, List.mem_append]; exact .inl hm)
      · exact hde L d' e' (by simp only [depthElifs, List.mem_append]; exact .inr hm)
      · exact hdl L d' e' hm
    have hx : exec fuel C.P gd (desugar (SStmt.ifBlock c body rest hasElse els p)) m s = (s', .jump L) := by
      simpa only [desugar, desugarElifs] using h
    exact (hC.shape _ d e fuel gd m s s' L hw hd hx).2

/-- the jump-handling rule of a node of the lean syntax, given what a re-entry of the node does -/
theorem if_catch_with {C : Ctx} {d e vb gd fin nx : Nat} {σ : EVm} (N : Stmt) (f : Nat) (r1 : ESt × Outcome)
    (hi : Inv C d e vb gd σ) (h1 : StmtSpec C d e vb fin nx σ r1)
    (hdep : ∀ s' L, r1 = (s', .jump L) → C.env.dp.fd L ≤ d ∧ C.env.dp.sd L ≤ e)
    (hge : ∀ L, N.hasLabel L = true → d ≤ C.env.dp.fd L ∧ e ≤ C.env.dp.sd L)
    (hself : ∀ (L : Nat) (τ : EVm) (s0 : ESt), N.hasLabel L = true → τ.b.pc = C.env.addr L →
      ERel C.sl C.env s0 τ → Inv C d e vb gd τ → StmtSpec C d e vb fin nx τ (exec f C.P gd N (.seek L) s0)) :
    StmtSpec C d e vb fin nx σ
      (match (generalizing := false) r1 with
       | (s', .jump L) => if N.hasLabel L = true then exec f C.P gd N (.seek L) s' else (s', .jump L)
       | r => r) := by
  obtain ⟨s1, o1⟩ := r1
  cases o1 with
  | jump L =>
    simp only
    by_cases hL : N.hasLabel L = true
    · simp only [hL, if_true]
      obtain ⟨g1, g2⟩ := hge L hL
      obtain ⟨k1, k2⟩ := hdep _ _ rfl
      obtain ⟨τ, st, hp, hrτ, hiτ, a1, a2, a3, a4, a5⟩ := jump_caught hi h1 k1 g1 k2 g2
      exact StmtSpec.after st a1 a2 a3 a4 a5 (hself L τ s1 hL hp hrτ hiτ)
    · simp only [hL]
      exact h1
  | normal => exact h1
  | halted => exact h1
  | ret q => exact h1
  | resumed k => exact h1
  | error cd q => exact h1
  | inexact => trivial
  | outOfFuel => trivial
  | illFormed => trivial
  | unspec => trivial
  | notHere => trivial

/-! ### one node -/

theorem if_node (C : Ctx) (hC : C.Ok) (fuel f : Nat) (ih : StmtIHle C fuel) (hf : f ≤ fuel)
    (c : Ast.Expr) (body : SStmt) (E : Stmt) (sfx : String) (p : Pos) (d e vb gd a next endOff fin nx : Nat) (name : String)
    (hcc : CodeAt C.prog.code a (lift (compileExpr c ++ [(CInstr.jumpIfFalse next, p)])))
    (hcb : CodeAt C.prog.code (a + (compileExpr c).length + 1)
      (compileStmt C.env sfx d e (a + (compileExpr c).length + 1) body))
    (hj : C.prog.code[a + (compileExpr c).length + 1 + sizeStmt C.env.dp d e body]? =
      some (EInstr.base (CInstr.jump endOff), p))
    (hendl : C.prog.code[endOff]? = some (EInstr.base (CInstr.label name), p)) (hfin : fin = endOff + 1)
    (hu : MarksAt C.prog.marks [a] (a + (compileExpr c).length + 1))
    (hmb : MarksAt C.prog.marks (marksStmt C.env.dp d e (a + (compileExpr c).length + 1) body)
      (a + (compileExpr c).length + 1 + sizeStmt C.env.dp d e body))
    (hlb : LabAt C.env d e (a + (compileExpr c).length + 1) body) (hwb : Wf C.sl C.env.dp C.rl d e body)
    (hsc : SlotsBelow C.sl.length c) (hnc : NumericCond C.sl c)
    (m : Mode) (σ : EVm) (s : ESt)
    (hen : EntryS C.env a (Stmt.ifs c (desugar body) E p) m σ)
    (hr : ERel C.sl C.env s σ) (hi : Inv C d e vb gd σ)
    (hge : ∀ L, (Stmt.ifs c (desugar body) E p).hasLabel L = true → d ≤ C.env.dp.fd L ∧ e ≤ C.env.dp.sd L)
    (hdepE : ∀ (m' : Mode) (s0 s' : ESt) (L : Nat), exec f C.P gd E m' s0 = (s', .jump L) →
      C.env.dp.fd L ≤ d ∧ C.env.dp.sd L ≤ e)
    (hdepN : ∀ (m' : Mode) (s0 s' : ESt) (L : Nat),
      exec f C.P gd (Stmt.ifs c (desugar body) E p) m' s0 = (s', .jump L) → C.env.dp.fd L ≤ d ∧ C.env.dp.sd L ≤ e)
    (hrest : ∀ (m' : Mode) (τ : EVm) (s0 : ESt), EntryS C.env next E m' τ → ERel C.sl C.env s0 τ → Inv C d e vb gd τ →
      StmtSpec C d e vb fin nx τ (exec f C.P gd E m' s0))
    (hself : ∀ (m' : Mode) (τ : EVm) (s0 : ESt), EntryS C.env a (Stmt.ifs c (desugar body) E p) m' τ →
      ERel C.sl C.env s0 τ → Inv C d e vb gd τ →
      StmtSpec C d e vb fin nx τ (exec f C.P gd (Stmt.ifs c (desugar body) E p) m' s0)) :
    StmtSpec C d e vb fin nx σ (exec (f + 1) C.P gd (Stmt.ifs c (desugar body) E p) m s) := by
  -- the block, entered either way
  have hblock : ∀ (mb : Mode) (τ : EVm) (sb : ESt), Entry C.env (a + (compileExpr c).length + 1) body mb τ →
      ERel C.sl C.env sb τ → Inv C d e vb gd τ → StmtSpec C d e vb fin nx τ (exec f C.P gd (desugar body) mb sb) := by
    intro mb τ sb hen' hr' hi'
    have := ih f hf body sfx d e _ _ vb gd mb τ sb hcb hlb hwb hmb (Nat.le_refl _) hen' hr' hi'
    exact if_body_to_fin hC this hj hendl hfin
  have hselfSeek : ∀ (L : Nat) (τ : EVm) (s0 : ESt), (Stmt.ifs c (desugar body) E p).hasLabel L = true →
      τ.b.pc = C.env.addr L → ERel C.sl C.env s0 τ → Inv C d e vb gd τ →
      StmtSpec C d e vb fin nx τ (exec f C.P gd (Stmt.ifs c (desugar body) E p) (.seek L) s0) :=
    fun L τ s0 hL hp hr' hi' => hself (.seek L) τ s0 ⟨hL, hp⟩ hr' hi'
  cases m with
  | seek L =>
    have hent : (Mode.seek L).enters (Stmt.ifs c (desugar body) E p) = true := hen.1
    have hinner : StmtSpec C d e vb fin nx σ
        (if (desugar body).hasLabel L = true then exec f C.P gd (desugar body) (.seek L) s
         else exec f C.P gd E (.seek L) s) ∧
        ∀ s' L', (if (desugar body).hasLabel L = true then exec f C.P gd (desugar body) (.seek L) s
         else exec f C.P gd E (.seek L) s) = (s', .jump L') → C.env.dp.fd L' ≤ d ∧ C.env.dp.sd L' ≤ e := by
      by_cases hLb : (desugar body).hasLabel L = true
      · simp only [hLb, if_true]
        exact ⟨hblock (.seek L) σ s ⟨(hasLabel_iff hwb L).mp hLb, hen.2⟩ hr hi,
          fun s' L' h => (Ctx.Ok.jump_depths hC.shape hwb hlb h).2⟩
      · simp only [hLb]
        have hLE : E.hasLabel L = true := by
          have := hen.1
          rw [if_hasLabel_ifs] at this
          simp only [Bool.or_eq_true] at this
          exact this.resolve_left hLb
        exact ⟨hrest (.seek L) σ s ⟨hLE, hen.2⟩ hr hi, fun s' L' h => hdepE _ _ _ _ h⟩
    simp only [exec, hent, if_true]
    exact if_catch_with _ f _ hi hinner.1 hinner.2 hge hselfSeek
  | run =>
    have hent : Mode.run.enters (Stmt.ifs c (desugar body) E p) = true := rfl
    have hpc : σ.b.pc = a := hen
    have hinner : StmtSpec C d e vb fin nx σ
        (match condUnit f C.P gd c true s with
         | (s1, .go true) => exec f C.P gd (desugar body) .run s1
         | (s1, .go false) => exec f C.P gd E .run s1
         | (s1, .again) => exec f C.P gd (Stmt.ifs c (desugar body) E p) .run s1
         | (s1, .out o) => (s1, o)) ∧
        ∀ s' L', (match condUnit f C.P gd c true s with
         | (s1, .go true) => exec f C.P gd (desugar body) .run s1
         | (s1, .go false) => exec f C.P gd E .run s1
         | (s1, .again) => exec f C.P gd (Stmt.ifs c (desugar body) E p) .run s1
         | (s1, .out o) => (s1, o)) = (s', .jump L') → C.env.dp.fd L' ≤ d ∧ C.env.dp.sd L' ≤ e := by
      have hcs := cond_unit hC (ih.mono hf) hcc hu (Nat.le_refl _) (Nat.le_refl _) hsc hnc hpc hr hi (skipAs := true)
        (gd := gd)
      generalize condUnit f C.P gd c true s = r at hcs ⊢
      obtain ⟨s1, dec⟩ := r
      cases dec with
      | go b =>
        obtain ⟨τ, st, hrτ, e1, e2, e3, e4, e5, hp⟩ := hcs
        have hiτ := inv_after hi e1 e2 e4 e5
        cases b with
        | true =>
          have hpτ : τ.b.pc = a + (compileExpr c).length + 1 := by
            rcases hp with h | h
            · simpa using h
            · exact h.2.1
          exact ⟨StmtSpec.after st e1 e2 e3 e4 e5 (hblock .run τ s1 hpτ hrτ hiτ),
            fun s' L' h => (Ctx.Ok.jump_depths hC.shape hwb hlb h).2⟩
        | false =>
          have hpτ : τ.b.pc = next := by
            rcases hp with h | h
            · simpa using h
            · exact absurd h.1 (by simp)
          exact ⟨StmtSpec.after st e1 e2 e3 e4 e5 (hrest .run τ s1 hpτ hrτ hiτ), fun s' L' h => hdepE _ _ _ _ h⟩
      | again =>
        obtain ⟨τ, st, hp, hrτ, e1, e2, e3, e4, e5⟩ := hcs
        have hiτ := inv_after hi e1 e2 e4 e5
        exact ⟨StmtSpec.after st e1 e2 e3 e4 e5 (hself .run τ s1 hp hrτ hiτ), fun s' L' h => hdepN _ _ _ _ h⟩
      | out o =>
        obtain ⟨n1, n2, n3, n4, n5, hsp⟩ := hcs
        exact ⟨hsp fin nx, fun s' L' h => by cases h; exact n5 L' rfl⟩
    simp only [exec, hent, if_true]
    exact if_catch_with _ f _ hi hinner.1 hinner.2 hge hselfSeek

/-! ### the ELSEIF chain with the ELSE part -/

theorem if_chain (C : Ctx) (hC : C.Ok) (fuel : Nat) (ih : StmtIHle C fuel) (sfx : String) (p : Pos)
    (d e vb gd endOff elseOff fin nx : Nat) (name : String) (hasElse : Bool) (els : SStmt)
    (hendl : C.prog.code[endOff]? = some (EInstr.base (CInstr.label name), p)) (hfin : fin = endOff + 1)
    (hnx : endOff + 1 ≤ nx)
    (hwels : Wf C.sl C.env.dp C.rl d e els) (hnoelse : hasElse = false → els = .skip ∧ elseOff = endOff)
    (hdl : ∀ L d' e', (L, d', e') ∈ depthTable d e els → C.env.dp.fd L = d' ∧ C.env.dp.sd L = e')
    (hcelse : hasElse = true →
      C.prog.code[elseOff]? = some (EInstr.base (CInstr.label (labelName "else" p sfx)), p) ∧
      CodeAt C.prog.code (elseOff + 1) (compileStmt C.env sfx d e (elseOff + 1) els) ∧
      elseOff + 1 + sizeStmt C.env.dp d e els = endOff ∧ LabAt C.env d e (elseOff + 1) els ∧
      MarksAt C.prog.marks (marksStmt C.env.dp d e (elseOff + 1) els) nx) :
    ∀ (n f : Nat), f ≤ n → f ≤ fuel → ∀ (elifs : ElseIfs) (off i : Nat) (m : Mode) (σ : EVm) (s : ESt) (nxE : Nat),
      CodeAt C.prog.code off (compileElifs C.env sfx d e p endOff elseOff off i elifs) →
      off + sizeElifs C.env.dp d e elifs = elseOff → LabAtElifs C.env d e off elifs →
      WfElifs C.sl C.env.dp C.rl d e elifs → MarksAt C.prog.marks (marksElifs C.env.dp d e off elifs) nxE →
      EntryC C.env off elifs (desugarElifs elifs (desugar els) p) m σ → ERel C.sl C.env s σ → Inv C d e vb gd σ →
      StmtSpec C d e vb fin nx σ (exec f C.P gd (desugarElifs elifs (desugar els) p) m s) := by
  intro n
  induction n with
  | zero =>
    intro f hfn _ elifs off i m σ s nxE _ _ _ _ _ _ _ _
    have : f = 0 := by omega
    subst this
    simp only [exec, StmtSpec]
  | succ n ihn =>
    intro f hfn hff elifs off i m σ s nxE hc hsz hl hw hm hen hr hi
    by_cases hle : f ≤ n
    · exact ihn f hle hff elifs off i m σ s nxE hc hsz hl hw hm hen hr hi
    have hfe : f = n + 1 := by omega
    subst hfe
    cases elifs with
    | nil =>
      simp only [desugarElifs] at hen ⊢
      simp only [sizeElifs] at hsz
      cases hasElse with
      | false =>
        obtain ⟨hskip, heq⟩ := hnoelse rfl
        subst hskip
        cases m with
        | seek L => simp only [desugar, exec, StmtSpec]
        | run =>
          have hpc : σ.b.pc = endOff := by
            rcases hen with h | ⟨⟨_, _, _, h⟩, _⟩
            · rw [← heq, ← hsz]; exact h
            · cases h
          simp only [desugar, exec]
          exact if_then_label hC ⟨σ, Steps.refl σ, .inl hpc, hr, rfl, ⟨hi.he, fun _ => by simp⟩, rfl, rfl, rfl⟩ hendl hfin
      | true =>
        obtain ⟨hlab, hce, hsz2, hlels, hmels⟩ := hcelse rfl
        cases m with
        | seek L =>
          have hL : L ∈ els.labels := (hasLabel_iff hwels L).mp hen.1
          have := ih (n + 1) hff els sfx d e _ nx vb gd (.seek L) σ s hce hlels hwels hmels (by omega) ⟨hL, hen.2⟩ hr hi
          rw [hsz2] at this
          exact if_then_label hC this hendl hfin
        | run =>
          have hpc : σ.b.pc = elseOff := by
            rcases hen with h | ⟨⟨_, _, _, h⟩, _⟩
            · rw [← hsz]; exact h
            · cases h
          have s1 : step C.prog σ = .next { σ with b := JmpL.Vm.advance σ.b } :=
            if_step_label hC.pok (by rw [hpc]; exact hlab)
          have hq : Quiet σ { σ with b := JmpL.Vm.advance σ.b } := ⟨rfl, rfl, rfl, rfl, rfl⟩
          have := ih (n + 1) hff els sfx d e _ nx vb gd .run { σ with b := JmpL.Vm.advance σ.b } s hce hlels hwels hmels
            (by omega) (by show σ.b.pc + 1 = elseOff + 1; rw [hpc]) (hr.same hr.base.advance) (hq.inv hi)
          rw [hsz2] at this
          exact StmtSpec.of_steps (Steps.one s1) hq (if_then_label hC this hendl hfin)
    | cons c body rest =>
      have hc0 := hc
      have hl0 := hl
      have hw0 := hw
      have hm0 := hm
      simp only [desugarElifs] at hen ⊢
      simp only [compileElifs] at hc
      obtain ⟨hsc, hnc, hwb, hwr⟩ := hw
      obtain ⟨hlb, hlr⟩ := hl.cons
      obtain ⟨hu, hmb, hmr⟩ := marks_elif hm
      simp only [sizeElifs] at hsz
      have h0 : CodeAt C.prog.code off (lift [(CInstr.label (labelName ("else-if-" ++ toString i) p sfx), p)] ++
          lift (compileExpr c ++
            [(CInstr.jumpIfFalse (off + 1 + (compileExpr c).length + 1 + sizeStmt C.env.dp d e body + 1), p)])) := by
        have := hc.append_left.append_left.append_left
        rwa [List.append_assoc, if_lift_append] at this
      have hlabel : C.prog.code[off]? =
          some (EInstr.base (CInstr.label (labelName ("else-if-" ++ toString i) p sfx)), p) :=
        if_lift_head h0.append_left
      have hcc : CodeAt C.prog.code (off + 1) (lift (compileExpr c ++
          [(CInstr.jumpIfFalse (off + 1 + (compileExpr c).length + 1 + sizeStmt C.env.dp d e body + 1), p)])) :=
        if_codeAt_addr h0.append_right (by simp)
      have hcb : CodeAt C.prog.code (off + 1 + (compileExpr c).length + 1)
          (compileStmt C.env sfx d e (off + 1 + (compileExpr c).length + 1) body) :=
        if_codeAt_addr hc.append_left.append_left.append_right (by
          simp only [lift_length, List.length_append, List.length_singleton, List.length_cons, List.length_nil]; omega)
      have hj : C.prog.code[off + 1 + (compileExpr c).length + 1 + sizeStmt C.env.dp d e body]? =
          some (EInstr.base (CInstr.jump endOff), p) :=
        if_lift_head (if_codeAt_addr hc.append_left.append_right (by
          simp only [lift_length, List.length_append, List.length_singleton, List.length_cons, List.length_nil, len_stmt]
          omega))
      have hcr : CodeAt C.prog.code (off + 1 + (compileExpr c).length + 1 + sizeStmt C.env.dp d e body + 1)
          (compileElifs C.env sfx d e p endOff elseOff
            (off + 1 + (compileExpr c).length + 1 + sizeStmt C.env.dp d e body + 1) (i + 1) rest) :=
        if_codeAt_addr hc.append_right (by
          simp only [lift_length, List.length_append, List.length_singleton, List.length_cons, List.length_nil, len_stmt]
          omega)
      have hgeN : ∀ L, (Stmt.ifs c (desugar body) (desugarElifs rest (desugar els) p) p).hasLabel L = true →
          d ≤ C.env.dp.fd L ∧ e ≤ C.env.dp.sd L := by
        intro L hL
        rw [if_hasLabel_ifs] at hL
        simp only [Bool.or_eq_true] at hL
        rcases hL with hL | hL
        · exact hlb.depth_ge ((hasLabel_iff hwb L).mp hL)
        · rcases (if_chain_hasLabel hwr hwels p L).mp hL with hL | hL
          · exact hlr.depth_ge hL
          · cases hasElse with
            | false => rw [(hnoelse rfl).1] at hL; simp [SStmt.labels] at hL
            | true => exact (hcelse rfl).2.2.2.1.depth_ge hL
      have hdepE : ∀ (m' : Mode) (s0 s' : ESt) (L : Nat),
          exec n C.P gd (desugarElifs rest (desugar els) p) m' s0 = (s', .jump L) →
          C.env.dp.fd L ≤ d ∧ C.env.dp.sd L ≤ e :=
        fun m' s0 s' L h => if_chain_depths hC hwr hwels (fun h => (hnoelse h).1) hlr.2 hdl h
      have hdepN : ∀ (m' : Mode) (s0 s' : ESt) (L : Nat),
          exec n C.P gd (Stmt.ifs c (desugar body) (desugarElifs rest (desugar els) p) p) m' s0 = (s', .jump L) →
          C.env.dp.fd L ≤ d ∧ C.env.dp.sd L ≤ e := by
        intro m' s0 s' L h
        exact if_chain_depths hC hw0 hwels (fun h => (hnoelse h).1) hl0.2 hdl (el := .cons c body rest) (p := p)
          (by simpa only [desugarElifs] using h)
      -- the node lemma from a state at the condition (or at a label inside the node)
      have hnode : ∀ (σ' : EVm), ERel C.sl C.env s σ' → Inv C d e vb gd σ' →
          EntryS C.env (off + 1) (Stmt.ifs c (desugar body) (desugarElifs rest (desugar els) p) p) m σ' →
          StmtSpec C d e vb fin nx σ'
            (exec (n + 1) C.P gd (Stmt.ifs c (desugar body) (desugarElifs rest (desugar els) p) p) m s) := by
        intro σ' hr' hi' hen'
        refine if_node C hC fuel n ih (by omega) c body _ sfx p d e vb gd (off + 1) _ endOff fin nx name hcc hcb hj hendl hfin
          hu hmb hlb hwb hsc hnc m σ' s hen' hr' hi' hgeN hdepE hdepN ?_ ?_
        · intro m' τ s0 henτ hrτ hiτ
          exact ihn n (Nat.le_refl _) (by omega) rest _ (i + 1) m' τ s0 nxE hcr (by omega) hlr hwr hmr
            (EntryC.of_entryS henτ) hrτ hiτ
        · intro m' τ s0 henτ hrτ hiτ
          have henC : EntryC C.env off (.cons c body rest) (desugarElifs (.cons c body rest) (desugar els) p) m' τ := by
            cases m' with
            | run => exact .inr ⟨⟨c, body, rest, rfl⟩, henτ⟩
            | seek L => exact ⟨by simpa only [desugarElifs] using henτ.1, henτ.2⟩
          have := ihn n (Nat.le_refl _) (by omega) (.cons c body rest) off i m' τ s0 nxE hc0
            (by simp only [sizeElifs]; omega) hl0 hw0 hm0 henC hrτ hiτ
          simpa only [desugarElifs] using this
      cases m with
      | seek L => exact hnode σ hr hi hen
      | run =>
        rcases hen with hpc | ⟨_, hpc⟩
        · have s1 : step C.prog σ = .next { σ with b := JmpL.Vm.advance σ.b } :=
            if_step_label hC.pok (by rw [hpc]; exact hlabel)
          have hq : Quiet σ { σ with b := JmpL.Vm.advance σ.b } := ⟨rfl, rfl, rfl, rfl, rfl⟩
          exact StmtSpec.of_steps (Steps.one s1) hq
            (hnode _ (hr.same hr.base.advance) (hq.inv hi) (by show σ.b.pc + 1 = off + 1; rw [hpc]))
        · exact hnode σ hr hi hpc

/-! ### the statement -/

theorem case_if (C : Ctx) (hC : C.Ok) (fuel : Nat) (ih : StmtIHle C fuel) (c : Ast.Expr) (thn : SStmt) (elifs : ElseIfs)
    (hasElse : Bool) (els : SStmt) (p : Pos) (sfx : String) (d e off nx vb gd : Nat) (m : Mode) (σ : EVm) (s : ESt)
    (hc : CodeAt C.prog.code off (compileStmt C.env sfx d e off (.ifBlock c thn elifs hasElse els p)))
    (hl : LabAt C.env d e off (.ifBlock c thn elifs hasElse els p))
    (hw : Wf C.sl C.env.dp C.rl d e (.ifBlock c thn elifs hasElse els p))
    (hm : MarksAt C.prog.marks (marksStmt C.env.dp d e off (.ifBlock c thn elifs hasElse els p)) nx)
    (hnx : off + sizeStmt C.env.dp d e (.ifBlock c thn elifs hasElse els p) ≤ nx)
    (hen : Entry C.env off (.ifBlock c thn elifs hasElse els p) m σ) (hr : ERel C.sl C.env s σ)
    (hi : Inv C d e vb gd σ) :
    StmtSpec C d e vb (off + sizeStmt C.env.dp d e (.ifBlock c thn elifs hasElse els p)) nx σ
      (exec (fuel + 1) C.P gd (desugar (.ifBlock c thn elifs hasElse els p)) m s) := by
  have hc0 := hc
  have hw0 := hw
  obtain ⟨hsc, hnc, hwt, hwe, hwels, hnoelse⟩ := hw
  obtain ⟨hlt, hle, hlels⟩ := hl.ifBlock
  obtain ⟨hu, hmt, ⟨nxE, hme⟩, hmels⟩ := marks_if hm
  -- addresses
  let afterThn := off + (compileExpr c).length + 1 + sizeStmt C.env.dp d e thn + 1
  let elseOff := afterThn + sizeElifs C.env.dp d e elifs
  let endOff := elseOff + (if hasElse then 1 + sizeStmt C.env.dp d e els else 0)
  have hfin : off + sizeStmt C.env.dp d e (.ifBlock c thn elifs hasElse els p) = endOff + 1 := by
    simp only [sizeStmt, endOff, elseOff, afterThn]; omega
  have hdl : ∀ L d' e', (L, d', e') ∈ depthTable d e els → C.env.dp.fd L = d' ∧ C.env.dp.sd L = e' := by
    intro L d' e' h
    exact hl.2 L d' e' (by simp only [depthTable, List.mem_append]; exact .inr h)
  simp only [compileStmt] at hc
  have hcc : CodeAt C.prog.code off (lift (compileExpr c ++ [(CInstr.jumpIfFalse afterThn, p)])) :=
    hc.append_left.append_left.append_left.append_left.append_left
  have hcb : CodeAt C.prog.code (off + (compileExpr c).length + 1)
      (compileStmt C.env sfx d e (off + (compileExpr c).length + 1) thn) :=
    if_codeAt_addr hc.append_left.append_left.append_left.append_left.append_right (by
      simp only [lift_length, List.length_append, List.length_singleton, List.length_cons, List.length_nil]; omega)
  have hj : C.prog.code[off + (compileExpr c).length + 1 + sizeStmt C.env.dp d e thn]? =
      some (EInstr.base (CInstr.jump endOff), p) :=
    if_lift_head (if_codeAt_addr hc.append_left.append_left.append_left.append_right (by
      simp only [lift_length, List.length_append, List.length_singleton, List.length_cons, List.length_nil, len_stmt]
      omega))
  have hce : CodeAt C.prog.code afterThn (compileElifs C.env sfx d e p endOff elseOff afterThn 0 elifs) :=
    if_codeAt_addr hc.append_left.append_left.append_right (by
      simp only [lift_length, List.length_append, List.length_singleton, List.length_cons, List.length_nil, len_stmt,
        afterThn]
      omega)
  have hendl : C.prog.code[endOff]? = some (EInstr.base (CInstr.label (labelName "end-if" p sfx)), p) :=
    if_lift_head (if_codeAt_addr hc.append_right (by
      simp only [lift_length, List.length_append, List.length_singleton, List.length_cons, List.length_nil, len_stmt,
        len_elifs, endOff, elseOff, afterThn]
      cases hasElse <;> simp [len_stmt] <;> omega))
  have hnoelse' : hasElse = false → els = .skip ∧ elseOff = endOff := by
    intro h; subst h
    exact ⟨hnoelse rfl, by simp [endOff]⟩
  have hcelse : hasElse = true →
      C.prog.code[elseOff]? = some (EInstr.base (CInstr.label (labelName "else" p sfx)), p) ∧
      CodeAt C.prog.code (elseOff + 1) (compileStmt C.env sfx d e (elseOff + 1) els) ∧
      elseOff + 1 + sizeStmt C.env.dp d e els = endOff ∧ LabAt C.env d e (elseOff + 1) els ∧
      MarksAt C.prog.marks (marksStmt C.env.dp d e (elseOff + 1) els) nx := by
    intro h; subst h
    simp only [if_true] at hc
    refine ⟨?_, ?_, by simp only [endOff, if_true]; omega, hlels rfl, hmels rfl⟩
    · exact if_lift_head (if_codeAt_addr hc.append_left.append_right.append_left (by
        simp only [lift_length, List.length_append, List.length_singleton, List.length_cons, List.length_nil, len_stmt,
          len_elifs, elseOff, afterThn]
        omega))
    · exact if_codeAt_addr hc.append_left.append_right.append_right (by
        simp only [lift_length, List.length_append, List.length_singleton, List.length_cons, List.length_nil, len_stmt,
          len_elifs, elseOff, afterThn]
        omega)
  rw [hfin]
  simp only [desugar]
  have henS : EntryS C.env off (Stmt.ifs c (desugar thn) (desugarElifs elifs (desugar els) p) p) m σ := by
    cases m with
    | run => exact hen
    | seek L => exact ⟨by have := (hasLabel_iff hw0 L).mpr hen.1; simpa only [desugar] using this, hen.2⟩
  refine if_node C hC fuel fuel ih (Nat.le_refl _) c thn _ sfx p d e vb gd off afterThn endOff (endOff + 1) nx _ hcc hcb hj
    hendl rfl hu hmt hlt hwt hsc hnc m σ s henS hr hi ?_
    (fun m' s0 s' L h => if_chain_depths hC hwe hwels hnoelse hle.2 hdl h) ?_ ?_ ?_
  · intro L hL
    have : (desugar (.ifBlock c thn elifs hasElse els p)).hasLabel L = true := by simpa only [desugar] using hL
    exact hl.depth_ge ((hasLabel_iff hw0 L).mp this)
  · intro m' s0 s' L h
    have hx : exec fuel C.P gd (desugar (.ifBlock c thn elifs hasElse els p)) m' s0 = (s', .jump L) := by
      simpa only [desugar] using h
    exact (Ctx.Ok.jump_depths hC.shape hw0 hl hx).2
  · intro m' τ s0 henτ hrτ hiτ
    exact if_chain C hC fuel ih sfx p d e vb gd endOff elseOff (endOff + 1) nx _ hasElse els hendl rfl (by omega) hwels
      hnoelse' hdl hcelse fuel fuel (Nat.le_refl _) (Nat.le_refl _) elifs afterThn 0 m' τ s0 nxE hce rfl hle hwe hme
      (EntryC.of_entryS henτ) hrτ hiτ
  · intro m' τ s0 henτ hrτ hiτ
    have hen' : Entry C.env off (.ifBlock c thn elifs hasElse els p) m' τ := by
      cases m' with
      | run => exact henτ
      | seek L =>
        have : (desugar (.ifBlock c thn elifs hasElse els p)).hasLabel L = true := by simpa only [desugar] using henτ.1
        exact ⟨(hasLabel_iff hw0 L).mp this, henτ.2⟩
    have := ih.self (.ifBlock c thn elifs hasElse els p) sfx d e off nx vb gd m' τ s0 hc0 hl hw0 hm hnx hen' hrτ hiτ
    rw [hfin] at this
    simpa only [desugar] using this

end RbThm.ErrLSim
