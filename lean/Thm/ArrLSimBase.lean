import RbModel.ArrL.Ref
import RbModel.ArrL.Vm
import Thm.ArrLLen
import Thm.ArrLNum
import Thm.C04
/-!
Arrays layer (core language + arrays of scalars), simulation part — the infrastructure.

The code the generator model `ArrL.Compile.compile*` emits, run on the VM model `ArrL.Vm.step`, computes what the
reference semantics `ArrL.Ref` prescribes.  Expressions are pure and need no fuel (`ExprSpec` / `IdxSpec` are proved by
structural induction in `Thm/ArrLSimExpr.lean` / `Thm/ArrLSimIdx.lean`); statements are proved by induction on the fuel of
`ArrL.Ref.exec`: `IH code fuel` is the statement specification at a given amount of fuel and every construct is proved by
its own case lemma from `IHle code fuel` (the hypothesis at every smaller or equal amount).  The API mirrors
`Thm/ProcSimBase.lean` on purpose (same helper names and shapes) so that the control-flow cases are near-copies.

Contents: `Scope` (slot table, array table), `CodeAt`, `Steps`, `ErrsWith`, `HaltsWith`; the array relation `ArrRel`
(bounds + finite map vs dimensions + row-major vector) with its read / store / allocation lemmas, `ArrsRel`, `Rel`,
`SameStacks`, `ActInv`; well-formedness (`EWf`, `IdxWf`, `Wf`); the specifications (`ErrPost`, `ExprPost`, `IdxPost`,
`CondPost`, `StmtPost`), `IH`, `IHle`; and the derived lemmas every case needs: `var_steps`, `store_steps`,
`exprTo_correct`, `cond_correct`.
-/
namespace RbThm.ArrLSim
set_option linter.unusedVariables false
set_option linter.unusedSimpArgs false
open RbModel RbModel.Num RbModel.ArrL RbModel.ArrL.Compile RbModel.ArrL.Vm
open RbModel.Ast (Pos)
open RbThm.ArrLLen RbThm.ArrLNum

abbrev St := RbModel.ArrL.Ref.St
abbrev Outcome := RbModel.ArrL.Ref.Outcome
abbrev RArr := RbModel.ArrL.Ref.RArr
abbrev ERes := RbModel.ArrL.Ref.ERes
abbrev InBox := RbThm.C04.InBox

/-- the static tables of a program: types of the scalar slots, element types of the arrays -/
structure Scope where
  slots : List Ty
  arrs : List Ty

/-! ### code placement -/

/-- the fragment `frag` sits in `code` at address `off` -/
def CodeAt (code : Code) (off : Nat) (frag : Code) : Prop :=
  ∀ i, i < frag.length → code[off + i]? = frag[i]?

theorem CodeAt.nil (code : Code) (off : Nat) : CodeAt code off [] := by
  intro i hi; simp at hi

theorem CodeAt.append_left {code : Code} {off : Nat} {a b : Code} (h : CodeAt code off (a ++ b)) :
    CodeAt code off a := by
  intro i hi
  have := h i (by simp; omega)
  rw [this, List.getElem?_append_left hi]

theorem CodeAt.append_right {code : Code} {off : Nat} {a b : Code} (h : CodeAt code off (a ++ b)) :
    CodeAt code (off + a.length) b := by
  intro i hi
  have := h (a.length + i) (by simp; omega)
  rw [Nat.add_assoc, this, List.getElem?_append_right (by omega)]
  congr 1; omega

theorem CodeAt.head {code : Code} {off : Nat} {x : CInstr × Pos} {rest : Code}
    (h : CodeAt code off (x :: rest)) : code[off]? = some x := by
  have := h 0 (by simp)
  simpa using this

theorem CodeAt.tail {code : Code} {off : Nat} {x : CInstr × Pos} {rest : Code}
    (h : CodeAt code off (x :: rest)) : CodeAt code (off + 1) rest := by
  have := CodeAt.append_right (a := [x]) (b := rest) (by simpa using h)
  simpa using this

/-- re-addressing: the same fragment at a provably equal address -/
theorem CodeAt.at {code : Code} {off off' : Nat} {frag : Code} (h : CodeAt code off frag) (e : off = off') :
    CodeAt code off' frag := e ▸ h

/-- re-addressing with a provably equal fragment -/
theorem CodeAt.cast {code : Code} {off off' : Nat} {frag frag' : Code} (h : CodeAt code off frag) (e : off = off')
    (e' : frag = frag') : CodeAt code off' frag' := e ▸ e' ▸ h

/-! ### execution -/

/-- zero or more successful steps -/
inductive Steps (code : Code) : Vm → Vm → Prop
  | refl (σ : Vm) : Steps code σ σ
  | cons {σ τ υ : Vm} : Vm.step code σ = .next τ → Steps code τ υ → Steps code σ υ

theorem Steps.trans {code : Code} {a b c : Vm} (h₁ : Steps code a b) (h₂ : Steps code b c) : Steps code a c := by
  induction h₁ with
  | refl => exact h₂
  | cons hs _ ih => exact Steps.cons hs (ih h₂)

theorem Steps.one {code : Code} {σ τ : Vm} (h : Vm.step code σ = .next τ) : Steps code σ τ :=
  Steps.cons h (Steps.refl τ)

theorem Steps.cast {code : Code} {σ τ τ' : Vm} (h : Steps code σ τ) (e : τ = τ') : Steps code σ τ' := e ▸ h

/-- the run reaches a state whose next step raises the BASIC error `(c, p)`, with the output `out` -/
def ErrsWith (code : Code) (σ : Vm) (c : Nat) (p : Pos) (out : Print.WritePrinter) : Prop :=
  ∃ τ υ, Steps code σ τ ∧ Vm.step code τ = .error c p υ ∧ υ.out = out

/-- the run reaches a `Halt` (END / the end of the program) with the output `out` -/
def HaltsWith (code : Code) (σ : Vm) (out : Print.WritePrinter) : Prop :=
  ∃ τ υ, Steps code σ τ ∧ Vm.step code τ = .halt υ ∧ υ.out = out

theorem ErrsWith.of_steps {code : Code} {σ τ : Vm} {c : Nat} {p : Pos} {out}
    (h₁ : Steps code σ τ) (h₂ : ErrsWith code τ c p out) : ErrsWith code σ c p out := by
  obtain ⟨a, b, h, hs, ho⟩ := h₂
  exact ⟨a, b, h₁.trans h, hs, ho⟩

theorem HaltsWith.of_steps {code : Code} {σ τ : Vm} {out}
    (h₁ : Steps code σ τ) (h₂ : HaltsWith code τ out) : HaltsWith code σ out := by
  obtain ⟨a, b, h, hs, ho⟩ := h₂
  exact ⟨a, b, h₁.trans h, hs, ho⟩

/-! ### arrays: bounds + finite map (reference) vs dimensions + row-major vector (VM) -/

theorem inBox_iff : ∀ (bs : List (Int × Int)) (is : List Int), ArrL.Ref.inBox bs is = true ↔ InBox bs is
  | [], [] => by simp [ArrL.Ref.inBox, InBox, RbThm.C04.InBox]
  | [], _ :: _ => by simp [ArrL.Ref.inBox, InBox, RbThm.C04.InBox]
  | _ :: _, [] => by simp [ArrL.Ref.inBox, InBox, RbThm.C04.InBox]
  | (lo, hi) :: bs, i :: is => by
    simp only [ArrL.Ref.inBox, InBox, RbThm.C04.InBox, Bool.and_eq_true, decide_eq_true_eq]
    rw [inBox_iff bs is]
    exact ⟨fun ⟨⟨a, b⟩, c⟩ => ⟨a, b, c⟩, fun ⟨a, b, c⟩ => ⟨⟨a, b⟩, c⟩⟩

theorem lookupCell_filter_ne (cells : List (List Int × Val)) (is js : List Int) (h : js ≠ is) :
    ArrL.Ref.lookupCell (cells.filter (fun c => !(c.1 == is))) js = ArrL.Ref.lookupCell cells js := by
  induction cells with
  | nil => rfl
  | cons c rest ih =>
    obtain ⟨k, v⟩ := c
    by_cases hk : k = is
    · subst hk
      have : ¬ (k = js) := fun e => h e.symm
      simp [List.filter, ArrL.Ref.lookupCell, this, ih]
    · have hb : (!(k == is)) = true := by simp [hk]
      simp only [List.filter, hb, ArrL.Ref.lookupCell, ih]

theorem rget_set_same (A : RArr) (is : List Int) (v : Val) : (A.set is v).get is = v := by
  simp [ArrL.Ref.RArr.get, ArrL.Ref.RArr.set, ArrL.Ref.lookupCell]

theorem rget_set_other (A : RArr) (is js : List Int) (v : Val) (h : js ≠ is) : (A.set is v).get js = A.get js := by
  have : ¬ (is = js) := fun e => h e.symm
  simp only [ArrL.Ref.RArr.get, ArrL.Ref.RArr.set, ArrL.Ref.lookupCell, this, if_false]
  rw [lookupCell_filter_ne _ _ _ h]

/-- a VM array represents a reference array of element type `t`: same bounds, one vector entry per element of the box,
every tuple of the box reads the same value through `abs_index` as through the finite map, and every entry has type `t` -/
structure ArrRel (t : Ty) (A : RArr) (V : VArr) : Prop where
  ty : A.ty = t
  dims : V.dims = A.bounds
  wf : RbThm.C04.WF V
  get : ∀ idx, InBox A.bounds idx → Arr.getElem V idx = some (A.get idx)
  tags : ∀ v ∈ V.elems, v.tag = t

/-- reading an element: inside the box the value of the finite map, outside `none` (Subscript out of range) -/
theorem ArrRel.read {t : Ty} {A : RArr} {V : VArr} (h : ArrRel t A V) (is : List Int) :
    Arr.getElem V is = if A.inBounds is then some (A.get is) else none := by
  by_cases hb : A.inBounds is = true
  · simp only [hb, if_true]
    exact h.get is ((inBox_iff _ _).mp hb)
  · simp only [hb]
    have hnb : ¬ InBox V.dims is := by rw [h.dims]; exact fun x => hb ((inBox_iff _ _).mpr x)
    cases hg : Arr.getElem V is with
    | none => rfl
    | some v => exact absurd ((RbThm.C04.getElem_some_iff h.wf is).mp ⟨v, hg⟩) hnb

theorem ArrRel.get_tag {t : Ty} {A : RArr} {V : VArr} (h : ArrRel t A V) {is : List Int}
    (hb : A.inBounds is = true) : (A.get is).tag = t := by
  have hg := h.get is ((inBox_iff _ _).mp hb)
  unfold Arr.getElem at hg
  split at hg
  · exact h.tags _ (List.mem_of_getElem? hg)
  · cases hg

/-- storing an element: inside the box the store succeeds and the arrays still correspond, outside it fails -/
theorem ArrRel.store {t : Ty} {A : RArr} {V : VArr} (h : ArrRel t A V) (is : List Int) (w : Val) (hw : w.tag = t) :
    if A.inBounds is then ∃ V', Arr.setElem V is w = some V' ∧ ArrRel t (A.set is w) V'
    else Arr.setElem V is w = none := by
  by_cases hb : A.inBounds is = true
  · simp only [hb, if_true]
    have hbox : InBox V.dims is := by rw [h.dims]; exact (inBox_iff _ _).mp hb
    obtain ⟨V', hs⟩ := (RbThm.C04.setElem_some_iff h.wf is w).mpr hbox
    refine ⟨V', hs, ?_⟩
    obtain ⟨hd, hl⟩ := RbThm.C04.set_preserves_dims hs
    refine ⟨h.ty, by rw [hd]; exact h.dims, RbThm.C04.set_preserves_wf hs h.wf, ?_, ?_⟩
    · intro js hjs
      by_cases hj : js = is
      · subst hj
        rw [RbThm.C04.get_set_same hs, rget_set_same]
      · rw [RbThm.C04.get_set_other hs hj, rget_set_other _ _ _ _ hj]
        exact h.get js hjs
    · intro v hv
      unfold Arr.setElem at hs
      split at hs
      · split at hs
        · injection hs with hs; subst hs
          simp only at hv
          rcases List.mem_or_eq_of_mem_set hv with hv | hv
          · exact h.tags v hv
          · rw [hv]; exact hw
        · cases hs
      · cases hs
  · simp only [hb]
    have hnb : ¬ InBox V.dims is := by rw [h.dims]; exact fun x => hb ((inBox_iff _ _).mpr x)
    cases hg : Arr.setElem V is w with
    | none => rfl
    | some v => exact absurd ((RbThm.C04.setElem_some_iff h.wf is w).mp ⟨v, hg⟩) hnb

/-- storing back the value an element holds changes nothing -/
theorem setElem_get_self {V : VArr} {is : List Int} {v : Val} (h : Arr.getElem V is = some v) :
    Arr.setElem V is v = some V := by
  unfold Arr.getElem at h
  unfold Arr.setElem
  split at h
  · rename_i k hk
    have hlt : k < V.elems.length := (List.getElem?_eq_some_iff.mp h).1
    have hv : V.elems[k] = v := (List.getElem?_eq_some_iff.mp h).2
    simp only [hlt, if_true]
    congr 1
    cases V with
    | mk dims elems =>
      simp only at hlt hv ⊢
      congr 1
      rw [← hv]; exact List.set_getElem_self hlt
  · cases h

theorem set_getElem?_self {α : Type} {l : List α} {i : Nat} {v : α} (h : l[i]? = some v) : l.set i v = l := by
  obtain ⟨hlt, hv⟩ := List.getElem?_eq_some_iff.mp h
  rw [← hv]; exact List.set_getElem_self hlt

/-- the arrays of the two states correspond slot by slot over the array table (a never-dimensioned array is `none` on
both sides) -/
structure ArrsRel (al : List Ty) (ra : List (Option RArr)) (va : List (Option VArr)) : Prop where
  lenR : ra.length = al.length
  lenV : va.length = al.length
  at_ : ∀ (a : Nat) (t : Ty), al[a]? = some t →
    (ra[a]? = some none ∧ va[a]? = some none) ∨ ∃ A V, ra[a]? = some (some A) ∧ va[a]? = some (some V) ∧ ArrRel t A V

/-- a dimensioned array of the reference state has its VM counterpart -/
theorem ArrsRel.lookup {al : List Ty} {ra : List (Option RArr)} {va : List (Option VArr)} (h : ArrsRel al ra va)
    {a : Nat} {t : Ty} {A : RArr} (ha : al[a]? = some t) (hA : ra[a]? = some (some A)) :
    ∃ V, va[a]? = some (some V) ∧ ArrRel t A V := by
  rcases h.at_ a t ha with ⟨h1, _⟩ | ⟨A', V, h1, h2, h3⟩
  · rw [h1] at hA; cases hA
  · rw [h1] at hA; injection hA with hA; injection hA with hA; subst hA
    exact ⟨V, h2, h3⟩

/-- (re)dimensioning or updating array `a` on both sides -/
theorem ArrsRel.set {al : List Ty} {ra : List (Option RArr)} {va : List (Option VArr)} (h : ArrsRel al ra va)
    {a : Nat} {t : Ty} {A : RArr} {V : VArr} (ha : al[a]? = some t) (hr : ArrRel t A V) :
    ArrsRel al (ra.set a (some A)) (va.set a (some V)) := by
  have hlt : a < al.length := (List.getElem?_eq_some_iff.mp ha).1
  refine ⟨by rw [List.length_set]; exact h.lenR, by rw [List.length_set]; exact h.lenV, ?_⟩
  intro b u hb
  by_cases hab : a = b
  · subst hab
    have hu : u = t := by rw [ha] at hb; injection hb with hb; exact hb.symm
    subst hu
    exact Or.inr ⟨A, V, List.getElem?_set_self (by rw [h.lenR]; exact hlt),
      List.getElem?_set_self (by rw [h.lenV]; exact hlt), hr⟩
  · rw [List.getElem?_set_ne hab, List.getElem?_set_ne hab]
    exact h.at_ b u hb

/-- storing back an array that represents the reference array changes nothing on the reference side -/
theorem ArrsRel.set_same {al : List Ty} {ra : List (Option RArr)} {va : List (Option VArr)} (h : ArrsRel al ra va)
    {a : Nat} {t : Ty} {A : RArr} {V : VArr} (ha : al[a]? = some t) (hA : ra[a]? = some (some A))
    (hr : ArrRel t A V) : ArrsRel al ra (va.set a (some V)) := by
  have := h.set ha hr
  rwa [set_getElem?_self hA] at this

/-! ### the state relation -/

/-- the VM state represents the state `s` of the reference semantics over the tables `sc` -/
structure Rel (sc : Scope) (s : St) (σ : Vm) : Prop where
  env : σ.env = s.env
  /-- every scalar variable holds a value of its declared type -/
  typed : Typed sc.slots s.env
  arrs : ArrsRel sc.arrs s.arrs σ.arrs
  out : σ.out = s.out
  data : σ.data = s.data
  dataIdx : σ.dataIdx = s.dataIdx
  /-- nothing is waiting in the by-reference return queue, no function result is stashed -/
  queue : σ.queue = []
  funRes : σ.funRes = none

/-- a VM state that agrees with a related one on the variables is related to a reference state that agrees with the old
one on the variables -/
theorem Rel.congr {sc : Scope} {s s' : St} {σ τ : Vm} (h : Rel sc s σ)
    (hv : τ.env = σ.env) (hva : τ.arrs = σ.arrs) (he : s'.env = s.env) (hea : s'.arrs = s.arrs) (ho : τ.out = s'.out)
    (hd : τ.data = s'.data) (hi : τ.dataIdx = s'.dataIdx) (hq : τ.queue = []) (hf : τ.funRes = none) : Rel sc s' τ :=
  ⟨by rw [hv, he]; exact h.env, by rw [he]; exact h.typed, by rw [hva, hea]; exact h.arrs, ho, hd, hi, hq, hf⟩

/-- only the program counter, the registers, the stacks and the open argument lists differ -/
theorem Rel.same {sc : Scope} {s : St} {σ τ : Vm} (h : Rel sc s σ)
    (hv : τ.env = σ.env) (hva : τ.arrs = σ.arrs) (ho : τ.out = σ.out) (hd : τ.data = σ.data)
    (hi : τ.dataIdx = σ.dataIdx) (hq : τ.queue = σ.queue) (hf : τ.funRes = σ.funRes) : Rel sc s τ :=
  h.congr hv hva rfl rfl (by rw [ho, h.out]) (by rw [hd, h.data]) (by rw [hi, h.dataIdx]) (by rw [hq, h.queue])
    (by rw [hf, h.funRes])

theorem Rel.advance {sc : Scope} {s : St} {σ : Vm} (h : Rel sc s σ) : Rel sc s (advance σ) :=
  h.same rfl rfl rfl rfl rfl rfl rfl

theorem Rel.setPc {sc : Scope} {s : St} {σ : Vm} (h : Rel sc s σ) (a : Nat) : Rel sc s { σ with pc := a } :=
  h.same rfl rfl rfl rfl rfl rfl rfl

theorem Rel.setA {sc : Scope} {s : St} {σ : Vm} (h : Rel sc s σ) (v : Val) : Rel sc s (setA σ v) :=
  h.same rfl rfl rfl rfl rfl rfl rfl

theorem Rel.setRA {sc : Scope} {s : St} {σ : Vm} (h : Rel sc s σ) (v : RV) : Rel sc s (setRA σ v) :=
  h.same rfl rfl rfl rfl rfl rfl rfl

/-- storing a value of the slot's type into a scalar variable -/
theorem Rel.store {sc : Scope} {s : St} {σ τ : Vm} (h : Rel sc s σ)
    {x : Nat} {t : Ty} {v : Val} (hx : sc.slots[x]? = some t) (hv : v.tag = t)
    (hc : τ.env = σ.env.set x v) (hva : τ.arrs = σ.arrs) (ho : τ.out = σ.out) (hd : τ.data = σ.data)
    (hi : τ.dataIdx = σ.dataIdx) (hq : τ.queue = σ.queue) (hf : τ.funRes = σ.funRes) :
    Rel sc (s.set x v) τ := by
  refine ⟨?_, ?_, ?_, ?_, ?_, ?_, ?_, ?_⟩
  · rw [hc, h.env]; rfl
  · exact typed_set h.typed hx hv
  · rw [hva]; exact h.arrs
  · rw [ho, h.out]; rfl
  · rw [hd, h.data]; rfl
  · rw [hi, h.dataIdx]; rfl
  · rw [hq, h.queue]
  · rw [hf, h.funRes]

/-- (re)dimensioning array `a` or storing into one of its elements -/
theorem Rel.storeArr {sc : Scope} {s : St} {σ τ : Vm} (h : Rel sc s σ)
    {a : Nat} {t : Ty} {A : RArr} {V : VArr} (ha : sc.arrs[a]? = some t) (hr : ArrRel t A V)
    (hc : τ.env = σ.env) (hva : τ.arrs = σ.arrs.set a (some V)) (ho : τ.out = σ.out) (hd : τ.data = σ.data)
    (hi : τ.dataIdx = σ.dataIdx) (hq : τ.queue = σ.queue) (hf : τ.funRes = σ.funRes) :
    Rel sc (s.setArr a A) τ := by
  refine ⟨?_, h.typed, ?_, ?_, ?_, ?_, ?_, ?_⟩
  · rw [hc, h.env]; rfl
  · rw [hva]; exact h.arrs.set ha hr
  · rw [ho, h.out]; rfl
  · rw [hd, h.data]; rfl
  · rw [hi, h.dataIdx]; rfl
  · rw [hq, h.queue]
  · rw [hf, h.funRes]

/-- the current value of a scalar slot, as the VM reads it -/
theorem Rel.getVar {sc : Scope} {s : St} {σ : Vm} (h : Rel sc s σ) {x : Nat} {t : Ty} (hx : sc.slots[x]? = some t) :
    σ.env[x]? = some (s.env.getD x (zeroOf t)) := by
  rw [h.env]; exact typed_getD_eq h.typed hx _

/-- what a construct leaves alone: value stack, path stack, register stack, the open argument lists, the stack trace;
and it does not raise the "skip the newline" flag of PRINT -/
structure SameStacks (σ τ : Vm) : Prop where
  vals : τ.vals = σ.vals
  paths : τ.paths = σ.paths
  regStack : τ.regStack = σ.regStack
  ctx : τ.ctx = σ.ctx
  trace : τ.trace = σ.trace
  skip : σ.skipNewline = false → τ.skipNewline = false

theorem SameStacks.refl (σ : Vm) : SameStacks σ σ := ⟨rfl, rfl, rfl, rfl, rfl, id⟩

theorem SameStacks.trans {a b c : Vm} (h₁ : SameStacks a b) (h₂ : SameStacks b c) : SameStacks a c :=
  ⟨h₂.vals.trans h₁.vals, h₂.paths.trans h₁.paths, h₂.regStack.trans h₁.regStack, h₂.ctx.trans h₁.ctx,
    h₂.trace.trans h₁.trace, fun h => h₂.skip (h₁.skip h)⟩

/-- the states agree on everything `SameStacks` mentions -/
theorem SameStacks.of_eq {σ τ : Vm} (h1 : τ.vals = σ.vals) (h2 : τ.paths = σ.paths) (h3 : τ.regStack = σ.regStack)
    (h4 : τ.ctx = σ.ctx) (h6 : τ.trace = σ.trace) (h7 : τ.skipNewline = σ.skipNewline) :
    SameStacks σ τ := ⟨h1, h2, h3, h4, h6, fun h => by rw [h7]; exact h⟩

/-- the invariant between statements: the PRINT flag is down -/
structure ActInv (σ : Vm) : Prop where
  quiet : σ.skipNewline = false

theorem ActInv.of_same {σ τ : Vm} (h : ActInv σ) (hs : SameStacks σ τ) : ActInv τ := ⟨hs.skip h.quiet⟩

/-! ### well-formedness -/

mutual
/-- static well-formedness of an expression as the linter establishes it: a variable is a slot used at the slot's type;
an operator node carries the result type the checker's table gives for the types of its operands (`/` is followed by a
`Cast` to the node's type, so nothing is asked of it); an array is a declared array used at its element type; an element
has at least one subscript -/
def EWf (sc : Scope) : ArrL.Expr → Prop
  | .lit _ _ => True
  | .var x t _ => sc.slots[x]? = some t
  | .un _ e _ => EWf sc e
  | .bin op l r t _ => EWf sc l ∧ EWf sc r ∧ (op = .divide ∨ Gen.NumTables.binType op l.ty r.ty = some t)
  | .paren e _ => EWf sc e
  | .elem a idx t _ => sc.arrs[a]? = some t ∧ idx ≠ .nil ∧ IdxWf sc idx
  | .bound _ a t _ _ => sc.arrs[a]? = some t
  | .boundD _ a t _ d _ => sc.arrs[a]? = some t ∧ EWf sc d
def IdxWf (sc : Scope) : Exprs → Prop
  | .nil => True
  | .cons e rest => EWf sc e ∧ IdxWf sc rest
end

def ItemsWf (sc : Scope) : List PrintItem → Prop
  | [] => True
  | .expr e :: rest => EWf sc e ∧ ItemsWf sc rest
  | _ :: rest => ItemsWf sc rest

/-- the six relational operators (after `CASE IS` the parser accepts nothing else) -/
def SelRelOp (op : Op) : Prop :=
  op = .less ∨ op = .lessOrEqual ∨ op = .equal ∨ op = .greaterOrEqual ∨ op = .greater ∨ op = .notEqual

def CaseWf (sc : Scope) : CaseExpr → Prop
  | .simple e => EWf sc e
  | .is op e => SelRelOp op ∧ EWf sc e
  | .range lo hi => EWf sc lo ∧ EWf sc hi

def CondsWf (sc : Scope) : List CaseExpr → Prop
  | [] => True
  | c :: rest => CaseWf sc c ∧ CondsWf sc rest

def DimsWf (sc : Scope) : Dims → Prop
  | .nil => True
  | .cons none hi rest => EWf sc hi ∧ DimsWf sc rest
  | .cons (some lo) hi rest => EWf sc lo ∧ EWf sc hi ∧ DimsWf sc rest

def TargetWf (sc : Scope) : ReadTarget → Prop
  | .var x t _ => sc.slots[x]? = some t
  | .elem a t idx _ => sc.arrs[a]? = some t ∧ idx ≠ .nil ∧ IdxWf sc idx

mutual
/-- well-formed statements: every variable is a declared slot used at its declared type, every array a declared array
used at its element type, expressions are well formed, an element has at least one subscript, conditions of IF / WHILE /
DO are not strings, a missing ELSE part is empty, DATA does not occur (it is hoisted: see the program theorem) -/
def Wf (sc : Scope) : SStmt → Prop
  | .skip => True
  | .comment => True
  | .seq a b => Wf sc a ∧ Wf sc b
  | .dim x t _ => sc.slots[x]? = some t
  | .dimArr a t dims _ => sc.arrs[a]? = some t ∧ DimsWf sc dims
  | .assign x t e _ => sc.slots[x]? = some t ∧ EWf sc e
  | .assignElem a t idx e _ => sc.arrs[a]? = some t ∧ idx ≠ .nil ∧ IdxWf sc idx ∧ EWf sc e
  | .print items _ => ItemsWf sc items
  | .ifBlock c thn elifs hasElse els _ =>
    EWf sc c ∧ c.ty ≠ .str ∧ Wf sc thn ∧ WfElifs sc elifs ∧ Wf sc els ∧ (hasElse = false → els = .skip)
  | .while c body _ => EWf sc c ∧ c.ty ≠ .str ∧ Wf sc body
  | .doLoop c _ _ body _ => EWf sc c ∧ c.ty ≠ .str ∧ Wf sc body
  | .end_ _ => True
  | .data _ _ => False
  | .read tgs _ => ∀ tg ∈ tgs, TargetWf sc tg
  | .select e cases hasElse els _ =>
    EWf sc e ∧ WfCases sc cases ∧ Wf sc els ∧ (hasElse = false → els = .skip)
  | .forLoop x t lo hi step body _ =>
    sc.slots[x]? = some t ∧ EWf sc lo ∧ EWf sc hi ∧ (∀ se, step = some se → EWf sc se) ∧ Wf sc body
def WfElifs (sc : Scope) : ElseIfs → Prop
  | .nil => True
  | .cons c body rest => EWf sc c ∧ c.ty ≠ .str ∧ Wf sc body ∧ WfElifs sc rest
def WfCases (sc : Scope) : SCases → Prop
  | .nil => True
  | .cons conds body rest => conds ≠ [] ∧ CondsWf sc conds ∧ Wf sc body ∧ WfCases sc rest
end

/-! ### specifications -/

/-- an evaluation that does not yield a value: the run ends with the error; the outcomes outside the modelled language
(`illFormed`: an array used before its DIM ran; `tooBig`; `inexact`; `outOfFuel`) claim nothing -/
def ErrPost (code : Code) (σ : Vm) (s' : St) : Outcome → Prop
  | .error c p => ErrsWith code σ c p s'.out
  | .halted => HaltsWith code σ s'.out
  | .inexact => True
  | .outOfFuel => True
  | .illFormed => True
  | .tooBig => True
  | .normal => False

theorem ErrPost.of_steps {code : Code} {σ τ : Vm} {s' : St} {o : Outcome} (h₁ : Steps code σ τ)
    (h₂ : ErrPost code τ s' o) : ErrPost code σ s' o := by
  cases o with
  | error c p => exact ErrsWith.of_steps h₁ h₂
  | halted => exact HaltsWith.of_steps h₁ h₂
  | inexact => trivial
  | outOfFuel => trivial
  | illFormed => trivial
  | tooBig => trivial
  | normal => exact h₂

/-- code that leaves a scalar value in A: `n` instructions starting at `off`; the value has type `ty`.  The reference
state `s` does not change (expressions are pure) -/
def ExprPost (code : Code) (sc : Scope) (n : Nat) (ty : Ty) (off : Nat) (s : St) (σ : Vm) : ERes Val → Prop
  | .ok v => ∃ τ, Steps code σ τ ∧ τ.pc = off + n ∧ τ.regs.a = .sc v ∧ Rel sc s τ ∧ SameStacks σ τ ∧ v.tag = ty
  | .err c p => ErrsWith code σ c p s.out
  | .inexact => True
  | .illFormed => True

theorem ExprPost.of_steps {code : Code} {sc : Scope} {n : Nat} {ty : Ty} {off : Nat} {s : St} {σ τ : Vm} {r : ERes Val}
    (h₁ : Steps code σ τ) (hs : SameStacks σ τ) (h₂ : ExprPost code sc n ty off s τ r) :
    ExprPost code sc n ty off s σ r := by
  cases r with
  | ok v =>
    obtain ⟨υ, st, hp, ha, hr, hss, ht⟩ := h₂
    exact ⟨υ, h₁.trans st, hp, ha, hr, hs.trans hss, ht⟩
  | err c p => exact ErrsWith.of_steps h₁ h₂
  | inexact => trivial
  | illFormed => trivial

/-- expressions: the code of `e` puts `Ref.eval e` into A -/
def ExprSpec (code : Code) (sc : Scope) (e : ArrL.Expr) : Prop :=
  ∀ (off : Nat) (s : St) (σ : Vm), CodeAt code off (compileExpr e) → σ.pc = off → Rel sc s σ → EWf sc e →
    ExprPost code sc (compileExpr e).length e.ty off s σ (ArrL.Ref.eval s.env s.arrs e)

/-- subscripts: the path on top of the path stack is extended by the converted subscripts; everything else — register A
included — is as before -/
def IdxPost (code : Code) (sc : Scope) (n off : Nat) (s : St) (σ : Vm) (pth : Path) (rest : List Path) :
    ERes (List Int) → Prop
  | .ok is => ∃ τ, Steps code σ τ ∧ τ.pc = off + n ∧ τ.regs.a = σ.regs.a ∧ Rel sc s τ ∧
      τ.paths = { pth with idx := pth.idx ++ is } :: rest ∧ τ.vals = σ.vals ∧ τ.regStack = σ.regStack ∧
      τ.ctx = σ.ctx ∧ τ.trace = σ.trace ∧ (σ.skipNewline = false → τ.skipNewline = false)
  | .err c p => ErrsWith code σ c p s.out
  | .inexact => True
  | .illFormed => True

def IdxSpec (code : Code) (sc : Scope) (idx : Exprs) : Prop :=
  ∀ (off : Nat) (s : St) (σ : Vm) (pth : Path) (rest : List Path), CodeAt code off (compileIdx idx) → σ.pc = off →
    Rel sc s σ → IdxWf sc idx → σ.paths = pth :: rest →
    IdxPost code sc (compileIdx idx).length off s σ pth rest (ArrL.Ref.evalIdx s.env s.arrs idx)

/-- what the code of a statement does, given what the reference semantics says the statement does -/
def StmtPost (code : Code) (sc : Scope) (n off : Nat) (σ : Vm) : St × Outcome → Prop
  | (s', .normal) => ∃ τ, Steps code σ τ ∧ τ.pc = off + n ∧ Rel sc s' τ ∧ SameStacks σ τ
  | (s', .halted) => HaltsWith code σ s'.out
  | (s', .error c p) => ErrsWith code σ c p s'.out
  | (_, .inexact) => True
  | (_, .outOfFuel) => True
  | (_, .illFormed) => True
  | (_, .tooBig) => True

def StmtIH (code : Code) (fuel : Nat) : Prop :=
  ∀ (sc : Scope) (stmt : SStmt) (sfx : String) (off : Nat) (s : St) (σ : Vm),
    CodeAt code off (compileStmt sfx off stmt) → σ.pc = off → Rel sc s σ → Wf sc stmt → ActInv σ →
    StmtPost code sc (sizeStmt stmt) off σ (ArrL.Ref.exec fuel (desugar stmt) s)

/-- the induction hypothesis at a given amount of fuel (expressions are pure and need none) -/
structure IH (code : Code) (fuel : Nat) : Prop where
  stmt : StmtIH code fuel

/-- the induction hypothesis at every smaller or equal amount of fuel -/
def IHle (code : Code) (fuel : Nat) : Prop := ∀ f, f ≤ fuel → IH code f

theorem IHle.self {code : Code} {fuel : Nat} (h : IHle code fuel) : IH code fuel := h fuel (Nat.le_refl _)

theorem IHle.mono {code : Code} {fuel f : Nat} (h : IHle code fuel) (hf : f ≤ fuel) : IHle code f :=
  fun g hg => h g (Nat.le_trans hg hf)

/-- an evaluation that ended the run ends the statement the same way -/
theorem StmtPost.of_err {code : Code} {sc : Scope} {n off : Nat} {σ : Vm} {s' : St}
    {o : Outcome} (h : ErrPost code σ s' o) : StmtPost code sc n off σ (s', o) := by
  cases o with
  | error c p => exact h
  | halted => exact h
  | inexact => trivial
  | outOfFuel => trivial
  | illFormed => trivial
  | tooBig => trivial
  | normal => exact h.elim

/-- an expression that did not yield a value ends the statement with its outcome -/
theorem ErrPost.of_expr {code : Code} {sc : Scope} {n : Nat} {ty : Ty} {off : Nat} {s : St} {σ : Vm} {r : ERes Val}
    (h : ExprPost code sc n ty off s σ r) (hn : ∀ v, r ≠ .ok v) : ErrPost code σ s (ArrL.Ref.outcomeOf r) := by
  cases r with
  | ok v => exact absurd rfl (hn v)
  | err c p => exact h
  | inexact => trivial
  | illFormed => trivial

/-- the statement's code is reached after some steps that leave the stacks alone -/
theorem StmtPost.of_steps {code : Code} {sc : Scope} {n off : Nat} {σ τ : Vm}
    {r : St × Outcome} (h₁ : Steps code σ τ) (hs : SameStacks σ τ)
    (h₂ : StmtPost code sc n off τ r) : StmtPost code sc n off σ r := by
  obtain ⟨s', o⟩ := r
  cases o with
  | normal =>
    obtain ⟨υ, st, hp, hr, hss⟩ := h₂
    exact ⟨υ, h₁.trans st, hp, hr, hs.trans hss⟩
  | halted => exact HaltsWith.of_steps h₁ h₂
  | error c p => exact ErrsWith.of_steps h₁ h₂
  | inexact => trivial
  | outOfFuel => trivial
  | illFormed => trivial
  | tooBig => trivial

/-- the same specification with the end address written differently -/
theorem StmtPost.addr {code : Code} {sc : Scope} {n off n' off' : Nat} {σ : Vm}
    {r : St × Outcome} (e : off + n = off' + n') (h : StmtPost code sc n off σ r) :
    StmtPost code sc n' off' σ r := by
  obtain ⟨s', o⟩ := r
  cases o with
  | normal =>
    obtain ⟨υ, st, hp, hr, hss⟩ := h
    exact ⟨υ, st, by rw [hp, e], hr, hss⟩
  | halted => exact h
  | error c p => exact h
  | inexact => trivial
  | outOfFuel => trivial
  | illFormed => trivial
  | tooBig => trivial

/-! ### loads, stores, conversions, conditions -/

/-- the state after `VarPathName x; CopyVarPathToA; PopVarPath` -/
def loadSt (τ : Vm) (v : Val) : Vm := { τ with pc := τ.pc + 3, regs := { τ.regs with a := .sc v } }

/-- reading a scalar variable into A: only A and the program counter change -/
theorem var_steps (code : Code) (sc : Scope) (s : St) (x : Nat) (t : Ty) (p : Pos)
    (τ : Vm) (hc : CodeAt code τ.pc (loadVar x p)) (hr : Rel sc s τ) (hx : sc.slots[x]? = some t) :
    Steps code τ (loadSt τ (s.env.getD x (zeroOf t))) := by
  have hv := hr.getVar hx
  have h0 : code[τ.pc]? = some (CInstr.varPath x, p) := hc.head
  have h1 : code[τ.pc + 1]? = some (CInstr.copyVarPathToA, p) := hc.tail.head
  have h2 : code[τ.pc + 1 + 1]? = some (CInstr.popVarPath, p) := hc.tail.tail.head
  let τ1 : Vm := Vm.advance { τ with paths := ⟨.var x, []⟩ :: τ.paths }
  let τ2 : Vm := Vm.advance (Vm.setRA τ1 (.sc (s.env.getD x (zeroOf t))))
  have s1 : Vm.step code τ = .next τ1 := by simp only [Vm.step, h0]; rfl
  have s2 : Vm.step code τ1 = .next τ2 := by
    simp only [Vm.step, τ1, Vm.advance, h1, readPath, hv]; rfl
  have s3 : Vm.step code τ2 = .next (loadSt τ (s.env.getD x (zeroOf t))) := by
    simp only [Vm.step, τ2, τ1, Vm.advance, Vm.setRA, h2, loadSt]
  exact Steps.cons s1 (Steps.cons s2 (Steps.one s3))

theorem Rel.loadSt {sc : Scope} {s : St} {τ : Vm} (h : Rel sc s τ) (v : Val) :
    Rel sc s (loadSt τ v) := h.same rfl rfl rfl rfl rfl rfl rfl

theorem SameStacks.loadSt (τ : Vm) (v : Val) : SameStacks τ (loadSt τ v) := ⟨rfl, rfl, rfl, rfl, rfl, id⟩

/-- the state after `VarPathName x; CopyAToVarPath` with the scalar `w` in A -/
def storeSt (τ : Vm) (x : Nat) (w : Val) : Vm :=
  { τ with pc := τ.pc + 2, env := τ.env.set x w }

/-- `VarPathName x; CopyAToVarPath`: store the scalar in A into variable `x`; the registers and the stacks are as they
were -/
theorem store_steps (code : Code) (x : Nat) (p : Pos) (τ : Vm) (w : Val) (hc : CodeAt code τ.pc (storeVar x p))
    (ha : τ.regs.a = .sc w) (hx : x < τ.env.length) : Steps code τ (storeSt τ x w) := by
  have h0 : code[τ.pc]? = some (CInstr.varPath x, p) := hc.head
  have h1 : code[τ.pc + 1]? = some (CInstr.copyAToVarPath, p) := hc.tail.head
  refine Steps.cons (τ := Vm.advance { τ with paths := ⟨.var x, []⟩ :: τ.paths }) ?_ (Steps.one ?_)
  · simp only [Vm.step, h0]
  · simp only [Vm.step, Vm.advance, h1, writePath, ha, hx, if_true, storeSt]

theorem Rel.lt {sc : Scope} {s : St} {τ : Vm} (h : Rel sc s τ) {x : Nat} {t : Ty} (hx : sc.slots[x]? = some t) :
    x < τ.env.length := by rw [h.env]; exact h.typed.lt hx

theorem Rel.storeSt {sc : Scope} {s : St} {τ : Vm} (h : Rel sc s τ) {x : Nat} {t : Ty} {w : Val}
    (hx : sc.slots[x]? = some t) (hv : w.tag = t) : Rel sc (s.set x w) (storeSt τ x w) :=
  h.store hx hv rfl rfl rfl rfl rfl rfl rfl

theorem SameStacks.storeSt (τ : Vm) (x : Nat) (w : Val) : SameStacks τ (storeSt τ x w) :=
  ⟨rfl, rfl, rfl, rfl, rfl, id⟩

/-- one instruction that rewrites A by a `Res`-valued operation -/
theorem resA_ok {code : Code} {σ : Vm} {p : Pos} {r : Res Val} {w : Val} (hstep : Vm.step code σ = Vm.resA σ p r)
    (h : r = .ok w) : Steps code σ (Vm.advance (Vm.setA σ w)) := by
  subst h; exact Steps.one (by rw [hstep]; rfl)

theorem resA_err {code : Code} {σ : Vm} {p : Pos} {r : Res Val} {e : Err} (hstep : Vm.step code σ = Vm.resA σ p r)
    (h : r = .err e) : ErrsWith code σ (ArrL.Ref.codeOf e) p σ.out := by
  subst h; exact ⟨σ, σ, Steps.refl _, (by rw [hstep]; rfl), rfl⟩

/-- the optional `Cast t` after an expression whose static type is `ty` (`generate_expression_instructions_casting`,
subscripts) -/
theorem cast_tail (code : Code) (sc : Scope) (s : St) (ty t : Ty) (p : Pos) (τ : Vm) (v : Val)
    (hc : CodeAt code τ.pc (if ty = t then [] else [(CInstr.cast t, p)])) (hr : Rel sc s τ)
    (ha : τ.regs.a = .sc v) (hv : v.tag = ty) :
    ExprPost code sc (if ty = t then 0 else 1) t τ.pc s τ (ArrL.Ref.lift p (storeCast ty t v)) := by
  unfold storeCast
  by_cases hty : ty = t
  · simp only [hty, if_true, ArrL.Ref.lift, ExprPost, Nat.add_zero]
    exact ⟨τ, Steps.refl τ, rfl, ha, hr, SameStacks.refl τ, by rw [hv, hty]⟩
  · simp only [hty, if_false] at hc ⊢
    have h0 : code[τ.pc]? = some (CInstr.cast t, p) := hc.head
    have hs : Vm.step code τ = Vm.resA τ p (cast v t) := by simp only [Vm.step, h0, onA, ha]
    cases hcst : cast v t with
    | ok w =>
      simp only [ArrL.Ref.lift, ExprPost]
      exact ⟨_, resA_ok hs hcst, rfl, rfl, (hr.setA w).advance, ⟨rfl, rfl, rfl, rfl, rfl, id⟩,
        cast_tag _ _ _ hcst⟩
    | err e =>
      simp only [ArrL.Ref.lift, ExprPost]
      rw [← hr.out]; exact resA_err hs hcst
    | inexact => simp only [ArrL.Ref.lift, ExprPost]

/-- evaluating an expression and converting it to the type of the receiving location:
`generate_expression_instructions_casting` -/
theorem exprTo_correct (code : Code) (sc : Scope) (e : ArrL.Expr) (hE : ExprSpec code sc e) (t : Ty) (off : Nat)
    (s : St) (σ : Vm)
    (hc : CodeAt code off (compileExprTo e t)) (hpc : σ.pc = off) (hr : Rel sc s σ) (hw : EWf sc e) :
    ExprPost code sc (compileExprTo e t).length t off s σ (ArrL.Ref.evalTo s.env s.arrs e t) := by
  simp only [compileExprTo] at hc
  have he := hE off s σ hc.append_left hpc hr hw
  simp only [ArrL.Ref.evalTo, compileExprTo, List.length_append]
  generalize ArrL.Ref.eval s.env s.arrs e = r at he ⊢
  cases r with
  | err c p => exact he
  | inexact => trivial
  | illFormed => trivial
  | ok v =>
    obtain ⟨τ, st, hp, ha, hrel, hss, htag⟩ := he
    have hct : CodeAt code τ.pc (if e.ty = t then [] else [(CInstr.cast t, e.pos)]) := by
      have := hc.append_right
      rw [hp]; exact this
    have := cast_tail code sc s e.ty t e.pos τ v hct hrel ha htag
    simp only [ArrL.Ref.ERes.bind]
    generalize ArrL.Ref.lift e.pos (storeCast e.ty t v) = r2 at this ⊢
    have hlen : (if e.ty = t then ([] : Code) else [(CInstr.cast t, e.pos)]).length = if e.ty = t then 0 else 1 := by
      by_cases h : e.ty = t <;> simp [h]
    cases r2 with
    | err c p => exact ErrsWith.of_steps st this
    | inexact => trivial
    | illFormed => trivial
    | ok w =>
      obtain ⟨υ, st2, hp2, ha2, hrel2, hss2, htag2⟩ := this
      exact ⟨υ, st.trans st2, by rw [hp2, hp, hlen]; omega, ha2, hrel2, hss.trans hss2, htag2⟩

/-- a value or the outcome that ends the statement (`Ref.evalE`) -/
def ValPost (code : Code) (sc : Scope) (n : Nat) (ty : Ty) (off : Nat) (s : St) (σ : Vm) : Except Outcome Val → Prop
  | .ok v => ∃ τ, Steps code σ τ ∧ τ.pc = off + n ∧ τ.regs.a = .sc v ∧ Rel sc s τ ∧ SameStacks σ τ ∧ v.tag = ty
  | .error o => ErrPost code σ s o

theorem evalE_correct (code : Code) (sc : Scope) (e : ArrL.Expr) (hE : ExprSpec code sc e) (off : Nat)
    (s : St) (σ : Vm) (hc : CodeAt code off (compileExpr e)) (hpc : σ.pc = off) (hr : Rel sc s σ) (hw : EWf sc e) :
    ValPost code sc (compileExpr e).length e.ty off s σ (ArrL.Ref.evalE s e) := by
  have he := hE off s σ hc hpc hr hw
  simp only [ArrL.Ref.evalE]
  generalize ArrL.Ref.eval s.env s.arrs e = r at he ⊢
  cases r with
  | ok v => exact he
  | err c p => exact he
  | inexact => trivial
  | illFormed => trivial

/-- a condition followed by `JumpIfFalse no`: control arrives at `yes` (true) or `no` (false) -/
def CondPost (code : Code) (sc : Scope) (yes no : Nat) (s : St) (σ : Vm) : Except Outcome Bool → Prop
  | .ok true => ∃ τ, Steps code σ τ ∧ τ.pc = yes ∧ Rel sc s τ ∧ SameStacks σ τ
  | .ok false => ∃ τ, Steps code σ τ ∧ τ.pc = no ∧ Rel sc s τ ∧ SameStacks σ τ
  | .error o => ErrPost code σ s o

theorem truthy_of_tag {v : Val} (h : v.tag ≠ .str) : ∃ b, ArrL.Ref.truthy v = some b := by
  cases v with
  | int i => exact ⟨_, rfl⟩
  | long i => exact ⟨_, rfl⟩
  | sgl q => exact ⟨_, rfl⟩
  | dbl q => exact ⟨_, rfl⟩
  | str l => exact absurd rfl h

/-- `<cond>; JumpIfFalse target` -/
theorem cond_correct (code : Code) (sc : Scope) (c : ArrL.Expr) (hE : ExprSpec code sc c) (target : Nat) (p : Pos)
    (off : Nat) (s : St) (σ : Vm)
    (hc : CodeAt code off (compileExpr c ++ [(CInstr.jumpIfFalse target, p)])) (hpc : σ.pc = off)
    (hr : Rel sc s σ) (hw : EWf sc c) (hn : c.ty ≠ .str) :
    CondPost code sc (off + (compileExpr c).length + 1) target s σ (ArrL.Ref.evalCond s c) := by
  have he := hE off s σ hc.append_left hpc hr hw
  have hj : code[off + (compileExpr c).length]? = some (CInstr.jumpIfFalse target, p) := hc.append_right.head
  simp only [ArrL.Ref.evalCond]
  generalize ArrL.Ref.eval s.env s.arrs c = r at he ⊢
  cases r with
  | err c p => exact he
  | inexact => trivial
  | illFormed => trivial
  | ok v =>
    obtain ⟨τ, st, hp, ha, hrel, hss, htag⟩ := he
    obtain ⟨b, hb⟩ := truthy_of_tag (v := v) (by rw [htag]; exact hn)
    have hj' : code[τ.pc]? = some (CInstr.jumpIfFalse target, p) := by rw [hp]; exact hj
    have hb' : RbModel.Ref.truthy v = some b := hb
    simp only [hb]
    cases b with
    | true =>
      refine ⟨Vm.advance τ, st.trans (Steps.one ?_), by simp [Vm.advance, hp], hrel.advance,
        hss.trans ⟨rfl, rfl, rfl, rfl, rfl, id⟩⟩
      simp only [Vm.step, hj', onA, ha, hb']
    | false =>
      refine ⟨{ τ with pc := target }, st.trans (Steps.one ?_), rfl, hrel.setPc target,
        hss.trans ⟨rfl, rfl, rfl, rfl, rfl, id⟩⟩
      simp only [Vm.step, hj', onA, ha, hb']

/-- with no fuel every specification holds (the reference semantics says `outOfFuel`) -/
theorem ih_zero (code : Code) : IH code 0 := by
  refine ⟨?_⟩
  intro sc stmt sfx off s σ _ _ _ _ _; simp only [ArrL.Ref.exec, StmtPost]

end RbThm.ArrLSim
