import RbModel.AoR.Ref
import Thm.RecLTyping
/-!
Layer AoR (arrays of records / of fixed-length strings) — static typing of expressions and the typing / no-NUL invariants
of the reference state (`AoR.Ref`), shared by `Thm/AoRProps.lean` (the property-level statements) and `Thm/AoRSimBase.lean`
(the state relation of the simulation).

* `ExprTyped` / `IdxTyped` / `ElemTyped`: what the linter establishes about an `AoR.Expr` (the Prop behind `AoR.eWfB`);
* `ArrsTyped`: every dimensioned array has the element type of the array table, and EVERY element (stored or not) has
  that type — `HasTy`: every `STRING * n` location at any depth holds exactly `n` characters; `ArrsNoNul`;
* `eval_typed`, `eval_noNul`, `evalTo_typed`, `evalTo_noNul`, `evalToS_tag`: ports of `Thm/RecLTyping.lean`.
-/
namespace RbThm.AoRTy
set_option linter.unusedVariables false
set_option linter.unusedSimpArgs false
open RbModel RbModel.Num RbModel.AoR
open RbModel.Ast (Pos)
open RbModel.RecL (ETy FTy FFields expand)
open RbModel.RecL.Spec (HasTy FieldsHaveTy EnvTyped NoNul NoNulVal NoNulFs TypesWf PathTyped)
open RbThm.ArrLNum RbThm.RecLTy

abbrev RArr := RbModel.AoR.Ref.RArr
abbrev Env := RbModel.AoR.Ref.Env

/-- a built-in numeric type (conditions, subscripts, bounds) -/
def NumTy (t : ETy) : Prop := ∃ q, t = .sc q ∧ q ≠ .str

/-- the field path below an element of array `a` leads to a location of static type `t` -/
def ElemTyped (types : List FFields) (al : List ETy) (a : Nat) (path : List String) (t : ETy) : Prop :=
  ∃ et root ft, al[a]? = some et ∧ expand types et = some root ∧ root.at path = some ft ∧ ft.flat = t

def Exprs.isNilP : Exprs → Prop
  | .nil => True
  | .cons _ _ => False

mutual
/-- expressions: variables, fields and element fields exist at the type the node carries, subscripts and dimension
arguments are numbers, operators see scalars and carry the type of the checker's table, string literals hold no NUL -/
def ExprTyped (types : List FFields) (slots al : List ETy) : AoR.Expr → Prop
  | .lit v _ => NoNulVal v
  | .var x path t _ => PathTyped types slots x path t
  | .un _ e _ => ExprTyped types slots al e ∧ ∃ t, e.ty = .sc t
  | .bin op l r t _ =>
    ExprTyped types slots al l ∧ ExprTyped types slots al r ∧
      ∃ tl tr, RecL.Ref.ETy.asTy l.ty = some tl ∧ RecL.Ref.ETy.asTy r.ty = some tr ∧
        (op = .divide ∨ Gen.NumTables.binType op tl tr = some t)
  | .paren e _ => ExprTyped types slots al e
  | .elem a idx path t _ => ElemTyped types al a path t ∧ ¬ Exprs.isNilP idx ∧ IdxTyped types slots al idx
  | .bound _ a _ _ => a < al.length
  | .boundD _ a _ d _ => a < al.length ∧ ExprTyped types slots al d ∧ NumTy d.ty ∧ d.isRef = false
def IdxTyped (types : List FFields) (slots al : List ETy) : Exprs → Prop
  | .nil => True
  | .cons e rest => ExprTyped types slots al e ∧ NumTy e.ty ∧ IdxTyped types slots al rest
end

/-- every dimensioned array has its declared element type, and so has every one of its elements -/
def ArrsTyped (types : List FFields) (al : List ETy) (ra : List (Option RArr)) : Prop :=
  ra.length = al.length ∧
  ∀ (a : Nat) (A : RArr), ra[a]? = some (some A) →
    ∃ et, al[a]? = some et ∧ expand types et = some A.ty ∧ ∀ is, HasTy A.ty (A.get is)

/-- no NUL character in any element of any array -/
def ArrsNoNul (ra : List (Option RArr)) : Prop :=
  ∀ (a : Nat) (A : RArr), ra[a]? = some (some A) → ∀ is, NoNul (A.get is)

theorem getArr_ok {arrs : List (Option RArr)} {a : Nat} {A : RArr} (h : AoR.Ref.getArr arrs a = .ok A) :
    arrs[a]? = some (some A) := by
  unfold AoR.Ref.getArr at h
  split at h
  · next h' => injection h with h; subst h; exact h'
  · cases h

theorem boundOf_typed {up : Bool} {A : RArr} {k : Int} {p : Pos} {v : RRV}
    (h : AoR.Ref.boundOf up A k p = .ok v) : HasTy (.sc .int) v := by
  unfold AoR.Ref.boundOf at h
  split at h
  · cases h
  · split at h
    · injection h with h; subst h
      simp only [HasTy, RecL.Spec.HasTy]; exact ⟨_, rfl, rfl⟩
    · cases h

theorem boundOf_noNul {up : Bool} {A : RArr} {k : Int} {p : Pos} {v : RRV}
    (h : AoR.Ref.boundOf up A k p = .ok v) : NoNul v := by
  obtain ⟨a, rfl, ht⟩ := hasTy_sc (boundOf_typed h)
  simp only [NoNul, RecL.Spec.NoNul]
  exact noNulVal_of_tag (by rw [ht]; decide)

/-- **the value of a statically typed expression has the expression's static type** (in a typed environment) -/
theorem eval_typed {types : List FFields} {slots al : List ETy} {env : Env} {arrs : List (Option RArr)} (hw : TypesWf types)
    (henv : EnvTyped types slots env) (harr : ArrsTyped types al arrs) (e : AoR.Expr) (v : RRV)
    (ht : ExprTyped types slots al e) (h : AoR.Ref.eval env arrs e = .ok v) :
    ∃ ft, expand types e.ty = some ft ∧ HasTy ft v := by
  cases e with
  | lit a q =>
    simp only [AoR.Ref.eval] at h; injection h with h; subst h
    exact ⟨.sc a.tag, rfl, by simp only [HasTy]; exact ⟨a, rfl, rfl⟩⟩
  | var x path t q =>
    simp only [ExprTyped] at ht
    obtain ⟨st, root, ft, h1, h2, h3, h4⟩ := pathTyped_expand hw ht
    simp only [AoR.Ref.eval] at h
    cases hx : env[x]? with
    | none => simp [hx] at h
    | some o =>
      cases o with
      | none => simp [hx] at h
      | some rv =>
        simp only [hx] at h
        obtain ⟨v', hv', hvt⟩ := hasTy_getPath path root ft rv (envTyped_lookup henv h1 h2 hx) h3
        simp only [hv'] at h
        injection h with h; subst h
        exact ⟨ft, h4, hvt⟩
  | un op e p =>
    simp only [ExprTyped] at ht
    obtain ⟨hte, t, hty⟩ := ht
    have key : ∀ (f : Val → Res Val), (∀ a w, f a = .ok w → w.tag = a.tag) →
        ((AoR.Ref.eval env arrs e).bind fun v => (RecL.Ref.asScalar v).bind fun a => (RecL.Ref.lift p (f a)).bind fun r => .ok (.sc r))
          = .ok v → ∃ ft, expand types e.ty = some ft ∧ HasTy ft v := by
      intro f hf h
      obtain ⟨v1, h1, h⟩ := eres_bind_ok h
      obtain ⟨a, h2, h⟩ := eres_bind_ok h
      obtain ⟨r, h3, h⟩ := eres_bind_ok h
      injection h with h; subst h
      obtain ⟨ft, hft, hv1⟩ := eval_typed hw henv harr e v1 hte h1
      rw [hty] at hft ⊢
      simp only [expand] at hft; injection hft with hft; subst hft
      obtain ⟨a', ha', hat⟩ := hasTy_sc hv1
      rw [asScalar_ok h2] at ha'; injection ha' with ha'; subst ha'
      refine ⟨.sc t, rfl, ?_⟩
      simp only [HasTy]
      exact ⟨r, rfl, by rw [hf a r (lift_ok h3)]; exact hat⟩
    cases op with
    | neg => simp only [AoR.Ref.eval] at h; exact key negate negate_tag h
    | not => simp only [AoR.Ref.eval] at h; exact key unaryNot unaryNot_tag h
  | bin op l r t p =>
    simp only [ExprTyped] at ht
    obtain ⟨htl, htr, tl, tr, hal, har, hop⟩ := ht
    simp only [AoR.Ref.eval] at h
    obtain ⟨v1, h1, h⟩ := eres_bind_ok h
    obtain ⟨a, h2, h⟩ := eres_bind_ok h
    obtain ⟨v2, h3, h⟩ := eres_bind_ok h
    obtain ⟨b, h4, h⟩ := eres_bind_ok h
    obtain ⟨w, h5, h⟩ := eres_bind_ok h
    injection h with h; subst h
    obtain ⟨ft1, hft1, hv1⟩ := eval_typed hw henv harr l v1 htl h1
    obtain ⟨ft2, hft2, hv2⟩ := eval_typed hw henv harr r v2 htr h3
    obtain ⟨a', ha', hat⟩ := hasTy_asTy hft1 hal hv1
    obtain ⟨b', hb', hbt⟩ := hasTy_asTy hft2 har hv2
    rw [asScalar_ok h2] at ha'; injection ha' with ha'; subst ha'
    rw [asScalar_ok h4] at hb'; injection hb' with hb'; subst hb'
    refine ⟨.sc t, rfl, ?_⟩
    simp only [HasTy]
    exact ⟨w, rfl, binStep_tag op tl tr t a b w hat hbt hop (lift_ok h5)⟩
  | paren e q =>
    simp only [ExprTyped] at ht
    simp only [AoR.Ref.eval] at h
    exact eval_typed hw henv harr e v ht h
  | elem a idx path t p =>
    simp only [ExprTyped] at ht
    obtain ⟨⟨et, root, ft, h1, h2, h3, h4⟩, _, _⟩ := ht
    simp only [AoR.Ref.eval] at h
    obtain ⟨is, _, h⟩ := eres_bind_ok h
    obtain ⟨A, hA, h⟩ := eres_bind_ok h
    by_cases hb : A.inBounds is = true
    · simp only [hb, if_true] at h
      obtain ⟨et', he1, he2, hty⟩ := harr.2 a A (getArr_ok hA)
      rw [h1] at he1; injection he1 with he1; subst he1
      rw [h2] at he2; injection he2 with he2
      obtain ⟨v', hv', hvt⟩ := hasTy_getPath path root ft (A.get is) (by rw [he2]; exact hty is) h3
      simp only [hv'] at h
      injection h with h; subst h
      exact ⟨ft, by rw [← h4]; exact expand_flat (tyIn_at hw path root ft (tyIn_expand h2) h3), hvt⟩
    · simp [hb] at h
  | bound up a ap p =>
    simp only [AoR.Ref.eval] at h
    obtain ⟨A, _, h⟩ := eres_bind_ok h
    exact ⟨.sc .int, rfl, boundOf_typed h⟩
  | boundD up a ap d p =>
    simp only [AoR.Ref.eval] at h
    obtain ⟨A, _, h⟩ := eres_bind_ok h
    obtain ⟨dv, _, h⟩ := eres_bind_ok h
    obtain ⟨dv', _, h⟩ := eres_bind_ok h
    obtain ⟨k, _, h⟩ := eres_bind_ok h
    exact ⟨.sc .int, rfl, boundOf_typed h⟩
termination_by sizeOf e

theorem eval_noNul {types : List FFields} {slots al : List ETy} {env : Env} {arrs : List (Option RArr)}
    (hn : ∀ (x : Nat) (v : RRV), env[x]? = some (some v) → NoNul v) (hna : ArrsNoNul arrs)
    (e : AoR.Expr) (v : RRV) (ht : ExprTyped types slots al e) (h : AoR.Ref.eval env arrs e = .ok v) : NoNul v := by
  cases e with
  | lit a q =>
    simp only [AoR.Ref.eval] at h; injection h with h; subst h
    simp only [ExprTyped] at ht
    simpa only [NoNul] using ht
  | var x path t q =>
    simp only [AoR.Ref.eval] at h
    cases hx : env[x]? with
    | none => simp [hx] at h
    | some o =>
      cases o with
      | none => simp [hx] at h
      | some rv =>
        simp only [hx] at h
        cases hp : rv.getPath path with
        | none => simp [hp] at h
        | some v' =>
          simp only [hp] at h; injection h with h; subst h
          exact noNul_getPath path rv v' (hn x rv hx) hp
  | un op e p =>
    cases op with
    | neg =>
      simp only [AoR.Ref.eval] at h
      obtain ⟨v1, _, h⟩ := eres_bind_ok h
      obtain ⟨a, _, h⟩ := eres_bind_ok h
      obtain ⟨r, h3, h⟩ := eres_bind_ok h
      injection h with h; subst h
      simp only [NoNul]; exact negate_noNul (lift_ok h3)
    | not =>
      simp only [AoR.Ref.eval] at h
      obtain ⟨v1, _, h⟩ := eres_bind_ok h
      obtain ⟨a, _, h⟩ := eres_bind_ok h
      obtain ⟨r, h3, h⟩ := eres_bind_ok h
      injection h with h; subst h
      simp only [NoNul]; exact unaryNot_noNul (lift_ok h3)
  | bin op l r t p =>
    simp only [ExprTyped] at ht
    simp only [AoR.Ref.eval] at h
    obtain ⟨v1, h1, h⟩ := eres_bind_ok h
    obtain ⟨a, h2, h⟩ := eres_bind_ok h
    obtain ⟨v2, h3, h⟩ := eres_bind_ok h
    obtain ⟨b, h4, h⟩ := eres_bind_ok h
    obtain ⟨w, h5, h⟩ := eres_bind_ok h
    injection h with h; subst h
    have n1 := eval_noNul hn hna l v1 ht.1 h1
    have n2 := eval_noNul hn hna r v2 ht.2.1 h3
    rw [asScalar_ok h2] at n1
    rw [asScalar_ok h4] at n2
    simp only [NoNul] at n1 n2 ⊢
    exact binStep_noNul (lift_ok h5) n1 n2
  | paren e q =>
    simp only [ExprTyped] at ht
    simp only [AoR.Ref.eval] at h
    exact eval_noNul hn hna e v ht h
  | elem a idx path t p =>
    simp only [AoR.Ref.eval] at h
    obtain ⟨is, _, h⟩ := eres_bind_ok h
    obtain ⟨A, hA, h⟩ := eres_bind_ok h
    by_cases hb : A.inBounds is = true
    · simp only [hb, if_true] at h
      cases hp : (A.get is).getPath path with
      | none => simp [hp] at h
      | some v' =>
        simp only [hp] at h; injection h with h; subst h
        exact noNul_getPath path _ v' (hna a A (getArr_ok hA) is) hp
    · simp [hb] at h
  | bound up a ap p =>
    simp only [AoR.Ref.eval] at h
    obtain ⟨A, _, h⟩ := eres_bind_ok h
    exact boundOf_noNul h
  | boundD up a ap d p =>
    simp only [AoR.Ref.eval] at h
    obtain ⟨A, _, h⟩ := eres_bind_ok h
    obtain ⟨dv, _, h⟩ := eres_bind_ok h
    obtain ⟨dv', _, h⟩ := eres_bind_ok h
    obtain ⟨k, _, h⟩ := eres_bind_ok h
    exact boundOf_noNul h
termination_by sizeOf e

/-- the converted value a store receives has the type of the receiving location -/
theorem evalTo_typed {types : List FFields} {slots al : List ETy} {env : Env} {arrs : List (Option RArr)} (hw : TypesWf types)
    (henv : EnvTyped types slots env) (harr : ArrsTyped types al arrs)
    {e : AoR.Expr} {t : ETy} {ft : FTy} {v : RRV} (he : ExprTyped types slots al e) (ht : expand types t = some ft)
    (h : AoR.Ref.evalTo env arrs e t = .ok v) : HasTy ft v := by
  simp only [AoR.Ref.evalTo] at h
  obtain ⟨v0, h1, h2⟩ := eres_bind_ok h
  obtain ⟨ft0, hft0, hv0⟩ := eval_typed hw henv harr e v0 he h1
  rcases conv_typed hft0 hv0 h2 with ⟨h3, h4⟩ | ⟨_, ft', h3, h4⟩
  · subst h4
    rw [h3, ht] at hft0; injection hft0 with hft0; subst hft0; exact hv0
  · rw [ht] at h3; injection h3 with h3; subst h3; exact h4

/-- … and holds no NUL -/
theorem evalTo_noNul {types : List FFields} {slots al : List ETy} {env : Env} {arrs : List (Option RArr)}
    (hn : ∀ (x : Nat) (v : RRV), env[x]? = some (some v) → NoNul v) (hna : ArrsNoNul arrs)
    {e : AoR.Expr} {t : ETy} {v : RRV} (he : ExprTyped types slots al e)
    (h : AoR.Ref.evalTo env arrs e t = .ok v) : NoNul v := by
  simp only [AoR.Ref.evalTo] at h
  obtain ⟨v0, h1, h2⟩ := eres_bind_ok h
  exact conv_noNul (eval_noNul hn hna e v0 he h1) h2

/-- a FOR bound converted to the counter's type is a scalar of that type -/
theorem evalToS_tag {types : List FFields} {slots al : List ETy} {env : Env} {arrs : List (Option RArr)} (hw : TypesWf types)
    (henv : EnvTyped types slots env) (harr : ArrsTyped types al arrs) {e : AoR.Expr} {t : Ty} {a : Val} (he : ExprTyped types slots al e)
    (h : AoR.Ref.evalToS env arrs e t = .ok a) : a.tag = t := by
  simp only [AoR.Ref.evalToS] at h
  obtain ⟨w, h1, h2⟩ := eres_bind_ok h
  have hwa := asScalar_ok h2
  subst hwa
  have := evalTo_typed (ft := .sc t) hw henv harr he rfl h1
  obtain ⟨a', ha', hat⟩ := hasTy_sc this
  injection ha' with ha'; subst ha'
  exact hat


end RbThm.AoRTy
